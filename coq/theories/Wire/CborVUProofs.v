(* Wire/CborVUProofs — lemmas about the cbor decoder with ValidateUnicode (Wire/CborVU.v):
     vu_rel        for every input, fuel and option vector the decoder with the option either behaves
                   exactly as the decoder without it or stops with the validation error; with the option
                   off it IS the decoder of Wire/Cbor.v
     vu_total      hence it never runs out of fuel [fuel_for b]
     vu_sound      an Ok result holds no ill-formed text in value position (RawToString off)
     vu_in         every well-formed serialisation whose text strings (each chunk, each whole) are
                   well-formed UTF-8 is accepted with the value the decoder without the option gives *)
From Coq Require Import List NArith ZArith Lia Bool Arith.
From Verif Require Import Base.Outcome Wire.Item Gen.Consts Wire.CborFloat Wire.Cbor C10.CborSpec C10.CborConv.
From Verif Require Import Wire.CborProofs Wire.CborTotal Wire.CborVU.
Import ListNotations.
Open Scope N_scope.

(* ================================================================== *)
(* the option only ever adds one way to fail *)

(* x: a run with ValidateUnicode = E, y: the run without *)
Definition rel0 {A} (E : bool) (x y : res A) : Prop := x = y \/ (E = true /\ x = Err EOther).
Definition relE {A} (E : bool) (x y : resI A) : Prop := rel0 E (fst x) (fst y).

Lemma rel0_refl {A} : forall E (x : res A), rel0 E x x.
Proof. intros. left. reflexivity. Qed.
Lemma relE_refl {A} : forall E (x : resI A), relE E x x.
Proof. intros. left. reflexivity. Qed.

Lemma bind_rel0 {A B} : forall E (m m' : res A) (k k' : A -> res B),
  rel0 E m m' -> (forall a, rel0 E (k a) (k' a)) -> rel0 E (bind m k) (bind m' k').
Proof.
  intros E m m' k k' [->|[HE ->]] Hk.
  - destruct m' as [a|e|]; cbn [bind]; [apply Hk|left; reflexivity|left; reflexivity].
  - right. split; [assumption|reflexivity].
Qed.

Lemma bindI_relE {A B} : forall E (m m' : resI A) (k k' : A -> resI B),
  relE E m m' -> (forall a, relE E (k a) (k' a)) -> relE E (bindI m k) (bindI m' k').
Proof.
  intros E m m' k k' H Hk. unfold relE, bindI in *. destruct H as [H|[HE H]].
  - rewrite H. destruct (fst m') as [a|e|]; cbn [fst]; [apply Hk|left; reflexivity|left; reflexivity].
  - rewrite H. cbn [fst]. right. split; [assumption|reflexivity].
Qed.

Lemma liftI_relE {A} : forall E r r' (x y : res A), rel0 E x y -> relE E (liftI r x) (liftI r' y).
Proof. intros. exact H. Qed.

Lemma dec_chunks_rel : forall vu f mt b, rel0 vu (dec_chunks_vu vu f mt b) (dec_chunks f mt b).
Proof.
  intros vu. induction f as [|f IH]; intros mt b; [left; reflexivity|].
  cbn [dec_chunks_vu dec_chunks]. destruct b as [|bd b1]; [left; reflexivity|].
  destruct (bd =? bdBreak); [left; reflexivity|].
  destruct (negb (bd / 32 =? mt)); [left; reflexivity|].
  apply bind_rel0; [apply rel0_refl|]. intros [n b2].
  apply bind_rel0; [apply rel0_refl|]. intros [c b3].
  destruct (vu && (mt =? majString) && negb (utf8_valid c)) eqn:Ev.
  - right. split; [|reflexivity]. destruct vu; [reflexivity|discriminate].
  - apply bind_rel0; [apply IH|]. intros [cs b4]. apply rel0_refl.
Qed.

Lemma dec_str_body_rel : forall vu f bd b1, rel0 vu (dec_str_body_vu vu f bd b1) (dec_str_body f bd b1).
Proof.
  intros. unfold dec_str_body_vu, dec_str_body.
  destruct ((bd =? bdIndefBytes) || (bd =? bdIndefString)); [apply dec_chunks_rel|apply rel0_refl].
Qed.

Lemma dec_bytes_fresh_rel : forall vu D f b, rel0 vu (dec_bytes_fresh_vu vu D f b) (dec_bytes_fresh D f b).
Proof.
  intros. unfold dec_bytes_fresh_vu, dec_bytes_fresh. destruct b as [|bd0 b0]; [apply rel0_refl|].
  destruct ((bd0 =? bdNil) || (bd0 =? bdUndefined)); [apply rel0_refl|].
  apply bind_rel0; [apply rel0_refl|]. intros [bd b1].
  destruct ((bd / 32 =? majBytes) || (bd / 32 =? majString)); [apply dec_str_body_rel|apply rel0_refl].
Qed.

Lemma dec_text_rel : forall vu f bd b1 (g : list N -> item),
  rel0 vu (do (s, b2) <- dec_text_vu vu f bd b1 ;; Ok (g s, b2)) (do (s, b2) <- dec_str_body f bd b1 ;; Ok (g s, b2)).
Proof.
  intros. unfold dec_text_vu.
  destruct (dec_str_body_rel vu f bd b1) as [->|[HE ->]]; [|right; split; [assumption|reflexivity]].
  destruct (dec_str_body f bd b1) as [[s b2]|e|]; cbn [bind]; try (left; reflexivity).
  destruct (vu && negb (utf8_valid s)) eqn:Ev; cbn [bind]; [|left; reflexivity].
  right. split; [|reflexivity]. destruct vu; [reflexivity|discriminate].
Qed.

Section RelBody.
  Variable vu : bool.
  Variable D : dopts.
  Variable f' : nat.
  Variable self self' : Z -> nat -> list N -> resI (item * list N).
  Variable arrd arrd' : Z -> nat -> N -> list N -> resI (list item * list N).
  Variable arri arri' : Z -> nat -> list N -> resI (list item * list N).
  Variable mapd mapd' : Z -> nat -> N -> list item -> list N -> resI (list (item * item) * list N).
  Variable mapi mapi' : Z -> nat -> list item -> list N -> resI (list (item * item) * list N).
  Hypothesis Hself : forall d r b, relE vu (self d r b) (self' d r b).
  Hypothesis Harrd : forall d r n b, relE vu (arrd d r n b) (arrd' d r n b).
  Hypothesis Harri : forall d r b, relE vu (arri d r b) (arri' d r b).
  Hypothesis Hmapd : forall d r n s b, relE vu (mapd d r n s b) (mapd' d r n s b).
  Hypothesis Hmapi : forall d r s b, relE vu (mapi d r s b) (mapi' d r s b).

  Lemma dec_tag_rel : forall d r t b2, relE vu (dec_tag D f' self d r t b2) (dec_tag D f' self' d r t b2).
  Proof.
    intros. unfold dec_tag.
    destruct (t =? 0); [apply relE_refl|]. destruct (t =? 1); [apply relE_refl|].
    destruct ((t =? 2) || (t =? 3)); [apply relE_refl|]. destruct ((t =? 4) || (t =? 5)); [apply relE_refl|].
    destruct ((t =? 55799) || do_skiptags D); [apply Hself|].
    destruct (depth_ok D d); [|apply relE_refl].
    apply bindI_relE; [apply Hself|]. intros [v b3]. apply relE_refl.
  Qed.

  Lemma dec_tag_vu_rel : forall d r t b2, relE vu (dec_tag_vu vu D f' self d r t b2) (dec_tag D f' self' d r t b2).
  Proof.
    intros. unfold dec_tag_vu. destruct (t =? 0) eqn:E0.
    - unfold dec_tag. rewrite E0. apply liftI_relE.
      apply bind_rel0; [apply dec_bytes_fresh_rel|]. intros [s b3].
      destruct (vu && negb (utf8_valid s)) eqn:Ev; [|apply rel0_refl].
      right. split; [|reflexivity]. destruct vu; [reflexivity|discriminate].
    - destruct ((t =? 2) || (t =? 3)) eqn:E23.
      + unfold dec_tag. rewrite E0. replace (t =? 1) with false.
        2:{ symmetry. apply N.eqb_neq. intros ->. discriminate. }
        rewrite E23. apply liftI_relE. apply bind_rel0; [apply dec_bytes_fresh_rel|]. intros [s b3]. apply rel0_refl.
      + apply dec_tag_rel.
  Qed.

  Lemma dec_body_rel : forall d r bd b1,
    relE vu (dec_body D f' self arrd arri mapd mapi d r bd b1) (dec_body D f' self' arrd' arri' mapd' mapi' d r bd b1).
  Proof.
    intros. unfold dec_body. destruct (kind_of bd); try apply relE_refl.
    - destruct (bd =? bdIndefArray).
      + destruct (depth_ok D d); [|apply relE_refl]. apply bindI_relE; [apply Harri|]. intros [l b2]. apply relE_refl.
      + apply bindI_relE; [apply relE_refl|]. intros [n b2].
        destruct (depth_ok D d); [|apply relE_refl]. apply bindI_relE; [apply Harrd|]. intros [l b3]. apply relE_refl.
    - destruct (bd =? bdIndefMap).
      + destruct (depth_ok D d); [|apply relE_refl]. apply bindI_relE; [apply Hmapi|]. intros [l b2]. apply relE_refl.
      + apply bindI_relE; [apply relE_refl|]. intros [n b2].
        destruct (depth_ok D d); [|apply relE_refl]. apply bindI_relE; [apply Hmapd|]. intros [l b3]. apply relE_refl.
    - apply bindI_relE; [apply relE_refl|]. intros [t b2]. apply dec_tag_rel.
  Qed.

  Lemma dec_body_vu_rel : forall d r bd b1,
    relE vu (dec_body_vu vu D f' self arrd arri mapd mapi d r bd b1) (dec_body D f' self' arrd' arri' mapd' mapi' d r bd b1).
  Proof.
    intros. unfold dec_body_vu. destruct (kind_of bd) eqn:K; try (apply dec_body_rel).
    - unfold dec_body. rewrite K. apply liftI_relE. apply (dec_text_rel vu f' bd b1 IStr).
    - unfold dec_body. rewrite K. apply bindI_relE; [apply relE_refl|]. intros [t b2]. apply dec_tag_vu_rel.
  Qed.

  Lemma map_entry_rel : forall d r seen b, relE vu (map_entry self d r seen b) (map_entry self' d r seen b).
  Proof.
    intros. unfold map_entry. apply bindI_relE; [apply Hself|]. intros [k0 b1].
    destruct b1; [apply relE_refl|]. destruct (negb (hashable (keynorm k0))); [apply relE_refl|].
    destruct (existsb (key_eqb (keynorm k0)) seen); [apply relE_refl|].
    apply bindI_relE; [apply Hself|]. intros [v b2]. apply relE_refl.
  Qed.
End RelBody.

Lemma decv_rel : forall vu D f,
  (forall d r b, relE vu (decv vu D f d r b) (dec D f d r b)) /\
  (forall d r n b, relE vu (arr_def_v vu D f d r n b) (arr_def D f d r n b)) /\
  (forall d r b, relE vu (arr_indef_v vu D f d r b) (arr_indef D f d r b)) /\
  (forall d r n s b, relE vu (map_def_v vu D f d r n s b) (map_def D f d r n s b)) /\
  (forall d r s b, relE vu (map_indef_v vu D f d r s b) (map_indef D f d r s b)).
Proof.
  intros vu D. induction f as [|f (I1 & I2 & I3 & I4 & I5)].
  - repeat apply conj; intros; apply relE_refl.
  - repeat apply conj.
    + intros d r b. cbn [decv dec]. destruct b as [|bd b1]; [apply relE_refl|].
      apply dec_body_vu_rel; assumption.
    + intros d r n b. cbn [arr_def_v arr_def]. destruct (n =? 0); [apply relE_refl|].
      apply bindI_relE; [apply I1|]. intros [x b1]. apply bindI_relE; [apply I2|]. intros [xs b2]. apply relE_refl.
    + intros d r b. cbn [arr_indef_v arr_indef]. destruct b as [|bd b1]; [apply relE_refl|].
      destruct (bd =? bdBreak); [apply relE_refl|].
      apply bindI_relE; [apply I1|]. intros [x b2]. apply bindI_relE; [apply I3|]. intros [xs b3]. apply relE_refl.
    + intros d r n s b. cbn [map_def_v map_def]. destruct (n =? 0); [apply relE_refl|].
      apply bindI_relE; [apply map_entry_rel; assumption|]. intros [kv b2].
      apply bindI_relE; [apply I4|]. intros [kvs b3]. apply relE_refl.
    + intros d r s b. cbn [map_indef_v map_indef]. destruct b as [|bd b0]; [apply relE_refl|].
      destruct (bd =? bdBreak); [apply relE_refl|].
      apply bindI_relE; [apply map_entry_rel; assumption|]. intros [kv b2].
      apply bindI_relE; [apply I5|]. intros [kvs b3]. apply relE_refl.
Qed.

(* ValidateUnicode only rejects: the run with the option is the run without it, or the validation error *)
Lemma vu_rel : forall D f b,
  dec_naked_vu true D f b = dec_naked D f b \/ dec_naked_vu true D f b = Err EOther.
Proof.
  intros. unfold dec_naked_vu, dec_naked. destruct (proj1 (decv_rel true D f) 0%Z 0%nat b) as [H|[_ H]]; [left|right]; exact H.
Qed.

(* with the option off the extended model is the model of Wire/Cbor.v *)
Lemma vu_off : forall D f b, dec_naked_vu false D f b = dec_naked D f b.
Proof.
  intros. unfold dec_naked_vu, dec_naked. destruct (proj1 (decv_rel false D f) 0%Z 0%nat b) as [H|[H _]]; [exact H|discriminate].
Qed.

(* it accepts nothing more, and never another value *)
Lemma vu_only_rejects : forall D f b i rest,
  dec_naked_vu true D f b = Ok (i, rest) -> dec_naked D f b = Ok (i, rest).
Proof. intros D f b i rest H. destruct (vu_rel D f b) as [E|E]; rewrite E in H; [exact H|discriminate]. Qed.

Lemma vu_total : forall vu D b, dec_naked_vu vu D (fuel_for b) b <> OutOfFuel.
Proof.
  intros vu D b H. destruct vu.
  - destruct (vu_rel D (fuel_for b) b) as [E|E]; rewrite E in H; [exact (dec_total_lemma D b H)|discriminate].
  - rewrite vu_off in H. exact (dec_total_lemma D b H).
Qed.

(* ================================================================== *)
(* soundness: what is accepted holds no ill-formed text in value position *)

Lemma time_of_unix_vals : forall s n i, time_of_unix s n = Ok i -> vals_utf8 i = true.
Proof.
  intros s n i H. unfold time_of_unix in H.
  match type of H with (if ?c then _ else _) = _ => destruct c end; [discriminate|].
  destruct (n <? 0)%Z; destruct (round_us _ _); inversion H; reflexivity.
Qed.
Lemma parse_rfc3339_vals : forall s i, parse_rfc3339 s = Ok i -> vals_utf8 i = true.
Proof.
  intros s i H. unfold parse_rfc3339 in H. destruct (parse_core s) as [[sec ns]|]; [|discriminate].
  eapply time_of_unix_vals; eassumption.
Qed.
Lemma time_of_float_vals : forall x i, time_of_float x = Ok i -> vals_utf8 i = true.
Proof.
  intros x i H. unfold time_of_float in H. destruct (f64_exp x =? 2047); [discriminate|].
  eapply time_of_unix_vals; eassumption.
Qed.

Section SoundBody.
  Variable D : dopts.
  Hypothesis HD : do_raw2str D = false.
  Variable f' : nat.
  Variable self : Z -> nat -> list N -> resI (item * list N).
  Variable arrd : Z -> nat -> N -> list N -> resI (list item * list N).
  Variable arri : Z -> nat -> list N -> resI (list item * list N).
  Variable mapd : Z -> nat -> N -> list item -> list N -> resI (list (item * item) * list N).
  Variable mapi : Z -> nat -> list item -> list N -> resI (list (item * item) * list N).
  Hypothesis Pself : forall d r b x b', fst (self d r b) = Ok (x, b') -> vals_utf8 x = true.
  Hypothesis Parrd : forall d r n b l b', fst (arrd d r n b) = Ok (l, b') -> forallb vals_utf8 l = true.
  Hypothesis Parri : forall d r b l b', fst (arri d r b) = Ok (l, b') -> forallb vals_utf8 l = true.
  Hypothesis Pmapd : forall d r n s b l b', fst (mapd d r n s b) = Ok (l, b') -> forallb (fun kv => vals_utf8 (snd kv)) l = true.
  Hypothesis Pmapi : forall d r s b l b', fst (mapi d r s b) = Ok (l, b') -> forallb (fun kv => vals_utf8 (snd kv)) l = true.

  Lemma dec_tag_sound : forall d r t b2 x b', fst (dec_tag D f' self d r t b2) = Ok (x, b') -> vals_utf8 x = true.
  Proof.
    intros d r t b2 x b' H. unfold dec_tag in H.
    destruct (t =? 0).
    { cbn [fst liftI] in H. apply bind_ok in H. destruct H as ([s b3] & _ & H).
      apply bind_ok in H. destruct H as (i & Ei & H). inversion H; subst. eapply parse_rfc3339_vals; eassumption. }
    destruct (t =? 1).
    { cbn [fst liftI] in H. apply bind_ok in H. destruct H as ([y b3] & _ & H).
      apply bind_ok in H. destruct H as (i & Ei & H). inversion H; subst. eapply time_of_float_vals; eassumption. }
    destruct ((t =? 2) || (t =? 3)).
    { cbn [fst liftI] in H. apply bind_ok in H. destruct H as ([s b3] & _ & H).
      apply bind_ok in H. destruct H as (y & _ & H). inversion H; subst. reflexivity. }
    destruct ((t =? 4) || (t =? 5)).
    { cbn [fst liftI] in H. destruct b2 as [|nn b3]; [discriminate|]. destruct (nn =? 130); [|discriminate].
      apply bind_ok in H. destruct H as ([e b4] & _ & H). apply bind_ok in H. destruct H as ([m b5] & _ & H).
      apply bind_ok in H. destruct H as (y & _ & H). inversion H; subst. reflexivity. }
    destruct ((t =? 55799) || do_skiptags D); [eapply Pself; eassumption|].
    destruct (depth_ok D d); [|discriminate].
    apply bindI_ok in H. destruct H as ([v b3] & E & H). cbn [fst] in H. inversion H; subst.
    cbn [vals_utf8]. eapply Pself; eassumption.
  Qed.

  Lemma forallb_vals_cons : forall x xs, vals_utf8 x = true -> forallb vals_utf8 xs = true -> forallb vals_utf8 (x :: xs) = true.
  Proof. intros x xs H1 H2. cbn [forallb]. rewrite H1, H2. reflexivity. Qed.

  Lemma dec_body_sound : forall d r bd b1 x b', kind_of bd <> KText ->
    fst (dec_body D f' self arrd arri mapd mapi d r bd b1) = Ok (x, b') -> vals_utf8 x = true.
  Proof.
    intros d r bd b1 x b' HK H. unfold dec_body in H. destruct (kind_of bd); [| | |contradiction| | | |].
    - cbn [fst liftI] in H. apply bind_ok in H. destruct H as ([u b2] & _ & H).
      destruct (do_signed D); [apply bind_ok in H; destruct H as (i & _ & H)|]; inversion H; reflexivity.
    - cbn [fst liftI] in H. apply bind_ok in H. destruct H as ([u b2] & _ & H).
      apply bind_ok in H; destruct H as (i & _ & H); inversion H; reflexivity.
    - cbn [fst liftI] in H. apply bind_ok in H. destruct H as ([s b2] & _ & H). rewrite HD in H. inversion H; reflexivity.
    - destruct (bd =? bdIndefArray).
      + destruct (depth_ok D d); [|discriminate]. apply bindI_ok in H. destruct H as ([l b2] & E & H).
        cbn [fst] in H. inversion H; subst. cbn [vals_utf8]. eapply Parri; eassumption.
      + apply bindI_ok in H. destruct H as ([n b2] & _ & H).
        destruct (depth_ok D d); [|discriminate]. apply bindI_ok in H. destruct H as ([l b3] & E & H).
        cbn [fst] in H. inversion H; subst. cbn [vals_utf8]. eapply Parrd; eassumption.
    - destruct (bd =? bdIndefMap).
      + destruct (depth_ok D d); [|discriminate]. apply bindI_ok in H. destruct H as ([l b2] & E & H).
        cbn [fst] in H. inversion H; subst. cbn [vals_utf8]. eapply Pmapi; eassumption.
      + apply bindI_ok in H. destruct H as ([n b2] & _ & H).
        destruct (depth_ok D d); [|discriminate]. apply bindI_ok in H. destruct H as ([l b3] & E & H).
        cbn [fst] in H. inversion H; subst. cbn [vals_utf8]. eapply Pmapd; eassumption.
    - apply bindI_ok in H. destruct H as ([t b2] & _ & H). eapply dec_tag_sound; eassumption.
    - unfold dec_simple in H.
      repeat match type of H with fst (if ?c then _ else _) = _ => destruct c end;
        cbn [fst liftI] in H; try discriminate; try (inversion H; reflexivity);
        apply bind_ok in H; destruct H as ([y b2] & _ & H); inversion H; reflexivity.
  Qed.

  Lemma dec_tag_vu_sound : forall d r t b2 x b', fst (dec_tag_vu true D f' self d r t b2) = Ok (x, b') -> vals_utf8 x = true.
  Proof.
    intros d r t b2 x b' H. unfold dec_tag_vu in H.
    destruct (t =? 0).
    { cbn [fst liftI] in H. apply bind_ok in H. destruct H as ([s b3] & _ & H).
      destruct (true && negb (utf8_valid s)); [discriminate|].
      apply bind_ok in H. destruct H as (i & Ei & H). inversion H; subst. eapply parse_rfc3339_vals; eassumption. }
    destruct ((t =? 2) || (t =? 3)).
    { cbn [fst liftI] in H. apply bind_ok in H. destruct H as ([s b3] & _ & H).
      apply bind_ok in H. destruct H as (y & _ & H). inversion H; subst. reflexivity. }
    eapply dec_tag_sound; eassumption.
  Qed.

  Lemma dec_body_vu_sound : forall d r bd b1 x b',
    fst (dec_body_vu true D f' self arrd arri mapd mapi d r bd b1) = Ok (x, b') -> vals_utf8 x = true.
  Proof.
    intros d r bd b1 x b' H. unfold dec_body_vu in H. destruct (kind_of bd) eqn:K;
      try (eapply dec_body_sound; [rewrite K; discriminate|exact H]).
    - cbn [fst liftI] in H. apply bind_ok in H. destruct H as ([s b2] & E & H). inversion H; subst.
      unfold dec_text_vu in E. apply bind_ok in E. destruct E as ([s' b3] & _ & E).
      cbn [andb] in E. destruct (utf8_valid s') eqn:V; cbn [negb] in E; [|discriminate].
      inversion E; subst. exact V.
    - apply bindI_ok in H. destruct H as ([t b2] & _ & H). eapply dec_tag_vu_sound; eassumption.
  Qed.

  Lemma map_entry_sound : forall d r seen b k v b',
    fst (map_entry self d r seen b) = Ok (k, v, b') -> vals_utf8 v = true.
  Proof.
    intros d r seen b k v b' H. unfold map_entry in H.
    apply bindI_ok in H. destruct H as ([k0 b1] & _ & H).
    destruct b1; [discriminate|]. destruct (negb (hashable (keynorm k0))); [discriminate|].
    destruct (existsb (key_eqb (keynorm k0)) seen); [discriminate|].
    apply bindI_ok in H. destruct H as ([v0 b2] & E & H). cbn [fst] in H. inversion H; subst.
    eapply Pself; eassumption.
  Qed.
End SoundBody.

Lemma decv_sound : forall D, do_raw2str D = false -> forall f,
  (forall d r b x b', fst (decv true D f d r b) = Ok (x, b') -> vals_utf8 x = true) /\
  (forall d r n b l b', fst (arr_def_v true D f d r n b) = Ok (l, b') -> forallb vals_utf8 l = true) /\
  (forall d r b l b', fst (arr_indef_v true D f d r b) = Ok (l, b') -> forallb vals_utf8 l = true) /\
  (forall d r n s b l b', fst (map_def_v true D f d r n s b) = Ok (l, b') -> forallb (fun kv => vals_utf8 (snd kv)) l = true) /\
  (forall d r s b l b', fst (map_indef_v true D f d r s b) = Ok (l, b') -> forallb (fun kv => vals_utf8 (snd kv)) l = true).
Proof.
  intros D HD. induction f as [|f (I1 & I2 & I3 & I4 & I5)].
  - repeat apply conj; intros; discriminate.
  - repeat apply conj.
    + intros d r b x b' H. cbn [decv] in H. destruct b as [|bd b1]; [discriminate|].
      eapply dec_body_vu_sound; try eassumption.
    + intros d r n b l b' H. cbn [arr_def_v] in H. destruct (n =? 0). { inversion H; reflexivity. }
      apply bindI_ok in H. destruct H as ([x b1] & E1 & H). apply I1 in E1.
      apply bindI_ok in H. destruct H as ([xs b2] & E2 & H). apply I2 in E2. cbn [fst] in H. inversion H; subst.
      cbn [forallb]. rewrite E1, E2. reflexivity.
    + intros d r b l b' H. cbn [arr_indef_v] in H. destruct b as [|bd b1]; [discriminate|].
      destruct (bd =? bdBreak). { inversion H; reflexivity. }
      apply bindI_ok in H. destruct H as ([x b2] & E1 & H). apply I1 in E1.
      apply bindI_ok in H. destruct H as ([xs b3] & E2 & H). apply I3 in E2. cbn [fst] in H. inversion H; subst.
      cbn [forallb]. rewrite E1, E2. reflexivity.
    + intros d r n s b l b' H. cbn [map_def_v] in H. destruct (n =? 0). { inversion H; reflexivity. }
      apply bindI_ok in H. destruct H as ([[k v] b2] & E1 & H). apply (map_entry_sound (decv true D f) I1) in E1.
      apply bindI_ok in H. destruct H as ([kvs b3] & E2 & H). apply I4 in E2. cbn [fst] in H. inversion H; subst.
      cbn [forallb snd]. rewrite E1, E2. reflexivity.
    + intros d r s b l b' H. cbn [map_indef_v] in H. destruct b as [|bd b0]; [discriminate|].
      destruct (bd =? bdBreak). { inversion H; reflexivity. }
      apply bindI_ok in H. destruct H as ([[k v] b2] & E1 & H). apply (map_entry_sound (decv true D f) I1) in E1.
      apply bindI_ok in H. destruct H as ([kvs b3] & E2 & H). apply I5 in E2. cbn [fst] in H. inversion H; subst.
      cbn [forallb snd]. rewrite E1, E2. reflexivity.
Qed.

(* an accepted input never yields ill-formed text in value position (RawToString off: a byte string the
   caller asked to receive as a Go string is not text and is not validated) *)
Lemma vu_sound : forall D f b i rest, do_raw2str D = false ->
  dec_naked_vu true D f b = Ok (i, rest) -> vals_utf8 i = true.
Proof. intros D f b i rest HD H. exact (proj1 (decv_sound D HD f) _ _ _ _ _ H). Qed.

(* ================================================================== *)
(* acceptance: every well-formed serialisation whose texts are well-formed UTF-8 decodes as without the
   option.  The list lemmas and the induction mirror Wire/CborProofs.v (dec_ser) for the extended decoder. *)

Lemma decv_S : forall vu D f' d r bd b1,
  decv vu D (S f') d r (bd :: b1) =
  dec_body_vu vu D f' (decv vu D f') (arr_def_v vu D f') (arr_indef_v vu D f') (map_def_v vu D f') (map_indef_v vu D f') d r bd b1.
Proof. reflexivity. Qed.

Lemma dec_body_vu_other : forall vu D f' self arrd arri mapd mapi d r bd b1,
  kind_of bd <> KText -> kind_of bd <> KTag ->
  dec_body_vu vu D f' self arrd arri mapd mapi d r bd b1 = dec_body D f' self arrd arri mapd mapi d r bd b1.
Proof. intros. unfold dec_body_vu. destruct (kind_of bd); try reflexivity; contradiction. Qed.

Definition decv_ok (D : dopts) (t : wtree) : Prop :=
  forall f d r rest, (2 * length (ser t) + 1 <= f)%nat -> (d + tdepth_t D t < maxdepth D)%Z ->
  fst (decv true D f d r (ser t ++ rest)) = Ok (go_of_t D (data_of t), rest).

Lemma arr_def_v_S : forall D f' d r n b,
  arr_def_v true D (S f') d r n b =
  if n =? 0 then (Ok ([], b), r)
  else doI (x, b1) <- decv true D f' d r b ;; doI (xs, b2) <- arr_def_v true D f' d r (n - 1) b1 ;; (Ok (x :: xs, b2), r).
Proof. reflexivity. Qed.

Lemma arr_indef_v_S : forall D f' d r bd b1,
  arr_indef_v true D (S f') d r (bd :: b1) =
  if bd =? bdBreak then (Ok ([], b1), r)
  else doI (x, b2) <- decv true D f' d r (bd :: b1) ;; doI (xs, b3) <- arr_indef_v true D f' d r b2 ;; (Ok (x :: xs, b3), r).
Proof. reflexivity. Qed.

Lemma arr_def_v_ser : forall D l, Forall (decv_ok D) l ->
  forall f d r rest, (2 * length (flat_map ser l) + 2 <= f)%nat ->
  (d + fold_right (fun x m => Z.max (tdepth_t D x) m) 0 l < maxdepth D)%Z ->
  fst (arr_def_v true D f d r (N.of_nat (length l)) (flat_map ser l ++ rest))
  = Ok (map (fun t => go_of_t D (data_of t)) l, rest).
Proof.
  intros D l H. induction H as [| x l Hx Hl IH]; intros f d r rest Hf Hd.
  - destruct f; [simpl in Hf; lia |]. rewrite arr_def_v_S. reflexivity.
  - destruct f; [simpl in Hf; lia |]. rewrite arr_def_v_S.
    replace (N.of_nat (length (x :: l)) =? 0) with false by (symmetry; apply N.eqb_neq; cbn [length]; lia).
    cbn [flat_map] in *. rewrite app_length in Hf. rewrite <- app_assoc. cbn [fold_right] in Hd.
    pose proof (ser_len_pos x) as Hp.
    erewrite fst_bindI by (apply Hx; lia). cbv beta iota.
    replace (N.of_nat (length (x :: l)) - 1) with (N.of_nat (length l)) by (cbn [length]; lia).
    erewrite fst_bindI by (apply IH; lia). reflexivity.
Qed.

Lemma arr_indef_v_ser : forall D l, Forall (decv_ok D) l -> Forall twf l ->
  forall f d r rest, (2 * length (flat_map ser l) + 2 <= f)%nat ->
  (d + fold_right (fun x m => Z.max (tdepth_t D x) m) 0 l < maxdepth D)%Z ->
  fst (arr_indef_v true D f d r (flat_map ser l ++ 255 :: rest))
  = Ok (map (fun t => go_of_t D (data_of t)) l, rest).
Proof.
  intros D l H. induction H as [| x l Hx Hl IH]; intros Hw f d r rest Hf Hd.
  - destruct f; [simpl in Hf; lia |]. cbn [flat_map app]. rewrite arr_indef_v_S. reflexivity.
  - inversion Hw as [| ? ? Hwx Hwl]; subst.
    destruct f; [simpl in Hf; lia |].
    cbn [flat_map] in *. rewrite app_length in Hf. rewrite <- app_assoc. cbn [fold_right] in Hd.
    destruct (ser_hd x Hwx) as (bd & tl & E & Hne).
    assert (E2 : ser x ++ flat_map ser l ++ 255 :: rest = bd :: (tl ++ flat_map ser l ++ 255 :: rest)) by (rewrite E; reflexivity).
    pose proof (ser_len_pos x) as Hp.
    rewrite E2. rewrite arr_indef_v_S.
    replace (bd =? bdBreak) with false by (symmetry; apply N.eqb_neq; exact Hne).
    rewrite <- E2.
    erewrite fst_bindI by (apply Hx; lia). cbv beta iota.
    erewrite fst_bindI by (apply IH; [assumption | lia | lia]). reflexivity.
Qed.

Lemma map_def_v_S : forall D f' d r n seen b,
  map_def_v true D (S f') d r n seen b =
  if n =? 0 then (Ok ([], b), r)
  else doI (kv, b2) <- map_entry (decv true D f') d r seen b ;;
       doI (kvs, b3) <- map_def_v true D f' d r (n - 1) (fst kv :: seen) b2 ;; (Ok (kv :: kvs, b3), r).
Proof. reflexivity. Qed.

Lemma map_indef_v_S : forall D f' d r seen bd b0,
  map_indef_v true D (S f') d r seen (bd :: b0) =
  if bd =? bdBreak then (Ok ([], b0), r)
  else doI (kv, b2) <- map_entry (decv true D f') d r seen (bd :: b0) ;;
       doI (kvs, b3) <- map_indef_v true D f' d r (fst kv :: seen) b2 ;; (Ok (kv :: kvs, b3), r).
Proof. reflexivity. Qed.

Lemma map_entry_v_ser : forall D k v, decv_ok D k -> decv_ok D v -> twf v ->
  forall f' d r seen rest,
  (2 * length (ser k) + 1 <= f')%nat -> (2 * length (ser v) + 1 <= f')%nat ->
  (d + tdepth_t D k < maxdepth D)%Z -> (d + tdepth_t D v < maxdepth D)%Z ->
  hashable (keynorm (go_of_t D (data_of k))) = true ->
  existsb (key_eqb (keynorm (go_of_t D (data_of k)))) seen = false ->
  fst (map_entry (decv true D f') d r seen (ser k ++ ser v ++ rest))
  = Ok (keynorm (go_of_t D (data_of k)), go_of_t D (data_of v), rest).
Proof.
  intros D k v Hk Hv Hwv f' d r seen rest Hfk Hfv Hdk Hdv Hh Hs.
  unfold map_entry.
  erewrite fst_bindI by (apply Hk; assumption). cbv beta iota.
  destruct (ser_hd v Hwv) as (bd & tl & E & _).
  assert (E2 : ser v ++ rest = bd :: (tl ++ rest)) by (rewrite E; reflexivity).
  rewrite E2. rewrite Hh. cbn [negb]. rewrite Hs. rewrite <- E2.
  erewrite fst_bindI by (apply Hv; assumption). reflexivity.
Qed.

Lemma map_def_v_ser : forall D l,
  Forall (fun kv => decv_ok D (fst kv) /\ decv_ok D (snd kv)) l ->
  Forall (fun kv => twf (fst kv) /\ twf (snd kv)) l ->
  forall f d r seen rest, (2 * length (flat_map pair_ser l) + 2 <= f)%nat ->
  (d + fold_right (pair_depth D) 0 l < maxdepth D)%Z ->
  keys_ok_t D seen l ->
  fst (map_def_v true D f d r (N.of_nat (length l)) seen (flat_map pair_ser l ++ rest))
  = Ok (map (pair_go D) l, rest).
Proof.
  intros D l H. induction H as [| kv l [Hk Hv] Hl IH]; intros Hw f d r seen rest Hf Hd Hkeys.
  - destruct f; [simpl in Hf; lia |]. rewrite map_def_v_S. reflexivity.
  - inversion Hw as [| ? ? [Hwk Hwv] Hwl]; subst.
    destruct f; [simpl in Hf; lia |]. rewrite map_def_v_S.
    replace (N.of_nat (length (kv :: l)) =? 0) with false by (symmetry; apply N.eqb_neq; cbn [length]; lia).
    cbn [flat_map] in *. unfold pair_ser at 1 in Hf. unfold pair_ser at 1.
    rewrite !app_length in Hf. rewrite <- !app_assoc. cbn [fold_right] in Hd. unfold pair_depth at 1 in Hd.
    pose proof (ser_len_pos (fst kv)) as Hp1. pose proof (ser_len_pos (snd kv)) as Hp2.
    cbn [keys_ok_t] in Hkeys. destruct Hkeys as (Hh & Hs & Hkeys).
    erewrite fst_bindI by (apply map_entry_v_ser; try assumption; lia). cbv beta iota. cbn [fst].
    replace (N.of_nat (length (kv :: l)) - 1) with (N.of_nat (length l)) by (cbn [length]; lia).
    erewrite fst_bindI by (apply IH; [assumption | lia | lia | exact Hkeys]). reflexivity.
Qed.

Lemma map_indef_v_ser : forall D l,
  Forall (fun kv => decv_ok D (fst kv) /\ decv_ok D (snd kv)) l ->
  Forall (fun kv => twf (fst kv) /\ twf (snd kv)) l ->
  forall f d r seen rest, (2 * length (flat_map pair_ser l) + 2 <= f)%nat ->
  (d + fold_right (pair_depth D) 0 l < maxdepth D)%Z ->
  keys_ok_t D seen l ->
  fst (map_indef_v true D f d r seen (flat_map pair_ser l ++ 255 :: rest))
  = Ok (map (pair_go D) l, rest).
Proof.
  intros D l H. induction H as [| kv l [Hk Hv] Hl IH]; intros Hw f d r seen rest Hf Hd Hkeys.
  - destruct f; [simpl in Hf; lia |]. cbn [flat_map app]. rewrite map_indef_v_S. reflexivity.
  - inversion Hw as [| ? ? [Hwk Hwv] Hwl]; subst.
    destruct f; [simpl in Hf; lia |].
    cbn [flat_map] in *. unfold pair_ser at 1 in Hf. unfold pair_ser at 1.
    rewrite !app_length in Hf. rewrite <- !app_assoc. cbn [fold_right] in Hd. unfold pair_depth at 1 in Hd.
    pose proof (ser_len_pos (fst kv)) as Hp1. pose proof (ser_len_pos (snd kv)) as Hp2.
    cbn [keys_ok_t] in Hkeys. destruct Hkeys as (Hh & Hs & Hkeys).
    destruct (ser_hd (fst kv) Hwk) as (bd & tl & E & Hne).
    assert (E2 : ser (fst kv) ++ ser (snd kv) ++ flat_map pair_ser l ++ 255 :: rest
                 = bd :: (tl ++ ser (snd kv) ++ flat_map pair_ser l ++ 255 :: rest)) by (rewrite E; reflexivity).
    rewrite E2. rewrite map_indef_v_S.
    replace (bd =? bdBreak) with false by (symmetry; apply N.eqb_neq; exact Hne).
    rewrite <- E2.
    erewrite fst_bindI by (apply map_entry_v_ser; try assumption; lia). cbv beta iota. cbn [fst].
    erewrite fst_bindI by (apply IH; [assumption | lia | lia | exact Hkeys]). reflexivity.
Qed.

(* indefinite-length strings under validation *)
Lemma dec_chunks_vu_ser : forall mt cs,
  Forall (fun c => fits (fst c) (N.of_nat (length (snd c))) /\ bytes_ok (snd c)) cs ->
  Forall (fun c => N.of_nat (length (snd c)) < 9223372036854775808) cs ->
  ((mt =? majString) = true -> forallb (fun c => utf8_valid (snd c)) cs = true) ->
  forall f rest, (length cs + 1 <= f)%nat ->
  dec_chunks_vu true f mt (flat_map (chunk_ser mt) cs ++ 255 :: rest) = Ok (flat_map snd cs, rest).
Proof.
  intros mt cs H. induction H as [| c cs [Hfit _] Hcs IH]; intros Hl Hv f rest Hf.
  - destruct f; [simpl in Hf; lia |]. reflexivity.
  - inversion Hl as [| ? ? Hlc Hlcs]; subst.
    destruct f; [simpl in Hf; lia |].
    cbn [flat_map]. unfold chunk_ser at 1. rewrite shead_cons. rewrite <- !app_assoc. cbn [app dec_chunks_vu].
    pose proof (ai_of_le _ _ Hfit) as Hai.
    replace (mt * 32 + ai_of (fst c) (N.of_nat (length (snd c))) =? bdBreak) with false.
    2:{ symmetry. apply N.eqb_neq. change bdBreak with 255. intro E.
        assert ((mt * 32 + ai_of (fst c) (N.of_nat (length (snd c)))) mod 32 = 255 mod 32) by (rewrite E; reflexivity).
        rewrite hd_mod in H by lia. change (255 mod 32) with 31 in H. lia. }
    rewrite hd_div, hd_mod by lia. rewrite N.eqb_refl. cbn [negb].
    rewrite dec_len_head by assumption. cbn [bind].
    rewrite take_app. cbn [bind].
    assert (Hc : true && (mt =? majString) && negb (utf8_valid (snd c)) = false).
    { cbn [andb]. destruct (mt =? majString) eqn:Em; [|reflexivity]. specialize (Hv eq_refl). cbn [forallb] in Hv.
      apply andb_true_iff in Hv. destruct Hv as [Hv _]. rewrite Hv. reflexivity. }
    rewrite Hc.
    rewrite IH; [reflexivity | assumption | | simpl in Hf; lia].
    intros Em. specialize (Hv Em). cbn [forallb] in Hv. apply andb_true_iff in Hv. tauto.
Qed.

Lemma dec_bytes_fresh_vu_head : forall vu D f hd b1, (1 <= f)%nat -> hd / 32 = 2 \/ hd / 32 = 3 ->
  dec_bytes_fresh_vu vu D f (hd :: b1) = dec_str_body_vu vu f hd b1.
Proof.
  intros vu D f hd b1 Hf Hm. unfold dec_bytes_fresh_vu.
  assert (N1 : (hd =? bdNil) = false) by (apply N.eqb_neq; intro E; rewrite E in Hm; destruct Hm as [Hm | Hm]; vm_compute in Hm; discriminate).
  assert (N2 : (hd =? bdUndefined) = false) by (apply N.eqb_neq; intro E; rewrite E in Hm; destruct Hm as [Hm | Hm]; vm_compute in Hm; discriminate).
  rewrite N1, N2. cbn [orb].
  assert (E : (if do_skiptags D then skip_tags f hd b1 else Ok (hd, b1)) = Ok (hd, b1)).
  { destruct (do_skiptags D); [| reflexivity]. destruct f; [lia |]. cbn [skip_tags].
    replace (hd / 32 =? majTag) with false; [reflexivity |].
    symmetry. apply N.eqb_neq. change majTag with 6. lia. }
  rewrite E. cbn [bind].
  replace ((hd / 32 =? majBytes) || (hd / 32 =? majString)) with true; [reflexivity |].
  symmetry. change majBytes with 2. change majString with 3. destruct Hm as [-> | ->]; reflexivity.
Qed.

Lemma dec_bytes_fresh_vu_str : forall D t s f rest, twf t -> lib_supports_t D t -> text_of t = Some s ->
  wtexts_utf8 t = true ->
  (2 * length (ser t) <= f)%nat -> dec_bytes_fresh_vu true D f (ser t ++ rest) = Ok (s, rest).
Proof.
  intros D t s f rest Hw Hs Ht Hu Hf. pose proof (ser_len_pos t) as Hp.
  destruct t; cbn [text_of] in Ht; try discriminate; inversion Ht; subst; clear Ht;
    cbn [ser twf lib_supports_t wtexts_utf8] in *.
  - destruct Hw as [Hw _]. rewrite shead_cons. rewrite <- app_assoc. cbn [app].
    pose proof (ai_of_le _ _ Hw).
    rewrite dec_bytes_fresh_vu_head by (try lia; left; apply hd_div; lia).
    unfold dec_str_body_vu.
    rewrite (head_neq 2 _ bdIndefBytes), (head_neq 2 _ bdIndefString) by (assumption || reflexivity). cbn [orb].
    rewrite hd_mod by lia. rewrite dec_len_head by assumption. cbn [bind]. apply take_app.
  - cbn [app]. rewrite dec_bytes_fresh_vu_head by (try lia; left; reflexivity).
    unfold dec_str_body_vu. change ((95 =? bdIndefBytes) || (95 =? bdIndefString)) with true. cbv iota. change (95 / 32) with 2.
    change (flat_map (fun c => shead 2 (fst c) (N.of_nat (length (snd c))) ++ snd c) cs) with (flat_map (chunk_ser 2) cs) in *.
    rewrite <- app_assoc. cbn [app]. apply dec_chunks_vu_ser; [assumption | assumption | intros E; vm_compute in E; discriminate |].
    cbn [length] in Hf. rewrite !app_length in Hf. cbn [length] in Hf.
    assert (length cs <= length (flat_map (chunk_ser 2) cs))%nat
      by (apply flat_len_ge; intros; unfold chunk_ser; rewrite shead_cons; cbn [app length]; lia).
    lia.
  - destruct Hw as [Hw _]. rewrite shead_cons. rewrite <- app_assoc. cbn [app].
    pose proof (ai_of_le _ _ Hw).
    rewrite dec_bytes_fresh_vu_head by (try lia; right; apply hd_div; lia).
    unfold dec_str_body_vu.
    rewrite (head_neq 3 _ bdIndefBytes), (head_neq 3 _ bdIndefString) by (assumption || reflexivity). cbn [orb].
    rewrite hd_mod by lia. rewrite dec_len_head by assumption. cbn [bind]. apply take_app.
  - apply andb_true_iff in Hu. destruct Hu as [Hc _].
    cbn [app]. rewrite dec_bytes_fresh_vu_head by (try lia; right; reflexivity).
    unfold dec_str_body_vu. change ((127 =? bdIndefBytes) || (127 =? bdIndefString)) with true. cbv iota. change (127 / 32) with 3.
    change (flat_map (fun c => shead 3 (fst c) (N.of_nat (length (snd c))) ++ snd c) cs) with (flat_map (chunk_ser 3) cs) in *.
    rewrite <- app_assoc. cbn [app]. apply dec_chunks_vu_ser; [assumption | assumption | intros _; exact Hc |].
    cbn [length] in Hf. rewrite !app_length in Hf. cbn [length] in Hf.
    assert (length cs <= length (flat_map (chunk_ser 3) cs))%nat
      by (apply flat_len_ge; intros; unfold chunk_ser; rewrite shead_cons; cbn [app length]; lia).
    lia.
Qed.

Lemma tag0_text_valid : forall t s, text_of t = Some s -> wtexts_utf8 t = true ->
  match t with TBytes _ s' => utf8_valid s' | TBytesI cs => utf8_valid (flat_map snd cs) | _ => true end = true ->
  utf8_valid s = true.
Proof.
  intros t s Ht Hu Hb. destruct t; cbn [text_of] in Ht; try discriminate; inversion Ht; subst; cbn [wtexts_utf8] in Hu.
  - exact Hb.
  - exact Hb.
  - exact Hu.
  - apply andb_true_iff in Hu. tauto.
Qed.

Ltac kind_tac := first [ rewrite kind_head by lia; vm_compute; discriminate | vm_compute; discriminate ].

Theorem decv_ser : forall D t, twf t -> lib_supports_t D t -> wtexts_utf8 t = true -> decv_ok D t.
Proof.
  intros D t. induction t using wtree_ind'; intros Hw Hs Hu f d r rest Hf Hd;
    (destruct f as [| f']; [exfalso; lia |]).
  - (* TUint *)
    cbn [ser twf lib_supports_t data_of go_of_t] in *. rewrite shead_cons. cbn [app]. rewrite decv_S.
    pose proof (ai_of_le _ _ Hw). rewrite dec_body_vu_other by kind_tac. unfold dec_body. rewrite kind_head, hd_mod by lia. rewrite (proj1 kind_vals). cbv iota.
    rewrite fst_liftI, read_uint_head by assumption. cbn [bind].
    destruct (do_signed D); [| reflexivity].
    rewrite int64v_pos by (apply Hs; reflexivity). reflexivity.
  - (* TNint *)
    cbn [ser twf lib_supports_t data_of go_of_t] in *. rewrite shead_cons. cbn [app]. rewrite decv_S.
    pose proof (ai_of_le _ _ Hw). rewrite dec_body_vu_other by kind_tac. unfold dec_body. rewrite kind_head, hd_mod by lia. rewrite (proj1 (proj2 kind_vals)). cbv iota.
    rewrite fst_liftI, read_uint_head by assumption. cbn [bind].
    rewrite int64v_neg by assumption. reflexivity.
  - (* TBytes *)
    cbn [ser twf lib_supports_t data_of go_of_t] in *. destruct Hw as [Hw _]. rewrite shead_cons. rewrite <- app_assoc. cbn [app].
    rewrite decv_S.
    pose proof (ai_of_le _ _ Hw). rewrite dec_body_vu_other by kind_tac. unfold dec_body. rewrite kind_head by lia. rewrite (proj1 (proj2 (proj2 kind_vals))). cbv iota.
    rewrite fst_liftI. unfold dec_str_body.
    rewrite (head_neq 2 _ bdIndefBytes), (head_neq 2 _ bdIndefString) by (assumption || reflexivity). cbn [orb].
    rewrite hd_mod by lia. rewrite dec_len_head by assumption. cbn [bind]. rewrite take_app. reflexivity.
  - (* TBytesI *)
    cbn [ser twf lib_supports_t data_of go_of_t] in *. cbn [app]. rewrite decv_S. rewrite dec_body_vu_other by kind_tac. unfold dec_body.
    change (kind_of 95) with KBytes. cbv iota. rewrite fst_liftI. unfold dec_str_body.
    change ((95 =? bdIndefBytes) || (95 =? bdIndefString)) with true. cbv iota. change (95 / 32) with 2.
    change (flat_map (fun c => shead 2 (fst c) (N.of_nat (length (snd c))) ++ snd c) cs) with (flat_map (chunk_ser 2) cs).
    rewrite <- app_assoc. cbn [app].
    rewrite dec_chunks_ser; [reflexivity | assumption | assumption |].
    rewrite !app_length in Hf. cbn [length] in Hf.
    assert (length cs <= length (flat_map (fun c => shead 2 (fst c) (N.of_nat (length (snd c))) ++ snd c) cs))%nat
      by (apply flat_len_ge; intros; rewrite shead_cons; cbn [app length]; lia).
    lia.
  - (* TText *)
    cbn [ser twf lib_supports_t data_of go_of_t wtexts_utf8] in *. destruct Hw as [Hw _]. rewrite shead_cons. rewrite <- app_assoc. cbn [app].
    rewrite decv_S.
    pose proof (ai_of_le _ _ Hw). unfold dec_body_vu. rewrite kind_head by lia. rewrite (proj1 (proj2 (proj2 (proj2 kind_vals)))). cbv iota.
    rewrite fst_liftI. unfold dec_text_vu, dec_str_body_vu.
    rewrite (head_neq 3 _ bdIndefBytes), (head_neq 3 _ bdIndefString) by (assumption || reflexivity). cbn [orb].
    rewrite hd_mod by lia. rewrite dec_len_head by assumption. cbn [bind]. rewrite take_app. cbn [bind].
    rewrite Hu. reflexivity.
  - (* TTextI *)
    cbn [ser twf lib_supports_t data_of go_of_t wtexts_utf8] in *. apply andb_true_iff in Hu. destruct Hu as [Hc Hwh].
    cbn [app]. rewrite decv_S. unfold dec_body_vu.
    change (kind_of 127) with KText. cbv iota. rewrite fst_liftI. unfold dec_text_vu, dec_str_body_vu.
    change ((127 =? bdIndefBytes) || (127 =? bdIndefString)) with true. cbv iota. change (127 / 32) with 3.
    change (flat_map (fun c => shead 3 (fst c) (N.of_nat (length (snd c))) ++ snd c) cs) with (flat_map (chunk_ser 3) cs).
    rewrite <- app_assoc. cbn [app].
    rewrite dec_chunks_vu_ser; [cbn [bind]; rewrite Hwh; reflexivity | assumption | assumption | intros _; exact Hc |].
    rewrite !app_length in Hf. cbn [length] in Hf.
    assert (length cs <= length (flat_map (fun c => shead 3 (fst c) (N.of_nat (length (snd c))) ++ snd c) cs))%nat
      by (apply flat_len_ge; intros; rewrite shead_cons; cbn [app length]; lia).
    lia.
  - (* TArr *)
    cbn [ser twf lib_supports_t data_of go_of_t tdepth_t] in *. destruct Hw as [Hw Hwl]. destruct Hs as [Hsl Hlen].
    apply fix_Forall in Hwl. apply fix_Forall in Hsl.
    cbn [wtexts_utf8] in Hu. rewrite forallb_forall in Hu.
    assert (Hok : Forall (decv_ok D) l).
    { rewrite Forall_forall in *. intros x Hx. apply H; auto. }
    rewrite shead_cons. rewrite <- app_assoc. cbn [app]. rewrite decv_S.
    pose proof (ai_of_le _ _ Hw). rewrite dec_body_vu_other by kind_tac. unfold dec_body. rewrite kind_head by lia. rewrite (proj1 (proj2 (proj2 (proj2 (proj2 kind_vals))))). cbv iota.
    rewrite (head_neq 4 _ bdIndefArray) by (assumption || reflexivity).
    rewrite hd_mod by lia.
    erewrite fst_bindI by (rewrite fst_liftI; apply dec_len_head; assumption). cbv beta iota.
    pose proof (fold_max_nonneg (tdepth_t D) l) as Hnn.
    replace (depth_ok D d) with true by (symmetry; unfold depth_ok; apply Z.ltb_lt; lia).
    rewrite app_length, shead_cons in Hf. cbn [length] in Hf.
    erewrite fst_bindI by (apply arr_def_v_ser; [assumption | lia | lia]). cbv beta iota.
    rewrite map_map. reflexivity.
  - (* TArrI *)
    cbn [ser twf lib_supports_t data_of go_of_t tdepth_t] in *. destruct Hs as [Hsl Hlen].
    apply fix_Forall in Hw. apply fix_Forall in Hsl.
    cbn [wtexts_utf8] in Hu. rewrite forallb_forall in Hu.
    assert (Hok : Forall (decv_ok D) l).
    { rewrite Forall_forall in *. intros x Hx. apply H; auto. }
    cbn [app]. rewrite decv_S. rewrite dec_body_vu_other by kind_tac. unfold dec_body.
    change (kind_of 159) with KArr. cbv iota. change (159 =? bdIndefArray) with true. cbv iota.
    pose proof (fold_max_nonneg (tdepth_t D) l) as Hnn.
    replace (depth_ok D d) with true by (symmetry; unfold depth_ok; apply Z.ltb_lt; lia).
    rewrite !app_length in Hf. cbn [length] in Hf. rewrite <- app_assoc. cbn [app].
    erewrite fst_bindI by (apply arr_indef_v_ser; [assumption | assumption | lia | lia]). cbv beta iota.
    rewrite map_map. reflexivity.
  - (* TMap *)
    cbn [ser twf lib_supports_t data_of go_of_t tdepth_t] in *. destruct Hw as [Hw Hwl]. destruct Hs as (Hsl & Hkeys & Hlen).
    apply fix_Forall2 in Hwl. apply fix_Forall2 in Hsl.
    assert (Hok : Forall (fun kv => decv_ok D (fst kv) /\ decv_ok D (snd kv)) l).
    { cbn [wtexts_utf8] in Hu. rewrite forallb_forall in Hu.
      rewrite Forall_forall in *. intros x Hx. specialize (H x Hx). specialize (Hwl x Hx). specialize (Hsl x Hx).
      specialize (Hu x Hx). apply andb_true_iff in Hu. split; [apply (proj1 H) | apply (proj2 H)]; tauto. }
    rewrite shead_cons. rewrite <- app_assoc. cbn [app]. rewrite decv_S.
    pose proof (ai_of_le _ _ Hw). rewrite dec_body_vu_other by kind_tac. unfold dec_body. rewrite kind_head by lia. rewrite (proj1 (proj2 (proj2 (proj2 (proj2 (proj2 kind_vals)))))). cbv iota.
    rewrite (head_neq 5 _ bdIndefMap) by (assumption || reflexivity).
    rewrite hd_mod by lia.
    erewrite fst_bindI by (rewrite fst_liftI; apply dec_len_head; assumption). cbv beta iota.
    pose proof (fold_max_nonneg (fun kv => Z.max (tdepth_t D (fst kv)) (tdepth_t D (snd kv))) l) as Hnn.
    replace (depth_ok D d) with true by (symmetry; unfold depth_ok; apply Z.ltb_lt; lia).
    rewrite app_length, shead_cons in Hf. cbn [length] in Hf.
    change (flat_map (fun kv => ser (fst kv) ++ ser (snd kv)) l) with (flat_map pair_ser l) in *.
    erewrite fst_bindI by (apply map_def_v_ser; [assumption | assumption | lia | exact ltac:(unfold pair_depth; lia) | assumption]).
    cbv beta iota. rewrite map_map. reflexivity.
  - (* TMapI *)
    cbn [ser twf lib_supports_t data_of go_of_t tdepth_t] in *. destruct Hs as (Hsl & Hkeys & Hlen).
    apply fix_Forall2 in Hw. apply fix_Forall2 in Hsl.
    assert (Hok : Forall (fun kv => decv_ok D (fst kv) /\ decv_ok D (snd kv)) l).
    { cbn [wtexts_utf8] in Hu. rewrite forallb_forall in Hu.
      rewrite Forall_forall in *. intros x Hx. specialize (H x Hx). specialize (Hw x Hx). specialize (Hsl x Hx).
      specialize (Hu x Hx). apply andb_true_iff in Hu. split; [apply (proj1 H) | apply (proj2 H)]; tauto. }
    cbn [app]. rewrite decv_S. rewrite dec_body_vu_other by kind_tac. unfold dec_body.
    change (kind_of 191) with KMap. cbv iota. change (191 =? bdIndefMap) with true. cbv iota.
    pose proof (fold_max_nonneg (fun kv => Z.max (tdepth_t D (fst kv)) (tdepth_t D (snd kv))) l) as Hnn.
    replace (depth_ok D d) with true by (symmetry; unfold depth_ok; apply Z.ltb_lt; lia).
    rewrite !app_length in Hf. cbn [length] in Hf. rewrite <- app_assoc. cbn [app].
    change (flat_map (fun kv => ser (fst kv) ++ ser (snd kv)) l) with (flat_map pair_ser l) in *.
    erewrite fst_bindI by (apply map_indef_v_ser; [assumption | assumption | lia | exact ltac:(unfold pair_depth; lia) | assumption]).
    cbv beta iota. rewrite map_map. reflexivity.
  - (* TTag *)
    cbn [ser twf lib_supports_t data_of go_of_t tdepth_t wtexts_utf8] in *. destruct Hw as [Hw Hwv].
    apply andb_true_iff in Hu. destruct Hu as [Huv Hub].
    rewrite shead_cons. rewrite <- app_assoc. cbn [app]. rewrite decv_S.
    pose proof (ai_of_le _ _ Hw). unfold dec_body_vu. rewrite kind_head by lia.
    rewrite (proj1 (proj2 (proj2 (proj2 (proj2 (proj2 (proj2 kind_vals))))))). cbv iota.
    rewrite hd_mod by lia.
    erewrite fst_bindI by (rewrite fst_liftI; apply read_uint_head; assumption). cbv beta iota.
    rewrite app_length, shead_cons in Hf. cbn [length] in Hf.
    destruct Hs as [[Ht Hsv] | (Ht & Hsv & Htx)].
    + unfold dec_tag_vu.
      replace (t =? 0) with false in * by (symmetry; apply N.eqb_neq; lia).
      replace (t =? 2) with false by (symmetry; apply N.eqb_neq; lia).
      replace (t =? 3) with false by (symmetry; apply N.eqb_neq; lia). cbn [orb].
      rewrite dec_tag_plain by assumption.
      pose proof (tdepth_nonneg D t0) as Hnn.
      destruct ((t =? 55799) || do_skiptags D).
      * apply IHt; [assumption | assumption | assumption | lia | lia].
      * replace (depth_ok D d) with true by (symmetry; unfold depth_ok; apply Z.ltb_lt; lia).
        erewrite fst_bindI by (apply IHt; [assumption | assumption | assumption | lia | lia]). reflexivity.
    + subst t. unfold dec_tag_vu. cbn [N.eqb]. rewrite fst_liftI.
      destruct (text_of t0) as [s |] eqn:Etx; [| contradiction]. destruct Htx as [i Hi].
      rewrite (dec_bytes_fresh_vu_str D t0 s f' rest Hwv Hsv Etx Huv) by lia. cbn [bind].
      cbn [N.eqb] in Hub. rewrite (tag0_text_valid t0 s Etx Huv Hub). cbn [andb negb].
      rewrite Hi. cbn [bind].
      rewrite (text_of_data t0 s Etx). unfold time_item. rewrite Hi. reflexivity.
  - (* TSimple *)
    cbn [ser twf lib_supports_t data_of go_of_t] in *. cbn [app].
    assert (C : v = 20 \/ v = 21 \/ v = 22 \/ v = 23) by lia.
    destruct C as [C | [C | [C | C]]]; subst v; reflexivity.
  - (* TSimple1 *)
    cbn [lib_supports_t] in Hs. contradiction.
  - (* THalf *)
    cbn [ser twf lib_supports_t data_of go_of_t] in *. cbn [app]. rewrite decv_S. rewrite dec_body_vu_other by kind_tac. unfold dec_body.
    change (kind_of 249) with KSimple. cbv iota. unfold dec_simple.
    change ((249 =? bdNil) || (249 =? bdUndefined)) with false. change (249 =? bdFalse) with false.
    change (249 =? bdTrue) with false. change (249 =? bdFloat16) with true. cbv iota.
    rewrite fst_liftI. rewrite (take_sbe 2). cbn [bind]. rewrite be_get_put by (simpl; lia).
    rewrite half_all by assumption. reflexivity.
  - (* TSingle *)
    cbn [ser twf lib_supports_t data_of go_of_t] in *. cbn [app]. rewrite decv_S. rewrite dec_body_vu_other by kind_tac. unfold dec_body.
    change (kind_of 250) with KSimple. cbv iota. unfold dec_simple.
    change ((250 =? bdNil) || (250 =? bdUndefined)) with false. change (250 =? bdFalse) with false.
    change (250 =? bdTrue) with false. change (250 =? bdFloat16) with false. change (250 =? bdFloat32) with true. cbv iota.
    rewrite fst_liftI. rewrite (take_sbe 4). cbn [bind]. rewrite be_get_put by (simpl; lia). reflexivity.
  - (* TDouble *)
    cbn [ser twf lib_supports_t data_of go_of_t] in *. cbn [app]. rewrite decv_S. rewrite dec_body_vu_other by kind_tac. unfold dec_body.
    change (kind_of 251) with KSimple. cbv iota. unfold dec_simple.
    change ((251 =? bdNil) || (251 =? bdUndefined)) with false. change (251 =? bdFalse) with false.
    change (251 =? bdTrue) with false. change (251 =? bdFloat16) with false. change (251 =? bdFloat32) with false.
    change (251 =? bdFloat64) with true. cbv iota.
    rewrite fst_liftI. rewrite (take_sbe 8). cbn [bind]. rewrite be_get_put by (simpl; lia). reflexivity.
Qed.

(* IN under ValidateUnicode: every well-formed serialisation of a supported item whose text strings -- each
   chunk and each whole, and the content of tag 0 -- are well-formed UTF-8 is accepted, with the value the
   decoder gives without the option *)
Lemma vu_in : forall (D : dopts) (t : wtree) (rest : list N),
  twf t -> lib_supports_t D t -> (tdepth_t D t < maxdepth D)%Z -> wtexts_utf8 t = true ->
  dec_naked_vu true D (fuel_for (ser t ++ rest)) (ser t ++ rest) = Ok (go_of_t D (data_of t), rest).
Proof.
  intros D t rest Hw Hs Hd Hu. unfold dec_naked_vu. apply (decv_ser D t Hw Hs Hu).
  - unfold fuel_for. rewrite app_length. lia.
  - lia.
Qed.

(* Wire/SimpleSkip — the second parser (nextValueBytes) consumes exactly what the encoder wrote. *)
From Coq Require Import List NArith ZArith Bool Lia Arith.
From Coq Require Import ZifyN ZifyNat ZifyBool.
From Verif Require Import Base.Outcome Wire.Item Gen.Consts Wire.Simple Wire.SimpleProofs.
Import ListNotations.
Open Scope bool_scope.
Open Scope N_scope.

Lemma frev_rev : forall l, frev l = rev l.
Proof. intros. unfold frev. rewrite rev_append_rev. apply app_nil_r. Qed.

Lemma rd_fwd_app : forall rp (p r : list N) k, length p = k -> rd_fwd k (mkrd rp (p ++ r)) = mkrd (rev p ++ rp) r.
Proof.
  intros rp p r k Hk. unfold rd_fwd. cbn [suf rpre].
  rewrite firstn_app_exact by exact Hk. rewrite skipn_app_exact by exact Hk. now rewrite frev_rev.
Qed.

Lemma rd_skip_app : forall rp (p r : list N), rd_skip (llen p) (mkrd rp (p ++ r)) = Ok (mkrd (rev p ++ rp) r).
Proof.
  intros rp p r. unfold rd_skip. cbn [suf]. unfold llen. rewrite app_length.
  destruct (N.ltb_spec (N.of_nat (length p + length r)) (N.of_nat (length p))); [lia|].
  rewrite Nat2N.id. now rewrite rd_fwd_app.
Qed.

Lemma rd_readn_put : forall k v rp r, v < 256 ^ N.of_nat k ->
  rd_readn k (mkrd rp (be_put k v ++ r)) = Ok (v, mkrd (rev (be_put k v) ++ rp) r).
Proof.
  intros k v rp r Hv. unfold rd_readn. cbn [suf]. rewrite app_length, be_put_length.
  destruct (Nat.ltb_spec (k + length r) k); [lia|].
  rewrite firstn_app_exact by apply be_put_length. rewrite be_get_put by exact Hv.
  rewrite rd_fwd_app by apply be_put_length. reflexivity.
Qed.

Lemma enc_len_skip_spec : forall bd len, len < 2 ^ 63 ->
  exists w pl, w <= 4 /\ enc_len bd len = (bd + w) :: pl /\ (w = 0 <-> len = 0) /\ (w = 0 -> pl = []) /\
    forall rp r, skip_len w (mkrd rp (pl ++ r)) = Ok (len, mkrd (rev pl ++ rp) r).
Proof.
  intros bd len Hl. unfold enc_len.
  destruct (N.eqb_spec len 0) as [-> | Hn0].
  { exists 0, []. rewrite N.add_0_r. repeat apply conj; try lia; try reflexivity. }
  destruct (N.leb_spec len 255).
  { exists 1, (be_put 1 len). repeat apply conj; try lia.
    - cbn [be_put]. change (256 ^ N.of_nat 0) with 1. rewrite N.div_1_r, N.mod_small by lia. reflexivity.
    - intros rp r. cbn [skip_len]. apply rd_readn_put. change (256 ^ N.of_nat 1) with 256. lia. }
  destruct (N.leb_spec len 65535).
  { exists 2, (be_put 2 len). repeat apply conj; try lia; try reflexivity.
    intros rp r. cbn [skip_len]. apply rd_readn_put. change (256 ^ N.of_nat 2) with 65536. lia. }
  destruct (N.leb_spec len 4294967295).
  { exists 3, (be_put 4 len). repeat apply conj; try lia; try reflexivity.
    intros rp r. cbn [skip_len]. apply rd_readn_put. change (256 ^ N.of_nat 4) with 4294967296. lia. }
  exists 4, (be_put 8 len). repeat apply conj; try lia; try reflexivity.
  intros rp r. cbn [skip_len]. apply rd_readn_put. change (256 ^ N.of_nat 8) with (2 ^ 64). lia.
Qed.

(* descriptor classes of the walker on what the encoder emits *)
Lemma sclassify_len : forall w, 1 <= w <= 4 ->
  sclassify (vd simpleVdString + w) = SLen w /\ sclassify (vd simpleVdByteArray + w) = SLen w /\
  sclassify (vd simpleVdExt + w) = SLen w /\ sclassify (vd simpleVdArray + w) = SLen w /\
  sclassify (vd simpleVdMap + w) = SLen w.
Proof.
  intros w H. assert (w = 1 \/ w = 2 \/ w = 3 \/ w = 4) as [-> | [-> | [-> | ->]]] by lia; repeat apply conj; reflexivity.
Qed.
Lemma cclassify_len : forall w, w <= 4 ->
  cclassify (vd simpleVdString + w) = CStr /\ cclassify (vd simpleVdByteArray + w) = CBytes /\
  cclassify (vd simpleVdExt + w) = CExt /\ cclassify (vd simpleVdArray + w) = CArr /\
  cclassify (vd simpleVdMap + w) = CMap.
Proof.
  intros w H. assert (w = 0 \/ w = 1 \/ w = 2 \/ w = 3 \/ w = 4) as [-> | [-> | [-> | [-> | ->]]]] by lia; repeat apply conj; reflexivity.
Qed.

(* what skipping one encoded value does: [c :: tl] is the encoding, the reader stands after [c] *)
Definition SKres (D : dopts) (fuel : nat) (dp : Z) (lvl : nat) (e : list N) (rp rest : list N) : Prop :=
  match e with
  | [] => False
  | c :: tl => fst (skipv D fuel dp lvl c (mkrd rp (tl ++ rest))) = Ok (mkrd (rev tl ++ rp) rest)
  end.

Definition SK (o : eopts) (D : dopts) (i : item) : Prop :=
  swf o D i -> forall key rp rest fuel dp lvl,
    (2 * length (enc o key i ++ rest) + 1 <= fuel)%nat -> depth_ok D dp i ->
    SKres D fuel dp lvl (enc o key i) rp rest.

Lemma SK_nil : forall D fuel dp lvl rp rest, (1 <= fuel)%nat -> SKres D fuel dp lvl [vd simpleVdNil] rp rest.
Proof. intros. destruct fuel; [lia|]. reflexivity. Qed.

Lemma SK_uint : forall o D key v bd fuel dp lvl rp rest, v < 2 ^ 64 -> (1 <= fuel)%nat ->
  bd = vd simpleVdPosInt \/ bd = vd simpleVdNegInt ->
  SKres D fuel dp lvl (enc_uint o key v bd) rp rest.
Proof.
  intros o D key v bd fuel dp lvl rp rest Hv Hf Hbd.
  destruct (enc_uint_spec o key v bd Hv) as [[_ ->] | [_ [w [Hw [-> Hb]]]]]; [apply SK_nil; lia|].
  destruct fuel; [lia|]. unfold SKres.
  assert (w = 0 \/ w = 1 \/ w = 2 \/ w = 3) as [-> | [-> | [-> | ->]]] by lia;
    destruct Hbd as [-> | ->]; cbn [skipv fst];
    match goal with
    | |- context [sclassify ?c] => let k := eval vm_compute in (sclassify c) in change (sclassify c) with k
    end; cbn iota.
  1,2: change (wbytes 0) with 1%nat; cbn [be_put app rd_readn1 suf bind fst rpre rev]; reflexivity.
  all: cbn [fst]; match goal with
       | |- rd_skip ?n (mkrd _ (be_put ?k ?vv ++ _)) = _ =>
         replace n with (llen (be_put k vv)) by (unfold llen; rewrite be_put_length; reflexivity); apply rd_skip_app
       end.
Qed.

Lemma SK_fixed : forall D c k (p : list N) fuel dp lvl rp rest, (1 <= fuel)%nat ->
  sclassify c = SSkip k -> llen p = k -> SKres D fuel dp lvl (c :: p) rp rest.
Proof.
  intros D c k p fuel dp lvl rp rest Hf Hc Hk. destruct fuel; [lia|]. unfold SKres. cbn [skipv]. rewrite Hc. cbn [fst].
  rewrite <- Hk. apply rd_skip_app.
Qed.

(* string / bytes: head ++ payload *)
Lemma SK_payload : forall D bd (s : list N) fuel dp lvl rp rest,
  bd = vd simpleVdString \/ bd = vd simpleVdByteArray -> lenok s -> (1 <= fuel)%nat ->
  SKres D fuel dp lvl (enc_len bd (llen s) ++ s) rp rest.
Proof.
  intros D bd s fuel dp lvl rp rest Hbd Hl Hf.
  destruct (enc_len_skip_spec bd (llen s) Hl) as [w [pl [Hw [-> [Hw0 [Hpl0 Hsk]]]]]].
  destruct fuel; [lia|]. unfold SKres. cbn [app]. cbn [skipv].
  destruct (N.eq_dec w 0) as [-> | Hwn].
  - (* zero length: the exact descriptors 216 / 224 are "pass" *)
    assert (Hs : s = []). { destruct s; [reflexivity|]. exfalso. assert (llen (n :: s) = 0) by (apply Hw0; reflexivity). unfold llen in *. cbn in *. lia. }
    subst s. rewrite (Hpl0 eq_refl).
    destruct Hbd as [-> | ->]; reflexivity.
  - assert (Hsc : sclassify (bd + w) = SLen w) by (destruct Hbd as [-> | ->]; apply sclassify_len; lia).
    assert (Hcc : cclassify (bd + w) = CStr \/ cclassify (bd + w) = CBytes) by (destruct Hbd as [-> | ->]; [left|right]; apply cclassify_len; lia).
    rewrite Hsc. unfold skip_head. rewrite <- app_assoc. rewrite Hsk. cbn [bind].
    assert (Hne : (llen s =? 0) = false) by (destruct (N.eqb_spec (llen s) 0); [exfalso; apply Hwn; apply Hw0; assumption|reflexivity]).
    destruct Hcc as [-> | ->]; cbn iota; rewrite Hne; cbn [fst]; rewrite rd_skip_app; now rewrite app_assoc, <- rev_app_distr.
Qed.

Lemma SK_ext : forall D t (s : list N) fuel dp lvl rp rest, lenok s -> (1 <= fuel)%nat ->
  SKres D fuel dp lvl (enc_len (vd simpleVdExt) (llen s) ++ (t mod 256) :: s) rp rest.
Proof.
  intros D t s fuel dp lvl rp rest Hl Hf.
  destruct (enc_len_skip_spec (vd simpleVdExt) (llen s) Hl) as [w [pl [Hw [-> [Hw0 [Hpl0 Hsk]]]]]].
  destruct fuel; [lia|]. unfold SKres. cbn [app]. cbn [skipv].
  assert (Hcc : cclassify (vd simpleVdExt + w) = CExt) by (apply cclassify_len; lia).
  destruct (N.eq_dec w 0) as [-> | Hwn].
  - assert (Hs : s = []). { destruct s; [reflexivity|]. exfalso. assert (llen (n :: s) = 0) by (apply Hw0; reflexivity). unfold llen in *. cbn in *. lia. }
    subst s. rewrite (Hpl0 eq_refl). reflexivity.
  - assert (Hsc : sclassify (vd simpleVdExt + w) = SLen w) by (apply sclassify_len; lia).
    rewrite Hsc. unfold skip_head. rewrite <- app_assoc. rewrite Hsk. cbn [bind]. rewrite Hcc.
    cbn [app rd_readn1 suf rpre bind].
    assert (Hne : (llen s =? 0) = false) by (destruct (N.eqb_spec (llen s) 0); [exfalso; apply Hwn; apply Hw0; assumption|reflexivity]).
    rewrite Hne. cbn [fst]. rewrite rd_skip_app. f_equal. f_equal.
    rewrite rev_app_distr. cbn [rev]. rewrite <- !app_assoc. reflexivity.
Qed.

Lemma SK_time : forall D (p : list N) fuel dp lvl rp rest, llen p = 15 -> (1 <= fuel)%nat ->
  SKres D fuel dp lvl (vd simpleVdTime :: 15 :: p) rp rest.
Proof.
  intros D p fuel dp lvl rp rest Hp Hf. destruct fuel; [lia|]. unfold SKres. cbn [skipv].
  change (sclassify (vd simpleVdTime)) with STime. cbn iota. cbn [app rd_readn1 suf rpre bind fst].
  rewrite <- Hp. rewrite rd_skip_app. f_equal. f_equal. cbn [rev]. rewrite <- app_assoc. reflexivity.
Qed.

(* a run of encoded values: (key flag, item) *)
Definition encs (o : eopts) (ps : list (bool * item)) : list N := flat_map (fun p => enc o (fst p) (snd p)) ps.

Lemma skip_elems_enc : forall o D ps,
  Forall (fun p => SK o D (snd p)) ps -> Forall (fun p => swf o D (snd p)) ps ->
  forall rp rest fuel dp lvl,
    (2 * length (encs o ps ++ rest) + 2 <= fuel)%nat ->
    (forall p, In p ps -> depth_ok D dp (snd p)) ->
    fst (skip_elems D fuel dp lvl (llen ps) (mkrd rp (encs o ps ++ rest))) = Ok (mkrd (rev (encs o ps) ++ rp) rest).
Proof.
  intros o D ps. induction ps as [|p ps IH]; intros HSK Hswf rp rest fuel dp lvl Hf Hd.
  - destruct fuel; reflexivity.
  - inversion HSK as [|? ? HSp HSl]; subst. inversion Hswf as [|? ? Hsp Hsl]; subst.
    unfold encs in *. cbn [flat_map] in *. rewrite <- app_assoc in *.
    pose proof (enc_nonempty o (snd p) (fst p)) as Hne. rewrite !app_length in Hf.
    destruct fuel as [|fuel]; [exfalso; lia|].
    cbn [skip_elems].
    assert (Hc : (llen (p :: ps) =? 0) = false) by (unfold llen; cbn [length]; destruct (N.eqb_spec (N.of_nat (S (length ps))) 0); [lia|reflexivity]).
    rewrite Hc.
    specialize (HSp Hsp (fst p)).
    destruct (enc o (fst p) (snd p)) as [|c tl] eqn:Ee; [cbn in Hne; lia|].
    cbn [app rd_readn1 suf rpre].
    specialize (HSp (c :: rp) (flat_map (fun p0 => enc o (fst p0) (snd p0)) ps ++ rest) fuel dp (S lvl)).
    unfold SKres in HSp. cbv zeta.
    rewrite HSp; [|cbn [length] in *; rewrite !app_length; cbn [length]; lia|apply Hd; left; reflexivity].
    cbn [fst].
    replace (N.pred (llen (p :: ps))) with (llen ps) by (unfold llen; cbn [length]; lia).
    rewrite (IH HSl Hsl (rev tl ++ c :: rp) rest fuel dp lvl);
      [|cbn [length] in *; rewrite !app_length; lia|intros q Hq; apply Hd; right; exact Hq].
    apply f_equal. apply (f_equal (fun x => mkrd x rest)).
    cbn [rev]. rewrite rev_app_distr. rewrite <- !app_assoc. reflexivity.
Qed.

Lemma depth_incr_ok : forall D dp, (dp + 1 < maxdepth D)%Z -> depth_incr D dp = Ok (dp + 1)%Z.
Proof. intros. unfold depth_incr. destruct (Z.leb_spec (maxdepth D) (dp + 1)); [lia|reflexivity]. Qed.

(* arrays and maps: head ++ run of values *)
Lemma SK_container : forall o D bd (ps : list (bool * item)) (n : N) fuel dp lvl rp rest,
  (bd = vd simpleVdArray /\ n = llen ps) \/ (bd = vd simpleVdMap /\ 2 * n = llen ps) ->
  n < 2 ^ 63 ->
  Forall (fun p => SK o D (snd p)) ps -> Forall (fun p => swf o D (snd p)) ps ->
  (2 * length ((enc_len bd n ++ encs o ps) ++ rest) + 1 <= fuel)%nat ->
  (n = 0 \/ (dp + 1 < maxdepth D)%Z) ->
  (forall p, In p ps -> depth_ok D (dp + 1) (snd p)) ->
  SKres D fuel dp lvl (enc_len bd n ++ encs o ps) rp rest.
Proof.
  intros o D bd ps n fuel dp lvl rp rest Hbd Hn HSK Hswf Hf Hdp Hd.
  destruct (enc_len_skip_spec bd n Hn) as [w [pl [Hw [Henc [Hw0 [Hpl0 Hsk]]]]]].
  rewrite Henc in *. rewrite <- !app_assoc in *. cbn [app] in *. cbn [length] in Hf. rewrite !app_length in Hf.
  destruct fuel; [lia|]. unfold SKres. cbn [skipv]. rewrite <- !app_assoc.
  destruct (N.eq_dec w 0) as [-> | Hwn].
  - assert (n = 0) as -> by (apply Hw0; reflexivity).
    assert (ps = []) as -> by (destruct ps; [reflexivity|]; exfalso; unfold llen in Hbd; cbn [length] in Hbd; lia).
    rewrite (Hpl0 eq_refl). destruct Hbd as [[-> _] | [-> _]]; reflexivity.
  - assert (Hn0 : n <> 0) by (intros E; apply Hwn; apply Hw0; exact E).
    assert (Hne : (n =? 0) = false) by (destruct (N.eqb_spec n 0); [contradiction|reflexivity]).
    assert (Hdp' : (dp + 1 < maxdepth D)%Z) by (destruct Hdp; [contradiction|assumption]).
    destruct Hbd as [[-> Hc] | [-> Hc]].
    + replace (sclassify (vd simpleVdArray + w)) with (SLen w) by (symmetry; apply sclassify_len; lia).
      unfold skip_head. rewrite Hsk. cbn [bind].
      replace (cclassify (vd simpleVdArray + w)) with CArr by (symmetry; apply cclassify_len; lia).
      cbn iota. rewrite Hne. rewrite depth_incr_ok by exact Hdp'. rewrite Hc.
      rewrite (skip_elems_enc o D ps HSK Hswf); [|rewrite !app_length; lia|exact Hd].
      apply f_equal. apply (f_equal (fun x => mkrd x rest)). rewrite rev_app_distr, <- app_assoc. reflexivity.
    + replace (sclassify (vd simpleVdMap + w)) with (SLen w) by (symmetry; apply sclassify_len; lia).
      unfold skip_head. rewrite Hsk. cbn [bind].
      replace (cclassify (vd simpleVdMap + w)) with CMap by (symmetry; apply cclassify_len; lia).
      cbn iota. rewrite Hne. rewrite depth_incr_ok by exact Hdp'. rewrite Hc.
      rewrite (skip_elems_enc o D ps HSK Hswf); [|rewrite !app_length; lia|exact Hd].
      apply f_equal. apply (f_equal (fun x => mkrd x rest)). rewrite rev_app_distr, <- app_assoc. reflexivity.
Qed.

Definition kvps (l : list (item * item)) : list (bool * item) :=
  flat_map (fun kv => [(true, fst kv); (false, snd kv)]) l.

Lemma encs_arr : forall o l, encs o (map (pair false) l) = flat_map (enc o false) l.
Proof. intros o l. unfold encs. induction l; cbn; [reflexivity|]. now rewrite IHl. Qed.
Lemma encs_map : forall o l, encs o (kvps l) = flat_map (fun kv => enc o true (fst kv) ++ enc o false (snd kv)) l.
Proof. intros o l. unfold encs, kvps. induction l; cbn [flat_map app fst snd]; [reflexivity|]. rewrite <- IHl. rewrite <- app_assoc. reflexivity. Qed.
Lemma kvps_len : forall l, llen (kvps l) = 2 * llen l.
Proof. intros l. unfold llen, kvps. induction l; cbn [flat_map length app]; [reflexivity|]. lia. Qed.

Theorem skip_enc_all : forall o D i, SK o D i.
Proof.
  intros o D. induction i using item_ind'; unfold SK; intros Hswf key rp rest fuel dp lvl Hf Hd; cbn [enc] in *.
  - apply SK_nil. lia.
  - destruct (zeroAsNil o && negb key && negb b); [apply SK_nil; lia|].
    destruct fuel; [cbn in Hf; lia|]. destruct b; reflexivity.
  - cbn [swf] in Hswf. destruct (Z.ltb_spec z 0); apply SK_uint; auto; try lia.
    + rewrite to_u64_nonneg by lia. lia.
    + rewrite to_u64_nonneg by lia. lia.
  - cbn [swf] in Hswf. apply SK_uint; auto; lia.
  - destruct (zeroAsNil o && negb key && f32zero b); [apply SK_nil; lia|].
    apply (SK_fixed D _ 4); [lia|reflexivity|]. unfold llen. rewrite be_put_length. reflexivity.
  - destruct (zeroAsNil o && negb key && f64zero b); [apply SK_nil; lia|].
    apply (SK_fixed D _ 8); [lia|reflexivity|]. unfold llen. rewrite be_put_length. reflexivity.
  - cbn [swf] in Hswf. destruct (zeroAsNil o && negb key && isnil s); [apply SK_nil; lia|].
    destruct (stringToRaw o); apply SK_payload; auto; lia.
  - cbn [swf] in Hswf. apply SK_payload; auto; lia.
  - (* array *)
    cbn [swf] in Hswf. destruct Hswf as [Hlen Hall]. apply swf_arr_forall in Hall.
    rewrite <- encs_arr in *.
    apply (SK_container o D (vd simpleVdArray) (map (pair false) l) (llen l)).
    + left. split; [reflexivity|]. unfold llen. now rewrite map_length.
    + exact Hlen.
    + apply Forall_map. exact H.
    + apply Forall_map. exact Hall.
    + exact Hf.
    + unfold depth_ok in Hd. cbn [depth] in Hd. destruct l; [left; reflexivity|right; lia].
    + intros p Hp. apply in_map_iff in Hp. destruct Hp as [x [<- Hx]]. cbn [snd].
      unfold depth_ok in *. cbn [depth] in Hd. pose proof (depth_in_arr l x Hx). lia.
  - (* map *)
    cbn [swf] in Hswf. destruct Hswf as [Hlen [_ Hall]]. apply swf_map_forall in Hall.
    rewrite <- encs_map in *.
    apply (SK_container o D (vd simpleVdMap) (kvps l) (llen l)).
    + right. split; [reflexivity|]. now rewrite kvps_len.
    + exact Hlen.
    + unfold kvps. apply Forall_flat_map. eapply Forall_impl; [|exact H]. intros kv [Hk Hv]. repeat constructor; assumption.
    + unfold kvps. apply Forall_flat_map. eapply Forall_impl; [|exact Hall]. intros kv [[Hk _] Hv]. repeat constructor; assumption.
    + exact Hf.
    + unfold depth_ok in Hd. cbn [depth] in Hd. destruct l; [left; reflexivity|right; lia].
    + intros p Hp. unfold kvps in Hp. apply in_flat_map in Hp. destruct Hp as [kv [Hkv Hp]].
      unfold depth_ok in *. cbn [depth] in Hd. pose proof (depth_in_map l kv Hkv).
      cbn [In] in Hp. destruct Hp as [<- | [<- | []]]; cbn [snd]; lia.
  - cbn [swf] in Hswf. contradiction.
  - cbn [swf] in Hswf. destruct Hswf as [_ Hl]. apply SK_ext; auto. lia.
  - destruct (time_zero s n); [apply SK_nil; lia|].
    cbn [app]. apply SK_time; [|lia]. unfold llen. cbn [length]. rewrite !app_length, !be_put_length. reflexivity.
Qed.

(* ------------------------------------------------------------------ *)
(* nextValueBytes on an encoding: captures exactly the encoding, leaves exactly the rest *)

Lemma W_simple_skip_enc_lemma : forall (o : eopts) (D : dopts) (i : item) (key : bool) (before rest : list N) (fuel : nat) (dp : Z),
  swf o D i -> (2 * length (enc o key i ++ rest) + 1 <= fuel)%nat -> (dp + Z.of_nat (depth i) < maxdepth D)%Z ->
  nvb D fuel dp (rd_at before (enc o key i ++ rest)) = Ok (enc o key i, rd_at (before ++ enc o key i) rest).
Proof.
  intros o D i key before rest fuel dp Hswf Hf Hd.
  pose proof (skip_enc_all o D i Hswf key) as HSK.
  pose proof (enc_nonempty o i key) as Hne.
  unfold nvb, nvb_i, rd_at. destruct (enc o key i) as [|c tl] eqn:Ee; [cbn in Hne; lia|].
  cbn [app rd_readn1 suf rpre].
  specialize (HSK (c :: frev before) rest fuel dp 1%nat Hf Hd). unfold SKres in HSK.
  rewrite HSK. cbn [fst].
  unfold rd_cur. cbn [rpre]. rewrite !frev_rev.
  assert (Hlen : llen (rev tl ++ c :: rev before) = llen (rev before) + N.of_nat (S (length tl))).
  { unfold llen. rewrite app_length. cbn [length]. rewrite !rev_length. lia. }
  rewrite Hlen. destruct (N.ltb_spec (llen (rev before) + N.of_nat (S (length tl))) (llen (rev before))); [lia|].
  f_equal. f_equal.
  - replace (llen (rev before) + N.of_nat (S (length tl)) - llen (rev before)) with (N.of_nat (S (length tl))) by lia.
    rewrite Nat2N.id. unfold llen. rewrite Nat2N.id, rev_length.
    rewrite rev_app_distr. cbn [rev]. rewrite !rev_involutive.
    rewrite <- app_assoc. cbn [app].
    rewrite skipn_app_exact by reflexivity. apply firstn_all2. cbn [length]. lia.
  - apply (f_equal (fun x => mkrd x rest)). rewrite rev_app_distr. cbn [rev]. rewrite <- app_assoc. reflexivity.
Qed.

Lemma W_simple_skip_enc_top_lemma : forall (o : eopts) (D : dopts) (i : item) (rest : list N),
  swf o D i -> (Z.of_nat (depth i) < maxdepth D)%Z ->
  skip D (dec_fuel (enc o false i ++ rest)) (enc o false i ++ rest) = Ok rest /\
  raw D (dec_fuel (enc o false i ++ rest)) (enc o false i ++ rest) = Ok (enc o false i, rest).
Proof.
  intros o D i rest Hswf Hd. unfold skip, raw.
  change (rd_init (enc o false i ++ rest)) with (rd_at [] (enc o false i ++ rest)).
  rewrite (W_simple_skip_enc_lemma o D i false [] rest); auto; try (unfold dec_fuel; lia).
Qed.

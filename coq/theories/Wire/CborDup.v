(* Wire/CborDup — maps with repeated keys decoded into interface{} (the case Wire/Cbor.v answers with
   "unsupported").  No proofs here.

   What the code does (decode.go kMap, destination map[interface{}]interface{}): entries are decoded in stream
   order; for each, the key is decoded (a []byte key becomes a string), the value is decoded and assigned with
   mapSet.  When the key compares equal (Go ==) to one already in the map:
   * MapValueReset = true or InterfaceReset = true: the value is decoded afresh and REPLACES the earlier one; the
     key is re-assigned too (Go map assignment on interface keys).  This is what is modelled here: [decd] reads the
     entries as they come, [map_view] is the resulting Go map -- "the last entry wins, key object and value, at the
     position of the first occurrence" -- applied at every nesting level.
   * both options off (the default): the later value is decoded INTO the earlier one (typed decoding into the
     existing dynamic value: arrays overwrite a prefix, maps merge, a scalar of another type is an error); that is
     the generic layer's typed decoding, outside the wire layer, and is not modelled.

   Everything else is the decoder of Wire/Cbor.v: [dec_body] is reused as it stands. *)
From Coq Require Import List NArith ZArith Lia Bool.
From Verif Require Import Base.Outcome Wire.Item Gen.Consts Wire.CborFloat Wire.Cbor.
Import ListNotations.
Open Scope N_scope.

(* one map entry, no memory of the keys seen *)
Definition map_entry_d (self : Z -> nat -> list N -> resI (item * list N)) (d : Z) (r : nat) (b : list N)
  : resI (item * item * list N) :=
  doI (k0, b1) <- self d r b ;;
  let k := keynorm k0 in
  match b1 with
  | [] => (Err EEof, r)
  | _ =>
      if negb (hashable k) then (Err EOther, r)
      else doI (v, b2) <- self d r b1 ;; (Ok (k, v, b2), r)
  end.

Fixpoint decd (D : dopts) (f : nat) (d : Z) (r : nat) (b : list N) {struct f} : resI (item * list N) :=
  match f with
  | O => (OutOfFuel, r)
  | S f' =>
    match b with
    | [] => (Err EEof, r)
    | bd :: b1 =>
        dec_body D f' (decd D f') (arr_def_d D f') (arr_indef_d D f') (map_def_d D f') (map_indef_d D f') d r bd b1
    end
  end

with arr_def_d (D : dopts) (f : nat) (d : Z) (r : nat) (n : N) (b : list N) {struct f} : resI (list item * list N) :=
  match f with
  | O => (OutOfFuel, r)
  | S f' =>
      if n =? 0 then (Ok ([], b), r)
      else
        doI (x, b1) <- decd D f' d r b ;;
        doI (xs, b2) <- arr_def_d D f' d r (n - 1) b1 ;;
        (Ok (x :: xs, b2), r)
  end

with arr_indef_d (D : dopts) (f : nat) (d : Z) (r : nat) (b : list N) {struct f} : resI (list item * list N) :=
  match f with
  | O => (OutOfFuel, r)
  | S f' =>
      match b with
      | [] => (Err EEof, r)
      | bd :: b1 =>
          if bd =? bdBreak then (Ok ([], b1), r)
          else
            doI (x, b2) <- decd D f' d r b ;;
            doI (xs, b3) <- arr_indef_d D f' d r b2 ;;
            (Ok (x :: xs, b3), r)
      end
  end

(* [seen] is kept in the signature (dec_body passes it) and ignored *)
with map_def_d (D : dopts) (f : nat) (d : Z) (r : nat) (n : N) (seen : list item) (b : list N) {struct f}
  : resI (list (item * item) * list N) :=
  match f with
  | O => (OutOfFuel, r)
  | S f' =>
      if n =? 0 then (Ok ([], b), r)
      else
        doI (kv, b2) <- map_entry_d (decd D f') d r b ;;
        doI (kvs, b3) <- map_def_d D f' d r (n - 1) seen b2 ;;
        (Ok (kv :: kvs, b3), r)
  end

with map_indef_d (D : dopts) (f : nat) (d : Z) (r : nat) (seen : list item) (b : list N) {struct f}
  : resI (list (item * item) * list N) :=
  match f with
  | O => (OutOfFuel, r)
  | S f' =>
      match b with
      | [] => (Err EEof, r)
      | bd :: b0 =>
          if bd =? bdBreak then (Ok ([], b0), r)
          else
            doI (kv, b2) <- map_entry_d (decd D f') d r b ;;
            doI (kvs, b3) <- map_indef_d D f' d r seen b2 ;;
            (Ok (kv :: kvs, b3), r)
      end
  end.

(* the entries as read *)
Definition dec_naked_dup_raw (D : dopts) (f : nat) (b : list N) : res (item * list N) := fst (decd D f 0 0 b).

(* Go map assignment m[k] = v on a map[interface{}]interface{}: an equal key keeps its place (immaterial: Go maps
   are unordered) and BOTH the key object and the value are replaced (runtime mapassign with needkeyupdate, true
   for interface keys: after m[-0.0] = x; m[+0.0] = y the map holds the key +0.0) *)
Fixpoint assoc_set (k v : item) (acc : list (item * item)) : list (item * item) :=
  match acc with
  | [] => [(k, v)]
  | e :: r => if key_eqb k (fst e) then (k, v) :: r else e :: assoc_set k v r
  end.

Definition assign_all (l : list (item * item)) : list (item * item) :=
  fold_left (fun acc kv => assoc_set (fst kv) (snd kv) acc) l [].

(* the Go value: every map, at every level, after the assignments (keys are scalars: nothing to do inside them) *)
Fixpoint map_view (i : item) : item :=
  match i with
  | IArr l => IArr (map map_view l)
  | IMap l => IMap (assign_all (map (fun kv => (fst kv, map_view (snd kv))) l))
  | ITag t v => ITag t (map_view v)
  | _ => i
  end.

(* Decode(&v), v a nil interface{}, handle with MapValueReset (or InterfaceReset) *)
Definition dec_naked_dup (D : dopts) (f : nat) (b : list N) : res (item * list N) :=
  match dec_naked_dup_raw D f b with
  | Ok (i, rest) => Ok (map_view i, rest)
  | Err e => Err e
  | OutOfFuel => OutOfFuel
  end.

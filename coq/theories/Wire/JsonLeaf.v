(* Wire/JsonLeaf — the lexical leaves of the json wire model instantiated with the C09 model:
   the string and integer laws of [leaf_laws] and the whole of [leaf_total] are PROVED for
   [c09_leaf_of O] (any oracle O) from property C09's theorems (C09_quote, C09_quote_selfread,
   C09_uint: C09/ProofsQuote.v, ProofsUint.v, ProofsStr.v); what remains a hypothesis is the
   oracle part [float_time_laws]: strconv shortest float formatting, parseFloat64 on the texts
   the encoder writes, and the RFC 3339 time layout. *)
From Coq Require Import List NArith ZArith Bool Lia.
From Verif Require Import Base.Outcome Wire.Item Gen.Consts Wire.Json Wire.JsonRT Wire.JsonTotal.
From Verif Require C09.Spec C09.Model C09.ProofsStr C09.ProofsNum C09.ProofsQuote C09.ProofsUint.
Import ListNotations.
Open Scope N_scope.

Module CS := Verif.C09.Spec.
Module CM := Verif.C09.Model.
Module PS := Verif.C09.ProofsStr.
Module PN := Verif.C09.ProofsNum.
Module PQ := Verif.C09.ProofsQuote.
Module PU := Verif.C09.ProofsUint.

(* ------------------------------------------------------------------ *)
(* the oracle: what is not modelled (strconv, time)                    *)

Record oracle := mkoracle {
  o_f64 : N -> list N;             (* strconv.AppendFloat(f, fmt, prec, 64) under jsonFloatStrconvFmtPrec64 *)
  o_f32 : N -> list N;
  o_pf : list N -> option N;       (* parseFloat64 *)
  o_time : Z -> N -> list N }.     (* RFC3339Nano text *)

Definition c09_leaf_of (O : oracle) : leaf :=
  mkleaf c09_quote_body c09_unquote c09_sanit (o_f64 O) (o_f32 O) (o_pf O) (o_time O).

Definition table_oracle (T : tables) : oracle :=
  mkoracle (lookupN (t_f64 T)) (lookupN (t_f32 T)) (lookupL (t_pf T)) (lookupT (t_time T)).

Lemma c09_leaf_eq : forall T, c09_leaf T = c09_leaf_of (table_oracle T).
Proof. reflexivity. Qed.

(* the oracle part of [leaf_laws] *)
Record float_time_laws (L : leaf) : Prop := mkftlaws {
  ft_time_plain : forall s n, forallb plain (fmt_time L s n) = true;
  ft_f64_num : forall b, f64special b = false -> numtext (fmt_f64 L b);
  ft_f32_num : forall b, f32special b = false -> numtext (fmt_f32 L b);
  (* guarded by [num_read_ok] (Wire/JsonRT.v): a float text that is a bare integer literal of 2^63 or more is
     refused under SignedInteger without PreferFloat (float_bareint_refuted below) *)
  ft_f64_ok : forall D b, f64special b = false -> b < 2 ^ 64 -> num_read_ok D (fmt_f64 L b) = true ->
              exists i, naked_num L D (fmt_f64 L b) = Ok i;
  ft_f32_ok : forall D b, f32special b = false -> b < 2 ^ 32 -> num_read_ok D (fmt_f32 L b) = true ->
              exists i, naked_num L D (fmt_f32 L b) = Ok i;
  (* under PreferFloat the integer texts go to the float parser as well *)
  ft_pf_int : forall z, (- 2 ^ 63 <= z < 2 ^ 63)%Z -> exists v, pfloat L (int_text z) = Some v;
  ft_pf_uint : forall u, u < 2 ^ 64 -> exists v, pfloat L (udigits u) = Some v }.

(* the part proved below, for the record *)
Record str_int_laws (L : leaf) : Prop := mksilaws {
  si_unq_plain : forall p rest, forallb plain p = true -> unquote L (p ++ 34 :: rest) = Ok (p, rest);
  si_unq_quote : forall h s rest, unquote L (quote_body L h s ++ 34 :: rest) = Ok (CS.utf8_sanitise s, rest);
  si_sanit : forall s, sanit L s = CS.utf8_sanitise s;
  si_cstr_quote : forall h s rest, cstr false (quote_body L h s ++ 34 :: rest) = Ok rest;
  si_udig_num : forall u, u < 2 ^ 64 -> udigits u <> [] /\ forallb (fun c => (48 <=? c) && (c <=? 57)) (udigits u) = true;
  si_udig_parse : forall u, u < 2 ^ 64 -> CM.parseUint64_simple (udigits u) = (Z.of_N u, true) }.

(* ------------------------------------------------------------------ *)
(* strings                                                             *)

Lemma c09_unq_plain : forall p rest, forallb plain p = true -> c09_unquote (p ++ 34 :: rest) = Ok (p, rest).
Proof.
  intros p rest H. unfold c09_unquote, CM.dq_scan.
  rewrite (PS.asis_plain p (34 :: rest) H). cbn [CM.asis]. cbn [N.eqb Pos.eqb orb].
  cbn [negb andb app]. rewrite app_nil_r. reflexivity.
Qed.

Lemma c09_unq_quote : forall h s rest,
  c09_unquote (c09_quote_body h s ++ 34 :: rest) = Ok (CS.utf8_sanitise s, rest).
Proof.
  intros h s rest. pose proof (PQ.quote_selfread h s rest) as H.
  unfold CM.quoteStr in H. cbn [app] in H. unfold CM.dec_string in H. rewrite N.eqb_refl in H.
  rewrite <- app_assoc in H. cbn [app] in H. exact H.
Qed.

Lemma c09_sanit_eq : forall s, c09_sanit s = CS.utf8_sanitise s.
Proof.
  intros s. unfold c09_sanit. pose proof (c09_unq_quote true s []) as H. rewrite H. reflexivity.
Qed.

(* the skip scanner's string loop over a rendered literal *)
Lemma cstr_skip_plain : forall p r, forallb plain p = true -> cstr false (p ++ r) = cstr false r.
Proof.
  induction p as [|b p IH]; intros r H; [reflexivity|]. cbn in H. apply andb_prop in H as [Hb Hp].
  cbn [app cstr]. unfold plain in Hb. apply andb_prop in Hb as [H1 H2].
  apply negb_true_iff in H1. apply negb_true_iff in H2. rewrite H1, H2. apply IH. exact Hp.
Qed.

Lemma hex_plain : forall c, CS.is_hex c = true -> plain c = true.
Proof.
  intros c H. unfold CS.is_hex in H. unfold plain.
  destruct (N.eqb_spec c 34); [subst; discriminate H|]. destruct (N.eqb_spec c 92); [subst; discriminate H|]. reflexivity.
Qed.

Lemma cstr_esc : forall x r, cstr false (92 :: x :: r) = cstr false r.
Proof. reflexivity. Qed.

Lemma cstr_items : forall l rest, forallb CS.wf_item l = true ->
  cstr false (CS.render_items l ++ 34 :: rest) = Ok rest.
Proof.
  induction l as [|i l IH]; intros rest H; [cbn; reflexivity|].
  cbn [forallb] in H. apply andb_prop in H as [Hi Hl].
  change (CS.render_items (i :: l)) with (CS.render_item i ++ CS.render_items l). rewrite <- app_assoc.
  destruct i as [cp|c|a b c d]; cbn [CS.render_item].
  - rewrite cstr_skip_plain; [apply IH; exact Hl|]. exact (PS.utf8_plain cp Hi).
  - cbn [app]. rewrite cstr_esc. apply IH. exact Hl.
  - cbn [CS.wf_item] in Hi. apply andb_prop in Hi as [Hi Hd]. apply andb_prop in Hi as [Hi Hc]. apply andb_prop in Hi as [Ha Hb].
    cbn [app]. rewrite cstr_esc.
    change (a :: b :: c :: d :: CS.render_items l ++ 34 :: rest) with ([a; b; c; d] ++ CS.render_items l ++ 34 :: rest).
    rewrite cstr_skip_plain; [apply IH; exact Hl|]. cbn. rewrite !hex_plain by assumption. reflexivity.
Qed.

Lemma c09_cstr_quote : forall h s rest, cstr false (c09_quote_body h s ++ 34 :: rest) = Ok rest.
Proof.
  intros h s rest. destruct (PQ.quote_lemma h s) as (l & Hwf & Hq & _).
  unfold CM.quoteStr, CS.render_lit in Hq. inversion Hq as [Hq']. apply app_inv_tail in Hq'.
  unfold c09_quote_body. rewrite Hq'. apply cstr_items. exact Hwf.
Qed.

(* ------------------------------------------------------------------ *)
(* integers                                                            *)

Lemma udigits_eq : forall u, udigits u = CM.jsonEncodeUint false false (Z.of_N u).
Proof. intros u. unfold udigits, CM.jsonEncodeUint. cbn [app]. rewrite app_nil_r. reflexivity. Qed.

Lemma c09_udig_num : forall u, u < 2 ^ 64 ->
  udigits u <> [] /\ forallb (fun c => (48 <=? c) && (c <=? 57)) (udigits u) = true.
Proof.
  intros u Hu. rewrite udigits_eq.
  destruct (PU.uint_format (Z.of_N u)) as (ds & Hf & Hwf & _); [lia|]. rewrite Hf.
  destruct (PN.wf_int_digits ds Hwf) as [Hd Hne]. split.
  - destruct ds; [congruence|discriminate].
  - clear Hf Hwf Hne. induction ds as [|d r IH]; [reflexivity|]. cbn [forallb map] in Hd |- *. apply andb_prop in Hd as [H1 H2].
    rewrite (IH H2). unfold CS.is_digit in H1. apply N.ltb_lt in H1. unfold CS.dchar.
    replace (48 <=? 48 + d) with true by (symmetry; apply N.leb_le; lia).
    replace (48 + d <=? 57) with true by (symmetry; apply N.leb_le; lia). reflexivity.
Qed.

Lemma c09_udig_parse : forall u, u < 2 ^ 64 -> CM.parseUint64_simple (udigits u) = (Z.of_N u, true).
Proof. intros u Hu. rewrite udigits_eq. apply PU.uint_roundtrip. lia. Qed.

Lemma udigits_hd : forall u, u < 2 ^ 64 -> exists c r, udigits u = c :: r /\ (c =? 45) = false.
Proof.
  intros u Hu. destruct (c09_udig_num u Hu) as [Hne Hd]. destruct (udigits u) as [|c r]; [congruence|].
  exists c, r. split; [reflexivity|]. cbn in Hd. apply andb_prop in Hd as [Hc _]. apply andb_prop in Hc as [Hc _].
  apply N.leb_le in Hc. apply N.eqb_neq. lia.
Qed.

Section IntOk.
Variable L : leaf.
Hypothesis FT : float_time_laws L.

Lemma int_ok : forall D z, (- 2 ^ 63 <= z < 2 ^ 63)%Z -> exists i, naked_num L D (int_text z) = Ok i.
Proof.
  intros D z Hz. unfold naked_num.
  destruct (preferFloat D).
  { destruct (ft_pf_int L FT z Hz) as [v ->]. eauto. }
  unfold int_text. destruct (z <? 0)%Z eqn:E.
  - apply Z.ltb_lt in E. cbn [tl]. rewrite N.eqb_refl.
    rewrite c09_udig_parse by lia. unfold uint2int_ovf.
    replace (2 ^ 63 <? Z.of_N (Z.to_N (- z)))%Z with false by (symmetry; apply Z.ltb_ge; lia). eauto.
  - apply Z.ltb_ge in E. destruct (udigits_hd (Z.to_N z)) as (c & r & Hc & Hn); [lia|].
    rewrite Hc, Hn. rewrite <- Hc. rewrite c09_udig_parse by lia. unfold uint2int_ovf.
    destruct (signedInteger D); [|eauto].
    replace (2 ^ 63 <=? Z.of_N (Z.to_N z))%Z with false by (symmetry; apply Z.leb_gt; lia). eauto.
Qed.

Lemma uint_ok : forall D u, u < 2 ^ 64 -> (signedInteger D = false \/ preferFloat D = true \/ u < 2 ^ 63) ->
  exists i, naked_num L D (udigits u) = Ok i.
Proof.
  intros D u Hu Hg. unfold naked_num.
  destruct (preferFloat D) eqn:Hp.
  { destruct (ft_pf_uint L FT u Hu) as [v ->]. eauto. }
  destruct (udigits_hd u Hu) as (c & r & Hc & Hn). rewrite Hc, Hn. rewrite <- Hc.
  rewrite c09_udig_parse by exact Hu. unfold uint2int_ovf.
  destruct (signedInteger D) eqn:Hs; [|eauto].
  destruct Hg as [Hg|[Hg|Hg]]; try discriminate.
  replace (2 ^ 63 <=? Z.of_N u)%Z with false by (symmetry; apply Z.leb_gt; lia). eauto.
Qed.
End IntOk.

(* ------------------------------------------------------------------ *)
(* the laws, assembled                                                 *)

Lemma c09_str_int_laws : forall O, str_int_laws (c09_leaf_of O).
Proof.
  intros O. constructor; cbn [c09_leaf_of unquote quote_body sanit].
  - apply c09_unq_plain.
  - apply c09_unq_quote.
  - apply c09_sanit_eq.
  - apply c09_cstr_quote.
  - apply c09_udig_num.
  - apply c09_udig_parse.
Qed.

Lemma c09_leaf_laws : forall O, float_time_laws (c09_leaf_of O) -> leaf_laws (c09_leaf_of O).
Proof.
  intros O FT. constructor.
  - apply c09_unq_plain.
  - intros h s rest. cbn [c09_leaf_of unquote quote_body sanit]. rewrite c09_sanit_eq. apply c09_unq_quote.
  - apply c09_cstr_quote.
  - apply (ft_time_plain _ FT).
  - apply (ft_f64_num _ FT).
  - apply (ft_f32_num _ FT).
  - apply (ft_f64_ok _ FT).
  - apply (ft_f32_ok _ FT).
  - apply c09_udig_num.
  - apply (int_ok _ FT).
  - apply (uint_ok _ FT).
Qed.

(* ------------------------------------------------------------------ *)
(* the string decoder ends and never hands back more than it was given *)

Lemma asis_len : forall s bs c rest, CM.asis s = Some (bs, c, rest) -> (length rest < length s)%nat.
Proof.
  induction s as [|b s IH]; intros bs c rest H; cbn in H; [discriminate|].
  destruct ((b =? 34) || (b =? 92)); [inversion H; subst; cbn; lia|].
  destruct (CM.asis s) as [[[bs' c'] r']|] eqn:E; [|discriminate]. inversion H; subst.
  specialize (IH _ _ _ eq_refl). cbn. lia.
Qed.

Lemma dq_step_len : forall buf hi s b h s', CM.dq_step buf hi s = Ok (b, h, s') -> (length s' < length s)%nat.
Proof.
  intros buf hi s b h s' H. destruct s as [|c s1]; [discriminate|]. cbn [CM.dq_step] in H.
  repeat match type of H with
  | (if ?c then _ else _) = _ => destruct c
  | (match ?l with [] => _ | _ :: _ => _ end) = _ => destruct l
  end; try discriminate; inversion H; subst; cbn; lia.
Qed.

Lemma dq_step_nofuel : forall buf hi s, CM.dq_step buf hi s <> OutOfFuel.
Proof.
  intros buf hi s. destruct s as [|c s1]; [discriminate|]. cbn [CM.dq_step].
  repeat match goal with
  | |- (if ?c then _ else _) <> _ => destruct c
  | |- (match ?l with [] => _ | _ :: _ => _ end) <> _ => destruct l
  end; discriminate.
Qed.

Definition sgood (n : nat) (r : res (list N * list N)) : Prop :=
  match r with Ok (_, rest) => (length rest <= n)%nat | Err _ => True | OutOfFuel => False end.

Lemma dq_scan_good : forall (k : list N -> N -> list N -> res (list N * list N)) f,
  (forall buf hi s, (length s < f)%nat -> sgood (length s) (k buf hi s)) ->
  forall buf hi s, (length s <= f)%nat -> sgood (length s) (CM.dq_scan k buf hi s).
Proof.
  intros k f Hk buf hi s Hs. unfold CM.dq_scan.
  destruct (CM.asis s) as [[[bs c2] rest]|] eqn:E; [|exact I].
  pose proof (asis_len _ _ _ _ E) as Hl.
  destruct (c2 =? 34); [cbn; lia|].
  match goal with |- sgood _ (k ?b ?h rest) => pose proof (Hk b h rest ltac:(lia)) as G; destruct (k b h rest) as [[d r]| |] end;
    cbn in *; auto. lia.
Qed.

Lemma dq_loop_good : forall f buf hi s, (length s < f)%nat -> sgood (length s) (CM.dq_loop f buf hi s).
Proof.
  induction f as [|f IH]; intros buf hi s Hs; [lia|]. cbn [CM.dq_loop].
  pose proof (dq_step_nofuel buf hi s) as Hn. pose proof (dq_step_len buf hi s) as Hl.
  destruct (CM.dq_step buf hi s) as [[[buf2 hi2] s3]| |]; [|exact I|congruence].
  specialize (Hl _ _ _ eq_refl).
  pose proof (dq_scan_good (CM.dq_loop f) f (fun b h x Hx => IH b h x Hx) buf2 hi2 s3 ltac:(lia)) as G.
  destruct (CM.dq_scan (CM.dq_loop f) buf2 hi2 s3) as [[d r]| |]; cbn in *; auto. lia.
Qed.

Lemma c09_unquote_good : forall l, sgood (length l) (c09_unquote l).
Proof.
  intros l. unfold c09_unquote. apply (dq_scan_good _ (length l)); [|lia].
  intros buf hi s Hs. apply dq_loop_good. exact Hs.
Qed.

Lemma c09_leaf_total : forall O, leaf_total (c09_leaf_of O).
Proof.
  intros O. constructor; cbn [c09_leaf_of unquote].
  - intros l H. pose proof (c09_unquote_good l) as G. rewrite H in G. exact G.
  - intros l bs r H. pose proof (c09_unquote_good l) as G. rewrite H in G. exact G.
Qed.

(* ------------------------------------------------------------------ *)
(* the oracle hypotheses are satisfiable (a toy oracle: every float is written "1.5", every number text
   parses, the time text is empty) -- non-vacuity of the conditional theorems, not a claim about strconv *)

Definition toy_oracle : oracle := mkoracle (fun _ => [49; 46; 53]) (fun _ => [49; 46; 53]) (fun _ => Some 0) (fun _ _ => []).

Lemma toy_float_time_laws : float_time_laws (c09_leaf_of toy_oracle).
Proof.
  constructor; cbn [c09_leaf_of toy_oracle fmt_time fmt_f64 fmt_f32 pfloat o_f64 o_f32 o_pf o_time].
  - reflexivity.
  - intros b _. split; [discriminate|reflexivity].
  - intros b _. split; [discriminate|reflexivity].
  - intros [pf si dk mi md] b _ _ _. destruct pf, si; vm_compute; eauto.
  - intros [pf si dk mi md] b _ _ _. destruct pf, si; vm_compute; eauto.
  - eauto.
  - eauto.
Qed.

(* ------------------------------------------------------------------ *)
(* the UNGUARDED float law is false of the implementation (known finding F15-1's class): float64 1e19 is
   written by the real encoder as the bare integer literal 10000000000000000000 (observed text: the table
   below is what the real Encoder wrote and what the real parseFloat64 returns for it); under SignedInteger
   without PreferFloat the number reader takes it for an integer, finds it >= 2^63 and reports an error.
   Without SignedInteger it comes back as the UNSIGNED INTEGER 10^19, not as a float. *)
Definition bareint_T : tables :=
  mktables [(4891288408196988160, [49; 48; 48; 48; 48; 48; 48; 48; 48; 48; 48; 48; 48; 48; 48; 48; 48; 48; 48; 48])] []
           [([49; 48; 48; 48; 48; 48; 48; 48; 48; 48; 48; 48; 48; 48; 48; 48; 48; 48; 48; 48], 4891288408196988160)] [].

Lemma float_bareint_refuted :
  ~ full_float_law (c09_leaf bareint_T) /\
  (let D := mkdopts false true false false 0 in
   let L := c09_leaf bareint_T in
   let o := mkeopts 0 0 false false false false false in
   f64special 4891288408196988160 = false /\ num_read_ok D (fmt_f64 L 4891288408196988160) = false /\
   enc_top L o (IF64 4891288408196988160) = [49; 48; 48; 48; 48; 48; 48; 48; 48; 48; 48; 48; 48; 48; 48; 48; 48; 48; 48; 48] /\
   dec_naked L D 50 (enc_top L o (IF64 4891288408196988160)) = Err EOther /\
   dec_naked L (mkdopts false false false false 0) 50 (enc_top L o (IF64 4891288408196988160))
     = Ok (IUint 10000000000000000000, [])).
Proof.
  split.
  - intro H. destruct (H (mkdopts false true false false 0) 4891288408196988160 eq_refl eq_refl) as [i Hi].
    vm_compute in Hi. discriminate Hi.
  - vm_compute. repeat apply conj; reflexivity.
Qed.

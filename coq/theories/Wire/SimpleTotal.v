(* Wire/SimpleTotal — decoding and skipping arbitrary bytes never run out of fuel
   (fuel linear in the input length), and every successful step consumes input. *)
From Coq Require Import List NArith ZArith Bool Lia Arith.
From Coq Require Import ZifyN ZifyNat ZifyBool.
From Verif Require Import Base.Outcome Wire.Item Gen.Consts Wire.Simple.
Import ListNotations.
Open Scope bool_scope.

(* a result that is not OutOfFuel and, when Ok, satisfies P *)
Definition good {A} (P : A -> Prop) (r : res A) : Prop :=
  match r with Ok a => P a | Err _ => True | OutOfFuel => False end.

Lemma good_bind : forall {A B} (Q : A -> Prop) (P : B -> Prop) (r : res A) (f : A -> res B),
  good Q r -> (forall a, Q a -> good P (f a)) -> good P (bind r f).
Proof. intros A B Q P [a|e|] f H Hf; cbn in *; auto. Qed.

Lemma good_weaken : forall {A} (P Q : A -> Prop) (r : res A), good P r -> (forall a, P a -> Q a) -> good Q r.
Proof. intros A P Q [a|e|] H HPQ; cbn in *; auto. Qed.

Lemma good_not_oof : forall {A} (P : A -> Prop) (r : res A), good P r -> r <> OutOfFuel.
Proof. intros A P [a|e|] H; cbn in *; congruence. Qed.

Definition le_rest {A} (l : list N) (p : A * list N) : Prop := (length (snd p) <= length l)%nat.
Definition lt_rest {A} (l : list N) (p : A * list N) : Prop := (length (snd p) < length l)%nat.

Lemma good_readn1 : forall l, good (lt_rest l) (readn1 l).
Proof. intros [|b r]; cbn; unfold lt_rest; cbn; auto. Qed.

Lemma good_readn : forall k l, good (le_rest l) (readn k l).
Proof.
  intros k l. unfold readn. destruct (length l <? k)%nat; cbn; auto.
  unfold le_rest. cbn. rewrite skipn_length. lia.
Qed.

Lemma good_readx : forall n l, good (le_rest l) (readx n l).
Proof.
  intros n l. unfold readx. destruct (llen l <? n)%N; cbn; auto.
  unfold le_rest. cbn. rewrite skipn_length. lia.
Qed.

Lemma good_uint2len : forall v l r, (length r <= length l)%nat -> good (le_rest l) (uint2len v r).
Proof. intros v l r H. unfold uint2len. destruct (_ <? _)%N; cbn; auto. Qed.

Lemma good_dec_len : forall lw l, good (le_rest l) (dec_len lw l).
Proof.
  intros lw l. unfold dec_len.
  destruct lw as [|p]; [cbn; unfold le_rest; cbn; lia|].
  repeat match goal with
         | |- context [match ?p with xI _ => _ | xO _ => _ | xH => _ end] => destruct p
         end;
    try exact I;
    (eapply good_bind; [apply good_readn|]; intros [v r] H; unfold le_rest in H; cbn [snd] in H;
     first [apply good_uint2len; exact H | cbn; exact H]).
Qed.

Ltac step_bind lem :=
  eapply good_bind; [apply lem|]; let a := fresh "a" in let r := fresh "r" in let H := fresh "H" in
  intros [a r] H; unfold le_rest, lt_rest in H; cbn [snd] in H.

Lemma good_int64v : forall a neg, good (fun _ => True) (int64v a neg).
Proof.
  intros a neg. unfold int64v, Verif.Gen.Leaf.decNegintPosintFloatNumberHelperInt64v.
  destruct neg; cbn [andb]; destruct (Verif.Gen.Leaf.checkOverflow_Uint2Int _ _); cbn; auto.
Qed.

Lemma good_time_payload : forall p, good (fun _ => True) (dec_time_payload p).
Proof.
  intros p. unfold dec_time_payload. destruct p as [|v q]; [exact I|].
  destruct (negb _); [exact I|]. destruct (negb _); [exact I|]. exact I.
Qed.

Lemma good_dec_scalar : forall D k l, good (le_rest l) (dec_scalar D k l).
Proof.
  intros D k l. destruct k; cbn [dec_scalar]; try (cbn; unfold le_rest; cbn; lia); try exact I.
  - (* pos *) step_bind good_readn. destruct (signedInteger D).
    + eapply good_bind; [apply good_int64v|]. intros i _. cbn. exact H.
    + cbn. exact H.
  - (* neg *) step_bind good_readn. eapply good_bind; [apply good_int64v|]. intros i _. cbn. exact H.
  - step_bind good_readn. cbn. exact H.
  - step_bind good_readn. cbn. exact H.
  - (* time *) step_bind good_readn1. step_bind good_readx.
    eapply good_bind; [apply good_time_payload|]. intros t _. cbn. unfold le_rest. cbn. lia.
  - step_bind good_dec_len. step_bind good_readx. cbn. unfold le_rest. cbn. lia.
  - step_bind good_dec_len. step_bind good_readx. cbn. unfold le_rest. cbn. lia.
  - step_bind good_dec_len. step_bind good_readn1. step_bind good_readx. cbn. unfold le_rest. cbn. lia.
Qed.

Lemma good_depth_enter : forall D dp n, good (fun _ => True) (depth_enter D dp n).
Proof. intros. unfold depth_enter. destruct (_ =? _)%Z; cbn; auto. destruct (_ <=? _)%Z; cbn; auto. Qed.

Theorem dec_total_gen : forall fuel,
  (forall D dp l, (2 * length l + 1 <= fuel)%nat -> good (lt_rest l) (dec D fuel dp l)) /\
  (forall D dp cnt l, (2 * length l + 2 <= fuel)%nat -> good (le_rest l) (dec_elems D fuel dp cnt l)) /\
  (forall D dp seen cnt l, (2 * length l + 2 <= fuel)%nat -> good (le_rest l) (dec_pairs D fuel dp seen cnt l)).
Proof.
  induction fuel as [|f [IHd [IHe IHp]]].
  - repeat apply conj; intros; lia.
  - repeat apply conj.
    + intros D dp l Hf. cbn [dec].
      step_bind good_readn1.
      assert (Hsc : forall k, good (lt_rest l) (dec_scalar D k r)).
      { intros k. eapply good_weaken; [apply good_dec_scalar|]. intros [x r'] Hx. unfold le_rest, lt_rest in *. cbn [snd] in *. lia. }
      destruct (classify a); try apply Hsc.
      * step_bind good_dec_len. eapply good_bind; [apply good_depth_enter|]. intros d' _.
        eapply good_bind; [apply IHe; lia|]. intros [xs r2] Hx. unfold le_rest in Hx. cbn [snd] in Hx.
        cbn. unfold lt_rest. cbn. lia.
      * step_bind good_dec_len. eapply good_bind; [apply good_depth_enter|]. intros d' _.
        eapply good_bind; [apply IHp; lia|]. intros [xs r2] Hx. unfold le_rest in Hx. cbn [snd] in Hx.
        cbn. unfold lt_rest. cbn. lia.
    + intros D dp cnt l Hf. cbn [dec_elems]. destruct (cnt_done cnt); [cbn; unfold le_rest; cbn; lia|].
      eapply good_bind; [apply IHd; lia|]. intros [x r] Hx. unfold lt_rest in Hx. cbn [snd] in Hx.
      eapply good_bind; [apply IHe; lia|]. intros [xs r'] Hxs. unfold le_rest in Hxs. cbn [snd] in Hxs.
      cbn. unfold le_rest. cbn. lia.
    + intros D dp seen cnt l Hf. cbn [dec_pairs]. destruct (cnt_done cnt); [cbn; unfold le_rest; cbn; lia|].
      eapply good_bind; [apply IHd; lia|]. intros [k r] Hk. unfold lt_rest in Hk. cbn [snd] in Hk.
      destruct (seen_key seen (key_conv k)); [exact I|].
      eapply good_bind; [apply good_readn1|]. intros [b0 r0] _.
      destruct (unhashable k); [exact I|].
      eapply good_bind; [apply IHd; lia|]. intros [v r1] Hv. unfold lt_rest in Hv. cbn [snd] in Hv.
      eapply good_bind; [apply IHp; lia|]. intros [kvs r'] Hkvs. unfold le_rest in Hkvs. cbn [snd] in Hkvs.
      cbn. unfold le_rest. cbn. lia.
Qed.

Lemma W_simple_dec_total_lemma : forall (D : dopts) (l : list N) (fuel : nat) (dp : Z),
  (2 * length l + 1 <= fuel)%nat -> dec D fuel dp l <> OutOfFuel.
Proof. intros D l fuel dp H. eapply good_not_oof. apply (dec_total_gen fuel). exact H. Qed.

Lemma W_simple_dec_progress_lemma : forall (D : dopts) (l : list N) (fuel : nat) (dp : Z) (x : item) (r : list N),
  (2 * length l + 1 <= fuel)%nat -> dec D fuel dp l = Ok (x, r) -> (length r < length l)%nat.
Proof.
  intros D l fuel dp x r H E. pose proof (proj1 (dec_total_gen fuel) D dp l H) as G. rewrite E in G. exact G.
Qed.

(* ------------------------------------------------------------------ *)
(* the skip walker                                                     *)

Definition le_suf (z z' : rd) : Prop := (length (suf z') <= length (suf z))%nat.

Lemma good_rd_readn1 : forall z, good (fun p => (length (suf (snd p)) < length (suf z))%nat) (rd_readn1 z).
Proof. intros [rp [|b r]]; cbn; auto. Qed.

Lemma good_rd_readn : forall k z, good (fun p => le_suf z (snd p)) (rd_readn k z).
Proof.
  intros k z. unfold rd_readn. destruct (_ <? _)%nat; cbn; auto.
  unfold le_suf, rd_fwd. cbn. rewrite skipn_length. lia.
Qed.

Lemma good_rd_skip : forall n z, good (le_suf z) (rd_skip n z).
Proof.
  intros n z. unfold rd_skip. destruct (_ <? _)%N; cbn; auto.
  unfold le_suf, rd_fwd. cbn. rewrite skipn_length. lia.
Qed.

Definition head_post (z : rd) (len : N) (z' : rd) : Prop :=
  (length (suf z') <= length (suf z))%nat /\ (len = 0%N \/ (length (suf z') < length (suf z))%nat).

Lemma good_rd_readn_pos : forall k z, (1 <= k)%nat ->
  good (fun p => (length (suf (snd p)) < length (suf z))%nat) (rd_readn k z).
Proof.
  intros k z Hk. unfold rd_readn. destruct (Nat.ltb_spec (length (suf z)) k); cbn; auto.
  unfold rd_fwd. cbn. rewrite skipn_length. lia.
Qed.

Lemma good_skip_len : forall lw z, good (fun p => head_post z (fst p) (snd p)) (skip_len lw z).
Proof.
  intros lw z. unfold skip_len.
  destruct lw as [|p]; [cbn; unfold head_post; cbn; lia|].
  repeat match goal with
         | |- context [match ?p with xI _ => _ | xO _ => _ | xH => _ end] => destruct p
         end;
    try (cbn; unfold head_post; cbn; lia);
    (eapply good_weaken; [apply good_rd_readn_pos; lia|]; intros [v z1] H; unfold head_post; cbn in *; lia).
Qed.

Lemma good_skip_head : forall c lw z,
  good (fun p => head_post z (snd (fst p)) (snd p)) (skip_head c lw z).
Proof.
  intros c lw z. unfold skip_head.
  eapply good_bind; [apply good_skip_len|]. intros [len z1] H. cbn [fst snd] in H. unfold head_post in H.
  destruct (cclassify c); try (cbn; unfold head_post; cbn; lia).
  eapply good_bind; [apply good_rd_readn1|]. intros [b z2] H2. cbn in *. unfold head_post. cbn. lia.
Qed.

(* bound on the recursion level: frames above [lvl] are paid for by depth below MaxDepth *)
Definition room (D : dopts) (dp : Z) : Z := Z.max 0 (maxdepth D - 1 - dp).

Theorem skip_total_gen : forall fuel,
  (forall D dp lvl c z, (2 * length (suf z) + 1 <= fuel)%nat ->
     good (le_suf z) (fst (skipv D fuel dp lvl c z)) /\
     (Z.of_nat lvl <= Z.of_nat (snd (skipv D fuel dp lvl c z)) <= Z.of_nat lvl + room D dp)%Z) /\
  (forall D dp lvl cnt z, (2 * length (suf z) + 2 <= fuel)%nat -> (dp < maxdepth D)%Z ->
     good (le_suf z) (fst (skip_elems D fuel dp lvl cnt z)) /\
     (Z.of_nat lvl <= Z.of_nat (snd (skip_elems D fuel dp lvl cnt z)) <= Z.of_nat lvl + 1 + room D dp)%Z).
Proof.
  induction fuel as [|f [IHv IHe]].
  - split; intros; lia.
  - split.
    + intros D dp lvl c z Hf. cbn [skipv].
      assert (Hroom : (0 <= room D dp)%Z) by (unfold room; lia).
      destruct (sclassify c).
      * cbn [fst snd]. split; [cbn; unfold le_suf; lia|lia].
      * cbn [fst snd]. split; [|lia].
        eapply good_bind; [apply good_rd_readn1|]. intros [b z1] H. cbn in *. unfold le_suf. lia.
      * cbn [fst snd]. split; [apply good_rd_skip|lia].
      * cbn [fst snd]. split; [|lia].
        eapply good_bind; [apply good_rd_readn1|]. intros [b z1] H. cbn [snd] in H.
        eapply good_weaken; [apply good_rd_skip|]. intros z2 H2. unfold le_suf in *. lia.
      * pose proof (good_skip_head c lw z) as Hh.
        destruct (skip_head c lw z) as [[[ck len] z2]|e|]; cbn [fst snd]; [|split; [exact I|lia]|contradiction].
        cbn in Hh. unfold head_post in Hh.
        destruct (N.eqb_spec len 0); [cbn [fst snd]; split; [cbn; unfold le_suf; lia|lia]|].
        assert (Hsk : good (le_suf z) (fst (rd_skip len z2, lvl)) /\
                      (Z.of_nat lvl <= Z.of_nat (snd (rd_skip len z2, lvl)) <= Z.of_nat lvl + room D dp)%Z).
        { cbn [fst snd]. split; [|lia]. eapply good_weaken; [apply good_rd_skip|]. intros z3 H3. unfold le_suf in *. lia. }
        destruct ck; try exact Hsk.
        -- unfold depth_incr. destruct (Z.leb_spec (maxdepth D) (dp + 1)); cbn [fst snd]; [split; [exact I|lia]|].
           destruct (IHe D (dp + 1)%Z lvl len z2) as [G1 G2]; [lia|lia|]. split.
           ++ eapply good_weaken; [exact G1|]. intros z3 H3. unfold le_suf in *. lia.
           ++ unfold room in *. lia.
        -- unfold depth_incr. destruct (Z.leb_spec (maxdepth D) (dp + 1)); cbn [fst snd]; [split; [exact I|lia]|].
           destruct (IHe D (dp + 1)%Z lvl (2 * len)%N z2) as [G1 G2]; [lia|lia|]. split.
           ++ eapply good_weaken; [exact G1|]. intros z3 H3. unfold le_suf in *. lia.
           ++ unfold room in *. lia.
    + intros D dp lvl cnt z Hf Hdp. cbn [skip_elems].
      assert (Hroom : (0 <= room D dp)%Z) by (unfold room; lia).
      destruct (cnt =? 0)%N; [cbn [fst snd]; split; [cbn; unfold le_suf; lia|lia]|].
      pose proof (good_rd_readn1 z) as Hr.
      destruct (rd_readn1 z) as [[c z1]|e|]; cbn [fst snd]; [|split; [exact I|lia]|contradiction].
      cbn in Hr.
      destruct (IHv D dp (S lvl) c z1) as [G1 G2]; [lia|].
      destruct (fst (skipv D f dp (S lvl) c z1)) as [z2|e|] eqn:E1; cbn [fst snd];
        [|split; [exact I|lia]|contradiction].
      cbn in G1. unfold le_suf in G1.
      destruct (IHe D dp lvl (N.pred cnt) z2) as [G3 G4]; [lia|lia|].
      split.
      * eapply good_weaken; [exact G3|]. intros z3 H3. unfold le_suf in *. lia.
      * lia.
Qed.

(* nextValueBytes: never out of fuel; at most MaxDepth - depth recursion frames *)
Lemma W_simple_skip_total_lemma : forall (D : dopts) (dp : Z) (z : rd) (fuel : nat),
  (2 * length (suf z) + 1 <= fuel)%nat -> nvb D fuel dp z <> OutOfFuel.
Proof.
  intros D dp z fuel Hf. unfold nvb, nvb_i.
  pose proof (good_rd_readn1 z) as Hr.
  destruct (rd_readn1 z) as [[c z1]|e|]; cbn [fst snd]; [|discriminate|contradiction].
  cbn in Hr.
  destruct (proj1 (skip_total_gen fuel) D dp 1%nat c z1) as [G _]; [lia|].
  destruct (fst (skipv D fuel dp 1 c z1)); [|discriminate|contradiction].
  destruct (_ <? _)%N; discriminate.
Qed.

Lemma W_simple_skip_depth_lemma : forall (D : dopts) (dp : Z) (z : rd) (fuel : nat),
  (2 * length (suf z) + 1 <= fuel)%nat -> (0 <= dp)%Z ->
  (Z.of_nat (snd (nvb_i D fuel dp z)) <= Z.max 1 (maxdepth D - dp))%Z.
Proof.
  intros D dp z fuel Hf Hdp. unfold nvb_i.
  pose proof (good_rd_readn1 z) as Hr.
  destruct (rd_readn1 z) as [[c z1]|e|]; cbn [fst snd]; [|lia|contradiction].
  cbn in Hr.
  destruct (proj1 (skip_total_gen fuel) D dp 1%nat c z1) as [_ G]; [lia|].
  unfold room in G. lia.
Qed.

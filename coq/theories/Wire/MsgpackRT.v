(* Wire/MsgpackRT — round trip through the msgpack model: dec_enc, skip_enc, for all items. *)
From Coq Require Import List NArith ZArith Lia Bool Arith.
From Coq Require Import ZifyN ZifyNat ZifyBool.
From Verif Require Import Base.Outcome Wire.Item Gen.Consts Wire.Msgpack Wire.MsgpackProofs.
Import ListNotations.
Local Open Scope N_scope.

(* ================================================================== *)
(* finite sweeps *)

Lemma N_forall_lt : forall (P : N -> bool) k,
  forallb P (map N.of_nat (seq 0 k)) = true -> forall n, n < N.of_nat k -> P n = true.
Proof.
  intros P k H n Hn. rewrite forallb_forall in H. apply H.
  apply in_map_iff. exists (N.to_nat n). split; [lia|]. apply in_seq. lia.
Qed.

(* ================================================================== *)
(* big endian *)

Lemma be_put_length : forall k v, length (be_put k v) = k.
Proof. induction k; intros; cbn [be_put length]; [reflexivity|]. rewrite IHk. reflexivity. Qed.

Lemma be_acc_put : forall k v acc, be_acc acc (be_put k v) = acc * 256 ^ N.of_nat k + v mod 256 ^ N.of_nat k.
Proof.
  induction k as [|k IH]; intros v acc.
  - cbn [be_put be_acc]. change (256 ^ N.of_nat 0) with 1. rewrite N.mod_1_r. lia.
  - cbn [be_put be_acc]. rewrite IH.
    replace (N.of_nat (S k)) with (N.succ (N.of_nat k)) by lia.
    rewrite N.pow_succ_r'. set (p := 256 ^ N.of_nat k).
    assert (Hp : p <> 0) by (unfold p; apply N.pow_nonzero; discriminate).
    rewrite (N.mul_comm 256 p). rewrite N.mod_mul_r by (try assumption; discriminate). lia.
Qed.

Lemma be_get_put : forall k v, v < 256 ^ N.of_nat k -> be_get (be_put k v) = v.
Proof. intros k v H. unfold be_get. rewrite be_acc_put. rewrite N.mod_small by assumption. lia. Qed.

Lemma one_byte : forall v, v < 256 -> forall hd r, [hd; v] ++ r = hd :: be_put 1 v ++ r.
Proof.
  intros v H hd r. cbn [be_put app]. change (256 ^ N.of_nat 0) with 1. rewrite N.div_1_r.
  rewrite N.mod_small by assumption. reflexivity.
Qed.

Lemma rd_nk_put : forall k v r, rd_nk k (be_put k v ++ r) = Ok (be_put k v, r).
Proof. intros. apply rd_nk_app. apply be_put_length. Qed.

(* ================================================================== *)
(* two's complement *)

Ltac pow_consts :=
  change (2 ^ (8 - 1)) with 128 in *; change (2 ^ (16 - 1)) with 32768 in *;
  change (2 ^ (32 - 1)) with 2147483648 in *; change (2 ^ (64 - 1)) with 9223372036854775808 in *;
  change (2 ^ Z.of_N 8)%Z with 256%Z in *; change (2 ^ Z.of_N 16)%Z with 65536%Z in *;
  change (2 ^ Z.of_N 32)%Z with 4294967296%Z in *; change (2 ^ Z.of_N 64)%Z with 18446744073709551616%Z in *.

Ltac Zify.zify_post_hook ::= Z.div_mod_to_equations.

Lemma signed_wrapZ_8 : forall z, (-128 <= z < 128)%Z -> signed 8 (wrapZ 8 z) = z.
Proof. intros z H. unfold signed, wrapZ. pow_consts. destruct (N.ltb_spec (Z.to_N (z mod 256)) 128); lia. Qed.
Lemma signed_wrapZ_16 : forall z, (-32768 <= z < 32768)%Z -> signed 16 (wrapZ 16 z) = z.
Proof. intros z H. unfold signed, wrapZ. pow_consts. destruct (N.ltb_spec (Z.to_N (z mod 65536)) 32768); lia. Qed.
Lemma signed_wrapZ_32 : forall z, (-2147483648 <= z < 2147483648)%Z -> signed 32 (wrapZ 32 z) = z.
Proof. intros z H. unfold signed, wrapZ. pow_consts. destruct (N.ltb_spec (Z.to_N (z mod 4294967296)) 2147483648); lia. Qed.
Lemma signed_wrapZ_64 : forall z, (-9223372036854775808 <= z < 9223372036854775808)%Z -> signed 64 (wrapZ 64 z) = z.
Proof.
  intros z H. unfold signed, wrapZ. pow_consts.
  destruct (N.ltb_spec (Z.to_N (z mod 18446744073709551616)) 9223372036854775808); lia.
Qed.

Lemma wrapZ_lt : forall w z, wrapZ w z < 2 ^ w.
Proof.
  intros w z. unfold wrapZ.
  assert (H : (0 <= z mod 2 ^ Z.of_N w < 2 ^ Z.of_N w)%Z) by (apply Z.mod_pos_bound; apply Z.pow_pos_nonneg; lia).
  assert (E : Z.of_N (2 ^ w) = (2 ^ Z.of_N w)%Z) by (rewrite N2Z.inj_pow; reflexivity).
  lia.
Qed.

Lemma wrapZ_nonneg : forall w z, (0 <= z)%Z -> (z < 2 ^ Z.of_N w)%Z -> wrapZ w z = Z.to_N z.
Proof. intros w z H1 H2. unfold wrapZ. rewrite Z.mod_small by lia. reflexivity. Qed.

Lemma wrap_small : forall w n, n < 2 ^ w -> wrap w n = n.
Proof. intros. unfold wrap. apply N.mod_small. assumption. Qed.

(* ================================================================== *)
(* descriptor classes of the bytes the encoder writes *)

Definition is_fixnum (d : desc) : bool := match d with DFixNum => true | _ => false end.

Lemma classify_posfix : forall n, n <= 127 -> classify n = DFixNum /\ signed 8 n = Z.of_N n.
Proof.
  intros n H.
  assert (P : (is_fixnum (classify n) && (signed 8 n =? Z.of_N n)%Z) = true).
  { apply (N_forall_lt (fun n => is_fixnum (classify n) && (signed 8 n =? Z.of_N n)%Z) 128); [vm_compute; reflexivity|lia]. }
  apply andb_true_iff in P. destruct P as [P1 P2]. split; [|lia].
  destruct (classify n); try discriminate. reflexivity.
Qed.

Lemma classify_negfix : forall z, (-32 <= z < 0)%Z -> classify (wrapZ 8 z) = DFixNum /\ signed 8 (wrapZ 8 z) = z.
Proof.
  intros z H. split; [|apply signed_wrapZ_8; lia].
  assert (E : wrapZ 8 z = 224 + Z.to_N (z + 32)) by (unfold wrapZ; pow_consts; lia).
  rewrite E.
  assert (P : is_fixnum (classify (224 + Z.to_N (z + 32))) = true).
  { apply (N_forall_lt (fun n => is_fixnum (classify (224 + n))) 32); [vm_compute; reflexivity|lia]. }
  destruct (classify _); try discriminate. reflexivity.
Qed.

Definition desc_eqb (a b : desc) : bool :=
  match a, b with
  | DStr x, DStr y | DBin x, DBin y | DArr x, DArr y | DMap x, DMap y => Nat.eqb x y
  | _, _ => false
  end.

Lemma desc_eqb_eq : forall a b, desc_eqb a b = true -> a = b.
Proof.
  intros a b H. destruct a, b; try discriminate; cbn in H; apply Nat.eqb_eq in H; subst; reflexivity.
Qed.

Lemma classify_fix : forall fixmin cut d,
  forallb (fun n => desc_eqb (classify (N.lor fixmin (wrap 8 n))) d && (N.lxor fixmin (N.lor fixmin (wrap 8 n)) =? n))
          (map N.of_nat (seq 0 cut)) = true ->
  forall n, n < N.of_nat cut ->
  classify (N.lor fixmin (wrap 8 n)) = d /\ N.lxor fixmin (N.lor fixmin (wrap 8 n)) = n.
Proof.
  intros fixmin cut d H n Hn.
  pose proof (N_forall_lt _ _ H n Hn) as P. cbv beta in P.
  apply andb_true_iff in P. destruct P as [P1 P2].
  split; [apply desc_eqb_eq; assumption|lia].
Qed.

(* container heads: write_clen / readContainerLen agree for every length below 2^32 *)
Inductive fam := FStr | FBin | FArr | FMap.
Definition fam_desc (fm : fam) (w : nat) : desc :=
  match fm with FStr => DStr w | FBin => DBin w | FArr => DArr w | FMap => DMap w end.
Definition fam_fixmin (fm : fam) : N :=
  match fm with FStr => bFixStrMin | FBin => 0 | FArr => bFixArrayMin | FMap => bFixMapMin end.
Definition fam_of (ct : ctype) (fm : fam) : Prop :=
  (ct = ctRawLegacy /\ fm = FStr) \/ (ct = ctStr /\ fm = FStr) \/ (ct = ctBin /\ fm = FBin) \/
  (ct = ctList /\ fm = FArr) \/ (ct = ctMap /\ fm = FMap).

Lemma be2 : forall l r, l < 65536 -> rd_nk 2 (be_put 2 (wrap 16 l) ++ r) = Ok (be_put 2 (wrap 16 l), r) /\ be_get (be_put 2 (wrap 16 l)) = l.
Proof.
  intros l r H. split; [apply rd_nk_put|]. rewrite wrap_small by (change (2 ^ 16) with 65536; lia).
  apply be_get_put. change (256 ^ N.of_nat 2) with 65536. lia.
Qed.
Lemma be4 : forall l r, l < 4294967296 -> rd_nk 4 (be_put 4 (wrap 32 l) ++ r) = Ok (be_put 4 (wrap 32 l), r) /\ be_get (be_put 4 (wrap 32 l)) = l.
Proof.
  intros l r H. split; [apply rd_nk_put|]. rewrite wrap_small by (change (2 ^ 32) with 4294967296; lia).
  apply be_get_put. change (256 ^ N.of_nat 4) with 4294967296. lia.
Qed.
Lemma be1 : forall l r, l < 256 -> rd_nk 1 ([wrap 8 l] ++ r) = Ok ([wrap 8 l], r) /\ be_get [wrap 8 l] = l.
Proof.
  intros l r H. split; [apply rd_nk_app; reflexivity|]. rewrite wrap_small by (change (2 ^ 8) with 256; lia).
  unfold be_get. cbn [be_acc]. lia.
Qed.

Lemma head_rt : forall ct fm l, fam_of ct fm -> l < 4294967296 ->
  exists hd tl w, write_clen ct l = hd :: tl /\ classify hd = fam_desc fm w /\
                  forall r, rd_len (fam_fixmin fm) hd w (tl ++ r) = Ok (l, r).
Proof.
  intros ct fm l Hf Hl.
  assert (H16 : forall c16, l < 65536 ->
            forall r, rd_len (fam_fixmin fm) c16 2 (be_put 2 (wrap 16 l) ++ r) = Ok (l, r)).
  { intros c16 H r. cbn [rd_len]. destruct (be2 l r H) as [E1 E2]. rewrite E1. cbn [bind]. rewrite E2. reflexivity. }
  assert (H32 : forall c32, forall r, rd_len (fam_fixmin fm) c32 4 (be_put 4 (wrap 32 l) ++ r) = Ok (l, r)).
  { intros c32 r. cbn [rd_len]. destruct (be4 l r Hl) as [E1 E2]. rewrite E1. cbn [bind]. rewrite E2. reflexivity. }
  assert (H8 : forall c8, l < 256 -> forall r, rd_len (fam_fixmin fm) c8 1 ([wrap 8 l] ++ r) = Ok (l, r)).
  { intros c8 H r. cbn [rd_len]. destruct (be1 l r H) as [E1 E2]. rewrite E1. cbn [bind]. rewrite E2. reflexivity. }
  unfold write_clen.
  destruct Hf as [[-> ->]|[[-> ->]|[[-> ->]|[[-> ->]|[-> ->]]]]]; cbn [fixCutoff cFixMin c8 c16 c32 ctRawLegacy ctStr ctBin ctList ctMap].
  - (* raw legacy *)
    change (0 <? 32) with true. change (0 <? 0) with false. cbn [andb].
    destruct (N.ltb_spec l 32) as [H|H].
    + destruct (classify_fix bFixStrMin 32 (DStr 0) ltac:(vm_compute; reflexivity) l ltac:(lia)) as [E1 E2].
      exists (N.lor bFixStrMin (wrap 8 l)), [], 0%nat. repeat apply conj; [reflexivity|exact E1|].
      intros r. cbn [rd_len app fam_fixmin]. rewrite E2. reflexivity.
    + destruct (N.ltb_spec l 65536) as [H2|H2].
      * exists bStr16, (be_put 2 (wrap 16 l)), 2%nat. repeat apply conj; [reflexivity|reflexivity|apply H16; assumption].
      * exists bStr32, (be_put 4 (wrap 32 l)), 4%nat. repeat apply conj; [reflexivity|reflexivity|apply H32].
  - (* str *)
    change (0 <? 32) with true. change (0 <? bStr8) with true. cbn [andb].
    destruct (N.ltb_spec l 32) as [H|H].
    + destruct (classify_fix bFixStrMin 32 (DStr 0) ltac:(vm_compute; reflexivity) l ltac:(lia)) as [E1 E2].
      exists (N.lor bFixStrMin (wrap 8 l)), [], 0%nat. repeat apply conj; [reflexivity|exact E1|].
      intros r. cbn [rd_len app fam_fixmin]. rewrite E2. reflexivity.
    + destruct (N.ltb_spec l 256) as [H1|H1].
      * exists bStr8, [wrap 8 l], 1%nat. repeat apply conj; [reflexivity|reflexivity|apply H8; assumption].
      * destruct (N.ltb_spec l 65536) as [H2|H2].
        -- exists bStr16, (be_put 2 (wrap 16 l)), 2%nat. repeat apply conj; [reflexivity|reflexivity|apply H16; assumption].
        -- exists bStr32, (be_put 4 (wrap 32 l)), 4%nat. repeat apply conj; [reflexivity|reflexivity|apply H32].
  - (* bin *)
    change (0 <? 0) with false. change (0 <? bBin8) with true. cbn [andb].
    destruct (N.ltb_spec l 256) as [H1|H1].
    + exists bBin8, [wrap 8 l], 1%nat. repeat apply conj; [reflexivity|reflexivity|apply H8; assumption].
    + destruct (N.ltb_spec l 65536) as [H2|H2].
      * exists bBin16, (be_put 2 (wrap 16 l)), 2%nat. repeat apply conj; [reflexivity|reflexivity|apply H16; assumption].
      * exists bBin32, (be_put 4 (wrap 32 l)), 4%nat. repeat apply conj; [reflexivity|reflexivity|apply H32].
  - (* list *)
    change (0 <? 16) with true. change (0 <? 0) with false. cbn [andb].
    destruct (N.ltb_spec l 16) as [H|H].
    + destruct (classify_fix bFixArrayMin 16 (DArr 0) ltac:(vm_compute; reflexivity) l ltac:(lia)) as [E1 E2].
      exists (N.lor bFixArrayMin (wrap 8 l)), [], 0%nat. repeat apply conj; [reflexivity|exact E1|].
      intros r. cbn [rd_len app fam_fixmin]. rewrite E2. reflexivity.
    + destruct (N.ltb_spec l 65536) as [H2|H2].
      * exists bArray16, (be_put 2 (wrap 16 l)), 2%nat. repeat apply conj; [reflexivity|reflexivity|apply H16; assumption].
      * exists bArray32, (be_put 4 (wrap 32 l)), 4%nat. repeat apply conj; [reflexivity|reflexivity|apply H32].
  - (* map *)
    change (0 <? 16) with true. change (0 <? 0) with false. cbn [andb].
    destruct (N.ltb_spec l 16) as [H|H].
    + destruct (classify_fix bFixMapMin 16 (DMap 0) ltac:(vm_compute; reflexivity) l ltac:(lia)) as [E1 E2].
      exists (N.lor bFixMapMin (wrap 8 l)), [], 0%nat. repeat apply conj; [reflexivity|exact E1|].
      intros r. cbn [rd_len app fam_fixmin]. rewrite E2. reflexivity.
    + destruct (N.ltb_spec l 65536) as [H2|H2].
      * exists bMap16, (be_put 2 (wrap 16 l)), 2%nat. repeat apply conj; [reflexivity|reflexivity|apply H16; assumption].
      * exists bMap32, (be_put 4 (wrap 32 l)), 4%nat. repeat apply conj; [reflexivity|reflexivity|apply H32].
Qed.

(* ================================================================== *)
(* what the decoder returns for an encoded item *)

Definition norm_uint (O : eopts) (D : dopts) (n : N) : item :=
  if (n <=? 127) && negb (e_nofixednum O) then IInt (Z.of_N n) else mkuint D n.

Fixpoint norm (O : eopts) (D : dopts) (i : item) : item :=
  match i with
  | INil => INil
  | IBool b => IBool b
  | IInt z => if e_posintunsigned O && (0 <=? z)%Z then norm_uint O D (Z.to_N z) else IInt z
  | IUint n => norm_uint O D n
  | IF32 b => IF64 (f32_to_f64 b)
  | IF64 b => IF64 b
  | IStr s =>
      if e_writeext O && e_stringtoraw O then mkraw (d_rawtostring D) s
      else mkraw (d_writeext D || d_rawtostring D) s
  | IBytes s =>
      if e_writeext O then mkraw (d_rawtostring D) s
      else mkraw (d_writeext D || d_rawtostring D) s
  | IArr l => IArr (map (norm O D) l)
  | IMap l => IMap (map (fun kv => (key_fix (norm O D (fst kv)), norm O D (snd kv))) l)
  | ITag t _ => IExt (wrap 8 t) []
  | IExt t s => IExt t s
  | ITime s n =>
      if is_zero_time s n then INil
      else if e_writeext O then ITime s n
      else mkraw (d_writeext D || d_rawtostring D) (time_body s n)
  end.

(* the encoder's range: Wire.Item.wf, lengths a 32-bit head can carry, extension tags a byte can
   carry other than the timestamp tag, hashable map keys, no cbor-style tagged values *)
Fixpoint supported (i : item) : Prop :=
  match i with
  | IInt z => (- 2 ^ 63 <= z < 2 ^ 63)%Z
  | IUint n => n < 2 ^ 64
  | IF32 b => b < 2 ^ 32
  | IF64 b => b < 2 ^ 64
  | IStr s => len s < 2 ^ 32
  | IBytes s => len s < 2 ^ 32
  | IExt t s => t < 255 /\ len s < 2 ^ 32
  | IArr l => len l < 2 ^ 32 /\ (fix go l := match l with [] => True | x :: r => supported x /\ go r end) l
  | IMap l => len l < 2 ^ 32 /\
              (fix go l := match l with
                           | [] => True
                           | kv :: r => supported (fst kv) /\ hashable (fst kv) = true /\ supported (snd kv) /\ go r
                           end) l
  | ITag _ _ => False
  | ITime s n => n < 1000000000 /\ (- 2 ^ 63 <= s < 2 ^ 63)%Z
  | _ => True
  end.

Lemma supported_arr : forall l, supported (IArr l) <-> len l < 2 ^ 32 /\ Forall supported l.
Proof.
  intros l. cbn [supported]. split; intros [H1 H2]; (split; [assumption|]); induction l as [|x l IH].
  - constructor.
  - destruct H2 as [Hx Hr]. constructor; [assumption|]. apply IH; [|assumption]. rewrite len_cons in H1. lia.
  - exact I.
  - inversion H2; subst. split; [assumption|]. apply IH; [|assumption]. rewrite len_cons in H1. lia.
Qed.

Definition kv_supported (kv : item * item) : Prop :=
  supported (fst kv) /\ hashable (fst kv) = true /\ supported (snd kv).

Lemma supported_map : forall l, supported (IMap l) <-> len l < 2 ^ 32 /\ Forall kv_supported l.
Proof.
  intros l. cbn [supported]. unfold kv_supported.
  split; intros [H1 H2]; (split; [assumption|]); induction l as [|x l IH].
  - constructor.
  - destruct H2 as [Hx [Hh [Hv Hr]]]. constructor; [auto|]. apply IH; [|assumption]. rewrite len_cons in H1. lia.
  - exact I.
  - inversion H2 as [|? ? [Hk [Hh Hv]] Hr]; subst. repeat apply conj; try assumption.
    apply IH; [|assumption]. rewrite len_cons in H1. lia.
Qed.

Lemma hashable_norm : forall O D k, hashable k = true -> hashable (key_fix (norm O D k)) = true.
Proof.
  intros O D k H. destruct k; try discriminate; cbn [norm]; unfold norm_uint, mkuint, mkraw;
    repeat match goal with |- context [if ?c then _ else _] => destruct c end; reflexivity.
Qed.

(* SignedInteger (after fix 3c4765d): an unsigned value above MaxInt64 is rejected with an
   overflow error, so the round trip needs every unsigned integer of the item to fit int64 when
   the decoder has SignedInteger set *)
Definition uint_fits (D : dopts) (n : N) : Prop := d_signedinteger D = true -> n < 2 ^ 63.

Fixpoint sint_ok (D : dopts) (i : item) : Prop :=
  match i with
  | IUint n => uint_fits D n
  | IArr l => (fix go l := match l with [] => True | x :: r => sint_ok D x /\ go r end) l
  | IMap l => (fix go l := match l with
                           | [] => True
                           | kv :: r => sint_ok D (fst kv) /\ sint_ok D (snd kv) /\ go r
                           end) l
  | _ => True
  end.

Lemma sint_ok_arr : forall D l, sint_ok D (IArr l) <-> Forall (sint_ok D) l.
Proof.
  intros D l. cbn [sint_ok]. induction l as [|x l IH]; split; intros H.
  - constructor.
  - exact I.
  - destruct H as [Hx Hr]. constructor; [assumption|apply IH; assumption].
  - inversion H; subst. split; [assumption|apply IH; assumption].
Qed.

Lemma sint_ok_map : forall D l, sint_ok D (IMap l) <-> Forall (fun kv => sint_ok D (fst kv) /\ sint_ok D (snd kv)) l.
Proof.
  intros D l. cbn [sint_ok]. induction l as [|x l IH]; split; intros H.
  - constructor.
  - exact I.
  - destruct H as [Hk [Hv Hr]]. constructor; [split; assumption|apply IH; assumption].
  - inversion H as [|? ? [Hk Hv] Hr]; subst. repeat apply conj; try assumption. apply IH; assumption.
Qed.

Lemma sint_ok_unsigned : forall D i, d_signedinteger D = false -> sint_ok D i.
Proof.
  intros D i H. induction i using item_ind'; cbn [sint_ok]; try exact I.
  - unfold uint_fits. rewrite H. discriminate.
  - apply sint_ok_arr. assumption.
  - apply sint_ok_map. assumption.
Qed.

Lemma mkuint_r_ok : forall D v, uint_fits D v -> mkuint_r D v = Ok (mkuint D v).
Proof.
  intros D v H. unfold mkuint_r, uint_fits in *. destruct (d_signedinteger D); [|reflexivity].
  specialize (H eq_refl). change (2 ^ 63) with 9223372036854775808 in *.
  destruct (N.leb_spec 9223372036854775808 v); [lia|reflexivity].
Qed.

Lemma mkuint_r_overflow : forall D v, d_signedinteger D = true -> 2 ^ 63 <= v -> mkuint_r D v = Err EOverflow.
Proof.
  intros D v H Hv. unfold mkuint_r. rewrite H. change (2 ^ 63) with 9223372036854775808 in *.
  destruct (N.leb_spec 9223372036854775808 v); [reflexivity|lia].
Qed.

(* ================================================================== *)
(* scalars *)

Section Scalars.
  Variable O : eopts.
  Variable D : dopts.
  Variable cap : N.
  Hypothesis Hcap : goslice cap.

  Lemma dec_uint_k_r : forall k hd v f d rest,
    classify hd = DUint k -> v < 256 ^ N.of_nat k ->
    decF D cap (S f) d (hd :: be_put k v ++ rest) = do it <- mkuint_r D v ;; Ok (it, rest).
  Proof.
    intros k hd v f d rest Hc Hv. rewrite decF_S. unfold dec_body. rewrite Hc.
    rewrite rd_nk_put. cbn [bind]. rewrite be_get_put by assumption. reflexivity.
  Qed.

  Lemma dec_uint_k : forall k hd v f d rest,
    classify hd = DUint k -> v < 256 ^ N.of_nat k -> uint_fits D v ->
    decF D cap (S f) d (hd :: be_put k v ++ rest) = Ok (mkuint D v, rest).
  Proof.
    intros k hd v f d rest Hc Hv Hf. rewrite dec_uint_k_r by assumption.
    rewrite mkuint_r_ok by assumption. reflexivity.
  Qed.

  Lemma dec_uint : forall n f d rest, n < 2 ^ 64 -> uint_fits D n ->
    decF D cap (S f) d (enc_uint O n ++ rest) = Ok (norm_uint O D n, rest).
  Proof.
    intros n f d rest Hn Hfit. unfold enc_uint, norm_uint.
    destruct (N.leb_spec n 127) as [H1|H1].
    - destruct (e_nofixednum O); cbn [andb negb].
      + rewrite wrap_small by (change (2 ^ 8) with 256; lia). rewrite one_byte by lia.
        apply (dec_uint_k 1 bUint8 n); [reflexivity|change (256 ^ N.of_nat 1) with 256; lia|assumption].
      + rewrite wrap_small by (change (2 ^ 8) with 256; lia).
        cbn [app]. rewrite decF_S. unfold dec_body.
        destruct (classify_posfix n H1) as [E1 E2]. rewrite E1, E2. reflexivity.
    - cbn [andb].
      destruct (N.leb_spec n 255) as [H2|H2].
      { rewrite wrap_small by (change (2 ^ 8) with 256; lia). rewrite one_byte by lia.
        apply (dec_uint_k 1 bUint8 n); [reflexivity|change (256 ^ N.of_nat 1) with 256; lia|assumption]. }
      destruct (N.leb_spec n 65535) as [H3|H3].
      { rewrite wrap_small by (change (2 ^ 16) with 65536; lia).
        apply (dec_uint_k 2 bUint16 n); [reflexivity|change (256 ^ N.of_nat 2) with 65536; lia|assumption]. }
      destruct (N.leb_spec n 4294967295) as [H4|H4].
      { rewrite wrap_small by (change (2 ^ 32) with 4294967296; lia).
        apply (dec_uint_k 4 bUint32 n); [reflexivity|change (256 ^ N.of_nat 4) with 4294967296; lia|assumption]. }
      rewrite wrap_small by assumption.
      apply (dec_uint_k 8 bUint64 n); [reflexivity|change (256 ^ N.of_nat 8) with (2 ^ 64); assumption|assumption].
  Qed.

  Lemma dec_int_k : forall k hd v f d rest,
    classify hd = DInt k -> v < 256 ^ N.of_nat k ->
    decF D cap (S f) d (hd :: be_put k v ++ rest) = Ok (IInt (signed (8 * N.of_nat k) v), rest).
  Proof.
    intros k hd v f d rest Hc Hv. rewrite decF_S. unfold dec_body. rewrite Hc.
    rewrite rd_nk_put. cbn [bind]. rewrite be_get_put by assumption. reflexivity.
  Qed.

  Lemma dec_int : forall z f d rest, (- 2 ^ 63 <= z < 2 ^ 63)%Z ->
    decF D cap (S f) d (enc_int O z ++ rest) = Ok (norm O D (IInt z), rest).
  Proof.
    intros z f d rest Hz. unfold enc_int. cbn [norm].
    change (2 ^ 63)%Z with 9223372036854775808%Z in Hz.
    destruct (e_posintunsigned O && (0 <=? z)%Z) eqn:Epu.
    { apply andb_true_iff in Epu. destruct Epu as [_ Hpos]. apply Z.leb_le in Hpos.
      rewrite wrapZ_nonneg by (pow_consts; lia).
      apply dec_uint; [change (2 ^ 64) with 18446744073709551616; lia|].
      intros _. change (2 ^ 63) with 9223372036854775808. lia. }
    assert (W8 : wrapZ 8 z < 256 ^ N.of_nat 1) by (apply (wrapZ_lt 8)).
    assert (W16 : wrapZ 16 z < 256 ^ N.of_nat 2) by (apply (wrapZ_lt 16)).
    assert (W32 : wrapZ 32 z < 256 ^ N.of_nat 4) by (apply (wrapZ_lt 32)).
    assert (W64 : wrapZ 64 z < 256 ^ N.of_nat 8) by (apply (wrapZ_lt 64)).
    destruct (Z.ltb_spec 127 z) as [H1|H1].
    - destruct (Z.leb_spec z 32767) as [H2|H2].
      { rewrite <- ?app_comm_cons; rewrite (dec_int_k 2 bInt16) by (try reflexivity; assumption).
        change (8 * N.of_nat 2) with 16. rewrite signed_wrapZ_16 by lia. reflexivity. }
      destruct (Z.leb_spec z 2147483647) as [H3|H3].
      { rewrite <- ?app_comm_cons; rewrite (dec_int_k 4 bInt32) by (try reflexivity; assumption).
        change (8 * N.of_nat 4) with 32. rewrite signed_wrapZ_32 by lia. reflexivity. }
      rewrite <- ?app_comm_cons; rewrite (dec_int_k 8 bInt64) by (try reflexivity; assumption).
      change (8 * N.of_nat 8) with 64. rewrite signed_wrapZ_64 by lia. reflexivity.
    - destruct (Z.leb_spec (-32) z) as [H2|H2].
      { destruct (e_nofixednum O).
        - rewrite one_byte by exact W8.
          rewrite <- ?app_comm_cons; rewrite (dec_int_k 1 bInt8) by (try reflexivity; assumption).
          change (8 * N.of_nat 1) with 8. rewrite signed_wrapZ_8 by lia. reflexivity.
        - cbn [app]. rewrite decF_S. unfold dec_body.
          destruct (Z.ltb_spec z 0) as [Hn|Hn].
          + destruct (classify_negfix z ltac:(lia)) as [E1 E2]. rewrite E1, E2. reflexivity.
          + rewrite wrapZ_nonneg by (pow_consts; lia).
            destruct (classify_posfix (Z.to_N z) ltac:(lia)) as [E1 E2]. rewrite E1, E2.
            rewrite Z2N.id by lia. reflexivity. }
      assert (B1 : forall r, [bInt8; wrapZ 8 z] ++ r = bInt8 :: be_put 1 (wrapZ 8 z) ++ r)
        by (intros r; apply one_byte; exact W8).
      destruct (Z.leb_spec (-128) z) as [H3|H3].
      { rewrite B1. rewrite <- ?app_comm_cons; rewrite (dec_int_k 1 bInt8) by (try reflexivity; assumption).
        change (8 * N.of_nat 1) with 8. rewrite signed_wrapZ_8 by lia. reflexivity. }
      destruct (Z.leb_spec (-32768) z) as [H4|H4].
      { rewrite <- ?app_comm_cons; rewrite (dec_int_k 2 bInt16) by (try reflexivity; assumption).
        change (8 * N.of_nat 2) with 16. rewrite signed_wrapZ_16 by lia. reflexivity. }
      destruct (Z.leb_spec (-2147483648) z) as [H5|H5].
      { rewrite <- ?app_comm_cons; rewrite (dec_int_k 4 bInt32) by (try reflexivity; assumption).
        change (8 * N.of_nat 4) with 32. rewrite signed_wrapZ_32 by lia. reflexivity. }
      rewrite <- ?app_comm_cons; rewrite (dec_int_k 8 bInt64) by (try reflexivity; assumption).
      change (8 * N.of_nat 8) with 64. rewrite signed_wrapZ_64 by lia. reflexivity.
  Qed.

  (* strings and byte strings: any of the three head families *)
  Lemma dec_rawstr : forall ct s f d rest, (ct = ctRawLegacy \/ ct = ctStr) -> len s < 2 ^ 32 ->
    decF D cap (S f) d (write_clen ct (len s) ++ s ++ rest) = Ok (mkraw (d_writeext D || d_rawtostring D) s, rest).
  Proof.
    intros ct s f d rest Hct Hl. change (2 ^ 32) with 4294967296 in Hl.
    destruct (head_rt ct FStr (len s)) as [hd [tl [w [E1 [E2 E3]]]]];
      [destruct Hct as [-> | ->]; unfold fam_of; tauto|assumption|].
    rewrite E1. cbn [app]. rewrite decF_S. unfold dec_body. rewrite E2. cbn [fam_desc].
    cbn [fam_fixmin] in E3. rewrite (E3 (s ++ rest)). cbn [bind].
    rewrite rd_readx_app by (unfold goslice in Hcap; lia). reflexivity.
  Qed.

  Lemma dec_bin : forall s f d rest, len s < 2 ^ 32 ->
    decF D cap (S f) d (write_clen ctBin (len s) ++ s ++ rest) = Ok (mkraw (d_rawtostring D) s, rest).
  Proof.
    intros s f d rest Hl. change (2 ^ 32) with 4294967296 in Hl.
    destruct (head_rt ctBin FBin (len s)) as [hd [tl [w [E1 [E2 E3]]]]]; [unfold fam_of; tauto|assumption|].
    rewrite E1. cbn [app]. rewrite decF_S. unfold dec_body. rewrite E2. cbn [fam_desc].
    cbn [fam_fixmin] in E3. rewrite (E3 (s ++ rest)). cbn [bind].
    rewrite rd_readx_app by (unfold goslice in Hcap; lia). reflexivity.
  Qed.

  (* extension head: what follows the head is handed to ext_body with the announced length *)
  Lemma dec_ext_head : forall tag l body f d rest, l < 2 ^ 32 ->
    decF D cap (S f) d (ext_preamble tag l ++ body ++ rest) = ext_body cap l (tag :: body ++ rest).
  Proof.
    intros tag l body f d rest Hl. change (2 ^ 32) with 4294967296 in Hl. unfold ext_preamble.
    destruct (N.eqb_spec l 1) as [->|N1]. { cbn [app]. rewrite decF_S. reflexivity. }
    destruct (N.eqb_spec l 2) as [->|N2]. { cbn [app]. rewrite decF_S. reflexivity. }
    destruct (N.eqb_spec l 4) as [->|N4]. { cbn [app]. rewrite decF_S. reflexivity. }
    destruct (N.eqb_spec l 8) as [->|N8]. { cbn [app]. rewrite decF_S. reflexivity. }
    destruct (N.eqb_spec l 16) as [->|N16]. { cbn [app]. rewrite decF_S. reflexivity. }
    destruct (N.ltb_spec l 256) as [H1|H1].
    { change ([bExt8; wrap 8 l; tag] ++ body ++ rest) with (bExt8 :: [wrap 8 l] ++ tag :: body ++ rest).
      rewrite decF_S. unfold dec_body. change (classify bExt8) with (DExt 1). cbn [rd_len].
      destruct (be1 l (tag :: body ++ rest) H1) as [E1 E2]. rewrite E1. cbn [bind]. rewrite E2. reflexivity. }
    destruct (N.ltb_spec l 65536) as [H2|H2].
    { cbn [app]. rewrite <- app_assoc. rewrite decF_S. unfold dec_body. change (classify bExt16) with (DExt 2). cbn [rd_len].
      destruct (be2 l ([tag] ++ body ++ rest) H2) as [E1 E2]. rewrite E1. cbn [bind]. rewrite E2. reflexivity. }
    cbn [app]. rewrite <- app_assoc. rewrite decF_S. unfold dec_body. change (classify bExt32) with (DExt 4). cbn [rd_len].
    destruct (be4 l ([tag] ++ body ++ rest) Hl) as [E1 E2]. rewrite E1. cbn [bind]. rewrite E2. reflexivity.
  Qed.

  Lemma dec_ext : forall t s f d rest, t < 255 -> len s < 2 ^ 32 ->
    decF D cap (S f) d (ext_preamble (wrap 8 t) (len s) ++ s ++ rest) = Ok (IExt t s, rest).
  Proof.
    intros t s f d rest Ht Hl. rewrite dec_ext_head by assumption.
    rewrite wrap_small by (change (2 ^ 8) with 256; lia).
    unfold ext_body. cbn [rd_n1 bind].
    destruct (N.eqb_spec t bTimeExtTagU) as [E|_]; [unfold bTimeExtTagU in E; lia|].
    rewrite rd_readx_app by (unfold goslice in Hcap; change (2 ^ 32) with 4294967296 in Hl; lia). reflexivity.
  Qed.
End Scalars.

(* ================================================================== *)
(* timestamps *)

Lemma land_shiftl_low : forall a b k, b < 2 ^ k -> N.land (N.shiftl a k) b = 0.
Proof.
  intros a b k H. apply N.bits_inj_0. intros m. rewrite N.land_spec.
  destruct (N.ltb_spec m k) as [Hm|Hm].
  - rewrite N.shiftl_spec_low by assumption. reflexivity.
  - destruct (N.eq_dec b 0) as [->|Hb]; [rewrite N.bits_0; apply andb_false_r|].
    rewrite (N.bits_above_log2 b m); [apply andb_false_r|].
    apply N.log2_lt_pow2 in H; lia.
Qed.

Lemma lor_shiftl_add : forall a b k, b < 2 ^ k -> N.lor (N.shiftl a k) b = a * 2 ^ k + b.
Proof.
  intros a b k H. rewrite <- N.lxor_lor by (apply land_shiftl_low; assumption).
  rewrite <- N.add_nocarry_lxor by (apply land_shiftl_low; assumption).
  rewrite N.shiftl_mul_pow2. reflexivity.
Qed.

Definition himask : N := 18446744069414584320.   (* 0xffffffff00000000 *)

Lemma himask_eq : himask = N.shiftl (N.ones 32) 32.
Proof. reflexivity. Qed.

Lemma land_himask_small : forall x, x < 2 ^ 32 -> N.land x himask = 0.
Proof.
  intros x H. rewrite himask_eq. rewrite N.land_comm. apply land_shiftl_low. assumption.
Qed.

Lemma land_himask_big : forall x, 2 ^ 32 <= x -> x < 2 ^ 64 -> N.land x himask <> 0.
Proof.
  intros x H1 H2 E.
  assert (Hx : x <> 0) by (intros ->; vm_compute in H1; apply H1; reflexivity).
  assert (Hm : 32 <= N.log2 x < 64).
  { split; [apply N.log2_le_pow2; lia|apply N.log2_lt_pow2; lia]. }
  assert (B : N.testbit (N.land x himask) (N.log2 x) = true).
  { rewrite N.land_spec. rewrite N.bit_log2 by assumption. rewrite himask_eq.
    rewrite N.shiftl_spec_high' by lia. rewrite N.ones_spec_low by lia. reflexivity. }
  rewrite E in B. rewrite N.bits_0 in B. discriminate.
Qed.

Definition small_time (s : Z) : Prop := (0 <= s < 2 ^ 34)%Z.

Lemma small_test : forall s, ((0 <=? s)%Z && (Z.shiftr s 34 =? 0)%Z) = true <-> small_time s.
Proof.
  intros s. unfold small_time. rewrite andb_true_iff, Z.leb_le, Z.eqb_eq.
  rewrite Z.shiftr_div_pow2 by lia. change (2 ^ 34)%Z with 17179869184%Z.
  split; intros H; (split; [lia|]); destruct H as [H1 H2]; lia.
Qed.

Lemma time_data64_small : forall s n, small_time s -> n < 1000000000 ->
  time_data64 s n = n * 2 ^ 34 + Z.to_N s.
Proof.
  intros s n Hs Hn. unfold time_data64, small_time in *. change (2 ^ 34)%Z with 17179869184%Z in Hs.
  rewrite wrapZ_nonneg by (pow_consts; lia).
  assert (W : wrap 64 (N.shiftl n 34) = N.shiftl n 34).
  { rewrite N.shiftl_mul_pow2. apply wrap_small. change (2 ^ 34) with 17179869184; change (2 ^ 64) with 18446744073709551616; lia. }
  rewrite W. apply lor_shiftl_add. change (2 ^ 34) with 17179869184. lia.
Qed.

Lemma time_len_cases : forall s n, n < 1000000000 ->
  (time_len s n = 4 /\ small_time s /\ n = 0 /\ (s < 2 ^ 32)%Z) \/
  (time_len s n = 8 /\ small_time s /\ (n <> 0 \/ (2 ^ 32 <= s)%Z)) \/
  (time_len s n = 12 /\ ~ small_time s).
Proof.
  intros s n Hn. unfold time_len.
  destruct ((0 <=? s)%Z && (Z.shiftr s 34 =? 0)%Z) eqn:Es.
  - apply small_test in Es. rewrite (time_data64_small s n Es Hn).
    pose proof Es as Es'. unfold small_time in Es'. change (2 ^ 34)%Z with 17179869184%Z in Es'.
    change 18446744069414584320 with himask.
    destruct (N.eqb_spec (N.land (n * 2 ^ 34 + Z.to_N s) himask) 0) as [E|E].
    + left. split; [reflexivity|]. split; [exact Es|]. split.
      * destruct (N.eq_dec n 0) as [H0|H0]; [assumption|]. exfalso.
        apply (land_himask_big (n * 2 ^ 34 + Z.to_N s));
          change (2 ^ 34) with 17179869184; change (2 ^ 32) with 4294967296; change (2 ^ 64) with 18446744073709551616; try lia; assumption.
      * destruct (Z.ltb_spec s (2 ^ 32)) as [H0|H0]; [assumption|]. exfalso.
        change (2 ^ 32)%Z with 4294967296%Z in H0.
        apply (land_himask_big (n * 2 ^ 34 + Z.to_N s));
          change (2 ^ 34) with 17179869184; change (2 ^ 32) with 4294967296; change (2 ^ 64) with 18446744073709551616; try lia; assumption.
    + right; left. split; [reflexivity|]. split; [exact Es|].
      destruct (N.eq_dec n 0) as [->|H0]; [|left; assumption]. right.
      destruct (Z.leb_spec (2 ^ 32) s) as [H1|H1]; [assumption|]. exfalso. apply E.
      apply land_himask_small. change (2 ^ 32)%Z with 4294967296%Z in H1. change (2 ^ 32) with 4294967296. lia.
  - right; right. split; [reflexivity|]. intros H. apply small_test in H. congruence.
Qed.

Lemma time_body_len : forall s n, n < 1000000000 -> len (time_body s n) = time_len s n.
Proof.
  intros s n Hn. unfold time_body.
  destruct (time_len_cases s n Hn) as [[E _]|[[E _]|[E _]]]; rewrite E; cbn [N.eqb Pos.eqb];
    unfold len; rewrite ?app_length, ?be_put_length; reflexivity.
Qed.

Lemma unix_time_id : forall s n, (- 2 ^ 63 <= s < 2 ^ 63)%Z -> n < 1000000000 -> unix_time s n = ITime s n.
Proof.
  intros s n Hs Hn. unfold unix_time. rewrite N.div_small by assumption. rewrite N.mod_small by assumption.
  rewrite Z.add_0_r. rewrite signed_wrapZ_64 by (change (2 ^ 63)%Z with 9223372036854775808%Z in Hs; lia). reflexivity.
Qed.

Lemma dec_time_rt : forall s n rest, n < 1000000000 -> (- 2 ^ 63 <= s < 2 ^ 63)%Z ->
  dec_time (time_len s n) (time_body s n ++ rest) = Ok (ITime s n, rest).
Proof.
  intros s n rest Hn Hs. unfold time_body, dec_time.
  destruct (time_len_cases s n Hn) as [[E [Sm [N0 S32]]]|[[E [Sm _]]|[E NS]]]; rewrite E; cbn [N.eqb Pos.eqb].
  - (* timestamp 32 *)
    rewrite rd_nk_put. cbn [bind]. rewrite (time_data64_small s n Sm Hn). subst n.
    unfold small_time in Sm. change (2 ^ 32)%Z with 4294967296%Z in S32.
    rewrite N.mul_0_l, N.add_0_l.
    rewrite wrap_small by (change (2 ^ 32) with 4294967296; lia).
    rewrite be_get_put by (change (256 ^ N.of_nat 4) with 4294967296; lia).
    rewrite Z2N.id by lia. rewrite unix_time_id by (try assumption; lia). reflexivity.
  - (* timestamp 64 *)
    rewrite rd_nk_put. cbn [bind]. rewrite (time_data64_small s n Sm Hn).
    unfold small_time in Sm. change (2 ^ 34)%Z with 17179869184%Z in Sm.
    rewrite be_get_put by (change (256 ^ N.of_nat 8) with 18446744073709551616; change (2 ^ 34) with 17179869184; lia).
    change 17179869183 with (N.ones 34). rewrite N.land_ones. rewrite N.shiftr_div_pow2.
    change (2 ^ 34) with 17179869184.
    replace ((n * 17179869184 + Z.to_N s) mod 17179869184) with (Z.to_N s)
      by lia.
    replace ((n * 17179869184 + Z.to_N s) / 17179869184) with n
      by lia.
    rewrite Z2N.id by lia. rewrite unix_time_id by assumption. reflexivity.
  - (* timestamp 96 *)
    rewrite <- app_assoc. rewrite rd_nk_put. cbn [bind]. rewrite rd_nk_put. cbn [bind].
    rewrite wrap_small by (change (2 ^ 32) with 4294967296; lia).
    rewrite (be_get_put 4) by (change (256 ^ N.of_nat 4) with 4294967296; lia).
    rewrite (be_get_put 8) by (change (256 ^ N.of_nat 8) with (2 ^ 64); apply wrapZ_lt).
    rewrite signed_wrapZ_64 by (change (2 ^ 63)%Z with 9223372036854775808%Z in Hs; lia).
    rewrite unix_time_id by assumption. reflexivity.
Qed.

Lemma time_len_lt : forall s n, n < 1000000000 -> time_len s n < 2 ^ 32.
Proof.
  intros s n Hn. destruct (time_len_cases s n Hn) as [[E _]|[[E _]|[E _]]]; rewrite E; reflexivity.
Qed.

(* ================================================================== *)
(* skip over encoded scalars *)

Section SkipScalars.
  Variable O : eopts.
  Variable D : dopts.

  Lemma be_put_len : forall k v, len (be_put k v) = N.of_nat k.
  Proof. intros. unfold len. rewrite be_put_length. reflexivity. Qed.

  Lemma skip_num_k : forall k hd v f d rest,
    (classify hd = DUint k \/ classify hd = DInt k) -> (2 <= k)%nat ->
    skipF D (S f) d (hd :: be_put k v ++ rest) = Ok rest.
  Proof.
    intros k hd v f d rest Hc Hk. rewrite skipF_S. unfold skip_body.
    destruct Hc as [-> | ->]; (destruct k as [|[|k]]; [lia|lia|]);
      rewrite <- (be_put_len (S (S k)) v); apply rd_skip_app.
  Qed.

  Lemma skip_num_1 : forall hd v f d rest,
    (classify hd = DUint 1 \/ classify hd = DInt 1) ->
    skipF D (S f) d ([hd; v] ++ rest) = Ok rest.
  Proof.
    intros hd v f d rest Hc. cbn [app]. rewrite skipF_S. unfold skip_body.
    destruct Hc as [-> | ->]; reflexivity.
  Qed.

  Lemma skip_fixnum : forall hd f d rest, classify hd = DFixNum -> skipF D (S f) d ([hd] ++ rest) = Ok rest.
  Proof. intros hd f d rest Hc. cbn [app]. rewrite skipF_S. unfold skip_body. rewrite Hc. reflexivity. Qed.

  Lemma skip_uint : forall n f d rest, n < 2 ^ 64 -> skipF D (S f) d (enc_uint O n ++ rest) = Ok rest.
  Proof.
    intros n f d rest Hn. unfold enc_uint.
    destruct (N.leb_spec n 127) as [H1|H1].
    - destruct (e_nofixednum O).
      + apply skip_num_1. left; reflexivity.
      + rewrite wrap_small by (change (2 ^ 8) with 256; lia). apply skip_fixnum. apply classify_posfix. assumption.
    - destruct (N.leb_spec n 255). { apply skip_num_1. left; reflexivity. }
      destruct (N.leb_spec n 65535). { rewrite <- app_comm_cons. apply skip_num_k; [left; reflexivity|lia]. }
      destruct (N.leb_spec n 4294967295). { rewrite <- app_comm_cons. apply skip_num_k; [left; reflexivity|lia]. }
      rewrite <- app_comm_cons. apply skip_num_k; [left; reflexivity|lia].
  Qed.

  Lemma skip_int : forall z f d rest, (- 2 ^ 63 <= z < 2 ^ 63)%Z -> skipF D (S f) d (enc_int O z ++ rest) = Ok rest.
  Proof.
    intros z f d rest Hz. unfold enc_int. change (2 ^ 63)%Z with 9223372036854775808%Z in Hz.
    destruct (e_posintunsigned O && (0 <=? z)%Z) eqn:Epu.
    { apply skip_uint. apply wrapZ_lt. }
    destruct (Z.ltb_spec 127 z).
    - destruct (Z.leb_spec z 32767). { rewrite <- app_comm_cons. apply skip_num_k; [right; reflexivity|lia]. }
      destruct (Z.leb_spec z 2147483647). { rewrite <- app_comm_cons. apply skip_num_k; [right; reflexivity|lia]. }
      rewrite <- app_comm_cons. apply skip_num_k; [right; reflexivity|lia].
    - destruct (Z.leb_spec (-32) z) as [H2|H2].
      { destruct (e_nofixednum O); [apply skip_num_1; right; reflexivity|].
        apply skip_fixnum.
        destruct (Z.ltb_spec z 0) as [Hn|Hn].
        - apply classify_negfix. lia.
        - rewrite wrapZ_nonneg by (pow_consts; lia). apply classify_posfix. lia. }
      destruct (Z.leb_spec (-128) z). { apply skip_num_1; right; reflexivity. }
      destruct (Z.leb_spec (-32768) z). { rewrite <- app_comm_cons. apply skip_num_k; [right; reflexivity|lia]. }
      destruct (Z.leb_spec (-2147483648) z). { rewrite <- app_comm_cons. apply skip_num_k; [right; reflexivity|lia]. }
      rewrite <- app_comm_cons. apply skip_num_k; [right; reflexivity|lia].
  Qed.

  Lemma skip_str : forall ct fm s f d rest, fam_of ct fm -> (fm = FStr \/ fm = FBin) -> len s < 2 ^ 32 ->
    skipF D (S f) d (write_clen ct (len s) ++ s ++ rest) = Ok rest.
  Proof.
    intros ct fm s f d rest Hf Hfm Hl. change (2 ^ 32) with 4294967296 in Hl.
    destruct (head_rt ct fm (len s) Hf Hl) as [hd [tl [w [E1 [E2 E3]]]]].
    rewrite E1. cbn [app]. rewrite skipF_S. unfold skip_body. rewrite E2.
    destruct Hfm as [-> | ->]; cbn [fam_desc fam_fixmin] in *; rewrite (E3 (s ++ rest)); cbn [bind]; apply rd_skip_app.
  Qed.

  Lemma skip_ext_any : forall tag l body f d rest, l < 2 ^ 32 -> len body = l ->
    skipF D (S f) d (ext_preamble tag l ++ body ++ rest) = Ok rest.
  Proof.
    intros tag l body f d rest Hl Hb. change (2 ^ 32) with 4294967296 in Hl. unfold ext_preamble.
    destruct (N.eqb_spec l 1) as [E|N1].
    { cbn [app]. rewrite skipF_S. unfold skip_body. change (classify bFixExt1) with (DFixExt 1).
      unfold skip_ext_fix. cbn [rd_n1 bind N.eqb Pos.eqb].
      destruct body as [|x [|y body]]; unfold len in Hb; cbn [length] in Hb; try lia. reflexivity. }
    destruct (N.eqb_spec l 2) as [E|N2].
    { cbn [app]. rewrite skipF_S. unfold skip_body. change (classify bFixExt2) with (DFixExt 2).
      unfold skip_ext_fix. cbn [rd_n1 bind N.eqb Pos.eqb]. rewrite <- E, <- Hb. apply rd_skip_app. }
    destruct (N.eqb_spec l 4) as [E|N4].
    { cbn [app]. rewrite skipF_S. unfold skip_body. change (classify bFixExt4) with (DFixExt 4).
      unfold skip_ext_fix. cbn [rd_n1 bind N.eqb Pos.eqb]. rewrite <- E, <- Hb. apply rd_skip_app. }
    destruct (N.eqb_spec l 8) as [E|N8].
    { cbn [app]. rewrite skipF_S. unfold skip_body. change (classify bFixExt8) with (DFixExt 8).
      unfold skip_ext_fix. cbn [rd_n1 bind N.eqb Pos.eqb]. rewrite <- E, <- Hb. apply rd_skip_app. }
    destruct (N.eqb_spec l 16) as [E|N16].
    { cbn [app]. rewrite skipF_S. unfold skip_body. change (classify bFixExt16) with (DFixExt 16).
      unfold skip_ext_fix. cbn [rd_n1 bind N.eqb Pos.eqb]. rewrite <- E, <- Hb. apply rd_skip_app. }
    destruct (N.ltb_spec l 256) as [H1|H1].
    { change ([bExt8; wrap 8 l; tag] ++ body ++ rest) with (bExt8 :: [wrap 8 l] ++ tag :: body ++ rest).
      rewrite skipF_S. unfold skip_body. change (classify bExt8) with (DExt 1). cbn [rd_len].
      destruct (be1 l (tag :: body ++ rest) H1) as [E1 E2]. rewrite E1. cbn [bind]. rewrite E2.
      cbn [rd_n1 bind]. rewrite <- Hb. apply rd_skip_app. }
    destruct (N.ltb_spec l 65536) as [H2|H2].
    { cbn [app]. rewrite <- app_assoc. rewrite skipF_S. unfold skip_body. change (classify bExt16) with (DExt 2). cbn [rd_len].
      destruct (be2 l ([tag] ++ body ++ rest) H2) as [E1 E2]. rewrite E1. cbn [bind]. rewrite E2.
      cbn [app rd_n1 bind]. rewrite <- Hb. apply rd_skip_app. }
    cbn [app]. rewrite <- app_assoc. rewrite skipF_S. unfold skip_body. change (classify bExt32) with (DExt 4). cbn [rd_len].
    destruct (be4 l ([tag] ++ body ++ rest) Hl) as [E1 E2]. rewrite E1. cbn [bind]. rewrite E2.
    cbn [app rd_n1 bind]. rewrite <- Hb. apply rd_skip_app.
  Qed.
End SkipScalars.

(* ================================================================== *)
(* the round trip, by induction over the item *)

Lemma write_clen_nonempty : forall ct l, (1 <= length (write_clen ct l))%nat.
Proof.
  intros. unfold write_clen.
  repeat match goal with |- context [if ?c then _ else _] => destruct c end; cbn [length]; lia.
Qed.

Lemma enc_nonempty : forall O i, (1 <= length (enc O i))%nat.
Proof.
  intros O i. destruct i; cbn [enc]; try (cbn [length]; lia).
  - unfold enc_int, enc_uint.
    repeat match goal with |- context [if ?c then _ else _] => destruct c end; cbn [length]; lia.
  - unfold enc_uint.
    repeat match goal with |- context [if ?c then _ else _] => destruct c end; cbn [length]; lia.
  - unfold enc_str. rewrite app_length. pose proof (write_clen_nonempty (if e_writeext O then if e_stringtoraw O then ctBin else ctStr else ctRawLegacy) (len s)). lia.
  - unfold enc_bytes. rewrite app_length. pose proof (write_clen_nonempty (if e_writeext O then ctBin else ctRawLegacy) (len b)). lia.
  - destruct l; [cbn [length]; lia|]. rewrite app_length. pose proof (write_clen_nonempty ctList (len (i :: l))). lia.
  - destruct l; [cbn [length]; lia|]. rewrite app_length. pose proof (write_clen_nonempty ctMap (len (p :: l))). lia.
  - unfold ext_preamble.
    repeat match goal with |- context [if ?c then _ else _] => destruct c end; cbn [length]; lia.
  - rewrite app_length. unfold ext_preamble.
    repeat match goal with |- context [if ?c then _ else _] => destruct c end; cbn [length]; lia.
  - unfold enc_time. destruct (is_zero_time sec nsec); [cbn [length]; lia|].
    rewrite app_length. destruct (e_writeext O).
    + unfold ext_preamble.
      repeat match goal with |- context [if ?c then _ else _] => destruct c end; cbn [length]; lia.
    + pose proof (write_clen_nonempty ctRawLegacy (time_len sec nsec)). lia.
Qed.

Lemma enc_arr_eq : forall O l, enc O (IArr l) = write_clen ctList (len l) ++ concat (map (enc O) l).
Proof. intros O [|x l]; reflexivity. Qed.

Lemma enc_map_eq : forall O l,
  enc O (IMap l) = write_clen ctMap (len l) ++ concat (map (fun kv => enc O (fst kv) ++ enc O (snd kv)) l).
Proof. intros O [|x l]; reflexivity. Qed.

Section RoundTrip.
  Variable O : eopts.
  Variable D : dopts.
  Variable cap : N.
  Hypothesis Hcap : goslice cap.

  Definition rt_dec (i : item) : Prop :=
    supported i -> sint_ok D i -> forall f d rest,
    (2 * length (enc O i) + 1 <= f)%nat -> (d + Z.of_nat (depth i) < maxdepth D)%Z ->
    decF D cap f d (enc O i ++ rest) = Ok (norm O D i, rest).

  Lemma rt_seq : forall l, Forall rt_dec l -> Forall supported l -> Forall (sint_ok D) l ->
    forall f d rest, (2 * length (concat (map (enc O) l)) + 2 <= f)%nat ->
    (d + Z.of_nat (ldepth l) < maxdepth D)%Z ->
    seqF D cap f d (len l) (concat (map (enc O) l) ++ rest) = Ok (map (norm O D) l, rest).
  Proof.
    induction l as [|x l IH]; intros HP HS HI f d rest Hf Hd.
    - rewrite seqF_eq. reflexivity.
    - inversion HP as [|? ? Hx Hl]; subst. inversion HS as [|? ? Sx Sl]; subst. inversion HI as [|? ? Ix Il]; subst.
      rewrite seqF_eq. rewrite len_cons.
      destruct (N.eqb_spec (len l + 1) 0) as [E|_]; [lia|].
      cbn [map concat] in *. rewrite app_length in Hf. pose proof (enc_nonempty O x) as Hne.
      destruct f as [|f]; [lia|].
      cbn [ldepth fold_right] in Hd. fold (ldepth l) in Hd.
      rewrite <- app_assoc. rewrite (Hx Sx Ix) by lia. cbn [bind].
      replace (len l + 1 - 1) with (len l) by lia.
      rewrite (IH Hl Sl Il) by lia. reflexivity.
  Qed.

  Lemma rt_pairs : forall l, Forall (fun kv => rt_dec (fst kv) /\ rt_dec (snd kv)) l -> Forall kv_supported l ->
    Forall (fun kv => sint_ok D (fst kv) /\ sint_ok D (snd kv)) l ->
    forall f d rest,
    (2 * length (concat (map (fun kv => enc O (fst kv) ++ enc O (snd kv)) l)) + 2 <= f)%nat ->
    (d + Z.of_nat (pdepth l) < maxdepth D)%Z ->
    pairsF D cap f d (len l) (concat (map (fun kv => enc O (fst kv) ++ enc O (snd kv)) l) ++ rest)
    = Ok (map (fun kv => (key_fix (norm O D (fst kv)), norm O D (snd kv))) l, rest).
  Proof.
    induction l as [|x l IH]; intros HP HS HI f d rest Hf Hd.
    - rewrite pairsF_eq. reflexivity.
    - inversion HP as [|? ? [Hk Hv] Hl]; subst. inversion HS as [|? ? [Sk [Sh Sv]] Sl]; subst. inversion HI as [|? ? [Ik Iv] Il]; subst.
      rewrite pairsF_eq. rewrite len_cons.
      destruct (N.eqb_spec (len l + 1) 0) as [E|_]; [lia|].
      cbn [map concat] in *. rewrite !app_length in Hf.
      pose proof (enc_nonempty O (fst x)) as Hne1. pose proof (enc_nonempty O (snd x)) as Hne2.
      destruct f as [|f]; [lia|].
      cbn [pdepth fold_right] in Hd. fold (pdepth l) in Hd.
      rewrite <- !app_assoc. rewrite (Hk Sk Ik) by lia. cbn [bind].
      rewrite (Hv Sv Iv) by lia. cbn [bind].
      rewrite hashable_norm by assumption.
      replace (len l + 1 - 1) with (len l) by lia.
      rewrite (IH Hl Sl Il) by lia. reflexivity.
  Qed.

  Lemma dec_enc_aux : forall i, rt_dec i.
  Proof.
    induction i using item_ind'; unfold rt_dec; intros HS HI f d rest Hf Hd.
    - (* nil *) destruct f as [|f]; [lia|]. cbn [enc app]. rewrite decF_S. reflexivity.
    - (* bool *) destruct f as [|f]; [lia|]. cbn [enc app]. rewrite decF_S. destruct b; reflexivity.
    - (* int *) destruct f as [|f]; [lia|]. cbn [enc]. apply dec_int; assumption.
    - (* uint *) destruct f as [|f]; [lia|]. cbn [enc norm]. apply dec_uint; assumption.
    - (* f32 *) destruct f as [|f]; [lia|]. cbn [enc norm supported] in *. rewrite <- app_comm_cons.
      rewrite decF_S. unfold dec_body. change (classify bFloat) with DF32. rewrite rd_nk_put. cbn [bind].
      rewrite be_get_put by (change (256 ^ N.of_nat 4) with (2 ^ 32); assumption). reflexivity.
    - (* f64 *) destruct f as [|f]; [lia|]. cbn [enc norm supported] in *. rewrite <- app_comm_cons.
      rewrite decF_S. unfold dec_body. change (classify bDouble) with DF64. rewrite rd_nk_put. cbn [bind].
      rewrite be_get_put by (change (256 ^ N.of_nat 8) with (2 ^ 64); assumption). reflexivity.
    - (* str *) destruct f as [|f]; [lia|]. cbn [enc norm supported] in *. unfold enc_str. rewrite <- app_assoc.
      destruct (e_writeext O); [destruct (e_stringtoraw O)|]; cbn [andb].
      + apply dec_bin; assumption.
      + apply dec_rawstr; [assumption|right; reflexivity|assumption].
      + apply dec_rawstr; [assumption|left; reflexivity|assumption].
    - (* bytes *) destruct f as [|f]; [lia|]. cbn [enc norm supported] in *. unfold enc_bytes. rewrite <- app_assoc.
      destruct (e_writeext O).
      + apply dec_bin; assumption.
      + apply dec_rawstr; [assumption|left; reflexivity|assumption].
    - (* arr *)
      apply supported_arr in HS. destruct HS as [Hl HS]. apply sint_ok_arr in HI. change (2 ^ 32) with 4294967296 in Hl.
      rewrite enc_arr_eq in *. cbn [norm].
      destruct (head_rt ctList FArr (len l)) as [hd [tl [w [E1 [E2 E3]]]]]; [unfold fam_of; tauto|assumption|].
      rewrite E1 in *. rewrite app_length in Hf. cbn [length] in Hf. destruct f as [|f]; [lia|].
      cbn [app]. rewrite decF_S. unfold dec_body. rewrite E2. cbn [fam_desc fam_fixmin] in *.
      rewrite <- app_assoc. rewrite (E3 (concat (map (enc O) l) ++ rest)). cbn [bind].
      cbn [depth] in Hd. fold (ldepth l) in Hd.
      unfold depth_incr. destruct (Z.leb_spec (maxdepth D) (d + 1)) as [Hle|Hgt]; [lia|]. cbn [bind].
      rewrite rt_seq; try assumption; try lia. reflexivity.
    - (* map *)
      apply supported_map in HS. destruct HS as [Hl HS]. apply sint_ok_map in HI. change (2 ^ 32) with 4294967296 in Hl.
      rewrite enc_map_eq in *. cbn [norm].
      destruct (head_rt ctMap FMap (len l)) as [hd [tl [w [E1 [E2 E3]]]]]; [unfold fam_of; tauto|assumption|].
      rewrite E1 in *. rewrite app_length in Hf. cbn [length] in Hf. destruct f as [|f]; [lia|].
      cbn [app]. rewrite decF_S. unfold dec_body. rewrite E2. cbn [fam_desc fam_fixmin] in *.
      rewrite <- app_assoc. rewrite (E3 (concat (map (fun kv => enc O (fst kv) ++ enc O (snd kv)) l) ++ rest)). cbn [bind].
      cbn [depth] in Hd. fold (pdepth l) in Hd.
      unfold depth_incr. destruct (Z.leb_spec (maxdepth D) (d + 1)) as [Hle|Hgt]; [lia|]. cbn [bind].
      rewrite rt_pairs; try assumption; try lia. reflexivity.
    - (* tag *) contradiction.
    - (* ext *) destruct f as [|f]; [lia|]. cbn [enc norm supported] in *. destruct HS as [Ht Hl].
      rewrite <- app_assoc. apply dec_ext; assumption.
    - (* time *) destruct f as [|f]; [lia|]. cbn [enc norm supported] in *. destruct HS as [Hn Hs].
      unfold enc_time. destruct (is_zero_time s n). { cbn [app]. rewrite decF_S. reflexivity. }
      rewrite <- app_assoc. destruct (e_writeext O).
      + rewrite dec_ext_head by (apply time_len_lt; assumption).
        unfold ext_body. cbn [rd_n1 bind]. change (bTimeExtTagU =? bTimeExtTagU) with true. cbv iota.
        apply dec_time_rt; assumption.
      + rewrite <- (time_body_len s n Hn).
        apply dec_rawstr; [assumption|left; reflexivity|]. rewrite time_body_len by assumption. apply time_len_lt; assumption.
  Qed.

  (* ---- skip ---- *)

  Definition rt_skip (i : item) : Prop :=
    supported i -> forall f d rest,
    (2 * length (enc O i) + 1 <= f)%nat -> (d + Z.of_nat (depth i) < maxdepth D)%Z ->
    skipF D f d (enc O i ++ rest) = Ok rest.

  Lemma rts_seq : forall l, Forall rt_skip l -> Forall supported l ->
    forall f d rest, (2 * length (concat (map (enc O) l)) + 2 <= f)%nat ->
    (d + Z.of_nat (ldepth l) < maxdepth D)%Z ->
    sseqF D f d (len l) (concat (map (enc O) l) ++ rest) = Ok rest.
  Proof.
    induction l as [|x l IH]; intros HP HS f d rest Hf Hd.
    - rewrite sseqF_eq. reflexivity.
    - inversion HP as [|? ? Hx Hl]; subst. inversion HS as [|? ? Sx Sl]; subst.
      rewrite sseqF_eq. rewrite len_cons.
      destruct (N.eqb_spec (len l + 1) 0) as [E|_]; [lia|].
      cbn [map concat] in *. rewrite app_length in Hf. pose proof (enc_nonempty O x) as Hne.
      destruct f as [|f]; [lia|].
      cbn [ldepth fold_right] in Hd. fold (ldepth l) in Hd.
      rewrite <- app_assoc. rewrite (Hx Sx) by lia. cbn [bind].
      replace (len l + 1 - 1) with (len l) by lia.
      apply (IH Hl Sl); lia.
  Qed.

  Lemma rts_pairs : forall l, Forall (fun kv => rt_skip (fst kv) /\ rt_skip (snd kv)) l -> Forall kv_supported l ->
    forall f d rest,
    (2 * length (concat (map (fun kv => enc O (fst kv) ++ enc O (snd kv)) l)) + 2 <= f)%nat ->
    (d + Z.of_nat (pdepth l) < maxdepth D)%Z ->
    spairsF D f d (len l) (concat (map (fun kv => enc O (fst kv) ++ enc O (snd kv)) l) ++ rest) = Ok rest.
  Proof.
    induction l as [|x l IH]; intros HP HS f d rest Hf Hd.
    - rewrite spairsF_eq. reflexivity.
    - inversion HP as [|? ? [Hk Hv] Hl]; subst. inversion HS as [|? ? [Sk [Sh Sv]] Sl]; subst.
      rewrite spairsF_eq. rewrite len_cons.
      destruct (N.eqb_spec (len l + 1) 0) as [E|_]; [lia|].
      cbn [map concat] in *. rewrite !app_length in Hf.
      pose proof (enc_nonempty O (fst x)) as Hne1. pose proof (enc_nonempty O (snd x)) as Hne2.
      destruct f as [|f]; [lia|].
      cbn [pdepth fold_right] in Hd. fold (pdepth l) in Hd.
      rewrite <- !app_assoc. rewrite (Hk Sk) by lia. cbn [bind].
      rewrite (Hv Sv) by lia. cbn [bind].
      replace (len l + 1 - 1) with (len l) by lia.
      apply (IH Hl Sl); lia.
  Qed.

  Lemma skip_enc_aux : forall i, rt_skip i.
  Proof.
    induction i using item_ind'; unfold rt_skip; intros HS f d rest Hf Hd.
    - destruct f as [|f]; [lia|]. cbn [enc app]. rewrite skipF_S. reflexivity.
    - destruct f as [|f]; [lia|]. cbn [enc app]. rewrite skipF_S. destruct b; reflexivity.
    - destruct f as [|f]; [lia|]. cbn [enc]. apply skip_int; assumption.
    - destruct f as [|f]; [lia|]. cbn [enc]. apply skip_uint; assumption.
    - destruct f as [|f]; [lia|]. cbn [enc]. rewrite <- app_comm_cons. rewrite skipF_S. unfold skip_body.
      change (classify bFloat) with DF32. change (rd_skip 4) with (rd_skip (N.of_nat 4)).
      rewrite <- (be_put_len 4 b). apply rd_skip_app.
    - destruct f as [|f]; [lia|]. cbn [enc]. rewrite <- app_comm_cons. rewrite skipF_S. unfold skip_body.
      change (classify bDouble) with DF64. change (rd_skip 8) with (rd_skip (N.of_nat 8)).
      rewrite <- (be_put_len 8 b). apply rd_skip_app.
    - destruct f as [|f]; [lia|]. cbn [enc supported] in *. unfold enc_str. rewrite <- app_assoc.
      destruct (e_writeext O); [destruct (e_stringtoraw O)|].
      + apply (skip_str D ctBin FBin); [unfold fam_of; tauto|tauto|assumption].
      + apply (skip_str D ctStr FStr); [unfold fam_of; tauto|tauto|assumption].
      + apply (skip_str D ctRawLegacy FStr); [unfold fam_of; tauto|tauto|assumption].
    - destruct f as [|f]; [lia|]. cbn [enc supported] in *. unfold enc_bytes. rewrite <- app_assoc.
      destruct (e_writeext O).
      + apply (skip_str D ctBin FBin); [unfold fam_of; tauto|tauto|assumption].
      + apply (skip_str D ctRawLegacy FStr); [unfold fam_of; tauto|tauto|assumption].
    - apply supported_arr in HS. destruct HS as [Hl HS]. change (2 ^ 32) with 4294967296 in Hl.
      rewrite enc_arr_eq in *.
      destruct (head_rt ctList FArr (len l)) as [hd [tl [w [E1 [E2 E3]]]]]; [unfold fam_of; tauto|assumption|].
      rewrite E1 in *. rewrite app_length in Hf. cbn [length] in Hf. destruct f as [|f]; [lia|].
      cbn [app]. rewrite skipF_S. unfold skip_body. rewrite E2. cbn [fam_desc fam_fixmin] in *.
      rewrite <- app_assoc. rewrite (E3 (concat (map (enc O) l) ++ rest)). cbn [bind].
      cbn [depth] in Hd. fold (ldepth l) in Hd.
      unfold depth_incr. destruct (Z.leb_spec (maxdepth D) (d + 1)) as [Hle|Hgt]; [lia|]. cbn [bind].
      apply rts_seq; try assumption; lia.
    - apply supported_map in HS. destruct HS as [Hl HS]. change (2 ^ 32) with 4294967296 in Hl.
      rewrite enc_map_eq in *.
      destruct (head_rt ctMap FMap (len l)) as [hd [tl [w [E1 [E2 E3]]]]]; [unfold fam_of; tauto|assumption|].
      rewrite E1 in *. rewrite app_length in Hf. cbn [length] in Hf. destruct f as [|f]; [lia|].
      cbn [app]. rewrite skipF_S. unfold skip_body. rewrite E2. cbn [fam_desc fam_fixmin] in *.
      rewrite <- app_assoc. rewrite (E3 (concat (map (fun kv => enc O (fst kv) ++ enc O (snd kv)) l) ++ rest)). cbn [bind].
      cbn [depth] in Hd. fold (pdepth l) in Hd.
      unfold depth_incr. destruct (Z.leb_spec (maxdepth D) (d + 1)) as [Hle|Hgt]; [lia|]. cbn [bind].
      apply rts_pairs; try assumption; lia.
    - contradiction.
    - destruct f as [|f]; [lia|]. cbn [enc supported] in *. destruct HS as [Ht Hl].
      rewrite <- app_assoc. apply skip_ext_any; [assumption|reflexivity].
    - destruct f as [|f]; [lia|]. cbn [enc supported] in *. destruct HS as [Hn Hs].
      unfold enc_time. destruct (is_zero_time s n). { cbn [app]. rewrite skipF_S. reflexivity. }
      rewrite <- app_assoc. destruct (e_writeext O).
      + apply skip_ext_any; [apply time_len_lt; assumption|apply time_body_len; assumption].
      + rewrite <- (time_body_len s n Hn).
        apply (skip_str D ctRawLegacy FStr); [unfold fam_of; tauto|tauto|].
        rewrite time_body_len by assumption. apply time_len_lt; assumption.
  Qed.
End RoundTrip.

(* ================================================================== *)
(* the statements *)

(* dec_enc: decoding what the encoder wrote, followed by anything, returns norm of the item and
   leaves exactly what followed; for every item in the encoder's range whose nesting fits
   MaxDepth, every option vector, every rest; the whole input being a Go slice. *)
Theorem dec_enc : forall O D i rest,
  supported i -> sint_ok D i -> (Z.of_nat (depth i) < maxdepth D)%Z ->
  goslice (len (enc O i ++ rest)) ->
  dec_naked D (dec_fuel (enc O i ++ rest)) (enc O i ++ rest) = Ok (norm O D i, rest).
Proof.
  intros O D i rest HS HI Hd Hc. unfold dec_naked.
  apply (dec_enc_aux O D _ Hc i HS HI).
  - unfold dec_fuel. rewrite app_length. lia.
  - lia.
Qed.

(* the statement as it was before fix 3c4765d, for decoders without SignedInteger *)
Corollary dec_enc_unsigned : forall O D i rest,
  d_signedinteger D = false ->
  supported i -> (Z.of_nat (depth i) < maxdepth D)%Z ->
  goslice (len (enc O i ++ rest)) ->
  dec_naked D (dec_fuel (enc O i ++ rest)) (enc O i ++ rest) = Ok (norm O D i, rest).
Proof. intros O D i rest HU HS Hd Hc. apply dec_enc; try assumption. apply sint_ok_unsigned; assumption. Qed.

(* SignedInteger and an unsigned integer above MaxInt64: exactly the overflow error, once the
   value has been read (never a sign-flipped int64) *)
Theorem dec_enc_signed_overflow : forall O D n rest,
  d_signedinteger D = true -> 2 ^ 63 <= n < 2 ^ 64 ->
  dec_naked D (dec_fuel (enc O (IUint n) ++ rest)) (enc O (IUint n) ++ rest) = Err EOverflow.
Proof.
  intros O D n rest HS [Hlo Hhi]. unfold dec_naked, dec_fuel. cbn [enc]. unfold enc_uint.
  change (2 ^ 63) with 9223372036854775808 in Hlo.
  destruct (N.leb_spec n 127); [lia|]. destruct (N.leb_spec n 255); [lia|].
  destruct (N.leb_spec n 65535); [lia|]. destruct (N.leb_spec n 4294967295); [lia|].
  rewrite wrap_small by assumption. rewrite <- app_comm_cons.
  set (b := bUint64 :: be_put 8 n ++ rest).
  replace (2 * length b + 1)%nat with (S (2 * length b)) by lia.
  change (decF D (len b) (S (2 * length b)) 0 b = Err EOverflow). unfold b at 3.
  rewrite (dec_uint_k_r D _ 8 bUint64 n) by (try reflexivity; change (256 ^ N.of_nat 8) with (2 ^ 64); assumption).
  rewrite mkuint_r_overflow by (try assumption; change (2 ^ 63) with 9223372036854775808; lia). reflexivity.
Qed.

(* skip_enc: the second parser consumes exactly the encoding *)
Theorem skip_enc : forall O D i rest d0,
  supported i -> (d0 + Z.of_nat (depth i) < maxdepth D)%Z ->
  skip_at D d0 (dec_fuel (enc O i ++ rest)) (enc O i ++ rest) = Ok rest.
Proof.
  intros O D i rest d0 HS Hd. unfold skip_at.
  apply (skip_enc_aux O D i HS).
  - unfold dec_fuel. rewrite app_length. lia.
  - assumption.
Qed.

(* Wire/CborVUEnc — what the encoder writes for an item whose text is well-formed UTF-8 is accepted by the
   decoder with ValidateUnicode, for every option vector (IndefiniteLength included: the chunks are cut at
   code point boundaries, Wire/CborUtf8.v) and decodes to the same value as without the option. *)
From Coq Require Import List NArith ZArith Lia Bool Arith.
From Coq Require Import ZifyN ZifyNat ZifyBool.
From Verif Require Import Base.Outcome Wire.Item Gen.Consts Wire.CborFloat Wire.Cbor C10.CborSpec C10.CborConv.
From Verif Require Import Wire.CborProofs Wire.CborEnc Wire.CborVU Wire.CborVUProofs Wire.CborUtf8.
Import ListNotations.
Open Scope N_scope.

(* every text leaf of the item -- map keys included -- is well-formed UTF-8; the content of a tag 0
   (RFC 3339 date/time) counts as text whatever its Go type *)
Fixpoint text_ok (i : item) : bool :=
  match i with
  | IStr s => utf8_valid s
  | IArr l => forallb text_ok l
  | IMap l => forallb (fun kv => text_ok (fst kv) && text_ok (snd kv)) l
  | ITag t v => text_ok v && (if t =? 0 then match v with IBytes s => utf8_valid s | _ => true end else true)
  | _ => true
  end.

(* ASCII is well-formed *)
Lemma ascii_valid_f : forall f s, Forall (fun x => x < 128) s -> (length s <= f)%nat -> utf8_valid_f f s = true.
Proof.
  induction f as [|f IH]; intros s Hs Hf.
  - destruct s; [reflexivity|cbn in Hf; lia].
  - destruct s as [|a r]; [reflexivity|]. inversion Hs as [|? ? Ha Hr]; subst. cbn [utf8_valid_f].
    destruct (N.ltb_spec a 128); [|lia]. apply IH; [assumption|cbn in Hf; lia].
Qed.
Lemma ascii_valid : forall s, Forall (fun x => x < 128) s -> utf8_valid s = true.
Proof. intros s H. apply ascii_valid_f; [assumption|lia]. Qed.

Lemma digits_ascii : forall k v, Forall (fun x => x < 128) (digits k v).
Proof.
  induction k; intros; cbn [digits]; [constructor |]. apply Forall_app. split; [apply IHk |].
  constructor; [| constructor]. pose proof (N.mod_lt v 10). lia.
Qed.

Lemma fmt_ascii : forall sec nsec, Forall (fun x => x < 128) (fmt_rfc3339 sec nsec).
Proof.
  intros. unfold fmt_rfc3339. destruct (civil (sec / 86400)) as [[y m] d].
  destruct (trim0 9 nsec) as [k v].
  set (frac := match k with O => [] | S _ => 46 :: digits k v end).
  assert (Hf : Forall (fun x => x < 128) frac).
  { subst frac. destruct k; [constructor|]. constructor; [lia | apply digits_ascii]. }
  repeat (apply Forall_app; split); try apply digits_ascii; try assumption;
    try (constructor; [lia | constructor]); try constructor.
Qed.

Lemma str_tree_texts : forall (O : eopts) (text : bool) (s : list N),
  (text = true -> utf8_valid s = true) -> wtexts_utf8 (str_tree O text s) = true.
Proof.
  intros O text s Hv. unfold str_tree. destruct (eo_indef O).
  - destruct text; [|reflexivity]. specialize (Hv eq_refl). cbn [wtexts_utf8].
    apply andb_true_iff. split.
    + rewrite forallb_forall. intros c Hc. apply in_map_iff in Hc. destruct Hc as (x & <- & Hx). cbn [snd].
      pose proof (chunks_valid (length s) (chunk_len (length s)) s (chunk_len_ge4 _) Hv) as H.
      rewrite forallb_forall in H. apply H. exact Hx.
    + rewrite flat_map_map. cbn [snd].
      rewrite (chunks_concat true (length s) (chunk_len (length s)) s (chunk_len_pos _) (le_n _)). exact Hv.
  - destruct text; [|reflexivity]. cbn [wtexts_utf8]. apply Hv. reflexivity.
Qed.

Lemma str_tree_tag0 : forall (O : eopts) (text : bool) (s : list N), utf8_valid s = true ->
  match str_tree O text s with TBytes _ s' => utf8_valid s' | TBytesI cs => utf8_valid (flat_map snd cs) | _ => true end = true.
Proof.
  intros O text s Hv. unfold str_tree. destruct (eo_indef O); destruct text; try reflexivity; try exact Hv.
  rewrite flat_map_map. cbn [snd].
  rewrite (chunks_concat false (length s) (chunk_len (length s)) s (chunk_len_pos _) (le_n _)). exact Hv.
Qed.

Lemma time_tree_texts : forall (O : eopts) sec nsec, wtexts_utf8 (time_tree O sec nsec) = true.
Proof.
  intros. unfold time_tree. destruct ((sec =? zero_time_sec)%Z && (nsec =? 0)); [reflexivity|].
  destruct (eo_rfc3339 O).
  - pose proof (ascii_valid _ (fmt_ascii sec nsec)) as Hv.
    cbn [wtexts_utf8 N.eqb]. rewrite (str_tree_texts O true _ (fun _ => Hv)). cbn [andb].
    unfold str_tree. destruct (eo_indef O); reflexivity.
  - destruct (round_us sec nsec) as [s1 n1]. cbn [wtexts_utf8 N.eqb].
    destruct (n1 =? 0).
    + unfold int_tree. destruct (s1 <? 0)%Z; reflexivity.
    + unfold f64_tree, f32_tree. repeat match goal with |- context [if ?c then _ else _] => destruct c end; reflexivity.
Qed.

Lemma tree_of_texts : forall (O : eopts) (i : item), text_ok i = true -> wtexts_utf8 (tree_of O i) = true.
Proof.
  intros O. induction i using item_ind'; intros Ht; cbn [tree_of text_ok] in *; try reflexivity.
  - unfold int_tree. destruct (z <? 0)%Z; reflexivity.
  - unfold f32_tree. destruct (_ && _); reflexivity.
  - unfold f64_tree, f32_tree. repeat match goal with |- context [if ?c then _ else _] => destruct c end; reflexivity.
  - apply str_tree_texts. intros _. exact Ht.
  - apply str_tree_texts. discriminate.
  - assert (E : forallb wtexts_utf8 (map (tree_of O) l) = true).
    { rewrite forallb_forall in *. intros x Hx. apply in_map_iff in Hx. destruct Hx as (y & <- & Hy).
      rewrite Forall_forall in H. apply H; [assumption|]. apply Ht. assumption. }
    destruct (eo_indef O); cbn [wtexts_utf8]; exact E.
  - assert (E : forallb (fun kv => wtexts_utf8 (fst kv) && wtexts_utf8 (snd kv))
                        (map (fun kv => (tree_of O (fst kv), tree_of O (snd kv))) l) = true).
    { rewrite forallb_forall in *. intros x Hx. apply in_map_iff in Hx. destruct Hx as (y & <- & Hy). cbn [fst snd].
      rewrite Forall_forall in H. destruct (H y Hy) as [Hk Hv]. specialize (Ht y Hy). apply andb_true_iff in Ht.
      rewrite Hk, Hv by tauto. reflexivity. }
    destruct (eo_indef O); cbn [wtexts_utf8]; exact E.
  - apply andb_true_iff in Ht. destruct Ht as [Hv Hb]. cbn [wtexts_utf8]. rewrite (IHi Hv). cbn [andb].
    destruct (t =? 0); [|reflexivity].
    destruct i; cbn [tree_of]; try reflexivity.
    + unfold int_tree. destruct (z <? 0)%Z; reflexivity.
    + unfold f32_tree. destruct (_ && _); reflexivity.
    + unfold f64_tree, f32_tree. repeat match goal with |- context [if ?c then _ else _] => destruct c end; reflexivity.
    + apply str_tree_tag0. exact Hv.
    + apply str_tree_tag0. exact Hb.
    + destruct (eo_indef O); reflexivity.
    + destruct (eo_indef O); reflexivity.
    + unfold time_tree. destruct (_ && _); [reflexivity|]. destruct (eo_rfc3339 O); [reflexivity|].
      destruct (round_us _ _). reflexivity.
  - apply time_tree_texts.
Qed.

(* (a) what the encoder writes for an item with well-formed text is accepted under ValidateUnicode and
   decodes to the same value as without it *)
Lemma vu_accepts : forall (O : eopts) (D : dopts) (i : item) (rest : list N),
  wf i -> plain i -> lib_supports_t D (tree_of O i) -> (tdepth_t D (tree_of O i) < maxdepth D)%Z ->
  text_ok i = true ->
  dec_naked_vu true D (fuel_for (enc O i ++ rest)) (enc O i ++ rest) = Ok (norm_t O D i, rest).
Proof.
  intros O D i rest Hw Hp Hs Hd Ht. rewrite enc_ser by assumption. unfold norm_t.
  rewrite <- (go_of_t_fnorm D (sdata_of O i)), <- tree_of_data by assumption. rewrite go_of_t_fnorm.
  apply vu_in; try assumption; [apply tree_of_twf; assumption|apply tree_of_texts; assumption].
Qed.

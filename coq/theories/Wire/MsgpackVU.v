(* Wire/MsgpackVU — DecodeOptions.ValidateUnicode and the msgpack driver, decoding into interface{}.

   What the code does (msgpack.go): utf8.Valid is consulted in ONE place, DecodeStringAsBytes
   (msgpack.go: "if d.h.ValidateUnicode && !utf8.Valid(out)"), which typed destinations of kind string
   reach (kString).  DecodeNaked -- every value, array element, map key and map value decoded into an
   interface{} -- reads the str family through decoderBase.fauxUnionReadRawBytes, i.e. DecodeBytes, and
   turns the bytes into a Go string (WriteExt or RawToString) without looking at them.  So, for the
   decoder this wire model describes (destination interface{}), ValidateUnicode changes nothing:

     dec_naked_vu vu D f b = dec_naked D f b          by definition, tied by the correspondence
                                                     (harness/cmd/wiremsgpack, stream vu, case kind 4:
                                                     the real Decoder runs with ValidateUnicode = vu)

   Consequences proved in Wire/MsgpackVUProofs.v: every encoder output still decodes (vu_accepts); the soundness one expects
   of the option -- an Ok result holds no ill-formed text -- is FALSE (vu_sound_refuted: a1 ff decodes to
   the Go string "\xff" with no error, finding F10-5; the same bytes into a string destination are
   rejected).  The commented-out code the str case of DecodeNaked replaced went through
   DecodeStringAsBytes and did validate. *)
From Coq Require Import List NArith ZArith Lia Bool.
From Verif Require Import Base.Outcome Wire.Item Gen.Consts Wire.Msgpack C10.CborSpec.
Import ListNotations.
Local Open Scope N_scope.

Definition dec_naked_vu (vu : bool) (D : dopts) (f : nat) (b : list N) : res (item * list N) :=
  dec_naked D f b.

(* every text leaf (Go string) of a decoded value is well-formed UTF-8 ([utf8_valid]: RFC 3629, the
   same table as Go's utf8.Valid; written in C10/CborSpec.v) *)
Fixpoint text_ok (i : item) : bool :=
  match i with
  | IStr s => utf8_valid s
  | IArr l => forallb text_ok l
  | IMap l => forallb (fun kv => text_ok (fst kv) && text_ok (snd kv)) l
  | ITag _ v => text_ok v
  | _ => true
  end.

(* the statement one expects of ValidateUnicode, kept visible: false of the code as it is *)
Definition vu_sound_full_statement : Prop :=
  forall D f b i rest, dec_naked_vu true D f b = Ok (i, rest) -> text_ok i = true.

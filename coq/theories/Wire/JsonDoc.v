(* Wire/JsonDoc — JsonStd at the document level, written from RFC 8259 independently of the codec:
     JSON-text = ws value ws
     value     = false / null / true / object / array / number / string
     ws        = *( %x20 / %x09 / %x0A / %x0D )
     array     = begin-array [ value *( value-separator value ) ] end-array
     object    = begin-object [ member *( value-separator member ) ] end-object ; member = string name-separator value
   The leaves are C09/Spec.v: a string is what Spec.unescape reads (its literal grammar render_lit / wf_item),
   a number is a literal of Spec.numlit / render_num / wf_numlit ([std_number] is the executable reader of
   that grammar; JsonDocProofs.std_number_render ties them).  Numbers are kept as their literal text,
   strings as the unescaped bytes.  No proofs here. *)
From Coq Require Import List NArith ZArith Bool.
From Verif Require Import Base.Outcome Wire.Item Wire.Json.
From Verif Require C09.Spec.
Import ListNotations.
Open Scope bool_scope.
Open Scope N_scope.

Inductive jvalue :=
| JNull
| JBool (b : bool)
| JNum (text : list N)                   (* the number literal, as written *)
| JStr (s : list N)                      (* unescaped, UTF-8 *)
| JArr (l : list jvalue)
| JObj (l : list (list N * jvalue)).     (* members in document order; names unescaped *)

(* ---- white space *)
Definition stdws (b : N) : bool := (b =? 32) || (b =? 9) || (b =? 10) || (b =? 13).
Fixpoint sws (l : list N) : list N :=
  match l with
  | b :: r => if stdws b then sws r else l
  | [] => []
  end.

(* ---- numbers: [ minus ] int [ frac ] [ exp ] *)
Definition isd (c : N) : bool := (48 <=? c) && (c <=? 57).
Fixpoint dspan (l : list N) : list N * list N :=
  match l with
  | c :: r => if isd c then let '(a, t) := dspan r in (c :: a, t) else ([], l)
  | [] => ([], [])
  end.

(* int = zero / ( digit1-9 *DIGIT ) *)
Definition p_int (s : list N) : option (list N * list N) :=
  match s with
  | d :: r => if isd d then (if d =? 48 then Some ([48], r) else let '(ds, r') := dspan r in Some (d :: ds, r'))
              else None
  | [] => None
  end.
(* frac = decimal-point 1*DIGIT *)
Definition p_frac (s : list N) : option (list N * list N) :=
  match s with
  | c :: r => if c =? 46 then (let '(fs, r') := dspan r in if isnil fs then None else Some (46 :: fs, r'))
              else Some ([], s)
  | [] => Some ([], s)
  end.
(* exp = e [ minus / plus ] 1*DIGIT *)
Definition p_exp (s : list N) : option (list N * list N) :=
  match s with
  | e :: r =>
    if (e =? 101) || (e =? 69) then
      let '(sg, r1) := match r with
                       | c :: q => if (c =? 43) || (c =? 45) then ([c], q) else ([], r)
                       | [] => ([], r)
                       end in
      let '(es, r2) := dspan r1 in
      if isnil es then None else Some (e :: sg ++ es, r2)
    else Some ([], s)
  | [] => Some ([], s)
  end.

Definition std_number (s : list N) : option (list N * list N) :=
  let '(sg, s1) := match s with
                   | c :: r => if c =? 45 then ([45], r) else ([], s)
                   | [] => ([], s)
                   end in
  match p_int s1 with
  | None => None
  | Some (it, r1) =>
    match p_frac r1 with
    | None => None
    | Some (ft, r2) =>
      match p_exp r2 with
      | None => None
      | Some (et, r3) => Some (sg ++ it ++ ft ++ et, r3)
      end
    end
  end.

Definition starts (p r : list N) : bool := eqbl (firstn (length p) r) p.

(* ---- values.  [fuel] bounds the recursion; std_parse gives enough of it. *)
Fixpoint std_value (fuel : nat) (s : list N) {struct fuel} : option (jvalue * list N) :=
  match fuel with
  | O => None
  | S f =>
    match sws s with
    | [] => None
    | c :: r =>
      if c =? 110 then (if starts [117; 108; 108] r then Some (JNull, skipn 3 r) else None)
      else if c =? 116 then (if starts [114; 117; 101] r then Some (JBool true, skipn 3 r) else None)
      else if c =? 102 then (if starts [97; 108; 115; 101] r then Some (JBool false, skipn 4 r) else None)
      else if c =? 34 then
        match Verif.C09.Spec.unescape (c :: r) with Some (d, r') => Some (JStr d, r') | None => None end
      else if c =? 91 then
        match sws r with
        | c2 :: r2 => if c2 =? 93 then Some (JArr [], r2)
                      else match std_elems f r with Some (vs, r') => Some (JArr vs, r') | None => None end
        | [] => None
        end
      else if c =? 123 then
        match sws r with
        | c2 :: r2 => if c2 =? 125 then Some (JObj [], r2)
                      else match std_members f r with Some (ms, r') => Some (JObj ms, r') | None => None end
        | [] => None
        end
      else match std_number (c :: r) with Some (t, r') => Some (JNum t, r') | None => None end
    end
  end
with std_elems (fuel : nat) (s : list N) {struct fuel} : option (list jvalue * list N) :=
  match fuel with
  | O => None
  | S f =>
    match std_value f s with
    | None => None
    | Some (v, r) =>
      match sws r with
      | c :: r' =>
        if c =? 44 then match std_elems f r' with Some (vs, r'') => Some (v :: vs, r'') | None => None end
        else if c =? 93 then Some ([v], r')
        else None
      | [] => None
      end
    end
  end
with std_members (fuel : nat) (s : list N) {struct fuel} : option (list (list N * jvalue) * list N) :=
  match fuel with
  | O => None
  | S f =>
    match sws s with
    | c :: r0 =>
      if c =? 34 then
        match Verif.C09.Spec.unescape (c :: r0) with
        | None => None
        | Some (k, r) =>
          match sws r with
          | c2 :: r2 =>
            if c2 =? 58 then
              match std_value f r2 with
              | None => None
              | Some (v, r3) =>
                match sws r3 with
                | c3 :: r4 =>
                  if c3 =? 44 then match std_members f r4 with Some (ms, r5) => Some ((k, v) :: ms, r5) | None => None end
                  else if c3 =? 125 then Some ([(k, v)], r4)
                  else None
                | [] => None
                end
              end
            else None
          | [] => None
          end
        end
      else None
    | [] => None
    end
  end.

(* JSON-text = ws value ws : the value and what follows its trailing white space *)
Definition std_parse (s : list N) : option (jvalue * list N) :=
  match std_value (2 * length s + 2) s with
  | Some (v, r) => Some (v, sws r)
  | None => None
  end.

(* a valid JSON document: one value, white space around it, nothing else *)
Definition valid_json (s : list N) : bool :=
  match std_parse s with Some (_, []) => true | _ => false end.

(* ------------------------------------------------------------------ *)
(* what a standard parser sees of an encoded item                      *)

Section JV.
Variable L : leaf.

Definition jv_shape (sh : shape) : jvalue :=
  match sh with
  | SNull => JNull
  | SQ _ d => JStr d
  | SB t => if eqbl t t_true then JBool true else if eqbl t t_false then JBool false else JNum t
  | SNone => JNull
  end.
Definition keytext (sh : shape) : list N := match sh with SQ _ d => d | _ => [] end.

(* numbers as the literal the encoder wrote (quoted under IntegerAsString / as map keys under MapKeyAsString:
   then a string), strings as utf8_sanitise s, []byte as its base64 text, time as its RFC 3339 text *)
Fixpoint jv_of (o : eopts) (key : bool) (i : item) : jvalue :=
  match i with
  | IArr l => JArr (map (jv_of o false) l)
  | IMap l => JObj (map (fun kv => (keytext (shape_of L o true (fst kv)), jv_of o false (snd kv))) l)
  | _ => jv_shape (shape_of L o key i)
  end.

(* JSON-representable: ranges; no tags/extensions; []byte as base64; every map key is written as a string
   (a string / []byte / time key, or any scalar key under MapKeyAsString; never nil: null is not quoted) *)
Definition keyq (o : eopts) (k : item) : Prop := exists w d, shape_of L o true k = SQ w d.

Fixpoint jdoc (o : eopts) (key : bool) (i : item) : Prop :=
  match i with
  | INil | IBool _ | ITime _ _ => True
  | IInt z => (- 2 ^ 63 <= z < 2 ^ 63)%Z
  | IUint n => n < 2 ^ 64
  | IF32 b => b < 2 ^ 32
  | IF64 b => b < 2 ^ 64
  | IStr _ => stringToRaw o && bytesArr o = false
  | IBytes _ => bytesArr o = false
  | IArr l => key = false /\ (fix go l := match l with [] => True | x :: r => jdoc o false x /\ go r end) l
  | IMap l => key = false /\
              (fix go l := match l with
                           | [] => True
                           | kv :: r => (jdoc o true (fst kv) /\ keyq o (fst kv)) /\ jdoc o false (snd kv) /\ go r
                           end) l
  | ITag _ _ | IExt _ _ => False
  end.

End JV.

(* Wire/JsonCorr — correspondence: evaluate the model on what harness/cmd/wirejson observed of
   the real Encoder / Decoder and list the case ids that differ.  The lexical leaves are C09's
   string code and the tables of float / time texts the harness recorded ([c09_leaf]). *)
From Coq Require Import List NArith ZArith Bool.
From Verif Require Import Base.Outcome Wire.Item Gen.Consts Wire.Json.
Import ListNotations.
Open Scope bool_scope.
Open Scope N_scope.

(* equality of observed trees; map entries as an unordered collection *)
Fixpoint ieq (a b : item) : bool :=
  match a, b with
  | INil, INil => true
  | IBool x, IBool y => Bool.eqb x y
  | IInt x, IInt y => Z.eqb x y
  | IUint x, IUint y => N.eqb x y
  | IF64 x, IF64 y => N.eqb x y
  | IStr x, IStr y => eqbl x y
  | IArr l, IArr m =>
      (fix go (l m : list item) : bool :=
         match l, m with
         | [], [] => true
         | x :: l', y :: m' => ieq x y && go l' m'
         | _, _ => false
         end) l m
  | IMap l, IMap m =>
      Nat.eqb (length l) (length m) &&
      (fix all (l : list (item * item)) : bool :=
         match l with
         | [] => true
         | kv :: l' =>
             (fix any (m : list (item * item)) : bool :=
                match m with
                | [] => false
                | kv' :: m' => (ieq (fst kv) (fst kv') && ieq (snd kv) (snd kv')) || any m'
                end) m && all l'
         end) l
  | _, _ => false
  end.

(* error classes as the harness reports them: 1 eof, 4 depth, 8 any other error, 100 hang *)
Definition ocode (e : eclass) : N :=
  match e with EEof => 1 | EDepth => 4 | _ => 8 end.

(* one call on a Decoder: Decode(&interface{}) or nextValueBytes (Decode(&Raw) / the hook) *)
Inductive obs :=
| ODec (oclass numread : N) (tree : item)
| ORaw (oclass numread : N) (bytes : list N).

Inductive case :=
| CEnc (id : N) (T : tables) (o : eopts) (i : item) (bytes : list N)
| CSeq (id : N) (T : tables) (D : dopts) (input : list N) (calls : list obs).

Definition cid (c : case) : N := match c with CEnc id _ _ _ _ => id | CSeq id _ _ _ _ => id end.

(* the calls are made one after the other on the same Decoder; the harness stops after the first error *)
Fixpoint check_calls (L : leaf) (D : dopts) (total : N) (s : st) (l : list obs) : bool :=
  match l with
  | [] => true
  | ODec oclass numread tree :: r =>
      match decode1 L D s with
      | Ok (t, s') => (oclass =? 0) && (numread + llen (inp s') =? total) && ieq t tree && check_calls L D total s' r
      | Err EUnsupported => true          (* repeated map key: decode into the old value, not modelled *)
      | Err e => oclass =? ocode e
      | OutOfFuel => oclass =? 100
      end
  | ORaw oclass numread bytes :: r =>
      match nvb s with
      | Ok (v, s') => (oclass =? 0) && (numread + llen (inp s') =? total) && eqbl v bytes && check_calls L D total s' r
      | Err e => oclass =? ocode e
      | OutOfFuel => oclass =? 100
      end
  end.

Definition check_case (c : case) : bool :=
  match c with
  | CEnc _ T o i bytes => eqbl (enc_top (c09_leaf T) o i) bytes
  | CSeq _ T D input calls => check_calls (c09_leaf T) D (llen input) (st0 input) calls
  end.

Definition mismatches (cs : list case) : list N :=
  map cid (filter (fun c => negb (check_case c)) cs).

(* Wire/JsonDepth — nesting is bounded by MaxDepth: the instrumented decoder is the decoder, its
   recursion level never exceeds what MaxDepth allows, a container met at the bound is refused. *)
From Coq Require Import List NArith ZArith Bool Lia.
From Verif Require Import Base.Outcome Wire.Item Gen.Consts Wire.Json Wire.JsonRT.
Import ListNotations.
Open Scope N_scope.

Section Depth.
Variable L : leaf.

Lemma fst_ibind : forall A B (x : res A * nat) (f : A -> res B * nat),
  fst (ibind x f) = bind (fst x) (fun a => fst (f a)).
Proof. intros A B [[a|e|] n] f; reflexivity. Qed.

Lemma snd_ibind_le : forall A B (x : res A * nat) (f : A -> res B * nat) (b : nat),
  (snd x <= b)%nat -> (forall a, (snd (f a) <= b)%nat) -> (snd (ibind x f) <= b)%nat.
Proof. intros A B [[a|e|] n] f b Hx Hf; cbn in *; auto. specialize (Hf a). lia. Qed.

Lemma snd_ibind_le' : forall A B (x : res A * nat) (f : A -> res B * nat) (b : nat),
  (snd x <= b)%nat -> (forall a, fst x = Ok a -> (snd (f a) <= b)%nat) -> (snd (ibind x f) <= b)%nat.
Proof. intros A B [[a|e|] n] f b Hx Hf; cbn in *; auto. specialize (Hf a eq_refl). lia. Qed.

Lemma snd_ibind_ge : forall A B (x : res A * nat) (f : A -> res B * nat),
  (snd x <= snd (ibind x f))%nat.
Proof. intros A B [[a|e|] n] f; cbn; lia. Qed.

(* unfolding equations *)
Lemma deci_S : forall D f depth lvl key s,
  deci L D (S f) depth lvl key s =
    ibind (ilift lvl (advance s)) (fun s1 =>
    let t := tok s1 in
    if t =? 110 then ilift lvl (do s2 <- lit [117; 108; 108] s1 ;; Ok (INil, s2))
    else if t =? 102 then ilift lvl (do s2 <- lit [97; 108; 115; 101] s1 ;; Ok (IBool false, s2))
    else if t =? 116 then ilift lvl (do s2 <- lit [114; 117; 101] s1 ;; Ok (IBool true, s2))
    else if t =? 123 then
      ibind (ilift lvl (depth_enter D depth)) (fun d' =>
      ibind (deci_pairs L D f d' (S lvl) true [] (mkst 0 (inp s1))) (fun xr => let '(kvs, s2) := xr in
      ilift lvl (Ok (IMap kvs, s2))))
    else if t =? 91 then
      ibind (ilift lvl (depth_enter D depth)) (fun d' =>
      ibind (deci_elems L D f d' (S lvl) true (mkst 0 (inp s1))) (fun xr => let '(xs, s2) := xr in
      ilift lvl (Ok (IArr xs, s2))))
    else if t =? 34 then
      ilift lvl (do (bs, r) <- unquote L (inp s1) ;; Ok (rd_quoted L D key bs, mkst 0 r))
    else
      ilift lvl (let '(bs, s2) := read_num s1 in
                 if isnil bs then Err EOther else do i <- naked_num L D bs ;; Ok (i, s2))).
Proof. reflexivity. Qed.

Lemma deci_elems_S : forall D f depth lvl first s,
  deci_elems L D (S f) depth lvl first s =
    ibind (ilift lvl (advance s)) (fun s1 =>
    if (tok s1 =? 125) || (tok s1 =? 93) then
      ilift lvl (if tok s1 =? 93 then Ok ([], mkst 0 (inp s1)) else Err EOther)
    else
      ibind (ilift lvl (if first then Ok s1 else check_sep 44 s1)) (fun s2 =>
      ibind (deci L D f depth lvl false s2) (fun xr => let '(x, s3) := xr in
      ibind (deci_elems L D f depth lvl false s3) (fun yr => let '(xs, s4) := yr in
      ilift lvl (Ok (x :: xs, s4)))))).
Proof. reflexivity. Qed.

Lemma deci_pairs_S : forall D f depth lvl first seen s,
  deci_pairs L D (S f) depth lvl first seen s =
    ibind (ilift lvl (advance s)) (fun s1 =>
    if (tok s1 =? 125) || (tok s1 =? 93) then
      ilift lvl (if tok s1 =? 125 then Ok ([], mkst 0 (inp s1)) else Err EOther)
    else
      ibind (ilift lvl (if first then Ok s1 else check_sep 44 s1)) (fun s2 =>
      if smap D then
        ibind (ilift lvl (dec_strkey L s2)) (fun kr => let '(k, s3) := kr in
        ibind (ilift lvl (check_sep 58 s3)) (fun s4 =>
        if seen_key seen k then ilift lvl (Err EUnsupported) else
        ibind (deci L D f depth lvl false s4) (fun vr => let '(v, s5) := vr in
        ibind (deci_pairs L D f depth lvl false (k :: seen) s5) (fun yr => let '(kvs, s6) := yr in
        ilift lvl (Ok ((k, v) :: kvs, s6))))))
      else
        ibind (deci L D f depth lvl true s2) (fun kr => let '(k, s3) := kr in
        ibind (ilift lvl (check_sep 58 s3)) (fun s4 =>
        ibind (ilift lvl (advance s4)) (fun s5 =>
        if unhashable k then ilift lvl (Err EOther) else
        if seen_key seen k then ilift lvl (Err EUnsupported) else
        ibind (deci L D f depth lvl false s5) (fun vr => let '(v, s6) := vr in
        ibind (deci_pairs L D f depth lvl false (k :: seen) s6) (fun yr => let '(kvs, s7) := yr in
        ilift lvl (Ok ((k, v) :: kvs, s7))))))))).
Proof. reflexivity. Qed.

Ltac bind_ext :=
  repeat match goal with
  | |- bind ?x _ = bind ?x _ => destruct x as [?| |]; cbn [bind]; [|reflexivity|reflexivity]
  | |- (if ?c then _ else _) = (if ?c then _ else _) => destruct c
  | |- (let '(_, _) := ?p in _) = _ => destruct p
  | |- fst (let '(_, _) := ?p in _) = _ => destruct p
  | |- fst (if ?c then _ else _) = _ => destruct c
  | |- fst (ilift _ _) = _ => cbn [ilift fst]
  | |- fst (ibind _ _) = _ => rewrite fst_ibind; cbn [ilift fst]
  end.

(* the instrumented decoder computes the same outcome *)
Lemma deci_dec : forall D fuel,
  (forall depth lvl key s, fst (deci L D fuel depth lvl key s) = dec L D fuel depth key s) /\
  (forall depth lvl first s, fst (deci_elems L D fuel depth lvl first s) = dec_elems L D fuel depth first s) /\
  (forall depth lvl first seen s, fst (deci_pairs L D fuel depth lvl first seen s) = dec_pairs L D fuel depth first seen s).
Proof.
  intros D. induction fuel as [|f (IH1 & IH2 & IH3)]; [repeat split; reflexivity|].
  split; [|split].
  - intros depth lvl key s. rewrite deci_S, dec_S. bind_ext; try reflexivity.
    + rewrite IH3. bind_ext; reflexivity.
    + rewrite IH2. bind_ext; reflexivity.
  - intros depth lvl first s. rewrite deci_elems_S, dec_elems_S. bind_ext; try reflexivity;
      rewrite IH1; bind_ext; try reflexivity; rewrite IH2; bind_ext; reflexivity.
  - intros depth lvl first seen s. rewrite deci_pairs_S, dec_pairs_S. bind_ext; try reflexivity.
    all: try (rewrite IH1; bind_ext; try reflexivity).
    all: try (rewrite IH1; bind_ext; try reflexivity).
    all: try (rewrite IH3; bind_ext; reflexivity).
Qed.

(* recursion bound: from a call at recursion level [lvl] with [depth] open containers the decoder
   nests at most maxdepth - 1 - depth further levels *)
Definition room (D : dopts) (depth : Z) : nat := Z.to_nat (maxdepth D - 1 - depth).

Lemma ilift_le : forall A lvl (x : res A) b, (lvl <= b)%nat -> (snd (ilift lvl x) <= b)%nat.
Proof. intros. exact H. Qed.

Ltac bound_tac :=
  repeat match goal with
  | |- (snd (ibind _ _) <= _)%nat => apply snd_ibind_le'; [|intros ? ?]
  | |- (snd (ilift _ _) <= _)%nat => apply ilift_le; lia
  | |- (snd (if ?c then _ else _) <= _)%nat => destruct c
  | |- (snd (let '(_, _) := ?p in _) <= _)%nat => destruct p
  end.

Lemma deci_bound : forall D fuel,
  (forall depth lvl key s, (snd (deci L D fuel depth lvl key s) <= lvl + room D depth)%nat) /\
  (forall depth lvl first s, (snd (deci_elems L D fuel depth lvl first s) <= lvl + room D depth)%nat) /\
  (forall depth lvl first seen s, (snd (deci_pairs L D fuel depth lvl first seen s) <= lvl + room D depth)%nat).
Proof.
  intros D. induction fuel as [|f (IH1 & IH2 & IH3)]; [repeat split; intros; cbn; lia|].
  assert (Henter : forall depth d', depth_enter D depth = Ok d' -> (S (room D d') <= room D depth)%nat).
  { intros depth d'. unfold depth_enter. destruct (maxdepth D <=? depth + 1)%Z eqn:E; [discriminate|].
    intros H; inversion H; subst. apply Z.leb_gt in E. unfold room. lia. }
  split; [|split].
  - intros depth lvl key s. rewrite deci_S. cbv zeta. bound_tac.
    + match goal with H : fst (ilift _ (depth_enter _ _)) = Ok ?d |- _ => cbn in H; apply Henter in H;
        pose proof (IH3 d (S lvl) true [] (mkst 0 (inp a))) end. lia.
    + match goal with H : fst (ilift _ (depth_enter _ _)) = Ok ?d |- _ => cbn in H; apply Henter in H;
        pose proof (IH2 d (S lvl) true (mkst 0 (inp a))) end. lia.
  - intros depth lvl first s. rewrite deci_elems_S. bound_tac; try apply IH1; try apply IH2.
  - intros depth lvl first seen s. rewrite deci_pairs_S. bound_tac; try apply IH1; try apply IH3.
Qed.

(* a container met when MaxDepth levels are already open (depth + 1 >= maxdepth) is refused *)
Lemma dec_depth_refuse : forall D f depth key s s1,
  advance s = Ok s1 -> (tok s1 = 91 \/ tok s1 = 123) -> (maxdepth D <= depth + 1)%Z ->
  dec L D (S f) depth key s = Err EDepth.
Proof.
  intros D f depth key s s1 Ha Ht Hd. rewrite dec_S, Ha. cbn [bind].
  assert (E : depth_enter D depth = Err EDepth).
  { unfold depth_enter. destruct (maxdepth D <=? depth + 1)%Z eqn:E; [reflexivity|apply Z.leb_gt in E; lia]. }
  destruct Ht as [Ht|Ht]; rewrite Ht; cbn; rewrite E; reflexivity.
Qed.

Lemma depth_lemma : forall (D : dopts) (fuel : nat) (s : st),
  fst (deci L D fuel 0 1 false s) = dec L D fuel 0 false s /\
  (Z.of_nat (snd (deci L D fuel 0 1 false s)) <= maxdepth D)%Z.
Proof.
  intros D fuel s. split; [apply (deci_dec D fuel)|].
  pose proof (proj1 (deci_bound D fuel) 0%Z 1%nat false s) as H. unfold room in H.
  assert (1 <= maxdepth D)%Z by (unfold maxdepth; destruct (0 <? maxDepthOpt D)%Z eqn:E; [apply Z.ltb_lt in E; lia|vm_compute; discriminate]).
  lia.
Qed.

End Depth.

(* Wire/CborVU — DecodeOptions.ValidateUnicode and the cbor driver, decoding into interface{}.
   An extension of Wire/Cbor.v (whose dopts record is shared with other properties and is left alone):
   the same decoder with one more option, [vu].  No proofs here.

   What the code does (cbor.go):
   * DecodeBytes, on an indefinite-length string (0x5f / 0x7f):
         val4str := d.h.ValidateUnicode && major == cborMajorString
         ... n := uint(d.decLen()); bs = append(bs, d.r.readx(n)...)
             if val4str && !utf8.Valid(bs[len(bs)-int(n):]) { halt.errorf(...) }
     every chunk of an indefinite-length TEXT string is validated on its own, right after it was read
     and before the next chunk head is looked at (RFC 8949 3.2.3: a chunk is itself a text string);
     chunks of a byte string are not.  This applies to every caller of DecodeBytes: text values, the
     content of tag 0 (DecodeStringAsBytes) and of the bignum tags 2 / 3 (decTagBigIntAsFloat).
   * DecodeStringAsBytes = DecodeBytes, then "if d.h.ValidateUnicode && !utf8.Valid(out)": the whole
     string is validated once more, whatever its major type and length form.  DecodeNaked calls it for
     major type 3 (text) and decodeTime for the content of tag 0.
   * major type 2 (bytes) in DecodeNaked goes through fauxUnionReadRawBytes -> DecodeBytes: a byte string
     turned into a Go string by RawToString, or by kMap when it is a map key, is never validated.
   The error is a plain halt.errorf: class "other" for the harness.

   [utf8_valid] (C10/CborSpec.v) is RFC 3629 well-formedness, the table Go's utf8.Valid implements
   (no overlong forms, no surrogates U+D800..DFFF, nothing above U+10FFFF, no truncated sequence). *)
From Coq Require Import List NArith ZArith Lia Bool.
From Verif Require Import Base.Outcome Wire.Item Gen.Consts Wire.CborFloat Wire.Cbor C10.CborSpec.
Import ListNotations.
Open Scope N_scope.

(* the chunk loop of DecodeBytes, with val4str *)
Fixpoint dec_chunks_vu (vu : bool) (f : nat) (mt : N) (b : list N) : res (list N * list N) :=
  match f with
  | O => OutOfFuel
  | S f' =>
      match b with
      | [] => Err EEof
      | bd :: b1 =>
          if bd =? bdBreak then Ok ([], b1)
          else if negb (bd / 32 =? mt) then Err EBadDesc
          else
            do (n, b2) <- dec_len (bd mod 32) b1 ;;
            do (c, b3) <- take n b2 ;;
            if vu && (mt =? majString) && negb (utf8_valid c) then Err EOther
            else
              do (cs, b4) <- dec_chunks_vu vu f' mt b3 ;;
              Ok (c ++ cs, b4)
      end
  end.

(* DecodeBytes when bd (major 2 or 3) has been read *)
Definition dec_str_body_vu (vu : bool) (f : nat) (bd : N) (b1 : list N) : res (list N * list N) :=
  if (bd =? bdIndefBytes) || (bd =? bdIndefString) then dec_chunks_vu vu f (bd / 32) b1
  else do (n, b2) <- dec_len (bd mod 32) b1 ;; take n b2.

(* DecodeStringAsBytes when bd has been read: DecodeBytes, then the whole is validated *)
Definition dec_text_vu (vu : bool) (f : nat) (bd : N) (b1 : list N) : res (list N * list N) :=
  do (s, b2) <- dec_str_body_vu vu f bd b1 ;;
  if vu && negb (utf8_valid s) then Err EOther else Ok (s, b2).

(* DecodeBytes as the tags call it (bdRead = false) *)
Definition dec_bytes_fresh_vu (vu : bool) (D : dopts) (f : nat) (b : list N) : res (list N * list N) :=
  match b with
  | [] => Err EEof
  | bd0 :: b0 =>
      if (bd0 =? bdNil) || (bd0 =? bdUndefined) then Ok ([], b0)
      else
        do (bd, b1) <- (if do_skiptags D then skip_tags f bd0 b0 else Ok (bd0, b0)) ;;
        if (bd / 32 =? majBytes) || (bd / 32 =? majString) then dec_str_body_vu vu f bd b1
        else Err EUnsupported
  end.

Section BodiesVU.
  Variable vu : bool.
  Variable D : dopts.
  Variable f' : nat.
  Variable self : Z -> nat -> list N -> resI (item * list N).
  Variable arrd : Z -> nat -> N -> list N -> resI (list item * list N).
  Variable arri : Z -> nat -> list N -> resI (list item * list N).
  Variable mapd : Z -> nat -> N -> list item -> list N -> resI (list (item * item) * list N).
  Variable mapi : Z -> nat -> list item -> list N -> resI (list (item * item) * list N).

  (* tag 0: decodeTime -> DecodeStringAsBytes (chunks, then the whole, whatever the major type);
     tags 2 / 3: decTagBigIntAsFloat -> DecodeBytes (chunks of a text string only);
     every other tag: as without the option *)
  Definition dec_tag_vu (d : Z) (r : nat) (t : N) (b2 : list N) : resI (item * list N) :=
    if t =? 0 then
      liftI r (do (s, b3) <- dec_bytes_fresh_vu vu D f' b2 ;;
               if vu && negb (utf8_valid s) then Err EOther
               else do i <- parse_rfc3339 s ;; Ok (i, b3))
    else if (t =? 2) || (t =? 3) then
      liftI r (do (s, b3) <- dec_bytes_fresh_vu vu D f' b2 ;;
               do x <- finite_or_err (f64_of_bigint (t =? 3) (be_get s)) ;; Ok (IF64 x, b3))
    else dec_tag D f' self d r t b2.

  Definition dec_body_vu (d : Z) (r : nat) (bd : N) (b1 : list N) : resI (item * list N) :=
    match kind_of bd with
    | KText => liftI r (do (s, b2) <- dec_text_vu vu f' bd b1 ;; Ok (IStr s, b2))
    | KTag => doI (t, b2) <- liftI r (read_uint (bd mod 32) b1) ;; dec_tag_vu d r t b2
    | _ => dec_body D f' self arrd arri mapd mapi d r bd b1
    end.
End BodiesVU.

Fixpoint decv (vu : bool) (D : dopts) (f : nat) (d : Z) (r : nat) (b : list N) {struct f} : resI (item * list N) :=
  match f with
  | O => (OutOfFuel, r)
  | S f' =>
    match b with
    | [] => (Err EEof, r)
    | bd :: b1 =>
        dec_body_vu vu D f' (decv vu D f') (arr_def_v vu D f') (arr_indef_v vu D f') (map_def_v vu D f') (map_indef_v vu D f') d r bd b1
    end
  end

with arr_def_v (vu : bool) (D : dopts) (f : nat) (d : Z) (r : nat) (n : N) (b : list N) {struct f} : resI (list item * list N) :=
  match f with
  | O => (OutOfFuel, r)
  | S f' =>
      if n =? 0 then (Ok ([], b), r)
      else
        doI (x, b1) <- decv vu D f' d r b ;;
        doI (xs, b2) <- arr_def_v vu D f' d r (n - 1) b1 ;;
        (Ok (x :: xs, b2), r)
  end

with arr_indef_v (vu : bool) (D : dopts) (f : nat) (d : Z) (r : nat) (b : list N) {struct f} : resI (list item * list N) :=
  match f with
  | O => (OutOfFuel, r)
  | S f' =>
      match b with
      | [] => (Err EEof, r)
      | bd :: b1 =>
          if bd =? bdBreak then (Ok ([], b1), r)
          else
            doI (x, b2) <- decv vu D f' d r b ;;
            doI (xs, b3) <- arr_indef_v vu D f' d r b2 ;;
            (Ok (x :: xs, b3), r)
      end
  end

with map_def_v (vu : bool) (D : dopts) (f : nat) (d : Z) (r : nat) (n : N) (seen : list item) (b : list N) {struct f}
  : resI (list (item * item) * list N) :=
  match f with
  | O => (OutOfFuel, r)
  | S f' =>
      if n =? 0 then (Ok ([], b), r)
      else
        doI (kv, b2) <- map_entry (decv vu D f') d r seen b ;;
        doI (kvs, b3) <- map_def_v vu D f' d r (n - 1) (fst kv :: seen) b2 ;;
        (Ok (kv :: kvs, b3), r)
  end

with map_indef_v (vu : bool) (D : dopts) (f : nat) (d : Z) (r : nat) (seen : list item) (b : list N) {struct f}
  : resI (list (item * item) * list N) :=
  match f with
  | O => (OutOfFuel, r)
  | S f' =>
      match b with
      | [] => (Err EEof, r)
      | bd :: b0 =>
          if bd =? bdBreak then (Ok ([], b0), r)
          else
            doI (kv, b2) <- map_entry (decv vu D f') d r seen b ;;
            doI (kvs, b3) <- map_indef_v vu D f' d r (fst kv :: seen) b2 ;;
            (Ok (kv :: kvs, b3), r)
      end
  end.

(* Decode(&v) with v a nil interface{} and DecodeOptions.ValidateUnicode = vu *)
Definition dec_naked_vu (vu : bool) (D : dopts) (f : nat) (b : list N) : res (item * list N) :=
  fst (decv vu D f 0 0 b).

(* every Go string in VALUE position (top level, array element, map value, tag content) is well-formed
   UTF-8.  Map keys are left out on purpose: kMap turns a byte-string key into a Go string (keynorm), and
   byte strings are never validated; text-string keys are (they are decoded by the same decv). *)
Fixpoint vals_utf8 (i : item) : bool :=
  match i with
  | IStr s => utf8_valid s
  | IArr l => forallb vals_utf8 l
  | IMap l => forallb (fun kv => vals_utf8 (snd kv)) l
  | ITag _ v => vals_utf8 v
  | _ => true
  end.

(* every text string of a well-formed item, and every chunk of an indefinite-length one, is well-formed
   UTF-8; the content of tag 0, whatever its major type, as well (DecodeStringAsBytes) *)
Fixpoint wtexts_utf8 (t : wtree) : bool :=
  match t with
  | TText _ s => utf8_valid s
  | TTextI cs => forallb (fun c => utf8_valid (snd c)) cs && utf8_valid (flat_map snd cs)
  | TArr _ l | TArrI l => forallb wtexts_utf8 l
  | TMap _ l | TMapI l => forallb (fun kv => wtexts_utf8 (fst kv) && wtexts_utf8 (snd kv)) l
  | TTag _ t v =>
      wtexts_utf8 v &&
      (if t =? 0 then match v with
                      | TBytes _ s => utf8_valid s
                      | TBytesI cs => utf8_valid (flat_map snd cs)
                      | _ => true
                      end
       else true)
  | _ => true
  end.

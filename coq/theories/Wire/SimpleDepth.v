(* Wire/SimpleDepth — the instrumented decoder agrees with the plain one; the recursion level is
   bounded by MaxDepth; the containerLenNil sentinel is never met; nesting beyond MaxDepth is an error. *)
From Coq Require Import List NArith ZArith Bool Lia Arith.
From Coq Require Import ZifyN ZifyNat ZifyBool.
From Verif Require Import Base.Outcome Wire.Item Gen.Consts Wire.Simple Wire.SimpleProofs Wire.SimpleTotal.
Import ListNotations.
Open Scope bool_scope.

Definition ok_i {A} (lvl : nat) (B : Z) (x : res A * instr) : Prop :=
  sentinel (snd x) = false /\ (Z.of_nat lvl <= Z.of_nat (maxrec (snd x)) <= B)%Z.

Lemma fst_ibind : forall {A B} (x : res A * instr) (f : A -> res B * instr),
  fst (ibind x f) = bind (fst x) (fun a => fst (f a)).
Proof. intros A B [[a|e|] i] f; reflexivity. Qed.

Lemma ok_ibind : forall {A B} lvl Bd (x : res A * instr) (f : A -> res B * instr),
  ok_i lvl Bd x -> (forall a, fst x = Ok a -> ok_i lvl Bd (f a)) -> ok_i lvl Bd (ibind x f).
Proof.
  intros A B lvl Bd [[a|e|] i] f [Hs Hm] Hf; cbn in *; unfold ok_i; cbn; auto.
  destruct (Hf a eq_refl) as [Hs2 Hm2]. cbn. rewrite Hs, Hs2. split; [reflexivity|lia].
Qed.

Lemma ok_ilift : forall {A} lvl Bd (r : res A), (Z.of_nat lvl <= Bd)%Z -> ok_i lvl Bd (ilift lvl r).
Proof. intros. unfold ok_i, ilift. cbn. split; [reflexivity|lia]. Qed.

Lemma uint2len_nonneg : forall v r n r', uint2len v r = Ok (n, r') -> (0 <= n)%Z.
Proof.
  intros v r n r'. unfold uint2len. destruct (N.ltb_spec (2 ^ 63 - 1) v); [discriminate|].
  intros HH. inversion HH; subst. unfold to_i64. destruct (N.ltb_spec v (2 ^ 63)); lia.
Qed.

Lemma dec_len_nonneg : forall lw l n r, dec_len lw l = Ok (n, r) -> (0 <= n)%Z.
Proof.
  intros lw l n r. unfold dec_len.
  destruct lw as [|p]; [intros H; inversion H; lia|].
  repeat match goal with
         | |- context [match ?p with xI _ => _ | xO _ => _ | xH => _ end] => destruct p
         end; try discriminate;
    (destruct (readn _ l) as [[v r0]|e|]; cbn [bind]; cbv beta iota; try discriminate;
     first [ apply uint2len_nonneg | intros H; inversion H; lia ]).
Qed.

Theorem deci_gen : forall fuel,
  (forall D dp lvl l, (dp < maxdepth D)%Z ->
     fst (deci D fuel dp lvl l) = dec D fuel dp l /\ ok_i lvl (Z.of_nat lvl + room D dp) (deci D fuel dp lvl l)) /\
  (forall D dp lvl cnt l, (dp < maxdepth D)%Z ->
     fst (deci_elems D fuel dp lvl cnt l) = dec_elems D fuel dp cnt l /\
     ok_i lvl (Z.of_nat lvl + room D dp) (deci_elems D fuel dp lvl cnt l)) /\
  (forall D dp lvl seen cnt l, (dp < maxdepth D)%Z ->
     fst (deci_pairs D fuel dp lvl seen cnt l) = dec_pairs D fuel dp seen cnt l /\
     ok_i lvl (Z.of_nat lvl + room D dp) (deci_pairs D fuel dp lvl seen cnt l)).
Proof.
  induction fuel as [|f [IHd [IHe IHp]]].
  - repeat apply conj; intros; cbn.
    + split; [reflexivity|]. unfold ok_i, room. cbn. split; [reflexivity|lia].
    + destruct (cnt_done cnt); cbn; (split; [reflexivity|]); unfold ok_i, room; cbn; (split; [reflexivity|lia]).
    + destruct (cnt_done cnt); cbn; (split; [reflexivity|]); unfold ok_i, room; cbn; (split; [reflexivity|lia]).
  - repeat apply conj.
    + intros D dp lvl l Hdp. cbn [deci dec].
      assert (Hr : (0 <= room D dp)%Z) by (unfold room; lia).
      split.
      * rewrite fst_ibind. cbn [ilift fst]. destruct (readn1 l) as [[b r]|e|]; cbn [bind]; try reflexivity.
        destruct (classify b); try reflexivity.
        -- rewrite fst_ibind. cbn [ilift fst]. destruct (dec_len lw r) as [[n r1]|e|]; cbn [bind]; try reflexivity.
           rewrite fst_ibind. cbn [fst]. destruct (depth_enter D dp n) as [d'|e|] eqn:Ed; cbn [bind]; try reflexivity.
           assert (Hd' : (d' < maxdepth D)%Z).
           { unfold depth_enter in Ed. destruct (_ =? _)%Z; [inversion Ed; lia|].
             destruct (Z.leb_spec (maxdepth D) (dp + 1)); [discriminate|inversion Ed; lia]. }
           rewrite fst_ibind. rewrite (proj1 (IHe D d' (S lvl) (loop_count n 1) r1 Hd')).
           destruct (dec_elems D f d' (loop_count n 1) r1) as [[xs r2]|e|]; reflexivity.
        -- rewrite fst_ibind. cbn [ilift fst]. destruct (dec_len lw r) as [[n r1]|e|]; cbn [bind]; try reflexivity.
           rewrite fst_ibind. cbn [fst]. destruct (depth_enter D dp n) as [d'|e|] eqn:Ed; cbn [bind]; try reflexivity.
           assert (Hd' : (d' < maxdepth D)%Z).
           { unfold depth_enter in Ed. destruct (_ =? _)%Z; [inversion Ed; lia|].
             destruct (Z.leb_spec (maxdepth D) (dp + 1)); [discriminate|inversion Ed; lia]. }
           rewrite fst_ibind. rewrite (proj1 (IHp D d' (S lvl) [] (loop_count n 1) r1 Hd')).
           destruct (dec_pairs D f d' [] (loop_count n 1) r1) as [[xs r2]|e|]; reflexivity.
      * apply ok_ibind; [apply ok_ilift; lia|]. intros [b r] _.
        destruct (classify b); try (apply ok_ilift; lia).
        -- apply ok_ibind; [apply ok_ilift; lia|]. intros [n r1] Hn. cbn [ilift fst] in Hn.
           apply dec_len_nonneg in Hn.
           apply ok_ibind.
           ++ unfold ok_i. cbn. split; [|lia]. destruct (Z.eqb_spec n containerLenNil); [unfold containerLenNil in *; lia|reflexivity].
           ++ intros d' Hd'. cbn [fst] in Hd'. unfold depth_enter in Hd'.
              destruct (Z.eqb_spec n containerLenNil); [unfold containerLenNil in *; lia|].
              destruct (Z.leb_spec (maxdepth D) (dp + 1)); [discriminate|]. inversion Hd'; subst d'.
              destruct (IHe D (dp + 1)%Z (S lvl) (loop_count n 1) r1 ltac:(lia)) as [_ [Hs Hm]].
              apply ok_ibind.
              ** unfold ok_i. split; [exact Hs|]. unfold room in *. lia.
              ** intros [xs r2] _. apply ok_ilift. lia.
        -- apply ok_ibind; [apply ok_ilift; lia|]. intros [n r1] Hn. cbn [ilift fst] in Hn.
           apply dec_len_nonneg in Hn.
           apply ok_ibind.
           ++ unfold ok_i. cbn. split; [|lia]. destruct (Z.eqb_spec n containerLenNil); [unfold containerLenNil in *; lia|reflexivity].
           ++ intros d' Hd'. cbn [fst] in Hd'. unfold depth_enter in Hd'.
              destruct (Z.eqb_spec n containerLenNil); [unfold containerLenNil in *; lia|].
              destruct (Z.leb_spec (maxdepth D) (dp + 1)); [discriminate|]. inversion Hd'; subst d'.
              destruct (IHp D (dp + 1)%Z (S lvl) [] (loop_count n 1) r1 ltac:(lia)) as [_ [Hs Hm]].
              apply ok_ibind.
              ** unfold ok_i. split; [exact Hs|]. unfold room in *. lia.
              ** intros [xs r2] _. apply ok_ilift. lia.
    + intros D dp lvl cnt l Hdp. cbn [deci_elems dec_elems].
      assert (Hr : (0 <= room D dp)%Z) by (unfold room; lia).
      destruct (cnt_done cnt); [split; [reflexivity|apply ok_ilift; lia]|].
      destruct (IHd D dp lvl l Hdp) as [E1 O1].
      split.
      * rewrite fst_ibind, E1. destruct (dec D f dp l) as [[x r]|e|]; cbn [bind]; try reflexivity.
        rewrite fst_ibind. rewrite (proj1 (IHe D dp lvl (cnt_pred cnt) r Hdp)).
        destruct (dec_elems D f dp (cnt_pred cnt) r) as [[xs r']|e|]; reflexivity.
      * apply ok_ibind; [exact O1|]. intros [x r] _.
        apply ok_ibind; [apply (IHe D dp lvl (cnt_pred cnt) r Hdp)|]. intros [xs r'] _. apply ok_ilift. lia.
    + intros D dp lvl seen cnt l Hdp. cbn [deci_pairs dec_pairs].
      assert (Hr : (0 <= room D dp)%Z) by (unfold room; lia).
      destruct (cnt_done cnt); [split; [reflexivity|apply ok_ilift; lia]|].
      destruct (IHd D dp lvl l Hdp) as [E1 O1].
      split.
      * rewrite fst_ibind, E1. destruct (dec D f dp l) as [[k r]|e|]; cbn [bind]; try reflexivity.
        destruct (seen_key seen (key_conv k)); [reflexivity|].
        rewrite fst_ibind. cbn [ilift fst]. destruct (readn1 r) as [[b0 r0]|e|]; cbn [bind]; try reflexivity.
        destruct (unhashable k); [reflexivity|].
        rewrite fst_ibind. rewrite (proj1 (IHd D dp lvl r Hdp)).
        destruct (dec D f dp r) as [[v r1]|e|]; cbn [bind]; try reflexivity.
        rewrite fst_ibind. rewrite (proj1 (IHp D dp lvl (key_conv k :: seen) (cnt_pred cnt) r1 Hdp)).
        destruct (dec_pairs D f dp (key_conv k :: seen) (cnt_pred cnt) r1) as [[kvs r']|e|]; reflexivity.
      * apply ok_ibind; [exact O1|]. intros [k r] _.
        destruct (seen_key seen (key_conv k)); [apply ok_ilift; lia|].
        apply ok_ibind; [apply ok_ilift; lia|]. intros [b0 r0] _.
        destruct (unhashable k); [apply ok_ilift; lia|].
        apply ok_ibind; [apply (IHd D dp lvl r Hdp)|]. intros [v r1] _.
        apply ok_ibind; [apply (IHp D dp lvl (key_conv k :: seen) (cnt_pred cnt) r1 Hdp)|]. intros [kvs r'] _.
        apply ok_ilift. lia.
Qed.

(* ------------------------------------------------------------------ *)
(* nesting at or beyond MaxDepth is refused                            *)

Lemma maxdepth_pos : forall D, (0 < maxdepth D)%Z.
Proof. intros D. unfold maxdepth. destruct (Z.ltb_spec 0 (maxDepthOpt D)); [lia|]. unfold decDefMaxDepth. lia. Qed.

Definition DEEP (o : eopts) (D : dopts) (i : item) : Prop :=
  swf o D i -> (signedInteger D = false \/ sint_ok i) ->
  forall key rest fuel dp,
    (2 * length (enc o key i ++ rest) + 1 <= fuel)%nat -> (dp < maxdepth D)%Z ->
    (maxdepth D <= dp + Z.of_nat (depth i))%Z ->
    dec D fuel dp (enc o key i ++ rest) = Err EDepth.

Lemma depth_enter_deep : forall D dp n, (0 <= n)%Z -> (maxdepth D <= dp + 1)%Z -> depth_enter D dp n = Err EDepth.
Proof.
  intros D dp n Hn Hd. unfold depth_enter.
  destruct (Z.eqb_spec n containerLenNil); [unfold containerLenNil in *; lia|].
  destruct (Z.leb_spec (maxdepth D) (dp + 1)); [reflexivity|lia].
Qed.

Definition fmax (l : list item) : nat := fold_right (fun x m => Nat.max (depth x) m) 0%nat l.
Definition fmaxkv (l : list (item * item)) : nat :=
  fold_right (fun kv m => Nat.max (Nat.max (depth (fst kv)) (depth (snd kv))) m) 0%nat l.

Lemma dec_elems_deep : forall o D l,
  Forall (DEEP o D) l -> Forall (swf o D) l -> (signedInteger D = false \/ Forall sint_ok l) ->
  forall rest fuel dp,
    (2 * length (flat_map (enc o false) l ++ rest) + 2 <= fuel)%nat -> (dp < maxdepth D)%Z ->
    (maxdepth D <= dp + Z.of_nat (fmax l))%Z ->
    dec_elems D fuel dp (Some (llen l)) (flat_map (enc o false) l ++ rest) = Err EDepth.
Proof.
  intros o D l. induction l as [|x l IH]; intros HD Hswf Hsint rest fuel dp Hf Hdp Hdeep.
  - cbn in Hdeep. lia.
  - inversion HD as [|? ? HDx HDl]; subst. inversion Hswf as [|? ? Hsx Hsl]; subst.
    assert (Hsint_x : signedInteger D = false \/ sint_ok x) by (destruct Hsint as [?|H]; [auto|inversion H; auto]).
    assert (Hsint_l : signedInteger D = false \/ Forall sint_ok l) by (destruct Hsint as [?|H]; [auto|inversion H; auto]).
    cbn [flat_map] in *. rewrite <- app_assoc in *.
    pose proof (enc_nonempty o x false) as Hne. rewrite !app_length in Hf.
    destruct fuel as [|fuel]; [exfalso; lia|].
    cbn [dec_elems]. rewrite cnt_done_S.
    destruct (Z.le_gt_cases (maxdepth D) (dp + Z.of_nat (depth x))) as [Hx|Hx].
    + rewrite (HDx Hsx Hsint_x false _ fuel dp); [reflexivity|rewrite !app_length; lia|exact Hdp|exact Hx].
    + rewrite (dec_enc_all o D x Hsx Hsint_x false _ fuel dp); [|rewrite !app_length; lia|unfold depth_ok; lia].
      cbn [bind]. rewrite cnt_pred_S.
      rewrite (IH HDl Hsl Hsint_l rest fuel dp); [reflexivity|rewrite !app_length; lia|exact Hdp|].
      unfold fmax in *. cbn [fold_right] in Hdeep. lia.
Qed.

Lemma unhashable_depth0 : forall k, unhashable k = false -> depth k = 0%nat.
Proof. intros k H. destruct k; cbn in *; try reflexivity; discriminate. Qed.

Lemma dec_pairs_deep : forall o D l,
  Forall (fun kv => DEEP o D (snd kv)) l ->
  Forall (fun kv => (swf o D (fst kv) /\ unhashable (fst kv) = false) /\ swf o D (snd kv)) l ->
  (signedInteger D = false \/ Forall (fun kv => sint_ok (fst kv) /\ sint_ok (snd kv)) l) ->
  forall seen rest fuel dp,
    keys_fresh o D seen l ->
    (2 * length (flat_map (kvenc o) l ++ rest) + 2 <= fuel)%nat -> (dp < maxdepth D)%Z ->
    (maxdepth D <= dp + Z.of_nat (fmaxkv l))%Z ->
    dec_pairs D fuel dp seen (Some (llen l)) (flat_map (kvenc o) l ++ rest) = Err EDepth.
Proof.
  intros o D l. induction l as [|kv l IH]; intros HD Hswf Hsint seen rest fuel dp Hk Hf Hdp Hdeep.
  - cbn in Hdeep. lia.
  - inversion HD as [|? ? HDv HDl]; subst. inversion Hswf as [|? ? [[Hsk Hun] Hsv] Hsl]; subst.
    assert (Hsint_k : signedInteger D = false \/ sint_ok (fst kv)) by (destruct Hsint as [?|H]; [auto|inversion H; tauto]).
    assert (Hsint_v : signedInteger D = false \/ sint_ok (snd kv)) by (destruct Hsint as [?|H]; [auto|inversion H; tauto]).
    assert (Hsint_l : signedInteger D = false \/ Forall (fun kv => sint_ok (fst kv) /\ sint_ok (snd kv)) l)
      by (destruct Hsint as [?|H]; [auto|inversion H; auto]).
    destruct Hk as [Hfresh Hk].
    pose proof (unhashable_depth0 _ Hun) as Hk0.
    cbn [flat_map] in *. unfold kvenc at 1 in Hf. unfold kvenc at 1. rewrite <- !app_assoc in *.
    pose proof (enc_nonempty o (fst kv) true) as Hne1. pose proof (enc_nonempty o (snd kv) false) as Hne2.
    rewrite !app_length in Hf.
    destruct fuel as [|fuel]; [exfalso; lia|].
    cbn [dec_pairs]. rewrite cnt_done_S.
    rewrite (dec_enc_all o D (fst kv) Hsk Hsint_k true _ fuel dp); [|rewrite !app_length; lia|unfold depth_ok; lia].
    cbn [bind]. unfold nkey in Hfresh. rewrite Hfresh.
    destruct (readn1_enc o false (snd kv) (flat_map (kvenc o) l ++ rest)) as [b [r Hr]]. rewrite Hr. cbn [bind].
    rewrite unhashable_norm by exact Hun.
    destruct (Z.le_gt_cases (maxdepth D) (dp + Z.of_nat (depth (snd kv)))) as [Hx|Hx].
    + rewrite (HDv Hsv Hsint_v false _ fuel dp); [reflexivity|rewrite !app_length; lia|exact Hdp|exact Hx].
    + rewrite (dec_enc_all o D (snd kv) Hsv Hsint_v false _ fuel dp); [|rewrite !app_length; lia|unfold depth_ok; lia].
      cbn [bind]. rewrite cnt_pred_S.
      rewrite (IH HDl Hsl Hsint_l); [reflexivity|exact Hk|rewrite !app_length; lia|exact Hdp|].
      unfold fmaxkv in *. cbn [fold_right] in Hdeep. lia.
Qed.

Theorem dec_deep_all : forall o D i, DEEP o D i.
Proof.
  intros o D. induction i using item_ind'; unfold DEEP; intros Hswf Hsint key rest fuel dp Hf Hdp Hdeep;
    try (cbn [depth] in Hdeep; exfalso; lia).
  - (* array *)
    cbn [swf] in Hswf. destruct Hswf as [Hlen Hall]. apply swf_arr_forall in Hall.
    assert (Hs' : signedInteger D = false \/ Forall sint_ok l).
    { destruct Hsint as [?|Hs]; [auto|right; apply sint_arr_forall; exact Hs]. }
    cbn [enc] in *.
    destruct (enc_len_spec (vd simpleVdArray) (llen l) Hlen) as [w [pl [Hw [Henc Hdl]]]].
    rewrite Henc in *. rewrite <- !app_assoc in *. cbn [app] in *. cbn [length] in Hf. rewrite app_length in Hf.
    destruct fuel as [|fuel]; [exfalso; lia|]. cbn [dec readn1 bind].
    replace (classify (vd simpleVdArray + w)) with (KArr w) by (symmetry; apply classify_len; auto).
    rewrite Hdl. cbn [bind]. cbn [depth] in Hdeep. fold (fmax l) in Hdeep.
    destruct (Z.le_gt_cases (maxdepth D) (dp + 1)) as [Hd1|Hd1].
    + rewrite depth_enter_deep by lia. reflexivity.
    + rewrite depth_enter_ok by (auto; lia). cbn [bind]. rewrite loop_count_ok.
      rewrite (dec_elems_deep o D l H Hall Hs'); [reflexivity|lia|lia|lia].
  - (* map *)
    cbn [swf] in Hswf. destruct Hswf as [Hlen [Hfresh Hall]]. apply swf_map_forall in Hall.
    assert (Hs' : signedInteger D = false \/ Forall (fun kv => sint_ok (fst kv) /\ sint_ok (snd kv)) l).
    { destruct Hsint as [?|Hs]; [auto|right; apply sint_map_forall; exact Hs]. }
    cbn [enc] in *.
    destruct (enc_len_spec (vd simpleVdMap) (llen l) Hlen) as [w [pl [Hw [Henc Hdl]]]].
    rewrite Henc in *. rewrite <- !app_assoc in *. cbn [app] in *. cbn [length] in Hf. rewrite app_length in Hf.
    destruct fuel as [|fuel]; [exfalso; lia|]. cbn [dec readn1 bind].
    replace (classify (vd simpleVdMap + w)) with (KMap w) by (symmetry; apply classify_len; auto).
    rewrite Hdl. cbn [bind]. cbn [depth] in Hdeep. fold (fmaxkv l) in Hdeep.
    destruct (Z.le_gt_cases (maxdepth D) (dp + 1)) as [Hd1|Hd1].
    + rewrite depth_enter_deep by lia. reflexivity.
    + rewrite depth_enter_ok by (auto; lia). cbn [bind]. rewrite loop_count_ok.
      change (fun kv : item * item => enc o true (fst kv) ++ enc o false (snd kv)) with (kvenc o) in *.
      assert (HD : Forall (fun kv => DEEP o D (snd kv)) l).
      { eapply Forall_impl; [|exact H]. intros kv [_ Hv]. exact Hv. }
      rewrite (dec_pairs_deep o D l HD Hall Hs' [] _ fuel (dp + 1)%Z Hfresh); [reflexivity|lia|lia|lia].
  - (* tag *) cbn [swf] in Hswf. contradiction.
Qed.

(* ------------------------------------------------------------------ *)
(* statements exported to Properties/W_simple.v                        *)

Lemma W_simple_depth_error_lemma : forall (o : eopts) (D : dopts) (i : item) (rest : list N),
  swf o D i -> (signedInteger D = false \/ sint_ok i) -> (maxdepth D <= Z.of_nat (depth i))%Z ->
  dec_naked D (dec_fuel (enc o false i ++ rest)) (enc o false i ++ rest) = Err EDepth.
Proof.
  intros. unfold dec_naked, dec_fuel. apply dec_deep_all; auto; try lia. apply maxdepth_pos.
Qed.

Lemma W_simple_depth_bound_lemma : forall (D : dopts) (l : list N) (fuel : nat),
  fst (dec_naked_i D fuel l) = dec_naked D fuel l /\
  sentinel (snd (dec_naked_i D fuel l)) = false /\
  (Z.of_nat (maxrec (snd (dec_naked_i D fuel l))) <= maxdepth D)%Z.
Proof.
  intros D l fuel. unfold dec_naked_i, dec_naked.
  destruct (proj1 (deci_gen fuel) D 0%Z 1%nat l (maxdepth_pos D)) as [E [Hs Hm]].
  pose proof (maxdepth_pos D). unfold room in Hm. repeat apply conj; auto. lia.
Qed.

(* Wire/CborCorr — correspondence: evaluate the model on the cases harness/cmd/wirecbor ran
   against the real Encoder / Decoder and report the ids that differ. *)
From Coq Require Import List NArith ZArith Bool.
From Verif Require Import Base.Outcome Wire.Item Gen.Consts Wire.CborFloat Wire.Cbor Wire.CborVU Wire.CborDup.
Import ListNotations.
Open Scope N_scope.

Inductive case :=
| CEnc (id : N) (O : eopts) (i : item) (out : list N)
| CDec (id : N) (D : dopts) (b : list N) (cls : N) (tree : item) (nread : N)
| CDecVU (id : N) (D : dopts) (b : list N) (cls : N) (tree : item) (nread : N)   (* Decode with ValidateUnicode = true *)
| CDecDup (id : N) (D : dopts) (b : list N) (cls : N) (tree : item) (nread : N)  (* Decode with MapValueReset / InterfaceReset: repeated keys *)
| CSkip (id : N) (D : dopts) (depth : Z) (b : list N) (cls : N) (nread : N)
| CHalf (id : N) (hi : N) (outs : list N)
| CLeaf (id : N) (fn : N) (args : list N) (out : N).

Definition case_id (c : case) : N :=
  match c with
  | CEnc id _ _ _ | CDec id _ _ _ _ _ | CDecVU id _ _ _ _ _ | CDecDup id _ _ _ _ _ | CSkip id _ _ _ _ _ | CHalf id _ _ | CLeaf id _ _ _ => id
  end.

(* the harness prints maps in its own order: compare entries as sets (keys are distinct) *)
Fixpoint item_eqb (a b : item) {struct a} : bool :=
  match a, b with
  | INil, INil => true
  | IBool x, IBool y => Bool.eqb x y
  | IInt x, IInt y => (x =? y)%Z
  | IUint x, IUint y => x =? y
  | IF32 x, IF32 y => x =? y
  | IF64 x, IF64 y => x =? y
  | IStr x, IStr y => eqbl x y
  | IBytes x, IBytes y => eqbl x y
  | IArr l, IArr l' =>
      (fix go (l : list item) (l' : list item) : bool :=
         match l, l' with
         | [], [] => true
         | x :: r, y :: r' => item_eqb x y && go r r'
         | _, _ => false
         end) l l'
  | IMap l, IMap l' =>
      Nat.eqb (length l) (length l') &&
      (fix go (l : list (item * item)) : bool :=
         match l with
         | [] => true
         | kv :: r => existsb (fun kv' => item_eqb (fst kv) (fst kv') && item_eqb (snd kv) (snd kv')) l' && go r
         end) l
  | ITag t v, ITag t' v' => (t =? t') && item_eqb v v'
  | IExt t x, IExt t' y => (t =? t') && eqbl x y
  | ITime s n, ITime s' n' => (s =? s')%Z && (n =? n')
  | _, _ => false
  end.

(* error classes as the harness sees them (codec.VerifErrClass): 1 input ended, 4 depth, 2 other *)
Definition coarse (e : eclass) : N :=
  match e with EEof => 1 | EDepth => 4 | _ => 2 end.

Definition nread_of (b rest : list N) : N := N.of_nat (length b - length rest).

Definition to_int64 (n : N) : Z := if n <? 9223372036854775808 then Z.of_N n else (Z.of_N n - 18446744073709551616)%Z.
Definition of_int64 (z : Z) : N := Z.to_N (z mod 18446744073709551616).

Definition leaf (fn : N) (args : list N) : N :=
  match fn, args with
  | 1, [x] => f32_to_half x
  | 2, [x] => widen x
  | 3, [x] => narrow x
  | 4, [x] => f64_of_Z (to_int64 x)
  | 5, [a; b] => f64_add a b
  | 6, [a; b] => f64_div a b
  | 7, [a; b] => f64_mul a b
  | 8, [a] => f64_trunc a
  | 9, [a] => of_int64 (f64_to_int64 a)
  | _, _ => 0
  end.

Definition check_case (c : case) : bool :=
  match c with
  | CEnc _ eo i out => eqbl (enc eo i) out
  | CDec _ D b cls tree nread =>
      match dec_naked D (fuel_for b) b with
      | Err EUnsupported => true                       (* outside the modelled domain *)
      | Ok (i, rest) => (cls =? 0) && item_eqb i tree && (nread =? nread_of b rest)
      | Err e => cls =? coarse e
      | OutOfFuel => false
      end
  | CDecVU _ D b cls tree nread =>
      match dec_naked_vu true D (fuel_for b) b with
      | Err EUnsupported => true
      | Ok (i, rest) => (cls =? 0) && item_eqb i tree && (nread =? nread_of b rest)
      | Err e => cls =? coarse e
      | OutOfFuel => false
      end
  | CDecDup _ D b cls tree nread =>
      match dec_naked_dup D (fuel_for b) b with
      | Err EUnsupported => true
      | Ok (i, rest) => (cls =? 0) && item_eqb i tree && (nread =? nread_of b rest)
      | Err e => cls =? coarse e
      | OutOfFuel => false
      end
  | CSkip _ D d b cls nread =>
      match skip D (fuel_for b) d b with
      | Ok rest => (cls =? 0) && (nread =? nread_of b rest)
      | Err e => cls =? coarse e
      | OutOfFuel => false
      end
  | CHalf _ hi outs =>
      eqbl (map (fun lo => half_to_f32 (hi * 256 + N.of_nat lo)) (seq 0 256)) outs
  | CLeaf _ fn args out => leaf fn args =? out
  end.

Definition mismatches (cs : list case) : list N :=
  map case_id (filter (fun c => negb (check_case c)) cs).

(* Wire/CborDepthErr — nesting beyond MaxDepth is rejected with the depth error (first half of
   dec_depth), for every well-formed serialisation, arrays / maps / kept tags in any mixture; and the
   same for the skip walker (values nested too deeply inside a skipped field). *)
From Coq Require Import List NArith ZArith Lia Bool Arith.
From Coq Require Import ZifyN ZifyNat ZifyBool.
From Verif Require Import Base.Outcome Wire.Item Gen.Consts Wire.CborFloat Wire.Cbor C10.CborSpec C10.CborConv Wire.CborProofs.
Import ListNotations.
Open Scope N_scope.

Lemma fst_bindI_err {A B} : forall (m : resI A) (k : A -> resI B) e, fst m = Err e -> fst (bindI m k) = Err e.
Proof. intros. unfold bindI. rewrite H. reflexivity. Qed.

Definition dec_err (D : dopts) (t : wtree) : Prop :=
  forall f d r rest, (2 * length (ser t) + 1 <= f)%nat -> (d < maxdepth D)%Z ->
  (maxdepth D <= d + tdepth_t D t)%Z ->
  fst (dec D f d r (ser t ++ rest)) = Err EDepth.

Lemma arr_def_err : forall D l, Forall (dec_ok D) l -> Forall (dec_err D) l ->
  forall f d r rest, (2 * length (flat_map ser l) + 2 <= f)%nat -> (d < maxdepth D)%Z ->
  (maxdepth D <= d + fold_right (fun x m => Z.max (tdepth_t D x) m) 0 l)%Z ->
  fst (arr_def D f d r (N.of_nat (length l)) (flat_map ser l ++ rest)) = Err EDepth.
Proof.
  intros D l H. induction H as [| x l Hx Hl IH]; intros He f d r rest Hf Hd Hm.
  - simpl in Hm. lia.
  - inversion He as [| ? ? Hex Hel]; subst.
    destruct f; [simpl in Hf; lia |]. rewrite arr_def_S.
    replace (N.of_nat (length (x :: l)) =? 0) with false by (symmetry; apply N.eqb_neq; cbn [length]; lia).
    cbn [flat_map] in *. rewrite app_length in Hf. rewrite <- app_assoc. cbn [fold_right] in Hm.
    pose proof (ser_len_pos x) as Hp.
    destruct (Z_lt_le_dec (d + tdepth_t D x) (maxdepth D)) as [Hok | Hbad].
    + erewrite fst_bindI by (apply Hx; lia). cbv beta iota.
      replace (N.of_nat (length (x :: l)) - 1) with (N.of_nat (length l)) by (cbn [length]; lia).
      apply fst_bindI_err. apply IH; [assumption | lia | lia | lia].
    + apply fst_bindI_err. apply Hex; lia.
Qed.

Lemma arr_indef_err : forall D l, Forall (dec_ok D) l -> Forall (dec_err D) l -> Forall twf l ->
  forall f d r rest, (2 * length (flat_map ser l) + 2 <= f)%nat -> (d < maxdepth D)%Z ->
  (maxdepth D <= d + fold_right (fun x m => Z.max (tdepth_t D x) m) 0 l)%Z ->
  fst (arr_indef D f d r (flat_map ser l ++ 255 :: rest)) = Err EDepth.
Proof.
  intros D l H. induction H as [| x l Hx Hl IH]; intros He Hw f d r rest Hf Hd Hm.
  - simpl in Hm. lia.
  - inversion He as [| ? ? Hex Hel]; subst. inversion Hw as [| ? ? Hwx Hwl]; subst.
    destruct f; [simpl in Hf; lia |].
    cbn [flat_map] in *. rewrite app_length in Hf. rewrite <- app_assoc. cbn [fold_right] in Hm.
    pose proof (ser_len_pos x) as Hp.
    destruct (ser_hd x Hwx) as (bd & tl & E & Hne).
    assert (E2 : ser x ++ flat_map ser l ++ 255 :: rest = bd :: (tl ++ flat_map ser l ++ 255 :: rest)) by (rewrite E; reflexivity).
    rewrite E2. rewrite arr_indef_S.
    replace (bd =? bdBreak) with false by (symmetry; apply N.eqb_neq; exact Hne).
    rewrite <- E2.
    destruct (Z_lt_le_dec (d + tdepth_t D x) (maxdepth D)) as [Hok | Hbad].
    + erewrite fst_bindI by (apply Hx; lia). cbv beta iota.
      apply fst_bindI_err. apply IH; [assumption | assumption | lia | lia | lia].
    + apply fst_bindI_err. apply Hex; lia.
Qed.

(* one map entry whose key or value is nested too deeply *)
Lemma map_entry_err : forall D k v, dec_ok D k -> dec_ok D v -> dec_err D k -> dec_err D v -> twf v ->
  forall f' d r seen rest,
  (2 * length (ser k) + 1 <= f')%nat -> (2 * length (ser v) + 1 <= f')%nat -> (d < maxdepth D)%Z ->
  (maxdepth D <= d + Z.max (tdepth_t D k) (tdepth_t D v))%Z ->
  hashable (keynorm (go_of_t D (data_of k))) = true ->
  existsb (key_eqb (keynorm (go_of_t D (data_of k)))) seen = false ->
  fst (map_entry (dec D f') d r seen (ser k ++ ser v ++ rest)) = Err EDepth.
Proof.
  intros D k v Hk Hv Hek Hev Hwv f' d r seen rest Hfk Hfv Hd Hm Hh Hs.
  unfold map_entry.
  destruct (Z_lt_le_dec (d + tdepth_t D k) (maxdepth D)) as [Hok | Hbad].
  - erewrite fst_bindI by (apply Hk; assumption). cbv beta iota.
    destruct (ser_hd v Hwv) as (bd & tl & E & _).
    assert (E2 : ser v ++ rest = bd :: (tl ++ rest)) by (rewrite E; reflexivity).
    rewrite E2. rewrite Hh. cbn [negb]. rewrite Hs. rewrite <- E2.
    apply fst_bindI_err. apply Hev; [assumption | assumption | lia].
  - apply fst_bindI_err. apply Hek; assumption.
Qed.

Lemma map_def_err : forall D l,
  Forall (fun kv => dec_ok D (fst kv) /\ dec_ok D (snd kv)) l ->
  Forall (fun kv => dec_err D (fst kv) /\ dec_err D (snd kv)) l ->
  Forall (fun kv => twf (fst kv) /\ twf (snd kv)) l ->
  forall f d r seen rest, (2 * length (flat_map pair_ser l) + 2 <= f)%nat -> (d < maxdepth D)%Z ->
  (maxdepth D <= d + fold_right (pair_depth D) 0 l)%Z ->
  keys_ok_t D seen l ->
  fst (map_def D f d r (N.of_nat (length l)) seen (flat_map pair_ser l ++ rest)) = Err EDepth.
Proof.
  intros D l H. induction H as [| kv l [Hk Hv] Hl IH]; intros He Hw f d r seen rest Hf Hd Hm Hkeys.
  - simpl in Hm. lia.
  - inversion He as [| ? ? [Hek Hev] Hel]; subst. inversion Hw as [| ? ? [Hwk Hwv] Hwl]; subst.
    destruct f; [simpl in Hf; lia |]. rewrite map_def_S.
    replace (N.of_nat (length (kv :: l)) =? 0) with false by (symmetry; apply N.eqb_neq; cbn [length]; lia).
    cbn [flat_map] in *. unfold pair_ser at 1 in Hf. unfold pair_ser at 1.
    rewrite !app_length in Hf. rewrite <- !app_assoc. cbn [fold_right] in Hm. unfold pair_depth at 1 in Hm.
    pose proof (ser_len_pos (fst kv)) as Hp1. pose proof (ser_len_pos (snd kv)) as Hp2.
    cbn [keys_ok_t] in Hkeys. destruct Hkeys as (Hh & Hs & Hkeys).
    destruct (Z_lt_le_dec (d + Z.max (tdepth_t D (fst kv)) (tdepth_t D (snd kv))) (maxdepth D)) as [Hok | Hbad].
    + erewrite fst_bindI by (apply map_entry_ser; try assumption; lia). cbv beta iota. cbn [fst].
      replace (N.of_nat (length (kv :: l)) - 1) with (N.of_nat (length l)) by (cbn [length]; lia).
      apply fst_bindI_err. apply IH; [assumption | assumption | lia | lia | lia | exact Hkeys].
    + apply fst_bindI_err. apply map_entry_err; try assumption; lia.
Qed.

Lemma map_indef_err : forall D l,
  Forall (fun kv => dec_ok D (fst kv) /\ dec_ok D (snd kv)) l ->
  Forall (fun kv => dec_err D (fst kv) /\ dec_err D (snd kv)) l ->
  Forall (fun kv => twf (fst kv) /\ twf (snd kv)) l ->
  forall f d r seen rest, (2 * length (flat_map pair_ser l) + 2 <= f)%nat -> (d < maxdepth D)%Z ->
  (maxdepth D <= d + fold_right (pair_depth D) 0 l)%Z ->
  keys_ok_t D seen l ->
  fst (map_indef D f d r seen (flat_map pair_ser l ++ 255 :: rest)) = Err EDepth.
Proof.
  intros D l H. induction H as [| kv l [Hk Hv] Hl IH]; intros He Hw f d r seen rest Hf Hd Hm Hkeys.
  - simpl in Hm. lia.
  - inversion He as [| ? ? [Hek Hev] Hel]; subst. inversion Hw as [| ? ? [Hwk Hwv] Hwl]; subst.
    destruct f; [simpl in Hf; lia |].
    cbn [flat_map] in *. unfold pair_ser at 1 in Hf. unfold pair_ser at 1.
    rewrite !app_length in Hf. rewrite <- !app_assoc. cbn [fold_right] in Hm. unfold pair_depth at 1 in Hm.
    pose proof (ser_len_pos (fst kv)) as Hp1. pose proof (ser_len_pos (snd kv)) as Hp2.
    cbn [keys_ok_t] in Hkeys. destruct Hkeys as (Hh & Hs & Hkeys).
    destruct (ser_hd (fst kv) Hwk) as (bd & tl & E & Hne).
    assert (E2 : ser (fst kv) ++ ser (snd kv) ++ flat_map pair_ser l ++ 255 :: rest
                 = bd :: (tl ++ ser (snd kv) ++ flat_map pair_ser l ++ 255 :: rest)) by (rewrite E; reflexivity).
    rewrite E2. rewrite map_indef_S.
    replace (bd =? bdBreak) with false by (symmetry; apply N.eqb_neq; exact Hne).
    rewrite <- E2.
    destruct (Z_lt_le_dec (d + Z.max (tdepth_t D (fst kv)) (tdepth_t D (snd kv))) (maxdepth D)) as [Hok | Hbad].
    + erewrite fst_bindI by (apply map_entry_ser; try assumption; lia). cbv beta iota. cbn [fst].
      apply fst_bindI_err. apply IH; [assumption | assumption | lia | lia | lia | exact Hkeys].
    + apply fst_bindI_err. apply map_entry_err; try assumption; lia.
Qed.

Theorem dec_ser_err : forall D t, twf t -> lib_supports_t D t -> dec_err D t.
Proof.
  intros D t. induction t using wtree_ind'; intros Hw Hs f d r rest Hf Hd Hm;
    try (cbn [tdepth_t] in Hm; lia);
    (destruct f as [| f']; [exfalso; lia |]).
  - (* TArr *)
    cbn [ser twf lib_supports_t tdepth_t] in *. destruct Hw as [Hw Hwl]. destruct Hs as [Hsl Hlen].
    apply fix_Forall in Hwl. apply fix_Forall in Hsl.
    assert (Hok : Forall (dec_ok D) l) by (rewrite Forall_forall in *; intros x Hx; apply dec_ser; auto).
    assert (Her : Forall (dec_err D) l) by (rewrite Forall_forall in *; intros x Hx; apply H; auto).
    rewrite shead_cons. rewrite <- app_assoc. cbn [app]. rewrite dec_S. unfold dec_body.
    pose proof (ai_of_le _ _ Hw). rewrite kind_head by lia. rewrite (proj1 (proj2 (proj2 (proj2 (proj2 kind_vals))))). cbv iota.
    rewrite (head_neq 4 _ bdIndefArray) by (assumption || reflexivity).
    rewrite hd_mod by lia.
    erewrite fst_bindI by (rewrite fst_liftI; apply dec_len_head; assumption). cbv beta iota.
    unfold depth_ok. destruct (d + 1 <? maxdepth D)%Z eqn:E; [| reflexivity]. apply Z.ltb_lt in E.
    rewrite app_length, shead_cons in Hf. cbn [length] in Hf.
    apply fst_bindI_err. apply arr_def_err; [assumption | assumption | lia | lia | lia].
  - (* TArrI *)
    cbn [ser twf lib_supports_t tdepth_t] in *. destruct Hs as [Hsl Hlen].
    apply fix_Forall in Hw. apply fix_Forall in Hsl.
    assert (Hok : Forall (dec_ok D) l) by (rewrite Forall_forall in *; intros x Hx; apply dec_ser; auto).
    assert (Her : Forall (dec_err D) l) by (rewrite Forall_forall in *; intros x Hx; apply H; auto).
    cbn [app]. rewrite dec_S. unfold dec_body.
    change (kind_of 159) with KArr. cbv iota. change (159 =? bdIndefArray) with true. cbv iota.
    unfold depth_ok. destruct (d + 1 <? maxdepth D)%Z eqn:E; [| reflexivity]. apply Z.ltb_lt in E.
    rewrite !app_length in Hf. cbn [length] in Hf. rewrite <- app_assoc. cbn [app].
    apply fst_bindI_err. apply arr_indef_err; [assumption | assumption | assumption | lia | lia | lia].
  - (* TMap *)
    cbn [ser twf lib_supports_t tdepth_t] in *. destruct Hw as [Hw Hwl]. destruct Hs as (Hsl & Hkeys & Hlen).
    apply fix_Forall2 in Hwl. apply fix_Forall2 in Hsl.
    assert (Hok : Forall (fun kv => dec_ok D (fst kv) /\ dec_ok D (snd kv)) l).
    { rewrite Forall_forall in *. intros x Hx. specialize (Hwl x Hx). specialize (Hsl x Hx). split; apply dec_ser; tauto. }
    assert (Her : Forall (fun kv => dec_err D (fst kv) /\ dec_err D (snd kv)) l).
    { rewrite Forall_forall in *. intros x Hx. specialize (H x Hx). specialize (Hwl x Hx). specialize (Hsl x Hx). split; [apply (proj1 H) | apply (proj2 H)]; tauto. }
    rewrite shead_cons. rewrite <- app_assoc. cbn [app]. rewrite dec_S. unfold dec_body.
    pose proof (ai_of_le _ _ Hw). rewrite kind_head by lia. rewrite (proj1 (proj2 (proj2 (proj2 (proj2 (proj2 kind_vals)))))). cbv iota.
    rewrite (head_neq 5 _ bdIndefMap) by (assumption || reflexivity).
    rewrite hd_mod by lia.
    erewrite fst_bindI by (rewrite fst_liftI; apply dec_len_head; assumption). cbv beta iota.
    unfold depth_ok. destruct (d + 1 <? maxdepth D)%Z eqn:E; [| reflexivity]. apply Z.ltb_lt in E.
    rewrite app_length, shead_cons in Hf. cbn [length] in Hf.
    change (flat_map (fun kv => ser (fst kv) ++ ser (snd kv)) l) with (flat_map pair_ser l) in *.
    apply fst_bindI_err. apply map_def_err; [assumption | assumption | assumption | lia | lia | unfold pair_depth; lia | assumption].
  - (* TMapI *)
    cbn [ser twf lib_supports_t tdepth_t] in *. destruct Hs as (Hsl & Hkeys & Hlen).
    apply fix_Forall2 in Hw. apply fix_Forall2 in Hsl.
    assert (Hok : Forall (fun kv => dec_ok D (fst kv) /\ dec_ok D (snd kv)) l).
    { rewrite Forall_forall in *. intros x Hx. specialize (Hw x Hx). specialize (Hsl x Hx). split; apply dec_ser; tauto. }
    assert (Her : Forall (fun kv => dec_err D (fst kv) /\ dec_err D (snd kv)) l).
    { rewrite Forall_forall in *. intros x Hx. specialize (H x Hx). specialize (Hw x Hx). specialize (Hsl x Hx). split; [apply (proj1 H) | apply (proj2 H)]; tauto. }
    cbn [app]. rewrite dec_S. unfold dec_body.
    change (kind_of 191) with KMap. cbv iota. change (191 =? bdIndefMap) with true. cbv iota.
    unfold depth_ok. destruct (d + 1 <? maxdepth D)%Z eqn:E; [| reflexivity]. apply Z.ltb_lt in E.
    rewrite !app_length in Hf. cbn [length] in Hf. rewrite <- app_assoc. cbn [app].
    change (flat_map (fun kv => ser (fst kv) ++ ser (snd kv)) l) with (flat_map pair_ser l) in *.
    apply fst_bindI_err. apply map_indef_err; [assumption | assumption | assumption | lia | lia | unfold pair_depth; lia | assumption].
  - (* TTag *)
    cbn [ser twf lib_supports_t tdepth_t] in *. destruct Hw as [Hw Hwv].
    destruct Hs as [[Ht Hsv] | (Ht & Hsv & Htx)]; [| subst t; cbn [N.eqb] in Hm; lia].
    replace (t =? 0) with false in * by (symmetry; apply N.eqb_neq; lia).
    rewrite shead_cons. rewrite <- app_assoc. cbn [app]. rewrite dec_S. unfold dec_body.
    pose proof (ai_of_le _ _ Hw). rewrite kind_head by lia.
    rewrite (proj1 (proj2 (proj2 (proj2 (proj2 (proj2 (proj2 kind_vals))))))). cbv iota.
    rewrite hd_mod by lia.
    erewrite fst_bindI by (rewrite fst_liftI; apply read_uint_head; assumption). cbv beta iota.
    rewrite dec_tag_plain by assumption.
    rewrite app_length, shead_cons in Hf. cbn [length] in Hf.
    destruct ((t =? 55799) || do_skiptags D).
    + apply IHt; [assumption | assumption | lia | lia | lia].
    + unfold depth_ok. destruct (d + 1 <? maxdepth D)%Z eqn:E; [| reflexivity]. apply Z.ltb_lt in E.
      apply fst_bindI_err. apply IHt; [assumption | assumption | lia | lia | lia].
Qed.

(* ---- the skip walker ---- *)
Definition skip_err (D : dopts) (t : wtree) : Prop :=
  forall f d r rest, (2 * length (ser t) + 1 <= f)%nat -> (d < maxdepth D)%Z ->
  (maxdepth D <= d + sdepth t)%Z ->
  fst (skipw D f d r (ser t ++ rest)) = Err EDepth.

Lemma skip_n_err : forall D l, Forall (skip_ok D) l -> Forall (skip_err D) l ->
  forall f d r rest, (2 * length (flat_map ser l) + 2 <= f)%nat -> (d < maxdepth D)%Z ->
  (maxdepth D <= d + fold_right (fun x m => Z.max (sdepth x) m) 0 l)%Z ->
  fst (skip_n D f d r (N.of_nat (length l)) (flat_map ser l ++ rest)) = Err EDepth.
Proof.
  intros D l H. induction H as [| x l Hx Hl IH]; intros He f d r rest Hf Hd Hm.
  - simpl in Hm. lia.
  - inversion He as [| ? ? Hex Hel]; subst.
    destruct f; [simpl in Hf; lia |]. rewrite skip_n_S.
    replace (N.of_nat (length (x :: l)) =? 0) with false by (symmetry; apply N.eqb_neq; cbn [length]; lia).
    cbn [flat_map] in *. rewrite app_length in Hf. rewrite <- app_assoc. cbn [fold_right] in Hm.
    pose proof (ser_len_pos x) as Hp.
    destruct (Z_lt_le_dec (d + sdepth x) (maxdepth D)) as [Hok | Hbad].
    + erewrite fst_bindI by (apply Hx; lia).
      replace (N.of_nat (length (x :: l)) - 1) with (N.of_nat (length l)) by (cbn [length]; lia).
      apply IH; [assumption | lia | lia | lia].
    + apply fst_bindI_err. apply Hex; lia.
Qed.

Lemma skip_indef_arr_err : forall D l, Forall (skip_ok D) l -> Forall (skip_err D) l -> Forall twf l ->
  forall f d r rest, (2 * length (flat_map ser l) + 2 <= f)%nat -> (d < maxdepth D)%Z ->
  (maxdepth D <= d + fold_right (fun x m => Z.max (sdepth x) m) 0 l)%Z ->
  fst (skip_indef D f d r false (flat_map ser l ++ 255 :: rest)) = Err EDepth.
Proof.
  intros D l H. induction H as [| x l Hx Hl IH]; intros He Hw f d r rest Hf Hd Hm.
  - simpl in Hm. lia.
  - inversion He as [| ? ? Hex Hel]; subst. inversion Hw as [| ? ? Hwx Hwl]; subst.
    destruct f; [simpl in Hf; lia |].
    cbn [flat_map] in *. rewrite app_length in Hf. rewrite <- app_assoc. cbn [fold_right] in Hm.
    pose proof (ser_len_pos x) as Hp.
    destruct (ser_hd x Hwx) as (bd & tl & E & Hne).
    assert (E2 : ser x ++ flat_map ser l ++ 255 :: rest = bd :: (tl ++ flat_map ser l ++ 255 :: rest)) by (rewrite E; reflexivity).
    rewrite E2. rewrite skip_indef_S.
    replace (bd =? bdBreak) with false by (symmetry; apply N.eqb_neq; exact Hne).
    rewrite <- E2.
    destruct (Z_lt_le_dec (d + sdepth x) (maxdepth D)) as [Hok | Hbad].
    + erewrite fst_bindI by (apply Hx; lia). erewrite fst_bindI by reflexivity.
      apply IH; [assumption | assumption | lia | lia | lia].
    + apply fst_bindI_err. apply Hex; lia.
Qed.

Lemma skip_indef_map_err : forall D l,
  Forall (fun kv => skip_ok D (fst kv) /\ skip_ok D (snd kv)) l ->
  Forall (fun kv => skip_err D (fst kv) /\ skip_err D (snd kv)) l ->
  Forall (fun kv => twf (fst kv) /\ twf (snd kv)) l ->
  forall f d r rest, (2 * length (flat_map pair_ser l) + 2 <= f)%nat -> (d < maxdepth D)%Z ->
  (maxdepth D <= d + fold_right (fun kv m => Z.max (Z.max (sdepth (fst kv)) (sdepth (snd kv))) m) 0 l)%Z ->
  fst (skip_indef D f d r true (flat_map pair_ser l ++ 255 :: rest)) = Err EDepth.
Proof.
  intros D l H. induction H as [| kv l [Hk Hv] Hl IH]; intros He Hw f d r rest Hf Hd Hm.
  - simpl in Hm. lia.
  - inversion He as [| ? ? [Hek Hev] Hel]; subst. inversion Hw as [| ? ? [Hwk Hwv] Hwl]; subst.
    destruct f; [simpl in Hf; lia |].
    cbn [flat_map] in *. unfold pair_ser at 1 in Hf. unfold pair_ser at 1.
    rewrite !app_length in Hf. rewrite <- !app_assoc. cbn [fold_right] in Hm.
    pose proof (ser_len_pos (fst kv)). pose proof (ser_len_pos (snd kv)).
    destruct (ser_hd (fst kv) Hwk) as (bd & tl & E & Hne).
    assert (E2 : ser (fst kv) ++ ser (snd kv) ++ flat_map pair_ser l ++ 255 :: rest
                 = bd :: (tl ++ ser (snd kv) ++ flat_map pair_ser l ++ 255 :: rest)) by (rewrite E; reflexivity).
    rewrite E2. rewrite skip_indef_S.
    replace (bd =? bdBreak) with false by (symmetry; apply N.eqb_neq; exact Hne).
    rewrite <- E2.
    destruct (Z_lt_le_dec (d + sdepth (fst kv)) (maxdepth D)) as [Hok1 | Hbad1].
    + erewrite fst_bindI by (apply Hk; lia).
      destruct (Z_lt_le_dec (d + sdepth (snd kv)) (maxdepth D)) as [Hok2 | Hbad2].
      * erewrite fst_bindI by (apply Hv; lia). apply IH; [assumption | assumption | lia | lia | lia].
      * apply fst_bindI_err. apply Hev; lia.
    + apply fst_bindI_err. apply Hek; lia.
Qed.

Lemma fold_flat_pairs : forall l : list (wtree * wtree),
  fold_right (fun x m => Z.max (sdepth x) m) 0%Z (flat_map (fun kv => [fst kv; snd kv]) l)
  = fold_right (fun kv m => Z.max (Z.max (sdepth (fst kv)) (sdepth (snd kv))) m) 0%Z l.
Proof. induction l; cbn [flat_map app fold_right]; [reflexivity | rewrite IHl; lia]. Qed.

Theorem skip_ser_err : forall D t, twf t -> skippable t -> skip_err D t.
Proof.
  intros D t. induction t using wtree_ind'; intros Hw Hs f d r rest Hf Hd Hm;
    try (cbn [sdepth] in Hm; lia);
    (destruct f as [| f']; [exfalso; lia |]).
  - (* TArr *)
    cbn [ser twf skippable sdepth] in *. destruct Hw as [Hw Hwl]. apply fix_Forall in Hwl. apply fix_Forall in Hs.
    assert (Hok : Forall (skip_ok D) l) by (rewrite Forall_forall in *; intros x Hx; apply skip_ser; auto).
    assert (Her : Forall (skip_err D) l) by (rewrite Forall_forall in *; intros x Hx; apply H; auto).
    rewrite shead_cons. rewrite <- app_assoc. cbn [app]. rewrite skipw_S. unfold skip_body.
    pose proof (ai_of_le _ _ Hw). rewrite kind_head by lia. rewrite (proj1 (proj2 (proj2 (proj2 (proj2 kind_vals))))). cbv iota.
    unfold depth_ok. destruct (d + 1 <? maxdepth D)%Z eqn:E; cbn [negb]; [| reflexivity]. apply Z.ltb_lt in E.
    rewrite (head_neq 4 _ bdIndefArray) by (assumption || reflexivity).
    rewrite hd_mod by lia.
    erewrite fst_bindI by (rewrite fst_liftI; apply uint_bytes_head; assumption). cbv beta iota.
    rewrite app_length, shead_cons in Hf. cbn [length] in Hf.
    apply skip_n_err; [assumption | assumption | lia | lia | lia].
  - (* TArrI *)
    cbn [ser twf skippable sdepth] in *. apply fix_Forall in Hw. apply fix_Forall in Hs.
    assert (Hok : Forall (skip_ok D) l) by (rewrite Forall_forall in *; intros x Hx; apply skip_ser; auto).
    assert (Her : Forall (skip_err D) l) by (rewrite Forall_forall in *; intros x Hx; apply H; auto).
    cbn [app]. rewrite skipw_S. unfold skip_body.
    change (kind_of 159) with KArr. cbv iota.
    unfold depth_ok. destruct (d + 1 <? maxdepth D)%Z eqn:E; cbn [negb]; [| reflexivity]. apply Z.ltb_lt in E.
    change (159 =? bdIndefArray) with true. cbv iota.
    rewrite !app_length in Hf. cbn [length] in Hf. rewrite <- app_assoc. cbn [app].
    apply skip_indef_arr_err; [assumption | assumption | assumption | lia | lia | lia].
  - (* TMap *)
    cbn [ser twf skippable sdepth] in *. destruct Hw as [Hw Hwl]. apply fix_Forall2 in Hwl. apply fix_Forall2 in Hs.
    assert (Hok : Forall (skip_ok D) (flat_map (fun kv => [fst kv; snd kv]) l)).
    { rewrite Forall_forall in *. intros x Hx. apply in_flat_map in Hx. destruct Hx as (kv & Hkv & Hx).
      specialize (Hwl kv Hkv). specialize (Hs kv Hkv).
      destruct Hx as [Hx | [Hx | []]]; subst x; apply skip_ser; tauto. }
    assert (Her : Forall (skip_err D) (flat_map (fun kv => [fst kv; snd kv]) l)).
    { rewrite Forall_forall in *. intros x Hx. apply in_flat_map in Hx. destruct Hx as (kv & Hkv & Hx).
      specialize (H kv Hkv). specialize (Hwl kv Hkv). specialize (Hs kv Hkv).
      destruct Hx as [Hx | [Hx | []]]; subst x; [apply (proj1 H) | apply (proj2 H)]; tauto. }
    rewrite shead_cons. rewrite <- app_assoc. cbn [app]. rewrite skipw_S. unfold skip_body.
    pose proof (ai_of_le _ _ Hw). rewrite kind_head by lia. rewrite (proj1 (proj2 (proj2 (proj2 (proj2 (proj2 kind_vals)))))). cbv iota.
    unfold depth_ok. destruct (d + 1 <? maxdepth D)%Z eqn:E; cbn [negb]; [| reflexivity]. apply Z.ltb_lt in E.
    rewrite (head_neq 5 _ bdIndefMap) by (assumption || reflexivity).
    rewrite hd_mod by lia.
    erewrite fst_bindI by (rewrite fst_liftI; apply uint_bytes_head; assumption). cbv beta iota.
    rewrite app_length, shead_cons in Hf. cbn [length] in Hf.
    change (flat_map (fun kv => ser (fst kv) ++ ser (snd kv)) l) with (flat_map pair_ser l) in *.
    rewrite pairs_flat in *.
    replace (2 * N.of_nat (length l)) with (N.of_nat (length (flat_map (fun kv => [fst kv; snd kv]) l))) by (rewrite pairs_flat_len; lia).
    apply skip_n_err; [assumption | assumption | lia | lia | rewrite fold_flat_pairs; lia].
  - (* TMapI *)
    cbn [ser twf skippable sdepth] in *. apply fix_Forall2 in Hw. apply fix_Forall2 in Hs.
    assert (Hok : Forall (fun kv => skip_ok D (fst kv) /\ skip_ok D (snd kv)) l).
    { rewrite Forall_forall in *. intros x Hx. specialize (Hw x Hx). specialize (Hs x Hx). split; apply skip_ser; tauto. }
    assert (Her : Forall (fun kv => skip_err D (fst kv) /\ skip_err D (snd kv)) l).
    { rewrite Forall_forall in *. intros x Hx. specialize (H x Hx). specialize (Hw x Hx). specialize (Hs x Hx). split; [apply (proj1 H) | apply (proj2 H)]; tauto. }
    cbn [app]. rewrite skipw_S. unfold skip_body.
    change (kind_of 191) with KMap. cbv iota.
    unfold depth_ok. destruct (d + 1 <? maxdepth D)%Z eqn:E; cbn [negb]; [| reflexivity]. apply Z.ltb_lt in E.
    change (191 =? bdIndefMap) with true. cbv iota.
    rewrite !app_length in Hf. cbn [length] in Hf. rewrite <- app_assoc. cbn [app].
    change (flat_map (fun kv => ser (fst kv) ++ ser (snd kv)) l) with (flat_map pair_ser l) in *.
    apply skip_indef_map_err; [assumption | assumption | assumption | lia | lia | lia].
  - (* TTag *)
    cbn [ser twf skippable sdepth] in *. destruct Hw as [Hw Hwv].
    rewrite shead_cons. rewrite <- app_assoc. cbn [app]. rewrite skipw_S. unfold skip_body.
    pose proof (ai_of_le _ _ Hw). rewrite kind_head by lia.
    rewrite (proj1 (proj2 (proj2 (proj2 (proj2 (proj2 (proj2 kind_vals))))))). cbv iota.
    rewrite hd_mod by lia.
    erewrite fst_bindI by (rewrite fst_liftI; apply uint_bytes_head; assumption). cbv beta iota.
    unfold depth_ok. destruct (d + 1 <? maxdepth D)%Z eqn:E; cbn [negb]; [| reflexivity]. apply Z.ltb_lt in E.
    rewrite app_length, shead_cons in Hf. cbn [length] in Hf.
    apply IHt; [assumption | assumption | lia | lia | lia].
Qed.

(* ---- statements for Properties/C10_cbor.v ---- *)
Lemma maxdepth_pos : forall D, (0 < maxdepth D)%Z.
Proof. intros D. unfold maxdepth. destruct (0 <? do_maxdepth D)%Z eqn:E; [apply Z.ltb_lt in E; lia | reflexivity]. Qed.

Lemma dec_depth_err_t_lemma : forall (D : dopts) (t : wtree) (rest : list N),
  twf t -> lib_supports_t D t -> (maxdepth D <= tdepth_t D t)%Z ->
  dec_naked D (fuel_for (ser t ++ rest)) (ser t ++ rest) = Err EDepth.
Proof.
  intros D t rest Hw Hs Hm. unfold dec_naked. pose proof (maxdepth_pos D). apply dec_ser_err; try assumption.
  all: try (unfold fuel_for; rewrite app_length; lia).
  all: lia.
Qed.

Lemma dec_depth_err_lemma : forall (D : dopts) (t : wtree) (rest : list N),
  twf t -> lib_supports D t -> (maxdepth D <= tdepth D t)%Z ->
  dec_naked D (fuel_for (ser t ++ rest)) (ser t ++ rest) = Err EDepth.
Proof.
  intros D t rest Hw Hs Hm. destruct (compat_t D t Hs) as (C1 & C2 & C3).
  apply dec_depth_err_t_lemma; [assumption | assumption | lia].
Qed.

Lemma skip_depth_err_lemma : forall (D : dopts) (t : wtree) (d : Z) (rest : list N),
  twf t -> skippable t -> (0 <= d < maxdepth D)%Z -> (maxdepth D <= d + sdepth t)%Z ->
  skip D (fuel_for (ser t ++ rest)) d (ser t ++ rest) = Err EDepth.
Proof.
  intros D t d rest Hw Hs Hd Hm. unfold skip. apply skip_ser_err; try assumption.
  all: try (unfold fuel_for; rewrite app_length; lia).
  all: lia.
Qed.

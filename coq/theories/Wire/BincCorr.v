(* Wire/BincCorr — correspondence: evaluate the binc model on the cases the harness
   (harness/cmd/wirebinc) ran against the real Encoder / Decoder and report the ids
   that differ. *)
From Coq Require Import List NArith ZArith Bool.
From Verif Require Import Base.Outcome Wire.Item Wire.Binc.
Import ListNotations.
Local Open Scope bool_scope.
Local Open Scope N_scope.

Record case := mkcase {
  cid : N;
  ckind : N;                 (* 0: encode a sequence on one Encoder; 1: run Decode calls on one Decoder *)
  ceo : eopts;
  cdo : dopts;
  citems : list item;        (* kind 0: the values given to successive Encode calls *)
  cbytes : list N;           (* kind 0: the bytes the Encoder produced; kind 1: the input *)
  cmodes : list bool;        (* kind 1: per call, true = Decode(&Raw) i.e. nextValueBytes, false = Decode(&interface{}) *)
  o_items : list item;       (* kind 1: value of each successful call (INil for a Raw call) *)
  o_nread : list N;          (* kind 1: NumBytesRead after each successful call *)
  o_err : N }.               (* kind 1: class of the first failing call: 0 none, 1 eof, 4 depth, 8 other *)

Definition errcode (e : eclass) : N :=
  match e with EEof => 1 | EDepth => 4 | _ => 8 end.

(* model value vs observed value; maps are unordered on the observed side *)
Fixpoint eqm (a b : item) {struct a} : bool :=
  match a, b with
  | INil, INil => true
  | IBool x, IBool y => Bool.eqb x y
  | IInt x, IInt y => (x =? y)%Z
  | IUint x, IUint y => x =? y
  | IF64 x, IF64 y => x =? y
  | IStr x, IStr y => bytes_eqb x y
  | IBytes x, IBytes y => bytes_eqb x y
  | IExt t x, IExt t' y => (t =? t') && bytes_eqb x y
  | ITime s n, ITime s' n' => (s =? s')%Z && (n =? n')
  | IArr l, IArr l' =>
      (fix go (l l' : list item) : bool :=
         match l, l' with
         | [], [] => true
         | x :: r, y :: r' => eqm x y && go r r'
         | _, _ => false
         end) l l'
  | IMap l, IMap l' =>
      Nat.eqb (length l) (length l') &&
      (fix go (l : list (item * item)) : bool :=
         match l with
         | [] => true
         | kv :: r => existsb (fun kv' => eqm (fst kv) (fst kv') && eqm (snd kv) (snd kv')) l' && go r
         end) l
  | _, _ => false
  end.

Fixpoint eqml (a b : list item) : bool :=
  match a, b with
  | [], [] => true
  | x :: r, y :: r' => eqm x y && eqml r r'
  | _, _ => false
  end.

Fixpoint eqnl (a b : list N) : bool :=
  match a, b with
  | [] , [] => true
  | x :: r, y :: r' => (x =? y) && eqnl r r'
  | _, _ => false
  end.

(* successive calls on one Decoder until the first failure *)
(* r_dup: the run met a repeated map key (Err EUser): outside the model, not compared *)
Record runres := { r_items : list item; r_nread : list N; r_err : N; r_dup : bool }.

Fixpoint run (o : dopts) (total : N) (modes : list bool) (st : dstate) (inp : list N) : runres :=
  match modes with
  | [] => {| r_items := []; r_nread := []; r_err := 0; r_dup := false |}
  | m :: ms =>
      let r := if m then (do (_, rest, st') <- skip_value o st inp ;; Ok (INil, rest, st'))
               else dec_naked o st inp in
      match r with
      | Ok (x, rest, st') =>
          let t := run o total ms st' rest in
          {| r_items := x :: r_items t; r_nread := (total - len rest) :: r_nread t;
             r_err := r_err t; r_dup := r_dup t |}
      | Err EUser => {| r_items := []; r_nread := []; r_err := 7; r_dup := true |}
      | Err e => {| r_items := []; r_nread := []; r_err := errcode e; r_dup := false |}
      | OutOfFuel => {| r_items := []; r_nread := []; r_err := 99; r_dup := false |}
      end
  end.

Definition check_case (c : case) : bool :=
  if ckind c =? 0 then
    eqnl (fst (enc_seq (ceo c) (citems c) estate0)) (cbytes c)
  else
    let r := run (cdo c) (len (cbytes c)) (cmodes c) dstate0 (cbytes c) in
    r_dup r ||
    (eqml (r_items r) (o_items c) && eqnl (r_nread r) (o_nread c) && (r_err r =? o_err c)).

Definition mismatches (cs : list case) : list N :=
  map cid (filter (fun c => negb (check_case c)) cs).

(* Wire/SimpleCorr — correspondence: evaluate the model on what harness/cmd/wiresimple
   observed of the real Encoder / Decoder and list the case ids that differ. *)
From Coq Require Import List NArith ZArith Bool.
From Verif Require Import Base.Outcome Wire.Item Gen.Consts Wire.Simple.
Import ListNotations.
Open Scope bool_scope.
Open Scope N_scope.

(* equality of observed trees; map entries as an unordered collection (the harness
   lists a Go map in its own canonical order) *)
Fixpoint ieq (a b : item) : bool :=
  match a, b with
  | INil, INil => true
  | IBool x, IBool y => Bool.eqb x y
  | IInt x, IInt y => Z.eqb x y
  | IUint x, IUint y => N.eqb x y
  | IF32 x, IF32 y => N.eqb x y
  | IF64 x, IF64 y => N.eqb x y
  | IStr x, IStr y => eqbl x y
  | IBytes x, IBytes y => eqbl x y
  | IExt t x, IExt u y => N.eqb t u && eqbl x y
  | ITime s n, ITime s' n' => Z.eqb s s' && N.eqb n n'
  | ITag t x, ITag u y => N.eqb t u && ieq x y
  | IArr l, IArr m =>
      (fix go (l m : list item) : bool :=
         match l, m with
         | [], [] => true
         | x :: l', y :: m' => ieq x y && go l' m'
         | _, _ => false
         end) l m
  | IMap l, IMap m =>
      Nat.eqb (length l) (length m) &&
      (fix all (l : list (item * item)) : bool :=
         match l with
         | [] => true
         | kv :: l' =>
             (fix any (m : list (item * item)) : bool :=
                match m with
                | [] => false
                | kv' :: m' => (ieq (fst kv) (fst kv') && ieq (snd kv) (snd kv')) || any m'
                end) m && all l'
         end) l
  | _, _ => false
  end.

(* a Go map keeps the last assignment per key (key included: interface keys are updated) *)
Fixpoint dedupe (l : list (item * item)) : list (item * item) :=
  match l with
  | [] => []
  | kv :: r => if existsb (fun kv' => keyeq (fst kv) (fst kv')) r then dedupe r else kv :: dedupe r
  end.

Fixpoint goview (i : item) : item :=
  match i with
  | IArr l => IArr (map goview l)
  | IMap l => IMap (dedupe (map (fun kv => (goview (fst kv), goview (snd kv))) l))
  | _ => i
  end.

(* what the model does not exhibit of a decoded value: time.Time whose nanosecond field
   spills into the wall-clock flag bits, and Location identity of time keys *)
Fixpoint weird (i : item) : bool :=
  match i with
  | ITime _ n => 2 ^ 30 <=? n
  | IArr l => existsb weird l
  | IMap l => existsb (fun kv => weird (fst kv) || weird (snd kv)) l
              || (1 <? length (filter (fun kv => match fst kv with ITime _ _ => true | _ => false end) l))%nat
  | _ => false
  end.

(* error classes as the harness reports them: 1 eof, 2 bad descriptor, 3 overflow, 4 depth, 8 other *)
Definition ocode (e : eclass) : N :=
  match e with EEof => 1 | EBadDesc => 2 | EOverflow => 3 | EDepth => 4 | _ => 8 end.

Inductive case :=
| CEnc (id : N) (o : eopts) (i : item) (bytes : list N)
| CDec (id : N) (D : dopts) (input : list N) (oclass : N) (numread : N) (tree : item)
| CSkip (id : N) (D : dopts) (depth0 : Z) (prefix input : list N) (oclass : N) (numread : N) (checkraw : bool) (rawb : list N).

Definition cid (c : case) : N :=
  match c with CEnc id _ _ _ => id | CDec id _ _ _ _ _ => id | CSkip id _ _ _ _ _ _ _ _ => id end.

Definition check_case (c : case) : bool :=
  match c with
  | CEnc _ o i bytes => eqbl (enc o false i) bytes
  | CDec _ D input oclass numread tree =>
      match dec_naked_i D (dec_fuel input) input with
      | (Ok (t, rest), _) =>
          (oclass =? 0) && (numread + llen rest =? llen input) && (weird t || ieq (goview t) tree)
      | (Err EUnsupported, _) => true        (* repeated map key: typed decode into the old value, not modelled *)
      | (Err e, _) => oclass =? ocode e
      | (OutOfFuel, _) => oclass =? 100      (* the harness reports a hang as 100 *)
      end
  | CSkip _ D depth0 prefix input oclass numread checkraw rawb =>
      match nvb D (dec_fuel input) depth0 (rd_at prefix input) with
      | Ok (v, z) => (oclass =? 0) && (numread =? rd_cur z) && (negb checkraw || eqbl v rawb)
      | Err e => oclass =? ocode e
      | OutOfFuel => oclass =? 100
      end
  end.

Definition mismatches (cs : list case) : list N :=
  map cid (filter (fun c => negb (check_case c)) cs).

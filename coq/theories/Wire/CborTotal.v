(* Wire/CborTotal — progress and totality of the two cbor parsers of the model, for EVERY input:
   a successful decode / skip returns a strict suffix of its input, and with fuel
   [fuel_for b = 2 * length b + 2] neither ever runs out of fuel. *)
From Coq Require Import List NArith ZArith Lia Bool Arith.
From Coq Require Import ZifyN ZifyNat ZifyBool.
From Verif Require Import Base.Outcome Wire.Item Gen.Consts Wire.CborFloat Wire.Cbor.
Import ListNotations.
Open Scope N_scope.

(* b' is what remains of b after at least k bytes were consumed *)
Definition adv (k : nat) (b' b : list N) : Prop := exists p, b = p ++ b' /\ (k <= length p)%nat.

Lemma adv_refl : forall b, adv 0 b b.
Proof. intros. exists []. split; [reflexivity | simpl; lia]. Qed.
Lemma adv_trans : forall k1 k2 x y z, adv k1 y x -> adv k2 z y -> adv (k1 + k2) z x.
Proof.
  intros k1 k2 x y z (p & -> & Hp) (q & -> & Hq). exists (p ++ q). rewrite app_assoc, app_length. split; [reflexivity | lia].
Qed.
Lemma adv_cons : forall k b' b x, adv k b' b -> adv (S k) b' (x :: b).
Proof. intros k b' b x (p & -> & Hp). exists (x :: p). split; [reflexivity | simpl; lia]. Qed.
Lemma adv_le : forall k k' b' b, adv k b' b -> (k' <= k)%nat -> adv k' b' b.
Proof. intros k k' b' b (p & -> & Hp) H. exists p. split; [reflexivity | lia]. Qed.
Lemma adv_len : forall k b' b, adv k b' b -> (length b' + k <= length b)%nat.
Proof. intros k b' b (p & -> & Hp). rewrite app_length. lia. Qed.

Ltac chainE :=
  first [ eassumption | apply adv_refl
        | match goal with H : adv _ ?y ?x |- adv _ _ ?x => eapply adv_trans; [exact H | chainE] end ].
Ltac chain := eapply adv_le; [ first [ apply adv_cons; chainE | chainE ] | cbn; lia ].

(* ---- inversion of the monads ---- *)
Lemma bind_ok {A B} : forall (m : res A) (k : A -> res B) y, bind m k = Ok y -> exists a, m = Ok a /\ k a = Ok y.
Proof. intros m k y H. destruct m; cbn in H; try discriminate. eauto. Qed.
Lemma bind_oof {A B} : forall (m : res A) (k : A -> res B), bind m k = OutOfFuel -> m = OutOfFuel \/ exists a, m = Ok a /\ k a = OutOfFuel.
Proof. intros m k H. destruct m; cbn in H; try discriminate; eauto. Qed.
Lemma bindI_ok {A B} : forall (m : resI A) (k : A -> resI B) y, fst (bindI m k) = Ok y -> exists a, fst m = Ok a /\ fst (k a) = Ok y.
Proof. intros m k y H. unfold bindI in H. destruct (fst m); cbn in H; try discriminate. eauto. Qed.
Lemma bindI_oof {A B} : forall (m : resI A) (k : A -> resI B), fst (bindI m k) = OutOfFuel -> fst m = OutOfFuel \/ exists a, fst m = Ok a /\ fst (k a) = OutOfFuel.
Proof. intros m k H. unfold bindI in H. destruct (fst m); cbn in H; try discriminate; eauto. Qed.

(* ---- primitives: progress ---- *)
Lemma take_adv : forall n b x b', take n b = Ok (x, b') -> adv 0 b' b.
Proof.
  intros n b x b' H. unfold take in H. destruct (N.of_nat (length b) <? n); [discriminate |].
  inversion H; subst. exists (firstn (N.to_nat n) b). split; [symmetry; apply firstn_skipn | lia].
Qed.
Lemma rskip_adv : forall n b b', rskip n b = Ok b' -> adv 0 b' b.
Proof.
  intros n b b' H. unfold rskip in H. destruct (N.of_nat (length b) <? n); [discriminate |].
  inversion H; subst. exists (firstn (N.to_nat n) b). split; [symmetry; apply firstn_skipn | lia].
Qed.

Ltac inv_ok H := inversion H; subst; clear H.

Lemma read_uint_adv : forall a b u b', read_uint a b = Ok (u, b') -> adv 0 b' b.
Proof.
  intros a b u b' H. unfold read_uint in H.
  repeat match type of H with (if ?c then _ else _) = _ => destruct c end;
    try discriminate; try (inv_ok H; apply adv_refl);
    apply bind_ok in H; destruct H as ([x b2] & E & H); inv_ok H; eapply take_adv; eassumption.
Qed.
Lemma dec_len_adv : forall a b u b', dec_len a b = Ok (u, b') -> adv 0 b' b.
Proof.
  intros a b u b' H. unfold dec_len in H. apply bind_ok in H. destruct H as ([x b2] & E & H).
  destruct (9223372036854775808 <=? x); [discriminate |]. inv_ok H. eapply read_uint_adv; eassumption.
Qed.
Lemma uint_bytes_adv : forall a b u b', uint_bytes a b = Ok (u, b') -> adv 0 b' b.
Proof.
  intros a b u b' H. unfold uint_bytes in H.
  repeat match type of H with (if ?c then _ else _) = _ => destruct c end;
    try discriminate; try (inv_ok H; apply adv_refl);
    apply bind_ok in H; destruct H as ([x b2] & E & H); inv_ok H; eapply take_adv; eassumption.
Qed.

Lemma dec_tag_int_adv : forall b i b', dec_tag_int b = Ok (i, b') -> adv 1 b' b.
Proof.
  intros b i b' H. unfold dec_tag_int in H. destruct b as [| bd b1]; [discriminate |].
  destruct (bd / 32 <=? majNegInt); [| discriminate].
  apply bind_ok in H. destruct H as ([u b2] & E & H). apply read_uint_adv in E.
  apply bind_ok in H. destruct H as (j & _ & H). inv_ok H. chain.
Qed.

Lemma dec_chunks_adv : forall f mt b s b', dec_chunks f mt b = Ok (s, b') -> adv 1 b' b.
Proof.
  induction f; intros mt b s b' H; [discriminate |].
  cbn [dec_chunks] in H. destruct b as [| bd b1]; [discriminate |].
  destruct (bd =? bdBreak). { inv_ok H. chain. }
  destruct (negb (bd / 32 =? mt)); [discriminate |].
  apply bind_ok in H. destruct H as ([n b2] & E1 & H). apply dec_len_adv in E1.
  apply bind_ok in H. destruct H as ([c b3] & E2 & H). apply take_adv in E2.
  apply bind_ok in H. destruct H as ([cs b4] & E3 & H). apply IHf in E3. inv_ok H. chain.
Qed.

Lemma dec_str_body_adv : forall f bd b1 s b', dec_str_body f bd b1 = Ok (s, b') -> adv 0 b' b1.
Proof.
  intros f bd b1 s b' H. unfold dec_str_body in H. destruct ((bd =? bdIndefBytes) || (bd =? bdIndefString)).
  - apply dec_chunks_adv in H. chain.
  - apply bind_ok in H. destruct H as ([n b2] & E1 & H). apply dec_len_adv in E1. apply take_adv in H. chain.
Qed.

Lemma skip_tags_adv : forall f bd b bd' b', skip_tags f bd b = Ok (bd', b') -> adv 0 b' b.
Proof.
  induction f; intros bd b bd' b' H; [discriminate |].
  cbn [skip_tags] in H. destruct (bd / 32 =? majTag).
  - apply bind_ok in H. destruct H as ([u b1] & E1 & H). apply read_uint_adv in E1.
    destruct b1 as [| x b2]; [discriminate |]. apply IHf in H.
    assert (adv 1 b2 (x :: b2)) by (apply adv_cons, adv_refl). chain.
  - inv_ok H. apply adv_refl.
Qed.

Lemma dec_float64_adv : forall D f b x b', dec_float64 D f b = Ok (x, b') -> adv 1 b' b.
Proof.
  intros D f b x b' H. unfold dec_float64 in H. destruct b as [| bd0 b0]; [discriminate |].
  destruct ((bd0 =? bdNil) || (bd0 =? bdUndefined)). { inv_ok H. chain. }
  apply bind_ok in H. destruct H as ([bd b1] & E1 & H).
  assert (A1 : adv 0 b1 b0).
  { destruct (do_skiptags D); [eapply skip_tags_adv; eassumption | inv_ok E1; apply adv_refl]. }
  repeat match type of H with (if ?c then _ else _) = _ => destruct c end; try discriminate.
  - apply bind_ok in H. destruct H as ([y b2] & E & H). inv_ok H. apply take_adv in E. chain.
  - apply bind_ok in H. destruct H as ([y b2] & E & H). inv_ok H. apply take_adv in E. chain.
  - apply bind_ok in H. destruct H as ([y b2] & E & H). inv_ok H. apply take_adv in E. chain.
  - apply bind_ok in H. destruct H as ([u b2] & E & H). apply read_uint_adv in E.
    destruct (bd / 32 =? majNegInt).
    + apply bind_ok in H. destruct H as (i & _ & H). inv_ok H. chain.
    + inv_ok H. chain.
Qed.

Lemma dec_bytes_fresh_adv : forall D f b s b', dec_bytes_fresh D f b = Ok (s, b') -> adv 1 b' b.
Proof.
  intros D f b s b' H. unfold dec_bytes_fresh in H. destruct b as [| bd0 b0]; [discriminate |].
  destruct ((bd0 =? bdNil) || (bd0 =? bdUndefined)). { inv_ok H. chain. }
  apply bind_ok in H. destruct H as ([bd b1] & E1 & H).
  assert (A1 : adv 0 b1 b0).
  { destruct (do_skiptags D); [eapply skip_tags_adv; eassumption | inv_ok E1; apply adv_refl]. }
  destruct ((bd / 32 =? majBytes) || (bd / 32 =? majString)); [| discriminate].
  apply dec_str_body_adv in H. chain.
Qed.

Lemma skip_chunks_adv : forall f b b', skip_chunks f b = Ok b' -> adv 1 b' b.
Proof.
  induction f; intros b b' H; [discriminate |].
  cbn [skip_chunks] in H. destruct b as [| bd b1]; [discriminate |].
  destruct (bd =? bdBreak). { inv_ok H. chain. }
  apply bind_ok in H. destruct H as ([u b2] & E1 & H). apply uint_bytes_adv in E1.
  apply bind_ok in H. destruct H as (b3 & E2 & H). apply rskip_adv in E2. apply IHf in H. chain.
Qed.

(* ---- breaking a successful run into its steps ---- *)
Ltac split_pair a :=
  lazymatch type of a with
  | (_ * _)%type => let x := fresh "x" in let y := fresh "bb" in destruct a as [x y]; try split_pair x
  | _ => idtac
  end.

Ltac learn_prim E :=
  first [ apply take_adv in E | apply rskip_adv in E | apply read_uint_adv in E | apply dec_len_adv in E
        | apply uint_bytes_adv in E | apply dec_tag_int_adv in E | apply dec_str_body_adv in E | apply dec_float64_adv in E
        | apply dec_bytes_fresh_adv in E | apply skip_chunks_adv in E | apply dec_chunks_adv in E | idtac ].

Ltac brk_ok H :=
  cbn [fst liftI] in H;
  lazymatch type of H with
  | Ok _ = Ok _ => inv_ok H
  | Err _ = Ok _ => discriminate H
  | OutOfFuel = Ok _ => discriminate H
  | bind _ _ = Ok _ =>
      let a := fresh "a" in let E := fresh "E" in
      apply bind_ok in H; destruct H as (a & E & H); split_pair a; learn_prim E; brk_ok H
  | fst (bindI _ _) = Ok _ =>
      let a := fresh "a" in let E := fresh "E" in
      apply bindI_ok in H; destruct H as (a & E & H); split_pair a; brk_ok E; brk_ok H
  | (if ?c then _ else _) = Ok _ => destruct c eqn:?; brk_ok H
  | fst (if ?c then _ else _) = Ok _ => destruct c eqn:?; brk_ok H
  | (match ?l with [] => _ | _ :: _ => _ end) = Ok _ => destruct l; brk_ok H
  | fst (match ?l with [] => _ | _ :: _ => _ end) = Ok _ => destruct l; brk_ok H
  | _ => learn_prim H
  end.

Section ProgBody.
  Variable D : dopts.
  Variable f' : nat.
  Variable self : Z -> nat -> list N -> resI (item * list N).
  Variable arrd : Z -> nat -> N -> list N -> resI (list item * list N).
  Variable arri : Z -> nat -> list N -> resI (list item * list N).
  Variable mapd : Z -> nat -> N -> list item -> list N -> resI (list (item * item) * list N).
  Variable mapi : Z -> nat -> list item -> list N -> resI (list (item * item) * list N).
  Hypothesis Pself : forall d r b x b', fst (self d r b) = Ok (x, b') -> adv 1 b' b.
  Hypothesis Parrd : forall d r n b l b', fst (arrd d r n b) = Ok (l, b') -> adv 0 b' b.
  Hypothesis Parri : forall d r b l b', fst (arri d r b) = Ok (l, b') -> adv 1 b' b.
  Hypothesis Pmapd : forall d r n s b l b', fst (mapd d r n s b) = Ok (l, b') -> adv 0 b' b.
  Hypothesis Pmapi : forall d r s b l b', fst (mapi d r s b) = Ok (l, b') -> adv 1 b' b.

  Ltac use_hyps :=
    repeat match goal with
           | H : fst (self _ _ _) = Ok _ |- _ => apply Pself in H
           | H : fst (arrd _ _ _ _) = Ok _ |- _ => apply Parrd in H
           | H : fst (arri _ _ _) = Ok _ |- _ => apply Parri in H
           | H : fst (mapd _ _ _ _ _) = Ok _ |- _ => apply Pmapd in H
           | H : fst (mapi _ _ _ _) = Ok _ |- _ => apply Pmapi in H
           end.

  Lemma dec_tag_adv : forall d r t b2 x b', fst (dec_tag D f' self d r t b2) = Ok (x, b') -> adv 0 b' b2.
  Proof. intros d r t b2 x b' H. unfold dec_tag in H. brk_ok H; use_hyps; chain. Qed.

  Lemma dec_simple_adv : forall r bd b1 x b', fst (dec_simple r bd b1) = Ok (x, b') -> adv 0 b' b1.
  Proof. intros r bd b1 x b' H. unfold dec_simple in H. brk_ok H; chain. Qed.

  Lemma dec_body_adv : forall d r bd b1 x b',
    fst (dec_body D f' self arrd arri mapd mapi d r bd b1) = Ok (x, b') -> adv 0 b' b1.
  Proof.
    intros d r bd b1 x b' H. unfold dec_body in H. destruct (kind_of bd).
    1-6: brk_ok H; use_hyps; chain.
    - apply bindI_ok in H. destruct H as ([t b2] & E & H). cbn [fst liftI] in E. apply read_uint_adv in E.
      apply dec_tag_adv in H. chain.
    - apply dec_simple_adv in H. exact H.
  Qed.

  Lemma map_entry_adv : forall d r seen b k v b',
    fst (map_entry self d r seen b) = Ok (k, v, b') -> adv 1 b' b.
  Proof. intros d r seen b k v b' H. unfold map_entry in H. brk_ok H; use_hyps; chain. Qed.
End ProgBody.

Theorem dec_prog : forall D f,
  (forall d r b x b', fst (dec D f d r b) = Ok (x, b') -> adv 1 b' b) /\
  (forall d r n b l b', fst (arr_def D f d r n b) = Ok (l, b') -> adv 0 b' b) /\
  (forall d r b l b', fst (arr_indef D f d r b) = Ok (l, b') -> adv 1 b' b) /\
  (forall d r n s b l b', fst (map_def D f d r n s b) = Ok (l, b') -> adv 0 b' b) /\
  (forall d r s b l b', fst (map_indef D f d r s b) = Ok (l, b') -> adv 1 b' b).
Proof.
  intros D. induction f as [| f' (IH1 & IH2 & IH3 & IH4 & IH5)].
  - repeat apply conj; intros; discriminate.
  - repeat apply conj.
    + intros d r b x b' H. cbn [dec] in H. destruct b as [| bd b1]; [discriminate |].
      eapply dec_body_adv in H; try eassumption. chain.
    + intros d r n b l b' H. cbn [arr_def] in H. destruct (n =? 0). { inv_ok H. apply adv_refl. }
      apply bindI_ok in H. destruct H as ([x b1] & E1 & H). apply IH1 in E1.
      apply bindI_ok in H. destruct H as ([xs b2] & E2 & H). apply IH2 in E2. inv_ok H. chain.
    + intros d r b l b' H. cbn [arr_indef] in H. destruct b as [| bd b1]; [discriminate |].
      destruct (bd =? bdBreak). { inv_ok H. chain. }
      apply bindI_ok in H. destruct H as ([x b2] & E1 & H). apply IH1 in E1.
      apply bindI_ok in H. destruct H as ([xs b3] & E2 & H). apply IH3 in E2. inv_ok H. chain.
    + intros d r n s b l b' H. cbn [map_def] in H. destruct (n =? 0). { inv_ok H. apply adv_refl. }
      apply bindI_ok in H. destruct H as ([[k v] b2] & E1 & H). assert (A : adv 1 b2 b) by (eapply map_entry_adv; try exact E1; eassumption).
      apply bindI_ok in H. destruct H as ([kvs b3] & E2 & H). apply IH4 in E2. inv_ok H. chain.
    + intros d r s b l b' H. cbn [map_indef] in H. destruct b as [| bd b0]; [discriminate |].
      destruct (bd =? bdBreak). { inv_ok H. chain. }
      apply bindI_ok in H. destruct H as ([[k v] b2] & E1 & H). assert (A : adv 1 b2 (bd :: b0)) by (eapply map_entry_adv; try exact E1; eassumption).
      apply bindI_ok in H. destruct H as ([kvs b3] & E2 & H). apply IH5 in E2. inv_ok H. chain.
Qed.

(* ---- the skip walker ---- *)
Section SkipProgBody.
  Variable D : dopts.
  Variable f' : nat.
  Variable self : Z -> nat -> list N -> resI (list N).
  Variable skn : Z -> nat -> N -> list N -> resI (list N).
  Variable ski : Z -> nat -> bool -> list N -> resI (list N).
  Hypothesis Pself : forall d r b b', fst (self d r b) = Ok b' -> adv 1 b' b.
  Hypothesis Pskn : forall d r n b b', fst (skn d r n b) = Ok b' -> adv 0 b' b.
  Hypothesis Pski : forall d r p b b', fst (ski d r p b) = Ok b' -> adv 1 b' b.

  Lemma skip_body_adv : forall d r bd b1 b',
    fst (skip_body D f' self skn ski d r bd b1) = Ok b' -> adv 0 b' b1.
  Proof.
    intros d r bd b1 b' H. unfold skip_body, skip_simple in H.
    destruct (kind_of bd); brk_ok H;
      repeat match goal with
             | H : fst (self _ _ _) = Ok _ |- _ => apply Pself in H
             | H : fst (skn _ _ _ _) = Ok _ |- _ => apply Pskn in H
             | H : fst (ski _ _ _ _) = Ok _ |- _ => apply Pski in H
             end; chain.
  Qed.
End SkipProgBody.

Theorem skip_prog : forall D f,
  (forall d r b b', fst (skipw D f d r b) = Ok b' -> adv 1 b' b) /\
  (forall d r n b b', fst (skip_n D f d r n b) = Ok b' -> adv 0 b' b) /\
  (forall d r p b b', fst (skip_indef D f d r p b) = Ok b' -> adv 1 b' b).
Proof.
  intros D. induction f as [| f' (IH1 & IH2 & IH3)].
  - repeat apply conj; intros; discriminate.
  - repeat apply conj.
    + intros d r b b' H. cbn [skipw] in H. destruct b as [| bd b1]; [discriminate |].
      eapply skip_body_adv in H; try eassumption. chain.
    + intros d r n b b' H. cbn [skip_n] in H. destruct (n =? 0). { inv_ok H. apply adv_refl. }
      apply bindI_ok in H. destruct H as (b1 & E1 & H). apply IH1 in E1. apply IH2 in H. chain.
    + intros d r p b b' H. cbn [skip_indef] in H. destruct b as [| bd b0]; [discriminate |].
      destruct (bd =? bdBreak). { inv_ok H. chain. }
      apply bindI_ok in H. destruct H as (b1 & E1 & H). apply IH1 in E1.
      apply bindI_ok in H. destruct H as (b2 & E2 & H). apply IH3 in H.
      destruct p; [apply IH1 in E2 | inv_ok E2]; chain.
Qed.

(* ------------------------------------------------------------------ *)
(* totality: no parser runs out of fuel when given fuel_for b *)

Lemma take_noof : forall n b, take n b = OutOfFuel -> False.
Proof. intros n b H. unfold take in H. destruct (N.of_nat (length b) <? n); discriminate. Qed.
Lemma rskip_noof : forall n b, rskip n b = OutOfFuel -> False.
Proof. intros n b H. unfold rskip in H. destruct (N.of_nat (length b) <? n); discriminate. Qed.
Lemma read_uint_noof : forall a b, read_uint a b = OutOfFuel -> False.
Proof.
  intros a b H. unfold read_uint in H.
  repeat match type of H with (if ?c then _ else _) = _ => destruct c end; try discriminate;
    apply bind_oof in H; destruct H as [H | ([x b2] & E & H)]; try discriminate; eapply take_noof; eassumption.
Qed.
Lemma dec_len_noof : forall a b, dec_len a b = OutOfFuel -> False.
Proof.
  intros a b H. unfold dec_len in H. apply bind_oof in H. destruct H as [H | ([x b2] & E & H)].
  - eapply read_uint_noof; eassumption.
  - destruct (9223372036854775808 <=? x); discriminate.
Qed.
Lemma uint_bytes_noof : forall a b, uint_bytes a b = OutOfFuel -> False.
Proof.
  intros a b H. unfold uint_bytes in H.
  repeat match type of H with (if ?c then _ else _) = _ => destruct c end; try discriminate;
    apply bind_oof in H; destruct H as [H | ([x b2] & E & H)]; try discriminate; eapply take_noof; eassumption.
Qed.
Lemma int64v_noof : forall u neg, int64v u neg = OutOfFuel -> False.
Proof. intros u neg H. unfold int64v in H. repeat match type of H with (if ?c then _ else _) = _ => destruct c end; discriminate. Qed.
Lemma time_of_unix_noof : forall s n, time_of_unix s n = OutOfFuel -> False.
Proof.
  intros s n H. unfold time_of_unix in H.
  match type of H with (if ?c then _ else _) = _ => destruct c end; [discriminate |].
  destruct (n <? 0)%Z; destruct (round_us _ _); discriminate.
Qed.
Lemma time_of_float_noof : forall x, time_of_float x = OutOfFuel -> False.
Proof. intros x H. unfold time_of_float in H. destruct (f64_exp x =? 2047); [discriminate | eapply time_of_unix_noof; eassumption]. Qed.
Lemma parse_rfc3339_noof : forall s, parse_rfc3339 s = OutOfFuel -> False.
Proof. intros s H. unfold parse_rfc3339 in H. destruct (parse_core s) as [[sec ns] |]; [eapply time_of_unix_noof; eassumption | discriminate]. Qed.

Lemma finite_or_err_noof : forall x, finite_or_err x = OutOfFuel -> False.
Proof. intros x H. unfold finite_or_err in H. destruct (f64_is_inf x); discriminate. Qed.

Lemma dec_tag_int_noof : forall b, dec_tag_int b = OutOfFuel -> False.
Proof.
  intros b H. unfold dec_tag_int in H. destruct b as [| bd b1]; [discriminate |].
  destruct (bd / 32 <=? majNegInt); [| discriminate].
  apply bind_oof in H. destruct H as [H | ([u b2] & E & H)]; [eapply read_uint_noof; eassumption |].
  apply bind_oof in H. destruct H as [H | (j & E2 & H)]; [eapply int64v_noof; eassumption | discriminate].
Qed.

Ltac lens :=
  repeat match goal with H : adv _ _ _ |- _ => apply adv_len in H end; cbn [length] in *; lia.

Lemma dec_chunks_noof : forall f mt b, (length b + 1 <= f)%nat -> dec_chunks f mt b = OutOfFuel -> False.
Proof.
  induction f; intros mt b Hf H; [lia |].
  cbn [dec_chunks] in H. destruct b as [| bd b1]; [discriminate |].
  destruct (bd =? bdBreak); [discriminate |]. destruct (negb (bd / 32 =? mt)); [discriminate |].
  apply bind_oof in H. destruct H as [H | ([n b2] & E1 & H)]; [eapply dec_len_noof; eassumption |]. apply dec_len_adv in E1.
  apply bind_oof in H. destruct H as [H | ([c b3] & E2 & H)]; [eapply take_noof; eassumption |]. apply take_adv in E2.
  apply bind_oof in H. destruct H as [H | ([cs b4] & E3 & H)]; [| discriminate].
  eapply IHf; [| eassumption]. lens.
Qed.

Lemma dec_str_body_noof : forall f bd b1, (length b1 + 1 <= f)%nat -> dec_str_body f bd b1 = OutOfFuel -> False.
Proof.
  intros f bd b1 Hf H. unfold dec_str_body in H. destruct ((bd =? bdIndefBytes) || (bd =? bdIndefString)).
  - eapply dec_chunks_noof; eassumption.
  - apply bind_oof in H. destruct H as [H | ([n b2] & E1 & H)]; [eapply dec_len_noof | eapply take_noof]; eassumption.
Qed.

Lemma skip_tags_noof : forall f bd b, (length b + 1 <= f)%nat -> skip_tags f bd b = OutOfFuel -> False.
Proof.
  induction f; intros bd b Hf H; [lia |].
  cbn [skip_tags] in H. destruct (bd / 32 =? majTag); [| discriminate].
  apply bind_oof in H. destruct H as [H | ([u b1] & E1 & H)]; [eapply read_uint_noof; eassumption |]. apply read_uint_adv in E1.
  destruct b1 as [| x b2]; [discriminate |]. eapply IHf; [| eassumption]. lens.
Qed.

Lemma dec_float64_noof : forall D f b, (length b + 1 <= f)%nat -> dec_float64 D f b = OutOfFuel -> False.
Proof.
  intros D f b Hf H. unfold dec_float64 in H. destruct b as [| bd0 b0]; [discriminate |].
  destruct ((bd0 =? bdNil) || (bd0 =? bdUndefined)); [discriminate |].
  apply bind_oof in H. destruct H as [H | ([bd b1] & E1 & H)].
  - destruct (do_skiptags D); [| discriminate]. eapply skip_tags_noof; [| eassumption]. cbn [length] in Hf. lia.
  - repeat match type of H with (if ?c then _ else _) = _ => destruct c end; try discriminate.
    + apply bind_oof in H. destruct H as [H | ([y b2] & E & H)]; [eapply take_noof; eassumption | discriminate].
    + apply bind_oof in H. destruct H as [H | ([y b2] & E & H)]; [eapply take_noof; eassumption | discriminate].
    + apply bind_oof in H. destruct H as [H | ([y b2] & E & H)]; [eapply take_noof; eassumption | discriminate].
    + apply bind_oof in H. destruct H as [H | ([u b2] & E & H)]; [eapply read_uint_noof; eassumption |].
      destruct (bd / 32 =? majNegInt); [| discriminate].
      apply bind_oof in H. destruct H as [H | (i & E2 & H)]; [eapply int64v_noof; eassumption | discriminate].
Qed.

Lemma dec_bytes_fresh_noof : forall D f b, (length b + 1 <= f)%nat -> dec_bytes_fresh D f b = OutOfFuel -> False.
Proof.
  intros D f b Hf H. unfold dec_bytes_fresh in H. destruct b as [| bd0 b0]; [discriminate |].
  destruct ((bd0 =? bdNil) || (bd0 =? bdUndefined)); [discriminate |].
  apply bind_oof in H. destruct H as [H | ([bd b1] & E1 & H)].
  - destruct (do_skiptags D); [| discriminate]. eapply skip_tags_noof; [| eassumption]. cbn [length] in Hf. lia.
  - destruct ((bd / 32 =? majBytes) || (bd / 32 =? majString)); [| discriminate].
    assert (A1 : adv 0 b1 b0).
    { destruct (do_skiptags D); [eapply skip_tags_adv; eassumption | inv_ok E1; apply adv_refl]. }
    eapply dec_str_body_noof; [| eassumption]. lens.
Qed.

Lemma skip_chunks_noof : forall f b, (length b + 1 <= f)%nat -> skip_chunks f b = OutOfFuel -> False.
Proof.
  induction f; intros b Hf H; [lia |].
  cbn [skip_chunks] in H. destruct b as [| bd b1]; [discriminate |].
  destruct (bd =? bdBreak); [discriminate |].
  apply bind_oof in H. destruct H as [H | ([u b2] & E1 & H)]; [eapply uint_bytes_noof; eassumption |]. apply uint_bytes_adv in E1.
  apply bind_oof in H. destruct H as [H | (b3 & E2 & H)]; [eapply rskip_noof; eassumption |]. apply rskip_adv in E2.
  eapply IHf; [| eassumption]. lens.
Qed.

Ltac brk_oof H :=
  cbn [fst liftI] in H;
  lazymatch type of H with
  | Ok _ = OutOfFuel => discriminate H
  | Err _ = OutOfFuel => discriminate H
  | bind _ _ = OutOfFuel =>
      let a := fresh "a" in let E := fresh "E" in
      apply bind_oof in H; destruct H as [H | (a & E & H)]; [brk_oof H | split_pair a; learn_prim E; brk_oof H]
  | fst (bindI _ _) = OutOfFuel =>
      let a := fresh "a" in let E := fresh "E" in
      apply bindI_oof in H; destruct H as [H | (a & E & H)]; [brk_oof H | split_pair a; brk_ok E; brk_oof H]
  | (if ?c then _ else _) = OutOfFuel => destruct c eqn:?; brk_oof H
  | fst (if ?c then _ else _) = OutOfFuel => destruct c eqn:?; brk_oof H
  | (match ?l with [] => _ | _ :: _ => _ end) = OutOfFuel => destruct l; brk_oof H
  | fst (match ?l with [] => _ | _ :: _ => _ end) = OutOfFuel => destruct l; brk_oof H
  | _ => idtac
  end.

Ltac fin_prim :=
  match goal with
  | H : take _ _ = OutOfFuel |- _ => exfalso; eapply take_noof; exact H
  | H : rskip _ _ = OutOfFuel |- _ => exfalso; eapply rskip_noof; exact H
  | H : read_uint _ _ = OutOfFuel |- _ => exfalso; eapply read_uint_noof; exact H
  | H : dec_len _ _ = OutOfFuel |- _ => exfalso; eapply dec_len_noof; exact H
  | H : uint_bytes _ _ = OutOfFuel |- _ => exfalso; eapply uint_bytes_noof; exact H
  | H : int64v _ _ = OutOfFuel |- _ => exfalso; eapply int64v_noof; exact H
  | H : dec_tag_int _ = OutOfFuel |- _ => exfalso; eapply dec_tag_int_noof; exact H
  | H : finite_or_err _ = OutOfFuel |- _ => exfalso; eapply finite_or_err_noof; exact H
  | H : parse_rfc3339 _ = OutOfFuel |- _ => exfalso; eapply parse_rfc3339_noof; exact H
  | H : time_of_float _ = OutOfFuel |- _ => exfalso; eapply time_of_float_noof; exact H
  | H : dec_str_body _ _ _ = OutOfFuel |- _ => exfalso; eapply dec_str_body_noof; [| exact H]; lens
  | H : dec_float64 _ _ _ = OutOfFuel |- _ => exfalso; eapply dec_float64_noof; [| exact H]; lens
  | H : dec_bytes_fresh _ _ _ = OutOfFuel |- _ => exfalso; eapply dec_bytes_fresh_noof; [| exact H]; lens
  | H : skip_chunks _ _ = OutOfFuel |- _ => exfalso; eapply skip_chunks_noof; [| exact H]; lens
  end.

Section TotalBody.
  Variable D : dopts.
  Variable f' : nat.
  Variable self : Z -> nat -> list N -> resI (item * list N).
  Variable arrd : Z -> nat -> N -> list N -> resI (list item * list N).
  Variable arri : Z -> nat -> list N -> resI (list item * list N).
  Variable mapd : Z -> nat -> N -> list item -> list N -> resI (list (item * item) * list N).
  Variable mapi : Z -> nat -> list item -> list N -> resI (list (item * item) * list N).
  Hypothesis Pself : forall d r b x b', fst (self d r b) = Ok (x, b') -> adv 1 b' b.
  Hypothesis Tself : forall d r b, (2 * length b + 1 <= f')%nat -> fst (self d r b) = OutOfFuel -> False.
  Hypothesis Tarrd : forall d r n b, (2 * length b + 2 <= f')%nat -> fst (arrd d r n b) = OutOfFuel -> False.
  Hypothesis Tarri : forall d r b, (2 * length b + 2 <= f')%nat -> fst (arri d r b) = OutOfFuel -> False.
  Hypothesis Tmapd : forall d r n s b, (2 * length b + 2 <= f')%nat -> fst (mapd d r n s b) = OutOfFuel -> False.
  Hypothesis Tmapi : forall d r s b, (2 * length b + 2 <= f')%nat -> fst (mapi d r s b) = OutOfFuel -> False.

  Ltac use_p := repeat match goal with H : fst (self _ _ _) = Ok _ |- _ => apply Pself in H end.
  Ltac fin :=
    use_p;
    first [ fin_prim
          | match goal with
            | H : fst (self _ _ _) = OutOfFuel |- _ => exfalso; eapply Tself; [| exact H]; lens
            | H : fst (arrd _ _ _ _) = OutOfFuel |- _ => exfalso; eapply Tarrd; [| exact H]; lens
            | H : fst (arri _ _ _) = OutOfFuel |- _ => exfalso; eapply Tarri; [| exact H]; lens
            | H : fst (mapd _ _ _ _ _) = OutOfFuel |- _ => exfalso; eapply Tmapd; [| exact H]; lens
            | H : fst (mapi _ _ _ _) = OutOfFuel |- _ => exfalso; eapply Tmapi; [| exact H]; lens
            end ].

  Lemma dec_tag_noof : forall d r t b2, (2 * length b2 + 2 <= f')%nat ->
    fst (dec_tag D f' self d r t b2) = OutOfFuel -> False.
  Proof. intros d r t b2 Hf H. unfold dec_tag in H. brk_oof H; fin. Qed.

  Lemma dec_body_noof : forall d r bd b1, (2 * length b1 + 2 <= f')%nat ->
    fst (dec_body D f' self arrd arri mapd mapi d r bd b1) = OutOfFuel -> False.
  Proof.
    intros d r bd b1 Hf H. unfold dec_body, dec_simple in H. destruct (kind_of bd).
    1-6, 8: brk_oof H; fin.
    apply bindI_oof in H. destruct H as [H | ([t b2] & E & H)].
    - cbn [fst liftI] in H. eapply read_uint_noof; eassumption.
    - cbn [fst liftI] in E. apply read_uint_adv in E. eapply dec_tag_noof; [| eassumption]. lens.
  Qed.

  Lemma map_entry_noof : forall d r seen b, (2 * length b + 1 <= f')%nat ->
    fst (map_entry self d r seen b) = OutOfFuel -> False.
  Proof. intros d r seen b Hf H. unfold map_entry in H. brk_oof H; fin. Qed.
End TotalBody.

Theorem dec_total_all : forall D f,
  (forall d r b, (2 * length b + 1 <= f)%nat -> fst (dec D f d r b) = OutOfFuel -> False) /\
  (forall d r n b, (2 * length b + 2 <= f)%nat -> fst (arr_def D f d r n b) = OutOfFuel -> False) /\
  (forall d r b, (2 * length b + 2 <= f)%nat -> fst (arr_indef D f d r b) = OutOfFuel -> False) /\
  (forall d r n s b, (2 * length b + 2 <= f)%nat -> fst (map_def D f d r n s b) = OutOfFuel -> False) /\
  (forall d r s b, (2 * length b + 2 <= f)%nat -> fst (map_indef D f d r s b) = OutOfFuel -> False).
Proof.
  intros D. induction f as [| f' (IH1 & IH2 & IH3 & IH4 & IH5)].
  - repeat apply conj; intros; lia.
  - pose proof (dec_prog D f') as (P1 & P2 & P3 & P4 & P5).
    repeat apply conj.
    + intros d r b Hf H. cbn [dec] in H. destruct b as [| bd b1]; [discriminate |].
      eapply dec_body_noof; try exact H; try eassumption. cbn [length] in Hf. lia.
    + intros d r n b Hf H. cbn [arr_def] in H. destruct (n =? 0); [discriminate |].
      apply bindI_oof in H. destruct H as [H | ([x b1] & E1 & H)]; [eapply IH1; [| exact H]; lia |]. apply P1 in E1.
      apply bindI_oof in H. destruct H as [H | ([xs b2] & E2 & H)]; [eapply IH2; [| exact H]; lens | discriminate].
    + intros d r b Hf H. cbn [arr_indef] in H. destruct b as [| bd b1]; [discriminate |].
      destruct (bd =? bdBreak); [discriminate |].
      apply bindI_oof in H. destruct H as [H | ([x b2] & E1 & H)]; [eapply IH1; [| exact H]; lia |]. apply P1 in E1.
      apply bindI_oof in H. destruct H as [H | ([xs b3] & E2 & H)]; [eapply IH3; [| exact H]; lens | discriminate].
    + intros d r n s b Hf H. cbn [map_def] in H. destruct (n =? 0); [discriminate |].
      apply bindI_oof in H. destruct H as [H | ([[k v] b2] & E1 & H)].
      * eapply map_entry_noof; try exact H; try eassumption. lia.
      * assert (A : adv 1 b2 b) by (eapply map_entry_adv; try exact E1; eassumption).
        apply bindI_oof in H. destruct H as [H | ([kvs b3] & E2 & H)]; [eapply IH4; [| exact H]; lens | discriminate].
    + intros d r s b Hf H. cbn [map_indef] in H. destruct b as [| bd b0]; [discriminate |].
      destruct (bd =? bdBreak); [discriminate |].
      apply bindI_oof in H. destruct H as [H | ([[k v] b2] & E1 & H)].
      * eapply map_entry_noof; try exact H; try eassumption. lia.
      * assert (A : adv 1 b2 (bd :: b0)) by (eapply map_entry_adv; try exact E1; eassumption).
        apply bindI_oof in H. destruct H as [H | ([kvs b3] & E2 & H)]; [eapply IH5; [| exact H]; lens | discriminate].
Qed.

Section SkipTotalBody.
  Variable D : dopts.
  Variable f' : nat.
  Variable self : Z -> nat -> list N -> resI (list N).
  Variable skn : Z -> nat -> N -> list N -> resI (list N).
  Variable ski : Z -> nat -> bool -> list N -> resI (list N).
  Hypothesis Tself : forall d r b, (2 * length b + 1 <= f')%nat -> fst (self d r b) = OutOfFuel -> False.
  Hypothesis Tskn : forall d r n b, (2 * length b + 2 <= f')%nat -> fst (skn d r n b) = OutOfFuel -> False.
  Hypothesis Tski : forall d r p b, (2 * length b + 2 <= f')%nat -> fst (ski d r p b) = OutOfFuel -> False.

  Lemma skip_body_noof : forall d r bd b1, (2 * length b1 + 2 <= f')%nat ->
    fst (skip_body D f' self skn ski d r bd b1) = OutOfFuel -> False.
  Proof.
    intros d r bd b1 Hf H. unfold skip_body, skip_simple in H.
    destruct (kind_of bd); brk_oof H;
      first [ fin_prim
            | match goal with
              | H : fst (self _ _ _) = OutOfFuel |- _ => exfalso; eapply Tself; [| exact H]; lens
              | H : fst (skn _ _ _ _) = OutOfFuel |- _ => exfalso; eapply Tskn; [| exact H]; lens
              | H : fst (ski _ _ _ _) = OutOfFuel |- _ => exfalso; eapply Tski; [| exact H]; lens
              end ].
  Qed.
End SkipTotalBody.

Theorem skip_total_all : forall D f,
  (forall d r b, (2 * length b + 1 <= f)%nat -> fst (skipw D f d r b) = OutOfFuel -> False) /\
  (forall d r n b, (2 * length b + 2 <= f)%nat -> fst (skip_n D f d r n b) = OutOfFuel -> False) /\
  (forall d r p b, (2 * length b + 2 <= f)%nat -> fst (skip_indef D f d r p b) = OutOfFuel -> False).
Proof.
  intros D. induction f as [| f' (IH1 & IH2 & IH3)].
  - repeat apply conj; intros; lia.
  - pose proof (skip_prog D f') as (P1 & P2 & P3).
    repeat apply conj.
    + intros d r b Hf H. cbn [skipw] in H. destruct b as [| bd b1]; [discriminate |].
      eapply skip_body_noof; try exact H; try eassumption. cbn [length] in Hf. lia.
    + intros d r n b Hf H. cbn [skip_n] in H. destruct (n =? 0); [discriminate |].
      apply bindI_oof in H. destruct H as [H | (b1 & E1 & H)]; [eapply IH1; [| exact H]; lia |]. apply P1 in E1.
      eapply IH2; [| exact H]. lens.
    + intros d r p b Hf H. cbn [skip_indef] in H. destruct b as [| bd b0]; [discriminate |].
      destruct (bd =? bdBreak); [discriminate |].
      apply bindI_oof in H. destruct H as [H | (b1 & E1 & H)]; [eapply IH1; [| exact H]; lia |]. apply P1 in E1.
      apply bindI_oof in H. destruct H as [H | (b2 & E2 & H)].
      * destruct p; [eapply IH1; [| exact H]; lens | discriminate].
      * assert (A2 : adv 0 b2 b1) by (destruct p; [apply P1 in E2; chain | inv_ok E2; apply adv_refl]).
        eapply IH3; [| exact H]. lens.
Qed.

(* ---- statements for Properties/C10_cbor.v ---- *)
Lemma dec_total_lemma : forall (D : dopts) (b : list N), dec_naked D (fuel_for b) b <> OutOfFuel.
Proof. intros D b H. eapply (proj1 (dec_total_all D (fuel_for b))); [| exact H]. unfold fuel_for. lia. Qed.

Lemma skip_total_lemma : forall (D : dopts) (d : Z) (b : list N), skip D (fuel_for b) d b <> OutOfFuel.
Proof. intros D d b H. eapply (proj1 (skip_total_all D (fuel_for b))); [| exact H]. unfold fuel_for. lia. Qed.

(* progress: a successful decode / skip consumed at least one byte and returns a suffix of its input *)
Lemma dec_progress_lemma : forall (D : dopts) (f : nat) (b : list N) (i : item) (rest : list N),
  dec_naked D f b = Ok (i, rest) ->
  exists consumed, b = consumed ++ rest /\ (1 <= length consumed)%nat.
Proof. intros D f b i rest H. exact (proj1 (dec_prog D f) _ _ _ _ _ H). Qed.

Lemma skip_progress_lemma : forall (D : dopts) (f : nat) (d : Z) (b rest : list N),
  skip D f d b = Ok rest ->
  exists consumed, b = consumed ++ rest /\ (1 <= length consumed)%nat.
Proof. intros D f d b rest H. exact (proj1 (skip_prog D f) _ _ _ _ H). Qed.

(* Wire/Simple — executable model of the "simple" format driver
   (/repo/codec/simple.go + simple.base.go) and of the generic code that drives it
   when a value is decoded into interface{} (kInterfaceNaked, fastpath DecSliceIntfY,
   kMap, depthIncr/depthDecr) or skipped (nextValueBytes / nextValueBytesBdReadR).

   No proofs here.  Everything mirrors what the code does, including
     - decLen/uint2Len rejecting lengths above math.MaxInt (since the F14-3 repair; before it int(ui)
       went negative),
     - the generic layer's containerLenNil = math.MinInt32 "nil container" sentinel (arrayStart/mapStart)
       and "negative length = no length, loop until CheckBreak" (never true for simple) -- kept, and
       proved unreachable,
     - readx slicing z.b[z.c:z.c+n] (a wrapped sum panics like a too large one),
     - integer magnitudes checked by decNegintPosintFloatNumberHelperInt64v as translated in Gen/Leaf.v.
   Bytes are N (< 256 when they come from Go); descriptors come from Gen.Consts. *)
From Coq Require Import List NArith ZArith Bool.
From Verif Require Import Base.Outcome Wire.Item Gen.Consts Gen.Leaf.
Import ListNotations.
Open Scope bool_scope.
Open Scope N_scope.

(* ------------------------------------------------------------------ *)
(* bytes, big endian                                                   *)

Fixpoint be_put (k : nat) (v : N) : list N :=
  match k with
  | O => []
  | S k' => ((v / 256 ^ N.of_nat k') mod 256) :: be_put k' v
  end.

Definition be_get (l : list N) : N := fold_left (fun a b => a * 256 + b) l 0.

Definition W64 : N := 2 ^ 64.
(* int64(uint64 v) *)
Definition to_i64 (v : N) : Z := if v <? 2 ^ 63 then Z.of_N v else (Z.of_N v - 2 ^ 64)%Z.
(* uint64(int64 z) *)
Definition to_u64 (z : Z) : N := Z.to_N (z mod 2 ^ 64)%Z.
(* int64 arithmetic result *)
Definition wrap_i64 (z : Z) : Z := ((z + 2 ^ 63) mod 2 ^ 64 - 2 ^ 63)%Z.

Definition vd (z : Z) : N := Z.to_N z.

(* ------------------------------------------------------------------ *)
(* options                                                             *)

Record eopts := mkeopts {
  zeroAsNil : bool;          (* SimpleHandle.EncZeroValuesAsNil *)
  stringToRaw : bool }.      (* BasicHandle.StringToRaw *)

Record dopts := mkdopts {
  signedInteger : bool;      (* DecodeOptions.SignedInteger *)
  rawToString : bool;        (* DecodeOptions.RawToString *)
  maxDepthOpt : Z }.         (* DecodeOptions.MaxDepth (int16); <= 0 means decDefMaxDepth *)

Definition maxdepth (D : dopts) : Z :=
  if (0 <? maxDepthOpt D)%Z then maxDepthOpt D else decDefMaxDepth.

(* ------------------------------------------------------------------ *)
(* encoder: simpleEncDriver.  [key] = (e.e.c == containerMapKey)       *)

Definition unixToInternal : Z := 62135596800%Z.   (* time.unixToInternal *)

Definition enc_uint (o : eopts) (key : bool) (v : N) (bd : N) : list N :=
  if zeroAsNil o && negb key && (v =? 0) then [vd simpleVdNil]
  else if v <=? 255 then [bd; v]
  else if v <=? 65535 then (bd + 1) :: be_put 2 v
  else if v <=? 4294967295 then (bd + 2) :: be_put 4 v
  else (bd + 3) :: be_put 8 v.

Definition enc_len (bd : N) (len : N) : list N :=
  if len =? 0 then [bd]
  else if len <=? 255 then [bd + 1; len]
  else if len <=? 65535 then (bd + 2) :: be_put 2 len
  else if len <=? 4294967295 then (bd + 3) :: be_put 4 len
  else (bd + 4) :: be_put 8 len.

Definition llen {A} (l : list A) : N := N.of_nat (length l).

Definition f32zero (b : N) : bool := (b =? 0) || (b =? 2 ^ 31).
Definition f64zero (b : N) : bool := (b =? 0) || (b =? 2 ^ 63).
Definition time_zero (sec : Z) (nsec : N) : bool := ((sec + unixToInternal =? 0)%Z) && (nsec =? 0).

Definition isnil (l : list N) : bool := match l with [] => true | _ => false end.

Fixpoint enc (o : eopts) (key : bool) (i : item) : list N :=
  let zn := zeroAsNil o && negb key in
  match i with
  | INil => [vd simpleVdNil]
  | IBool b => if zn && negb b then [vd simpleVdNil]
               else [if b then vd simpleVdTrue else vd simpleVdFalse]
  | IInt z => if (z <? 0)%Z then enc_uint o key (to_u64 (- z)) (vd simpleVdNegInt)
              else enc_uint o key (to_u64 z) (vd simpleVdPosInt)
  | IUint n => enc_uint o key n (vd simpleVdPosInt)
  | IF32 b => if zn && f32zero b then [vd simpleVdNil] else vd simpleVdFloat32 :: be_put 4 b
  | IF64 b => if zn && f64zero b then [vd simpleVdNil] else vd simpleVdFloat64 :: be_put 8 b
  | IStr s => if zn && isnil s then [vd simpleVdNil]
              else enc_len (if stringToRaw o then vd simpleVdByteArray else vd simpleVdString) (llen s) ++ s
  | IBytes b => enc_len (vd simpleVdByteArray) (llen b) ++ b
  | IArr l => enc_len (vd simpleVdArray) (llen l) ++ flat_map (enc o false) l
  | IMap l => enc_len (vd simpleVdMap) (llen l)
              ++ flat_map (fun kv => enc o true (fst kv) ++ enc o false (snd kv)) l
  | ITag _ v => enc o key v            (* simple has no tags; excluded by [swf] *)
  | IExt t b => enc_len (vd simpleVdExt) (llen b) ++ (t mod 256) :: b
  | ITime s n => if time_zero s n then [vd simpleVdNil]
                 else [vd simpleVdTime; 15; 1] ++ be_put 8 (to_u64 (s + unixToInternal)) ++ be_put 4 n ++ [255; 255]
  end.

(* ------------------------------------------------------------------ *)
(* descriptor classes                                                  *)

Inductive kind :=
| KNil | KFalse | KTrue
| KPos (w : N) | KNeg (w : N)         (* w in 0..3: 1,2,4,8 bytes *)
| KF32 | KF64 | KTime
| KStr (lw : N) | KBytes (lw : N) | KExt (lw : N) | KArr (lw : N) | KMap (lw : N)   (* lw in 0..4 *)
| KBad.

Definition inr (z lo : Z) (n : Z) : bool := ((lo <=? z) && (z <=? lo + n))%Z.

(* the case labels of simpleDecDriver.DecodeNaked *)
Definition classify (b : N) : kind :=
  let z := Z.of_N b in
  if (z =? simpleVdNil)%Z then KNil
  else if (z =? simpleVdFalse)%Z then KFalse
  else if (z =? simpleVdTrue)%Z then KTrue
  else if (z =? simpleVdFloat32)%Z then KF32
  else if (z =? simpleVdFloat64)%Z then KF64
  else if (z =? simpleVdTime)%Z then KTime
  else if inr z simpleVdPosInt 3 then KPos (Z.to_N (z - simpleVdPosInt))
  else if inr z simpleVdNegInt 3 then KNeg (Z.to_N (z - simpleVdNegInt))
  else if inr z simpleVdString 4 then KStr (Z.to_N (z - simpleVdString))
  else if inr z simpleVdByteArray 4 then KBytes (Z.to_N (z - simpleVdByteArray))
  else if inr z simpleVdExt 4 then KExt (Z.to_N (z - simpleVdExt))
  else if inr z simpleVdArray 4 then KArr (Z.to_N (z - simpleVdArray))
  else if inr z simpleVdMap 4 then KMap (Z.to_N (z - simpleVdMap))
  else KBad.

(* ------------------------------------------------------------------ *)
(* bytesDecReader on the remaining suffix.  readn1: z.b[z.c]; readnK: [K]byte(z.b[z.c:]);
   readx n: z.b[z.c:z.c+n] -- a wrapped z.c+n is below z.c and panics like a too large one,
   so "n exceeds what is left" is exactly when it fails (all become io.ErrUnexpectedEOF). *)

Definition readn1 (l : list N) : res (N * list N) :=
  match l with [] => Err EEof | b :: r => Ok (b, r) end.

Definition readn (k : nat) (l : list N) : res (N * list N) :=
  if (length l <? k)%nat then Err EEof else Ok (be_get (firstn k l), skipn k l).

Definition readx (n : N) (l : list N) : res (list N * list N) :=
  if llen l <? n then Err EEof else Ok (firstn (N.to_nat n) l, skipn (N.to_nat n) l).

Definition wbytes (w : N) : nat := N.to_nat (2 ^ w).   (* 1,2,4,8 *)

(* uint2Len: if ui > math.MaxInt { halt.errorf("overflow integer") }; return int(ui) *)
Definition uint2len (v : N) (r : list N) : res (Z * list N) :=
  if 2 ^ 63 - 1 <? v then Err EOverflow else Ok (to_i64 v, r).

(* decLen: bd&7 in 0..4; the result is an int *)
Definition dec_len (lw : N) (l : list N) : res (Z * list N) :=
  match lw with
  | 0 => Ok (0%Z, l)
  | 1 => do (v, r) <- readn 1 l ;; Ok (Z.of_N v, r)
  | 2 => do (v, r) <- readn 2 l ;; Ok (Z.of_N v, r)
  | 3 => do (v, r) <- readn 4 l ;; uint2len v r
  | 4 => do (v, r) <- readn 8 l ;; uint2len v r
  | _ => Err EBadDesc
  end.

(* uint(clen) *)
Definition len_u (z : Z) : N := to_u64 z.

(* decNegintPosintFloatNumberHelperInt64v(ui, neg, false) with chkOvf.Uint2Int: taken from the
   translation of the current source (Gen/Leaf.v, regenerated on every run) *)
Definition int64v (ui : N) (neg : bool) : res Z :=
  Verif.Gen.Leaf.decNegintPosintFloatNumberHelperInt64v (Z.of_N ui) neg false.

(* float64(math.Float32frombits(b)) as bit patterns (amd64 CVTSS2SD: signalling NaNs are quieted) *)
Definition f32to64 (b : N) : N :=
  let s := N.shiftr b 31 in
  let e := N.land (N.shiftr b 23) 255 in
  let m := N.land b (2 ^ 23 - 1) in
  let sg := N.shiftl s 63 in
  if e =? 0 then
    if m =? 0 then sg
    else let k := N.log2 m in
         sg + N.shiftl (1023 - 149 + k) 52 + N.shiftl (m - 2 ^ k) (52 - k)
  else if e =? 255 then
    if m =? 0 then sg + N.shiftl 2047 52
    else sg + N.shiftl 2047 52 + N.lor (N.shiftl m 29) (2 ^ 51)
  else sg + N.shiftl (e + 896) 52 + N.shiftl m 29.

(* time.Time.UnmarshalBinary as far as (Unix(), Nanosecond()) go; the zone bytes are ignored *)
Definition dec_time_payload (p : list N) : res item :=
  match p with
  | [] => Err EOther
  | v :: q =>
    if negb ((v =? 1) || (v =? 2)) then Err EOther
    else if negb (llen p =? (if v =? 2 then 16 else 15)) then Err EOther
    else let sec := to_i64 (be_get (firstn 8 q)) in
         let nsec := be_get (firstn 4 (skipn 8 q)) in
         Ok (ITime (wrap_i64 (sec - unixToInternal)) nsec)
  end.

(* fauxUnionReadRawBytes: []byte, or string under RawToString *)
Definition bytes_item (D : dopts) (b : list N) : item :=
  if rawToString D then IStr b else IBytes b.

(* the non-container cases of DecodeNaked (descriptor already read) *)
Definition dec_scalar (D : dopts) (k : kind) (l : list N) : res (item * list N) :=
  match k with
  | KNil => Ok (INil, l)
  | KFalse => Ok (IBool false, l)
  | KTrue => Ok (IBool true, l)
  | KPos w =>
      do (ui, r) <- readn (wbytes w) l ;;
      if signedInteger D then do i <- int64v ui false ;; Ok (IInt i, r)
      else Ok (IUint ui, r)
  | KNeg w =>
      do (ui, r) <- readn (wbytes w) l ;;
      do i <- int64v ui true ;; Ok (IInt i, r)
  | KF32 => do (v, r) <- readn 4 l ;; Ok (IF64 (f32to64 v), r)
  | KF64 => do (v, r) <- readn 8 l ;; Ok (IF64 v, r)
  | KTime =>
      do (n, r) <- readn1 l ;;
      do (p, r') <- readx n r ;;
      do t <- dec_time_payload p ;; Ok (t, r')
  | KStr lw =>
      do (n, r) <- dec_len lw l ;;
      do (p, r') <- readx (len_u n) r ;; Ok (IStr p, r')
  | KBytes lw =>
      do (n, r) <- dec_len lw l ;;
      do (p, r') <- readx (len_u n) r ;; Ok (bytes_item D p, r')
  | KExt lw =>
      do (n, r) <- dec_len lw l ;;
      do (t, r1) <- readn1 r ;;
      do (p, r') <- readx (len_u n) r1 ;; Ok (IExt t p, r')
  | KArr _ | KMap _ | KBad => Err EBadDesc
  end.

(* arrayStart/mapStart: depthIncr unless the length equals the nil sentinel *)
Definition depth_enter (D : dopts) (depth : Z) (n : Z) : res Z :=
  if (n =? containerLenNil)%Z then Ok depth
  else if (maxdepth D <=? depth + 1)%Z then Err EDepth else Ok (depth + 1)%Z.

(* loop bound: hasLen := n >= 0; otherwise the loop runs until CheckBreak (never, for simple) *)
Definition loop_count (n : Z) (per : N) : option N :=
  if (0 <=? n)%Z then Some (Z.to_N n * per) else None.

Definition cnt_done (c : option N) : bool := match c with Some 0 => true | _ => false end.
Definition cnt_pred (c : option N) : option N := match c with Some n => Some (N.pred n) | None => None end.

(* kMap: an interface{} key holding []byte becomes a string; mapSet panics
   (runtime error: hash of unhashable type) on slice, map and RawExt keys *)
Definition key_conv (k : item) : item := match k with IBytes b => IStr b | _ => k end.
Definition unhashable (k : item) : bool :=
  match k with IArr _ | IMap _ | IExt _ _ | ITag _ _ => true | _ => false end.

(* Go's == on the interface{} keys the decoder produces (NaN differs from itself, +0 = -0) *)
Fixpoint eqbl (a b : list N) : bool :=
  match a, b with
  | [], [] => true
  | x :: a', y :: b' => N.eqb x y && eqbl a' b'
  | _, _ => false
  end.
Definition f64nan (b : N) : bool :=
  (N.land (N.shiftr b 52) 2047 =? 2047) && negb (N.land b (2 ^ 52 - 1) =? 0).
Definition keyeq (a b : item) : bool :=
  match a, b with
  | INil, INil => true
  | IBool x, IBool y => Bool.eqb x y
  | IInt x, IInt y => Z.eqb x y
  | IUint x, IUint y => N.eqb x y
  | IStr x, IStr y => eqbl x y
  | IF64 x, IF64 y => if f64nan x || f64nan y then false
                      else if f64zero x && f64zero y then true else N.eqb x y
  | ITime s n, ITime s' n' => Z.eqb s s' && N.eqb n n'
  | _, _ => false
  end.
(* kMap decodes the value of a key that is already in the map INTO the value stored there
   (typed decoding driven by the old value's dynamic type).  That path is not modelled:
   a repeated key yields Err EUnsupported, which the correspondence treats as "no prediction"
   and the round-trip theorems exclude by [swf]. *)
Definition seen_key (seen : list item) (k : item) : bool := existsb (keyeq k) seen.

(* decode into interface{}: decodeValue -> TryNil | kInterface -> kInterfaceNaked -> DecodeNaked
   -> ([]interface{} via fastpath DecSliceIntfY | map[interface{}]interface{} via kMap) -> decode ...
   [depth] is decoderBase.depth on entry. *)
Fixpoint dec (D : dopts) (fuel : nat) (depth : Z) (l : list N) {struct fuel} : res (item * list N) :=
  match fuel with
  | O => OutOfFuel
  | S f =>
    do (b, r) <- readn1 l ;;
    match classify b with
    | KArr lw =>
        do (n, r1) <- dec_len lw r ;;
        do d' <- depth_enter D depth n ;;
        do (xs, r2) <- dec_elems D f d' (loop_count n 1) r1 ;;
        Ok (IArr xs, r2)
    | KMap lw =>
        do (n, r1) <- dec_len lw r ;;
        do d' <- depth_enter D depth n ;;
        do (kvs, r2) <- dec_pairs D f d' [] (loop_count n 1) r1 ;;
        Ok (IMap kvs, r2)
    | k => dec_scalar D k r
    end
  end
with dec_elems (D : dopts) (fuel : nat) (depth : Z) (cnt : option N) (l : list N) {struct fuel}
  : res (list item * list N) :=
  if cnt_done cnt then Ok ([], l) else
  match fuel with
  | O => OutOfFuel
  | S f =>
    do (x, r) <- dec D f depth l ;;
    do (xs, r') <- dec_elems D f depth (cnt_pred cnt) r ;;
    Ok (x :: xs, r')
  end
with dec_pairs (D : dopts) (fuel : nat) (depth : Z) (seen : list item) (cnt : option N) (l : list N) {struct fuel}
  : res (list (item * item) * list N) :=
  if cnt_done cnt then Ok ([], l) else
  match fuel with
  | O => OutOfFuel
  | S f =>
    do (k, r) <- dec D f depth l ;;
    if seen_key seen (key_conv k) then Err EUnsupported else
    do (_, _) <- readn1 r ;;                      (* TryNil reads the value's descriptor *)
    if unhashable k then Err EOther else          (* mapGet / mapSet hash the key *)
    do (v, r1) <- dec D f depth r ;;
    do (kvs, r') <- dec_pairs D f depth (key_conv k :: seen) (cnt_pred cnt) r1 ;;
    Ok ((key_conv k, v) :: kvs, r')
  end.

Definition dec_fuel (l : list N) : nat := 2 * length l + 2.

(* Decode(&interface{}) on a fresh decoder *)
Definition dec_naked (D : dopts) (fuel : nat) (l : list N) : res (item * list N) := dec D fuel 0%Z l.

(* ---- the same decoder instrumented: deepest recursion level reached (one level per
   nested decode(&interface{}) call) and whether a container head with the sentinel
   length was met *)
Record instr := mkinstr { maxrec : nat; sentinel : bool }.
Definition ijoin (a b : instr) : instr := mkinstr (Nat.max (maxrec a) (maxrec b)) (sentinel a || sentinel b).
Definition ilvl (n : nat) : instr := mkinstr n false.

Definition ibind {A B} (x : res A * instr) (f : A -> res B * instr) : res B * instr :=
  match fst x with
  | Ok a => let y := f a in (fst y, ijoin (snd x) (snd y))
  | Err e => (Err e, snd x)
  | OutOfFuel => (OutOfFuel, snd x)
  end.
Definition ilift {A} (lvl : nat) (x : res A) : res A * instr := (x, ilvl lvl).

Fixpoint deci (D : dopts) (fuel : nat) (depth : Z) (lvl : nat) (l : list N) {struct fuel}
  : res (item * list N) * instr :=
  match fuel with
  | O => (OutOfFuel, ilvl lvl)
  | S f =>
    ibind (ilift lvl (readn1 l)) (fun br => let '(b, r) := br in
    match classify b with
    | KArr lw =>
        ibind (ilift lvl (dec_len lw r)) (fun nr => let '(n, r1) := nr in
        ibind (depth_enter D depth n, mkinstr lvl (n =? containerLenNil)%Z) (fun d' =>
        ibind (deci_elems D f d' (S lvl) (loop_count n 1) r1) (fun xr => let '(xs, r2) := xr in
        ilift lvl (Ok (IArr xs, r2)))))
    | KMap lw =>
        ibind (ilift lvl (dec_len lw r)) (fun nr => let '(n, r1) := nr in
        ibind (depth_enter D depth n, mkinstr lvl (n =? containerLenNil)%Z) (fun d' =>
        ibind (deci_pairs D f d' (S lvl) [] (loop_count n 1) r1) (fun xr => let '(kvs, r2) := xr in
        ilift lvl (Ok (IMap kvs, r2)))))
    | k => ilift lvl (dec_scalar D k r)
    end)
  end
with deci_elems (D : dopts) (fuel : nat) (depth : Z) (lvl : nat) (cnt : option N) (l : list N) {struct fuel}
  : res (list item * list N) * instr :=
  if cnt_done cnt then ilift lvl (Ok ([], l)) else
  match fuel with
  | O => (OutOfFuel, ilvl lvl)
  | S f =>
    ibind (deci D f depth lvl l) (fun xr => let '(x, r) := xr in
    ibind (deci_elems D f depth lvl (cnt_pred cnt) r) (fun yr => let '(xs, r') := yr in
    ilift lvl (Ok (x :: xs, r'))))
  end
with deci_pairs (D : dopts) (fuel : nat) (depth : Z) (lvl : nat) (seen : list item) (cnt : option N) (l : list N) {struct fuel}
  : res (list (item * item) * list N) * instr :=
  if cnt_done cnt then ilift lvl (Ok ([], l)) else
  match fuel with
  | O => (OutOfFuel, ilvl lvl)
  | S f =>
    ibind (deci D f depth lvl l) (fun kr => let '(k, r) := kr in
    if seen_key seen (key_conv k) then ilift lvl (Err EUnsupported) else
    ibind (ilift lvl (readn1 r)) (fun _ =>
    if unhashable k then ilift lvl (Err EOther) else
    ibind (deci D f depth lvl r) (fun vr => let '(v, r1) := vr in
    ibind (deci_pairs D f depth lvl (key_conv k :: seen) (cnt_pred cnt) r1) (fun yr => let '(kvs, r') := yr in
    ilift lvl (Ok ((key_conv k, v) :: kvs, r'))))))
  end.

Definition dec_naked_i (D : dopts) (fuel : nat) (l : list N) : res (item * list N) * instr :=
  deci D fuel 0%Z 1 l.

(* ------------------------------------------------------------------ *)
(* the second parser: nextValueBytes / nextValueBytesBdReadR over the real cursor.
   The reader is (bytes before the cursor, bytes from the cursor on): z.c = length rpre. *)

Record rd := mkrd { rpre : list N; suf : list N }.      (* rpre: consumed bytes, last one first *)
Definition rd_init (l : list N) : rd := mkrd [] l.
Definition frev (l : list N) : list N := rev_append l [].          (* = rev l, linear time *)
Definition rd_at (before after : list N) : rd := mkrd (frev before) after.
Definition rd_cur (z : rd) : N := llen (rpre z).
Definition rd_cap (z : rd) : N := llen (rpre z) + llen (suf z).
Definition rd_fwd (k : nat) (z : rd) : rd :=
  mkrd (frev (firstn k (suf z)) ++ rpre z) (skipn k (suf z)).

Definition rd_readn1 (z : rd) : res (N * rd) :=
  match suf z with
  | [] => Err EEof
  | b :: r => Ok (b, mkrd (b :: rpre z) r)
  end.

Definition rd_readn (k : nat) (z : rd) : res (N * rd) :=
  if (length (suf z) <? k)%nat then Err EEof
  else Ok (be_get (firstn k (suf z)), rd_fwd k z).

(* func (z *bytesDecReader) skip(n uint) {
     if l := uint(cap(z.b)); z.c > l || n > l-z.c { halt.error(&outOfBoundsError{...}) }; z.c += n }
   z.c <= cap holds by construction (the cursor is the length of the consumed prefix);
   l - z.c is the number of bytes left, so the cursor only ever moves forward. *)
Definition rd_skip (n : N) (z : rd) : res rd :=
  if llen (suf z) <? n then Err EEof else Ok (rd_fwd (N.to_nat n) z).

Inductive skind :=
| SPass | SRead1 | SSkip (n : N) | STime | SLen (lw : N).

(* outer switch of nextValueBytesBdReadR *)
Definition sclassify (c : N) : skind :=
  let z := Z.of_N c in
  if (z =? simpleVdNil)%Z || (z =? simpleVdFalse)%Z || (z =? simpleVdTrue)%Z
     || (z =? simpleVdString)%Z || (z =? simpleVdByteArray)%Z then SPass
  else if (z =? simpleVdPosInt)%Z || (z =? simpleVdNegInt)%Z then SRead1
  else if (z =? simpleVdPosInt + 1)%Z || (z =? simpleVdNegInt + 1)%Z then SSkip 2
  else if (z =? simpleVdPosInt + 2)%Z || (z =? simpleVdNegInt + 2)%Z || (z =? simpleVdFloat32)%Z then SSkip 4
  else if (z =? simpleVdPosInt + 3)%Z || (z =? simpleVdNegInt + 3)%Z || (z =? simpleVdFloat64)%Z then SSkip 8
  else if (z =? simpleVdTime)%Z then STime
  else SLen (N.land c 7).

(* inner switch on c&7: cases 5,6,7 fall through with length 0 *)
Definition skip_len (lw : N) (z : rd) : res (N * rd) :=
  match lw with
  | 1 => rd_readn 1 z
  | 2 => rd_readn 2 z
  | 3 => rd_readn 4 z
  | 4 => rd_readn 8 z
  | _ => Ok (0, z)
  end.

Inductive ckind := CExt | CStr | CBytes | CArr | CMap | CNone.
Definition cclassify (c : N) : ckind :=
  let z := Z.of_N c in
  if inr z simpleVdExt 7 then CExt
  else if inr z simpleVdString 7 then CStr
  else if inr z simpleVdByteArray 7 then CBytes
  else if inr z simpleVdArray 7 then CArr
  else if inr z simpleVdMap 7 then CMap
  else CNone.

(* [lvl] = recursion level of nextValueBytesBdReadR; the result carries the deepest level reached.
   [depth] = decoderBase.depth: non-empty arrays and maps do depthIncr / depthDecr around their loop
   (since the F14-1 repair). *)
Definition depth_incr (D : dopts) (depth : Z) : res Z :=
  if (maxdepth D <=? depth + 1)%Z then Err EDepth else Ok (depth + 1)%Z.

(* default branch up to the loops: length field, class check (after the length was read), ext tag *)
Definition skip_head (c : N) (lw : N) (z : rd) : res (ckind * N * rd) :=
  do (len, z1) <- skip_len lw z ;;
  match cclassify c with
  | CNone => Err EBadDesc
  | CExt => do (_, z2) <- rd_readn1 z1 ;; Ok (CExt, len, z2)
  | ck => Ok (ck, len, z1)
  end.

Fixpoint skipv (D : dopts) (fuel : nat) (depth : Z) (lvl : nat) (c : N) (z : rd) {struct fuel} : res rd * nat :=
  match fuel with
  | O => (OutOfFuel, lvl)
  | S f =>
    match sclassify c with
    | SPass => (Ok z, lvl)
    | SRead1 => ((do (_, z1) <- rd_readn1 z ;; Ok z1), lvl)
    | SSkip n => (rd_skip n z, lvl)
    | STime => ((do (n, z1) <- rd_readn1 z ;; rd_skip n z1), lvl)
    | SLen lw =>
      match skip_head c lw z with
      | Err e => (Err e, lvl) | OutOfFuel => (OutOfFuel, lvl)
      | Ok (ck, len, z2) =>
        if len =? 0 then (Ok z2, lvl)
        else match ck with
             | CArr => match depth_incr D depth with
                       | Ok d' => skip_elems D f d' lvl len z2
                       | Err e => (Err e, lvl) | OutOfFuel => (OutOfFuel, lvl)
                       end
             | CMap => match depth_incr D depth with
                       | Ok d' => skip_elems D f d' lvl (2 * len) z2
                       | Err e => (Err e, lvl) | OutOfFuel => (OutOfFuel, lvl)
                       end
             | _ => (rd_skip len z2, lvl)
             end
      end
    end
  end
with skip_elems (D : dopts) (fuel : nat) (depth : Z) (lvl : nat) (cnt : N) (z : rd) {struct fuel} : res rd * nat :=
  if cnt =? 0 then (Ok z, lvl) else
  match fuel with
  | O => (OutOfFuel, lvl)
  | S f =>
    match rd_readn1 z with        (* readNextBd *)
    | Err e => (Err e, lvl) | OutOfFuel => (OutOfFuel, lvl)
    | Ok (c, z1) =>
      let a := skipv D f depth (S lvl) c z1 in
      match fst a with
      | Ok z2 => let b := skip_elems D f depth lvl (N.pred cnt) z2 in (fst b, Nat.max (snd a) (snd b))
      | Err e => (Err e, snd a)
      | OutOfFuel => (OutOfFuel, snd a)
      end
    end
  end.

(* nextValueBytes: readNextBd; startRecording (z.r = z.c-1); walk; stopRecording (z.b[z.r:z.c]).
   [depth] is decoderBase.depth at the call: 0 for Decode(&Raw), 1 inside a struct's map. *)
Definition nvb_i (D : dopts) (fuel : nat) (depth : Z) (z : rd) : res (list N * rd) * nat :=
  match rd_readn1 z with
  | Err e => (Err e, O) | OutOfFuel => (OutOfFuel, O)
  | Ok (c, z1) =>
    let r := rd_cur z in
    let a := skipv D fuel depth 1 c z1 in
    (match fst a with
     | Ok z2 => if rd_cur z2 <? r then Err EEof
                else Ok (firstn (N.to_nat (rd_cur z2 - r)) (skipn (N.to_nat r) (frev (rpre z2))), z2)
     | Err e => Err e
     | OutOfFuel => OutOfFuel
     end, snd a)
  end.

Definition nvb (D : dopts) (fuel : nat) (depth : Z) (z : rd) : res (list N * rd) := fst (nvb_i D fuel depth z).

(* skip one value at the front of [l]: what is left *)
Definition skip (D : dopts) (fuel : nat) (l : list N) : res (list N) :=
  do (_, z) <- nvb D fuel 0 (rd_init l) ;; Ok (suf z).
(* Raw capture: the bytes of the value and what is left *)
Definition raw (D : dopts) (fuel : nat) (l : list N) : res (list N * list N) :=
  do (v, z) <- nvb D fuel 0 (rd_init l) ;; Ok (v, suf z).

(* ------------------------------------------------------------------ *)
(* what an encoded item reads back as                                  *)

Definition norm_pos (zn : bool) (D : dopts) (n : N) : item :=
  if zn && (n =? 0) then INil
  else if signedInteger D then IInt (to_i64 n) else IUint n.

Fixpoint norm (o : eopts) (D : dopts) (key : bool) (i : item) : item :=
  let zn := zeroAsNil o && negb key in
  match i with
  | INil => INil
  | IBool b => if zn && negb b then INil else IBool b
  | IInt z => if (z <? 0)%Z then IInt z else norm_pos zn D (Z.to_N z)
  | IUint n => norm_pos zn D n
  | IF32 b => if zn && f32zero b then INil else IF64 (f32to64 b)
  | IF64 b => if zn && f64zero b then INil else IF64 b
  | IStr s => if zn && isnil s then INil
              else if stringToRaw o then bytes_item D s else IStr s
  | IBytes b => bytes_item D b
  | IArr l => IArr (map (norm o D false) l)
  | IMap l => IMap (map (fun kv => (key_conv (norm o D true (fst kv)), norm o D false (snd kv))) l)
  | ITag t v => ITag t v
  | IExt t b => IExt (t mod 256) b
  | ITime s n => if time_zero s n then INil else ITime s n
  end.

(* items the simple encoder can be handed and that come back: Item.wf plus
   no tags, ext tags are bytes, the instant fits time.Time's int64 seconds, lengths fit an int,
   map keys are hashable once decoded (Go cannot even build other maps) and pairwise
   different once decoded (a repeated key takes the unmodelled decode-into-old-value path) *)
Definition nkey (o : eopts) (D : dopts) (kv : item * item) : item := key_conv (norm o D true (fst kv)).

Fixpoint keys_fresh (o : eopts) (D : dopts) (seen : list item) (l : list (item * item)) : Prop :=
  match l with
  | [] => True
  | kv :: r => seen_key seen (nkey o D kv) = false /\ keys_fresh o D (nkey o D kv :: seen) r
  end.

Definition lenok {A} (l : list A) : Prop := llen l < 2 ^ 63.

Fixpoint swf (o : eopts) (D : dopts) (i : item) : Prop :=
  match i with
  | IInt z => (- 2 ^ 63 <= z < 2 ^ 63)%Z
  | IUint n => n < 2 ^ 64
  | IF32 b => b < 2 ^ 32
  | IF64 b => b < 2 ^ 64
  | IStr s => lenok s
  | IBytes s => lenok s
  | IArr l => lenok l /\ (fix go l := match l with [] => True | x :: r => swf o D x /\ go r end) l
  | IMap l => lenok l /\ keys_fresh o D [] l /\
              (fix go l := match l with
                           | [] => True
                           | kv :: r => (swf o D (fst kv) /\ unhashable (fst kv) = false) /\ swf o D (snd kv) /\ go r
                           end) l
  | ITag _ _ => False
  | IExt t s => t < 256 /\ lenok s
  | ITime s n => (- 2 ^ 63 <= s < 2 ^ 63)%Z /\ (- 2 ^ 63 <= s + unixToInternal < 2 ^ 63)%Z /\ n < 2 ^ 32
  | _ => True
  end.

(* F07-1 class: with SignedInteger, an unsigned value >= 2^63 comes back negative
   (2^64-1 is rejected) *)
Fixpoint sint_ok (i : item) : Prop :=
  match i with
  | IUint n => n < 2 ^ 63
  | IArr l => (fix go l := match l with [] => True | x :: r => sint_ok x /\ go r end) l
  | IMap l => (fix go l := match l with [] => True | kv :: r => sint_ok (fst kv) /\ sint_ok (snd kv) /\ go r end) l
  | _ => True
  end.

(* Wire/JsonTotal — decoding arbitrary bytes into interface{} terminates: fuel linear in the number of
   unread bytes suffices, every successful value consumed at least one byte. *)
From Coq Require Import List NArith ZArith Bool Lia.
From Verif Require Import Base.Outcome Wire.Item Gen.Consts Wire.Json Wire.JsonProofs Wire.JsonRT.
Import ListNotations.
Open Scope N_scope.

(* what totality needs of the string decoder: it ends, and what it leaves unread is no longer than its input *)
Record leaf_total (L : leaf) : Prop := mkleaf_total {
  lt_nofuel : forall l, unquote L l <> OutOfFuel;
  lt_shrink : forall l bs r, unquote L l = Ok (bs, r) -> (length r <= length l)%nat }.

Section Total.
Variable L : leaf.
Hypothesis LT : leaf_total L.

(* outcome [r] is not OutOfFuel and, if a value, leaves at most [m] bytes pending *)
Definition good {A} (m : nat) (r : res (A * st)) : Prop :=
  match r with Ok (_, s') => (pending s' <= m)%nat | Err _ => True | OutOfFuel => False end.
Definition goods (m : nat) (r : res st) : Prop :=
  match r with Ok s' => (pending s' <= m)%nat | Err _ => True | OutOfFuel => False end.

Lemma good_mono : forall A m m' (r : res (A * st)), (m <= m')%nat -> good m r -> good m' r.
Proof. intros A m m' [[a s]|e|] H G; cbn in *; auto. lia. Qed.

Lemma skipws_good : forall l, match skipws l with
  | Ok s1 => isws (tok s1) = false /\ (S (length (inp s1)) <= length l)%nat | Err _ => True | OutOfFuel => False end.
Proof.
  induction l as [|b r IH]; cbn; [exact I|]. destruct (isws b) eqn:E.
  - destruct (skipws r); auto. destruct IH. split; [assumption|lia].
  - cbn. split; [exact E|lia].
Qed.

Lemma advance_good : forall s, match advance s with
  | Ok s1 => isws (tok s1) = false /\ pending s1 = S (length (inp s1)) /\ (pending s1 <= pending s)%nat
  | Err _ => True | OutOfFuel => False end.
Proof.
  intros s. unfold advance. destruct (isws (tok s)) eqn:E.
  - pose proof (skipws_good (inp s)) as H. destruct (skipws (inp s)); auto. destruct H as [H1 H2].
    unfold pending. rewrite H1, E. split; [reflexivity|split; [reflexivity|cbn; lia]].
  - unfold pending. rewrite E. split; [reflexivity|split; [reflexivity|lia]].
Qed.

Lemma lit_good : forall e s1, goods (length (inp s1)) (lit e s1).
Proof.
  intros e s1. unfold lit. destruct (_ <? _)%nat; [exact I|]. destruct (eqbl _ _); [|exact I].
  cbn. unfold pending. cbn. rewrite skipn_length. lia.
Qed.

Lemma numspan_len : forall l a t, numspan l = (a, t) -> (length t <= length l)%nat.
Proof.
  induction l as [|b r IH]; intros a t H; cbn in H.
  - inversion H; subst. cbn. lia.
  - destruct (isnumc b).
    + destruct (numspan r) as [a' t'] eqn:E. inversion H; subst. specialize (IH _ _ eq_refl). cbn. lia.
    + inversion H; subst. lia.
Qed.

Lemma read_num_good : forall s1 bs s2, read_num s1 = (bs, s2) ->
  bs = [] \/ (pending s2 <= length (inp s1))%nat.
Proof.
  intros s1 bs s2. unfold read_num. destruct (isnumc (tok s1)); [|intros H; inversion H; auto].
  destruct (numspan (inp s1)) as [a t] eqn:E. intros H; inversion H; subst. right.
  pose proof (numspan_len _ _ _ E). destruct t as [|b r]; unfold pending; cbn in *; [lia|].
  destruct (isws b); lia.
Qed.

Lemma check_sep_good : forall c s, goods (pending s - 1) (check_sep c s).
Proof.
  intros c s. unfold check_sep. pose proof (advance_good s) as H. destruct (advance s) as [s1| |]; cbn; auto.
  destruct H as (_ & H2 & H3). destruct (tok s1 =? c); cbn; auto. lia.
Qed.

Lemma strkey_good : forall s, good (pending s) (dec_strkey L s).
Proof.
  intros s. unfold dec_strkey. pose proof (advance_good s) as H. destruct (advance s) as [s1| |]; cbn; auto.
  destruct H as (Hw & H2 & H3).
  destruct (tok s1 =? 34).
  { pose proof (lt_nofuel L LT (inp s1)). pose proof (lt_shrink L LT (inp s1)).
    destruct (unquote L (inp s1)) as [[bs r]| |]; cbn; auto. specialize (H0 bs r eq_refl). lia. }
  destruct (tok s1 =? 110).
  { pose proof (lit_good [117; 108; 108] s1). destruct (lit _ s1); cbn in *; auto. lia. }
  destruct (tok s1 =? 102).
  { pose proof (lit_good [97; 108; 115; 101] s1). destruct (lit _ s1); cbn in *; auto. lia. }
  destruct (tok s1 =? 116).
  { pose proof (lit_good [114; 117; 101] s1). destruct (lit _ s1); cbn in *; auto. lia. }
  destruct (read_num s1) as [bs s2] eqn:E. cbn.
  destruct (read_num_good _ _ _ E) as [->|Hp]; [|lia].
  unfold read_num in E. destruct (isnumc (tok s1)).
  - destruct (numspan (inp s1)). inversion E.
  - inversion E; subst. lia.
Qed.

Lemma depth_enter_nofuel : forall D dp, depth_enter D dp <> OutOfFuel.
Proof. intros D dp. unfold depth_enter. destruct (_ <=? _)%Z; discriminate. Qed.

Lemma naked_num_nofuel : forall D bs, naked_num L D bs <> OutOfFuel.
Proof.
  intros D bs. unfold naked_num. destruct (preferFloat D); [destruct (pfloat L bs); discriminate|].
  destruct (Verif.C09.Model.parseUint64_simple _) as [f ok]. destruct ok; [|destruct (pfloat L bs); discriminate].
  destruct (match bs with [] => false | c :: _ => c =? 45 end).
  - destruct (uint2int_ovf f true); [destruct (pfloat L bs)|]; discriminate.
  - destruct (signedInteger D); [destruct (uint2int_ovf f false)|]; discriminate.
Qed.

Lemma total_all : forall D f,
  (forall dp key s, (2 * pending s + 1 <= f)%nat -> good (pending s - 1) (dec L D f dp key s)) /\
  (forall dp first s, (2 * pending s + 2 <= f)%nat -> good (pending s) (dec_elems L D f dp first s)) /\
  (forall dp first seen s, (2 * pending s + 2 <= f)%nat -> good (pending s) (dec_pairs L D f dp first seen s)).
Proof.
  intros D. induction f as [|f (IH1 & IH2 & IH3)].
  { repeat split; intros; lia. }
  split; [|split].
  - intros dp key s Hf. rewrite dec_S.
    pose proof (advance_good s) as H. destruct (advance s) as [s1| |]; cbn [bind]; [|exact I|exact H].
    destruct H as (Hw & H2 & H3).
    destruct (tok s1 =? 110).
    { pose proof (lit_good [117; 108; 108] s1). destruct (lit _ s1); cbn in *; auto. lia. }
    destruct (tok s1 =? 102).
    { pose proof (lit_good [97; 108; 115; 101] s1). destruct (lit _ s1); cbn in *; auto. lia. }
    destruct (tok s1 =? 116).
    { pose proof (lit_good [114; 117; 101] s1). destruct (lit _ s1); cbn in *; auto. lia. }
    destruct (tok s1 =? 123).
    { destruct (depth_enter D dp) eqn:Ed; cbn [bind]; [|exact I|exfalso; eapply depth_enter_nofuel; eauto].
      assert (Hp : pending (mkst 0 (inp s1)) = length (inp s1)) by reflexivity.
      pose proof (IH3 a true [] (mkst 0 (inp s1)) ltac:(lia)) as G.
      destruct (dec_pairs L D f a true [] _) as [[kvs s2]| |]; cbn in G |- *; [lia|exact I|exact G]. }
    destruct (tok s1 =? 91).
    { destruct (depth_enter D dp) eqn:Ed; cbn [bind]; [|exact I|exfalso; eapply depth_enter_nofuel; eauto].
      assert (Hp : pending (mkst 0 (inp s1)) = length (inp s1)) by reflexivity.
      pose proof (IH2 a true (mkst 0 (inp s1)) ltac:(lia)) as G.
      destruct (dec_elems L D f a true _) as [[xs s2]| |]; cbn in G |- *; [lia|exact I|exact G]. }
    destruct (tok s1 =? 34).
    { pose proof (lt_nofuel L LT (inp s1)). pose proof (lt_shrink L LT (inp s1)).
      destruct (unquote L (inp s1)) as [[bs r]| |]; cbn; auto. specialize (H0 bs r eq_refl). lia. }
    destruct (read_num s1) as [bs s2] eqn:E.
    destruct (read_num_good _ _ _ E) as [->|Hp]; [exact I|].
    destruct (isnil bs); [exact I|]. pose proof (naked_num_nofuel D bs). destruct (naked_num L D bs); cbn; auto. lia.
  - intros dp first s Hf. rewrite dec_elems_S.
    pose proof (advance_good s) as H. destruct (advance s) as [s1| |]; cbn [bind]; [|exact I|exact H].
    destruct H as (Hw & H2 & H3).
    destruct ((tok s1 =? 125) || (tok s1 =? 93)).
    { destruct (tok s1 =? 93); cbn; auto. lia. }
    assert (Hs2 : goods (pending s1) (if first then Ok s1 else check_sep 44 s1)).
    { destruct first; [cbn; lia|]. pose proof (check_sep_good 44 s1). destruct (check_sep 44 s1); cbn in *; auto. lia. }
    destruct (if first then Ok s1 else check_sep 44 s1) as [s2| |]; cbn [bind]; [|exact I|exact Hs2]. cbn in Hs2.
    pose proof (IH1 dp false s2 ltac:(lia)) as G1.
    destruct (dec L D f dp false s2) as [[x s3]| |]; cbn [bind]; [|exact I|exact G1]. cbn in G1.
    pose proof (IH2 dp false s3 ltac:(lia)) as G2.
    destruct (dec_elems L D f dp false s3) as [[xs s4]| |]; cbn [bind]; [|exact I|exact G2]. cbn in *. lia.
  - intros dp first seen s Hf. rewrite dec_pairs_S.
    pose proof (advance_good s) as H. destruct (advance s) as [s1| |]; cbn [bind]; [|exact I|exact H].
    destruct H as (Hw & H2 & H3).
    destruct ((tok s1 =? 125) || (tok s1 =? 93)).
    { destruct (tok s1 =? 125); cbn; auto. lia. }
    assert (Hs2 : goods (pending s1) (if first then Ok s1 else check_sep 44 s1)).
    { destruct first; [cbn; lia|]. pose proof (check_sep_good 44 s1). destruct (check_sep 44 s1); cbn in *; auto. lia. }
    destruct (if first then Ok s1 else check_sep 44 s1) as [s2| |]; cbn [bind]; [|exact I|exact Hs2]. cbn in Hs2.
    destruct (smap D).
    + pose proof (strkey_good s2) as Gk.
      destruct (dec_strkey L s2) as [[k s3]| |]; cbn [bind]; [|exact I|exact Gk]. cbn in Gk.
      pose proof (check_sep_good 58 s3) as Gc.
      destruct (check_sep 58 s3) as [s4| |]; cbn [bind]; [|exact I|exact Gc]. cbn in Gc.
      destruct (seen_key seen k); [exact I|].
      pose proof (IH1 dp false s4 ltac:(lia)) as G1.
      destruct (dec L D f dp false s4) as [[v s5]| |]; cbn [bind]; [|exact I|exact G1]. cbn in G1.
      pose proof (IH3 dp false (k :: seen) s5 ltac:(lia)) as G3.
      destruct (dec_pairs L D f dp false (k :: seen) s5) as [[kvs s6]| |]; cbn [bind]; [|exact I|exact G3]. cbn in *. lia.
    + pose proof (IH1 dp true s2 ltac:(lia)) as Gk.
      destruct (dec L D f dp true s2) as [[k s3]| |]; cbn [bind]; [|exact I|exact Gk]. cbn in Gk.
      pose proof (check_sep_good 58 s3) as Gc.
      destruct (check_sep 58 s3) as [s4| |]; cbn [bind]; [|exact I|exact Gc]. cbn in Gc.
      pose proof (advance_good s4) as Ga. destruct (advance s4) as [s5| |]; cbn [bind]; [|exact I|exact Ga].
      destruct Ga as (_ & _ & Ga).
      destruct (unhashable k); [exact I|]. destruct (seen_key seen k); [exact I|].
      pose proof (IH1 dp false s5 ltac:(lia)) as G1.
      destruct (dec L D f dp false s5) as [[v s6]| |]; cbn [bind]; [|exact I|exact G1]. cbn in G1.
      pose proof (IH3 dp false (k :: seen) s6 ltac:(lia)) as G3.
      destruct (dec_pairs L D f dp false (k :: seen) s6) as [[kvs s7]| |]; cbn [bind]; [|exact I|exact G3]. cbn in *. lia.
Qed.

(* exported *)
Lemma dec_total_lemma : forall D s fuel dp key,
  (2 * pending s + 1 <= fuel)%nat -> dec L D fuel dp key s <> OutOfFuel.
Proof.
  intros D s fuel dp key Hf H. pose proof (proj1 (total_all D fuel) dp key s Hf) as G. rewrite H in G. exact G.
Qed.

Lemma dec_progress_lemma : forall D s fuel dp key x s',
  (2 * pending s + 1 <= fuel)%nat -> dec L D fuel dp key s = Ok (x, s') -> (pending s' < pending s)%nat.
Proof.
  intros D s fuel dp key x s' Hf H. pose proof (proj1 (total_all D fuel) dp key s Hf) as G. rewrite H in G. cbn in G.
  assert (pending s <> 0)%nat; [|lia].
  intros Hz. destruct fuel as [|f]; [cbn in H; discriminate|]. rewrite dec_S in H.
  pose proof (advance_good s) as Ha. destruct (advance s) as [s1| |]; cbn in H; try discriminate. lia.
Qed.

Lemma dec_naked_total_lemma : forall D l, dec_naked L D (dec_fuel (st0 l)) l <> OutOfFuel.
Proof.
  intros D l H. unfold dec_naked in H.
  pose proof (dec_total_lemma D (st0 l) (dec_fuel (st0 l)) 0%Z false ltac:(unfold dec_fuel; lia)) as G.
  destruct (dec L D (dec_fuel (st0 l)) 0 false (st0 l)) as [[i s]| |]; cbn in H; try discriminate. congruence.
Qed.

End Total.

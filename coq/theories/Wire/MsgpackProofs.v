(* Wire/MsgpackProofs — lemmas about the msgpack model, for all items / all inputs. *)
From Coq Require Import List NArith ZArith Lia Bool Arith.
From Coq Require Import ZifyN ZifyNat ZifyBool.
From Verif Require Import Base.Outcome Wire.Item Gen.Consts Wire.Msgpack.
Import ListNotations.
Local Open Scope N_scope.

(* injection / inversion normalise the big numerals inside model terms and can take minutes:
   take equations between results apart with these instead *)
Lemma Ok_inj : forall A (a b : A), Ok a = Ok b -> a = b.
Proof. intros A a b H. injection H. auto. Qed.
Lemma pair_inj : forall A B (a a' : A) (b b' : B), (a, b) = (a', b') -> a = a' /\ b = b'.
Proof. intros A B a a' b b' H. injection H. auto. Qed.
Ltac okinv H := apply Ok_inj in H; apply pair_inj in H; destruct H as [? ?].

(* ================================================================== *)
(* instrumented results *)

Lemma fst_ibind : forall A B (r : ires A) (f : A -> ires B),
  fst (ibind r f) = match fst r with Ok a => fst (f a) | Err e => Err e | OutOfFuel => OutOfFuel end.
Proof. intros. unfold ibind. destruct (fst r); reflexivity. Qed.

Lemma snd_ibind_le : forall A B (r : ires A) (f : A -> ires B) m,
  (snd r <= m)%nat -> (forall a, (snd (f a) <= m)%nat) -> (snd (ibind r f) <= m)%nat.
Proof.
  intros A B r f m H1 H2. unfold ibind. destruct (fst r); cbn [snd]; auto.
  specialize (H2 a). lia.
Qed.

(* ================================================================== *)
(* lists, split_at *)

Lemma len_app : forall A (a b : list A), len (a ++ b) = len a + len b.
Proof. intros. unfold len. rewrite app_length. lia. Qed.

Lemma len_cons : forall A (x : A) l, len (x :: l) = len l + 1.
Proof. intros. unfold len. cbn [length]. lia. Qed.

Lemma len_nil : forall A, len (@nil A) = 0.
Proof. reflexivity. Qed.

Lemma split_at_app : forall s r, split_at (len s) (s ++ r) = Some (s, r).
Proof.
  induction s as [|x s IH]; intros r.
  - cbn. destruct r; reflexivity.
  - rewrite len_cons. cbn [app split_at].
    destruct (N.eqb_spec (len s + 1) 0) as [E|_]; [lia|].
    replace (len s + 1 - 1) with (len s) by lia. rewrite IH. reflexivity.
Qed.

Lemma split_at_some : forall b n p q, split_at n b = Some (p, q) -> b = p ++ q /\ len p = n.
Proof.
  induction b as [|x b IH]; intros n p q H; cbn [split_at] in H.
  - destruct (N.eqb_spec n 0); [|discriminate]. inversion H; subst. split; reflexivity.
  - destruct (N.eqb_spec n 0).
    + inversion H; subst. split; reflexivity.
    + destruct (split_at (n - 1) b) as [[p' q']|] eqn:E; [|discriminate].
      inversion H; subst. apply IH in E. destruct E as [E1 E2]. subst b.
      split; [reflexivity|]. rewrite len_cons. lia.
Qed.

Lemma split_at_none : forall b n, split_at n b = None -> len b < n.
Proof.
  induction b as [|x b IH]; intros n H; cbn [split_at] in H.
  - destruct (N.eqb_spec n 0); [discriminate|]. unfold len; cbn. lia.
  - destruct (N.eqb_spec n 0); [discriminate|].
    destruct (split_at (n - 1) b) as [[p' q']|] eqn:E; [discriminate|].
    apply IH in E. rewrite len_cons. lia.
Qed.

(* ================================================================== *)
(* reader *)

Lemma rd_nk_app : forall k x r, length x = k -> rd_nk k (x ++ r) = Ok (x, r).
Proof.
  intros k x r H. unfold rd_nk. subst k.
  rewrite firstn_app, Nat.sub_diag, firstn_all. cbn [firstn]. rewrite app_nil_r.
  rewrite Nat.ltb_irrefl.
  rewrite skipn_app, Nat.sub_diag, skipn_all. reflexivity.
Qed.

Lemma rd_nk_ok : forall k b x r, rd_nk k b = Ok (x, r) -> b = x ++ r /\ length x = k.
Proof.
  intros k b x r H. unfold rd_nk in H.
  destruct (Nat.ltb_spec (length (firstn k b)) k); [discriminate|].
  inversion H; subst. split; [symmetry; apply firstn_skipn|].
  pose proof (firstn_le_length k b). lia.
Qed.

Lemma rd_nk_nofuel : forall k b, rd_nk k b <> OutOfFuel.
Proof. intros. unfold rd_nk. destruct (_ <? _)%nat; discriminate. Qed.

Lemma rd_n1_ok : forall b x r, rd_n1 b = Ok (x, r) -> b = x :: r.
Proof. intros [|y b] x r H; cbn in H; inversion H; reflexivity. Qed.

Lemma rd_n1_nofuel : forall b, rd_n1 b <> OutOfFuel.
Proof. intros [|y b]; discriminate. Qed.

(* a Go slice: cap fits an int *)
Definition goslice (cap : N) : Prop := cap < 2 ^ 63.

Lemma rd_readx_app : forall cap s r, cap + len s < 2 ^ 64 -> rd_readx cap (len s) (s ++ r) = Ok (s, r).
Proof.
  intros cap s r H. unfold rd_readx.
  destruct (N.ltb_spec (cap + len s) (2 ^ 64)); [|lia].
  rewrite split_at_app. reflexivity.
Qed.

Lemma rd_readx_ok : forall cap n b x r, cap + n < 2 ^ 64 -> rd_readx cap n b = Ok (x, r) -> b = x ++ r /\ len x = n.
Proof.
  intros cap n b x r Hc H. unfold rd_readx in H.
  destruct (N.ltb_spec (cap + n) (2 ^ 64)); [|lia].
  destruct (split_at n b) as [[p q]|] eqn:E; [|discriminate]. inversion H; subst.
  apply split_at_some in E. exact E.
Qed.

Lemma rd_readx_nofuel : forall cap n b, rd_readx cap n b <> OutOfFuel.
Proof.
  intros. unfold rd_readx, rd_readx_lit.
  destruct (_ <? _); [destruct (split_at n b); discriminate|].
  destruct (_ || _); discriminate.
Qed.

Lemma rd_skip_app : forall s r, rd_skip (len s) (s ++ r) = Ok r.
Proof. intros. unfold rd_skip. rewrite split_at_app. reflexivity. Qed.

Lemma rd_skip_ok : forall n b r, rd_skip n b = Ok r -> exists x, b = x ++ r /\ len x = n.
Proof.
  intros n b r H. unfold rd_skip in H.
  destruct (split_at n b) as [[p q]|] eqn:E; [|discriminate]. inversion H; subst.
  apply split_at_some in E. exists p. exact E.
Qed.

Lemma rd_skip_nofuel : forall n b, rd_skip n b <> OutOfFuel.
Proof. intros. unfold rd_skip. destruct (split_at n b); discriminate. Qed.

(* the parsers' reader operations are the literal cursor arithmetic whenever the invariant
   len b <= cap (the suffix is part of the buffer) holds *)
Lemma firstn_skipn_split_at : forall b n, n <= len b ->
  split_at n b = Some (firstn (N.to_nat n) b, skipn (N.to_nat n) b).
Proof.
  induction b as [|x b IH]; intros n H.
  - unfold len in H; cbn in H. assert (n = 0) by lia. subst. reflexivity.
  - cbn [split_at]. destruct (N.eqb_spec n 0) as [->|Hn]; [reflexivity|].
    rewrite len_cons in H. rewrite IH by lia.
    replace (N.to_nat n) with (S (N.to_nat (n - 1))) by lia. reflexivity.
Qed.

Lemma rd_skip_lit_eq : forall cap n b, len b <= cap -> rd_skip n b = rd_skip_lit cap n b.
Proof.
  intros cap n b H. unfold rd_skip, rd_skip_lit, cursor.
  destruct (N.ltb_spec cap (cap - len b)); [lia|]. cbn [orb].
  replace (cap - (cap - len b)) with (len b) by lia.
  destruct (N.ltb_spec (len b) n) as [Hlt|Hge].
  - destruct (split_at n b) as [[p q]|] eqn:E; [|reflexivity].
    apply split_at_some in E. destruct E as [-> E]. rewrite len_app in Hlt. lia.
  - rewrite firstn_skipn_split_at by assumption. reflexivity.
Qed.

Lemma rd_readx_lit_eq : forall cap n b, len b <= cap -> cap + n < 2 ^ 64 -> rd_readx cap n b = rd_readx_lit cap n b.
Proof.
  intros cap n b H Hw. unfold rd_readx, rd_readx_lit, cursor, wrap.
  destruct (N.ltb_spec (cap + n) (2 ^ 64)); [|lia].
  rewrite N.mod_small by lia.
  destruct (N.ltb_spec (cap - len b + n) (cap - len b)); [lia|]. cbn [orb].
  destruct (N.ltb_spec cap (cap - len b + n)) as [Hlt|Hge].
  - destruct (split_at n b) as [[p q]|] eqn:E; [|reflexivity].
    apply split_at_some in E. destruct E as [-> E]. rewrite len_app in *. lia.
  - rewrite firstn_skipn_split_at by lia. reflexivity.
Qed.

(* F02-1 analogue: msgpack lengths are at most 32 bits wide, a Go slice has cap < 2^63, so
   the sum z.c+n formed by readx can never wrap (and after fix 9c7e1f6 skip forms no sum). *)
Lemma msgpack_readx_nowrap : forall cap n b, goslice cap -> n < 2 ^ 32 -> len b <= cap ->
  rd_readx cap n b = rd_readx_lit cap n b /\ cursor cap b + n < 2 ^ 64.
Proof.
  intros cap n b Hc Hn Hb. unfold goslice in Hc. split.
  - apply rd_readx_lit_eq; [assumption|]. lia.
  - unfold cursor. lia.
Qed.

(* ================================================================== *)
(* the outcome component of the instrumented parsers, as plain equations *)

Section Plain.
  Variable D : dopts.
  Variable cap : N.

  Definition decF f d b := fst (decI D cap f d b).
  Definition seqF f d n b := fst (dec_seq D cap f d n b).
  Definition pairsF f d n b := fst (dec_pairs D cap f d n b).

  Definition ext_body (n : N) (r0 : list N) : res (item * list N) :=
    do (tag, r1) <- rd_n1 r0 ;;
    if tag =? bTimeExtTagU then dec_time n r1
    else do (s, r2) <- rd_readx cap n r1 ;; Ok (IExt tag s, r2).

  Definition dec_body (f : nat) (depth : Z) (bd : N) (r : list N) : res (item * list N) :=
    match classify bd with
    | DNil => Ok (INil, r)
    | DFalse => Ok (IBool false, r)
    | DTrue => Ok (IBool true, r)
    | DF32 => do (x, r') <- rd_nk 4 r ;; Ok (IF64 (f32_to_f64 (be_get x)), r')
    | DF64 => do (x, r') <- rd_nk 8 r ;; Ok (IF64 (be_get x), r')
    | DUint k => do (x, r') <- rd_nk k r ;; do it <- mkuint_r D (be_get x) ;; Ok (it, r')
    | DInt k => do (x, r') <- rd_nk k r ;; Ok (IInt (signed (8 * N.of_nat k) (be_get x)), r')
    | DFixNum => Ok (IInt (signed 8 bd), r)
    | DStr w =>
        do (n, r1) <- rd_len bFixStrMin bd w r ;;
        do (s, r2) <- rd_readx cap n r1 ;;
        Ok (mkraw (d_writeext D || d_rawtostring D) s, r2)
    | DBin w =>
        do (n, r1) <- rd_len 0 bd w r ;;
        do (s, r2) <- rd_readx cap n r1 ;;
        Ok (mkraw (d_rawtostring D) s, r2)
    | DArr w =>
        do (n, r1) <- rd_len bFixArrayMin bd w r ;;
        do d' <- depth_incr D depth ;;
        do (l, r2) <- seqF f d' n r1 ;;
        Ok (IArr l, r2)
    | DMap w =>
        do (n, r1) <- rd_len bFixMapMin bd w r ;;
        do d' <- depth_incr D depth ;;
        do (l, r2) <- pairsF f d' n r1 ;;
        Ok (IMap l, r2)
    | DFixExt n => ext_body n r
    | DExt w => do (n, r0) <- rd_len 0 bd w r ;; ext_body n r0
    | DBad => Err EBadDesc
    end.

  Lemma decF_0 : forall d b, decF 0 d b = OutOfFuel.
  Proof. reflexivity. Qed.

  Lemma decF_nil : forall f d, decF (S f) d [] = Err EEof.
  Proof. reflexivity. Qed.

  Ltac case_res x := let e := fresh "e" in destruct x as [[? ?]|e|]; cbn [bind fst snd ilift ibind iret ierr iframe].

  Lemma decF_S : forall f d bd r, decF (S f) d (bd :: r) = dec_body f d bd r.
  Proof.
    intros f d bd r. unfold decF, dec_body, ext_body. cbn [decI].
    destruct (classify bd); cbn [fst iframe iret ierr ilift]; try reflexivity.
    - (* arr *)
      rewrite fst_ibind. cbn [fst ilift].
      destruct (rd_len bFixArrayMin bd w r) as [[n r1]|e|]; cbn [bind]; try reflexivity.
      rewrite fst_ibind. cbn [fst ilift].
      destruct (depth_incr D d) as [d'|e|]; cbn [bind]; try reflexivity.
      rewrite fst_ibind. unfold seqF.
      match goal with |- match fst ?X with _ => _ end = _ => change X with (dec_seq D cap f d' n r1) end.
      destruct (fst (dec_seq D cap f d' n r1)) as [[l r2]|e|]; cbn [bind]; reflexivity.
    - (* map *)
      rewrite fst_ibind. cbn [fst ilift].
      destruct (rd_len bFixMapMin bd w r) as [[n r1]|e|]; cbn [bind]; try reflexivity.
      rewrite fst_ibind. cbn [fst ilift].
      destruct (depth_incr D d) as [d'|e|]; cbn [bind]; try reflexivity.
      rewrite fst_ibind. unfold pairsF.
      match goal with |- match fst ?X with _ => _ end = _ => change X with (dec_pairs D cap f d' n r1) end.
      destruct (fst (dec_pairs D cap f d' n r1)) as [[l r2]|e|]; cbn [bind]; reflexivity.
  Qed.

  Lemma seqF_eq : forall f d n b,
    seqF f d n b =
    if n =? 0 then Ok ([], b)
    else match f with
         | O => OutOfFuel
         | S f' => do (x, r) <- decF f' d b ;; do (xs, r') <- seqF f' d (n - 1) r ;; Ok (x :: xs, r')
         end.
  Proof.
    intros f d n b. unfold seqF, decF. destruct f; cbn [dec_seq]; destruct (n =? 0); try reflexivity.
    rewrite fst_ibind.
    match goal with |- match fst ?X with _ => _ end = _ => change X with (decI D cap f d b) end.
    destruct (fst (decI D cap f d b)) as [[x r]|e|]; cbn [bind]; try reflexivity.
    rewrite fst_ibind.
    match goal with |- match fst ?X with _ => _ end = _ => change X with (dec_seq D cap f d (n - 1) r) end.
    destruct (fst (dec_seq D cap f d (n - 1) r)) as [[xs r']|e|]; cbn [bind]; reflexivity.
  Qed.

  Lemma pairsF_eq : forall f d n b,
    pairsF f d n b =
    if n =? 0 then Ok ([], b)
    else match f with
         | O => OutOfFuel
         | S f' =>
             do (k, r) <- decF f' d b ;;
             do (v, r') <- decF f' d r ;;
             if hashable (key_fix k) then
               do (xs, r'') <- pairsF f' d (n - 1) r' ;; Ok ((key_fix k, v) :: xs, r'')
             else Err EOther
         end.
  Proof.
    intros f d n b. unfold pairsF, decF. destruct f; cbn [dec_pairs]; destruct (n =? 0); try reflexivity.
    rewrite fst_ibind.
    match goal with |- match fst ?X with _ => _ end = _ => change X with (decI D cap f d b) end.
    destruct (fst (decI D cap f d b)) as [[k r]|e|]; cbn [bind]; try reflexivity.
    rewrite fst_ibind.
    match goal with |- match fst ?X with _ => _ end = _ => change X with (decI D cap f d r) end.
    destruct (fst (decI D cap f d r)) as [[v r']|e|]; cbn [bind]; try reflexivity.
    destruct (hashable (key_fix k)); [|reflexivity].
    rewrite fst_ibind.
    match goal with |- match fst ?X with _ => _ end = _ => change X with (dec_pairs D cap f d (n - 1) r') end.
    destruct (fst (dec_pairs D cap f d (n - 1) r')) as [[xs r'']|e|]; cbn [bind]; reflexivity.
  Qed.
End Plain.

(* ================================================================== *)
(* totality: fuel linear in the input length is never exhausted, for EVERY byte list *)

Definition nl {A} (b : list N) (r : res (A * list N)) : Prop :=
  r <> OutOfFuel /\ forall a rest, r = Ok (a, rest) -> (length rest <= length b)%nat.
Definition nls {A} (b : list N) (r : res (A * list N)) : Prop :=
  r <> OutOfFuel /\ forall a rest, r = Ok (a, rest) -> (length rest < length b)%nat.

Lemma nl_bind : forall A B (b : list N) (r : res (A * list N)) (k : A * list N -> res (B * list N)),
  nl b r -> (forall a b', r = Ok (a, b') -> (length b' <= length b)%nat -> nl b' (k (a, b'))) -> nl b (bind r k).
Proof.
  intros A B b r k [H1 H2] H3. destruct r as [[a b']|e|]; cbn [bind].
  - specialize (H2 a b' eq_refl). destruct (H3 a b' eq_refl H2) as [H4 H5]. split; [assumption|].
    intros a0 rest E. apply H5 in E. lia.
  - split; [discriminate|intros; discriminate].
  - contradiction H1; reflexivity.
Qed.

Lemma nl_ok : forall A (b r : list N) (a : A), (length r <= length b)%nat -> nl b (Ok (a, r)).
Proof. intros. split; [discriminate|]. intros a0 rest E. inversion E; subst. assumption. Qed.

Lemma nl_err : forall A (b : list N) e, nl b (@Err (A * list N) e).
Proof. intros. split; [discriminate|intros; discriminate]. Qed.

Lemma nl_nls : forall A x (b : list N) (r : res (A * list N)), nl b r -> nls (x :: b) r.
Proof. intros A x b r [H1 H2]. split; [assumption|]. intros a rest E. apply H2 in E. cbn [length]. lia. Qed.

Lemma nl_rd_nk : forall k b, nl b (rd_nk k b).
Proof.
  intros. split; [apply rd_nk_nofuel|]. intros x r E. apply rd_nk_ok in E. destruct E as [-> _].
  rewrite app_length. lia.
Qed.

Lemma nl_rd_n1 : forall b, nl b (rd_n1 b).
Proof.
  intros. split; [apply rd_n1_nofuel|]. intros x r E. apply rd_n1_ok in E. subst. cbn [length]. lia.
Qed.

Lemma nl_rd_len : forall fm bd w b, nl b (rd_len fm bd w b).
Proof.
  intros. unfold rd_len. destruct w.
  - apply nl_ok. lia.
  - apply nl_bind; [apply nl_rd_nk|]. intros a b' _ Hl. apply nl_ok. lia.
Qed.

Lemma nl_rd_readx : forall cap n b, nl b (rd_readx cap n b).
Proof.
  intros. split; [apply rd_readx_nofuel|]. intros x r E. unfold rd_readx in E.
  destruct (_ <? _).
  - destruct (split_at n b) as [[p q]|] eqn:S; [|discriminate]. inversion E; subst.
    apply split_at_some in S. destruct S as [-> _]. rewrite app_length. lia.
  - unfold rd_readx_lit in E. destruct (_ || _); [discriminate|]. inversion E; subst.
    rewrite skipn_length. lia.
Qed.

Lemma nl_rd_skip : forall n b, rd_skip n b <> OutOfFuel /\ forall r, rd_skip n b = Ok r -> (length r <= length b)%nat.
Proof.
  intros. split; [apply rd_skip_nofuel|]. intros r E. apply rd_skip_ok in E.
  destruct E as [x [-> _]]. rewrite app_length. lia.
Qed.

Lemma nl_dec_time : forall n b, nl b (dec_time n b).
Proof.
  intros. unfold dec_time.
  destruct (n =? 4).
  { apply nl_bind; [apply nl_rd_nk|]. intros a b' _ Hl. apply nl_ok. lia. }
  destruct (n =? 8).
  { apply nl_bind; [apply nl_rd_nk|]. intros a b' _ Hl. apply nl_ok. lia. }
  destruct (n =? 12); [|apply nl_err].
  apply nl_bind; [apply nl_rd_nk|]. intros a b' _ Hl.
  apply nl_bind; [apply nl_rd_nk|]. intros a2 b2 _ Hl2. apply nl_ok. lia.
Qed.

Lemma nl_ext_body : forall cap n b, nl b (ext_body cap n b).
Proof.
  intros. unfold ext_body.
  apply nl_bind; [apply nl_rd_n1|]. intros tag b' _ Hl.
  destruct (tag =? bTimeExtTagU); [apply nl_dec_time|].
  apply nl_bind; [apply nl_rd_readx|]. intros s b2 _ Hl2. apply nl_ok. lia.
Qed.

Lemma nl_le : forall A (b b' : list N) (r : res (A * list N)), nl b' r -> (length b' <= length b)%nat -> nl b r.
Proof. intros A b b' r [H1 H2] Hl. split; [assumption|]. intros a rest E. apply H2 in E. lia. Qed.

Section Total.
  Variable D : dopts.
  Variable cap : N.

  Lemma dec_body_total : forall f d bd r,
    (forall d' n r1, (length r1 <= length r)%nat -> nl r1 (seqF D cap f d' n r1)) ->
    (forall d' n r1, (length r1 <= length r)%nat -> nl r1 (pairsF D cap f d' n r1)) ->
    nl r (dec_body D cap f d bd r).
  Proof.
    intros f d bd r Hs Hp. unfold dec_body.
    destruct (classify bd);
      try (apply nl_ok; lia); try apply nl_err;
      try (apply nl_bind; [apply nl_rd_nk|]; intros a b' _ Hl; apply nl_ok; lia).
    - apply nl_bind; [apply nl_rd_nk|]. intros a b' _ Hl.
      unfold mkuint_r. destruct (_ && _); cbn [bind]; [apply nl_err|apply nl_ok; lia].
    - apply nl_bind; [apply nl_rd_len|]. intros n r1 _ Hl.
      apply nl_bind; [apply nl_rd_readx|]. intros s r2 _ Hl2. apply nl_ok; lia.
    - apply nl_bind; [apply nl_rd_len|]. intros n r1 _ Hl.
      apply nl_bind; [apply nl_rd_readx|]. intros s r2 _ Hl2. apply nl_ok; lia.
    - apply nl_bind; [apply nl_rd_len|]. intros n r1 _ Hl.
      destruct (depth_incr D d) as [d'|e|] eqn:Ed; cbn [bind].
      + apply nl_bind; [apply Hs; assumption|]. intros l r2 _ Hl2. apply nl_ok; lia.
      + apply nl_err.
      + unfold depth_incr in Ed. destruct (_ <=? _)%Z; discriminate.
    - apply nl_bind; [apply nl_rd_len|]. intros n r1 _ Hl.
      destruct (depth_incr D d) as [d'|e|] eqn:Ed; cbn [bind].
      + apply nl_bind; [apply Hp; assumption|]. intros l r2 _ Hl2. apply nl_ok; lia.
      + apply nl_err.
      + unfold depth_incr in Ed. destruct (_ <=? _)%Z; discriminate.
    - apply nl_ext_body.
    - apply nl_bind; [apply nl_rd_len|]. intros n r1 _ Hl. apply nl_ext_body.
  Qed.

  Lemma dec_total_aux : forall f,
    (forall d b, (2 * length b + 1 <= f)%nat -> nls b (decF D cap f d b)) /\
    (forall d n b, (2 * length b + 2 <= f)%nat -> nl b (seqF D cap f d n b)) /\
    (forall d n b, (2 * length b + 2 <= f)%nat -> nl b (pairsF D cap f d n b)).
  Proof.
    induction f as [|f [IHd [IHs IHp]]].
    - repeat apply conj; intros; lia.
    - repeat apply conj.
      + intros d [|bd r] Hf.
        * rewrite decF_nil. split; [discriminate|intros; discriminate].
        * rewrite decF_S. apply nl_nls. cbn [length] in Hf.
          apply dec_body_total; intros d' n r1 Hl; [apply IHs|apply IHp]; lia.
      + intros d n b Hf. rewrite seqF_eq. destruct (n =? 0); [apply nl_ok; lia|].
        destruct (IHd d b ltac:(lia)) as [H1 H2].
        destruct (decF D cap f d b) as [[x r]|e|] eqn:E; cbn [bind]; [|apply nl_err|contradiction H1; reflexivity].
        specialize (H2 x r eq_refl).
        apply nl_le with (b' := r); [|lia].
        apply nl_bind; [apply IHs; lia|]. intros xs r' _ Hl. apply nl_ok; lia.
      + intros d n b Hf. rewrite pairsF_eq. destruct (n =? 0); [apply nl_ok; lia|].
        destruct (IHd d b ltac:(lia)) as [H1 H2].
        destruct (decF D cap f d b) as [[k r]|e|] eqn:E; cbn [bind]; [|apply nl_err|contradiction H1; reflexivity].
        specialize (H2 k r eq_refl).
        destruct (IHd d r ltac:(lia)) as [H3 H4].
        destruct (decF D cap f d r) as [[v r']|e|] eqn:E2; cbn [bind]; [|apply nl_err|contradiction H3; reflexivity].
        specialize (H4 v r' eq_refl).
        destruct (hashable (key_fix k)); [|apply nl_err].
        apply nl_le with (b' := r'); [|lia].
        apply nl_bind; [apply IHp; lia|]. intros xs r'' _ Hl. apply nl_ok; lia.
  Qed.
End Total.

(* dec_total: for every option vector and EVERY byte list the decoder model returns a value or an
   error with fuel 2*len+1, and what it leaves unread is a strictly shorter list *)
Lemma dec_total : forall D b, dec_naked D (dec_fuel b) b <> OutOfFuel.
Proof.
  intros D b. unfold dec_naked, dec_fuel.
  destruct (dec_total_aux D (len b) (2 * length b + 1)) as [H _].
  destruct (H 0%Z b ltac:(lia)) as [H1 _]. exact H1.
Qed.

Lemma dec_progress : forall D b i rest, dec_naked D (dec_fuel b) b = Ok (i, rest) -> (length rest < length b)%nat.
Proof.
  intros D b i rest E. unfold dec_naked, dec_fuel in E.
  destruct (dec_total_aux D (len b) (2 * length b + 1)) as [H _].
  destruct (H 0%Z b ltac:(lia)) as [_ H2]. eapply H2. exact E.
Qed.

(* ================================================================== *)
(* skip: plain equations and totality *)

Section SkipPlain.
  Variable D : dopts.

  Definition skipF f d b := fst (skipI D f d b).
  Definition sseqF f d n b := fst (skip_seq D f d n b).
  Definition spairsF f d n b := fst (skip_pairs D f d n b).

  Definition skip_ext_fix (n : N) (r : list N) : res (list N) :=
    do (_, r1) <- rd_n1 r ;;
    if n =? 1 then (do (_, r2) <- rd_n1 r1 ;; Ok r2) else rd_skip n r1.

  Definition skip_body (f : nat) (depth : Z) (bd : N) (r : list N) : res (list N) :=
    match classify bd with
    | DNil | DFalse | DTrue | DFixNum => Ok r
    | DF32 => rd_skip 4 r
    | DF64 => rd_skip 8 r
    | DUint k | DInt k =>
        match k with
        | 1%nat => do (_, r') <- rd_n1 r ;; Ok r'
        | _ => rd_skip (N.of_nat k) r
        end
    | DStr w => do (n, r1) <- rd_len bFixStrMin bd w r ;; rd_skip n r1
    | DBin w => do (n, r1) <- rd_len 0 bd w r ;; rd_skip n r1
    | DArr w =>
        do (n, r1) <- rd_len bFixArrayMin bd w r ;;
        do d' <- depth_incr D depth ;;
        sseqF f d' n r1
    | DMap w =>
        do (n, r1) <- rd_len bFixMapMin bd w r ;;
        do d' <- depth_incr D depth ;;
        spairsF f d' n r1
    | DFixExt n => skip_ext_fix n r
    | DExt w => do (n, r0) <- rd_len 0 bd w r ;; do (_, r1) <- rd_n1 r0 ;; rd_skip n r1
    | DBad => Err EBadDesc
    end.

  Lemma skipF_nil : forall f d, skipF (S f) d [] = Err EEof.
  Proof. reflexivity. Qed.

  Lemma skipF_S : forall f d bd r, skipF (S f) d (bd :: r) = skip_body f d bd r.
  Proof.
    intros f d bd r. unfold skipF, skip_body, skip_ext_fix. cbn [skipI].
    destruct (classify bd); cbn [fst iframe iret ierr ilift]; try reflexivity.
    - destruct k as [|[|k]]; reflexivity.
    - destruct k as [|[|k]]; reflexivity.
    - rewrite fst_ibind. cbn [fst ilift].
      destruct (rd_len bFixArrayMin bd w r) as [[n r1]|e|]; cbn [bind]; try reflexivity.
      rewrite fst_ibind. cbn [fst ilift].
      destruct (depth_incr D d) as [d'|e|]; cbn [bind]; reflexivity.
    - rewrite fst_ibind. cbn [fst ilift].
      destruct (rd_len bFixMapMin bd w r) as [[n r1]|e|]; cbn [bind]; try reflexivity.
      rewrite fst_ibind. cbn [fst ilift].
      destruct (depth_incr D d) as [d'|e|]; cbn [bind]; reflexivity.
  Qed.

  Lemma sseqF_eq : forall f d n b,
    sseqF f d n b =
    if n =? 0 then Ok b
    else match f with
         | O => OutOfFuel
         | S f' => do r <- skipF f' d b ;; sseqF f' d (n - 1) r
         end.
  Proof.
    intros f d n b. unfold sseqF, skipF. destruct f; cbn [skip_seq]; destruct (n =? 0); try reflexivity.
    rewrite fst_ibind.
    match goal with |- match fst ?X with _ => _ end = _ => change X with (skipI D f d b) end.
    destruct (fst (skipI D f d b)) as [r|e|]; cbn [bind]; reflexivity.
  Qed.

  Lemma spairsF_eq : forall f d n b,
    spairsF f d n b =
    if n =? 0 then Ok b
    else match f with
         | O => OutOfFuel
         | S f' => do r <- skipF f' d b ;; do r' <- skipF f' d r ;; spairsF f' d (n - 1) r'
         end.
  Proof.
    intros f d n b. unfold spairsF, skipF. destruct f; cbn [skip_pairs]; destruct (n =? 0); try reflexivity.
    rewrite fst_ibind.
    match goal with |- match fst ?X with _ => _ end = _ => change X with (skipI D f d b) end.
    destruct (fst (skipI D f d b)) as [r|e|]; cbn [bind]; try reflexivity.
    rewrite fst_ibind.
    match goal with |- match fst ?X with _ => _ end = _ => change X with (skipI D f d r) end.
    destruct (fst (skipI D f d r)) as [r'|e|]; cbn [bind]; reflexivity.
  Qed.

  (* no-longer / strictly-shorter for results that are just the rest *)
  Definition sl (b : list N) (r : res (list N)) : Prop :=
    r <> OutOfFuel /\ forall rest, r = Ok rest -> (length rest <= length b)%nat.

  Lemma sl_ok : forall b r, (length r <= length b)%nat -> sl b (Ok r).
  Proof. intros. split; [discriminate|]. intros rest E. inversion E; subst; assumption. Qed.
  Lemma sl_err : forall b e, sl b (Err e).
  Proof. intros. split; [discriminate|intros; discriminate]. Qed.
  Lemma sl_le : forall b b' r, sl b' r -> (length b' <= length b)%nat -> sl b r.
  Proof. intros b b' r [H1 H2] Hl. split; [assumption|]. intros rest E. apply H2 in E. lia. Qed.
  Lemma sl_rd_skip : forall n b, sl b (rd_skip n b).
  Proof. intros. exact (nl_rd_skip n b). Qed.
  Lemma sl_bind : forall A b (r : res (A * list N)) (k : A * list N -> res (list N)),
    nl b r -> (forall a b', (length b' <= length b)%nat -> sl b' (k (a, b'))) -> sl b (bind r k).
  Proof.
    intros A b r k [H1 H2] H3. destruct r as [[a b']|e|]; cbn [bind].
    - specialize (H2 a b' eq_refl). apply sl_le with (b' := b'); [apply H3; assumption|assumption].
    - apply sl_err.
    - contradiction H1; reflexivity.
  Qed.

  Lemma skip_body_total : forall f d bd r,
    (forall d' n r1, (length r1 <= length r)%nat -> sl r1 (sseqF f d' n r1)) ->
    (forall d' n r1, (length r1 <= length r)%nat -> sl r1 (spairsF f d' n r1)) ->
    sl r (skip_body f d bd r).
  Proof.
    intros f d bd r Hs Hp. unfold skip_body, skip_ext_fix.
    destruct (classify bd); try (apply sl_ok; lia); try apply sl_err; try apply sl_rd_skip.
    - destruct k as [|[|k]]; try apply sl_rd_skip.
      apply sl_bind; [apply nl_rd_n1|]. intros a b' Hl. apply sl_ok; lia.
    - destruct k as [|[|k]]; try apply sl_rd_skip.
      apply sl_bind; [apply nl_rd_n1|]. intros a b' Hl. apply sl_ok; lia.
    - apply sl_bind; [apply nl_rd_len|]. intros n r1 Hl. apply sl_rd_skip.
    - apply sl_bind; [apply nl_rd_len|]. intros n r1 Hl. apply sl_rd_skip.
    - apply sl_bind; [apply nl_rd_len|]. intros n r1 Hl.
      destruct (depth_incr D d) as [d'|e|] eqn:Ed; cbn [bind].
      + apply Hs; assumption.
      + apply sl_err.
      + unfold depth_incr in Ed. destruct (_ <=? _)%Z; discriminate.
    - apply sl_bind; [apply nl_rd_len|]. intros n r1 Hl.
      destruct (depth_incr D d) as [d'|e|] eqn:Ed; cbn [bind].
      + apply Hp; assumption.
      + apply sl_err.
      + unfold depth_incr in Ed. destruct (_ <=? _)%Z; discriminate.
    - apply sl_bind; [apply nl_rd_n1|]. intros a b' Hl.
      destruct (n =? 1); [|apply sl_rd_skip].
      apply sl_bind; [apply nl_rd_n1|]. intros a2 b2 Hl2. apply sl_ok; lia.
    - apply sl_bind; [apply nl_rd_len|]. intros n r1 Hl.
      apply sl_bind; [apply nl_rd_n1|]. intros a b' Hl2. apply sl_rd_skip.
  Qed.

  Definition sls (b : list N) (r : res (list N)) : Prop :=
    r <> OutOfFuel /\ forall rest, r = Ok rest -> (length rest < length b)%nat.

  Lemma skip_total_aux : forall f,
    (forall d b, (2 * length b + 1 <= f)%nat -> sls b (skipF f d b)) /\
    (forall d n b, (2 * length b + 2 <= f)%nat -> sl b (sseqF f d n b)) /\
    (forall d n b, (2 * length b + 2 <= f)%nat -> sl b (spairsF f d n b)).
  Proof.
    induction f as [|f [IHd [IHs IHp]]].
    - repeat apply conj; intros; lia.
    - repeat apply conj.
      + intros d [|bd r] Hf.
        * rewrite skipF_nil. split; [discriminate|intros; discriminate].
        * rewrite skipF_S. cbn [length] in Hf.
          destruct (skip_body_total f d bd r) as [H1 H2].
          { intros d' n r1 Hl. apply IHs. lia. }
          { intros d' n r1 Hl. apply IHp. lia. }
          split; [assumption|]. intros rest E. apply H2 in E. cbn [length]. lia.
      + intros d n b Hf. rewrite sseqF_eq. destruct (n =? 0); [apply sl_ok; lia|].
        destruct (IHd d b ltac:(lia)) as [H1 H2].
        destruct (skipF f d b) as [r|e|] eqn:E; cbn [bind]; [|apply sl_err|contradiction H1; reflexivity].
        specialize (H2 r eq_refl).
        apply sl_le with (b' := r); [|lia]. apply IHs. lia.
      + intros d n b Hf. rewrite spairsF_eq. destruct (n =? 0); [apply sl_ok; lia|].
        destruct (IHd d b ltac:(lia)) as [H1 H2].
        destruct (skipF f d b) as [r|e|] eqn:E; cbn [bind]; [|apply sl_err|contradiction H1; reflexivity].
        specialize (H2 r eq_refl).
        destruct (IHd d r ltac:(lia)) as [H3 H4].
        destruct (skipF f d r) as [r'|e|] eqn:E2; cbn [bind]; [|apply sl_err|contradiction H3; reflexivity].
        specialize (H4 r' eq_refl).
        apply sl_le with (b' := r'); [|lia]. apply IHp. lia.
  Qed.
End SkipPlain.

Lemma skip_total : forall D d0 b, skip_at D d0 (dec_fuel b) b <> OutOfFuel.
Proof.
  intros D d0 b. unfold skip_at, dec_fuel.
  destruct (skip_total_aux D (2 * length b + 1)) as [H _].
  destruct (H d0 b ltac:(lia)) as [H1 _]. exact H1.
Qed.

Lemma skip_progress : forall D d0 b rest, skip_at D d0 (dec_fuel b) b = Ok rest -> (length rest < length b)%nat.
Proof.
  intros D d0 b rest E. unfold skip_at, dec_fuel in E.
  destruct (skip_total_aux D (2 * length b + 1)) as [H _].
  destruct (H d0 b ltac:(lia)) as [_ H2]. apply H2. exact E.
Qed.

(* ================================================================== *)
(* depth: the recursion of both parsers is bounded by MaxDepth, whatever the input *)

(* every recursive call happens at a depth below maxdepth, so the number of nested frames is at
   most maxdepth - depth *)
Section Depth.
  Variable D : dopts.
  Variable cap : N.

  Definition room (d : Z) : nat := Z.to_nat (maxdepth D - d).

  Lemma depth_incr_ok : forall d d', depth_incr D d = Ok d' -> d' = (d + 1)%Z /\ (d + 1 < maxdepth D)%Z.
  Proof.
    intros d d' H. unfold depth_incr in H. destruct (Z.leb_spec (maxdepth D) (d + 1)); [discriminate|].
    inversion H. split; [reflexivity|lia].
  Qed.

  Lemma snd_ilift : forall A (r : res A), snd (ilift r) = O.
  Proof. reflexivity. Qed.

  Lemma dec_rec_aux : forall f,
    (forall d b, (d < maxdepth D)%Z -> (snd (decI D cap f d b) <= room d)%nat) /\
    (forall d n b, (d < maxdepth D)%Z -> (snd (dec_seq D cap f d n b) <= room d)%nat) /\
    (forall d n b, (d < maxdepth D)%Z -> (snd (dec_pairs D cap f d n b) <= room d)%nat).
  Proof.
    induction f as [|f [IHd [IHs IHp]]].
    - repeat apply conj; intros; cbn [decI dec_seq dec_pairs]; try destruct (n =? 0); cbn; lia.
    - repeat apply conj.
      + intros d b Hd. cbn [decI]. unfold iframe. cbn [snd].
        assert (Hr : (1 <= room d)%nat) by (unfold room; lia).
        destruct b as [|bd r]; [cbn; lia|].
        destruct (classify bd); cbn [snd iret ierr ilift]; try lia.
        * (* arr *)
          assert (forall n r1 d', depth_incr D d = Ok d' ->
                    (S (snd (dec_seq D cap f d' n r1)) <= room d)%nat) as Hrec.
          { intros n r1 d' Hi. apply depth_incr_ok in Hi. destruct Hi as [-> Hlt].
            specialize (IHs (d + 1)%Z n r1 Hlt). unfold room in *. lia. }
          unfold ibind at 1. cbn [fst snd ilift].
          destruct (rd_len bFixArrayMin bd w r) as [[n r1]|e|]; cbn [snd]; try lia.
          unfold ibind at 1. cbn [fst snd ilift].
          destruct (depth_incr D d) as [d'|e|] eqn:Ed; cbn [snd]; try lia.
          specialize (Hrec n r1 d' eq_refl).
          unfold ibind.
          match goal with |- context [fst ?X] => change X with (dec_seq D cap f d' n r1) end.
          destruct (fst (dec_seq D cap f d' n r1)) as [[l r2]|e|]; cbn [snd fst iret];
          match goal with |- context [snd ?X] => change X with (dec_seq D cap f d' n r1) end; lia.
        * (* map *)
          assert (forall n r1 d', depth_incr D d = Ok d' ->
                    (S (snd (dec_pairs D cap f d' n r1)) <= room d)%nat) as Hrec.
          { intros n r1 d' Hi. apply depth_incr_ok in Hi. destruct Hi as [-> Hlt].
            specialize (IHp (d + 1)%Z n r1 Hlt). unfold room in *. lia. }
          unfold ibind at 1. cbn [fst snd ilift].
          destruct (rd_len bFixMapMin bd w r) as [[n r1]|e|]; cbn [snd]; try lia.
          unfold ibind at 1. cbn [fst snd ilift].
          destruct (depth_incr D d) as [d'|e|] eqn:Ed; cbn [snd]; try lia.
          specialize (Hrec n r1 d' eq_refl).
          unfold ibind.
          match goal with |- context [fst ?X] => change X with (dec_pairs D cap f d' n r1) end.
          destruct (fst (dec_pairs D cap f d' n r1)) as [[l r2]|e|]; cbn [snd fst iret];
          match goal with |- context [snd ?X] => change X with (dec_pairs D cap f d' n r1) end; lia.
      + intros d n b Hd. cbn [dec_seq]. destruct (n =? 0); [cbn; lia|].
        apply snd_ibind_le; [apply IHd; assumption|]. intros [x r].
        apply snd_ibind_le; [apply IHs; assumption|]. intros [xs r']. cbn; lia.
      + intros d n b Hd. cbn [dec_pairs]. destruct (n =? 0); [cbn; lia|].
        apply snd_ibind_le; [apply IHd; assumption|]. intros [k r].
        apply snd_ibind_le; [apply IHd; assumption|]. intros [v r'].
        destruct (hashable (key_fix k)); [|cbn; lia].
        apply snd_ibind_le; [apply IHp; assumption|]. intros [xs r'']. cbn; lia.
  Qed.
End Depth.

Section SkipDepth.
  Variable D : dopts.

  Lemma skip_rec_aux : forall f,
    (forall d b, (d < maxdepth D)%Z -> (snd (skipI D f d b) <= room D d)%nat) /\
    (forall d n b, (d < maxdepth D)%Z -> (snd (skip_seq D f d n b) <= room D d)%nat) /\
    (forall d n b, (d < maxdepth D)%Z -> (snd (skip_pairs D f d n b) <= room D d)%nat).
  Proof.
    induction f as [|f [IHd [IHs IHp]]].
    - repeat apply conj; intros; cbn [skipI skip_seq skip_pairs]; try destruct (n =? 0); cbn; lia.
    - repeat apply conj.
      + intros d b Hd. cbn [skipI]. unfold iframe. cbn [snd].
        assert (Hr : (1 <= room D d)%nat) by (unfold room; lia).
        destruct b as [|bd r]; [cbn; lia|].
        destruct (classify bd); cbn [snd iret ierr ilift]; try lia.
        * destruct k as [|[|k]]; cbn [snd ilift]; lia.
        * destruct k as [|[|k]]; cbn [snd ilift]; lia.
        * unfold ibind at 1. cbn [fst snd ilift].
          destruct (rd_len bFixArrayMin bd w r) as [[n r1]|e|]; cbn [snd]; try lia.
          unfold ibind at 1. cbn [fst snd ilift].
          destruct (depth_incr D d) as [d'|e|] eqn:Ed; cbn [snd]; try lia.
          apply depth_incr_ok in Ed. destruct Ed as [-> Hlt].
          specialize (IHs (d + 1)%Z n r1 Hlt).
          match goal with |- context [snd ?X] => change X with (skip_seq D f (d + 1) n r1) end.
          unfold room in *. lia.
        * unfold ibind at 1. cbn [fst snd ilift].
          destruct (rd_len bFixMapMin bd w r) as [[n r1]|e|]; cbn [snd]; try lia.
          unfold ibind at 1. cbn [fst snd ilift].
          destruct (depth_incr D d) as [d'|e|] eqn:Ed; cbn [snd]; try lia.
          apply depth_incr_ok in Ed. destruct Ed as [-> Hlt].
          specialize (IHp (d + 1)%Z n r1 Hlt).
          match goal with |- context [snd ?X] => change X with (skip_pairs D f (d + 1) n r1) end.
          unfold room in *. lia.
      + intros d n b Hd. cbn [skip_seq]. destruct (n =? 0); [cbn; lia|].
        apply snd_ibind_le; [apply IHd; assumption|]. intros r. apply IHs; assumption.
      + intros d n b Hd. cbn [skip_pairs]. destruct (n =? 0); [cbn; lia|].
        apply snd_ibind_le; [apply IHd; assumption|]. intros r.
        apply snd_ibind_le; [apply IHd; assumption|]. intros r'. apply IHp; assumption.
  Qed.
End SkipDepth.

Lemma maxdepth_pos : forall D, (1 <= maxdepth D)%Z.
Proof. intros. unfold maxdepth. destruct (Z.ltb_spec 0 (d_maxdepth D)); [lia|]. vm_compute. discriminate. Qed.

(* dec_depth (recursion): whatever the bytes, the decoder never has more than MaxDepth frames
   of its recursive function active *)
Lemma dec_depth_rec : forall D fuel b, (Z.of_nat (dec_maxrec D fuel b) <= maxdepth D)%Z.
Proof.
  intros. unfold dec_maxrec. pose proof (maxdepth_pos D) as Hp.
  destruct (dec_rec_aux D (len b) fuel) as [H _]. specialize (H 0%Z b ltac:(lia)).
  unfold room in H. lia.
Qed.

(* the same for the skip parser (after the F14-1 repair) *)
Lemma skip_depth_rec : forall D fuel b, (Z.of_nat (skip_maxrec D fuel b) <= maxdepth D)%Z.
Proof.
  intros. unfold skip_maxrec. pose proof (maxdepth_pos D) as Hp.
  destruct (skip_rec_aux D fuel) as [H _]. specialize (H 0%Z b ltac:(lia)).
  unfold room in H. lia.
Qed.

(* dec_depth (values): nothing nested MaxDepth or more levels is ever produced *)
Section DepthVal.
  Variable D : dopts.
  Variable cap : N.

  Definition ldepth (l : list item) : nat := fold_right (fun x m => Nat.max (depth x) m) 0%nat l.
  Definition pdepth (l : list (item * item)) : nat :=
    fold_right (fun kv m => Nat.max (Nat.max (depth (fst kv)) (depth (snd kv))) m) 0%nat l.

  Lemma depth_key_fix : forall k, depth (key_fix k) = depth k.
  Proof. destruct k; reflexivity. Qed.

  Lemma unix_time_depth : forall s n, depth (unix_time s n) = 0%nat.
  Proof. reflexivity. Qed.

  Lemma dec_time_depth : forall n b i r, dec_time n b = Ok (i, r) -> depth i = 0%nat.
  Proof.
    intros n b i r H. unfold dec_time in H.
    destruct (n =? 4).
    { destruct (rd_nk 4 b) as [[x r']|e|]; cbn [bind] in H; try discriminate.
      okinv H. subst i. apply unix_time_depth. }
    destruct (n =? 8).
    { destruct (rd_nk 8 b) as [[x r']|e|]; cbn [bind] in H; try discriminate.
      okinv H. subst i. apply unix_time_depth. }
    destruct (n =? 12); [|discriminate].
    destruct (rd_nk 4 b) as [[x r']|e|]; cbn [bind] in H; try discriminate.
    destruct (rd_nk 8 r') as [[y r'']|e|]; cbn [bind] in H; try discriminate.
    okinv H. subst i. apply unix_time_depth.
  Qed.

  Lemma ext_body_depth : forall n b i r, ext_body cap n b = Ok (i, r) -> depth i = 0%nat.
  Proof.
    intros n b i r H. unfold ext_body in H.
    destruct (rd_n1 b) as [[tag r1]|e|]; cbn [bind] in H; try discriminate.
    destruct (tag =? bTimeExtTagU); [eapply dec_time_depth; exact H|].
    destruct (rd_readx cap n r1) as [[s r2]|e|]; cbn [bind] in H; inversion H; reflexivity.
  Qed.

  Lemma dec_val_depth_aux : forall f,
    (forall d b i r, decF D cap f d b = Ok (i, r) -> (d + Z.of_nat (depth i) < Z.max (maxdepth D) (d + 1))%Z) /\
    (forall d n b l r, (d < maxdepth D)%Z -> seqF D cap f d n b = Ok (l, r) -> (d + Z.of_nat (ldepth l) <= maxdepth D - 1)%Z) /\
    (forall d n b l r, (d < maxdepth D)%Z -> pairsF D cap f d n b = Ok (l, r) -> (d + Z.of_nat (pdepth l) <= maxdepth D - 1)%Z).
  Proof.
    induction f as [|f [IHd [IHs IHp]]].
    - repeat apply conj.
      + intros d b i r H. discriminate.
      + intros d n b l r Hd H. rewrite seqF_eq in H. destruct (n =? 0); [|discriminate]. inversion H; subst. cbn. lia.
      + intros d n b l r Hd H. rewrite pairsF_eq in H. destruct (n =? 0); [|discriminate]. inversion H; subst. cbn. lia.
    - repeat apply conj.
      + intros d [|bd b] i r H; [discriminate|]. rewrite decF_S in H. unfold dec_body in H.
        destruct (classify bd);
          try (inversion H; subst; cbn [depth]; lia);
          try (destruct (rd_nk _ b) as [[x r']|e|]; cbn [bind] in H; inversion H; subst; unfold mkuint; try destruct (d_signedinteger D); cbn [depth]; lia).
        * destruct (rd_nk k b) as [[x r']|e|]; cbn [bind] in H; try discriminate.
          unfold mkuint_r, mkuint in H.
          destruct (d_signedinteger D && (2 ^ 63 <=? be_get x)); cbn [bind] in H; try discriminate.
          destruct (d_signedinteger D); okinv H; subst i; cbn [depth]; lia.
        * destruct (rd_len bFixStrMin bd w b) as [[n r1]|e|]; cbn [bind] in H; try discriminate.
          destruct (rd_readx cap n r1) as [[s r2]|e|]; cbn [bind] in H; inversion H; subst.
          unfold mkraw. destruct (_ || _); cbn [depth]; lia.
        * destruct (rd_len 0 bd w b) as [[n r1]|e|]; cbn [bind] in H; try discriminate.
          destruct (rd_readx cap n r1) as [[s r2]|e|]; cbn [bind] in H; inversion H; subst.
          unfold mkraw. destruct (d_rawtostring D); cbn [depth]; lia.
        * destruct (rd_len bFixArrayMin bd w b) as [[n r1]|e|]; cbn [bind] in H; try discriminate.
          destruct (depth_incr D d) as [d'|e|] eqn:Ed; cbn [bind] in H; try discriminate.
          apply depth_incr_ok in Ed. destruct Ed as [-> Hlt].
          destruct (seqF D cap f (d + 1) n r1) as [[l r2]|e|] eqn:Es; cbn [bind] in H; inversion H; subst.
          apply IHs in Es; [|assumption]. cbn [depth]. fold (ldepth l). lia.
        * destruct (rd_len bFixMapMin bd w b) as [[n r1]|e|]; cbn [bind] in H; try discriminate.
          destruct (depth_incr D d) as [d'|e|] eqn:Ed; cbn [bind] in H; try discriminate.
          apply depth_incr_ok in Ed. destruct Ed as [-> Hlt].
          destruct (pairsF D cap f (d + 1) n r1) as [[l r2]|e|] eqn:Es; cbn [bind] in H; inversion H; subst.
          apply IHp in Es; [|assumption]. cbn [depth]. fold (pdepth l). lia.
        * apply ext_body_depth in H. lia.
        * destruct (rd_len 0 bd w b) as [[n r1]|e|]; cbn [bind] in H; try discriminate.
          apply ext_body_depth in H. lia.
      + intros d n b l r Hd H. rewrite seqF_eq in H. destruct (n =? 0); [inversion H; subst; cbn; lia|].
        destruct (decF D cap f d b) as [[x r1]|e|] eqn:E1; cbn [bind] in H; try discriminate.
        destruct (seqF D cap f d (n - 1) r1) as [[xs r2]|e|] eqn:E2; cbn [bind] in H; inversion H; subst.
        apply IHd in E1. apply IHs in E2; [|assumption]. cbn [ldepth fold_right]. fold (ldepth xs). lia.
      + intros d n b l r Hd H. rewrite pairsF_eq in H. destruct (n =? 0); [inversion H; subst; cbn; lia|].
        destruct (decF D cap f d b) as [[k r1]|e|] eqn:E1; cbn [bind] in H; try discriminate.
        destruct (decF D cap f d r1) as [[v r2]|e|] eqn:E2; cbn [bind] in H; try discriminate.
        destruct (hashable (key_fix k)); [|discriminate].
        destruct (pairsF D cap f d (n - 1) r2) as [[xs r3]|e|] eqn:E3; cbn [bind] in H; inversion H; subst.
        apply IHd in E1. apply IHd in E2. apply IHp in E3; [|assumption].
        cbn [pdepth fold_right fst snd]. fold (pdepth xs). rewrite depth_key_fix. lia.
  Qed.
End DepthVal.

Lemma dec_depth_val : forall D fuel b i rest,
  dec_naked D fuel b = Ok (i, rest) -> (Z.of_nat (depth i) < maxdepth D)%Z.
Proof.
  intros D fuel b i rest H. unfold dec_naked in H.
  destruct (dec_val_depth_aux D (len b) fuel) as [Hd _].
  apply Hd in H. pose proof (maxdepth_pos D). lia.
Qed.

(* k one-element arrays around nil, k >= MaxDepth: exactly the depth error, for every k *)
Definition nested_arr (k : nat) : list N := repeat (N.lor bFixArrayMin 1) k ++ [bNil].

Lemma nested_arr_err : forall D cap k f d,
  (d < maxdepth D)%Z -> (maxdepth D <= d + Z.of_nat k)%Z -> (2 * k + 1 <= f)%nat ->
  decF D cap f d (nested_arr k) = Err EDepth.
Proof.
  intros D cap k. induction k as [|k IH]; intros f d Hd Hk Hf; [lia|].
  destruct f as [|f]; [lia|].
  unfold nested_arr. cbn [repeat app]. rewrite decF_S. unfold dec_body.
  change (classify (N.lor bFixArrayMin 1)) with (DArr 0).
  cbn [rd_len bind]. change (N.lxor bFixArrayMin (N.lor bFixArrayMin 1)) with 1.
  unfold depth_incr. destruct (Z.leb_spec (maxdepth D) (d + 1)) as [Hle|Hgt]; [reflexivity|].
  cbn [bind]. rewrite seqF_eq. cbn [N.eqb]. destruct f as [|f]; [lia|].
  fold (nested_arr k). rewrite IH by lia. reflexivity.
Qed.

Lemma dec_depth_err : forall D k, (maxdepth D <= Z.of_nat k)%Z ->
  dec_naked D (dec_fuel (nested_arr k)) (nested_arr k) = Err EDepth.
Proof.
  intros D k Hk. unfold dec_naked. apply nested_arr_err.
  - pose proof (maxdepth_pos D). lia.
  - lia.
  - unfold dec_fuel, nested_arr. rewrite app_length, repeat_length. cbn [length]. lia.
Qed.

(* F14-3 for msgpack on a 64-bit platform: a length read from the stream is int(uintW) with
   W <= 32, never negative, so it can never equal the containerLenNil sentinel (math.MinInt32)
   that makes arrayStart/mapStart skip depthIncr.  (On a 32-bit platform int(uint32) can: see
   the report; repaired in msgpack.go readContainerLen.) *)
Lemma rd_len_not_nil : forall fm bd w b n r, rd_len fm bd w b = Ok (n, r) -> Z.of_N n <> containerLenNil.
Proof. intros fm bd w b n r _. unfold containerLenNil. lia. Qed.

(* C09 — the executable reference reader (Spec.unescape = denote . parse_items) reads
   back what the grammar renders: the grammar is unambiguous, so theorems stated
   with render_lit/denote also hold for the function Spec.unescape. *)
From Coq Require Import List NArith ZArith Bool Lia.
From Coq Require Import ZifyN ZifyNat ZifyBool.
From Verif Require Import Gen.Consts Base.Outcome C09.Spec C09.Model C09.ProofsStr C09.ProofsQuote.
Import ListNotations.
Open Scope bool_scope.
Open Scope N_scope.
Ltac Zify.zify_post_hook ::= Z.div_mod_to_equations.

Lemma eqbl_false_len1 : forall x a b r, eqbl [x] (a :: b :: r) = false.
Proof. intros. cbn [eqbl]. apply andb_false_r. Qed.

Lemma eqbl_false_hd : forall x xs a r, x <> a -> eqbl (x :: xs) (a :: r) = false.
Proof. intros x xs a r H. cbn [eqbl]. replace (x =? a) with false by (symmetry; apply N.eqb_neq; exact H). reflexivity. Qed.

(* a well-formed encoding decodes to its code point *)
Lemma decode1_encode : forall cp rest, scalar cp = true ->
  decode1 (utf8_encode cp ++ rest) = Some (cp, length (utf8_encode cp)).
Proof.
  intros cp rest Hs.
  assert (Hmax : cp < 0x110000) by (unfold scalar in Hs; lia).
  unfold utf8_encode at 1.
  destruct (cp <? 128) eqn:E1.
  { cbn [app decode1]. rewrite E1. unfold utf8_encode. rewrite E1. reflexivity. }
  destruct (cp <? 2048) eqn:E2.
  { cbn [app decode1].
    replace (192 + cp / 64 <? 128) with false by lia.
    assert (Hc : (192 + cp / 64) mod 32 * 64 + (128 + cp mod 64) mod 64 = cp) by lia.
    rewrite Hc. unfold is_enc. rewrite Hs. unfold utf8_encode. rewrite E1, E2. rewrite eqbl_refl. reflexivity. }
  destruct (cp <? 65536) eqn:E3.
  { cbn [app decode1].
    replace (224 + cp / 4096 <? 128) with false by lia.
    set (c2 := (224 + cp / 4096) mod 32 * 64 + (128 + cp / 64 mod 64) mod 64).
    assert (Hc2 : c2 < 2048) by (unfold c2; lia).
    assert (F2 : is_enc c2 [224 + cp / 4096; 128 + cp / 64 mod 64] = false).
    { unfold is_enc, utf8_encode. replace (c2 <? 2048) with true by lia.
      destruct (c2 <? 128) eqn:G1; [rewrite eqbl_false_len1; apply andb_false_r|].
      rewrite eqbl_false_hd by lia. apply andb_false_r. }
    rewrite F2.
    assert (Hc : (224 + cp / 4096) mod 16 * 4096 + (128 + cp / 64 mod 64) mod 64 * 64 + (128 + cp mod 64) mod 64 = cp) by lia.
    rewrite Hc. unfold is_enc. rewrite Hs. unfold utf8_encode. rewrite E1, E2, E3. rewrite eqbl_refl. reflexivity. }
  cbn [app decode1].
  replace (240 + cp / 262144 <? 128) with false by lia.
  set (c2 := (240 + cp / 262144) mod 32 * 64 + (128 + cp / 4096 mod 64) mod 64).
  assert (Hc2 : 128 <= c2 < 2048) by (unfold c2; lia).
  assert (F2 : is_enc c2 [240 + cp / 262144; 128 + cp / 4096 mod 64] = false).
  { unfold is_enc, utf8_encode. replace (c2 <? 128) with false by lia. replace (c2 <? 2048) with true by lia.
    rewrite eqbl_false_hd by lia. apply andb_false_r. }
  rewrite F2.
  set (c3 := (240 + cp / 262144) mod 16 * 4096 + (128 + cp / 4096 mod 64) mod 64 * 64 + (128 + cp / 64 mod 64) mod 64).
  assert (Hc3 : c3 < 65536) by (unfold c3; lia).
  assert (F3 : is_enc c3 [240 + cp / 262144; 128 + cp / 4096 mod 64; 128 + cp / 64 mod 64] = false).
  { unfold is_enc, utf8_encode. replace (c3 <? 65536) with true by lia.
    destruct (c3 <? 128) eqn:G1; [cbn [eqbl]; rewrite !andb_false_r; reflexivity|].
    destruct (c3 <? 2048) eqn:G2; [rewrite eqbl_false_hd by lia; apply andb_false_r|].
    rewrite eqbl_false_hd by lia. apply andb_false_r. }
  rewrite F3.
  assert (Hc : (240 + cp / 262144) mod 8 * 262144 + (128 + cp / 4096 mod 64) mod 64 * 4096
               + (128 + cp / 64 mod 64) mod 64 * 64 + (128 + cp mod 64) mod 64 = cp) by lia.
  rewrite Hc. unfold is_enc. rewrite Hs. unfold utf8_encode. rewrite E1, E2, E3. rewrite eqbl_refl. reflexivity.
Qed.

Lemma skipn_app_len : forall (a b : list N), skipn (length a) (a ++ b) = b.
Proof. induction a as [|x a IH]; intros b; [reflexivity|exact (IH b)]. Qed.

Lemma esc_not_u : forall c, is_esc c = true -> (c =? 117) = false.
Proof. intros c H. unfold is_esc in H. lia. Qed.

Lemma parse_render : forall l f tl, forallb wf_item l = true -> (length l < f)%nat ->
  parse_items f (render_items l ++ 34 :: tl) = Some (l, tl).
Proof.
  induction l as [|i l IH]; intros f tl Hwf Hf.
  - destruct f as [|f]; [cbn in Hf; lia|]. reflexivity.
  - cbn [forallb] in Hwf. apply andb_true_iff in Hwf. destruct Hwf as [Hi Hwf].
    destruct f as [|f]; [cbn in Hf; lia|]. cbn [length] in Hf.
    rewrite render_cons.
    destruct i as [cp|c|a b c d].
    + (* unescaped character *)
      cbn [render_item].
      pose proof (utf8_plain cp Hi) as Hp. pose proof (utf8_nonempty cp) as Hne.
      assert (Hs : scalar cp = true).
      { pose proof Hi as Hi2. cbn [wf_item] in Hi2.
        repeat (apply andb_true_iff in Hi2; destruct Hi2 as [Hi2 ?]). exact Hi2. }
      pose proof (decode1_encode cp (render_items l ++ 34 :: tl) Hs) as Hd.
      destruct (utf8_encode cp) as [|b0 bs] eqn:Eenc; [congruence|].
      cbn [forallb] in Hp. apply andb_true_iff in Hp. destruct Hp as [Hb0 _].
      unfold plain in Hb0.
      cbn [app parse_items].
      replace (b0 =? 34) with false by lia. replace (b0 =? 92) with false by lia.
      cbn [app] in Hd. rewrite Hd. rewrite Hi.
      change (b0 :: bs ++ render_items l ++ 34 :: tl) with ((b0 :: bs) ++ render_items l ++ 34 :: tl).
      rewrite skipn_app_len. rewrite (IH f tl Hwf) by lia. reflexivity.
    + cbn [render_item app parse_items].
      change (92 =? 34) with false. change (92 =? 92) with true. cbv iota.
      cbn [wf_item] in Hi. rewrite (esc_not_u c Hi), Hi.
      rewrite (IH f tl Hwf) by lia. reflexivity.
    + cbn [render_item app parse_items].
      change (92 =? 34) with false. change (92 =? 92) with true. change (117 =? 117) with true. cbv iota.
      rewrite Hi. rewrite (IH f tl Hwf) by lia. reflexivity.
Qed.

(* JsonStd.unescape on the text of a literal followed by anything *)
Lemma unescape_render : forall l tl, forallb wf_item l = true ->
  unescape (render_lit l ++ tl) = Some (denote l, tl).
Proof.
  intros l tl Hwf. unfold render_lit. cbn [app]. unfold unescape. change (34 =? 34) with true. cbv iota.
  rewrite <- app_assoc. cbn [app].
  rewrite (parse_render l _ tl Hwf); [reflexivity|].
  rewrite app_length. pose proof (render_length l). cbn [length]. lia.
Qed.

Lemma quote_unescape : forall (h : bool) (s : list N),
  unescape (quoteStr h s) = Some (utf8_sanitise s, []) /\ quote_valid (quoteStr h s) = true.
Proof.
  intros h s. destruct (quote_lemma h s) as (l & Hwf & Hq & Hd).
  assert (E : unescape (quoteStr h s) = Some (utf8_sanitise s, [])).
  { rewrite Hq. rewrite <- (app_nil_r (render_lit l)). rewrite (unescape_render l [] Hwf). rewrite Hd. reflexivity. }
  split; [exact E|]. unfold quote_valid. rewrite E. reflexivity.
Qed.

(* the decoder model agrees with the function JsonStd.unescape on every valid literal
   outside the known-finding class *)
Lemma unescape_fn : forall l tl, forallb wf_item l = true -> nopin l = true ->
  match unescape (render_lit l ++ tl) with
  | Some (d, rest) => dec_string (render_lit l ++ tl) = Ok (d, rest)
  | None => False
  end.
Proof.
  intros l tl Hwf Hn. rewrite (unescape_render l tl Hwf). apply unescape_lemma; assumption.
Qed.

(* C09 — executable models of the JSON text code of /repo/codec (hand written,
   tied to the code by the correspondence check in Corr.v / harness/cmd/c09):

   (a) decimal.go: readFloat (with its machine-width counters), parseUint64_simple,
       parseFloat64_reader / parseFloat32_reader (the exact fast path),
       parseFloat64_custom / parseFloat32_custom (fast path, else strconv = oracle);
   (b) json.go: dblQuoteStringAsBytes (string literal decoding: escapes, \u,
       surrogates) over reader.go jsonReadAsisChars / readn1 / readn4;
   (c) json.go quoteStr (string encoding under HTMLCharsAsIs on/off),
       json.base.go jsonEncodeUint, jsonFloatStrconvFmtPrec64/32.

   IEEE operations of the hardware (uint64->float conversion, * and /) are
   modelled as "round the exact result to nearest even" (Spec.rn), which is how
   IEEE 754 defines them.  strconv.ParseFloat and utf8.DecodeRuneInString are not
   modelled: the first is a Section variable (oracle), the second is taken to
   be Spec.decode1 (RFC 3629); both are tied by the correspondence check.
   No proofs in this file. *)
From Coq Require Import List NArith ZArith Bool.
From Verif Require Import Gen.Consts Base.Outcome C09.Spec.
Import ListNotations.
Open Scope bool_scope.

(* ------------------------------------------------------------------ *)
(** * (a) decimal.go *)
Open Scope Z_scope.

Definition wu64 (x : Z) : Z := x mod 2 ^ 64.
(* Go int (64 bit), two's complement *)
Definition wi (x : Z) : Z := (x + 2 ^ 63) mod 2 ^ 64 - 2 ^ 63.
Definition wi8 (x : Z) : Z := (x + 128) mod 256 - 128.

Record floatinfo := mkfi {
  mantbits : Z; exactPow10 : Z; exactInts : Z; cutIsU64 : bool; mantCutoff : Z }.

Definition fi32 := mkfi 23 10 7 false (2 ^ 23 - 1).
Definition fi64 := mkfi 52 22 15 false (2 ^ 52 - 1).
Definition fi64u := mkfi 0 19 0 true fUint64Cutoff.

Record rfr := mkrfr {
  mant : Z; rexp : Z; rneg : bool; rtrunc : bool; rbad : bool; rhard : bool; rok : bool }.

Definition rfr0 (neg : bool) := mkrfr 0 0 neg false false false false.

(* loop state: nd, ndMant, dp (Go int), sawdot, mantissa (uint64) *)
Record lst := mklst { nd : Z; ndMant : Z; dp : Z; sawdot : bool; lm : Z }.

Inductive lres :=
| LBad
| LTrunc
| LExp (st : lst) (rest : list N)      (* stopped at e/E; rest = what follows it *)
| LEnd (st : lst).

Definition c2z (c : N) : Z := Z.of_N c.

Fixpoint rf_loop (y : floatinfo) (s : list N) (st : lst) : lres :=
  match s with
  | [] => LEnd st
  | c :: r =>
    if (c =? 46)%N then
      if sawdot st then LBad
      else rf_loop y r (mklst (nd st) (ndMant st) (nd st) true (lm st))
    else if (c =? 101)%N || (c =? 69)%N then LExp st r
    else if (c =? 48)%N then
      if nd st =? 0 then rf_loop y r (mklst (nd st) (ndMant st) (wi (dp st - 1)) (sawdot st) (lm st))
      else
        let nd1 := wi (nd st + 1) in
        if lm st <? mantCutoff y
        then rf_loop y r (mklst nd1 (wi (ndMant st + 1)) (dp st) (sawdot st) (wu64 (lm st * fBase)))
        else rf_loop y r (mklst nd1 (ndMant st) (dp st) (sawdot st) (lm st))
    else if (49 <=? c)%N && (c <=? 57)%N then
      let nd1 := wi (nd st + 1) in
      if cutIsU64 y && (lm st <? fUint64Cutoff) then
        let m1 := wu64 (lm st * fBase) in
        let xu := wu64 (m1 + (c2z c - 48)) in
        if xu <? m1 then LTrunc
        else rf_loop y r (mklst nd1 (wi (ndMant st + 1)) (dp st) (sawdot st) xu)
      else if lm st <? mantCutoff y then
        rf_loop y r (mklst nd1 (wi (ndMant st + 1)) (dp st) (sawdot st) (wu64 (lm st * fBase + (c2z c - 48))))
      else LTrunc
    else LBad
  end.

Definition isdig (c : N) : bool := (48 <=? c)%N && (c <=? 57)%N.

(* the exponent part: Some (Some dp') / Some None = hardexp / None = bad *)
Inductive eres := EBad | EHard | EDp (dp : Z).

(* the digits of the exponent (one or two; more = hardexp) *)
Definition rf_exp_digits (eneg : bool) (r1 : list N) (dp0 : Z) : eres :=
  match r1 with
  | [] => EDp dp0
  | d1 :: r2 =>
    if (2 <? Z.of_nat (length r1)) then EHard
    else if negb (isdig d1) then EBad
    else
      let e1 := c2z d1 - 48 in
      match r2 with
      | [] => EDp (wi (if eneg then dp0 - e1 else dp0 + e1))
      | d2 :: _ =>
        if negb (isdig d2) then EBad
        else let e2 := wi (e1 * fBase + (c2z d2 - 48)) in
             EDp (wi (if eneg then dp0 - e2 else dp0 + e2))
      end
  end.

Definition rf_exp (rest : list N) (dp0 : Z) : eres :=
  match rest with
  | [] => EDp dp0
  | c :: r =>
    if (c =? 43)%N then rf_exp_digits false r dp0
    else if (c =? 45)%N then rf_exp_digits true r dp0
    else rf_exp_digits false rest dp0
  end.

Definition rf_finish (y : floatinfo) (neg : bool) (st : lst) (dpf : Z) : rfr :=
  if lm st =? 0 then mkrfr 0 0 neg false false false true
  else
    let e := wi (dpf - ndMant st) in
    if (e <? - exactPow10 y) || (exactInts y + exactPow10 y <? e)
       || (negb (mantbits y =? 0) && negb (Z.shiftr (lm st) (mantbits y) =? 0))
    then mkrfr (lm st) 0 neg false false true false
    else mkrfr (lm st) (wi8 e) neg false false false true.

(* everything after the optional sign *)
Definition rf_main (y : floatinfo) (neg : bool) (s1 : list N) : rfr :=
  let badzero :=
    match s1 with
    | z :: n :: _ => (z =? 48)%N && negb ((n =? 46)%N || (n =? 101)%N || (n =? 69)%N)
    | _ => false
    end in
  if badzero then mkrfr 0 0 neg false true false false
  else
    match rf_loop y s1 (mklst 0 0 0 false 0) with
    | LBad => mkrfr 0 0 neg false true false false     (* mantissa is not observed when bad *)
    | LTrunc => mkrfr 0 0 neg true false false false
    | LEnd st => rf_finish y neg st (if sawdot st then dp st else nd st)
    | LExp st rest =>
      match rf_exp rest (if sawdot st then dp st else nd st) with
      | EBad => mkrfr 0 0 neg false true false false
      | EHard => mkrfr 0 0 neg false false true false
      | EDp d => rf_finish y neg st d
      end
    end.

Definition readFloat (s : list N) (y : floatinfo) : rfr :=
  match s with
  | [] => mkrfr 0 0 false false false false true
  | c0 :: t0 =>
    let neg := (c0 =? 45)%N in
    rf_main y neg (if neg then t0 else s)
  end.

(* parseUint64_simple: (n, ok) *)
Fixpoint pus_loop (b : list N) (n : Z) : Z * bool :=
  match b with
  | [] => (n, true)
  | c :: r =>
    if (fUint64Cutoff <=? n) || negb (isdig c) then (n, false)
    else if (c =? 48)%N then pus_loop r (wu64 (n * fBase))
    else let n2 := wu64 (n * fBase + (c2z c - 48)) in
         if n2 <? n then (n2, false) else pus_loop r n2
  end.

Definition parseUint64_simple (b : list N) : Z * bool :=
  match b with
  | z :: _ :: _ => if (z =? 48)%N then (0, false) else pus_loop b 0
  | _ => pus_loop b 0
  end.

(** ** floats as bit patterns; IEEE operations = Spec.rn of the exact result *)

(* |x| of a finite float as a fraction *)
Definition fnum (f : bfmt) (b : Z) : Z := let '(_, M, e) := fdecode f b in shl M e.
Definition fden (f : bfmt) (b : Z) : Z := let '(_, M, e) := fdecode f b in shl 1 (- e).

Definition of_u64 (f : bfmt) (m : Z) : Z := rn f false m 1.
Definition fmul (f : bfmt) (a b : Z) : Z := rn f false (fnum f a * fnum f b) (fden f a * fden f b).
Definition fdiv (f : bfmt) (a b : Z) : Z := rn f false (fnum f a * fden f b) (fden f a * fnum f b).
(* a > 10^k *)
Definition fgt_pow10 (f : bfmt) (a k : Z) : bool := 10 ^ k * fden f a <? fnum f a.
(* the tables float64pow10 / float32pow10: Go constants 1e0 .. 1eN, correctly rounded *)
Definition pow10f (f : bfmt) (k : Z) : Z := rn f false (10 ^ k) 1.
Definition fneg (f : bfmt) (neg : bool) (a : Z) : Z := if neg then a + sign_bit f else a.

Inductive fpres := FBits (b : Z) | FFail | FPanic.

(* parseFloat64_reader / parseFloat32_reader; [tbl] = length of the pow10 table,
   [epow] = fiNN.exactPow10, [eint] = exponent of fMaxMultiplierForExactPow10_NN *)
Definition parse_reader (f : bfmt) (tbl epow eint : Z) (m e : Z) (neg : bool) : fpres :=
  let x := of_u64 f m in
  if e =? 0 then FBits (fneg f neg x)
  else if e <? 0 then
    if tbl <=? - e then FPanic else FBits (fneg f neg (fdiv f x (pow10f f (- e))))
  else if epow <? e then
    if tbl <=? e - epow then FPanic else
    let x1 := fmul f x (pow10f f (e - epow)) in
    if fgt_pow10 f x1 eint then FFail
    else FBits (fneg f neg (fmul f x1 (pow10f f epow)))
  else FBits (fneg f neg (fmul f x (pow10f f e))).

Definition parseFloat64_reader := parse_reader binary64 23 22 15.
Definition parseFloat32_reader := parse_reader binary32 11 10 7.

Section Oracle.
  (* strconv.ParseFloat(s, bits): bit pattern, or None for a syntax/range error *)
  Variable strconv : bfmt -> list N -> option Z.

  (* parseFloat64_custom / parseFloat32_custom: None = error returned *)
  Definition parseFloat_custom (f : bfmt) (s : list N) : option Z :=
    let fi := if prec f =? 53 then fi64 else fi32 in
    let r := readFloat s fi in
    if rbad r then None
    else
      if rok r then
        match (if prec f =? 53 then parseFloat64_reader else parseFloat32_reader) (mant r) (rexp r) (rneg r) with
        | FBits b => Some b
        | FFail => strconv f s
        | FPanic => None
        end
      else strconv f s.
End Oracle.

(** ** jsonEncodeUint *)
(* jsonEncodeUintSmallsString: "00" "01" ... "99" *)
Definition smalls (i : Z) : N := Z.to_N (if Z.even i then 48 + (i / 2) / 10 else 48 + (i / 2) mod 10).

Fixpoint enc_uint_loop (fuel : nat) (us : Z) (acc : list N) : list N :=
  match fuel with
  | O => acc
  | S f =>
    if 100 <=? us then
      let is_ := us mod 100 * 2 in
      enc_uint_loop f (us / 100) (smalls is_ :: smalls (is_ + 1) :: acc)
    else
      let is_ := us * 2 in
      if 10 <=? us then smalls is_ :: smalls (is_ + 1) :: acc else smalls (is_ + 1) :: acc
  end.

Definition jsonEncodeUint (neg quotes : bool) (u : Z) : list N :=
  let q := if quotes then [34%N] else [] in
  q ++ (if neg then [45%N] else []) ++ enc_uint_loop 11 u [] ++ q.

(* EncodeInt / EncodeUint under IntegerAsString is_ (0, 'A' = 65, 'L' = 76) *)
Definition int_quotes (is_ : Z) (keyAsString : bool) (v : Z) : bool :=
  (is_ =? 65) || ((is_ =? 76) && ((2 ^ 53 <? v) || (v <? - 2 ^ 53))) || keyAsString.
Definition encodeInt (is_ : Z) (ks : bool) (v : Z) : list N :=
  if v <? 0 then jsonEncodeUint true (int_quotes is_ ks v) (wu64 (- v))
  else jsonEncodeUint false (int_quotes is_ ks v) v.

(** ** jsonFloatStrconvFmtPrec64/32: (fmt byte, prec) from the bit pattern *)
(* noFrac: the float is an integer below 2^(prec-1) ... exactly as decimal.go computes it *)
Definition noFrac (f : bfmt) (fbits : Z) : bool :=
  if fbits =? 0 then true
  else
    let w := prec f - 1 + ew f + 1 in                            (* 64 / 32 *)
    let bias := 2 ^ (ew f - 1) - 1 in
    let e := (Z.land (Z.shiftr fbits (prec f - 1)) (2 ^ ew f - 1) - bias) mod 2 ^ w in
    if e <? prec f - 1 then (fbits * 2 ^ (ew f + 1 + e)) mod 2 ^ w =? 0 else false.

Definition fmtprec (f : bfmt) (fbits : Z) : N * Z :=
  let a := fbits mod sign_bit f in
  if (a =? 0) || (a =? pow10f f 0) then (102%N, 1)
  else
    (* abs < 1e-6 || abs >= 1e21, on bit patterns of finite non-negative floats (monotone) *)
    if (a <? rn f false 1 (10 ^ 6)) || (rn f false (10 ^ 21) 1 <=? a) then (101%N, -1)
    else if noFrac f fbits then (102%N, 1) else (102%N, -1).

Close Scope Z_scope.

(* ------------------------------------------------------------------ *)
(** * (b) json.go dblQuoteStringAsBytes, after the opening quote has been read *)
Open Scope N_scope.

(* reader.jsonReadAsisChars: bytes up to the next quote or backslash, that byte, the rest *)
Fixpoint asis (s : list N) : option (list N * N * list N) :=
  match s with
  | [] => None
  | b :: r =>
    if (b =? 34) || (b =? 92) then Some ([], b, r)
    else match asis r with
         | Some (bs, c, rest) => Some (b :: bs, c, rest)
         | None => None
         end
  end.

(* json.base.go jsonSlashURune: 0xFFFD when a byte is not a hex digit *)
Definition slashU1 (rr : option N) (c : N) : option N :=
  match rr with
  | None => None
  | Some r =>
    if (48 <=? c) && (c <=? 57) then Some (r * 16 + (c - Z.to_N jsonU4Chk2))
    else if (97 <=? c) && (c <=? 102) then Some (r * 16 + (c - Z.to_N jsonU4Chk1))
    else if (65 <=? c) && (c <=? 70) then Some (r * 16 + (c - Z.to_N jsonU4Chk0))
    else None
  end.
Definition jsonSlashURune (a b c d : N) : N :=
  match slashU1 (slashU1 (slashU1 (slashU1 (Some 0) a) b) c) d with Some r => r | None => 0xFFFD end.

(* utf16.DecodeRune *)
Definition utf16_decode (r1 r2 : N) : N :=
  if is_hi r1 && is_lo r2 then pair_cp r1 r2 else 0xFFFD.

(* utf8.EncodeRune: surrogates and values above U+10FFFF are written as U+FFFD *)
Definition encodeRune (r : N) : list N := if scalar r then utf8_encode r else FFFD.

(* [hi]: pending surrogate from a \u escape (0 = none).
   One turn of the loop body up to (excluding) the next jsonReadAsisChars: the
   byte after a backslash is [c]; returns (buf, hi, remaining input). *)
Definition dq_step (buf : list N) (hi : N) (s : list N) : res (list N * N * list N) :=
  match s with
  | [] => Err EEof
  | c :: s1 =>
    let buf1 := if negb (hi =? 0) && negb (c =? 117) then buf ++ FFFD else buf in
    let hi1 := if c =? 117 then hi else 0 in
    if (c =? 34) || (c =? 92) || (c =? 47) || (c =? 39) then Ok (buf1 ++ [c], 0, s1)
    else if c =? 98 then Ok (buf1 ++ [8], 0, s1)
    else if c =? 102 then Ok (buf1 ++ [12], 0, s1)
    else if c =? 110 then Ok (buf1 ++ [10], 0, s1)
    else if c =? 114 then Ok (buf1 ++ [13], 0, s1)
    else if c =? 116 then Ok (buf1 ++ [9], 0, s1)
    else if c =? 117 then
      match s1 with
      | h1 :: h2 :: h3 :: h4 :: s2 =>
        let rr := jsonSlashURune h1 h2 h3 h4 in
        if negb (hi1 =? 0) then Ok (buf1 ++ encodeRune (utf16_decode hi1 rr), 0, s2)
        else if is_sur rr then Ok (buf1, rr, s2)
        else Ok (buf1 ++ encodeRune rr, 0, s2)
      | _ => Err EEof
      end
    else Err EBadDesc
  end.

Definition is_nil (l : list N) : bool := match l with [] => true | _ => false end.

(* jsonReadAsisChars, flush of a pending surrogate unless a backslash follows at once,
   append, and either stop at the closing quote or go round the loop again ([k]) *)
Definition dq_scan (k : list N -> N -> list N -> res (list N * list N))
           (buf : list N) (hi : N) (s : list N) : res (list N * list N) :=
  match asis s with
  | None => Err EEof
  | Some (bs, c2, rest) =>
    let fl := negb (is_nil bs) || (c2 =? 34) in
    let buf3 := if negb (hi =? 0) && fl then buf ++ FFFD else buf in
    let hi3 := if fl then 0 else hi in
    if c2 =? 34 then Ok (buf3 ++ bs, rest) else k (buf3 ++ bs) hi3 rest
  end.

(* the loop is entered just after a backslash has been consumed *)
Fixpoint dq_loop (fuel : nat) (buf : list N) (hi : N) (s : list N) : res (list N * list N) :=
  match fuel with
  | O => OutOfFuel
  | S f =>
    match dq_step buf hi s with
    | Ok (buf2, hi2, s3) => dq_scan (dq_loop f) buf2 hi2 s3
    | Err e => Err e
    | OutOfFuel => OutOfFuel
    end
  end.

(* the string decoder on input that starts at the opening quote: (decoded, rest) *)
Definition dec_string (s : list N) : res (list N * list N) :=
  match s with
  | q :: t => if q =? 34 then dq_scan (dq_loop (length t)) [] 0 t else Err EBadDesc
  | [] => Err EEof
  end.

(* ------------------------------------------------------------------ *)
(** * (c) json.go quoteStr *)

(* helper.go jsonCharSafeBitset / jsonCharHtmlSafeBitset *)
Definition safe (htmlAsIs : bool) (b : N) : bool :=
  (32 <=? b) && (b <? 128) && negb (b =? 34) && negb (b =? 92)
  && (htmlAsIs || negb ((b =? 60) || (b =? 62) || (b =? 38))).

Definition hexdig (x : N) : N := if x <? 10 then 48 + x else 87 + x.

Definition esc_ascii (b : N) : list N :=
  if b =? 92 then [92; 92] else if b =? 34 then [92; 34]
  else if b =? 10 then [92; 110] else if b =? 9 then [92; 116]
  else if b =? 13 then [92; 114] else if b =? 8 then [92; 98]
  else if b =? 12 then [92; 102]
  else [92; 117; 48; 48; hexdig (b / 16); hexdig (b mod 16)].

Fixpoint quote_body (fuel : nat) (h : bool) (s : list N) : list N :=
  match fuel with
  | O => []
  | S f =>
    match s with
    | [] => []
    | b :: t =>
      if safe h b then b :: quote_body f h t
      else if b <? 128 then esc_ascii b ++ quote_body f h t
      else
        match decode1 s with
        | None => [92; 117; 70; 70; 70; 68] ++ quote_body f h t
        | Some (cp, k) =>
          if jsonEscapeMultiByteUnicodeSep && ((cp =? 0x2028) || (cp =? 0x2029))
          then [92; 117; 50; 48; 50; hexdig (cp mod 16)] ++ quote_body f h (skipn k s)
          else firstn k s ++ quote_body f h (skipn k s)
        end
    end
  end.

Definition quoteStr (htmlAsIs : bool) (s : list N) : list N :=
  34 :: quote_body (length s) htmlAsIs s ++ [34].

Close Scope N_scope.

(* ------------------------------------------------------------------ *)
(** * (d) json.base.go jsonIsNumberLiteral: the guard DecodeNaked applies before it
      reads a quoted map key as a number under MapKeyAsString (fix F09-4) *)
Open Scope N_scope.

(* the closure digits(): how many digit bytes were skipped, and what follows *)
Fixpoint skip_digits (s : list N) : nat * list N :=
  match s with
  | c :: t => if isdig c then let '(k, r) := skip_digits t in (S k, r) else (O, s)
  | [] => (O, [])
  end.

(* digits() == 0 ? None : rest *)
Definition digits1 (s : list N) : option (list N) :=
  let '(k, r) := skip_digits s in match k with O => None | S _ => Some r end.

Definition nl_sign (s : list N) : list N :=
  match s with c :: t => if c =? 45 then t else s | [] => s end.
Definition nl_int (s : list N) : option (list N) :=
  match s with
  | c :: t => if c =? 48 then Some t else digits1 s
  | [] => digits1 s
  end.
Definition nl_frac (s : list N) : option (list N) :=
  match s with
  | c :: t => if c =? 46 then digits1 t else Some s
  | [] => Some s
  end.
Definition nl_exp (s : list N) : option (list N) :=
  match s with
  | c :: t =>
    if (c =? 101) || (c =? 69) then
      digits1 (match t with x :: t' => if (x =? 43) || (x =? 45) then t' else t | [] => t end)
    else Some s
  | [] => Some s
  end.

Definition jsonIsNumberLiteral (s : list N) : bool :=
  match nl_int (nl_sign s) with
  | None => false
  | Some s2 =>
    match nl_frac s2 with
    | None => false
    | Some s3 =>
      match nl_exp s3 with
      | None => false
      | Some s4 => is_nil s4
      end
    end
  end.

Close Scope N_scope.

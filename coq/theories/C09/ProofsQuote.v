(* C09 — quoteStr writes a literal of the grammar that denotes utf8_sanitise s,
   for both settings of HTMLCharsAsIs. *)
From Coq Require Import List NArith ZArith Bool Lia.
From Coq Require Import ZifyN ZifyNat ZifyBool.
From Verif Require Import Gen.Consts Base.Outcome C09.Spec C09.Model C09.ProofsStr.
Import ListNotations.
Open Scope bool_scope.
Open Scope N_scope.
Ltac Zify.zify_post_hook ::= Z.div_mod_to_equations.

(* ---------- decode1 returns canonical encodings of scalars only ---------- *)
Lemma is_enc_spec : forall cp bs, is_enc cp bs = true -> scalar cp = true /\ utf8_encode cp = bs.
Proof.
  intros cp bs H. unfold is_enc in H. apply andb_true_iff in H. destruct H as [H1 H2].
  split; [exact H1|apply eqbl_eq; exact H2].
Qed.

Lemma enc_len1 : forall cp, (length (utf8_encode cp) = 1)%nat -> cp < 128.
Proof.
  intros cp. unfold utf8_encode.
  destruct (cp <? 128) eqn:E; [lia|].
  destruct (cp <? 2048); [cbn; lia|]. destruct (cp <? 65536); cbn; lia.
Qed.

Lemma enc_multi : forall cp bs, utf8_encode cp = bs -> (1 < length bs)%nat -> 128 <= cp.
Proof.
  intros cp bs H Hl. destruct (N.lt_ge_cases cp 128) as [Hlt|]; [|assumption].
  exfalso. unfold utf8_encode in H. replace (cp <? 128) with true in H by lia. subst bs. cbn in Hl. lia.
Qed.

Lemma decode1_spec : forall l cp k, decode1 l = Some (cp, k) ->
  match l with b0 :: _ => 128 <= b0 | [] => False end ->
  scalar cp = true /\ utf8_encode cp = firstn k l /\ 128 <= cp.
Proof.
  intros l cp k H Hb. destruct l as [|b0 t]; [contradiction|]. cbn [decode1] in H.
  replace (b0 <? 128) with false in H by lia.
  destruct t as [|b1 t2]; [discriminate|].
  destruct (is_enc ((b0 mod 32) * 64 + b1 mod 64) [b0; b1]) eqn:E2.
  { inversion H; subst. destruct (is_enc_spec _ _ E2) as [S1 S2]. cbn [firstn].
    split; [exact S1|]. split; [exact S2|]. apply (enc_multi _ _ S2). cbn. lia. }
  destruct t2 as [|b2 t3]; [discriminate|].
  destruct (is_enc ((b0 mod 16) * 4096 + (b1 mod 64) * 64 + b2 mod 64) [b0; b1; b2]) eqn:E3.
  { inversion H; subst. destruct (is_enc_spec _ _ E3) as [S1 S2]. cbn [firstn].
    split; [exact S1|]. split; [exact S2|]. apply (enc_multi _ _ S2). cbn. lia. }
  destruct t3 as [|b3 t4]; [discriminate|].
  destruct (is_enc ((b0 mod 8) * 262144 + (b1 mod 64) * 4096 + (b2 mod 64) * 64 + b3 mod 64) [b0; b1; b2; b3]) eqn:E4;
    [|discriminate].
  inversion H; subst. destruct (is_enc_spec _ _ E4) as [S1 S2]. cbn [firstn].
  split; [exact S1|]. split; [exact S2|]. apply (enc_multi _ _ S2). cbn. lia.
Qed.

(* ---------- the items quoteStr writes ---------- *)
Definition esc_item (b : N) : item :=
  if b =? 92 then Esc 92 else if b =? 34 then Esc 34
  else if b =? 10 then Esc 110 else if b =? 9 then Esc 116
  else if b =? 13 then Esc 114 else if b =? 8 then Esc 98
  else if b =? 12 then Esc 102
  else U 48 48 (hexdig (b / 16)) (hexdig (b mod 16)).

Fixpoint qitems (fuel : nat) (h : bool) (s : list N) : list item :=
  match fuel with
  | O => []
  | S f =>
    match s with
    | [] => []
    | b :: t =>
      if safe h b then Ch b :: qitems f h t
      else if b <? 128 then esc_item b :: qitems f h t
      else
        match decode1 s with
        | None => U 70 70 70 68 :: qitems f h t
        | Some (cp, k) =>
          if jsonEscapeMultiByteUnicodeSep && ((cp =? 0x2028) || (cp =? 0x2029))
          then U 50 48 50 (hexdig (cp mod 16)) :: qitems f h (skipn k s)
          else Ch cp :: qitems f h (skipn k s)
        end
    end
  end.

Lemma hexdig_hex : forall x, x < 16 -> is_hex (hexdig x) = true /\ hexval (hexdig x) = x.
Proof.
  intros x H. unfold is_hex, hexval, hexdig. destruct (x <? 10) eqn:E.
  - split; [lia|]. replace (48 + x <=? 57) with true by lia. lia.
  - split; [lia|]. replace (87 + x <=? 57) with false by lia. replace (87 + x <=? 70) with false by lia. lia.
Qed.

Lemma esc_item_ok : forall b, b < 128 ->
  wf_item (esc_item b) = true /\ render_item (esc_item b) = esc_ascii b /\
  (forall r, denote (esc_item b :: r) = b :: denote r).
Proof.
  intros b Hb. unfold esc_item, esc_ascii.
  destruct (b =? 92) eqn:E1; [assert (b = 92) by lia; subst; repeat split|].
  destruct (b =? 34) eqn:E2; [assert (b = 34) by lia; subst; repeat split|].
  destruct (b =? 10) eqn:E3; [assert (b = 10) by lia; subst; repeat split|].
  destruct (b =? 9) eqn:E4; [assert (b = 9) by lia; subst; repeat split|].
  destruct (b =? 13) eqn:E5; [assert (b = 13) by lia; subst; repeat split|].
  destruct (b =? 8) eqn:E6; [assert (b = 8) by lia; subst; repeat split|].
  destruct (b =? 12) eqn:E7; [assert (b = 12) by lia; subst; repeat split|].
  destruct (hexdig_hex (b / 16)) as [X1 X2]; [lia|].
  destruct (hexdig_hex (b mod 16)) as [Y1 Y2]; [lia|].
  split; [cbn [wf_item]; rewrite X1, Y1; reflexivity|]. split; [reflexivity|].
  intros r. cbn [denote].
  assert (Hu : u16 48 48 (hexdig (b / 16)) (hexdig (b mod 16)) = b).
  { unfold u16. rewrite X2, Y2. change (hexval 48) with 0. lia. }
  rewrite Hu.
  replace (is_hi b) with false by (unfold is_hi; lia).
  replace (is_lo b) with false by (unfold is_lo; lia).
  unfold utf8_encode. replace (b <? 128) with true by lia. reflexivity.
Qed.

Lemma sep_item_ok : forall cp, (cp =? 0x2028) || (cp =? 0x2029) = true ->
  wf_item (U 50 48 50 (hexdig (cp mod 16))) = true /\
  (forall r, denote (U 50 48 50 (hexdig (cp mod 16)) :: r) = utf8_encode cp ++ denote r).
Proof.
  intros cp H. apply orb_true_iff in H. destruct H as [H|H]; apply N.eqb_eq in H; subst cp; split; reflexivity.
Qed.

Lemma safe_props : forall h b, safe h b = true ->
  b < 128 /\ wf_item (Ch b) = true /\ utf8_encode b = [b].
Proof.
  intros h b H. unfold safe in H.
  repeat (apply andb_true_iff in H; destruct H as [H ?]).
  assert (b < 128) by lia. split; [assumption|]. split.
  - cbn [wf_item]. unfold scalar. repeat (apply andb_true_iff; split); try assumption; lia.
  - unfold utf8_encode. replace (b <? 128) with true by lia. reflexivity.
Qed.

Lemma decode1_ascii : forall b t, b < 128 -> decode1 (b :: t) = Some (b, 1%nat).
Proof. intros b t H. cbn [decode1]. replace (b <? 128) with true by lia. reflexivity. Qed.

(* one induction gives all three facts *)
Lemma quote_items : forall fuel h s,
  forallb wf_item (qitems fuel h s) = true /\
  render_items (qitems fuel h s) = quote_body fuel h s /\
  denote (qitems fuel h s) = sanitise fuel s.
Proof.
  induction fuel as [|f IH]; intros h s; [repeat split|].
  destruct s as [|b t]; [repeat split|].
  cbn [qitems quote_body sanitise].
  destruct (safe h b) eqn:Es.
  - destruct (safe_props h b Es) as (Hb & Hw & He).
    destruct (IH h t) as (I1 & I2 & I3).
    rewrite (decode1_ascii b t Hb). cbn [skipn].
    split; [cbn [forallb]; rewrite Hw, I1; reflexivity|].
    split.
    + unfold render_items in *. cbn [flat_map render_item]. rewrite He, I2. reflexivity.
    + cbn [denote]. rewrite He, I3. reflexivity.
  - destruct (b <? 128) eqn:E128.
    + assert (Hb : b < 128) by lia.
      destruct (esc_item_ok b Hb) as (Hw & Hr & Hd).
      destruct (IH h t) as (I1 & I2 & I3).
      rewrite (decode1_ascii b t Hb). cbn [skipn].
      split; [cbn [forallb]; rewrite Hw, I1; reflexivity|].
      split.
      * unfold render_items in *. cbn [flat_map]. rewrite Hr, I2. reflexivity.
      * rewrite Hd, I3. unfold utf8_encode. replace (b <? 128) with true by lia. reflexivity.
    + destruct (decode1 (b :: t)) as [[cp k]|] eqn:Ed.
      * destruct (decode1_spec (b :: t) cp k Ed) as (S1 & S2 & S3); [lia|].
        destruct (IH h (skipn k (b :: t))) as (I1 & I2 & I3).
        destruct (jsonEscapeMultiByteUnicodeSep && ((cp =? 8232) || (cp =? 8233))) eqn:Esep.
        -- apply andb_true_iff in Esep. destruct Esep as [_ Esep].
           destruct (sep_item_ok cp Esep) as [Hw Hd].
           split; [cbn [forallb]; rewrite Hw, I1; reflexivity|].
           split.
           ++ unfold render_items in *. cbn [flat_map render_item]. rewrite I2. reflexivity.
           ++ rewrite Hd, I3. reflexivity.
        -- assert (Hw : wf_item (Ch cp) = true).
           { cbn [wf_item]. rewrite S1. repeat (apply andb_true_iff; split); try reflexivity; lia. }
           split; [cbn [forallb]; rewrite Hw, I1; reflexivity|].
           split.
           ++ unfold render_items in *. cbn [flat_map render_item]. rewrite S2, I2. reflexivity.
           ++ cbn [denote]. rewrite I3. reflexivity.
      * destruct (IH h t) as (I1 & I2 & I3).
        split; [cbn [forallb]; rewrite I1; reflexivity|].
        split.
        -- unfold render_items in *. cbn [flat_map render_item]. rewrite I2. reflexivity.
        -- change (denote (U 70 70 70 68 :: qitems f h t)) with (FFFD ++ denote (qitems f h t)).
           rewrite I3. reflexivity.
Qed.

(* quoteStr s is a literal of the grammar and it denotes utf8_sanitise s *)
Lemma quote_lemma : forall (h : bool) (s : list N),
  exists l, forallb wf_item l = true /\ quoteStr h s = render_lit l /\ denote l = utf8_sanitise s.
Proof.
  intros h s. exists (qitems (length s) h s).
  destruct (quote_items (length s) h s) as (Q1 & Q2 & Q3).
  split; [exact Q1|]. split; [unfold quoteStr, render_lit; rewrite Q2; reflexivity|exact Q3].
Qed.

(* the items quoteStr writes never contain a surrogate escape, so the decoder of
   /repo reads its own output back exactly (no known-finding class involved) *)
Lemma qitems_nopin : forall fuel h s, nopin (qitems fuel h s) = true.
Proof.
  induction fuel as [|f IH]; intros h s; [reflexivity|].
  destruct s as [|b t]; [reflexivity|]. cbn [qitems].
  destruct (safe h b); [cbn [nopin]; apply IH|].
  destruct (b <? 128) eqn:E128.
  - unfold esc_item.
    repeat match goal with |- context [if ?c then _ else _] => destruct c; [cbn [nopin]; apply IH|] end.
    cbn [nopin].
    destruct (hexdig_hex (b / 16)) as [_ X2]; [lia|]. destruct (hexdig_hex (b mod 16)) as [_ Y2]; [lia|].
    replace (is_sur (u16 48 48 (hexdig (b / 16)) (hexdig (b mod 16)))) with false; [apply IH|].
    symmetry. unfold is_sur, u16. rewrite X2, Y2. change (hexval 48) with 0. lia.
  - destruct (decode1 (b :: t)) as [[cp k]|]; [|cbn [nopin]; change (is_sur (u16 70 70 70 68)) with false; apply IH].
    destruct (jsonEscapeMultiByteUnicodeSep && ((cp =? 8232) || (cp =? 8233))) eqn:Esep; [|cbn [nopin]; apply IH].
    apply andb_true_iff in Esep. destruct Esep as [_ Esep]. cbn [nopin].
    apply orb_true_iff in Esep. destruct Esep as [H|H]; apply N.eqb_eq in H; subst cp;
      (match goal with |- context [is_sur ?u] => change (is_sur u) with false end); apply IH.
Qed.

Lemma quote_selfread : forall (h : bool) (s tl : list N),
  dec_string (quoteStr h s ++ tl) = Ok (utf8_sanitise s, tl).
Proof.
  intros h s tl.
  destruct (quote_items (length s) h s) as (Q1 & Q2 & Q3).
  assert (E : quoteStr h s = render_lit (qitems (length s) h s)) by (unfold quoteStr, render_lit; rewrite Q2; reflexivity).
  rewrite E. rewrite (unescape_lemma _ tl Q1 (qitems_nopin _ _ _)). rewrite Q3. reflexivity.
Qed.

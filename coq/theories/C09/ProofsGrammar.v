(* C09 — json.base.go jsonIsNumberLiteral (model) accepts exactly the texts of the
   number grammar of JsonStd (Spec.numlit / wf_numlit / render_num). *)
From Coq Require Import List NArith ZArith Bool Lia.
From Coq Require Import ZifyN ZifyNat ZifyBool.
From Verif Require Import Gen.Consts Base.Outcome C09.Spec C09.Model C09.ProofsNum.
Import ListNotations.
Open Scope bool_scope.
Open Scope N_scope.

Lemma isdig_dchar : forall d, d < 10 -> isdig (dchar d) = true.
Proof. intros d H. unfold isdig, dchar. lia. Qed.

Lemma isdig_val : forall c, isdig c = true -> c = dchar (c - 48) /\ c - 48 < 10.
Proof. intros c H. unfold isdig, dchar in *. lia. Qed.

Definition nodigit_head (r : list N) : Prop :=
  match r with c :: _ => isdig c = false | [] => True end.

Lemma skip_digits_app : forall ds r, forallb is_digit ds = true -> nodigit_head r ->
  skip_digits (map dchar ds ++ r) = (length ds, r).
Proof.
  induction ds as [|d ds IH]; intros r Hd Hr.
  - cbn [map app length]. destruct r as [|c t]; [reflexivity|]. cbn [skip_digits]. cbn in Hr. rewrite Hr. reflexivity.
  - cbn [forallb] in Hd. apply andb_true_iff in Hd. destruct Hd as [H1 H2]. unfold is_digit in H1.
    cbn [map app skip_digits length]. rewrite isdig_dchar by lia. rewrite (IH r H2 Hr). reflexivity.
Qed.

Lemma skip_digits_spec : forall s k r, skip_digits s = (k, r) ->
  exists ds, forallb is_digit ds = true /\ length ds = k /\ s = map dchar ds ++ r /\ nodigit_head r.
Proof.
  induction s as [|c t IH]; intros k r H.
  - cbn in H. inversion H; subst. exists []. repeat split.
  - cbn [skip_digits] in H. destruct (isdig c) eqn:Ec.
    + destruct (skip_digits t) as [k' r'] eqn:Et. inversion H; subst.
      destruct (IH k' r eq_refl) as (ds & D1 & D2 & D3 & D4).
      destruct (isdig_val c Ec) as [V1 V2].
      exists ((c - 48) :: ds). cbn [forallb map app length]. unfold is_digit.
      split; [apply andb_true_iff; split; [lia|exact D1]|].
      split; [lia|]. split; [rewrite <- V1, D3; reflexivity|exact D4].
    + inversion H; subst. exists []. repeat split. cbn. exact Ec.
Qed.

Lemma digits1_app : forall ds r, ds <> [] -> forallb is_digit ds = true -> nodigit_head r ->
  digits1 (map dchar ds ++ r) = Some r.
Proof.
  intros ds r Hne Hd Hr. unfold digits1. rewrite (skip_digits_app ds r Hd Hr).
  destruct ds; [congruence|reflexivity].
Qed.

Lemma digits1_spec : forall s r, digits1 s = Some r ->
  exists ds, wf_digits1 ds = true /\ s = map dchar ds ++ r /\ nodigit_head r.
Proof.
  intros s r H. unfold digits1 in H. destruct (skip_digits s) as [k r'] eqn:E.
  destruct k as [|k]; [discriminate|]. inversion H; subst.
  destruct (skip_digits_spec s (S k) r E) as (ds & D1 & D2 & D3 & D4).
  exists ds. split; [|split; assumption]. destruct ds; [discriminate|exact D1].
Qed.

(* ---------- every literal of the grammar is accepted ---------- *)
Lemma exp_head : forall upper x, nodigit_head (exp_chars upper x).
Proof. intros upper [[s e]|]; cbn; [destruct upper; reflexivity|exact I]. Qed.

Lemma frac_exp_head : forall upper f x, nodigit_head (frac_chars f ++ exp_chars upper x).
Proof. intros upper [f|] x; cbn [frac_chars app]; [reflexivity|apply exp_head]. Qed.

Lemma accepts_exp : forall upper x,
  match x with None => True | Some (_, e) => wf_digits1 e = true end ->
  nl_exp (exp_chars upper x) = Some [].
Proof.
  intros upper [[s e]|] Hx; [|reflexivity].
  assert (Hne : e <> []) by (destruct e; [discriminate|discriminate]).
  assert (Hd : forallb is_digit e = true) by (apply wf_digits1_digits; exact Hx).
  assert (Hcore : digits1 (map dchar e) = Some []).
  { rewrite <- (app_nil_r (map dchar e)). apply digits1_app; [exact Hne|exact Hd|exact I]. }
  cbn [exp_chars nl_exp].
  replace (((if upper then 69 else 101) =? 101) || ((if upper then 69 else 101) =? 69)) with true by (destruct upper; reflexivity).
  destruct s; cbn [esign_chars app].
  - destruct e as [|d e']; [congruence|]. cbn [map].
    cbn [forallb] in Hd. apply andb_true_iff in Hd. destruct Hd as [H1 _]. unfold is_digit in H1.
    replace ((dchar d =? 43) || (dchar d =? 45)) with false by (unfold dchar; lia). exact Hcore.
  - change ((43 =? 43) || (43 =? 45)) with true. cbv iota. exact Hcore.
  - change ((45 =? 43) || (45 =? 45)) with true. cbv iota. exact Hcore.
Qed.

Lemma accepts : forall (n : numlit) (upper : bool),
  wf_numlit n = true -> jsonIsNumberLiteral (render_num upper n) = true.
Proof.
  intros n upper Hwf. rewrite render_split. unfold wf_numlit in Hwf.
  apply andb_true_iff in Hwf. destruct Hwf as [Hwf Hx]. apply andb_true_iff in Hwf. destruct Hwf as [Hi Hf].
  set (rest := frac_chars (nfrac n) ++ exp_chars upper (nexp n)).
  assert (Hrest : nodigit_head rest) by apply frac_exp_head.
  (* sign *)
  assert (Hs : nl_sign ((if nneg n then [45] else []) ++ map dchar (nint n) ++ rest) = map dchar (nint n) ++ rest).
  { destruct (nneg n); [reflexivity|]. cbn [app].
    destruct (nint n) as [|d r]; [discriminate|]. cbn [map app nl_sign].
    assert (d < 10).
    { destruct r; cbn in Hi; [unfold is_digit in Hi; lia|].
      apply andb_true_iff in Hi. destruct Hi as [Hi _]. apply andb_true_iff in Hi. destruct Hi as [Hi _]. unfold is_digit in Hi. lia. }
    replace (dchar d =? 45) with false by (unfold dchar; lia). reflexivity. }
  unfold jsonIsNumberLiteral. rewrite Hs.
  (* int *)
  assert (Hint : nl_int (map dchar (nint n) ++ rest) = Some rest).
  { destruct (wf_int_digits _ Hi) as [Hd Hne].
    destruct (nint n) as [|d r]; [congruence|]. cbn [map app nl_int].
    destruct (dchar d =? 48) eqn:E0.
    - (* the digit 0: wf_int says nothing follows it *)
      destruct r as [|d2 r]; [reflexivity|]. exfalso. cbn [wf_int] in Hi.
      apply andb_true_iff in Hi. destruct Hi as [Hi _]. apply andb_true_iff in Hi. destruct Hi as [_ Hi].
      unfold dchar in E0. lia.
    - change (dchar d :: map dchar r ++ rest) with (map dchar (d :: r) ++ rest).
      apply digits1_app; [discriminate|exact Hd|exact Hrest]. }
  rewrite Hint. unfold rest.
  (* frac *)
  assert (Hfrac : nl_frac (frac_chars (nfrac n) ++ exp_chars upper (nexp n)) = Some (exp_chars upper (nexp n))).
  { destruct (nfrac n) as [f|]; cbn [frac_chars app].
    - cbn [nl_frac]. change (46 =? 46) with true. cbv iota.
      apply digits1_app; [destruct f; [discriminate|discriminate]|apply wf_digits1_digits; exact Hf|apply exp_head].
    - destruct (nexp n) as [[s e]|]; cbn [exp_chars]; [|reflexivity].
      cbn [nl_frac]. destruct upper; reflexivity. }
  rewrite Hfrac.
  rewrite accepts_exp; [reflexivity|].
  destruct (nexp n) as [[s e]|]; [exact Hx|exact I].
Qed.

(* ---------- every accepted text is a literal of the grammar ---------- *)
Lemma accepted : forall s, jsonIsNumberLiteral s = true ->
  exists (n : numlit) (upper : bool), wf_numlit n = true /\ s = render_num upper n.
Proof.
  intros s H. unfold jsonIsNumberLiteral in H.
  destruct (nl_int (nl_sign s)) as [s2|] eqn:E1; [|discriminate].
  destruct (nl_frac s2) as [s3|] eqn:E2; [|discriminate].
  destruct (nl_exp s3) as [s4|] eqn:E3; [|discriminate].
  destruct s4; [|discriminate]. clear H.
  (* sign *)
  assert (Hsign : exists neg : bool, s = (if neg then [45] else []) ++ nl_sign s).
  { destruct s as [|c t]; [exists false; reflexivity|]. cbn [nl_sign].
    destruct (c =? 45) eqn:Ec; [exists true; assert (c = 45) by lia; subst; reflexivity|exists false; reflexivity]. }
  destruct Hsign as [neg Hsign]. remember (nl_sign s) as s1 eqn:Hs1def. clear Hs1def.
  (* int *)
  assert (Hint : exists ds, wf_int ds = true /\ s1 = map dchar ds ++ s2).
  { destruct s1 as [|c t]; [cbn in E1; discriminate|]. cbn [nl_int] in E1.
    destruct (c =? 48) eqn:Ec.
    - inversion E1; subst. exists [0]. split; [reflexivity|]. assert (c = 48) by lia. subst. reflexivity.
    - destruct (digits1_spec _ _ E1) as (ds & D1 & D2 & _).
      exists ds. split; [|exact D2].
      destruct ds as [|d r]; [discriminate|]. cbn [map app] in D2. inversion D2; subst.
      cbn [wf_digits1 forallb] in D1. apply andb_true_iff in D1. destruct D1 as [Hd Hr].
      destruct r as [|d2 r]; cbn [wf_int]; [exact Hd|].
      rewrite Hd, Hr. replace (d =? 0) with false by (unfold dchar in Ec; lia). reflexivity. }
  destruct Hint as (ds & Hds & Hs1).
  (* frac *)
  assert (Hfrac : exists fo, match fo with None => True | Some f => wf_digits1 f = true end /\ s2 = frac_chars fo ++ s3).
  { destruct s2 as [|c t]; [cbn in E2; inversion E2; exists None; split; [exact I|reflexivity]|].
    cbn [nl_frac] in E2. destruct (c =? 46) eqn:Ec.
    - destruct (digits1_spec _ _ E2) as (f & F1 & F2 & _). exists (Some f). split; [exact F1|].
      assert (c = 46) by lia. subst. reflexivity.
    - inversion E2; subst. exists None. split; [exact I|reflexivity]. }
  destruct Hfrac as (fo & Hfo & Hs2).
  (* exp *)
  assert (Hexp : exists upper xo, match xo with None => True | Some (_, e) => wf_digits1 e = true end /\ s3 = exp_chars upper xo).
  { destruct s3 as [|c t]; [exists false, None; split; [exact I|reflexivity]|].
    cbn [nl_exp] in E3. destruct ((c =? 101) || (c =? 69)) eqn:Ec.
    - assert (Hc : c = (if (c =? 69) then 69 else 101)) by (destruct (c =? 69) eqn:E69; lia).
      exists (c =? 69).
      destruct t as [|x t'].
      + cbn in E3. discriminate.
      + destruct ((x =? 43) || (x =? 45)) eqn:Ex.
        * destruct (digits1_spec _ _ E3) as (e & X1 & X2 & _). rewrite app_nil_r in X2.
          destruct (x =? 43) eqn:E43.
          -- exists (Some (EPlus, e)). split; [exact X1|]. cbn [exp_chars esign_chars app].
             assert (x = 43) by lia. subst x t'. rewrite Hc at 1. reflexivity.
          -- exists (Some (EMinus, e)). split; [exact X1|]. cbn [exp_chars esign_chars app].
             assert (x = 45) by lia. subst x t'. rewrite Hc at 1. reflexivity.
        * destruct (digits1_spec _ _ E3) as (e & X1 & X2 & _). rewrite app_nil_r in X2.
          exists (Some (ENone, e)). split; [exact X1|]. cbn [exp_chars esign_chars app].
          rewrite <- X2. rewrite Hc at 1. reflexivity.
    - inversion E3. }
  destruct Hexp as (upper & xo & Hxo & Hs3).
  exists (mknum neg ds fo xo), upper. split.
  - unfold wf_numlit. cbn [nint nfrac nexp]. rewrite Hds.
    apply andb_true_iff. split; [apply andb_true_iff; split; [reflexivity|]|].
    + destruct fo; [exact Hfo|reflexivity].
    + destruct xo as [[sg e]|]; [exact Hxo|reflexivity].
  - rewrite render_split. cbn [nneg nint nfrac nexp]. rewrite Hsign at 1. rewrite Hs1, Hs2, Hs3. reflexivity.
Qed.

Lemma number_literal_iff : forall s,
  jsonIsNumberLiteral s = true <->
  exists (n : numlit) (upper : bool), wf_numlit n = true /\ s = render_num upper n.
Proof.
  intros s. split; [apply accepted|]. intros (n & upper & Hwf & ->). apply accepts. exact Hwf.
Qed.

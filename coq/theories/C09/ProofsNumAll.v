(* C09 — parseFloat64_custom / parseFloat32_custom on literals of the grammar: the
   fast path answers with the correctly rounded value or the answer is strconv's. *)
From Coq Require Import List NArith ZArith Bool Lia.
From Coq Require Import ZifyBool.
From Verif Require Import Gen.Consts Base.Outcome C09.Spec C09.Model C09.ProofsNum C09.ProofsFast.
Import ListNotations.
Open Scope bool_scope.
Open Scope Z_scope.

(* ---------- RN is a function of the value ---------- *)
Lemma RN_dec_eq : forall f neg m e m' e', 0 <= m -> 0 <= m' -> dec_eq m e m' e' ->
  RN f neg m e = RN f neg m' e'.
Proof.
  intros f neg m e m' e' Hm Hm' H. unfold dec_eq in H. unfold RN, dec_num, dec_den.
  destruct (Z.leb_spec 0 e) as [He|He]; destruct (Z.leb_spec 0 e') as [He'|He'].
  - apply rn_ratio; try lia; try (apply Z.mul_nonneg_nonneg; [lia|apply Z.pow_nonneg; lia]).
    rewrite !Z.mul_1_r.
    set (k := Z.min e e') in *.
    assert (E1 : 10 ^ e = 10 ^ (e - k) * 10 ^ k) by (rewrite <- Z.pow_add_r by lia; f_equal; lia).
    assert (E2 : 10 ^ e' = 10 ^ (e' - k) * 10 ^ k) by (rewrite <- Z.pow_add_r by lia; f_equal; lia).
    rewrite E1, E2. rewrite !Z.mul_assoc. rewrite H. reflexivity.
  - rewrite Z.min_r in H by lia. replace (e' - e') with 0 in H by lia. rewrite Z.pow_0_r, Z.mul_1_r in H.
    apply rn_ratio; try lia; try (apply Z.pow_pos_nonneg; lia); try (apply Z.mul_nonneg_nonneg; [lia|apply Z.pow_nonneg; lia]).
    rewrite Z.mul_1_r. rewrite <- H. rewrite <- Z.mul_assoc. rewrite <- Z.pow_add_r by lia. f_equal; try (f_equal; lia); try lia.
  - rewrite Z.min_l in H by lia. replace (e - e) with 0 in H by lia. rewrite Z.pow_0_r, Z.mul_1_r in H.
    apply rn_ratio; try lia; try (apply Z.pow_pos_nonneg; lia); try (apply Z.mul_nonneg_nonneg; [lia|apply Z.pow_nonneg; lia]).
    rewrite Z.mul_1_r. rewrite H. rewrite <- Z.mul_assoc. rewrite <- Z.pow_add_r by lia. f_equal; try (f_equal; lia); try lia.
  - apply rn_ratio; try lia; try (apply Z.pow_pos_nonneg; lia).
    (* m * 10^(-e') = m' * 10^(-e) *)
    set (k := Z.min e e') in *.
    assert (E1 : 10 ^ (- e') = 10 ^ (e - k) * 10 ^ (- Z.max e e')) by (rewrite <- Z.pow_add_r by lia; f_equal; lia).
    assert (E2 : 10 ^ (- e) = 10 ^ (e' - k) * 10 ^ (- Z.max e e')) by (rewrite <- Z.pow_add_r by lia; f_equal; lia).
    rewrite E1, E2. rewrite !Z.mul_assoc. rewrite H. reflexivity.
Qed.

Lemma ival_nonneg : forall ds, 0 <= ival ds.
Proof.
  intros ds. unfold ival. assert (H : forall acc, 0 <= acc -> 0 <= fold_left (fun a d => 10 * a + Z.of_N d) ds acc).
  { induction ds as [|d ds IH]; intros acc Ha; [exact Ha|]. cbn [fold_left]. apply IH. lia. }
  apply H. lia.
Qed.

(* ---------- what readFloat guarantees whenever it answers ok (any input) ---------- *)
Definition guard (y : floatinfo) (r : rfr) : Prop :=
  (mant r = 0 /\ rexp r = 0) \/
  (- exactPow10 y <= rexp r <= exactInts y + exactPow10 y /\
   (mantbits y <> 0 -> Z.shiftr (mant r) (mantbits y) = 0)).

Lemma finish_guard : forall y neg st d, fi_ok y -> rok (rf_finish y neg st d) = true -> guard y (rf_finish y neg st d).
Proof.
  intros y neg st d [Y1 Y2 Y3 Y4 Y5 Y6 Y7] H. unfold rf_finish in *.
  destruct (lm st =? 0); [left; split; reflexivity|].
  match goal with |- context [if ?c then _ else _] => destruct c eqn:Ec end; [discriminate|].
  right. cbn [mant rexp].
  apply orb_false_iff in Ec. destruct Ec as [Ec Em]. apply orb_false_iff in Ec. destruct Ec as [Ea Eb].
  rewrite wi8_id by lia. split; [lia|].
  intros Hmb. apply andb_false_iff in Em. destruct Em as [Em|Em].
  - apply negb_false_iff in Em. lia.
  - apply negb_false_iff in Em. lia.
Qed.

Lemma readFloat_guard : forall s y, fi_ok y -> rok (readFloat s y) = true -> guard y (readFloat s y).
Proof.
  intros s y Hy H. unfold readFloat in *.
  destruct s as [|c0 t0]; [left; split; reflexivity|].
  rewrite rf_main_eq in *.
  match goal with |- context [if ?c then _ else _] => destruct c end; [discriminate|].
  unfold post in *.
  match goal with |- context [rf_loop ?a ?b ?c] => destruct (rf_loop a b c) as [| |st rest|st] end; try discriminate.
  - match goal with |- context [rf_exp ?a ?b] => destruct (rf_exp a b) end; try discriminate.
    apply finish_guard; assumption.
  - apply finish_guard; assumption.
Qed.

Lemma shiftr_zero_bound : forall m k, 0 <= k -> Z.shiftr m k = 0 -> 0 <= m < 2 ^ k.
Proof.
  intros m k Hk H. rewrite Z.shiftr_div_pow2 in H by lia.
  assert (0 < 2 ^ k) by (apply Z.pow_pos_nonneg; lia).
  pose proof (Z.div_mod m (2 ^ k) ltac:(lia)). pose proof (Z.mod_pos_bound m (2 ^ k) ltac:(lia)). nia.
Qed.

Section Num.
  Variable strconv : bfmt -> list N -> option Z.

  Lemma num64_lemma : forall (n : numlit) (upper : bool),
    wf_numlit n = true -> Z.of_nat (length (render_num upper n)) < 2 ^ 61 ->
    parseFloat_custom strconv binary64 (render_num upper n) = Some (num_bits binary64 n) \/
    parseFloat_custom strconv binary64 (render_num upper n) = strconv binary64 (render_num upper n).
  Proof.
    intros n upper Hwf Hlen. unfold parseFloat_custom. change (prec binary64 =? 53) with true. cbv iota.
    destruct (readfloat_lemma n upper fi64 Hwf fi64_ok Hlen) as (G1 & G2 & G3 & G4).
    rewrite G1. cbv iota.
    destruct (rok (readFloat (render_num upper n) fi64)) eqn:Eok; [|right; reflexivity].
    specialize (G3 eq_refl).
    pose proof (readFloat_guard _ fi64 fi64_ok Eok) as Hg.
    set (r := readFloat (render_num upper n) fi64) in *.
    assert (Hrange : 0 <= mant r < 2 ^ 52 /\ -22 <= rexp r <= 37).
    { destruct Hg as [[-> ->]|[Hr Hm]]; [split; [split; [lia|reflexivity]|lia]|].
      cbn in Hr, Hm. split; [apply shiftr_zero_bound; [lia|apply Hm; discriminate]|lia]. }
    destruct Hrange as [Hm He].
    destruct (fast64_lemma (mant r) (rexp r) (rneg r) Hm He) as [Hf|Hf]; rewrite Hf; [right; reflexivity|left].
    f_equal. unfold num_bits. rewrite G2.
    apply RN_dec_eq; [lia|unfold dmant; apply ival_nonneg|exact G3].
  Qed.

  Lemma num32_lemma : forall (n : numlit) (upper : bool),
    wf_numlit n = true -> Z.of_nat (length (render_num upper n)) < 2 ^ 61 ->
    parseFloat_custom strconv binary32 (render_num upper n) = Some (num_bits binary32 n) \/
    parseFloat_custom strconv binary32 (render_num upper n) = strconv binary32 (render_num upper n).
  Proof.
    intros n upper Hwf Hlen. unfold parseFloat_custom. change (prec binary32 =? 53) with false. cbv iota.
    destruct (readfloat_lemma n upper fi32 Hwf fi32_ok Hlen) as (G1 & G2 & G3 & G4).
    rewrite G1. cbv iota.
    destruct (rok (readFloat (render_num upper n) fi32)) eqn:Eok; [|right; reflexivity].
    specialize (G3 eq_refl).
    pose proof (readFloat_guard _ fi32 fi32_ok Eok) as Hg.
    set (r := readFloat (render_num upper n) fi32) in *.
    assert (Hrange : 0 <= mant r < 2 ^ 23 /\ -10 <= rexp r <= 17).
    { destruct Hg as [[-> ->]|[Hr Hm]]; [split; [split; [lia|reflexivity]|lia]|].
      cbn in Hr, Hm. split; [apply shiftr_zero_bound; [lia|apply Hm; discriminate]|lia]. }
    destruct Hrange as [Hm He].
    destruct (fast32_lemma (mant r) (rexp r) (rneg r) Hm He) as [Hf|Hf]; rewrite Hf; [right; reflexivity|left].
    f_equal. unfold num_bits. rewrite G2.
    apply RN_dec_eq; [lia|unfold dmant; apply ival_nonneg|exact G3].
  Qed.
End Num.

(* C09 — jsonEncodeUint writes the decimal digits of u (no leading zero) and
   parseUint64_simple reads them back, for every u < 2^64. *)
From Coq Require Import List NArith ZArith Bool Lia.
From Coq Require Import ZifyN ZifyNat ZifyBool.
From Verif Require Import Gen.Consts Base.Outcome C09.Spec C09.Model C09.ProofsNum.
Import ListNotations.
Open Scope bool_scope.
Open Scope Z_scope.
Ltac Zify.zify_post_hook ::= Z.div_mod_to_equations.

(* digits, most significant first, all below ten, first one not zero *)
Definition nzdigits (ds : list N) : Prop :=
  forallb is_digit ds = true /\ match ds with d :: _ => d <> 0%N | [] => False end.

Lemma smalls_pair : forall k, 0 <= k < 100 ->
  smalls (k * 2) = dchar (Z.to_N (k / 10)) /\ smalls (k * 2 + 1) = dchar (Z.to_N (k mod 10)).
Proof.
  intros k H. unfold smalls, dchar.
  replace (Z.even (k * 2)) with true by (symmetry; rewrite Z.even_mul; apply orb_true_r).
  replace (Z.even (k * 2 + 1)) with false
    by (symmetry; rewrite Z.even_add, Z.even_mul; cbn; rewrite orb_true_r; reflexivity).
  replace (k * 2 / 2) with k by (rewrite Z.div_mul; lia).
  replace ((k * 2 + 1) / 2) with k by lia.
  split; lia.
Qed.

Lemma ival_app2 : forall ds d1 d2, ival (ds ++ [d1; d2]) = ival ds * 100 + Z.of_N d1 * 10 + Z.of_N d2.
Proof. intros. unfold ival. rewrite fold_left_app. cbn [fold_left]. lia. Qed.

Lemma nz_app : forall ds x, nzdigits ds -> forallb is_digit x = true -> nzdigits (ds ++ x).
Proof.
  intros ds x [H1 H2] Hx. split.
  - rewrite forallb_app, H1, Hx. reflexivity.
  - destruct ds; [contradiction|exact H2].
Qed.

Lemma enc_loop_pos : forall fuel us, 0 < us < 100 ^ Z.of_nat fuel ->
  exists ds, (forall acc, enc_uint_loop fuel us acc = map dchar ds ++ acc) /\ ival ds = us /\ nzdigits ds.
Proof.
  induction fuel as [|fuel IH]; intros us H.
  - cbn in H. lia.
  - cbn [enc_uint_loop].
    destruct (100 <=? us) eqn:E100.
    + assert (Hq : 0 < us / 100 < 100 ^ Z.of_nat fuel).
      { rewrite Nat2Z.inj_succ, Z.pow_succ_r in H by lia. lia. }
      destruct (IH (us / 100) Hq) as (ds & Hds & Hv & Hnz).
      pose proof (smalls_pair (us mod 100)) as [S1 S2]; [lia|].
      exists (ds ++ [Z.to_N (us mod 100 / 10); Z.to_N (us mod 100 mod 10)]).
      split; [|split].
      * intros acc. rewrite Hds, S1, S2. rewrite map_app. cbn [map]. rewrite <- app_assoc. reflexivity.
      * rewrite ival_app2, Hv. rewrite !Z2N.id by lia. lia.
      * apply nz_app; [exact Hnz|]. cbn [forallb]. unfold is_digit. lia.
    + pose proof (smalls_pair us) as [S1 S2]; [lia|].
      destruct (10 <=? us) eqn:E10.
      * exists [Z.to_N (us / 10); Z.to_N (us mod 10)]. split; [|split].
        -- intros acc. rewrite S1, S2. reflexivity.
        -- unfold ival. cbn [fold_left]. rewrite !Z2N.id by lia. lia.
        -- split; [cbn [forallb]; unfold is_digit; lia|lia].
      * exists [Z.to_N us]. split; [|split].
        -- intros acc. rewrite S2. replace (us mod 10) with us by lia. reflexivity.
        -- unfold ival. cbn [fold_left]. rewrite Z2N.id by lia. lia.
        -- split; [cbn [forallb]; unfold is_digit; lia|lia].
Qed.

Lemma nz_wf_int : forall ds, nzdigits ds -> wf_int ds = true.
Proof.
  intros ds [H1 H2]. destruct ds as [|d r]; [contradiction|].
  cbn [forallb] in H1. apply andb_true_iff in H1. destruct H1 as [Hd Hr].
  destruct r as [|d2 r]; cbn [wf_int]; [exact Hd|].
  rewrite Hd, Hr. replace (d =? 0)%N with false by (symmetry; apply N.eqb_neq; exact H2). reflexivity.
Qed.

(* the text of u is a literal of the grammar (int, no sign/frac/exp) whose value is u *)
Lemma uint_format : forall u, 0 <= u < 2 ^ 64 ->
  exists ds, jsonEncodeUint false false u = map dchar ds /\ wf_int ds = true /\ ival ds = u.
Proof.
  intros u H. unfold jsonEncodeUint. cbn [app].
  destruct (Z.eq_dec u 0) as [->|Hnz].
  - exists [0%N]. repeat split.
  - destruct (enc_loop_pos 11 u) as (ds & Hds & Hv & Hn).
    { split; [lia|]. apply Z.lt_trans with (2 ^ 64); [lia|]. reflexivity. }
    exists ds. rewrite Hds. rewrite !app_nil_r. split; [reflexivity|]. split; [apply nz_wf_int; exact Hn|exact Hv].
Qed.

(* ---------- reading it back with parseUint64_simple ---------- *)
Lemma dval_step : forall ds acc d, dval (ds ++ [d]) acc = 10 * dval ds acc + Z.of_N d.
Proof. intros. unfold dval. rewrite fold_left_app. reflexivity. Qed.

Lemma dval_cons : forall d ds acc, dval (d :: ds) acc = dval ds (10 * acc + Z.of_N d).
Proof. reflexivity. Qed.

Lemma dval_mono : forall ds acc, 0 <= acc -> forallb is_digit ds = true -> acc <= dval ds acc.
Proof.
  induction ds as [|d ds IH]; intros acc Ha Hd; [cbn; lia|].
  cbn [forallb] in Hd. apply andb_true_iff in Hd. destruct Hd as [_ Hd].
  rewrite dval_cons. specialize (IH (10 * acc + Z.of_N d) ltac:(lia) Hd). lia.
Qed.

Lemma pus_digits : forall ds acc,
  forallb is_digit ds = true -> 0 <= acc -> dval ds acc < 2 ^ 64 ->
  pus_loop (map dchar ds) acc = (dval ds acc, true).
Proof.
  induction ds as [|d ds IH]; intros acc Hd Ha Hv; [reflexivity|].
  cbn [forallb] in Hd. apply andb_true_iff in Hd. destruct Hd as [Hd1 Hd2].
  unfold is_digit in Hd1. apply N.ltb_lt in Hd1.
  destruct (dchar_tests d Hd1) as (_ & _ & _ & T4 & _ & T6 & _ & _ & T9).
  cbn [map pus_loop]. rewrite T9. cbn [negb]. rewrite orb_false_r.
  pose proof (dval_mono ds (10 * acc + Z.of_N d)) as Hm.
  rewrite dval_cons in Hv.
  assert (Hacc : 10 * acc + Z.of_N d < 2 ^ 64) by (specialize (Hm ltac:(lia) Hd2); lia).
  pose proof cutoff_val as CV. rewrite fBase_val.
  replace (fUint64Cutoff <=? acc) with false by (symmetry; apply Z.leb_gt; lia).
  rewrite T4, T6.
  destruct (d =? 0)%N eqn:E0.
  - assert (d = 0%N) by lia. subst d. rewrite wu64_id by lia.
    rewrite IH; [|exact Hd2|lia|].
    + rewrite dval_cons. f_equal. f_equal. lia.
    + replace (acc * 10) with (10 * acc + Z.of_N 0) by lia. exact Hv.
  - rewrite wu64_id by lia.
    replace (acc * 10 + Z.of_N d <? acc) with false by (symmetry; apply Z.ltb_ge; lia).
    rewrite IH; [|exact Hd2|lia|].
    + rewrite dval_cons. f_equal. f_equal. lia.
    + replace (acc * 10 + Z.of_N d) with (10 * acc + Z.of_N d) by lia. exact Hv.
Qed.

Lemma uint_roundtrip : forall u, 0 <= u < 2 ^ 64 ->
  parseUint64_simple (jsonEncodeUint false false u) = (u, true).
Proof.
  intros u H. destruct (uint_format u H) as (ds & Hf & Hwf & Hv). rewrite Hf.
  destruct (wf_int_digits ds Hwf) as [Hd _].
  assert (Hp : pus_loop (map dchar ds) 0 = (u, true)).
  { rewrite pus_digits; [rewrite <- ival_dval, Hv; reflexivity|exact Hd|lia|rewrite <- ival_dval, Hv; lia]. }
  unfold parseUint64_simple.
  destruct ds as [|d [|d2 r]]; [discriminate|exact Hp|].
  cbn [map]. cbn [map] in Hp.
  (* more than one digit: the first is not zero *)
  cbn [wf_int] in Hwf. apply andb_true_iff in Hwf. destruct Hwf as [Hwf _]. apply andb_true_iff in Hwf. destruct Hwf as [H1 H2].
  replace (dchar d =? 48)%N with false; [exact Hp|].
  symmetry. unfold dchar. unfold is_digit in H1. lia.
Qed.

(* negative numbers and the quoted (IntegerAsString / map key) form only add a sign and quotes *)
Lemma uint_decorated : forall neg quotes u,
  jsonEncodeUint neg quotes u =
  (if quotes then [34%N] else []) ++ (if neg then [45%N] else []) ++ jsonEncodeUint false false u
  ++ (if quotes then [34%N] else []).
Proof. intros. unfold jsonEncodeUint. cbn [app]. rewrite app_nil_r. reflexivity. Qed.

(* C09 — lemmas about the string decoder model (dec_string) against JsonStd. *)
From Coq Require Import List NArith ZArith Bool Lia.
From Coq Require Import ZifyN ZifyNat ZifyBool.
From Verif Require Import Gen.Consts Base.Outcome C09.Spec C09.Model.
Import ListNotations.
Open Scope bool_scope.
Open Scope N_scope.
Ltac Zify.zify_post_hook ::= Z.div_mod_to_equations.

(* the class of F09-2r: a surrogate escape immediately followed by a \u escape with
   which it does not form a valid pair *)
Fixpoint nopin (l : list item) : bool :=
  match l with
  | [] => true
  | U a b c d :: r =>
    if is_sur (u16 a b c d) then
      match r with
      | U a' b' c' d' :: r' => is_hi (u16 a b c d) && is_lo (u16 a' b' c' d') && nopin r'
      | _ => nopin r
      end
    else nopin r
  | _ :: r => nopin r
  end.

Definition unescape_full_statement : Prop :=
  forall (l : list item) (tl : list N),
    forallb wf_item l = true ->
    dec_string (render_lit l ++ tl) = Ok (denote l, tl).

Lemma unescape_refuted :
  exists (l : list item) (tl : list N),
    forallb wf_item l = true /\ nopin l = false /\ dec_string (render_lit l ++ tl) <> Ok (denote l, tl).
Proof.
  exists [U 100 56 48 48; U 48 48 52 49], [].
  split; [reflexivity|]. split; [reflexivity|]. vm_compute. discriminate.
Qed.

(* ---------- plain bytes and asis ---------- *)
Definition plain (b : N) : bool := negb (b =? 34) && negb (b =? 92).

Lemma asis_plain : forall p s, forallb plain p = true ->
  asis (p ++ s) = match asis s with Some (bs, c, r) => Some (p ++ bs, c, r) | None => None end.
Proof.
  induction p as [|b p IH]; intros s H; simpl.
  - destruct (asis s) as [[[bs c] r]|]; reflexivity.
  - simpl in H. apply andb_true_iff in H. destruct H as [Hb Hp].
    unfold plain in Hb. apply andb_true_iff in Hb. destruct Hb as [H1 H2].
    apply negb_true_iff in H1. apply negb_true_iff in H2. rewrite H1, H2. simpl.
    rewrite (IH s Hp). destruct (asis s) as [[[bs c] r]|]; reflexivity.
Qed.

Lemma utf8_plain : forall cp, wf_item (Ch cp) = true -> forallb plain (utf8_encode cp) = true.
Proof.
  intros cp H. simpl in H.
  repeat (apply andb_true_iff in H; destruct H as [H ?]).
  unfold utf8_encode.
  destruct (cp <? 128) eqn:E1; [cbn [forallb]; unfold plain; rewrite H1, H0; reflexivity|].
  destruct (cp <? 2048) eqn:E2; [|destruct (cp <? 65536) eqn:E3]; cbn [forallb]; unfold plain;
    repeat (apply andb_true_iff; split); try reflexivity; apply negb_true_iff; apply N.eqb_neq; lia.
Qed.

Lemma utf8_nonempty : forall cp, utf8_encode cp <> [].
Proof.
  intros cp. unfold utf8_encode.
  destruct (cp <? 128); [discriminate|]. destruct (cp <? 2048); [discriminate|].
  destruct (cp <? 65536); discriminate.
Qed.

(* ---------- scanning over a run of plain bytes ---------- *)
Lemma scan_plain : forall k p s buf hi, p <> [] -> forallb plain p = true ->
  dq_scan k buf hi (p ++ s) = dq_scan k ((if negb (hi =? 0) then buf ++ FFFD else buf) ++ p) 0 s.
Proof.
  intros k p s buf hi Hne Hp. unfold dq_scan. rewrite (asis_plain p s Hp).
  destruct (asis s) as [[[bs c] r]|]; [|reflexivity].
  assert (Hn : is_nil (p ++ bs) = false) by (destruct p; [congruence|reflexivity]).
  rewrite Hn. change (0 =? 0) with true. cbn [negb orb andb]. rewrite andb_true_r.
  rewrite <- !app_assoc.
  destruct (c =? 34); [reflexivity|].
  destruct (negb (is_nil bs) || false); reflexivity.
Qed.

(* ---------- hex digits ---------- *)
Lemma slashU1_hex : forall r c, is_hex c = true -> slashU1 (Some r) c = Some (r * 16 + hexval c).
Proof.
  intros r c H. unfold slashU1, hexval, is_hex in *.
  change (Z.to_N jsonU4Chk2) with 48. change (Z.to_N jsonU4Chk1) with 87. change (Z.to_N jsonU4Chk0) with 55.
  destruct (48 <=? c) eqn:A1; destruct (c <=? 57) eqn:A2; simpl in *; try reflexivity.
  - destruct (97 <=? c) eqn:B1; destruct (c <=? 102) eqn:B2; simpl in *.
    + replace (c <=? 70) with false by (symmetry; apply N.leb_gt; lia). reflexivity.
    + destruct (65 <=? c) eqn:C1; destruct (c <=? 70) eqn:C2; simpl in *; try discriminate; lia.
    + destruct (65 <=? c) eqn:C1; destruct (c <=? 70) eqn:C2; simpl in *; try discriminate. reflexivity.
    + destruct (65 <=? c) eqn:C1; destruct (c <=? 70) eqn:C2; simpl in *; try discriminate. reflexivity.
  - destruct (97 <=? c) eqn:B1; destruct (c <=? 102) eqn:B2; simpl in *; try lia;
    destruct (65 <=? c) eqn:C1; destruct (c <=? 70) eqn:C2; simpl in *; try discriminate; try lia.
  - destruct (97 <=? c) eqn:B1; destruct (c <=? 102) eqn:B2; simpl in *; try lia;
    destruct (65 <=? c) eqn:C1; destruct (c <=? 70) eqn:C2; simpl in *; try discriminate; try lia.
Qed.

Lemma slashU_hex : forall a b c d, wf_item (U a b c d) = true -> jsonSlashURune a b c d = u16 a b c d.
Proof.
  intros a b c d H. simpl in H.
  repeat (apply andb_true_iff in H; destruct H as [H ?]).
  unfold jsonSlashURune, u16.
  rewrite (slashU1_hex 0 a H), (slashU1_hex _ b H2), (slashU1_hex _ c H1), (slashU1_hex _ d H0).
  reflexivity.
Qed.

Lemma hexval_lt : forall c, is_hex c = true -> hexval c < 16.
Proof.
  intros c H. unfold is_hex, hexval in *.
  destruct (c <=? 57) eqn:A; destruct (c <=? 70) eqn:B; lia.
Qed.

Lemma u16_lt : forall a b c d, wf_item (U a b c d) = true -> u16 a b c d < 65536.
Proof.
  intros a b c d H. simpl in H.
  repeat (apply andb_true_iff in H; destruct H as [H ?]).
  pose proof (hexval_lt a H). pose proof (hexval_lt b H2). pose proof (hexval_lt c H1). pose proof (hexval_lt d H0).
  unfold u16. lia.
Qed.

Lemma pair_scalar : forall h l, is_hi h = true -> is_lo l = true -> scalar (pair_cp h l) = true.
Proof. intros h l Hh Hl. unfold is_hi, is_lo, scalar, pair_cp in *. lia. Qed.

Lemma nonsur_scalar : forall u, u < 65536 -> is_sur u = false -> scalar u = true.
Proof. intros u H Hs. unfold is_sur, scalar in *. lia. Qed.

Lemma sur_split : forall u, is_sur u = is_hi u || is_lo u.
Proof. intros u. unfold is_sur, is_hi, is_lo. lia. Qed.

Lemma hi_not_lo : forall u, is_hi u = true -> is_lo u = false.
Proof. intros u. unfold is_hi, is_lo. lia. Qed.

Lemma sur_nonzero : forall u, is_sur u = true -> (u =? 0) = false.
Proof. intros u. unfold is_sur. lia. Qed.

(* ---------- what the decoder owes for a pending surrogate ---------- *)
Definition dpend (hi : N) (l : list item) : list N :=
  if hi =? 0 then denote l
  else match l with
       | U a b c d :: r => utf8_encode (pair_cp hi (u16 a b c d)) ++ denote r
       | _ => FFFD ++ denote l
       end.

Definition gpend (hi : N) (l : list item) : bool :=
  if hi =? 0 then nopin l
  else is_sur hi && match l with
                    | U a b c d :: r => is_hi hi && is_lo (u16 a b c d) && nopin r
                    | _ => nopin l
                    end.

Lemma denote_sur : forall a b c d r,
  is_sur (u16 a b c d) = true -> nopin (U a b c d :: r) = true ->
  denote (U a b c d :: r) = dpend (u16 a b c d) r /\ gpend (u16 a b c d) r = true.
Proof.
  intros a b c d r Hs Hn. unfold dpend, gpend. rewrite (sur_nonzero _ Hs). rewrite Hs.
  simpl in Hn. rewrite Hs in Hn. simpl denote.
  destruct r as [|[cp|e|a' b' c' d'] r'].
  - split; [|exact Hn]. rewrite sur_split in Hs.
    destruct (is_hi (u16 a b c d)); [reflexivity|]. simpl in Hs. rewrite Hs. reflexivity.
  - split; [|exact Hn]. rewrite sur_split in Hs.
    destruct (is_hi (u16 a b c d)); [reflexivity|]. simpl in Hs. rewrite Hs. reflexivity.
  - split; [|exact Hn]. rewrite sur_split in Hs.
    destruct (is_hi (u16 a b c d)); [reflexivity|]. simpl in Hs. rewrite Hs. reflexivity.
  - apply andb_true_iff in Hn. destruct Hn as [Hn Hr]. apply andb_true_iff in Hn. destruct Hn as [Hh Hl].
    rewrite Hh, Hl. split; [reflexivity|]. simpl. exact Hr.
Qed.

Lemma esc_step : forall c buf hi s, is_esc c = true ->
  dq_step buf hi (c :: s) = Ok ((if negb (hi =? 0) then buf ++ FFFD else buf) ++ [esc_val c], 0, s).
Proof.
  intros c buf hi s H. unfold is_esc in H.
  repeat (apply orb_true_iff in H; destruct H as [H|H]); apply N.eqb_eq in H; subst c;
    unfold dq_step, esc_val; simpl; rewrite andb_true_r; reflexivity.
Qed.

Lemma render_cons : forall i l s, render_items (i :: l) ++ s = render_item i ++ render_items l ++ s.
Proof. intros. unfold render_items. simpl. rewrite <- app_assoc. reflexivity. Qed.

(* ---------- the main induction ---------- *)
Lemma scan_items : forall l f buf hi tl,
  forallb wf_item l = true -> gpend hi l = true -> (length l <= f)%nat ->
  dq_scan (dq_loop f) buf hi (render_items l ++ 34 :: tl) = Ok (buf ++ dpend hi l, tl).
Proof.
  induction l as [|i l IH]; intros f buf hi tl Hwf Hg Hf.
  - (* closing quote *)
    unfold dq_scan, dpend. simpl. rewrite app_nil_r.
    destruct (hi =? 0); simpl; [rewrite app_nil_r|]; reflexivity.
  - simpl in Hwf. apply andb_true_iff in Hwf. destruct Hwf as [Hi Hwf].
    rewrite render_cons.
    destruct i as [cp|c|a b c d].
    + (* unescaped character *)
      simpl render_item.
      rewrite (scan_plain _ _ _ _ _ (utf8_nonempty cp) (utf8_plain cp Hi)).
      assert (Hg0 : gpend 0 l = true).
      { unfold gpend in *. simpl. destruct (hi =? 0); [exact Hg|].
        apply andb_true_iff in Hg. destruct Hg as [_ Hg]. exact Hg. }
      rewrite (IH f _ 0 tl Hwf Hg0) by (simpl in Hf; lia).
      f_equal. f_equal. unfold dpend. simpl (0 =? 0). cbv iota.
      destruct (hi =? 0); simpl negb; cbv iota.
      * rewrite <- app_assoc. reflexivity.
      * rewrite <- !app_assoc. reflexivity.
    + (* two-character escape *)
      simpl render_item. simpl app.
      unfold dq_scan at 1. simpl asis. cbv iota beta. simpl is_nil. simpl negb.
      change (92 =? 34) with false. rewrite orb_false_r. simpl orb. rewrite andb_false_r. cbv iota.
      rewrite app_nil_r.
      destruct f as [|f]; [simpl in Hf; lia|].
      cbn [dq_loop]. rewrite (esc_step c buf hi _ Hi).
      assert (Hg0 : gpend 0 l = true).
      { unfold gpend in *. simpl. destruct (hi =? 0); [exact Hg|].
        apply andb_true_iff in Hg. destruct Hg as [_ Hg]. exact Hg. }
      rewrite (IH f _ 0 tl Hwf Hg0) by (simpl in Hf; lia).
      f_equal. f_equal. unfold dpend. simpl (0 =? 0). cbv iota.
      destruct (hi =? 0); simpl negb; cbv iota; simpl denote.
      * rewrite <- app_assoc. reflexivity.
      * rewrite <- !app_assoc. reflexivity.
    + (* \u escape *)
      simpl render_item. simpl app.
      unfold dq_scan at 1. simpl asis. cbv iota beta. simpl is_nil. simpl negb.
      change (92 =? 34) with false. rewrite orb_false_r. simpl orb. rewrite andb_false_r. cbv iota.
      rewrite app_nil_r.
      destruct f as [|f]; [simpl in Hf; lia|].
      cbn [dq_loop]. unfold dq_step. change (117 =? 117) with true.
      simpl negb. rewrite andb_false_r. cbv iota.
      change ((117 =? 34) || (117 =? 92) || (117 =? 47) || (117 =? 39)) with false.
      change (117 =? 98) with false. change (117 =? 102) with false. change (117 =? 110) with false.
      change (117 =? 114) with false. change (117 =? 116) with false. cbv iota.
      rewrite (slashU_hex a b c d Hi).
      pose proof (u16_lt a b c d Hi) as Hlt.
      unfold gpend in Hg. unfold dpend at 1.
      destruct (hi =? 0) eqn:Hhi; simpl negb; cbv iota.
      * (* nothing pending *)
        destruct (is_sur (u16 a b c d)) eqn:Hs.
        -- destruct (denote_sur a b c d l Hs Hg) as [Hd Hg'].
           rewrite (IH f buf _ tl Hwf Hg') by (simpl in Hf; lia). rewrite Hd. reflexivity.
        -- assert (Hg0 : gpend 0 l = true).
           { unfold gpend. simpl. simpl in Hg. rewrite Hs in Hg. exact Hg. }
           rewrite (IH f _ 0 tl Hwf Hg0) by (simpl in Hf; lia).
           unfold encodeRune. rewrite (nonsur_scalar _ Hlt Hs).
           f_equal. f_equal. unfold dpend. simpl (0 =? 0). cbv iota.
           simpl denote. rewrite sur_split in Hs. apply orb_false_iff in Hs. destruct Hs as [Hh Hl].
           rewrite Hh, Hl. rewrite <- app_assoc. reflexivity.
      * (* a surrogate is pending: the guard says they pair *)
        apply andb_true_iff in Hg. destruct Hg as [_ Hg].
        apply andb_true_iff in Hg. destruct Hg as [Hg Hn]. apply andb_true_iff in Hg. destruct Hg as [Hh Hl].
        unfold utf16_decode. rewrite Hh, Hl. simpl andb. cbv iota.
        unfold encodeRune. rewrite (pair_scalar _ _ Hh Hl).
        assert (Hg0 : gpend 0 l = true) by (unfold gpend; simpl; exact Hn).
        rewrite (IH f _ 0 tl Hwf Hg0) by (simpl in Hf; lia).
        f_equal. f_equal. unfold dpend. simpl (0 =? 0). cbv iota.
        rewrite <- app_assoc. reflexivity.
Qed.

Lemma render_length : forall l, (length l <= length (render_items l))%nat.
Proof.
  induction l as [|i l IH]; simpl; [lia|].
  unfold render_items in *. simpl. rewrite app_length.
  assert (1 <= length (render_item i))%nat.
  { destruct i; simpl; try lia. pose proof (utf8_nonempty cp). destruct (utf8_encode cp); [congruence|simpl; lia]. }
  lia.
Qed.

(* the decoder returns the denoted string and stops right after the closing quote *)
Lemma unescape_lemma : forall (l : list item) (tl : list N),
  forallb wf_item l = true -> nopin l = true ->
  dec_string (render_lit l ++ tl) = Ok (denote l, tl).
Proof.
  intros l tl Hwf Hn. unfold render_lit. simpl app. unfold dec_string. change (34 =? 34) with true. cbv iota.
  rewrite <- app_assoc. simpl app.
  rewrite (scan_items l _ [] 0 tl Hwf).
  - reflexivity.
  - unfold gpend. simpl. exact Hn.
  - rewrite app_length. pose proof (render_length l). simpl. lia.
Qed.

(* consumed bytes = exactly the literal *)
Lemma unescape_consumes : forall (l : list item) (tl : list N),
  forallb wf_item l = true -> nopin l = true ->
  exists d, dec_string (render_lit l ++ tl) = Ok (d, tl) /\
            (length (render_lit l ++ tl) - length tl = length (render_lit l))%nat.
Proof.
  intros l tl Hwf Hn. exists (denote l). split; [apply unescape_lemma; assumption|].
  rewrite app_length. lia.
Qed.

(* ---------- the executable reference reads back what it renders ---------- *)
Lemma eqbl_refl : forall a, eqbl a a = true.
Proof. induction a as [|x a IH]; simpl; [reflexivity|]. rewrite N.eqb_refl. exact IH. Qed.

Lemma eqbl_eq : forall a b, eqbl a b = true -> a = b.
Proof.
  induction a as [|x a IH]; destruct b as [|y b]; simpl; intros H; try discriminate; [reflexivity|].
  apply andb_true_iff in H. destruct H as [H1 H2]. apply N.eqb_eq in H1. subst. f_equal. apply IH. exact H2.
Qed.

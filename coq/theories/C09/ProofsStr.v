(* C09 — lemmas about the string decoder model (dec_string) against JsonStd. *)
From Coq Require Import List NArith ZArith Bool Lia.
From Verif Require Import Gen.Consts Base.Outcome C09.Spec C09.Model.
Import ListNotations.
Open Scope bool_scope.
Open Scope N_scope.

(* the class of F09-2r: a surrogate escape immediately followed by a \u escape with
   which it does not form a valid pair *)
Fixpoint nopin (l : list item) : bool :=
  match l with
  | [] => true
  | U a b c d :: r =>
    if is_sur (u16 a b c d) then
      match r with
      | U a' b' c' d' :: r' => is_hi (u16 a b c d) && is_lo (u16 a' b' c' d') && nopin r'
      | _ => nopin r
      end
    else nopin r
  | _ :: r => nopin r
  end.

Definition unescape_full_statement : Prop :=
  forall (l : list item) (tl : list N),
    forallb wf_item l = true ->
    dec_string (render_lit l ++ tl) = Ok (denote l, tl).

Lemma unescape_refuted :
  exists (l : list item) (tl : list N),
    forallb wf_item l = true /\ dec_string (render_lit l ++ tl) <> Ok (denote l, tl).
Proof.
  exists [U 100 56 48 48; U 48 48 52 49], [].
  split; [reflexivity|]. vm_compute. discriminate.
Qed.

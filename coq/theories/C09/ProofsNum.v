(* C09 — lemmas about readFloat on literals of the JSON number grammar. *)
From Coq Require Import List NArith ZArith Bool Lia.
From Coq Require Import ZifyN ZifyNat ZifyBool.
From Verif Require Import Gen.Consts Base.Outcome C09.Spec C09.Model.
Import ListNotations.
Open Scope bool_scope.
Open Scope Z_scope.

(* ---------- machine words ---------- *)
Lemma wi_id : forall x, - 2 ^ 63 <= x < 2 ^ 63 -> wi x = x.
Proof. intros x H. unfold wi. rewrite Z.mod_small; lia. Qed.

Lemma wu64_id : forall x, 0 <= x < 2 ^ 64 -> wu64 x = x.
Proof. intros x H. unfold wu64. apply Z.mod_small. exact H. Qed.

Lemma wi8_id : forall x, - 128 <= x <= 127 -> wi8 x = x.
Proof. intros x H. unfold wi8. rewrite Z.mod_small; lia. Qed.

(* ---------- what readFloat needs of a floatinfo ---------- *)
Record fi_ok (y : floatinfo) : Prop := mk_fi_ok {
  fo_cut_pos : 0 < mantCutoff y;
  fo_cut_le : mantCutoff y <= fUint64Cutoff;
  fo_u64 : cutIsU64 y = true -> mantCutoff y = fUint64Cutoff;
  fo_nou64 : cutIsU64 y = false -> 10 * mantCutoff y < 2 ^ 64;
  fo_p10 : 0 <= exactPow10 y <= 128;
  fo_ints : 0 <= exactInts y;
  fo_i8 : exactInts y + exactPow10 y <= 127 }.

Lemma fi32_ok : fi_ok fi32. Proof. constructor; vm_compute; try discriminate; try reflexivity; try (split; discriminate); intros; try discriminate. Qed.
Lemma fi64_ok : fi_ok fi64. Proof. constructor; vm_compute; try discriminate; try reflexivity; try (split; discriminate); intros; try discriminate. Qed.
Lemma fi64u_ok : fi_ok fi64u. Proof. constructor; vm_compute; try discriminate; try reflexivity; try (split; discriminate); intros; try discriminate. Qed.

(* ---------- abstraction of the loop state ---------- *)
Definition V (st : lst) : Z := lm st * 10 ^ (nd st - ndMant st).
Definition edp (st : lst) : Z := if sawdot st then dp st else nd st.
Definition Q (st : lst) : Z := edp st - nd st.

Record Inv (B : Z) (y : floatinfo) (st : lst) : Prop := mk_inv {
  i_nd : 0 <= ndMant st <= nd st;
  i_ndB : nd st <= B;
  i_dp : - B <= dp st <= B;
  i_lm : 0 <= lm st < 2 ^ 64;
  i_cut : lm st < mantCutoff y -> nd st = ndMant st;
  i_zero : nd st = 0 -> lm st = 0 }.

(* ---------- characters of digits ---------- *)
Lemma dchar_tests : forall d, (d < 10)%N ->
  (dchar d =? 46)%N = false /\ (dchar d =? 101)%N = false /\ (dchar d =? 69)%N = false /\
  (dchar d =? 48)%N = (d =? 0)%N /\
  ((49 <=? dchar d)%N && (dchar d <=? 57)%N) = negb (d =? 0)%N /\
  c2z (dchar d) - 48 = Z.of_N d /\
  (dchar d =? 45)%N = false /\ (dchar d =? 43)%N = false /\ isdig (dchar d) = true.
Proof. intros d H. unfold dchar, c2z, isdig. repeat split; lia. Qed.

Lemma cutoff_val : fUint64Cutoff = 1844674407370955162.
Proof. reflexivity. Qed.

Lemma fBase_val : fBase = 10.
Proof. reflexivity. Qed.

Lemma pow10_succ : forall k, 0 <= k -> 10 ^ (k + 1) = 10 * 10 ^ k.
Proof. intros k H. rewrite Z.pow_add_r by lia. rewrite Z.pow_1_r. lia. Qed.

(* one digit *)
Lemma digit_step : forall y d r st B,
  fi_ok y -> (d < 10)%N -> Inv B y st -> 0 <= B < 2 ^ 62 ->
  rf_loop y (dchar d :: r) st = LTrunc \/
  exists st', rf_loop y (dchar d :: r) st = rf_loop y r st' /\ Inv (B + 1) y st' /\
              V st' = 10 * V st + Z.of_N d /\ sawdot st' = sawdot st /\
              Q st' = Q st - (if sawdot st then 1 else 0).
Proof.
  intros y d r st B Hy Hd HI HB.
  destruct (dchar_tests d Hd) as (T1 & T2 & T3 & T4 & T5 & T6 & _).
  destruct Hy as [Y1 Y2 Y3 Y4 Y5 Y6 Y7].
  destruct HI as [I1 I2 I3 I4 I5 I6].
  destruct st as [nd0 nm0 dp0 sd0 lm0]. cbn [nd ndMant dp sawdot lm] in *.
  pose proof cutoff_val as CV.
  cbn [rf_loop]. rewrite T1, T2, T3, T4, T5, T6. cbn [orb nd ndMant dp sawdot lm]. rewrite fBase_val.
  destruct (d =? 0)%N eqn:Ed0.
  - (* the digit 0 *)
    assert (d = 0%N) by lia. subst d. cbn [negb].
    destruct (nd0 =? 0) eqn:End.
    + (* leading zero *)
      right. eexists. split; [reflexivity|].
      assert (nd0 = 0) by lia. subst nd0. assert (nm0 = 0) by lia. subst nm0.
      rewrite (I6 eq_refl) in *.
      rewrite wi_id by lia.
      unfold V, Q, edp. cbn [nd ndMant dp sawdot lm].
      split; [constructor; cbn [nd ndMant dp sawdot lm]; try lia; intros; lia|].
      split; [lia|]. split; [reflexivity|]. destruct sd0; lia.
    + right. rewrite (wi_id (nd0 + 1)) by lia.
      destruct (lm0 <? mantCutoff y) eqn:Ecut.
      * eexists. split; [reflexivity|].
        rewrite (wi_id (nm0 + 1)) by lia. rewrite wu64_id by lia.
        assert (nd0 = nm0) by (apply I5; lia). subst nm0.
        unfold V, Q, edp. cbn [nd ndMant dp sawdot lm].
        split; [constructor; cbn [nd ndMant dp sawdot lm]; try lia; intros; lia|].
        replace (nd0 + 1 - (nd0 + 1)) with 0 by lia. replace (nd0 - nd0) with 0 by lia.
        split; [rewrite ?Z.pow_0_r; lia|]. split; [reflexivity|]. destruct sd0; lia.
      * eexists. split; [reflexivity|].
        unfold V, Q, edp. cbn [nd ndMant dp sawdot lm].
        split; [constructor; cbn [nd ndMant dp sawdot lm]; try lia; intros; lia|].
        replace (nd0 + 1 - nm0) with ((nd0 - nm0) + 1) by lia. rewrite pow10_succ by lia.
        split; [lia|]. split; [reflexivity|]. destruct sd0; lia.
  - (* a digit 1..9 *)
    cbn [negb]. rewrite (wi_id (nd0 + 1)) by lia.
    destruct (cutIsU64 y && (lm0 <? fUint64Cutoff)) eqn:Eu.
    + apply andb_true_iff in Eu. destruct Eu as [Eu1 Eu2].
      specialize (Y3 Eu1).
      rewrite (wu64_id (lm0 * 10)) by lia.
      destruct (wu64 (lm0 * 10 + Z.of_N d) <? lm0 * 10) eqn:Eov; [left; reflexivity|].
      right. eexists. split; [reflexivity|].
      assert (Hno : lm0 * 10 + Z.of_N d < 2 ^ 64).
      { destruct (Z_lt_ge_dec (lm0 * 10 + Z.of_N d) (2 ^ 64)) as [|Hge]; [assumption|].
        exfalso. unfold wu64 in Eov.
        replace (lm0 * 10 + Z.of_N d) with ((lm0 * 10 + Z.of_N d - 2 ^ 64) + 1 * 2 ^ 64) in Eov by lia.
        rewrite Z.mod_add in Eov by lia. rewrite Z.mod_small in Eov by lia. lia. }
      rewrite wu64_id by lia. rewrite (wi_id (nm0 + 1)) by lia.
      assert (nd0 = nm0) by (apply I5; lia). subst nm0.
      unfold V, Q, edp. cbn [nd ndMant dp sawdot lm].
      split; [constructor; cbn [nd ndMant dp sawdot lm]; try lia; intros; lia|].
      replace (nd0 + 1 - (nd0 + 1)) with 0 by lia. replace (nd0 - nd0) with 0 by lia.
      split; [rewrite ?Z.pow_0_r; lia|]. split; [reflexivity|]. destruct sd0; lia.
    + destruct (lm0 <? mantCutoff y) eqn:Ecut; [|left; reflexivity].
      right. eexists. split; [reflexivity|].
      assert (Hc : cutIsU64 y = false).
      { destruct (cutIsU64 y) eqn:E; [|reflexivity]. specialize (Y3 eq_refl). simpl in Eu. lia. }
      specialize (Y4 Hc).
      rewrite wu64_id by lia. rewrite (wi_id (nm0 + 1)) by lia.
      assert (nd0 = nm0) by (apply I5; lia). subst nm0.
      unfold V, Q, edp. cbn [nd ndMant dp sawdot lm].
      split; [constructor; cbn [nd ndMant dp sawdot lm]; try lia; intros; lia|].
      replace (nd0 + 1 - (nd0 + 1)) with 0 by lia. replace (nd0 - nd0) with 0 by lia.
      split; [rewrite ?Z.pow_0_r; lia|]. split; [reflexivity|]. destruct sd0; lia.
Qed.

(* value of a digit string appended to an accumulator *)
Definition dval (ds : list N) (acc : Z) : Z := fold_left (fun a d => 10 * a + Z.of_N d) ds acc.

Lemma inv_weaken : forall B B' y st, B <= B' -> Inv B y st -> Inv B' y st.
Proof. intros B B' y st H [I1 I2 I3 I4 I5 I6]. constructor; try assumption; lia. Qed.

(* a run of digits *)
Lemma digits_run : forall y ds r st B,
  fi_ok y -> forallb is_digit ds = true -> Inv B y st -> 0 <= B -> B + Z.of_nat (length ds) < 2 ^ 62 ->
  rf_loop y (map dchar ds ++ r) st = LTrunc \/
  exists st', rf_loop y (map dchar ds ++ r) st = rf_loop y r st' /\ Inv (B + Z.of_nat (length ds)) y st' /\
              V st' = dval ds (V st) /\ sawdot st' = sawdot st /\
              Q st' = Q st - (if sawdot st then Z.of_nat (length ds) else 0).
Proof.
  intros y ds. induction ds as [|d ds IH]; intros r st B Hy Hd HI HB0 HB.
  - right. exists st. simpl. split; [reflexivity|]. split; [apply (inv_weaken B); [lia|assumption]|].
    split; [reflexivity|]. split; [reflexivity|]. destruct (sawdot st); lia.
  - simpl in Hd. apply andb_true_iff in Hd. destruct Hd as [Hd1 Hd2]. unfold is_digit in Hd1.
    cbn [map app]. cbn [length] in HB.
    destruct (digit_step y d (map dchar ds ++ r) st B Hy) as [Ht|[st1 (E1 & I1 & V1 & S1 & Q1)]]; try assumption; try lia.
    + left. exact Ht.
    + rewrite E1.
      destruct (IH r st1 (B + 1) Hy Hd2 I1) as [Ht|[st2 (E2 & I2 & V2 & S2 & Q2)]]; try lia.
      * left. exact Ht.
      * right. exists st2. split; [exact E2|].
        split; [apply (inv_weaken (B + 1 + Z.of_nat (length ds))); [cbn [length]; lia|assumption]|].
        split; [rewrite V2, V1; reflexivity|]. split; [congruence|].
        rewrite Q2, Q1, S1. cbn [length]. destruct (sawdot st); lia.
Qed.

Lemma dval_app : forall a b acc, dval (a ++ b) acc = dval b (dval a acc).
Proof. intros. unfold dval. apply fold_left_app. Qed.

Lemma ival_dval : forall ds, ival ds = dval ds 0.
Proof. reflexivity. Qed.

(* ---------- the exponent part ---------- *)
Definition esign_chars (s : esign) : list N :=
  match s with ENone => [] | EPlus => [43%N] | EMinus => [45%N] end.
Definition eval (s : esign) (e : list N) : Z := match s with EMinus => - ival e | _ => ival e end.

Lemma ival_bound2 : forall d1 d2, (d1 < 10)%N -> (d2 < 10)%N -> 0 <= ival [d1; d2] <= 99 /\ 0 <= ival [d1] <= 9.
Proof. intros. unfold ival. cbn [fold_left]. lia. Qed.

Lemma exp_digits : forall eneg e dp0,
  wf_digits1 e = true -> - 2 ^ 62 <= dp0 <= 2 ^ 62 ->
  rf_exp_digits eneg (map dchar e) dp0 = EHard \/
  (Z.of_nat (length e) <= 2 /\
   rf_exp_digits eneg (map dchar e) dp0 = EDp (if eneg then dp0 - ival e else dp0 + ival e)).
Proof.
  intros eneg e dp0 He Hdp.
  destruct e as [|d1 e]; [discriminate|].
  unfold wf_digits1 in He. cbn [forallb] in He. apply andb_true_iff in He. destruct He as [H1 He].
  unfold is_digit in H1. apply N.ltb_lt in H1.
  destruct (dchar_tests d1 H1) as (_ & _ & _ & _ & _ & T6 & T7 & T8 & T9).
  cbn [map]. unfold rf_exp_digits. cbn [length]. rewrite map_length.
  destruct (2 <? Z.of_nat (S (length e))) eqn:El; [left; reflexivity|]. right.
  split; [cbn [length]; lia|].
  rewrite T9. cbn [negb]. rewrite T6. rewrite fBase_val.
  destruct e as [|d2 e].
  - cbn [map]. unfold ival. cbn [fold_left]. destruct eneg; rewrite wi_id by lia; f_equal; lia.
  - destruct e as [|d3 e]; [|cbn [length] in El; lia].
    cbn [forallb] in He. apply andb_true_iff in He. destruct He as [H2 _]. unfold is_digit in H2. apply N.ltb_lt in H2.
    destruct (dchar_tests d2 H2) as (_ & _ & _ & _ & _ & U6 & _ & _ & U9).
    cbn [map]. rewrite U9. cbn [negb]. rewrite U6.
    pose proof (ival_bound2 d1 d2 H1 H2) as [Hb _]. unfold ival in *. cbn [fold_left] in *.
    rewrite (wi_id (Z.of_N d1 * 10 + Z.of_N d2)) by lia.
    destruct eneg; rewrite wi_id by lia; f_equal; lia.
Qed.

Lemma exp_part : forall s e dp0,
  wf_digits1 e = true -> - 2 ^ 62 <= dp0 <= 2 ^ 62 ->
  rf_exp (esign_chars s ++ map dchar e) dp0 = EHard \/
  (Z.of_nat (length e) <= 2 /\ rf_exp (esign_chars s ++ map dchar e) dp0 = EDp (dp0 + eval s e)).
Proof.
  intros s e dp0 He Hdp.
  destruct s; cbn [esign_chars app eval].
  - (* no sign: the first character is the digit itself *)
    destruct e as [|d1 e]; [discriminate|].
    assert (H1 : (d1 < 10)%N).
    { unfold wf_digits1 in He. cbn [forallb] in He. apply andb_true_iff in He. destruct He as [H1 _].
      unfold is_digit in H1. apply N.ltb_lt in H1. exact H1. }
    destruct (dchar_tests d1 H1) as (_ & _ & _ & _ & _ & _ & T7 & T8 & _).
    cbn [map]. unfold rf_exp. rewrite T8, T7.
    exact (exp_digits false (d1 :: e) dp0 He Hdp).
  - unfold rf_exp. change (43 =? 43)%N with true. cbv iota.
    exact (exp_digits false e dp0 He Hdp).
  - unfold rf_exp. change (45 =? 43)%N with false. change (45 =? 45)%N with true. cbv iota.
    destruct (exp_digits true e dp0 He Hdp) as [H|[H1 H2]]; [left; exact H|right].
    split; [exact H1|]. rewrite H2. f_equal.
Qed.

(* ---------- finish ---------- *)
Lemma finish_ok : forall y neg st dpf B E,
  fi_ok y -> Inv B y st -> 0 <= B < 2 ^ 61 -> dpf = edp st + E -> - 100 <= E <= 100 ->
  let r := rf_finish y neg st dpf in
  rbad r = false /\ rneg r = neg /\ rtrunc r = false /\
  (rok r = true -> dec_eq (mant r) (rexp r) (V st) (Q st + E)) /\
  (rok r = false -> rhard r = true).
Proof.
  intros y neg st dpf B E Hy HI HB Hdpf HE.
  destruct Hy as [Y1 Y2 Y3 Y4 Y5 Y6 Y7]. destruct HI as [I1 I2 I3 I4 I5 I6].
  unfold rf_finish.
  destruct (lm st =? 0) eqn:E0.
  - cbn. repeat split; try discriminate. intros _.
    unfold dec_eq, V. apply Z.eqb_eq in E0. rewrite E0. rewrite !Z.mul_0_l. reflexivity.
  - assert (Hedp : - B <= edp st <= B) by (unfold edp; destruct (sawdot st); lia).
    rewrite wi_id by lia.
    match goal with |- context [if ?c then _ else _] => destruct c eqn:Ec end.
    + cbn. repeat split; try discriminate; try reflexivity.
    + cbn. repeat split; try discriminate. intros _.
      apply orb_false_iff in Ec. destruct Ec as [Ec _]. apply orb_false_iff in Ec. destruct Ec as [Ea Eb].
      rewrite wi8_id by lia.
      unfold dec_eq, V, Q. subst dpf.
      replace (Z.min (edp st + E - ndMant st) (edp st - nd st + E)) with (edp st - nd st + E) by lia.
      replace (edp st + E - ndMant st - (edp st - nd st + E)) with (nd st - ndMant st) by lia.
      replace (edp st - nd st + E - (edp st - nd st + E)) with 0 by lia.
      rewrite Z.pow_0_r. lia.
Qed.

(* ---------- assembling a literal ---------- *)
Definition exp_chars (upper : bool) (x : option (esign * list N)) : list N :=
  match x with
  | None => []
  | Some (s, e) => (if upper then 69%N else 101%N) :: esign_chars s ++ map dchar e
  end.
Definition frac_chars (f : option (list N)) : list N :=
  match f with None => [] | Some f => 46%N :: map dchar f end.

Lemma render_split : forall upper n,
  render_num upper n = (if nneg n then [45%N] else []) ++ map dchar (nint n) ++ frac_chars (nfrac n) ++ exp_chars upper (nexp n).
Proof.
  intros upper n. unfold render_num, frac_chars, exp_chars, esign_chars.
  destruct (nexp n) as [[s e]|]; [|reflexivity]. destruct s; reflexivity.
Qed.

Definition lit_E (n : numlit) : Z := match nexp n with None => 0 | Some (s, e) => eval s e end.
Definition lit_F (n : numlit) : Z := match nfrac n with None => 0 | Some f => Z.of_nat (length f) end.

Lemma dexp_alt : forall n, dexp n = lit_E n - lit_F n.
Proof.
  intros n. unfold dexp, lit_E, lit_F, eval. destruct (nexp n) as [[s e]|]; [destruct s|]; reflexivity.
Qed.

Definition st0 := mklst 0 0 0 false 0.

Lemma inv0 : forall y, fi_ok y -> Inv 0 y st0.
Proof. intros y Hy. constructor; cbn; try lia; intros; lia. Qed.

Lemma wf_int_digits : forall ds, wf_int ds = true -> forallb is_digit ds = true /\ ds <> [].
Proof.
  intros ds H. destruct ds as [|d r]; [discriminate|]. split; [|discriminate].
  destruct r as [|d2 r]; cbn in *.
  - rewrite H. reflexivity.
  - apply andb_true_iff in H. destruct H as [H H3]. apply andb_true_iff in H. destruct H as [H1 H2].
    rewrite H1. cbn [forallb] in H3. exact H3.
Qed.

Lemma wf_digits1_digits : forall ds, wf_digits1 ds = true -> forallb is_digit ds = true.
Proof. intros ds H. destruct ds; [discriminate|exact H]. Qed.

(* the loop result feeds the same post-processing in rf_main and in tail_ok *)
Definition post (y : floatinfo) (neg : bool) (l : lres) : rfr :=
  match l with
  | LBad => mkrfr 0 0 neg false true false false
  | LTrunc => mkrfr 0 0 neg true false false false
  | LEnd st => rf_finish y neg st (if sawdot st then dp st else nd st)
  | LExp st rest =>
    match rf_exp rest (if sawdot st then dp st else nd st) with
    | EBad => mkrfr 0 0 neg false true false false
    | EHard => mkrfr 0 0 neg false false true false
    | EDp d => rf_finish y neg st d
    end
  end.

Lemma rf_main_eq : forall y neg s1,
  rf_main y neg s1 =
  if match s1 with
     | z :: n :: _ => (z =? 48)%N && negb ((n =? 46)%N || (n =? 101)%N || (n =? 69)%N)
     | _ => false
     end
  then mkrfr 0 0 neg false true false false
  else post y neg (rf_loop y s1 st0).
Proof. reflexivity. Qed.

(* the tail after the mantissa: nothing, or an exponent *)
Lemma tail_ok : forall y upper neg st B (x : option (esign * list N)),
  fi_ok y -> Inv B y st -> 0 <= B < 2 ^ 61 ->
  match x with None => True | Some (_, e) => wf_digits1 e = true end ->
  let r := post y neg (rf_loop y (exp_chars upper x) st) in
  rbad r = false /\ rneg r = neg /\
  (rok r = true -> dec_eq (mant r) (rexp r) (V st) (Q st + match x with None => 0 | Some (s, e) => eval s e end)) /\
  (rok r = false -> rtrunc r = true \/ rhard r = true).
Proof.
  intros y upper neg st B x Hy HI HB Hx. unfold post.
  assert (Hedp : - B <= edp st <= B).
  { destruct HI as [I1 I2 I3 I4 I5 I6]. unfold edp. destruct (sawdot st); lia. }
  destruct x as [[s e]|].
  - cbn [exp_chars].
    assert (Hl : rf_loop y ((if upper then 69%N else 101%N) :: esign_chars s ++ map dchar e) st
                 = LExp st (esign_chars s ++ map dchar e)).
    { destruct upper; reflexivity. }
    rewrite Hl. fold (edp st).
    destruct (exp_part s e (edp st) Hx) as [Hh|[Hlen Hd]]; [lia| |].
    + rewrite Hh. cbn. repeat split; try discriminate. intros _. right. reflexivity.
    + rewrite Hd.
      assert (HE : - 100 <= eval s e <= 100).
      { destruct e as [|d1 e]; [discriminate|].
        cbn [wf_digits1 forallb] in Hx. apply andb_true_iff in Hx. destruct Hx as [H1 Hx]. unfold is_digit in H1. apply N.ltb_lt in H1.
        destruct e as [|d2 e].
        - unfold eval, ival. cbn [fold_left]. destruct s; lia.
        - destruct e as [|d3 e]; [|cbn [length] in Hlen; lia].
          cbn [forallb] in Hx. apply andb_true_iff in Hx. destruct Hx as [H2 _]. unfold is_digit in H2. apply N.ltb_lt in H2.
          unfold eval, ival. cbn [fold_left]. destruct s; lia. }
      destruct (finish_ok y neg st (edp st + eval s e) B (eval s e) Hy HI HB eq_refl HE) as (F1 & F2 & F3 & F4 & F5).
      repeat split; try assumption. intros H. right. apply F5. exact H.
  - cbn [exp_chars rf_loop]. fold (edp st).
    destruct (finish_ok y neg st (edp st) B 0 Hy HI HB) as (F1 & F2 & F3 & F4 & F5); [lia|lia|].
    repeat split; try assumption. intros H. right. apply F5. exact H.
Qed.

Definition good (n : numlit) (r : rfr) : Prop :=
  rbad r = false /\ rneg r = nneg n /\
  (rok r = true -> dec_eq (mant r) (rexp r) (dmant n) (dexp n)) /\
  (rok r = false -> rtrunc r = true \/ rhard r = true).

Lemma good_trunc : forall n y, good n (post y (nneg n) LTrunc).
Proof. intros n y. unfold good. cbn. repeat split; try discriminate. intros _. left. reflexivity. Qed.

Lemma badzero_false : forall n upper,
  wf_numlit n = true ->
  match map dchar (nint n) ++ frac_chars (nfrac n) ++ exp_chars upper (nexp n) with
  | z :: c :: _ => (z =? 48)%N && negb ((c =? 46)%N || (c =? 101)%N || (c =? 69)%N)
  | _ => false
  end = false.
Proof.
  intros n upper H. unfold wf_numlit in H.
  apply andb_true_iff in H. destruct H as [H _]. apply andb_true_iff in H. destruct H as [Hi _].
  destruct (nint n) as [|d [|d2 r]]; [discriminate| |].
  - cbn [map app]. destruct (nfrac n) as [f|]; cbn [frac_chars app].
    + rewrite andb_false_r. reflexivity.
    + destruct (nexp n) as [[s e]|]; cbn [exp_chars]; [|reflexivity].
      destruct upper; cbn; rewrite andb_false_r; reflexivity.
  - cbn [wf_int] in Hi. apply andb_true_iff in Hi. destruct Hi as [Hi _]. apply andb_true_iff in Hi. destruct Hi as [H1 H2].
    unfold is_digit in H1. apply N.ltb_lt in H1.
    cbn [map app]. replace (dchar d =? 48)%N with false; [reflexivity|].
    symmetry. unfold dchar. apply N.eqb_neq. apply negb_true_iff in H2. apply N.eqb_neq in H2. lia.
Qed.

Lemma length_render : forall upper n,
  Z.of_nat (length (nint n)) + lit_F n <= Z.of_nat (length (render_num upper n)).
Proof.
  intros upper n. rewrite render_split. rewrite !app_length, map_length. unfold lit_F, frac_chars.
  destruct (nfrac n) as [f|]; cbn [length]; [rewrite map_length|]; lia.
Qed.

Lemma main_lemma : forall n upper y,
  wf_numlit n = true -> fi_ok y -> Z.of_nat (length (render_num upper n)) < 2 ^ 61 ->
  good n (rf_main y (nneg n) (map dchar (nint n) ++ frac_chars (nfrac n) ++ exp_chars upper (nexp n))).
Proof.
  intros n upper y Hwf Hy Hlen.
  rewrite rf_main_eq. rewrite (badzero_false n upper Hwf). cbv iota.
  pose proof (length_render upper n) as HL.
  pose proof Hwf as Hwf'. unfold wf_numlit in Hwf.
  apply andb_true_iff in Hwf. destruct Hwf as [Hwf Hx]. apply andb_true_iff in Hwf. destruct Hwf as [Hi Hf].
  destruct (wf_int_digits _ Hi) as [Hid _].
  assert (HF0 : 0 <= lit_F n) by (unfold lit_F; destruct (nfrac n); lia).
  destruct (digits_run y (nint n) (frac_chars (nfrac n) ++ exp_chars upper (nexp n)) st0 0 Hy Hid (inv0 y Hy))
    as [Ht|[st1 (E1 & I1 & V1 & S1 & Q1)]]; try lia.
  { rewrite Ht. apply good_trunc. }
  rewrite E1. change (sawdot st0) with false in S1, Q1. change (Q st0) with 0 in Q1. change (V st0) with 0 in V1.
  cbv iota in Q1. rewrite Z.sub_0_r in Q1. rewrite Z.add_0_l in I1.
  assert (HX : match nexp n with None => True | Some (_, e) => wf_digits1 e = true end).
  { destruct (nexp n) as [[s e]|]; [exact Hx|exact I]. }
  assert (Hd : dexp n = lit_E n - lit_F n) by apply dexp_alt.
  unfold lit_E in Hd. unfold lit_F in HL, HF0, Hd.
  destruct (nfrac n) as [f|] eqn:EF.
  - (* a fraction *)
    cbn [frac_chars app].
    pose (st1' := mklst (nd st1) (ndMant st1) (nd st1) true (lm st1)).
    assert (Estep : rf_loop y (46%N :: map dchar f ++ exp_chars upper (nexp n)) st1
                    = rf_loop y (map dchar f ++ exp_chars upper (nexp n)) st1').
    { cbn [rf_loop]. change (46 =? 46)%N with true. cbv iota. rewrite S1. reflexivity. }
    rewrite Estep.
    assert (I1' : Inv (Z.of_nat (length (nint n))) y st1').
    { destruct I1 as [J1 J2 J3 J4 J5 J6]. constructor; cbn; try assumption; lia. }
    assert (V1' : V st1' = V st1) by reflexivity.
    assert (Q1' : Q st1' = 0) by (unfold Q, edp; cbn; lia).
    destruct (digits_run y f (exp_chars upper (nexp n)) st1' _ Hy (wf_digits1_digits f Hf) I1')
      as [Ht|[st2 (E2 & I2 & V2 & S2 & Q2)]]; try lia.
    { rewrite Ht. apply good_trunc. }
    rewrite E2.
    destruct (tail_ok y upper (nneg n) st2 _ (nexp n) Hy I2) as (T1 & T2 & T3 & T4); [lia|exact HX|].
    unfold good.
    split; [exact T1|]. split; [exact T2|]. split; [|exact T4].
    intros Hok. specialize (T3 Hok).
    rewrite V2, V1', V1 in T3. rewrite Q2, Q1' in T3. cbn [sawdot st1'] in T3.
    unfold dmant. rewrite EF. rewrite ival_dval, dval_app. unfold V in T3. cbn in T3.
    rewrite Hd.
    replace (match nexp n with Some (s, e) => eval s e | None => 0 end - Z.of_nat (length f))
      with (- Z.of_nat (length f) + match nexp n with Some (s, e) => eval s e | None => 0 end) by lia.
    exact T3.
  - (* no fraction *)
    cbn [frac_chars app].
    destruct (tail_ok y upper (nneg n) st1 _ (nexp n) Hy I1) as (T1 & T2 & T3 & T4); [lia|exact HX|].
    unfold good.
    split; [exact T1|]. split; [exact T2|]. split; [|exact T4].
    intros Hok. specialize (T3 Hok).
    rewrite V1, Q1 in T3.
    unfold dmant. rewrite EF. rewrite app_nil_r. rewrite ival_dval. unfold V in T3. cbn in T3.
    rewrite Hd. rewrite Z.sub_0_r. rewrite ?Z.add_0_l in T3.
    exact T3.
Qed.

(* readFloat on the text of a literal *)
Lemma readfloat_lemma : forall n upper y,
  wf_numlit n = true -> fi_ok y -> Z.of_nat (length (render_num upper n)) < 2 ^ 61 ->
  good n (readFloat (render_num upper n) y).
Proof.
  intros n upper y Hwf Hy Hlen.
  pose proof (main_lemma n upper y Hwf Hy Hlen) as HM.
  rewrite render_split. unfold readFloat.
  destruct (nneg n) eqn:En.
  - cbn [app]. change (45 =? 45)%N with true. cbv iota. exact HM.
  - cbn [app].
    pose proof Hwf as Hwf'. unfold wf_numlit in Hwf'.
    apply andb_true_iff in Hwf'. destruct Hwf' as [Hwf' _]. apply andb_true_iff in Hwf'. destruct Hwf' as [Hi _].
    destruct (nint n) as [|d r] eqn:EI; [discriminate|].
    assert (Hd : (d < 10)%N).
    { destruct r; cbn in Hi.
      - unfold is_digit in Hi. apply N.ltb_lt in Hi. exact Hi.
      - apply andb_true_iff in Hi. destruct Hi as [Hi _]. apply andb_true_iff in Hi. destruct Hi as [Hi _].
        unfold is_digit in Hi. apply N.ltb_lt in Hi. exact Hi. }
    destruct (dchar_tests d Hd) as (_ & _ & _ & _ & _ & _ & T7 & _ & _).
    cbn [map app]. rewrite T7. cbv iota. cbn [map app] in HM. exact HM.
Qed.

Lemma readfloat_thm : forall (n : numlit) (upper : bool) (y : floatinfo),
  wf_numlit n = true -> In y [fi32; fi64; fi64u] ->
  Z.of_nat (length (render_num upper n)) < 2 ^ 61 ->
  let r := readFloat (render_num upper n) y in
  rbad r = false /\ rneg r = nneg n /\
  (rok r = true -> dec_eq (mant r) (rexp r) (dmant n) (dexp n)) /\
  (rok r = false -> rtrunc r = true \/ rhard r = true).
Proof.
  intros n upper y Hwf Hin Hlen.
  assert (Hy : fi_ok y).
  { destruct Hin as [H|[H|[H|[]]]]; subst y; [apply fi32_ok|apply fi64_ok|apply fi64u_ok]. }
  exact (readfloat_lemma n upper y Hwf Hy Hlen).
Qed.

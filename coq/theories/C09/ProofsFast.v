(* C09 — the exact fast path (parseFloat64_reader / parseFloat32_reader) returns the
   correctly rounded value of mantissa * 10^exp.
   Part 1: Spec.rn depends only on the ratio n/d.  Part 2: integers below 2^prec
   survive rn unchanged.  Part 3: the fast path. *)
From Coq Require Import List NArith ZArith Bool Lia.
From Coq Require Import ZifyBool.
From Verif Require Import Gen.Consts Base.Outcome C09.Spec C09.Model.
Import ListNotations.
Open Scope bool_scope.
Open Scope Z_scope.

(* ---------- Part 1: rn is a function of the ratio ---------- *)
Lemma shl_alt : forall a k, shl a k = a * 2 ^ Z.max k 0.
Proof.
  intros a k. unfold shl. destruct (Z.leb_spec 0 k).
  - rewrite Z.max_l by lia. reflexivity.
  - rewrite Z.max_r by lia. rewrite Z.pow_0_r. lia.
Qed.

Lemma shl_scale : forall k a j, shl (k * a) j = k * shl a j.
Proof. intros. rewrite !shl_alt. ring. Qed.

Lemma shl_pos : forall a j, 0 < a -> 0 < shl a j.
Proof. intros a j H. rewrite shl_alt. apply Z.mul_pos_pos; [exact H|]. apply Z.pow_pos_nonneg; lia. Qed.

(* 2^g <= n/d *)
Definition P (n d g : Z) : Prop := shl d g <= shl n (- g).

Lemma pow2_succ : forall k, 0 <= k -> 2 ^ (k + 1) = 2 * 2 ^ k.
Proof. intros k H. rewrite Z.pow_add_r by lia. rewrite Z.pow_1_r. lia. Qed.

Lemma P_mono1 : forall n d g, 0 < n -> 0 < d -> P n d (g + 1) -> P n d g.
Proof.
  intros n d g Hn Hd H. unfold P in *. rewrite !shl_alt in *.
  destruct (Z_le_gt_dec 0 g) as [Hg|Hg].
  - rewrite (Z.max_l (g + 1)) in H by lia. rewrite (Z.max_r (- (g + 1))) in H by lia.
    rewrite (Z.max_l g) by lia. rewrite (Z.max_r (- g)) by lia.
    rewrite pow2_succ in H by lia. rewrite Z.pow_0_r in *.
    assert (0 < 2 ^ g) by (apply Z.pow_pos_nonneg; lia). nia.
  - rewrite (Z.max_r (g + 1)) in H by lia. rewrite (Z.max_l (- (g + 1))) in H by lia.
    rewrite (Z.max_r g) by lia. rewrite (Z.max_l (- g)) by lia.
    replace (- g) with (- (g + 1) + 1) by lia. rewrite pow2_succ by lia. rewrite Z.pow_0_r in *.
    assert (0 < 2 ^ (- (g + 1))) by (apply Z.pow_pos_nonneg; lia). nia.
Qed.

Lemma P_mono : forall n d g g', 0 < n -> 0 < d -> g <= g' -> P n d g' -> P n d g.
Proof.
  intros n d g g' Hn Hd Hle H.
  replace g' with (g + (g' - g)) in H by lia.
  assert (Hk : 0 <= g' - g) by lia. revert H. generalize (g' - g) Hk.
  apply (natlike_ind (fun k => P n d (g + k) -> P n d g)).
  - rewrite Z.add_0_r. auto.
  - intros k Hk' IH H. apply IH. apply P_mono1; try assumption.
    replace (g + k + 1) with (g + Z.succ k) by lia. exact H.
Qed.

Lemma P_unique : forall n d g g', 0 < n -> 0 < d ->
  P n d g -> ~ P n d (g + 1) -> P n d g' -> ~ P n d (g' + 1) -> g = g'.
Proof.
  intros n d g g' Hn Hd H1 H2 H3 H4.
  destruct (Z.lt_trichotomy g g') as [Hlt|[Heq|Hgt]]; [|exact Heq|].
  - exfalso. apply H2. apply (P_mono n d (g + 1) g'); try assumption; lia.
  - exfalso. apply H4. apply (P_mono n d (g' + 1) g); try assumption; lia.
Qed.

Lemma P_scale : forall k n d g, 0 < k -> (P (k * n) (k * d) g <-> P n d g).
Proof. intros k n d g Hk. unfold P. rewrite !shl_scale. split; intros H; nia. Qed.

Lemma mag2_P : forall n d, mag2 n d = if Z.leb (shl d (Z.log2 n - Z.log2 d)) (shl n (- (Z.log2 n - Z.log2 d)))
                                      then Z.log2 n - Z.log2 d else Z.log2 n - Z.log2 d - 1.
Proof. reflexivity. Qed.

Lemma mag2_spec : forall n d, 0 < n -> 0 < d -> P n d (mag2 n d) /\ ~ P n d (mag2 n d + 1).
Proof.
  intros n d Hn Hd.
  destruct (Z.log2_spec n Hn) as [A1 A2]. destruct (Z.log2_spec d Hd) as [B1 B2].
  pose proof (Z.log2_nonneg n) as A0. pose proof (Z.log2_nonneg d) as B0.
  set (a := Z.log2 n) in *. set (b := Z.log2 d) in *.
  assert (Hlow : P n d (a - b - 1)).
  { unfold P. rewrite !shl_alt.
    destruct (Z_le_gt_dec 0 (a - b - 1)) as [Hg|Hg].
    - rewrite (Z.max_l (a - b - 1)) by lia. rewrite (Z.max_r (- (a - b - 1))) by lia. rewrite Z.pow_0_r.
      assert (E : 2 ^ Z.succ b * 2 ^ (a - b - 1) = 2 ^ a) by (rewrite <- Z.pow_add_r by lia; f_equal; lia).
      assert (0 < 2 ^ (a - b - 1)) by (apply Z.pow_pos_nonneg; lia). nia.
    - rewrite (Z.max_r (a - b - 1)) by lia. rewrite (Z.max_l (- (a - b - 1))) by lia. rewrite Z.pow_0_r.
      assert (E : 2 ^ a * 2 ^ (- (a - b - 1)) = 2 ^ Z.succ b) by (rewrite <- Z.pow_add_r by lia; f_equal; lia).
      assert (0 < 2 ^ (- (a - b - 1))) by (apply Z.pow_pos_nonneg; lia). nia. }
  assert (Hhigh : ~ P n d (a - b + 1)).
  { unfold P. rewrite !shl_alt. intros H.
    destruct (Z_le_gt_dec 0 (a - b + 1)) as [Hg|Hg].
    - rewrite (Z.max_l (a - b + 1)) in H by lia. rewrite (Z.max_r (- (a - b + 1))) in H by lia. rewrite Z.pow_0_r in H.
      assert (E : 2 ^ b * 2 ^ (a - b + 1) = 2 ^ Z.succ a) by (rewrite <- Z.pow_add_r by lia; f_equal; lia).
      assert (0 < 2 ^ (a - b + 1)) by (apply Z.pow_pos_nonneg; lia). nia.
    - rewrite (Z.max_r (a - b + 1)) in H by lia. rewrite (Z.max_l (- (a - b + 1))) in H by lia. rewrite Z.pow_0_r in H.
      assert (E : 2 ^ Z.succ a * 2 ^ (- (a - b + 1)) = 2 ^ b) by (rewrite <- Z.pow_add_r by lia; f_equal; lia).
      assert (0 < 2 ^ (- (a - b + 1))) by (apply Z.pow_pos_nonneg; lia). nia. }
  rewrite mag2_P. fold a b.
  destruct (Z.leb_spec (shl d (a - b)) (shl n (- (a - b)))) as [Hl|Hl].
  - split; [exact Hl|exact Hhigh].
  - split; [exact Hlow|]. replace (a - b - 1 + 1) with (a - b) by lia. unfold P. lia.
Qed.

Lemma mag2_scale : forall k n d, 0 < k -> 0 < n -> 0 < d -> mag2 (k * n) (k * d) = mag2 n d.
Proof.
  intros k n d Hk Hn Hd.
  destruct (mag2_spec (k * n) (k * d)) as [S1 S2]; [nia|nia|].
  destruct (mag2_spec n d Hn Hd) as [T1 T2].
  apply (P_unique n d); try assumption.
  - apply (P_scale k); assumption.
  - intros H. apply S2. apply (P_scale k); assumption.
Qed.

Lemma rne_scale : forall k n d, 0 < k -> 0 < d -> rne (k * n) (k * d) = rne n d.
Proof.
  intros k n d Hk Hd. unfold rne.
  rewrite Z.div_mul_cancel_l by lia. rewrite Z.mul_mod_distr_l by lia.
  destruct (Z.ltb_spec (2 * (n mod d)) d); destruct (Z.ltb_spec (2 * (k * (n mod d))) (k * d)); try nia; try reflexivity.
  destruct (Z.ltb_spec d (2 * (n mod d))); destruct (Z.ltb_spec (k * d) (2 * (k * (n mod d)))); try nia; reflexivity.
Qed.

Lemma rn_scale : forall f neg k n d, 0 < k -> 0 <= n -> 0 < d -> rn f neg (k * n) (k * d) = rn f neg n d.
Proof.
  intros f neg k n d Hk Hn Hd. unfold rn.
  destruct (Z.eq_dec n 0) as [->|Hnz].
  - rewrite Z.mul_0_r. reflexivity.
  - replace (k * n =? 0) with false by (symmetry; apply Z.eqb_neq; nia).
    replace (n =? 0) with false by (symmetry; apply Z.eqb_neq; lia).
    unfold round_pos. rewrite mag2_scale by lia. rewrite !shl_scale.
    rewrite rne_scale; [reflexivity|assumption|apply shl_pos; assumption].
Qed.

Lemma rn_ratio : forall f neg n d n' d', 0 <= n -> 0 < d -> 0 <= n' -> 0 < d' -> n * d' = n' * d ->
  rn f neg n d = rn f neg n' d'.
Proof.
  intros f neg n d n' d' Hn Hd Hn' Hd' E.
  rewrite <- (rn_scale f neg d' n d) by assumption.
  rewrite <- (rn_scale f neg d n' d') by assumption.
  f_equal; lia.
Qed.

(* ---------- Part 2: decode . encode, integers are exact ---------- *)
Definition two_fmt (f : bfmt) : Prop := f = binary64 \/ f = binary32.

Lemma dec_enc : forall f M e, two_fmt f ->
  2 ^ (prec f - 1) <= M < 2 ^ prec f -> emin f <= e -> e - emin f + 1 < 2 ^ ew f - 1 ->
  fdecode f (encode_pos f M e) = (false, M, e).
Proof.
  intros f M e Hf HM He Hb. unfold encode_pos.
  replace (M =? 2 ^ prec f) with false by (symmetry; apply Z.eqb_neq; lia).
  replace (M <? 2 ^ (prec f - 1)) with false by (symmetry; apply Z.ltb_ge; lia).
  replace (2 ^ ew f - 1 <=? e - emin f + 1) with false by (symmetry; apply Z.leb_gt; lia).
  unfold fdecode.
  set (be := e - emin f + 1) in *. set (p := 2 ^ (prec f - 1)) in *.
  assert (Hp : 0 < p) by (apply Z.pow_pos_nonneg; destruct Hf; subst f; cbn; lia).
  assert (Hsb : sign_bit f = 2 ^ ew f * p).
  { unfold sign_bit, p. rewrite <- Z.pow_add_r by (destruct Hf; subst f; cbn; lia). f_equal. lia. }
  assert (Hpp : 2 ^ prec f = 2 * p).
  { unfold p. replace (prec f) with (prec f - 1 + 1) at 1 by lia. rewrite pow2_succ by (destruct Hf; subst f; cbn; lia). reflexivity. }
  assert (Hbe : 1 <= be) by (unfold be; lia).
  assert (Hlt : be * p + (M - p) < sign_bit f).
  { rewrite Hsb. assert (2 ^ ew f >= be + 2) by lia. nia. }
  replace (sign_bit f <=? be * p + (M - p)) with false by (symmetry; apply Z.leb_gt; lia).
  rewrite (Z.mod_small (be * p + (M - p))) by (split; [nia|exact Hlt]).
  replace ((be * p + (M - p)) / p) with be by (symmetry; rewrite Z.div_add_l by lia; rewrite Z.div_small by lia; lia).
  replace ((be * p + (M - p)) mod p) with (M - p)
    by (symmetry; rewrite Z.add_comm, Z.mod_add by lia; apply Z.mod_small; lia).
  replace (be =? 0) with false by (symmetry; apply Z.eqb_neq; lia).
  f_equal; [f_equal; lia|unfold be; lia].
Qed.

Lemma mag2_int : forall K, 0 < K -> mag2 K 1 = Z.log2 K.
Proof.
  intros K HK. rewrite mag2_P. change (Z.log2 1) with 0. rewrite Z.sub_0_r.
  destruct (Z.log2_spec K HK) as [A1 A2]. pose proof (Z.log2_nonneg K) as A0.
  replace (shl 1 (Z.log2 K) <=? shl K (- Z.log2 K)) with true; [reflexivity|].
  symmetry. apply Z.leb_le. rewrite !shl_alt. rewrite Z.max_l by lia.
  destruct (Z.eq_dec (Z.log2 K) 0) as [E|E].
  - rewrite E in *. cbn. lia.
  - rewrite Z.max_r by lia. rewrite Z.pow_0_r. lia.
Qed.

(* value of a finite non-negative float as a fraction num/den *)
Definition is_val (f : bfmt) (b n d : Z) : Prop :=
  0 < fden f b /\ 0 <= fnum f b /\ fnum f b * d = n * fden f b /\ 0 <= b < sign_bit f.

Lemma rne_int : forall a, rne a 1 = a.
Proof. intros a. unfold rne. rewrite Z.div_1_r, Z.mod_1_r. reflexivity. Qed.

Lemma int_exact : forall f K, two_fmt f -> 0 < K < 2 ^ prec f -> is_val f (rn f false K 1) K 1.
Proof.
  intros f K Hf HK.
  destruct (Z.log2_spec K) as [A1 A2]; [lia|]. pose proof (Z.log2_nonneg K) as A0.
  assert (Ha : Z.log2 K < prec f).
  { destruct (Z_lt_ge_dec (Z.log2 K) (prec f)) as [|Hge]; [assumption|]. exfalso.
    assert (2 ^ prec f <= 2 ^ Z.log2 K) by (apply Z.pow_le_mono_r; lia). lia. }
  unfold rn. replace (K =? 0) with false by (symmetry; apply Z.eqb_neq; lia).
  rewrite Z.add_0_l. unfold round_pos. rewrite mag2_int by lia.
  set (a := Z.log2 K) in *.
  assert (Hem : emin f < a - (prec f - 1)) by (destruct Hf; subst f; cbn in *; lia).
  rewrite Z.max_l by lia. set (e := a - (prec f - 1)) in *.
  assert (He0 : e <= 0) by (unfold e; lia).
  assert (Hd1 : shl 1 e = 1).
  { rewrite shl_alt. destruct (Z.eq_dec e 0) as [->|]; [reflexivity|]. rewrite Z.max_r by lia. reflexivity. }
  rewrite Hd1, rne_int. rewrite shl_alt. rewrite Z.max_l by lia.
  set (M := K * 2 ^ (- e)).
  assert (HM : 2 ^ (prec f - 1) <= M < 2 ^ prec f).
  { unfold M. assert (E1 : 2 ^ a * 2 ^ (- e) = 2 ^ (prec f - 1)) by (rewrite <- Z.pow_add_r by lia; f_equal; unfold e; lia).
    assert (E2 : 2 ^ Z.succ a * 2 ^ (- e) = 2 ^ prec f) by (rewrite <- Z.pow_add_r by lia; f_equal; unfold e; lia).
    assert (0 < 2 ^ (- e)) by (apply Z.pow_pos_nonneg; lia). nia. }
  assert (Hb : e - emin f + 1 < 2 ^ ew f - 1) by (destruct Hf; subst f; cbn in *; lia).
  pose proof (dec_enc f M e Hf HM ltac:(lia) Hb) as HD.
  unfold is_val, fnum, fden. rewrite HD.
  assert (Hp2 : 0 < 2 ^ (- e)) by (apply Z.pow_pos_nonneg; lia).
  rewrite !shl_alt. rewrite (Z.max_l (- e)) by lia.
  split; [lia|]. split; [apply Z.mul_nonneg_nonneg; [lia|apply Z.pow_nonneg; lia]|].
  split.
  - destruct (Z.eq_dec e 0) as [E0|E0].
    + rewrite E0. cbn. unfold M. rewrite E0. cbn. lia.
    + rewrite (Z.max_r e) by lia. rewrite Z.pow_0_r. unfold M. ring.
  - (* the bit pattern is below the sign bit *)
    unfold encode_pos.
    replace (M =? 2 ^ prec f) with false by (symmetry; apply Z.eqb_neq; lia).
    replace (M <? 2 ^ (prec f - 1)) with false by (symmetry; apply Z.ltb_ge; lia).
    replace (2 ^ ew f - 1 <=? e - emin f + 1) with false by (symmetry; apply Z.leb_gt; lia).
    assert (Hp : 0 < 2 ^ (prec f - 1)) by (apply Z.pow_pos_nonneg; destruct Hf; subst f; cbn; lia).
    assert (Hsb : sign_bit f = 2 ^ ew f * 2 ^ (prec f - 1)).
    { unfold sign_bit. rewrite <- Z.pow_add_r by (destruct Hf; subst f; cbn; lia). f_equal. lia. }
    assert (Hpp : 2 ^ prec f = 2 * 2 ^ (prec f - 1)).
    { replace (prec f) with (prec f - 1 + 1) at 1 by lia. rewrite pow2_succ by (destruct Hf; subst f; cbn; lia). reflexivity. }
    rewrite Hsb. split; [nia|]. assert (2 ^ ew f >= (e - emin f + 1) + 2) by lia. nia.
Qed.

Lemma zero_val : forall f, two_fmt f -> is_val f (rn f false 0 1) 0 1.
Proof. intros f [->| ->]; vm_compute; repeat split; try discriminate; reflexivity. Qed.

Lemma u64_val : forall f m, two_fmt f -> 0 <= m < 2 ^ prec f -> is_val f (of_u64 f m) m 1.
Proof.
  intros f m Hf Hm. unfold of_u64. destruct (Z.eq_dec m 0) as [->|]; [apply zero_val; exact Hf|].
  apply int_exact; [exact Hf|lia].
Qed.

(* the tables of exact powers of ten *)
Definition pow_ok (f : bfmt) (k : nat) : bool :=
  let b := pow10f f (Z.of_nat k) in
  (0 <? fden f b) && (fnum f b =? 10 ^ Z.of_nat k * fden f b) && (0 <=? b) && (b <? sign_bit f).

Lemma pow64_ok : forallb (pow_ok binary64) (seq 0 23) = true. Proof. vm_compute. reflexivity. Qed.
Lemma pow32_ok : forallb (pow_ok binary32) (seq 0 11) = true. Proof. vm_compute. reflexivity. Qed.

Lemma pow_val : forall f k lim, forallb (pow_ok f) (seq 0 lim) = true -> 0 <= k < Z.of_nat lim ->
  is_val f (pow10f f k) (10 ^ k) 1.
Proof.
  intros f k lim H Hk. rewrite forallb_forall in H.
  specialize (H (Z.to_nat k)). rewrite in_seq in H. specialize (H ltac:(lia)).
  unfold pow_ok in H. rewrite Z2Nat.id in H by lia.
  repeat (apply andb_true_iff in H; destruct H as [H ?]).
  unfold is_val. repeat split; lia.
Qed.

(* ---------- Part 3: the operations and the fast path ---------- *)
Lemma fneg_rn : forall f neg n d, fneg f neg (rn f false n d) = rn f neg n d.
Proof. intros. unfold fneg, rn. destruct neg; lia. Qed.

Lemma fmul_val : forall f a b na da nb db, is_val f a na da -> is_val f b nb db ->
  0 < da -> 0 < db -> 0 <= na -> 0 <= nb ->
  fmul f a b = rn f false (na * nb) (da * db).
Proof.
  intros f a b na da nb db (A1 & A2 & A3 & _) (B1 & B2 & B3 & _) Hda Hdb Hna Hnb. unfold fmul.
  apply rn_ratio; try nia.
Qed.

Lemma fdiv_val : forall f a b na da nb db, is_val f a na da -> is_val f b nb db ->
  0 < da -> 0 < db -> 0 <= na -> 0 < nb ->
  fdiv f a b = rn f false (na * db) (da * nb).
Proof.
  intros f a b na da nb db (A1 & A2 & A3 & _) (B1 & B2 & B3 & _) Hda Hdb Hna Hnb. unfold fdiv.
  assert (0 < fnum f b) by nia.
  apply rn_ratio; try nia.
Qed.

Lemma enc_carry : forall f e, two_fmt f -> encode_pos f (2 ^ prec f) e = encode_pos f (2 ^ (prec f - 1)) (e + 1).
Proof.
  intros f e Hf. unfold encode_pos. rewrite Z.eqb_refl.
  replace (2 ^ (prec f - 1) =? 2 ^ prec f) with false; [reflexivity|].
  symmetry. apply Z.eqb_neq. destruct Hf; subst f; cbn; lia.
Qed.

(* an integer of at least prec bits rounds to a float that is still at least 2^prec *)
Lemma big_val : forall f K, two_fmt f -> 2 ^ prec f <= K < 2 ^ (prec f + 50) ->
  fden f (rn f false K 1) = 1 /\ 2 ^ prec f <= fnum f (rn f false K 1).
Proof.
  intros f K Hf HK.
  assert (Hprec : 0 < prec f) by (destruct Hf; subst f; cbn; lia).
  assert (HK0 : 0 < K) by (assert (0 < 2 ^ prec f) by (apply Z.pow_pos_nonneg; lia); lia).
  destruct (Z.log2_spec K HK0) as [A1 A2]. pose proof (Z.log2_nonneg K) as A0.
  set (a := Z.log2 K) in *.
  assert (Ha1 : prec f <= a).
  { destruct (Z_le_gt_dec (prec f) a) as [|Hgt]; [assumption|]. exfalso.
    assert (2 ^ Z.succ a <= 2 ^ prec f) by (apply Z.pow_le_mono_r; lia). lia. }
  assert (Ha2 : a < prec f + 50).
  { destruct (Z_lt_ge_dec a (prec f + 50)) as [|Hge]; [assumption|]. exfalso.
    assert (2 ^ (prec f + 50) <= 2 ^ a) by (apply Z.pow_le_mono_r; lia). lia. }
  unfold rn. replace (K =? 0) with false by (symmetry; apply Z.eqb_neq; lia).
  rewrite Z.add_0_l. unfold round_pos. rewrite mag2_int by lia. fold a.
  assert (Hem : emin f < a - (prec f - 1)) by (destruct Hf; subst f; cbn in *; lia).
  rewrite Z.max_l by lia. set (e := a - (prec f - 1)) in *.
  assert (He1 : 1 <= e) by (unfold e; lia).
  rewrite (shl_alt K). rewrite (Z.max_r (- e)) by lia. rewrite Z.pow_0_r, Z.mul_1_r.
  rewrite (shl_alt 1). rewrite (Z.max_l e) by lia. rewrite Z.mul_1_l.
  assert (Hpe : 0 < 2 ^ e) by (apply Z.pow_pos_nonneg; lia).
  assert (E1 : 2 ^ (prec f - 1) * 2 ^ e = 2 ^ a) by (rewrite <- Z.pow_add_r by lia; f_equal; unfold e; lia).
  assert (E2 : 2 ^ prec f * 2 ^ e = 2 ^ Z.succ a) by (rewrite <- Z.pow_add_r by lia; f_equal; unfold e; lia).
  assert (Hq : 2 ^ (prec f - 1) <= K / 2 ^ e < 2 ^ prec f).
  { split; [apply Z.div_le_lower_bound; lia|apply Z.div_lt_upper_bound; lia]. }
  set (M := rne K (2 ^ e)).
  assert (HM : 2 ^ (prec f - 1) <= M <= 2 ^ prec f).
  { unfold M, rne. destruct (2 * (K mod 2 ^ e) <? 2 ^ e); [lia|].
    destruct (2 ^ e <? 2 * (K mod 2 ^ e)); [lia|]. destruct (Z.even (K / 2 ^ e)); lia. }
  assert (Hpp : 2 ^ prec f = 2 * 2 ^ (prec f - 1)).
  { replace (prec f) with (prec f - 1 + 1) at 1 by lia. rewrite pow2_succ by lia. reflexivity. }
  assert (Hp : 0 < 2 ^ (prec f - 1)) by (apply Z.pow_pos_nonneg; lia).
  assert (Hdec : exists M2 e2, fdecode f (encode_pos f M e) = (false, M2, e2) /\ 1 <= e2 /\ 2 ^ (prec f - 1) <= M2).
  { destruct (Z.eq_dec M (2 ^ prec f)) as [EM|EM].
    - rewrite EM, enc_carry by exact Hf. exists (2 ^ (prec f - 1)), (e + 1).
      split; [|split; lia]. apply dec_enc; [exact Hf|lia|lia|]. destruct Hf; subst f; cbn in *; lia.
    - exists M, e. split; [|split; lia]. apply dec_enc; [exact Hf|lia|lia|]. destruct Hf; subst f; cbn in *; lia. }
  destruct Hdec as (M2 & e2 & HD & He2 & HM2).
  unfold fden, fnum. rewrite HD. rewrite !shl_alt.
  rewrite (Z.max_r (- e2)) by lia. rewrite (Z.max_l e2) by lia. split; [reflexivity|].
  assert (2 <= 2 ^ e2).
  { replace e2 with ((e2 - 1) + 1) by lia. rewrite pow2_succ by lia.
    assert (0 < 2 ^ (e2 - 1)) by (apply Z.pow_pos_nonneg; lia). lia. }
  nia.
Qed.

Lemma pow10_add : forall a b, 0 <= a -> 0 <= b -> 10 ^ a * 10 ^ b = 10 ^ (a + b).
Proof. intros. rewrite Z.pow_add_r by lia. reflexivity. Qed.

Ltac side := first [lia | apply Z.pow_nonneg; lia | apply Z.pow_pos_nonneg; lia | nia].

Lemma fast_generic : forall f tbl epow eint,
  two_fmt f -> forallb (pow_ok f) (seq 0 (Z.to_nat tbl)) = true ->
  0 < epow < tbl -> 0 <= eint -> 10 ^ eint < 2 ^ prec f ->
  forall m e neg, 0 <= m < 2 ^ prec f -> - tbl < e -> e <= epow + 15 -> e - epow < tbl ->
  parse_reader f tbl epow eint m e neg = FFail \/
  parse_reader f tbl epow eint m e neg = FBits (RN f neg m e).
Proof.
  intros f tbl epow eint Hf Htab Hep Hei0 Hei m e neg Hm He1 He2 He3.
  pose proof (u64_val f m Hf Hm) as Hx.
  assert (Hpv : forall k, 0 <= k < tbl -> is_val f (pow10f f k) (10 ^ k) 1).
  { intros k Hk. apply (pow_val f k (Z.to_nat tbl) Htab). lia. }
  unfold parse_reader, RN, dec_num, dec_den.
  destruct (Z.eqb_spec e 0) as [E0|E0].
  - right. subst e. cbn [Z.leb]. rewrite Z.pow_0_r, Z.mul_1_r. unfold of_u64. rewrite fneg_rn. reflexivity.
  - destruct (Z.ltb_spec e 0) as [Eneg|Epos].
    + right. replace (tbl <=? - e) with false by (symmetry; apply Z.leb_gt; lia).
      replace (0 <=? e) with false by (symmetry; apply Z.leb_gt; lia).
      assert (0 < 10 ^ (- e)) by (apply Z.pow_pos_nonneg; lia).
      rewrite (fdiv_val f _ _ m 1 (10 ^ (- e)) 1 Hx (Hpv (- e) ltac:(lia))) by side.
      rewrite fneg_rn. rewrite ?Z.mul_1_l, ?Z.mul_1_r. reflexivity.
    + replace (0 <=? e) with true by (symmetry; apply Z.leb_le; lia).
      destruct (Z.ltb_spec epow e) as [Ebig|Esmall].
      * replace (tbl <=? e - epow) with false by (symmetry; apply Z.leb_gt; lia).
        set (j := e - epow) in *.
        assert (Hx1 : fmul f (of_u64 f m) (pow10f f j) = rn f false (m * 10 ^ j) 1).
        { rewrite (fmul_val f _ _ m 1 (10 ^ j) 1 Hx (Hpv j ltac:(lia))) by side. f_equal; lia. }
        rewrite Hx1.
        destruct (fgt_pow10 f (rn f false (m * 10 ^ j) 1) eint) eqn:Egt; [left; reflexivity|right].
        assert (H10j : 0 < 10 ^ j) by (apply Z.pow_pos_nonneg; lia).
        destruct (Z_lt_ge_dec (m * 10 ^ j) (2 ^ prec f)) as [Hsmall|Hbig].
        -- assert (Hv1 : is_val f (rn f false (m * 10 ^ j) 1) (m * 10 ^ j) 1).
           { destruct (Z.eq_dec m 0) as [->|]; [rewrite Z.mul_0_l; apply zero_val; exact Hf|].
             apply int_exact; [exact Hf|nia]. }
           rewrite (fmul_val f _ _ (m * 10 ^ j) 1 (10 ^ epow) 1 Hv1 (Hpv epow ltac:(lia))) by side.
           rewrite fneg_rn. rewrite ?Z.mul_1_l.
           rewrite <- Z.mul_assoc. rewrite pow10_add by lia. replace (j + epow) with e by (unfold j; lia). reflexivity.
        -- exfalso.
           assert (H1015 : 10 ^ j <= 10 ^ 15) by (apply Z.pow_le_mono_r; lia).
           assert (H250 : 10 ^ 15 < 2 ^ 50) by reflexivity.
           assert (Hup : m * 10 ^ j < 2 ^ (prec f + 50)).
           { rewrite Z.pow_add_r by (destruct Hf; subst f; cbn; lia). nia. }
           destruct (big_val f (m * 10 ^ j) Hf ltac:(lia)) as [B1 B2].
           unfold fgt_pow10 in Egt. rewrite B1 in Egt. apply Z.ltb_ge in Egt. lia.
      * right. rewrite (fmul_val f _ _ m 1 (10 ^ e) 1 Hx (Hpv e ltac:(lia))) by side.
        rewrite fneg_rn. rewrite ?Z.mul_1_l. reflexivity.
Qed.

(* the guard readFloat applies before it answers ok (rf_finish): mantissa below
   2^mantbits, -exactPow10 <= exp <= exactInts + exactPow10 *)
Lemma fast64_lemma : forall m e neg, 0 <= m < 2 ^ 52 -> -22 <= e <= 37 ->
  parseFloat64_reader m e neg = FFail \/ parseFloat64_reader m e neg = FBits (RN binary64 neg m e).
Proof.
  intros m e neg Hm He. unfold parseFloat64_reader.
  apply fast_generic; try lia; try (left; reflexivity); try exact pow64_ok; try reflexivity.
  cbn. lia.
Qed.

Lemma fast32_lemma : forall m e neg, 0 <= m < 2 ^ 23 -> -10 <= e <= 17 ->
  parseFloat32_reader m e neg = FFail \/ parseFloat32_reader m e neg = FBits (RN binary32 neg m e).
Proof.
  intros m e neg Hm He. unfold parseFloat32_reader.
  apply fast_generic; try lia; try (right; reflexivity); try exact pow32_ok; try reflexivity.
  cbn. lia.
Qed.

(* C09 — JsonStd: a reference for JSON number and string literals, written from
   RFC 8259 (grammar), RFC 3629 (UTF-8), IEEE 754 (round to nearest even) and the
   documentation of Go's encoding/json (a \u escape holding a UTF-16 surrogate
   that is not half of a valid pair decodes to U+FFFD; invalid UTF-8 in a Go
   string is written as U+FFFD).  Nothing here looks at /repo.

   Bytes and code points are [N]; numeric values are [Z].  No proofs here. *)
From Coq Require Import List NArith ZArith Bool.
Import ListNotations.
Open Scope bool_scope.

(* ------------------------------------------------------------------ *)
(** * Numbers:  [ minus ] int [ frac ] [ exp ]     (RFC 8259 §6)          *)

Inductive esign := ENone | EPlus | EMinus.

Record numlit := mknum {
  nneg  : bool;                          (* leading minus *)
  nint  : list N;                        (* digits of int: a single 0, or digit1-9 then any digits *)
  nfrac : option (list N);               (* digits after the point, at least one *)
  nexp  : option (esign * list N) }.     (* e/E, optional sign, at least one digit *)

Definition is_digit (d : N) : bool := (d <? 10)%N.

Definition wf_int (ds : list N) : bool :=
  match ds with
  | [] => false
  | [d] => is_digit d
  | d :: r => is_digit d && negb (d =? 0)%N && forallb is_digit r
  end.

Definition wf_digits1 (ds : list N) : bool :=
  match ds with [] => false | _ => forallb is_digit ds end.

Definition wf_numlit (n : numlit) : bool :=
  wf_int (nint n)
  && match nfrac n with None => true | Some f => wf_digits1 f end
  && match nexp n with None => true | Some (_, e) => wf_digits1 e end.

Definition dchar (d : N) : N := (48 + d)%N.

(* [upper]: E instead of e (both are in the grammar) *)
Definition render_num (upper : bool) (n : numlit) : list N :=
  (if nneg n then [45%N] else [])
  ++ map dchar (nint n)
  ++ match nfrac n with None => [] | Some f => 46%N :: map dchar f end
  ++ match nexp n with
     | None => []
     | Some (s, e) => (if upper then 69%N else 101%N)
                      :: match s with ENone => [] | EPlus => [43%N] | EMinus => [45%N] end
                      ++ map dchar e
     end.

(* value of a digit string *)
Definition ival (ds : list N) : Z :=
  fold_left (fun a d => (10 * a + Z.of_N d)%Z) ds 0%Z.

(* The exact value of a literal is  (-1)^nneg * dmant * 10^dexp. *)
Definition dmant (n : numlit) : Z :=
  ival (nint n ++ match nfrac n with None => [] | Some f => f end).
Definition dexp (n : numlit) : Z :=
  (match nexp n with
   | None => 0
   | Some (EMinus, e) => - ival e
   | Some (_, e) => ival e
   end
   - match nfrac n with None => 0 | Some f => Z.of_nat (length f) end)%Z.

(* m * 10^e = m' * 10^e'  (as rationals), without leaving Z *)
Definition dec_eq (m e m' e' : Z) : Prop :=
  let k := Z.min e e' in (m * 10 ^ (e - k) = m' * 10 ^ (e' - k))%Z.

(* ------------------------------------------------------------------ *)
(** * Correct rounding (IEEE 754 binary formats, roundTiesToEven)
    Same shape as the textbook definition (and Flocq's [round]):
      cexp x = max (mag x - prec, emin);  round x = rne (x / 2^cexp) * 2^cexp.
    x is a non-negative rational n/d.  The result is the bit pattern. *)

Record bfmt := mkfmt { prec : Z; emin : Z; ew : Z }.   (* precision, exponent of the least subnormal, width of the exponent field *)
Definition binary64 := mkfmt 53 (-1074) 11.
Definition binary32 := mkfmt 24 (-149) 8.

Open Scope Z_scope.

(* a * 2^k for k >= 0, a otherwise *)
Definition shl (a k : Z) : Z := if 0 <=? k then a * 2 ^ k else a.

(* floor (log2 (n/d)) for n, d > 0 *)
Definition mag2 (n d : Z) : Z :=
  let l := Z.log2 n - Z.log2 d in
  if shl d l <=? shl n (- l) then l else l - 1.

(* nearest integer to n/d, ties to even *)
Definition rne (n d : Z) : Z :=
  let q := n / d in let r := n mod d in
  if 2 * r <? d then q else if d <? 2 * r then q + 1 else if Z.even q then q else q + 1.

(* (M, e): the rounded value is M * 2^e *)
Definition round_pos (f : bfmt) (n d : Z) : Z * Z :=
  let e := Z.max (mag2 n d - (prec f - 1)) (emin f) in
  (rne (shl n (- e)) (shl d e), e).

Definition inf_bits (f : bfmt) : Z := (2 ^ ew f - 1) * 2 ^ (prec f - 1).
Definition sign_bit (f : bfmt) : Z := 2 ^ (prec f - 1 + ew f).

Definition encode_pos (f : bfmt) (M e : Z) : Z :=
  let '(M, e) := if M =? 2 ^ prec f then (2 ^ (prec f - 1), e + 1) else (M, e) in
  if M <? 2 ^ (prec f - 1) then M
  else let be := e - emin f + 1 in
       if 2 ^ ew f - 1 <=? be then inf_bits f
       else be * 2 ^ (prec f - 1) + (M - 2 ^ (prec f - 1)).

(* bits of the float nearest to (-1)^neg * n/d   (n >= 0, d > 0) *)
Definition rn (f : bfmt) (neg : bool) (n d : Z) : Z :=
  (if neg then sign_bit f else 0)
  + (if n =? 0 then 0 else let '(M, e) := round_pos f n d in encode_pos f M e).

(* the decimal m * 10^x as a fraction *)
Definition dec_num (m x : Z) : Z := if 0 <=? x then m * 10 ^ x else m.
Definition dec_den (x : Z) : Z := if 0 <=? x then 1 else 10 ^ (- x).

Definition RN (f : bfmt) (neg : bool) (m x : Z) : Z := rn f neg (dec_num m x) (dec_den x).

(* what a correct JSON number reader returns for a literal *)
Definition num_bits (f : bfmt) (n : numlit) : Z := RN f (nneg n) (dmant n) (dexp n).

(* meaning of the bit pattern of a finite float: (negative, M, e) with value M * 2^e *)
Definition fdecode (f : bfmt) (b : Z) : bool * Z * Z :=
  let neg := sign_bit f <=? b in
  let a := b mod sign_bit f in
  let be := a / 2 ^ (prec f - 1) in
  let fr := a mod 2 ^ (prec f - 1) in
  if be =? 0 then (neg, fr, emin f) else (neg, fr + 2 ^ (prec f - 1), be - 1 + emin f).

Definition is_finite (f : bfmt) (b : Z) : bool :=
  (b mod sign_bit f) / 2 ^ (prec f - 1) <? 2 ^ ew f - 1.

Close Scope Z_scope.

(* ------------------------------------------------------------------ *)
(** * UTF-8 (RFC 3629) *)
Open Scope N_scope.

Definition scalar (cp : N) : bool := (cp <? 0xD800) || ((0xE000 <=? cp) && (cp <? 0x110000)).

Definition utf8_encode (cp : N) : list N :=
  if cp <? 0x80 then [cp]
  else if cp <? 0x800 then [0xC0 + cp / 64; 0x80 + cp mod 64]
  else if cp <? 0x10000 then [0xE0 + cp / 4096; 0x80 + (cp / 64) mod 64; 0x80 + cp mod 64]
  else [0xF0 + cp / 262144; 0x80 + (cp / 4096) mod 64; 0x80 + (cp / 64) mod 64; 0x80 + cp mod 64].

Fixpoint eqbl (a b : list N) : bool :=
  match a, b with
  | [], [] => true
  | x :: a', y :: b' => (x =? y) && eqbl a' b'
  | _, _ => false
  end.

(* A byte sequence is well formed iff it is the encoding of a scalar value:
   this rules out overlong forms, surrogates, values above U+10FFFF, stray
   continuation bytes and truncated sequences at once. *)
Definition is_enc (cp : N) (bs : list N) : bool := scalar cp && eqbl (utf8_encode cp) bs.

(* first code point of l and the number of bytes it takes; None = ill formed here *)
Definition decode1 (l : list N) : option (N * nat) :=
  match l with
  | [] => None
  | b0 :: t =>
    if b0 <? 0x80 then Some (b0, 1%nat) else
    match t with
    | [] => None
    | b1 :: t2 =>
      let c2 := (b0 mod 32) * 64 + b1 mod 64 in
      if is_enc c2 [b0; b1] then Some (c2, 2%nat) else
      match t2 with
      | [] => None
      | b2 :: t3 =>
        let c3 := (b0 mod 16) * 4096 + (b1 mod 64) * 64 + b2 mod 64 in
        if is_enc c3 [b0; b1; b2] then Some (c3, 3%nat) else
        match t3 with
        | [] => None
        | b3 :: _ =>
          let c4 := (b0 mod 8) * 262144 + (b1 mod 64) * 4096 + (b2 mod 64) * 64 + b3 mod 64 in
          if is_enc c4 [b0; b1; b2; b3] then Some (c4, 4%nat) else None
        end
      end
    end
  end.

Definition FFFD : list N := [0xEF; 0xBF; 0xBD].

(* Go: ranging over / marshalling a string yields U+FFFD for each byte that does
   not start a well-formed sequence *)
Fixpoint sanitise (fuel : nat) (l : list N) : list N :=
  match fuel with
  | O => []
  | S f =>
    match l with
    | [] => []
    | _ :: t =>
      match decode1 l with
      | Some (cp, k) => utf8_encode cp ++ sanitise f (skipn k l)
      | None => FFFD ++ sanitise f t
      end
    end
  end.
Definition utf8_sanitise (l : list N) : list N := sanitise (length l) l.

(* ------------------------------------------------------------------ *)
(** * Strings:  quotation-mark *char quotation-mark     (RFC 8259 §7) *)

Inductive item :=
| Ch (cp : N)            (* unescaped = %x20-21 / %x23-5B / %x5D-10FFFF, UTF-8 encoded *)
| Esc (c : N)            (* backslash followed by one of: quote backslash / b f n r t *)
| U (a b c d : N).       (* \u 4HEXDIG *)

Definition is_hex (b : N) : bool :=
  ((48 <=? b) && (b <=? 57)) || ((65 <=? b) && (b <=? 70)) || ((97 <=? b) && (b <=? 102)).
Definition hexval (b : N) : N := if b <=? 57 then b - 48 else if b <=? 70 then b - 55 else b - 87.

Definition is_esc (c : N) : bool :=
  (c =? 34) || (c =? 92) || (c =? 47) || (c =? 98) || (c =? 102) || (c =? 110) || (c =? 114) || (c =? 116).
Definition esc_val (c : N) : N :=
  if c =? 98 then 8 else if c =? 102 then 12 else if c =? 110 then 10
  else if c =? 114 then 13 else if c =? 116 then 9 else c.

Definition wf_item (i : item) : bool :=
  match i with
  | Ch cp => scalar cp && (0x20 <=? cp) && negb (cp =? 34) && negb (cp =? 92)
  | Esc c => is_esc c
  | U a b c d => is_hex a && is_hex b && is_hex c && is_hex d
  end.

Definition render_item (i : item) : list N :=
  match i with
  | Ch cp => utf8_encode cp
  | Esc c => [92; c]
  | U a b c d => [92; 117; a; b; c; d]
  end.

Definition render_items (l : list item) : list N := flat_map render_item l.
Definition render_lit (l : list item) : list N := 34 :: render_items l ++ [34].

Definition u16 (a b c d : N) : N := ((hexval a * 16 + hexval b) * 16 + hexval c) * 16 + hexval d.
Definition is_hi (u : N) : bool := (0xD800 <=? u) && (u <? 0xDC00).
Definition is_lo (u : N) : bool := (0xDC00 <=? u) && (u <? 0xE000).
Definition is_sur (u : N) : bool := (0xD800 <=? u) && (u <? 0xE000).
Definition pair_cp (h l : N) : N := 0x10000 + (h - 0xD800) * 1024 + (l - 0xDC00).

(* the string a literal denotes, as UTF-8 bytes (what encoding/json returns) *)
Fixpoint denote (l : list item) : list N :=
  match l with
  | [] => []
  | Ch cp :: r => utf8_encode cp ++ denote r
  | Esc c :: r => esc_val c :: denote r
  | U a b c d :: r =>
    let u := u16 a b c d in
    if is_hi u then
      match r with
      | U a' b' c' d' :: r' =>
        let v := u16 a' b' c' d' in
        if is_lo v then utf8_encode (pair_cp u v) ++ denote r' else FFFD ++ denote r
      | _ => FFFD ++ denote r
      end
    else if is_lo u then FFFD ++ denote r
    else utf8_encode u ++ denote r
  end.

Definition valid_string_literal (s : list N) : Prop :=
  exists l, forallb wf_item l = true /\ s = render_lit l.

(* An executable reader for the same grammar: the items of the literal at the
   head of [s] (after its opening quote) and what follows its closing quote. *)
Fixpoint parse_items (fuel : nat) (s : list N) : option (list item * list N) :=
  match fuel with
  | O => None
  | S f =>
    match s with
    | [] => None
    | b :: t =>
      if b =? 34 then Some ([], t)
      else if b =? 92 then
        match t with
        | [] => None
        | c :: t1 =>
          if c =? 117 then
            match t1 with
            | h1 :: h2 :: h3 :: h4 :: t2 =>
              if wf_item (U h1 h2 h3 h4) then
                match parse_items f t2 with Some (l, r) => Some (U h1 h2 h3 h4 :: l, r) | None => None end
              else None
            | _ => None
            end
          else if is_esc c then
            match parse_items f t1 with Some (l, r) => Some (Esc c :: l, r) | None => None end
          else None
        end
      else
        match decode1 s with
        | Some (cp, k) =>
          if wf_item (Ch cp) then
            match parse_items f (skipn k s) with Some (l, r) => Some (Ch cp :: l, r) | None => None end
          else None
        | None => None
        end
    end
  end.

(* JsonStd.unescape: the decoded string and the rest of the input, for input that
   starts with a valid string literal; None otherwise *)
Definition unescape (s : list N) : option (list N * list N) :=
  match s with
  | q :: t => if q =? 34 then
                match parse_items (S (length t)) t with
                | Some (l, r) => Some (denote l, r)
                | None => None
                end
              else None
  | [] => None
  end.

Definition quote_valid (s : list N) : bool :=
  match unescape s with Some (_, []) => true | _ => false end.

Close Scope N_scope.

(* C09 — the executable reference reader Spec.unescape is SOUND for the relational grammar
   (what it accepts is the text of a literal: s = render_lit l ++ rest with every item well formed),
   the converse of ProofsParse.unescape_render.  Hence the string decoder model agrees with the
   function Spec.unescape on EVERY text that function accepts, outside the class F09-2r, which is
   stated on the text by [pinfree]. *)
From Coq Require Import List NArith ZArith Bool Lia.
From Verif Require Import Gen.Consts Base.Outcome C09.Spec C09.Model C09.ProofsStr C09.ProofsParse C09.ProofsNum C09.ProofsUint.
Import ListNotations.
Open Scope bool_scope.
Open Scope N_scope.

Lemma render_cons' : forall i l, render_items (i :: l) = render_item i ++ render_items l.
Proof. reflexivity. Qed.

(* decode1 hands back the encoding it found at the head of the input *)
Lemma decode1_sound : forall s cp k, decode1 s = Some (cp, k) -> s = utf8_encode cp ++ skipn k s.
Proof.
  intros s cp k H. destruct s as [|b0 t]; [discriminate|]. cbn [decode1] in H.
  destruct (b0 <? 128) eqn:E0.
  { inversion H; subst. unfold utf8_encode. rewrite E0. reflexivity. }
  destruct t as [|b1 t2]; [discriminate|].
  match type of H with (if is_enc ?c ?bs then _ else _) = _ => destruct (is_enc c bs) eqn:E2 end.
  { inversion H; subst. unfold is_enc in E2. apply andb_prop in E2 as [_ E2]. apply eqbl_eq in E2. rewrite E2. reflexivity. }
  destruct t2 as [|b2 t3]; [discriminate|].
  match type of H with (if is_enc ?c ?bs then _ else _) = _ => destruct (is_enc c bs) eqn:E3 end.
  { inversion H; subst. unfold is_enc in E3. apply andb_prop in E3 as [_ E3]. apply eqbl_eq in E3. rewrite E3. reflexivity. }
  destruct t3 as [|b3 t4]; [discriminate|].
  match type of H with (if is_enc ?c ?bs then _ else _) = _ => destruct (is_enc c bs) eqn:E4 end; [|discriminate].
  inversion H; subst. unfold is_enc in E4. apply andb_prop in E4 as [_ E4]. apply eqbl_eq in E4. rewrite E4. reflexivity.
Qed.

Lemma parse_sound : forall f s l r, parse_items f s = Some (l, r) ->
  forallb wf_item l = true /\ s = render_items l ++ 34 :: r.
Proof.
  induction f as [|f IH]; intros s l r H; [discriminate|].
  destruct s as [|b t]; [discriminate|]. cbn [parse_items] in H.
  destruct (N.eqb_spec b 34) as [->|Hq].
  { inversion H; subst. split; reflexivity. }
  destruct (N.eqb_spec b 92) as [->|Hb].
  - destruct t as [|c t1]; [discriminate|].
    destruct (N.eqb_spec c 117) as [->|Hu].
    + destruct t1 as [|h1 [|h2 [|h3 [|h4 t2]]]]; try discriminate.
      destruct (wf_item (U h1 h2 h3 h4)) eqn:Hw; [|discriminate].
      destruct (parse_items f t2) as [[l' r']|] eqn:E; [|discriminate]. inversion H; subst.
      destruct (IH _ _ _ E) as [W S']. split.
      * cbn [forallb]. rewrite Hw, W. reflexivity.
      * rewrite render_cons'. cbn [render_item app]. rewrite <- S'. reflexivity.
    + destruct (is_esc c) eqn:He; [|discriminate].
      destruct (parse_items f t1) as [[l' r']|] eqn:E; [|discriminate]. inversion H; subst.
      destruct (IH _ _ _ E) as [W S']. split.
      * cbn [forallb wf_item]. rewrite He, W. reflexivity.
      * rewrite render_cons'. cbn [render_item app]. rewrite <- S'. reflexivity.
  - destruct (decode1 (b :: t)) as [[cp k]|] eqn:Ed; [|discriminate].
    destruct (wf_item (Ch cp)) eqn:Hw; [|discriminate].
    destruct (parse_items f (skipn k (b :: t))) as [[l' r']|] eqn:E; [|discriminate]. inversion H; subst.
    destruct (IH _ _ _ E) as [W S']. split.
    + cbn [forallb]. rewrite Hw, W. reflexivity.
    + rewrite render_cons'. cbn [render_item]. rewrite <- app_assoc, <- S'. apply decode1_sound. exact Ed.
Qed.

(* the items of the literal at the head of a text (the text starts at the opening quote) *)
Definition lit_items (s : list N) : option (list item * list N) :=
  match s with q :: t => if q =? 34 then parse_items (S (length t)) t else None | [] => None end.

Lemma unescape_items : forall s, unescape s = match lit_items s with Some (l, r) => Some (denote l, r) | None => None end.
Proof. intros [|q t]; [reflexivity|]. unfold unescape, lit_items. destruct (q =? 34); reflexivity. Qed.

Lemma unescape_sound : forall s d r, unescape s = Some (d, r) ->
  exists l, lit_items s = Some (l, r) /\ forallb wf_item l = true /\ s = render_lit l ++ r /\ d = denote l.
Proof.
  intros s d r H. rewrite unescape_items in H. destruct (lit_items s) as [[l r']|] eqn:E; [|discriminate].
  inversion H; subst. exists l. split; [reflexivity|].
  destruct s as [|q t]; [discriminate|]. unfold lit_items in E. destruct (N.eqb_spec q 34) as [->|]; [|discriminate].
  destruct (parse_sound _ _ _ _ E) as [W S']. repeat split; [exact W|].
  unfold render_lit. cbn [app]. rewrite <- app_assoc. cbn [app]. rewrite <- S'. reflexivity.
Qed.

(* the class F09-2r, on the text: the literal at the head of [s] contains a surrogate \u escape
   immediately followed by a \u escape it does not pair with *)
Definition pinfree (s : list N) : bool :=
  match lit_items s with Some (l, _) => nopin l | None => true end.

(* the string decoder agrees with the FUNCTION Spec.unescape wherever that function accepts *)
Lemma dec_string_unescape : forall s d r, unescape s = Some (d, r) -> pinfree s = true ->
  dec_string s = Ok (d, r).
Proof.
  intros s d r H P. destruct (unescape_sound s d r H) as (l & E & W & -> & ->).
  unfold pinfree in P. rewrite E in P. apply unescape_lemma; assumption.
Qed.

(* what Spec.unescape accepts is at least two bytes long and ends strictly inside the input *)
Lemma unescape_shrinks : forall s d r, unescape s = Some (d, r) -> (length r + 2 <= length s)%nat.
Proof.
  intros s d r H. destruct (unescape_sound s d r H) as (l & _ & _ & -> & _).
  unfold render_lit. cbn [app length]. rewrite !app_length. cbn [length]. lia.
Qed.

(* ------------------------------------------------------------------ *)
(* parseUint64_simple on ANY int literal of the grammar (not only the texts jsonEncodeUint writes):
   the value, when it fits 64 bits; and it answers ok on digit strings only *)
Lemma pus_wf_int : forall ds, wf_int ds = true -> (ival ds < 2 ^ 64)%Z ->
  parseUint64_simple (map dchar ds) = (ival ds, true).
Proof.
  intros ds Hwf Hv. destruct (wf_int_digits ds Hwf) as [Hd _].
  assert (Hp : pus_loop (map dchar ds) 0%Z = (ival ds, true)).
  { rewrite pus_digits; [rewrite <- ival_dval; reflexivity|exact Hd|lia|rewrite <- ival_dval; exact Hv]. }
  unfold parseUint64_simple.
  destruct ds as [|d [|d2 r]]; [discriminate|exact Hp|].
  cbn [map]. cbn [map] in Hp.
  cbn [wf_int] in Hwf. apply andb_true_iff in Hwf. destruct Hwf as [Hwf _]. apply andb_true_iff in Hwf. destruct Hwf as [H1 H2].
  replace (dchar d =? 48)%N with false; [exact Hp|].
  symmetry. unfold dchar. unfold is_digit in H1. apply N.ltb_lt in H1. apply negb_true_iff in H2. apply N.eqb_neq in H2.
  apply N.eqb_neq. lia.
Qed.

Lemma pus_loop_ok_digits : forall b n m, pus_loop b n = (m, true) -> forallb isdig b = true.
Proof.
  induction b as [|c r IH]; intros n m H; [reflexivity|]. cbn [pus_loop] in H.
  destruct (isdig c) eqn:E; [|rewrite orb_true_r in H; discriminate]. cbn [forallb]. rewrite E. cbn [andb].
  destruct (fUint64Cutoff <=? n)%Z; [discriminate|]. cbn [negb orb] in H.
  destruct (c =? 48)%N; [eapply IH; eauto|].
  destruct (_ <? n)%Z; [discriminate|]. eapply IH; eauto.
Qed.

Lemma pus_ok_digits : forall b m, parseUint64_simple b = (m, true) -> forallb isdig b = true.
Proof.
  intros b m H. unfold parseUint64_simple in H.
  destruct b as [|z [|y r]]; try (eapply pus_loop_ok_digits; eauto; fail).
  destruct (z =? 48)%N; [discriminate|]. eapply pus_loop_ok_digits; eauto.
Qed.

(* C09 — correspondence: evaluate the models (and the JsonStd reference) on the
   cases the harness ran against the real code, strconv and encoding/json, and
   report the ids that differ. *)
From Coq Require Import List NArith ZArith Bool.
From Verif Require Import Gen.Consts Base.Outcome C09.Spec C09.Model.
Import ListNotations.
Open Scope bool_scope.

(* observed readFloatResult *)
Record orf := mkorf { o_mant : Z; o_exp : Z; o_neg : bool; o_trunc : bool; o_bad : bool; o_hard : bool; o_ok : bool }.

Definition rf_agrees (m : rfr) (o : orf) : bool :=
  Bool.eqb (rneg m) (o_neg o) && Bool.eqb (rtrunc m) (o_trunc o) && Bool.eqb (rbad m) (o_bad o)
  && Bool.eqb (rhard m) (o_hard o) && Bool.eqb (rok m) (o_ok o)
  && (if o_ok o then (mant m =? o_mant o)%Z && (rexp m =? o_exp o)%Z else true).

(* observed result of a fast-path reader: 0 bits, 1 fail, 2 index panic *)
Record ofp := mkofp { fp_kind : N; fp_bits : Z }.
Definition fp_agrees (m : fpres) (o : ofp) : bool :=
  match m with
  | FBits b => (fp_kind o =? 0)%N && (b =? fp_bits o)%Z
  | FFail => (fp_kind o =? 1)%N
  | FPanic => (fp_kind o =? 2)%N
  end.

Definition optz_eqb (a b : option Z) : bool :=
  match a, b with
  | Some x, Some y => (x =? y)%Z
  | None, None => true
  | _, _ => false
  end.

Inductive case :=
(* a number literal generated from the grammar.  sc64/sc32: strconv.ParseFloat bits
   (None = it returned an error, i.e. out of range); pf64/pf32: parseFloat64/32 of /repo *)
| CNum (id : N) (lit : numlit) (upper : bool) (bytes : list N)
       (rf32 rf64 rf64u : orf) (sb64 sb32 : Z) (sc64 sc32 pf64 pf32 : option Z)
(* arbitrary bytes (not necessarily a valid literal) through readFloat and parseUint64_simple *)
| CRaw (id : N) (bytes : list N) (rf32 rf64 rf64u : orf) (pn : Z) (pok : bool)
       (sc64 sc32 pf64 pf32 : option Z)    (* strconv / parseFloat64,32 of /repo on the same bytes: None = error *)
(* a quoted map key under MapKeyAsString decoded into an interface{} key: did it come back
   as a number, and does the same text fail as a bare number into interface{} *)
| CKey (id : N) (bytes : list N) (as_number : bool) (bare_err : bool)
| CFast (id : N) (m e : Z) (neg : bool) (o64 o32 : ofp)
(* input = a string literal followed by other bytes; what the Decoder returned and
   NumBytesRead; what encoding/json returned for the literal alone *)
| CStr (id : N) (input : list N) (litlen : N) (ok : bool) (decoded : list N) (consumed : N)
       (chk_std : bool) (std_ok : bool) (std : list N)
| CQuote (id : N) (html : bool) (s : list N) (out : list N) (std : list N)
| CInt (id : N) (is_ : Z) (ks : bool) (v : Z) (out : list N)
| CFmt (id : N) (is64 : bool) (bits : Z) (fmt : N) (prec : Z).

Definition case_id (c : case) : N :=
  match c with
  | CNum id _ _ _ _ _ _ _ _ _ _ _ _ => id | CRaw id _ _ _ _ _ _ _ _ _ _ => id | CKey id _ _ _ => id | CFast id _ _ _ _ _ => id
  | CStr id _ _ _ _ _ _ _ _ => id | CQuote id _ _ _ _ => id | CInt id _ _ _ _ => id | CFmt id _ _ _ _ => id
  end.

Definition check_case (c : case) : bool :=
  match c with
  | CNum _ lit upper bytes rf32 rf64 rf64u sb64 sb32 sc64 sc32 pf64 pf32 =>
    let orc := fun (f : bfmt) (_ : list N) => if (prec f =? 53)%Z then sc64 else sc32 in
    wf_numlit lit
    && eqbl (render_num upper lit) bytes
    && rf_agrees (readFloat bytes fi32) rf32
    && rf_agrees (readFloat bytes fi64) rf64
    && rf_agrees (readFloat bytes fi64u) rf64u
    (* the reference agrees with strconv (ties Spec.RN and the oracle assumption) *)
    && (num_bits binary64 lit =? sb64)%Z
    && (num_bits binary32 lit =? sb32)%Z
    && optz_eqb (parseFloat_custom orc binary64 bytes) pf64
    && optz_eqb (parseFloat_custom orc binary32 bytes) pf32
  | CRaw _ bytes rf32 rf64 rf64u pn pok sc64 sc32 pf64 pf32 =>
    let orc := fun (f : bfmt) (_ : list N) => if (prec f =? 53)%Z then sc64 else sc32 in
    rf_agrees (readFloat bytes fi32) rf32
    && rf_agrees (readFloat bytes fi64) rf64
    && rf_agrees (readFloat bytes fi64u) rf64u
    && (let '(n, ok) := parseUint64_simple bytes in
        Bool.eqb ok pok && (if pok then (n =? pn)%Z else true))
    (* a text readFloat calls bad is refused; everything else is the fast path or strconv *)
    && optz_eqb (parseFloat_custom orc binary64 bytes) pf64
    && optz_eqb (parseFloat_custom orc binary32 bytes) pf32
  | CKey _ bytes as_number bare_err =>
    Bool.eqb as_number (jsonIsNumberLiteral bytes && negb bare_err)
  | CFast _ m e neg o64 o32 =>
    fp_agrees (parseFloat64_reader m e neg) o64 && fp_agrees (parseFloat32_reader m e neg) o32
  | CStr _ input litlen ok decoded consumed chk_std std_ok std =>
    (match dec_string input with
     | Ok (d, rest) => ok && eqbl d decoded && (N.of_nat (length input - length rest) =? consumed)%N
     | Err _ => negb ok
     | OutOfFuel => false
     end)
    && (if chk_std then
          match unescape input with
          | Some (d, rest) =>
            (* the reference accepts a prefix of the input: encoding/json was given the
               first litlen bytes only, and must accept them iff that prefix is all of them *)
            if (N.of_nat (length input - length rest) =? litlen)%N then std_ok && eqbl d std else negb std_ok
          | None => negb std_ok
          end
        else true)
  | CQuote _ html s out std =>
    eqbl (quoteStr html s) out
    && eqbl (utf8_sanitise s) std
    && match unescape out with Some (d, []) => eqbl d std | _ => false end
  | CInt _ is_ ks v out => eqbl (encodeInt is_ ks v) out
  | CFmt _ is64 bits fmt prec =>
    let '(f, p) := fmtprec (if is64 then binary64 else binary32) bits in
    (f =? fmt)%N && (p =? prec)%Z
  end.

Definition mismatches (cs : list case) : list N :=
  map case_id (filter (fun c => negb (check_case c)) cs).

(* C11/CborFT — the cbor decode law extended once more, to times in the EPOCH form (tag 1: TimeRFC3339 =
   false): an integer number of seconds, or sec + nsec/1e9 evaluated in binary64.

   Vocabulary [_ft] = the [_t] vocabulary of C10/CborConv.v (tags 6.., tag 0 = RFC 3339 text) plus tag 1
   around an unsigned / negative integer or a half / single / double float: the library reads it through
   DecodeFloat64 as a float64 x ([fval_data]) and makes time.Unix(trunc x, frac x * 1e9) rounded to the
   microsecond of it ([time_of_float]); the item is admitted when that is not an error (x finite,
   |trunc x| <= 2^62).  [go_of_ft] is what the library returns, [tdepth_ft] the nesting it counts (a time
   costs no level).  dec_ser_ft is Wire/CborProofs.v dec_ser for this vocabulary: the leaf cases are
   dec_ser's, the container loops are re-proved for the new result function, the tag case gains t = 1
   (dec_float64_ser).  Everything the [_t] vocabulary admits is admitted with the same result
   (compat_ft). *)
From Coq Require Import List NArith ZArith Lia Bool Arith.
From Coq Require Import ZifyN ZifyNat ZifyBool.
From Verif Require Import Base.Outcome Wire.Item Gen.Consts Wire.CborFloat Wire.Cbor C10.CborSpec C10.CborConv
  Wire.CborProofs Wire.CborTime Wire.CborEnc.
Import ListNotations.
Open Scope N_scope.

(* the float64 DecodeFloat64 makes of the content of tag 1 *)
Definition fval_data (v : sdata) : option N :=
  match v with
  | DUint n => Some (round64 n 0)                                              (* float64(uint64) *)
  | DNint n => if n <? 9223372036854775808 then Some (f64_of_Z (-1 - Z.of_N n)) else None   (* float64(int64) *)
  | DFloat p b => Some (if p =? 16 then widen (spec_half b) else if p =? 32 then widen b else b)
  | _ => None
  end.

Definition ftime_item (v : sdata) : item :=
  match fval_data v with
  | Some x => match time_of_float x with Ok i => i | _ => INil end
  | None => INil
  end.

Fixpoint go_of_ft (D : dopts) (x : sdata) : item :=
  match x with
  | DUint n => if do_signed D then IInt (Z.of_N n) else IUint n
  | DNint n => IInt (-1 - Z.of_N n)
  | DBytes s => if do_raw2str D then IStr s else IBytes s
  | DText s => IStr s
  | DArr l => IArr (map (go_of_ft D) l)
  | DMap l => IMap (map (fun kv => (keynorm (go_of_ft D (fst kv)), go_of_ft D (snd kv))) l)
  | DTag t v =>
      if t =? 0 then match v with DText s | DBytes s => time_item s | _ => INil end
      else if t =? 1 then ftime_item v
      else if (t =? 55799) || do_skiptags D then go_of_ft D v else ITag t (go_of_ft D v)
  | DSimple v => if v =? 20 then IBool false else if v =? 21 then IBool true else INil
  | DFloat p b => if p =? 16 then IF64 (widen (spec_half b)) else if p =? 32 then IF64 (widen b) else IF64 b
  end.

Fixpoint keys_ok_ft (D : dopts) (seen : list item) (l : list (wtree * wtree)) : Prop :=
  match l with
  | [] => True
  | kv :: r =>
      let k := keynorm (go_of_ft D (data_of (fst kv))) in
      hashable k = true /\ existsb (key_eqb k) seen = false /\ keys_ok_ft D (k :: seen) r
  end.

Fixpoint lib_supports_ft (D : dopts) (t : wtree) : Prop :=
  match t with
  | TUint _ n => do_signed D = true -> n < 9223372036854775808
  | TNint _ n => n < 9223372036854775808
  | TBytes _ s | TText _ s => N.of_nat (length s) < 9223372036854775808
  | TBytesI cs | TTextI cs => Forall (fun c => N.of_nat (length (snd c)) < 9223372036854775808) cs
  | TArr _ l | TArrI l => (fix go l := match l with [] => True | x :: r => lib_supports_ft D x /\ go r end) l
                          /\ N.of_nat (length l) < 9223372036854775808
  | TMap _ l | TMapI l =>
      (fix go l := match l with [] => True | kv :: r => lib_supports_ft D (fst kv) /\ lib_supports_ft D (snd kv) /\ go r end) l
      /\ keys_ok_ft D [] l /\ N.of_nat (length l) < 9223372036854775808
  | TTag _ t v =>
      (5 < t /\ lib_supports_ft D v)
      \/ (t = 0 /\ lib_supports_t D v /\
          match text_of v with Some s => exists i, parse_rfc3339 s = Ok i | None => False end)
      \/ (t = 1 /\ exists x i, fval_data (data_of v) = Some x /\ time_of_float x = Ok i)
  | TSimple v => 20 <= v
  | TSimple1 _ => False
  | _ => True
  end.

Fixpoint tdepth_ft (D : dopts) (t : wtree) : Z :=
  match t with
  | TArr _ l | TArrI l => (1 + fold_right (fun x m => Z.max (tdepth_ft D x) m) 0 l)%Z
  | TMap _ l | TMapI l => (1 + fold_right (fun kv m => Z.max (Z.max (tdepth_ft D (fst kv)) (tdepth_ft D (snd kv))) m) 0 l)%Z
  | TTag _ t v => if (t =? 0) || (t =? 1) then 0%Z else if (t =? 55799) || do_skiptags D then tdepth_ft D v else (1 + tdepth_ft D v)%Z
  | _ => 0%Z
  end.

Definition norm_ft (O : eopts) (D : dopts) (i : item) : item := go_of_ft D (sdata_of O i).

(* ------------------------------------------------------------------ *)
Lemma tdepth_ft_nonneg : forall D t, (0 <= tdepth_ft D t)%Z.
Proof.
  intros D t. induction t using wtree_ind'; cbn [tdepth_ft]; try lia.
  - assert (0 <= fold_right (fun x m => Z.max (tdepth_ft D x) m) 0 l)%Z by (clear; induction l; simpl; lia). lia.
  - assert (0 <= fold_right (fun x m => Z.max (tdepth_ft D x) m) 0 l)%Z by (clear; induction l; simpl; lia). lia.
  - assert (0 <= fold_right (fun kv m => Z.max (Z.max (tdepth_ft D (fst kv)) (tdepth_ft D (snd kv))) m) 0 l)%Z by (clear; induction l; simpl; lia). lia.
  - assert (0 <= fold_right (fun kv m => Z.max (Z.max (tdepth_ft D (fst kv)) (tdepth_ft D (snd kv))) m) 0 l)%Z by (clear; induction l; simpl; lia). lia.
  - destruct ((t =? 0) || (t =? 1)); [lia |]. destruct ((t =? 55799) || do_skiptags D); lia.
Qed.

Definition dec_ok_ft (D : dopts) (t : wtree) : Prop :=
  forall f d r rest, (2 * length (ser t) + 1 <= f)%nat -> (d + tdepth_ft D t < maxdepth D)%Z ->
  fst (dec D f d r (ser t ++ rest)) = Ok (go_of_ft D (data_of t), rest).

Lemma arr_def_ser_ft : forall D l, Forall (dec_ok_ft D) l ->
  forall f d r rest, (2 * length (flat_map ser l) + 2 <= f)%nat ->
  (d + fold_right (fun x m => Z.max (tdepth_ft D x) m) 0 l < maxdepth D)%Z ->
  fst (arr_def D f d r (N.of_nat (length l)) (flat_map ser l ++ rest))
  = Ok (map (fun t => go_of_ft D (data_of t)) l, rest).
Proof.
  intros D l H. induction H as [| x l Hx Hl IH]; intros f d r rest Hf Hd.
  - destruct f; [simpl in Hf; lia |]. rewrite arr_def_S. reflexivity.
  - destruct f; [simpl in Hf; lia |]. rewrite arr_def_S.
    replace (N.of_nat (length (x :: l)) =? 0) with false by (symmetry; apply N.eqb_neq; cbn [length]; lia).
    cbn [flat_map] in *. rewrite app_length in Hf. rewrite <- app_assoc. cbn [fold_right] in Hd.
    pose proof (ser_len_pos x) as Hp.
    erewrite fst_bindI by (apply Hx; lia). cbv beta iota.
    replace (N.of_nat (length (x :: l)) - 1) with (N.of_nat (length l)) by (cbn [length]; lia).
    erewrite fst_bindI by (apply IH; lia). reflexivity.
Qed.

Lemma arr_indef_ser_ft : forall D l, Forall (dec_ok_ft D) l -> Forall twf l ->
  forall f d r rest, (2 * length (flat_map ser l) + 2 <= f)%nat ->
  (d + fold_right (fun x m => Z.max (tdepth_ft D x) m) 0 l < maxdepth D)%Z ->
  fst (arr_indef D f d r (flat_map ser l ++ 255 :: rest))
  = Ok (map (fun t => go_of_ft D (data_of t)) l, rest).
Proof.
  intros D l H. induction H as [| x l Hx Hl IH]; intros Hw f d r rest Hf Hd.
  - destruct f; [simpl in Hf; lia |]. cbn [flat_map app]. rewrite arr_indef_S. reflexivity.
  - inversion Hw as [| ? ? Hwx Hwl]; subst.
    destruct f; [simpl in Hf; lia |].
    cbn [flat_map] in *. rewrite app_length in Hf. rewrite <- app_assoc. cbn [fold_right] in Hd.
    destruct (ser_hd x Hwx) as (bd & tl & E & Hne).
    assert (E2 : ser x ++ flat_map ser l ++ 255 :: rest = bd :: (tl ++ flat_map ser l ++ 255 :: rest)) by (rewrite E; reflexivity).
    pose proof (ser_len_pos x) as Hp.
    rewrite E2. rewrite arr_indef_S.
    replace (bd =? bdBreak) with false by (symmetry; apply N.eqb_neq; exact Hne).
    rewrite <- E2.
    erewrite fst_bindI by (apply Hx; lia). cbv beta iota.
    erewrite fst_bindI by (apply IH; [assumption | lia | lia]). reflexivity.
Qed.

Lemma map_entry_ser_ft : forall D k v, dec_ok_ft D k -> dec_ok_ft D v -> twf v ->
  forall f' d r seen rest,
  (2 * length (ser k) + 1 <= f')%nat -> (2 * length (ser v) + 1 <= f')%nat ->
  (d + tdepth_ft D k < maxdepth D)%Z -> (d + tdepth_ft D v < maxdepth D)%Z ->
  hashable (keynorm (go_of_ft D (data_of k))) = true ->
  existsb (key_eqb (keynorm (go_of_ft D (data_of k)))) seen = false ->
  fst (map_entry (dec D f') d r seen (ser k ++ ser v ++ rest))
  = Ok (keynorm (go_of_ft D (data_of k)), go_of_ft D (data_of v), rest).
Proof.
  intros D k v Hk Hv Hwv f' d r seen rest Hfk Hfv Hdk Hdv Hh Hs.
  unfold map_entry.
  erewrite fst_bindI by (apply Hk; assumption). cbv beta iota.
  destruct (ser_hd v Hwv) as (bd & tl & E & _).
  assert (E2 : ser v ++ rest = bd :: (tl ++ rest)) by (rewrite E; reflexivity).
  rewrite E2. rewrite Hh. cbn [negb]. rewrite Hs. rewrite <- E2.
  erewrite fst_bindI by (apply Hv; assumption). reflexivity.
Qed.

Definition pair_go_ft (D : dopts) (kv : wtree * wtree) : item * item :=
  (keynorm (go_of_ft D (data_of (fst kv))), go_of_ft D (data_of (snd kv))).
Definition pair_depth_ft (D : dopts) (kv : wtree * wtree) (m : Z) : Z :=
  Z.max (Z.max (tdepth_ft D (fst kv)) (tdepth_ft D (snd kv))) m.

Lemma map_def_ser_ft : forall D l,
  Forall (fun kv => dec_ok_ft D (fst kv) /\ dec_ok_ft D (snd kv)) l ->
  Forall (fun kv => twf (fst kv) /\ twf (snd kv)) l ->
  forall f d r seen rest, (2 * length (flat_map pair_ser l) + 2 <= f)%nat ->
  (d + fold_right (pair_depth_ft D) 0 l < maxdepth D)%Z ->
  keys_ok_ft D seen l ->
  fst (map_def D f d r (N.of_nat (length l)) seen (flat_map pair_ser l ++ rest))
  = Ok (map (pair_go_ft D) l, rest).
Proof.
  intros D l H. induction H as [| kv l [Hk Hv] Hl IH]; intros Hw f d r seen rest Hf Hd Hkeys.
  - destruct f; [simpl in Hf; lia |]. rewrite map_def_S. reflexivity.
  - inversion Hw as [| ? ? [Hwk Hwv] Hwl]; subst.
    destruct f; [simpl in Hf; lia |]. rewrite map_def_S.
    replace (N.of_nat (length (kv :: l)) =? 0) with false by (symmetry; apply N.eqb_neq; cbn [length]; lia).
    cbn [flat_map] in *. unfold pair_ser at 1 in Hf. unfold pair_ser at 1.
    rewrite !app_length in Hf. rewrite <- !app_assoc. cbn [fold_right] in Hd. unfold pair_depth_ft at 1 in Hd.
    pose proof (ser_len_pos (fst kv)) as Hp1. pose proof (ser_len_pos (snd kv)) as Hp2.
    cbn [keys_ok_ft] in Hkeys. destruct Hkeys as (Hh & Hs & Hkeys).
    erewrite fst_bindI by (apply map_entry_ser_ft; try assumption; lia). cbv beta iota. cbn [fst].
    replace (N.of_nat (length (kv :: l)) - 1) with (N.of_nat (length l)) by (cbn [length]; lia).
    erewrite fst_bindI by (apply IH; [assumption | lia | lia | exact Hkeys]). reflexivity.
Qed.

Lemma map_indef_ser_ft : forall D l,
  Forall (fun kv => dec_ok_ft D (fst kv) /\ dec_ok_ft D (snd kv)) l ->
  Forall (fun kv => twf (fst kv) /\ twf (snd kv)) l ->
  forall f d r seen rest, (2 * length (flat_map pair_ser l) + 2 <= f)%nat ->
  (d + fold_right (pair_depth_ft D) 0 l < maxdepth D)%Z ->
  keys_ok_ft D seen l ->
  fst (map_indef D f d r seen (flat_map pair_ser l ++ 255 :: rest))
  = Ok (map (pair_go_ft D) l, rest).
Proof.
  intros D l H. induction H as [| kv l [Hk Hv] Hl IH]; intros Hw f d r seen rest Hf Hd Hkeys.
  - destruct f; [simpl in Hf; lia |]. cbn [flat_map app]. rewrite map_indef_S. reflexivity.
  - inversion Hw as [| ? ? [Hwk Hwv] Hwl]; subst.
    destruct f; [simpl in Hf; lia |].
    cbn [flat_map] in *. unfold pair_ser at 1 in Hf. unfold pair_ser at 1.
    rewrite !app_length in Hf. rewrite <- !app_assoc. cbn [fold_right] in Hd. unfold pair_depth_ft at 1 in Hd.
    pose proof (ser_len_pos (fst kv)) as Hp1. pose proof (ser_len_pos (snd kv)) as Hp2.
    cbn [keys_ok_ft] in Hkeys. destruct Hkeys as (Hh & Hs & Hkeys).
    destruct (ser_hd (fst kv) Hwk) as (bd & tl & E & Hne).
    assert (E2 : ser (fst kv) ++ ser (snd kv) ++ flat_map pair_ser l ++ 255 :: rest
                 = bd :: (tl ++ ser (snd kv) ++ flat_map pair_ser l ++ 255 :: rest)) by (rewrite E; reflexivity).
    rewrite E2. rewrite map_indef_S.
    replace (bd =? bdBreak) with false by (symmetry; apply N.eqb_neq; exact Hne).
    rewrite <- E2.
    erewrite fst_bindI by (apply map_entry_ser_ft; try assumption; lia). cbv beta iota. cbn [fst].
    erewrite fst_bindI by (apply IH; [assumption | lia | lia | exact Hkeys]). reflexivity.
Qed.

(* ------------------------------------------------------------------ *)
(* DecodeFloat64 on the content of tag 1 *)
Lemma skip_tags_plain : forall D f bd b, (1 <= f)%nat -> bd / 32 <> 6 ->
  (if do_skiptags D then skip_tags f bd b else Ok (bd, b)) = Ok (bd, b).
Proof.
  intros D f bd b Hf Hm. destruct (do_skiptags D); [| reflexivity]. destruct f; [lia |]. cbn [skip_tags].
  replace (bd / 32 =? majTag) with false; [reflexivity |]. symmetry. apply N.eqb_neq. exact Hm.
Qed.

Lemma dec_float64_int : forall D f mt a b1, (1 <= f)%nat -> a <= 27 -> mt <= 1 ->
  dec_float64 D f ((mt * 32 + a) :: b1) =
  do (u, b2) <- read_uint a b1 ;;
  if mt =? 1 then do i <- int64v u true ;; Ok (f64_of_Z i, b2) else Ok (round64 u 0, b2).
Proof.
  intros D f mt a b1 Hf Ha Hm. unfold dec_float64.
  assert (Hd : (mt * 32 + a) / 32 = mt) by (apply hd_div; lia).
  assert (Hmo : (mt * 32 + a) mod 32 = a) by (apply hd_mod; lia).
  replace (mt * 32 + a =? bdNil) with false by (symmetry; apply N.eqb_neq; change bdNil with 246; lia).
  replace (mt * 32 + a =? bdUndefined) with false by (symmetry; apply N.eqb_neq; change bdUndefined with 247; lia).
  cbn [orb]. rewrite skip_tags_plain by (try assumption; rewrite Hd; lia). cbn [bind].
  replace (mt * 32 + a =? bdFloat16) with false by (symmetry; apply N.eqb_neq; change bdFloat16 with 249; lia).
  replace (mt * 32 + a =? bdFloat32) with false by (symmetry; apply N.eqb_neq; change bdFloat32 with 250; lia).
  replace (mt * 32 + a =? bdFloat64) with false by (symmetry; apply N.eqb_neq; change bdFloat64 with 251; lia).
  rewrite Hd, Hmo.
  replace (mt =? majTag) with false by (symmetry; apply N.eqb_neq; change majTag with 6; lia).
  replace (mt <=? majNegInt) with true by (symmetry; apply N.leb_le; change majNegInt with 1; lia).
  change majNegInt with 1. reflexivity.
Qed.

Lemma dec_float64_ser : forall D v x f rest, twf v -> fval_data (data_of v) = Some x -> (1 <= f)%nat ->
  dec_float64 D f (ser v ++ rest) = Ok (x, rest).
Proof.
  intros D v x f rest Hw Hx Hf. destruct v; cbn [data_of fval_data] in Hx; try discriminate; cbn [ser twf] in *.
  - (* TUint *)
    rewrite shead_cons. cbn [app]. pose proof (ai_of_le _ _ Hw).
    rewrite dec_float64_int by (try assumption; lia). rewrite read_uint_head by assumption. cbn [bind].
    change (0 =? 1) with false. cbv iota. inversion Hx; subst. reflexivity.
  - (* TNint *)
    destruct (n <? 9223372036854775808) eqn:En; [| discriminate]. apply N.ltb_lt in En.
    rewrite shead_cons. cbn [app]. pose proof (ai_of_le _ _ Hw).
    rewrite dec_float64_int by (try assumption; lia). rewrite read_uint_head by assumption. cbn [bind].
    change (1 =? 1) with true. cbv iota. rewrite int64v_neg by assumption. cbn [bind]. inversion Hx; subst. reflexivity.
  - (* THalf *)
    cbn [app]. unfold dec_float64.
    change ((249 =? bdNil) || (249 =? bdUndefined)) with false. cbv iota.
    rewrite skip_tags_plain by (try assumption; vm_compute; discriminate). cbn [bind].
    change (249 =? bdFloat16) with true. cbv iota. rewrite (take_sbe 2). cbn [bind].
    rewrite be_get_put by (simpl; lia). rewrite half_all by assumption.
    change (16 =? 16) with true in Hx. cbv iota in Hx. inversion Hx; subst. reflexivity.
  - (* TSingle *)
    cbn [app]. unfold dec_float64.
    change ((250 =? bdNil) || (250 =? bdUndefined)) with false. cbv iota.
    rewrite skip_tags_plain by (try assumption; vm_compute; discriminate). cbn [bind].
    change (250 =? bdFloat16) with false. change (250 =? bdFloat32) with true. cbv iota. rewrite (take_sbe 4). cbn [bind].
    rewrite be_get_put by (simpl; lia).
    change (32 =? 16) with false in Hx. change (32 =? 32) with true in Hx. cbv iota in Hx. inversion Hx; subst. reflexivity.
  - (* TDouble *)
    cbn [app]. unfold dec_float64.
    change ((251 =? bdNil) || (251 =? bdUndefined)) with false. cbv iota.
    rewrite skip_tags_plain by (try assumption; vm_compute; discriminate). cbn [bind].
    change (251 =? bdFloat16) with false. change (251 =? bdFloat32) with false. change (251 =? bdFloat64) with true. cbv iota.
    rewrite (take_sbe 8). cbn [bind]. rewrite be_get_put by (simpl; lia).
    change (64 =? 16) with false in Hx. change (64 =? 32) with false in Hx. cbv iota in Hx. inversion Hx; subst. reflexivity.
Qed.

(* ------------------------------------------------------------------ *)
Theorem dec_ser_ft : forall D t, twf t -> lib_supports_ft D t -> dec_ok_ft D t.
Proof.
  intros D t. induction t using wtree_ind'; intros Hw Hs f d r rest Hf Hd.
  - exact (dec_ser D _ Hw Hs f d r rest Hf Hd).
  - exact (dec_ser D _ Hw Hs f d r rest Hf Hd).
  - exact (dec_ser D _ Hw Hs f d r rest Hf Hd).
  - exact (dec_ser D _ Hw Hs f d r rest Hf Hd).
  - exact (dec_ser D _ Hw Hs f d r rest Hf Hd).
  - exact (dec_ser D _ Hw Hs f d r rest Hf Hd).
  - (* TArr *)
    destruct f as [| f']; [exfalso; lia |].
    cbn [ser twf lib_supports_ft data_of go_of_ft tdepth_ft] in *. destruct Hw as [Hw Hwl]. destruct Hs as [Hsl Hlen].
    apply fix_Forall in Hwl. apply fix_Forall in Hsl.
    assert (Hok : Forall (dec_ok_ft D) l).
    { rewrite Forall_forall in *. intros x Hx. apply H; auto. }
    rewrite shead_cons. rewrite <- app_assoc. cbn [app]. rewrite dec_S. unfold dec_body.
    pose proof (ai_of_le _ _ Hw). rewrite kind_head by lia. rewrite (proj1 (proj2 (proj2 (proj2 (proj2 kind_vals))))). cbv iota.
    rewrite (head_neq 4 _ bdIndefArray) by (assumption || reflexivity).
    rewrite hd_mod by lia.
    erewrite fst_bindI by (rewrite fst_liftI; apply dec_len_head; assumption). cbv beta iota.
    pose proof (fold_max_nonneg (tdepth_ft D) l) as Hnn.
    replace (depth_ok D d) with true by (symmetry; unfold depth_ok; apply Z.ltb_lt; lia).
    rewrite app_length, shead_cons in Hf. cbn [length] in Hf.
    erewrite fst_bindI by (apply arr_def_ser_ft; [assumption | lia | lia]). cbv beta iota.
    rewrite map_map. reflexivity.
  - (* TArrI *)
    destruct f as [| f']; [exfalso; lia |].
    cbn [ser twf lib_supports_ft data_of go_of_ft tdepth_ft] in *. destruct Hs as [Hsl Hlen].
    apply fix_Forall in Hw. apply fix_Forall in Hsl.
    assert (Hok : Forall (dec_ok_ft D) l).
    { rewrite Forall_forall in *. intros x Hx. apply H; auto. }
    cbn [app]. rewrite dec_S. unfold dec_body.
    change (kind_of 159) with KArr. cbv iota. change (159 =? bdIndefArray) with true. cbv iota.
    pose proof (fold_max_nonneg (tdepth_ft D) l) as Hnn.
    replace (depth_ok D d) with true by (symmetry; unfold depth_ok; apply Z.ltb_lt; lia).
    rewrite !app_length in Hf. cbn [length] in Hf. rewrite <- app_assoc. cbn [app].
    erewrite fst_bindI by (apply arr_indef_ser_ft; [assumption | assumption | lia | lia]). cbv beta iota.
    rewrite map_map. reflexivity.
  - (* TMap *)
    destruct f as [| f']; [exfalso; lia |].
    cbn [ser twf lib_supports_ft data_of go_of_ft tdepth_ft] in *. destruct Hw as [Hw Hwl]. destruct Hs as (Hsl & Hkeys & Hlen).
    apply fix_Forall2 in Hwl. apply fix_Forall2 in Hsl.
    assert (Hok : Forall (fun kv => dec_ok_ft D (fst kv) /\ dec_ok_ft D (snd kv)) l).
    { rewrite Forall_forall in *. intros x Hx. specialize (H x Hx). specialize (Hwl x Hx). specialize (Hsl x Hx). split; [apply (proj1 H) | apply (proj2 H)]; tauto. }
    rewrite shead_cons. rewrite <- app_assoc. cbn [app]. rewrite dec_S. unfold dec_body.
    pose proof (ai_of_le _ _ Hw). rewrite kind_head by lia. rewrite (proj1 (proj2 (proj2 (proj2 (proj2 (proj2 kind_vals)))))). cbv iota.
    rewrite (head_neq 5 _ bdIndefMap) by (assumption || reflexivity).
    rewrite hd_mod by lia.
    erewrite fst_bindI by (rewrite fst_liftI; apply dec_len_head; assumption). cbv beta iota.
    pose proof (fold_max_nonneg (fun kv => Z.max (tdepth_ft D (fst kv)) (tdepth_ft D (snd kv))) l) as Hnn.
    replace (depth_ok D d) with true by (symmetry; unfold depth_ok; apply Z.ltb_lt; lia).
    rewrite app_length, shead_cons in Hf. cbn [length] in Hf.
    change (flat_map (fun kv => ser (fst kv) ++ ser (snd kv)) l) with (flat_map pair_ser l) in *.
    erewrite fst_bindI by (apply map_def_ser_ft; [assumption | assumption | lia | exact ltac:(unfold pair_depth_ft; lia) | assumption]).
    cbv beta iota. rewrite map_map. reflexivity.
  - (* TMapI *)
    destruct f as [| f']; [exfalso; lia |].
    cbn [ser twf lib_supports_ft data_of go_of_ft tdepth_ft] in *. destruct Hs as (Hsl & Hkeys & Hlen).
    apply fix_Forall2 in Hw. apply fix_Forall2 in Hsl.
    assert (Hok : Forall (fun kv => dec_ok_ft D (fst kv) /\ dec_ok_ft D (snd kv)) l).
    { rewrite Forall_forall in *. intros x Hx. specialize (H x Hx). specialize (Hw x Hx). specialize (Hsl x Hx). split; [apply (proj1 H) | apply (proj2 H)]; tauto. }
    cbn [app]. rewrite dec_S. unfold dec_body.
    change (kind_of 191) with KMap. cbv iota. change (191 =? bdIndefMap) with true. cbv iota.
    pose proof (fold_max_nonneg (fun kv => Z.max (tdepth_ft D (fst kv)) (tdepth_ft D (snd kv))) l) as Hnn.
    replace (depth_ok D d) with true by (symmetry; unfold depth_ok; apply Z.ltb_lt; lia).
    rewrite !app_length in Hf. cbn [length] in Hf. rewrite <- app_assoc. cbn [app].
    change (flat_map (fun kv => ser (fst kv) ++ ser (snd kv)) l) with (flat_map pair_ser l) in *.
    erewrite fst_bindI by (apply map_indef_ser_ft; [assumption | assumption | lia | exact ltac:(unfold pair_depth_ft; lia) | assumption]).
    cbv beta iota. rewrite map_map. reflexivity.
  - (* TTag *)
    destruct f as [| f']; [exfalso; lia |].
    cbn [ser twf lib_supports_ft data_of go_of_ft tdepth_ft] in *. destruct Hw as [Hw Hwv].
    rewrite shead_cons. rewrite <- app_assoc. cbn [app]. rewrite dec_S. unfold dec_body.
    pose proof (ai_of_le _ _ Hw). rewrite kind_head by lia.
    rewrite (proj1 (proj2 (proj2 (proj2 (proj2 (proj2 (proj2 kind_vals))))))). cbv iota.
    rewrite hd_mod by lia.
    erewrite fst_bindI by (rewrite fst_liftI; apply read_uint_head; assumption). cbv beta iota.
    rewrite app_length, shead_cons in Hf. cbn [length] in Hf.
    destruct Hs as [[Ht Hsv] | [(Ht & Hsv & Htx) | (Ht & x & i & Hx & Hi)]].
    + replace (t =? 0) with false in * by (symmetry; apply N.eqb_neq; lia).
      replace (t =? 1) with false in * by (symmetry; apply N.eqb_neq; lia). cbn [orb] in Hd.
      rewrite dec_tag_plain by assumption.
      pose proof (tdepth_ft_nonneg D t0) as Hnn.
      destruct ((t =? 55799) || do_skiptags D).
      * apply IHt; [assumption | assumption | lia | lia].
      * replace (depth_ok D d) with true by (symmetry; unfold depth_ok; apply Z.ltb_lt; lia).
        erewrite fst_bindI by (apply IHt; [assumption | assumption | lia | lia]). reflexivity.
    + subst t. unfold dec_tag. cbn [N.eqb]. rewrite fst_liftI.
      destruct (text_of t0) as [s |] eqn:Etx; [| contradiction]. destruct Htx as [i Hi].
      rewrite (dec_bytes_fresh_str D t0 s f' rest Hwv Hsv Etx) by lia. cbn [bind].
      rewrite Hi. cbn [bind].
      rewrite (text_of_data t0 s Etx). unfold time_item. rewrite Hi. reflexivity.
    + subst t. unfold dec_tag. change (1 =? 0) with false. change (1 =? 1) with true. cbv iota. rewrite fst_liftI.
      pose proof (ser_len_pos t0) as Hp.
      rewrite (dec_float64_ser D t0 x f' rest Hwv Hx) by lia. cbn [bind]. rewrite Hi. cbn [bind].
      unfold ftime_item. rewrite Hx, Hi. reflexivity.
  - exact (dec_ser D _ Hw Hs f d r rest Hf Hd).
  - exact (dec_ser D _ Hw Hs f d r rest Hf Hd).
  - exact (dec_ser D _ Hw Hs f d r rest Hf Hd).
  - exact (dec_ser D _ Hw Hs f d r rest Hf Hd).
  - exact (dec_ser D _ Hw Hs f d r rest Hf Hd).
Qed.

Lemma cbor_in_ft_lemma : forall (D : dopts) (t : wtree) (rest : list N),
  twf t -> lib_supports_ft D t -> (tdepth_ft D t < maxdepth D)%Z ->
  dec_naked D (fuel_for (ser t ++ rest)) (ser t ++ rest) = Ok (go_of_ft D (data_of t), rest).
Proof.
  intros. unfold dec_naked. apply dec_ser_ft; try assumption.
  all: try (unfold fuel_for; rewrite app_length; lia).
  all: lia.
Qed.

(* ------------------------------------------------------------------ *)
(* floats as values *)
Lemma fval_fnorm : forall v, fval_data (fnorm v) = fval_data v.
Proof.
  destruct v; try reflexivity. cbn [fnorm].
  destruct (prec =? 16) eqn:E1; [cbn [fval_data]; rewrite E1; reflexivity |].
  destruct (prec =? 32) eqn:E2; [cbn [fval_data]; rewrite E1, E2; reflexivity | reflexivity].
Qed.

Lemma go_of_ft_fnorm : forall D x, go_of_ft D (fnorm x) = go_of_ft D x.
Proof.
  intros D x. induction x using sdata_ind'.
  - destruct x; try contradiction; try reflexivity.
    cbn [fnorm]. destruct (prec =? 16) eqn:E1; [cbn [go_of_ft]; rewrite E1; reflexivity |].
    destruct (prec =? 32) eqn:E2; [cbn [go_of_ft]; rewrite E1, E2; reflexivity | reflexivity].
  - cbn [fnorm go_of_ft]. rewrite map_map. f_equal. apply map_ext_in. intros y Hy. rewrite Forall_forall in H. apply H; assumption.
  - cbn [fnorm go_of_ft]. rewrite map_map. f_equal. apply map_ext_in. intros kv Hkv. rewrite Forall_forall in H.
    destruct (H kv Hkv) as [H1 H2]. cbn [fst snd]. rewrite H1, H2. reflexivity.
  - cbn [fnorm go_of_ft]. rewrite IHx. destruct (t =? 0).
    + destruct x; try reflexivity. cbn [fnorm].
      destruct (prec =? 16); [reflexivity |]. destruct (prec =? 32); reflexivity.
    + destruct (t =? 1); [| reflexivity]. unfold ftime_item. rewrite fval_fnorm. reflexivity.
Qed.

Lemma dec_enc_ft_lemma : forall (O : eopts) (D : dopts) (i : item) (rest : list N),
  wf i -> plain i -> lib_supports_ft D (tree_of O i) -> (tdepth_ft D (tree_of O i) < maxdepth D)%Z ->
  dec_naked D (fuel_for (enc O i ++ rest)) (enc O i ++ rest) = Ok (norm_ft O D i, rest).
Proof.
  intros O D i rest Hw Hp Hs Hd. rewrite enc_ser by assumption. unfold norm_ft.
  rewrite <- (go_of_ft_fnorm D (sdata_of O i)), <- tree_of_data by assumption. rewrite go_of_ft_fnorm.
  apply cbor_in_ft_lemma; try assumption. apply tree_of_twf; assumption.
Qed.

(* ------------------------------------------------------------------ *)
(* everything the [_t] vocabulary admits is admitted, with the same result and the same depth *)
Lemma keys_compat_ft : forall D l,
  (forall kv, In kv l -> go_of_ft D (data_of (fst kv)) = go_of_t D (data_of (fst kv))) ->
  forall seen, keys_ok_t D seen l -> keys_ok_ft D seen l.
Proof.
  intros D l. induction l as [| kv l IH]; intros He seen H; [exact I |].
  cbn [keys_ok_t keys_ok_ft] in *. rewrite He by (left; reflexivity). destruct H as (H1 & H2 & H3).
  repeat split; try assumption. apply IH; [intros; apply He; right; assumption | assumption].
Qed.

Theorem compat_ft : forall D t, lib_supports_t D t ->
  lib_supports_ft D t /\ go_of_ft D (data_of t) = go_of_t D (data_of t) /\ tdepth_ft D t = tdepth_t D t.
Proof.
  intros D t. induction t using wtree_ind'; intros Hs;
    try (cbn [lib_supports_t lib_supports_ft data_of go_of_t go_of_ft tdepth_t tdepth_ft] in *; repeat split; (assumption || reflexivity)).
  - (* TArr *)
    cbn [lib_supports_t] in Hs. destruct Hs as [Hsl Hlen]. apply fix_Forall in Hsl.
    assert (A : forall x, In x l -> lib_supports_ft D x /\ go_of_ft D (data_of x) = go_of_t D (data_of x) /\ tdepth_ft D x = tdepth_t D x).
    { rewrite Forall_forall in *. intros x Hx. apply H; auto. }
    cbn [lib_supports_ft data_of go_of_t go_of_ft tdepth_t tdepth_ft]. repeat split.
    + apply fix_Forall. apply Forall_forall. intros x Hx. apply A; assumption.
    + assumption.
    + f_equal. rewrite !map_map. apply map_ext_in. intros x Hx. apply A; assumption.
    + f_equal. apply fold_max_ext. intros x Hx. apply A; assumption.
  - (* TArrI *)
    cbn [lib_supports_t] in Hs. destruct Hs as [Hsl Hlen]. apply fix_Forall in Hsl.
    assert (A : forall x, In x l -> lib_supports_ft D x /\ go_of_ft D (data_of x) = go_of_t D (data_of x) /\ tdepth_ft D x = tdepth_t D x).
    { rewrite Forall_forall in *. intros x Hx. apply H; auto. }
    cbn [lib_supports_ft data_of go_of_t go_of_ft tdepth_t tdepth_ft]. repeat split.
    + apply fix_Forall. apply Forall_forall. intros x Hx. apply A; assumption.
    + assumption.
    + f_equal. rewrite !map_map. apply map_ext_in. intros x Hx. apply A; assumption.
    + f_equal. apply fold_max_ext. intros x Hx. apply A; assumption.
  - (* TMap *)
    cbn [lib_supports_t] in Hs. destruct Hs as (Hsl & Hkeys & Hlen). apply fix_Forall2 in Hsl.
    assert (A : forall kv, In kv l ->
      (lib_supports_ft D (fst kv) /\ go_of_ft D (data_of (fst kv)) = go_of_t D (data_of (fst kv)) /\ tdepth_ft D (fst kv) = tdepth_t D (fst kv)) /\
      (lib_supports_ft D (snd kv) /\ go_of_ft D (data_of (snd kv)) = go_of_t D (data_of (snd kv)) /\ tdepth_ft D (snd kv) = tdepth_t D (snd kv))).
    { rewrite Forall_forall in *. intros kv Hkv. destruct (H kv Hkv) as [H1 H2]. destruct (Hsl kv Hkv). split; auto. }
    cbn [lib_supports_ft data_of go_of_t go_of_ft tdepth_t tdepth_ft]. repeat split.
    + apply fix_Forall2. apply Forall_forall. intros kv Hkv. destruct (A kv Hkv) as [(? & _) (? & _)]. split; assumption.
    + apply keys_compat_ft; [intros kv Hkv; apply (A kv Hkv) | assumption].
    + assumption.
    + f_equal. rewrite !map_map. apply map_ext_in. intros kv Hkv. cbn [fst snd].
      destruct (A kv Hkv) as [(_ & E1 & _) (_ & E2 & _)]. rewrite E1, E2. reflexivity.
    + f_equal. apply (fold_max_ext (fun kv => Z.max (tdepth_ft D (fst kv)) (tdepth_ft D (snd kv))) (fun kv => Z.max (tdepth_t D (fst kv)) (tdepth_t D (snd kv)))).
      intros kv Hkv. destruct (A kv Hkv) as [(_ & _ & E1) (_ & _ & E2)]. rewrite E1, E2. reflexivity.
  - (* TMapI *)
    cbn [lib_supports_t] in Hs. destruct Hs as (Hsl & Hkeys & Hlen). apply fix_Forall2 in Hsl.
    assert (A : forall kv, In kv l ->
      (lib_supports_ft D (fst kv) /\ go_of_ft D (data_of (fst kv)) = go_of_t D (data_of (fst kv)) /\ tdepth_ft D (fst kv) = tdepth_t D (fst kv)) /\
      (lib_supports_ft D (snd kv) /\ go_of_ft D (data_of (snd kv)) = go_of_t D (data_of (snd kv)) /\ tdepth_ft D (snd kv) = tdepth_t D (snd kv))).
    { rewrite Forall_forall in *. intros kv Hkv. destruct (H kv Hkv) as [H1 H2]. destruct (Hsl kv Hkv). split; auto. }
    cbn [lib_supports_ft data_of go_of_t go_of_ft tdepth_t tdepth_ft]. repeat split.
    + apply fix_Forall2. apply Forall_forall. intros kv Hkv. destruct (A kv Hkv) as [(? & _) (? & _)]. split; assumption.
    + apply keys_compat_ft; [intros kv Hkv; apply (A kv Hkv) | assumption].
    + assumption.
    + f_equal. rewrite !map_map. apply map_ext_in. intros kv Hkv. cbn [fst snd].
      destruct (A kv Hkv) as [(_ & E1 & _) (_ & E2 & _)]. rewrite E1, E2. reflexivity.
    + f_equal. apply (fold_max_ext (fun kv => Z.max (tdepth_ft D (fst kv)) (tdepth_ft D (snd kv))) (fun kv => Z.max (tdepth_t D (fst kv)) (tdepth_t D (snd kv)))).
      intros kv Hkv. destruct (A kv Hkv) as [(_ & _ & E1) (_ & _ & E2)]. rewrite E1, E2. reflexivity.
  - (* TTag *)
    cbn [lib_supports_t] in Hs. destruct Hs as [[Ht Hsv] | (Ht & Hsv & Htx)].
    + destruct (IHt Hsv) as (I1 & I2 & I3).
      cbn [lib_supports_ft data_of go_of_t go_of_ft tdepth_t tdepth_ft].
      replace (t =? 0) with false by (symmetry; apply N.eqb_neq; lia).
      replace (t =? 1) with false by (symmetry; apply N.eqb_neq; lia). cbn [orb].
      rewrite I2, I3. repeat split. left. split; assumption.
    + subst t. cbn [lib_supports_ft data_of go_of_t go_of_ft tdepth_t tdepth_ft N.eqb orb]. repeat split.
      right. left. repeat split; assumption.
Qed.

Lemma norm_ft_norm_t : forall (O : eopts) (D : dopts) (i : item), wf i -> plain i ->
  lib_supports_t D (tree_of O i) -> norm_ft O D i = norm_t O D i.
Proof.
  intros O D i Hw Hp Hs. unfold norm_ft, norm_t. destruct (compat_ft D _ Hs) as (_ & C2 & _).
  rewrite <- (go_of_ft_fnorm D (sdata_of O i)), <- (go_of_t_fnorm D (sdata_of O i)).
  rewrite <- tree_of_data by assumption. rewrite go_of_ft_fnorm, go_of_t_fnorm. exact C2.
Qed.

(* ------------------------------------------------------------------ *)
(* a time.Time written in the epoch form *)

(* the float64 the decoder makes of what the encoder wrote for the instant (sec, nsec), nsec < 1e9:
   the microsecond-rounded instant (s1, n1); an integer s1 when n1 = 0, else s1 + n1/1e9 in binary64 *)
Definition epoch_f64 (sec : Z) (nsec : N) : N :=
  let '(s1, n1) := round_us sec nsec in
  if n1 =? 0 then f64_of_Z s1
  else f64_add (f64_of_Z s1) (f64_div (f64_of_Z (Z.of_N n1)) f64_1e9).

Lemma round_us_sec : forall s n, (fst (round_us s n) = s \/ fst (round_us s n) = s + 1)%Z.
Proof.
  intros s n. unfold round_us. cbv zeta.
  match goal with |- context [if ?c then ((s + 1)%Z, 0) else _] => destruct c end; cbn [fst]; [right | left]; reflexivity.
Qed.

Lemma fval_int_data : forall z, (- 9223372036854775808 <= z < 9223372036854775808)%Z ->
  fval_data (int_data z) = Some (f64_of_Z z).
Proof.
  intros z Hz. unfold int_data. destruct (z <? 0)%Z eqn:E.
  - apply Z.ltb_lt in E. cbn [fval_data].
    replace (Z.to_N (-1 - z) <? 9223372036854775808) with true by (symmetry; apply N.ltb_lt; lia).
    f_equal. f_equal. lia.
  - apply Z.ltb_ge in E. cbn [fval_data]. f_equal. unfold f64_of_Z.
    replace (z <? 0)%Z with false by (symmetry; apply Z.ltb_ge; exact E). cbn [sign64].
    rewrite Z.abs_eq by exact E. reflexivity.
Qed.

Lemma time_epoch_lemma : forall (O : eopts) (D : dopts) (s : Z) (n : N) (i : item),
  eo_rfc3339 O = false -> n < 1000000000 -> (- 9223372036854775808 <= s < 9223372036854775807)%Z ->
  time_of_float (epoch_f64 s n) = Ok i ->
  lib_supports_ft D (tree_of O (ITime s n)) /\ tdepth_ft D (tree_of O (ITime s n)) = 0%Z /\
  norm_ft O D (ITime s n) = (if (s =? zero_time_sec)%Z && (n =? 0) then INil else i).
Proof.
  intros O D s n i Hr Hn Hs Hi.
  pose proof (tree_of_data O (ITime s n) Hn Hs) as Htd.
  unfold norm_ft. cbn [tree_of sdata_of] in *. unfold time_tree in *.
  destruct ((s =? zero_time_sec)%Z && (n =? 0)).
  - cbn. repeat split. lia.
  - rewrite Hr in *. unfold epoch_f64 in Hi. pose proof (round_us_sec s n) as Hs1.
    destruct (round_us s n) as [s1 n1] eqn:Er. cbn [fst] in Hs1.
    cbn [data_of fnorm] in Htd. injection Htd as Htd.
    assert (Hv : fval_data (data_of (if n1 =? 0 then int_tree s1
                   else f64_tree O (f64_add (f64_of_Z s1) (f64_div (f64_of_Z (Z.of_N n1)) f64_1e9))))
                 = Some (if n1 =? 0 then f64_of_Z s1 else f64_add (f64_of_Z s1) (f64_div (f64_of_Z (Z.of_N n1)) f64_1e9))).
    { rewrite <- fval_fnorm, Htd, fval_fnorm. destruct (n1 =? 0); [apply fval_int_data; lia | reflexivity]. }
    cbn [lib_supports_ft tdepth_ft go_of_ft]. change (1 =? 0) with false. change (1 =? 1) with true. cbn [orb]. cbv iota.
    repeat split.
    + right. right. split; [reflexivity |]. eexists. exists i. split; [exact Hv | exact Hi].
    + unfold ftime_item. destruct (n1 =? 0).
      * rewrite fval_int_data by lia. rewrite Hi. reflexivity.
      * cbn [fval_data]. change (64 =? 16) with false. change (64 =? 32) with false. cbv iota. rewrite Hi. reflexivity.
Qed.

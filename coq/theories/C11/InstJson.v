(* C11/InstJson — the json wire model (Wire/Json.v) as an instance of C11/Seq.v [fmt], and its
   per-value laws from the json wire lemmas (Wire/JsonRT.v rt_all = W_json_dec_enc from any tokenizer
   state; Wire/JsonSkip.v nvb_enc_lemma = W_json_skip_enc).

   The Decoder configuration is the tokenizer state [st]: the pending token d.tok (the per-instance
   state: after a bare number the byte that ended it has already been read and is kept there) and
   the unread input.  One Encode call writes [enc_top] = the value's text followed by the
   TermWhitespace byte if that option is on; Decode(&Raw) holds the value's text alone ([rawf]).
   [slack] = 1: after a call the configuration is within one byte of the exact position - the
   TermWhitespace byte may still be unread (one behind), or the byte after a bare number may have
   been consumed as the pending token (one ahead).

   Everything here assumes [leaf_laws L] (the lexical laws of string / float / time texts: property
   C09's domain), exactly as the json wire theorems do. *)
From Coq Require Import List NArith ZArith Lia Arith Bool.
From Verif Require Import Base.Outcome Wire.Item C11.Seq.
From Verif Require Import Wire.Json Wire.JsonRT Wire.JsonSkip.
Import ListNotations.

Definition F (L : leaf) (o : eopts) (D : dopts) : fmt := {|
  est := unit;
  cfg := st;
  encf := fun i e => (enc_top L o i, e);
  decf := fun s => decode1 L D s;
  skipf := fun s => nvb s;
  rawf := fun i _ => enc_at L o false 0 i;
  normf := norm L o D false;
  rem := fun s => length (inp s) |}.

(* the tokenizer presents exactly [tl] (leading white space aside) and is within one byte of it *)
Definition at_ (_ : unit) (s : st) (tl : list N) : Prop :=
  advance s = advance (mkst 0 tl) /\ (length tl - 1 <= length (inp s) <= length tl + 1)%nat.

(* a value json can carry, nested below MaxDepth; a bare number must be followed by something that ends
   it (the TermWhitespace byte, or a non-number byte of what follows, or the end of the input) *)
Definition ok (L : leaf) (o : eopts) (D : dopts) (i : item) (_ : unit) (tl : list N) : Prop :=
  jwf L o D false i /\ (Z.of_nat (depth i) < maxdepth D)%Z /\ delim_ok (isnum L o false i) (term o ++ tl).

Lemma term_ws : forall o, forallb isws (term o) = true.
Proof. intro o. unfold term. destruct (termWs o); reflexivity. Qed.

Lemma term_len : forall o, (length (term o) <= 1)%nat.
Proof. intro o. unfold term. destruct (termWs o); cbn; lia. Qed.

Lemma after_at : forall o num tl,
  advance (after num (term o ++ tl)) = advance (mkst 0 tl)
  /\ (length tl - 1 <= length (inp (after num (term o ++ tl))) <= length tl + 1)%nat.
Proof.
  intros o num tl. split.
  - rewrite adv_after. change (advance (mkst 0 (term o ++ tl))) with (skipws (term o ++ tl)).
    rewrite skipws_app by apply term_ws. reflexivity.
  - pose proof (term_len o) as Ht. destruct num; cbn [after].
    + destruct (term o ++ tl) as [|b r] eqn:E.
      * apply app_eq_nil in E. destruct E as [_ ->]. cbn. lia.
      * cbn [inp]. assert (Hl : length (term o ++ tl) = S (length r)) by (rewrite E; reflexivity).
        rewrite app_length in Hl. lia.
    + cbn [inp]. rewrite app_length. lia.
Qed.

Lemma laws_ok : forall (L : leaf), leaf_laws L -> forall o D, laws (F L o D) at_ (ok L o D) 1.
Proof.
  intros L LL o D. split.
  - intros v e s tl (Hw & Hdp & Hd) [Hadv Hlen]. cbn [encf F fst snd] in *.
    assert (Htop : enc_top L o v = enc_at L o false 0 v ++ term o) by reflexivity.
    rewrite Htop, <- app_assoc in Hadv, Hlen.
    exists (after (isnum L o false v) (term o ++ tl)). repeat apply conj.
    + cbn [decf F normf]. unfold decode1.
      apply (rt_all L LL v o D false 0%N (dec_fuel s) 0%Z s (term o ++ tl)); auto; try discriminate.
      pose proof (need_len L LL v o D false 0%N Hw) as Hn.
      rewrite app_length in Hlen. unfold dec_fuel, pending.
      destruct (enc_hd L LL o D false 0%N v Hw) as (c & e' & He & _). rewrite He in *. cbn [length] in *. lia.
    + cbn [skipf F rawf]. exact (nvb_enc_lemma L LL o D false 0%N v s (term o ++ tl) Hw Hadv Hd).
    + exact (proj1 (after_at o (isnum L o false v) tl)).
    + exact (proj1 (proj2 (after_at o (isnum L o false v) tl))).
    + exact (proj2 (proj2 (after_at o (isnum L o false v) tl))).
  - intros e s tl [_ H]. cbn [rem F]. exact H.
Qed.

(* C11/SeqFT — the cbor wire model with the decode law of C11/CborFT.v (times in the epoch form, tag 1,
   admitted wherever they occur) as an instance of C11/Seq.v, its per-value laws, the extent / raw / sequence
   lemmas behind C11_cbor_extent_floattime, C11_cbor_raw_redecode_floattime, C11_cbor_seq_floattime, and the
   premises for a time (C11_cbor_floattime_admitted). *)
From Coq Require Import List NArith ZArith Lia Arith Bool.
From Verif Require Import Base.Outcome Wire.Item C11.Seq C11.Inst C11.Proofs.
From Verif Require Import Wire.CborFloat Wire.Cbor C10.CborSpec C10.CborConv Wire.CborProofs Wire.CborEnc C11.CborFT.
Import ListNotations.

Definition Fft (O : eopts) (D : dopts) (d : Z) : fmt := {|
  est := unit;
  cfg := list N;
  encf := fun i e => (enc O i, e);
  decf := fun b => dec_naked D (fuel_for b) b;
  skipf := fun b => capture b (skip D (fuel_for b) d b);
  rawf := fun i _ => enc O i;
  normf := norm_ft O D;
  rem := @length N |}.

Definition ok_ft (O : eopts) (D : dopts) (d : Z) (i : item) (_ : unit) (_ : list N) : Prop :=
  wf i /\ plain i /\ lib_supports_ft D (tree_of O i) /\ (tdepth_ft D (tree_of O i) < maxdepth D)%Z
  /\ (d + sdepth (tree_of O i) < maxdepth D)%Z.

Lemma laws_ok_ft : forall O D d, laws (Fft O D d) at_plain (ok_ft O D d) 0.
Proof.
  intros O D d. split.
  - intros v e c tl (Hwf & Hpl & Hsup & Hdep & Hsd) Hat. red in Hat. subst c. cbn [encf Fft fst snd].
    exists tl. repeat apply conj.
    + cbn [decf Fft normf]. apply dec_enc_ft_lemma; assumption.
    + cbn [skipf Fft rawf]. rewrite (skip_enc_lemma O D v d tl Hwf Hpl Hsd). apply capture_app.
    + reflexivity.
  - intros e c tl H. exact (rem_plain e c tl H).
Qed.

Lemma cbor_extent_ft_lemma : forall (O : eopts) (D : dopts) (i : item) (d : Z) (rest : list N),
  wf i -> plain i -> lib_supports_ft D (tree_of O i) -> (tdepth_ft D (tree_of O i) < maxdepth D)%Z ->
  (d + sdepth (tree_of O i) < maxdepth D)%Z ->
  dec_naked D (fuel_for (enc O i ++ rest)) (enc O i ++ rest) = Ok (norm_ft O D i, rest)
  /\ skip D (fuel_for (enc O i ++ rest)) d (enc O i ++ rest) = Ok rest.
Proof.
  intros O D i d rest Hw Hp Hs Ht Hd. split.
  - apply dec_enc_ft_lemma; assumption.
  - apply skip_enc_lemma; assumption.
Qed.

Lemma cbor_raw_redecode_ft_lemma : forall (O : eopts) (D : dopts) (i : item) (d : Z) (rest rest' : list N) (b : list N),
  wf i -> plain i -> lib_supports_ft D (tree_of O i) -> (tdepth_ft D (tree_of O i) < maxdepth D)%Z ->
  capture (enc O i ++ rest) (skip D (fuel_for (enc O i ++ rest)) d (enc O i ++ rest)) = Ok (b, rest) ->
  (d + sdepth (tree_of O i) < maxdepth D)%Z ->
  dec_naked D (fuel_for (b ++ rest')) (b ++ rest') = Ok (norm_ft O D i, rest').
Proof.
  intros O D i d rest rest' b Hw Hp Hs Ht Hc Hd.
  rewrite (cbor_raw_lemma O D i d rest Hw Hp Hd) in Hc. injection Hc as <-.
  apply dec_enc_ft_lemma; assumption.
Qed.

Lemma cbor_seq_ft_lemma : forall (O : eopts) (D : dopts) (d : Z) (TY V : Type) (typed : TY -> item -> V)
    (vs : list item) (ms : list (mode TY)) (tl : list N),
  length ms = length vs -> Seq.ok_seq (Fft O D d) (ok_ft O D d) vs tt tl ->
  exists ns,
    Seq.dec_seq (Fft O D d) TY V typed ms (Seq.bytes_seq (Fft O D d) vs tt ++ tl)
      = Ok (Seq.project (Fft O D d) TY V typed ms vs tt, ns, tl)
    /\ map (fun r => length (Seq.bytes_seq (Fft O D d) vs tt ++ tl) - r)%nat ns
       = Seq.prefix_sums 0 (map (@length N) (fst (Seq.enc_seq (Fft O D d) vs tt))).
Proof.
  intros O D d TY V typed vs ms tl Hl Hok.
  destruct (seq_exact0 (Fft O D d) TY V typed at_plain (ok_ft O D d) (laws_ok_ft O D d)
              vs ms tt (Seq.bytes_seq (Fft O D d) vs tt ++ tl) tl Hl Hok eq_refl) as [ns [c' [H1 [H2 H3]]]].
  red in H3. subst c'. exists ns. split; assumption.
Qed.

(* everything C11_cbor_seq admits is admitted here, with the same decoded value *)
Lemma ok_t_ok_ft : forall O D d i e tl, CborI.ok_t O D d i e tl ->
  ok_ft O D d i e tl /\ norm_ft O D i = norm_t O D i.
Proof.
  intros O D d i e tl (Hw & Hp & Hs & Hd & Hsd). destruct (compat_ft D _ Hs) as (C1 & _ & C3).
  split; [| apply norm_ft_norm_t; assumption].
  unfold ok_ft. rewrite C3. repeat split; assumption.
Qed.

Local Open Scope N_scope.

(* a time written in the epoch form meets the premises, at any entry depth with one level to spare for the
   walker (which counts the tag), provided the library accepts the float it reads *)
Lemma cbor_time_ok_ft : forall (O : eopts) (D : dopts) (d : Z) (s : Z) (n : N) (i : item) (e : unit) (tl : list N),
  eo_rfc3339 O = false -> n < 1000000000 ->
  (- 9223372036854775808 <= s < 9223372036854775807)%Z -> (0 <= d)%Z -> (d + 1 < maxdepth D)%Z ->
  time_of_float (epoch_f64 s n) = Ok i ->
  ok_ft O D d (ITime s n) e tl /\
  norm_ft O D (ITime s n) = (if (s =? zero_time_sec)%Z && (n =? 0) then INil else i).
Proof.
  intros O D d s n i e tl Hr Hn Hs Hd0 Hd Hi.
  destruct (time_epoch_lemma O D s n i Hr Hn Hs Hi) as (H1 & H2 & H3).
  split; [| exact H3].
  unfold ok_ft. split; [| split; [| split; [| split]]].
  - cbn [wf]. exact Hn.
  - cbn [plain]. exact Hs.
  - exact H1.
  - rewrite H2. lia.
  - assert (Hsd : (sdepth (tree_of O (ITime s n)) <= 1)%Z).
    { cbn [tree_of]. unfold time_tree. destruct (andb (s =? zero_time_sec)%Z (n =? 0)%N); [cbn; lia |]. rewrite Hr.
      destruct (round_us s n) as [s1 n1]. cbn [sdepth].
      destruct (n1 =? 0).
      - unfold int_tree. destruct (s1 <? 0)%Z; cbn [sdepth]; lia.
      - unfold f64_tree, f32_tree. repeat match goal with |- context [if ?c then _ else _] => destruct c end; cbn [sdepth]; lia. }
    lia.
Qed.

(* C11/Inst — the wire models as instances of C11/Seq.v [fmt], and the per-format laws
   obtained from the wire theorems (Properties/C10_cbor.v, C10_msgpack.v, W_simple.v, W_binc.v).

   For cbor, msgpack and binc the wire model's walker returns what is left; the bytes
   nextValueBytes hands back (Decode(&Raw), decoder.rawBytes) are the bytes it walked over, i.e.
   the prefix of the input of that length ([capture]: bytesDecReader.stopRecording is
   z.b[z.r:z.c]).  simple's model has the recording explicit ([Simple.raw]). *)
From Coq Require Import List NArith ZArith Lia Arith.
From Verif Require Import Base.Outcome Wire.Item C11.Seq.
From Verif Require Wire.Cbor C10.CborSpec C10.CborConv Wire.CborProofs Wire.CborEnc.
From Verif Require Wire.Msgpack Wire.MsgpackProofs Wire.MsgpackRT.
From Verif Require Wire.Simple Wire.SimpleProofs Wire.SimpleSkip.
From Verif Require Wire.Binc Wire.BincProofs.
Import ListNotations.

(* what the recording holds when the walker, started on [b], leaves [rest] *)
Definition capture (b : list N) (r : res (list N)) : res (list N * list N) :=
  do rest <- r ;; Ok (firstn (length b - length rest) b, rest).

Lemma capture_app : forall a tl, capture (a ++ tl) (Ok tl) = Ok (a, tl).
Proof.
  intros a tl. unfold capture. cbn [bind]. rewrite app_length.
  replace (length a + length tl - length tl)%nat with (length a + 0)%nat by lia.
  rewrite firstn_app_2. cbn [firstn]. rewrite app_nil_r. reflexivity.
Qed.

(* stateless formats: the configuration is the unread input *)
Definition at_plain (_ : unit) (c tl : list N) : Prop := c = tl.

Lemma rem_plain : forall (e : unit) (c tl : list N), at_plain e c tl -> (length tl - 0 <= length c <= length tl + 0)%nat.
Proof. intros e c tl H. red in H. subst. lia. Qed.

(* ------------------------------------------------------------------ *)
(* cbor *)
Module CborI.
  Import Wire.Cbor C10.CborSpec C10.CborConv Wire.CborProofs Wire.CborEnc.

  (* [d]: decoder depth where the walker is entered (0: Decode(&Raw); 1: unknown field of a struct) *)
  Definition F (O : eopts) (D : dopts) (d : Z) : fmt := {|
    est := unit;
    cfg := list N;
    encf := fun i e => (enc O i, e);
    decf := fun b => dec_naked D (fuel_for b) b;
    skipf := fun b => capture b (skip D (fuel_for b) d b);
    rawf := fun i _ => enc O i;
    normf := norm O D;
    rem := @length N |}.

  Definition ok (O : eopts) (D : dopts) (d : Z) (i : item) (_ : unit) (_ : list N) : Prop :=
    wf i /\ plain i /\ lib_supports D (tree_of O i) /\ (tdepth D (tree_of O i) < maxdepth D)%Z
    /\ (d + sdepth (tree_of O i) < maxdepth D)%Z.

  (* the same parsers with the extended decode law (Wcbor_dec_enc): [norm_t] / [lib_supports_t] / [tdepth_t]
     also admit times written in the RFC 3339 form (tag 0) wherever they occur *)
  Definition Ft (O : eopts) (D : dopts) (d : Z) : fmt := {|
    est := unit;
    cfg := list N;
    encf := fun i e => (enc O i, e);
    decf := fun b => dec_naked D (fuel_for b) b;
    skipf := fun b => capture b (skip D (fuel_for b) d b);
    rawf := fun i _ => enc O i;
    normf := norm_t O D;
    rem := @length N |}.

  Definition ok_t (O : eopts) (D : dopts) (d : Z) (i : item) (_ : unit) (_ : list N) : Prop :=
    wf i /\ plain i /\ lib_supports_t D (tree_of O i) /\ (tdepth_t D (tree_of O i) < maxdepth D)%Z
    /\ (d + sdepth (tree_of O i) < maxdepth D)%Z.

  Lemma laws_ok_t : forall O D d, laws (Ft O D d) at_plain (ok_t O D d) 0.
  Proof.
    intros O D d. split.
    - intros v e c tl (Hwf & Hpl & Hsup & Hdep & Hsd) Hat. red in Hat. subst c. cbn [encf Ft fst snd].
      exists tl. repeat apply conj.
      + cbn [decf Ft normf]. apply dec_enc_t_lemma; assumption.
      + cbn [skipf Ft rawf]. rewrite (skip_enc_lemma O D v d tl Hwf Hpl Hsd). apply capture_app.
      + reflexivity.
    - intros e c tl H. exact (rem_plain e c tl H).
  Qed.

  Lemma laws_ok : forall O D d, laws (F O D d) at_plain (ok O D d) 0.
  Proof.
    intros O D d. split.
    - intros v e c tl (Hwf & Hpl & Hsup & Hdep & Hsd) Hat. red in Hat. subst c. cbn [encf F fst snd].
      exists tl. repeat apply conj.
      + cbn [decf F normf]. apply dec_enc_lemma; assumption.
      + cbn [skipf F]. rewrite (skip_enc_lemma O D v d tl Hwf Hpl Hsd). apply capture_app.
      + reflexivity.
    - intros e c tl H. exact (rem_plain e c tl H).
  Qed.
End CborI.

(* ------------------------------------------------------------------ *)
(* msgpack *)
Module MsgpackI.
  Import Wire.Msgpack Wire.MsgpackProofs Wire.MsgpackRT.

  Definition F (O : eopts) (D : dopts) (d0 : Z) : fmt := {|
    est := unit;
    cfg := list N;
    encf := fun i e => (enc O i, e);
    decf := fun b => dec_naked D (dec_fuel b) b;
    skipf := fun b => capture b (skip_at D d0 (dec_fuel b) b);
    rawf := fun i _ => enc O i;
    normf := norm O D;
    rem := @length N |}.

  (* [goslice]: the input is a Go slice (its length fits an int); [sint_ok]: under SignedInteger no unsigned
     value >= 2^63 (its schema-less decode is the overflow error) *)
  Definition ok (O : eopts) (D : dopts) (d0 : Z) (i : item) (_ : unit) (tl : list N) : Prop :=
    supported i /\ sint_ok D i /\ (Z.of_nat (depth i) < maxdepth D)%Z /\ (d0 + Z.of_nat (depth i) < maxdepth D)%Z
    /\ goslice (len (enc O i ++ tl)).

  Lemma laws_ok : forall O D d0, laws (F O D d0) at_plain (ok O D d0) 0.
  Proof.
    intros O D d0. split.
    - intros v e c tl (Hs & Hi & Hd & Hd0 & Hg) Hat. red in Hat. subst c. cbn [encf F fst snd].
      exists tl. repeat apply conj.
      + cbn [decf F normf]. apply dec_enc; assumption.
      + cbn [skipf F]. rewrite (skip_enc O D v tl d0 Hs Hd0). apply capture_app.
      + reflexivity.
    - intros e c tl H. exact (rem_plain e c tl H).
  Qed.
End MsgpackI.

(* ------------------------------------------------------------------ *)
(* simple *)
Module SimpleI.
  Import Wire.Simple Wire.SimpleProofs Wire.SimpleSkip.

  Definition F (o : eopts) (D : dopts) : fmt := {|
    est := unit;
    cfg := list N;
    encf := fun i e => (enc o false i, e);
    decf := fun b => dec_naked D (dec_fuel b) b;
    skipf := fun b => raw D (dec_fuel b) b;
    rawf := fun i _ => enc o false i;
    normf := norm o D false;
    rem := @length N |}.

  Definition ok (o : eopts) (D : dopts) (i : item) (_ : unit) (_ : list N) : Prop :=
    swf o D i /\ (signedInteger D = false \/ sint_ok i) /\ (Z.of_nat (depth i) < maxdepth D)%Z.

  Lemma laws_ok : forall o D, laws (F o D) at_plain (ok o D) 0.
  Proof.
    intros o D. split.
    - intros v e c tl (Hs & Hi & Hd) Hat. red in Hat. subst c. cbn [encf F fst snd].
      exists tl. repeat apply conj.
      + cbn [decf F normf]. apply W_simple_dec_naked_enc_lemma; assumption.
      + cbn [skipf F]. exact (proj2 (W_simple_skip_enc_top_lemma o D v tl Hs Hd)).
      + reflexivity.
    - intros e c tl H. exact (rem_plain e c tl H).
  Qed.
End SimpleI.

(* ------------------------------------------------------------------ *)
(* binc: the Encoder's and the Decoder's symbol tables are threaded *)
Module BincI.
  Import Wire.Binc Wire.BincProofs.

  Definition F (E : eopts) (D : dopts) : fmt := {|
    est := estate;
    cfg := dstate * list N;
    encf := fun i e => enc E false i e;
    decf := fun c => do (x, rest, st') <- dec_naked D (fst c) (snd c) ;; Ok (x, (st', rest));
    skipf := fun c => do (_, rest, st') <- skip_value D (fst c) (snd c) ;;
                      do (b, r) <- capture (snd c) (Ok rest) ;; Ok (b, (st', r));
    rawf := fun i e => fst (enc E false i e);
    normf := norm E D;
    rem := fun c => length (snd c) |}.

  Definition at_ (e : estate) (c : dstate * list N) (tl : list N) : Prop := snd c = tl /\ R e (fst c).

  Definition ok (E : eopts) (D : dopts) (i : item) (_ : estate) (_ : list N) : Prop :=
    wfb E D i /\ (N.of_nat (depth i) < maxdepth D)%N.

  Lemma laws_ok : forall E D, laws (F E D) at_ (ok E D) 0.
  Proof.
    intros E D. split.
    - intros v e [st b] tl (Hw & Hd) [Hb HR]. cbn [fst snd] in Hb, HR. subst b. cbv beta iota delta [encf F est cfg].
      destruct (dec_naked_enc E D v e st tl Hw HR Hd) as (st' & H1 & H2 & H3).
      exists (st', tl). split; [|split; [|split; [reflexivity|exact H3]]].
      + cbv beta iota delta [decf F normf est cfg]. cbn [fst snd]. rewrite H1. reflexivity.
      + cbv beta iota delta [skipf F est cfg]. cbn [fst snd]. rewrite H2. cbn [bind]. rewrite capture_app. reflexivity.
    - intros e [st b] tl [Hb _]. cbn [fst snd] in Hb. subst b. cbn [rem F snd]. lia.
  Qed.
End BincI.

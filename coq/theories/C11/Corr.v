(* C11/Corr — correspondence: the sequence machinery of C11/Seq.v, instantiated with the wire
   models (C11/Inst.v), evaluated on the sequences harness/cmd/c11 (stream "model") ran against one
   real Encoder and one real Decoder.  Compared: the stream bytes and the extent after every Encode
   call; after every Decode call NumBytesRead, the decoded tree (naked), the captured bytes (Raw). *)
From Coq Require Import List NArith ZArith Bool.
From Verif Require Import Base.Outcome Wire.Item C11.Seq C11.Inst.
From Verif Require Wire.Cbor Wire.Msgpack Wire.Simple Wire.Binc.
Import ListNotations.
Local Open Scope bool_scope.

Inductive fopts :=
| FCbor (O : Cbor.eopts) (D : Cbor.dopts)
| FMsgpack (O : Msgpack.eopts) (D : Msgpack.dopts)
| FSimple (O : Simple.eopts) (D : Simple.dopts)
| FBinc (O : Binc.eopts) (D : Binc.dopts).

(* the option vectors the harness draws (MaxDepth default, SkipUnexpectedTags off, EncZeroValuesAsNil off) *)
Definition fcbor (indef rfc s2r opt signed r2s : bool) : fopts :=
  FCbor (Cbor.mkeo indef rfc s2r opt) (Cbor.mkdo signed r2s false 0%Z).
Definition fmsgpack (we nf pu s2r r2s signed : bool) : fopts :=
  FMsgpack (Msgpack.mkeopts we nf pu s2r) (Msgpack.mkdopts we r2s signed 0%Z).
Definition fsimple (s2r signed r2s : bool) : fopts :=
  FSimple (Simple.mkeopts false s2r) (Simple.mkdopts signed r2s 0%Z).
Definition fbinc (sym s2r signed r2s : bool) : fopts :=
  FBinc {| Binc.asSymbols := sym; Binc.stringToRaw := s2r |}
        {| Binc.maxdepth := 1024%N; Binc.signedInt := signed; Binc.rawToString := r2s |}.

Record case := mkcase {
  cid : N;
  cfo : fopts;
  citems : list item;          (* the values handed to successive Encode calls *)
  cbytes : list N;             (* the stream the Encoder produced *)
  cends : list N;              (* its length after each Encode call *)
  cmodes : list N;             (* per Decode call: 0 interface{}, 1 Raw, 2 unknown struct field *)
  o_items : list item;         (* per call: the decoded tree (INil for modes 1, 2) *)
  o_raws : list (list N);      (* per call: the captured bytes (mode 1) *)
  o_nread : list N }.          (* NumBytesRead after each call *)

Fixpoint eqbl (a b : list N) : bool :=
  match a, b with
  | [], [] => true
  | x :: a', y :: b' => N.eqb x y && eqbl a' b'
  | _, _ => false
  end.

Definition nan64 (b : N) : bool := (N.eqb ((b / 2 ^ 52) mod 2048) 2047 && negb (N.eqb (b mod 2 ^ 52) 0))%N.

(* model tree vs observed tree; the observed side is a Go map: entries unordered *)
Fixpoint eqm (a b : item) {struct a} : bool :=
  match a, b with
  | INil, INil => true
  | IBool x, IBool y => Bool.eqb x y
  | IInt x, IInt y => Z.eqb x y
  | IUint x, IUint y => N.eqb x y
  | IF32 x, IF32 y => N.eqb x y
  | IF64 x, IF64 y => N.eqb x y || (nan64 x && nan64 y)
  | IStr x, IStr y => eqbl x y
  | IBytes x, IBytes y => eqbl x y
  | IExt t x, IExt t' y => N.eqb t t' && eqbl x y
  | ITime s n, ITime s' n' => Z.eqb s s' && N.eqb n n'
  | ITag t x, ITag t' y => N.eqb t t' && eqm x y
  | IArr l, IArr l' =>
      (fix go (l l' : list item) : bool :=
         match l, l' with
         | [], [] => true
         | x :: r, y :: r' => eqm x y && go r r'
         | _, _ => false
         end) l l'
  | IMap l, IMap l' =>
      Nat.eqb (length l) (length l') &&
      (fix go (l : list (item * item)) : bool :=
         match l with
         | [] => true
         | kv :: r => existsb (fun kv' => eqm (fst kv) (fst kv') && eqm (snd kv) (snd kv')) l' && go r
         end) l
  | _, _ => false
  end.

Fixpoint eqnl (a b : list N) : bool :=
  match a, b with
  | [], [] => true
  | x :: r, y :: r' => N.eqb x y && eqnl r r'
  | _, _ => false
  end.

Definition mode_of (m : N) : mode unit :=
  if N.eqb m 0 then MNaked else if N.eqb m 1 then MRaw else MSkip.

Fixpoint sums (acc : N) (l : list (list N)) : list N :=
  match l with [] => [] | b :: r => (acc + N.of_nat (length b))%N :: sums (acc + N.of_nat (length b))%N r end.

Fixpoint outs_ok (os : list (out unit)) (its : list item) (raws : list (list N)) : bool :=
  match os, its, raws with
  | [], [], [] => true
  | o :: orr, i :: ir, w :: wr =>
      (match o with
       | ONaked x => eqm x i
       | ORaw b => eqbl b w
       | OSkipped => true
       | OTyped _ => false
       end) && outs_ok orr ir wr
  | _, _, _ => false
  end.

Section Run.
  Variable F : fmt.
  Variable e0 : est F.
  Variable c0 : list N -> cfg F.

  Definition check_enc (c : case) : bool :=
    let bs := fst (enc_seq F (citems c) e0) in
    eqbl (concat bs) (cbytes c) && eqnl (sums 0 bs) (cends c).

  Definition check_dec (c : case) : bool :=
    match dec_seq F unit unit (fun _ _ => tt) (map mode_of (cmodes c)) (c0 (cbytes c)) with
    | Ok (os, ns, c') =>
        outs_ok os (o_items c) (o_raws c)
        && eqnl (map (fun r => (N.of_nat (length (cbytes c)) - N.of_nat r)%N) ns) (o_nread c)
        && Nat.eqb (rem F c') 0
    | _ => false
    end.
End Run.

Definition check_case (c : case) : bool :=
  match cfo c with
  | FCbor eo dd => check_enc (CborI.F eo dd 0) tt c && check_dec (CborI.F eo dd 0) (fun b => b) c
  | FMsgpack eo dd => check_enc (MsgpackI.F eo dd 0) tt c && check_dec (MsgpackI.F eo dd 0) (fun b => b) c
  | FSimple eo dd => check_enc (SimpleI.F eo dd) tt c && check_dec (SimpleI.F eo dd) (fun b => b) c
  | FBinc eo dd => check_enc (BincI.F eo dd) Binc.estate0 c && check_dec (BincI.F eo dd) (fun b => (Binc.dstate0, b)) c
  end.

Definition mismatches (cs : list case) : list N :=
  map cid (filter (fun c => negb (check_case c)) cs).

(* debugging aid: 1 = encode side differs, 2 = decode side differs *)
Definition why (c : case) : N :=
  match cfo c with
  | FCbor eo dd => (if check_enc (CborI.F eo dd 0) tt c then 0 else 1) + (if check_dec (CborI.F eo dd 0) (fun b => b) c then 0 else 2)
  | FMsgpack eo dd => (if check_enc (MsgpackI.F eo dd 0) tt c then 0 else 1) + (if check_dec (MsgpackI.F eo dd 0) (fun b => b) c then 0 else 2)
  | FSimple eo dd => (if check_enc (SimpleI.F eo dd) tt c then 0 else 1) + (if check_dec (SimpleI.F eo dd) (fun b => b) c then 0 else 2)
  | FBinc eo dd => (if check_enc (BincI.F eo dd) Binc.estate0 c then 0 else 1) + (if check_dec (BincI.F eo dd) (fun b => (Binc.dstate0, b)) c then 0 else 2)
  end%N.

(* Extension values as sequence members (harness stream "ext"): the zero-length payload is an item like any
   other ([IExt t []]: 0xc7 0x00 tag); decoded into interface{}, captured as Raw and skipped as an unknown field it
   ends after its three bytes, and an observation in which it swallows the value that follows is a mismatch. *)
Example ext_zero_len_ok :
  check_case (mkcase 1 (fmsgpack true false false false false false)
    [IExt 7%N []; IStr [110;101;120;116]%N; IInt 42%Z]
    [199;0;7;164;110;101;120;116;42]%N [3;8;9]%N [0;0;0]%N
    [IExt 7%N []; IStr [110;101;120;116]%N; IInt 42%Z] [[];[];[]] [3;8;9]%N) = true.
Proof. vm_compute. reflexivity. Qed.

Example ext_zero_len_skip_raw_ok :
  check_case (mkcase 3 (fmsgpack true false false false false false)
    [IExt 7%N []; IMap [(IStr [120]%N, IExt 7%N [])]; IInt 42%Z]
    [199;0;7;129;161;120;199;0;7;42]%N [3;9;10]%N [1;2;0]%N
    [INil; INil; IInt 42%Z] [[199;0;7]%N;[];[]] [3;9;10]%N) = true.
Proof. vm_compute. reflexivity. Qed.

Example ext_zero_len_swallow_rejected :
  check_case (mkcase 2 (fmsgpack true false false false false false)
    [IExt 7%N []; IStr [110;101;120;116]%N]
    [199;0;7;164;110;101;120;116]%N [3;8]%N [0;1]%N
    [ITag 7%N (IStr [110;101;120;116]%N); INil] [[];[]] [8;8]%N) = false.
Proof. vm_compute. reflexivity. Qed.

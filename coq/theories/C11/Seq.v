(* C11/Seq — the format-independent sequence machinery of property C11.

   A format is presented as a record [fmt]: what ONE Encode call writes for an item from an
   encoder state (binc: the symbol table), and the two parsers of a Decoder — decode into
   interface{} (DecodeNaked + kInterfaceNaked) and the walker nextValueBytes (skip of an unknown
   struct field / excess array element; the same walker's recording is what Decode(&Raw) keeps)
   — as functions of a decoder CONFIGURATION (unread input + per-instance state: binc symbol
   table, json pending token).

   [dec_seq] runs one Decoder over a stream with a consumer chosen per position
   (typed decode, decode into interface{}, skip, capture raw) and reports, after every call, how
   many bytes are still unread.  [seq_ok] proves ONCE, from per-value laws, that a stream
   written by successive Encode calls is read back in order and completely whatever the modes,
   that the positions agree with the prefix sums of the encodings (up to the format's delimiter
   slack: 0 for the binary formats, 1 byte for json), and that the states stay related.

   Executable definitions first (used by C11/Corr.v on harness cases), then the proof. *)
From Coq Require Import List NArith ZArith Lia Arith.
From Verif Require Import Base.Outcome Wire.Item.
Import ListNotations.

Record fmt := mkfmt {
  est : Type;                                   (* per-Encoder state *)
  cfg : Type;                                   (* Decoder configuration: unread bytes + per-Decoder state *)
  encf : item -> est -> list N * est;           (* one Encode call *)
  decf : cfg -> res (item * cfg);               (* one Decode(&interface{}) call *)
  skipf : cfg -> res (list N * cfg);            (* nextValueBytes: the bytes walked over, new configuration *)
  rawf : item -> est -> list N;                 (* the bytes of the value proper: what Decode(&Raw) must hold (binary
                                                   formats: all of what Encode wrote; json: without the TermWhitespace
                                                   delimiter) *)
  normf : item -> item;                         (* what decode returns for what encode was given *)
  rem : cfg -> nat                              (* bytes not yet consumed (total - NumBytesRead) *)
}.

Section Seq.
  Variable F : fmt.
  (* typed decoding: a function of the tree the stream holds (Generic/Dec.v of_item); kept abstract *)
  Variable TY : Type.
  Variable V : Type.
  Variable typed : TY -> item -> V.

  Inductive mode := MTyped (t : TY) | MNaked | MSkip | MRaw.

  Inductive out :=
  | OTyped (v : V)
  | ONaked (i : item)
  | OSkipped
  | ORaw (b : list N).

  (* successive Encode calls on one Encoder: the per-call outputs and the final state *)
  Fixpoint enc_seq (vs : list item) (e : est F) : list (list N) * est F :=
    match vs with
    | [] => ([], e)
    | v :: r => let '(b, e1) := encf F v e in let '(bs, e2) := enc_seq r e1 in (b :: bs, e2)
    end.
  Definition bytes_seq (vs : list item) (e : est F) : list N := concat (fst (enc_seq vs e)).
  Definition est_after (vs : list item) (e : est F) : est F := snd (enc_seq vs e).

  (* one Decode call with the given consumer *)
  Definition step (m : mode) (c : cfg F) : res (out * cfg F) :=
    match m with
    | MTyped t => do (x, c') <- decf F c ;; Ok (OTyped (typed t x), c')
    | MNaked => do (x, c') <- decf F c ;; Ok (ONaked x, c')
    | MSkip => do (_, c') <- skipf F c ;; Ok (OSkipped, c')
    | MRaw => do (b, c') <- skipf F c ;; Ok (ORaw b, c')
    end.

  (* successive Decode calls on one Decoder: results, unread byte count after each call, final configuration *)
  Fixpoint dec_seq (ms : list mode) (c : cfg F) : res (list out * list nat * cfg F) :=
    match ms with
    | [] => Ok ([], [], c)
    | m :: r =>
        do (o, c1) <- step m c ;;
        do (os, ns, c2) <- dec_seq r c1 ;;
        Ok (o :: os, rem F c1 :: ns, c2)
    end.

  (* what the calls must return: position by position *)
  Fixpoint project (ms : list mode) (vs : list item) (e : est F) : list out :=
    match ms, vs with
    | m :: mr, v :: vr =>
        let '(b, e1) := encf F v e in
        (match m with
         | MTyped t => OTyped (typed t (normf F v))
         | MNaked => ONaked (normf F v)
         | MSkip => OSkipped
         | MRaw => ORaw (rawf F v e)
         end) :: project mr vr e1
    | _, _ => []
    end.

  (* bytes still unread after each of the values, when [tl] follows the stream *)
  Fixpoint rems (vs : list item) (e : est F) (tl : list N) : list nat :=
    match vs with
    | [] => []
    | v :: r => let e1 := snd (encf F v e) in (length (bytes_seq r e1 ++ tl)) :: rems r e1 tl
    end.

  (* ---------------- laws and the theorem ---------------- *)

  (* [at_ e c tl]: the Decoder configuration [c] stands exactly before the bytes [tl] (json: a byte
     that ends a bare number may already sit in the pending token) and its state is related to the
     Encoder state [e].  [okf v e tl]: side conditions on a value written from state [e] and followed
     by [tl].  [slack]: how many bytes past a value the configuration may have consumed. *)
  Variable at_ : est F -> cfg F -> list N -> Prop.
  Variable okf : item -> est F -> list N -> Prop.
  Variable slack : nat.

  Record laws : Prop := {
    law_value : forall v e c tl,
      okf v e tl -> at_ e c (fst (encf F v e) ++ tl) ->
      exists c', decf F c = Ok (normf F v, c')
              /\ skipf F c = Ok (rawf F v e, c')
              /\ at_ (snd (encf F v e)) c' tl;
    law_rem : forall e c tl, at_ e c tl -> (length tl - slack <= rem F c <= length tl + slack)%nat
  }.

  Fixpoint ok_seq (vs : list item) (e : est F) (tl : list N) : Prop :=
    match vs with
    | [] => True
    | v :: r => let e1 := snd (encf F v e) in okf v e (bytes_seq r e1 ++ tl) /\ ok_seq r e1 tl
    end.

  Lemma bytes_seq_cons : forall v r e,
    bytes_seq (v :: r) e = fst (encf F v e) ++ bytes_seq r (snd (encf F v e)).
  Proof.
    intros v r e. unfold bytes_seq. cbn [enc_seq].
    destruct (encf F v e) as [b e1]. cbn [fst snd].
    destruct (enc_seq r e1) as [bs e2]. reflexivity.
  Qed.

  Lemma est_after_cons : forall v r e,
    est_after (v :: r) e = est_after r (snd (encf F v e)).
  Proof.
    intros v r e. unfold est_after. cbn [enc_seq].
    destruct (encf F v e) as [b e1]. cbn [snd].
    destruct (enc_seq r e1) as [bs e2]. reflexivity.
  Qed.

  Hypothesis L : laws.

  Lemma step_ok : forall m v e c tl,
    okf v e tl -> at_ e c (fst (encf F v e) ++ tl) ->
    exists c',
      step m c = Ok (match m with
                     | MTyped t => OTyped (typed t (normf F v))
                     | MNaked => ONaked (normf F v)
                     | MSkip => OSkipped
                     | MRaw => ORaw (rawf F v e)
                     end, c')
      /\ at_ (snd (encf F v e)) c' tl.
  Proof.
    intros m v e c tl Hok Hat.
    destruct (law_value L v e c tl Hok Hat) as [c' [Hd [Hs Hr]]].
    exists c'. split; [|exact Hr].
    destruct m; unfold step; rewrite ?Hd, ?Hs; reflexivity.
  Qed.

  (* within the slack of the exact positions *)
  Definition close (a b : nat) : Prop := (b - slack <= a <= b + slack)%nat.

  Theorem seq_ok : forall vs ms e c tl,
    length ms = length vs -> ok_seq vs e tl -> at_ e c (bytes_seq vs e ++ tl) ->
    exists ns c',
      dec_seq ms c = Ok (project ms vs e, ns, c')
      /\ Forall2 close ns (rems vs e tl)
      /\ at_ (est_after vs e) c' tl.
  Proof.
    induction vs as [|v r IH]; intros ms e c tl Hlen Hok Hat.
    - destruct ms; [|discriminate]. exists [], c. cbn. repeat apply conj; [reflexivity|constructor|exact Hat].
    - destruct ms as [|m mr]; [discriminate|]. cbn [length] in Hlen. injection Hlen as Hlen.
      cbn [ok_seq] in Hok. destruct Hok as [Hv Hr].
      rewrite bytes_seq_cons, <- app_assoc in Hat.
      destruct (step_ok m v e c _ Hv Hat) as [c1 [Hs Hat1]].
      destruct (IH mr _ c1 tl Hlen Hr Hat1) as [ns [c2 [Hd [Hn Hat2]]]].
      exists (rem F c1 :: ns), c2. repeat apply conj.
      + cbn [dec_seq]. rewrite Hs. cbn [bind]. rewrite Hd. cbn [bind project].
        destruct (encf F v e) as [b e1]. cbn [fst snd]. reflexivity.
      + cbn [rems]. constructor; [|exact Hn].
        unfold close. exact (law_rem L _ _ _ Hat1).
      + rewrite est_after_cons. exact Hat2.
  Qed.

  (* exact formats (slack = 0): the bytes consumed after the i-th call are the sum of the first i
     encoding lengths *)
  Fixpoint prefix_sums (acc : nat) (l : list nat) : list nat :=
    match l with [] => [] | x :: r => (acc + x) :: prefix_sums (acc + x) r end.

  Lemma rems_consumed : forall vs e tl acc,
    map (fun r => acc + length (bytes_seq vs e ++ tl) - r) (rems vs e tl)
    = prefix_sums acc (map (@length N) (fst (enc_seq vs e))).
  Proof.
    induction vs as [|v r IH]; intros e tl acc; [reflexivity|].
    cbn [rems map]. rewrite bytes_seq_cons.
    cbn [enc_seq]. destruct (encf F v e) as [b e1] eqn:Eb. cbn [fst snd].
    destruct (enc_seq r e1) as [bs e2] eqn:Er. cbn [fst map prefix_sums].
    f_equal.
    - rewrite <- app_assoc, app_length. lia.
    - specialize (IH e1 tl (acc + length b)). rewrite Er in IH. cbn [fst] in IH.
      rewrite <- IH. apply map_ext. intro x. rewrite <- app_assoc, (app_length b). f_equal. lia.
  Qed.

  Theorem seq_exact : slack = 0%nat -> forall vs ms e c tl,
    length ms = length vs -> ok_seq vs e tl -> at_ e c (bytes_seq vs e ++ tl) ->
    exists ns c',
      dec_seq ms c = Ok (project ms vs e, ns, c')
      /\ map (fun r => length (bytes_seq vs e ++ tl) - r) ns
         = prefix_sums 0 (map (@length N) (fst (enc_seq vs e)))
      /\ at_ (est_after vs e) c' tl.
  Proof.
    intros Hs vs ms e c tl Hlen Hok Hat.
    destruct (seq_ok vs ms e c tl Hlen Hok Hat) as [ns [c' [Hd [Hn Hat']]]].
    exists ns, c'. repeat apply conj; [exact Hd| |exact Hat'].
    assert (ns = rems vs e tl) as ->.
    { clear -Hn Hs. induction Hn as [|a b la lb Hab _ IH]; [reflexivity|].
      unfold close in Hab. rewrite Hs in Hab. f_equal; [lia|exact IH]. }
    exact (rems_consumed vs e tl 0).
  Qed.
End Seq.

Arguments MTyped {TY} t.
Arguments MNaked {TY}.
Arguments MSkip {TY}.
Arguments MRaw {TY}.
Arguments OTyped {V} v.
Arguments ONaked {V} i.
Arguments OSkipped {V}.
Arguments ORaw {V} b.

(* C11/JsonOracle — what the json theorems of property C11 still assume, stated on the ORACLE itself.

   The json wire model takes its lexical leaves as a record [leaf] and its round-trip lemmas need the
   eleven laws of [leaf_laws] (Wire/JsonRT.v).  For the leaf [c09_leaf_of O] — C09's model of json.go's
   string and integer code, plus an oracle O for what is not modelled (strconv's float formatting,
   parseFloat64, the RFC 3339 time layout) — the ledger is:

     ll_unq_plain, ll_unq_quote, ll_cstr_quote   PROVED (C09_quote, C09_quote_selfread; JsonLeaf c09_unq_plain ..)
     ll_udig_num                                 PROVED (C09_uint; JsonLeaf c09_udig_num)
     ll_int_ok, ll_uint_ok                       PROVED when PreferFloat is off (parseUint64_simple reads back what
                                                 jsonEncodeUint wrote: C09_uint); under PreferFloat the integer text
                                                 goes to parseFloat64, i.e. to the oracle: needs [ol_pf_int/uint]
     ll_time_plain                               ORACLE: the time text holds no quote and no backslash
     ll_f64_num, ll_f32_num                      ORACLE: a float text is non-empty and made of 0-9 . + - e E
     ll_f64_ok, ll_f32_ok                        the law is GUARDED by [num_read_ok D text] (Wire/JsonRT.v; the
                                                 guard sits in [jwf] per float and option vector): what jsonNakedNum
                                                 refuses is exactly a bare digit text worth 2^63 or more under
                                                 SignedInteger without PreferFloat, and strconv does write large
                                                 integral floats that way (1e19 as 10000000000000000000: F15-1's
                                                 class, W_json_float_bareint_refuted).  Under the guard the law
                                                 REDUCES (naked_num_guarded, through C09's parseUint64_simple) to
                                                 ORACLE: parseFloat64 accepts the float texts the encoder writes

   [strconv_time_oracle_laws O] is exactly that remainder, about the four oracle functions only (no leaf, no
   decoder option vector, no number reader), every clause of it a true statement about strconv / time; it is
   EQUIVALENT to the [float_time_laws (c09_leaf_of O)] the _partial theorems assume (oracle_laws_iff): nothing
   is added, nothing more can be dropped without modelling strconv.

   Also kept: the characterisation of the UNGUARDED law, naked_num_reads_back: a text is accepted back under
   EVERY option vector iff parseFloat64 accepts it and it is not a bare digit text of 2^63 or more; a text
   with a non-digit in it is never read as an integer (reads_back_nondigit). *)
From Coq Require Import List NArith ZArith Lia Arith Bool.
From Verif Require Import Base.Outcome Wire.Item C11.Seq.
From Verif Require Import Wire.Json Wire.JsonRT Wire.JsonSkip Wire.JsonLeaf.
From Verif Require C11.InstJson C11.ProofsJson C09.Model.
Import ListNotations.
Open Scope N_scope.

(* accepted back by jsonNakedNum under EVERY decoder option vector *)
Definition reads_back (O : oracle) (t : list N) : Prop :=
  (exists v, o_pf O t = Some v) /\
  (forall u, Verif.C09.Model.parseUint64_simple t = (u, true) -> (u < 2 ^ 63)%Z).

Record strconv_time_oracle_laws (O : oracle) : Prop := mkolaws {
  (* time.Time.AppendFormat(RFC3339Nano): no quote, no backslash *)
  ol_time_plain : forall s n, forallb plain (o_time O s n) = true;
  (* strconv.AppendFloat under jsonFloatStrconvFmtPrec64/32, finite values: number characters only *)
  ol_f64_num : forall b, f64special b = false -> numtext (o_f64 O b);
  ol_f32_num : forall b, f32special b = false -> numtext (o_f32 O b);
  (* ... and parseFloat64 accepts them back *)
  ol_f64_back : forall b, f64special b = false -> b < 2 ^ 64 -> exists v, o_pf O (o_f64 O b) = Some v;
  ol_f32_back : forall b, f32special b = false -> b < 2 ^ 32 -> exists v, o_pf O (o_f32 O b) = Some v;
  (* PreferFloat: parseFloat64 accepts the decimal integer texts the encoder writes *)
  ol_pf_int : forall z, (- 2 ^ 63 <= z < 2 ^ 63)%Z -> exists v, o_pf O (int_text z) = Some v;
  ol_pf_uint : forall u, u < 2 ^ 64 -> exists v, o_pf O (udigits u) = Some v }.

(* ------------------------------------------------------------------ *)
Lemma pus_neg : forall r, Verif.C09.Model.parseUint64_simple (45 :: r) = (0%Z, false).
Proof.
  intros r. unfold Verif.C09.Model.parseUint64_simple.
  assert (H : Verif.C09.Model.pus_loop (45 :: r) 0 = (0%Z, false)).
  { cbn [Verif.C09.Model.pus_loop]. change (negb (Verif.C09.Model.isdig 45)) with true. rewrite orb_true_r. reflexivity. }
  destruct r as [| c r']; [exact H |]. change (45 =? 48) with false. cbv iota. exact H.
Qed.

Lemma naked_num_reads_back : forall (O : oracle) (t : list N),
  (forall D, exists i, naked_num (c09_leaf_of O) D t = Ok i) <-> reads_back O t.
Proof.
  intros O t. split.
  - intros H. split.
    + destruct (H (mkdopts true false false false 0)) as [i Hi]. unfold naked_num in Hi.
      cbn [preferFloat c09_leaf_of pfloat] in Hi. destruct (o_pf O t) as [v |]; [eauto | discriminate].
    + intros u Hu. destruct (H (mkdopts false true false false 0)) as [i Hi]. unfold naked_num in Hi.
      cbn [preferFloat signedInteger] in Hi.
      destruct t as [| c r].
      * rewrite Hu in Hi. unfold uint2int_ovf in Hi.
        destruct (2 ^ 63 <=? u)%Z eqn:E; [discriminate | apply Z.leb_gt in E; exact E].
      * destruct (c =? 45) eqn:Ec.
        -- apply N.eqb_eq in Ec. subst c. rewrite pus_neg in Hu. discriminate.
        -- rewrite Hu in Hi. unfold uint2int_ovf in Hi.
           destruct (2 ^ 63 <=? u)%Z eqn:E; [discriminate | apply Z.leb_gt in E; exact E].
  - intros [[v Hv] Hu] D. unfold naked_num. cbn [c09_leaf_of pfloat]. rewrite Hv.
    destruct (preferFloat D); [eauto |].
    destruct t as [| c r].
    + destruct (Verif.C09.Model.parseUint64_simple []) as [f ok] eqn:E. destruct ok; [| eauto].
      specialize (Hu f eq_refl). destruct (signedInteger D); [| eauto]. unfold uint2int_ovf.
      replace (2 ^ 63 <=? f)%Z with false by (symmetry; apply Z.leb_gt; exact Hu). eauto.
    + destruct (c =? 45) eqn:Ec.
      * cbn [tl]. destruct (Verif.C09.Model.parseUint64_simple r) as [f ok]. destruct ok; [| eauto].
        destruct (uint2int_ovf f true); eauto.
      * destruct (Verif.C09.Model.parseUint64_simple (c :: r)) as [f ok] eqn:E. destruct ok; [| eauto].
        specialize (Hu f eq_refl). destruct (signedInteger D); [| eauto]. unfold uint2int_ovf.
        replace (2 ^ 63 <=? f)%Z with false by (symmetry; apply Z.leb_gt; exact Hu). eauto.
Qed.

(* under the guard the number reader accepts a text iff parseFloat64 does *)
Lemma naked_num_guarded : forall (O : oracle) (t : list N),
  (forall D, num_read_ok D t = true -> exists i, naked_num (c09_leaf_of O) D t = Ok i) <-> (exists v, o_pf O t = Some v).
Proof.
  intros O t. split.
  - intros H. destruct (H (mkdopts true false false false 0) eq_refl) as [i Hi]. unfold naked_num in Hi.
    cbn [preferFloat c09_leaf_of pfloat] in Hi. destruct (o_pf O t) as [v |]; [eauto | discriminate].
  - intros [v Hv] D Hg. unfold naked_num. cbn [c09_leaf_of pfloat]. rewrite Hv.
    unfold num_read_ok in Hg.
    destruct (preferFloat D); [eauto |]. rewrite orb_false_r in Hg.
    set (neg := match t with c :: _ => c =? 45 | [] => false end) in *.
    destruct (Verif.C09.Model.parseUint64_simple (if neg then tl t else t)) as [f ok].
    destruct ok; [| eauto].
    destruct neg; [destruct (uint2int_ovf f true); eauto |].
    destruct (signedInteger D); [| eauto]. cbn [negb orb] in Hg. unfold uint2int_ovf.
    apply Z.ltb_lt in Hg. replace (2 ^ 63 <=? f)%Z with false by (symmetry; apply Z.leb_gt; exact Hg). eauto.
Qed.

(* the assumption of the _partial theorems and the oracle-level one are the same assumption *)
Theorem oracle_laws_iff : forall O, strconv_time_oracle_laws O <-> float_time_laws (c09_leaf_of O).
Proof.
  intros O. split.
  - intros [H1 H2 H3 H4 H5 H6 H7]. constructor; cbn [c09_leaf_of fmt_time fmt_f64 fmt_f32 pfloat].
    + exact H1.
    + exact H2.
    + exact H3.
    + intros D b Hs Hb Hg. exact (proj2 (naked_num_guarded O (o_f64 O b)) (H4 b Hs Hb) D Hg).
    + intros D b Hs Hb Hg. exact (proj2 (naked_num_guarded O (o_f32 O b)) (H5 b Hs Hb) D Hg).
    + exact H6.
    + exact H7.
  - intros [H1 H2 H3 H4 H5 H6 H7]. cbn [c09_leaf_of fmt_time fmt_f64 fmt_f32 pfloat] in *. constructor.
    + exact H1.
    + exact H2.
    + exact H3.
    + intros b Hs Hb. apply (proj1 (naked_num_guarded O (o_f64 O b))). intros D Hg. exact (H4 D b Hs Hb Hg).
    + intros b Hs Hb. apply (proj1 (naked_num_guarded O (o_f32 O b))). intros D Hg. exact (H5 D b Hs Hb Hg).
    + exact H6.
    + exact H7.
Qed.

(* a text with a non-digit in it is never taken for an integer *)
Lemma pus_loop_true : forall b n u, Verif.C09.Model.pus_loop b n = (u, true) -> forallb Verif.C09.Model.isdig b = true.
Proof.
  induction b as [| c r IH]; intros n u H; [reflexivity |]. cbn [Verif.C09.Model.pus_loop] in H. cbn [forallb].
  destruct (Verif.C09.Model.isdig c); [| rewrite orb_true_r in H; discriminate].
  cbn [negb] in H. rewrite orb_false_r in H. cbn [andb].
  match type of H with (if ?c then _ else _) = _ => destruct c end; [discriminate |].
  destruct (c =? 48); [exact (IH _ _ H) |].
  match type of H with (if ?c then _ else _) = _ => destruct c end; [discriminate | exact (IH _ _ H)].
Qed.

Lemma pus_true : forall b u, Verif.C09.Model.parseUint64_simple b = (u, true) -> forallb Verif.C09.Model.isdig b = true.
Proof.
  intros b u H. unfold Verif.C09.Model.parseUint64_simple in H.
  destruct b as [| z [| y r]]; try exact (pus_loop_true _ _ _ H).
  destruct (z =? 48); [discriminate | exact (pus_loop_true _ _ _ H)].
Qed.

Lemma reads_back_nondigit : forall O t,
  forallb Verif.C09.Model.isdig t = false -> (exists v, o_pf O t = Some v) -> reads_back O t.
Proof.
  intros O t Hn Hv. split; [exact Hv |]. intros u Hu. rewrite (pus_true t u Hu) in Hn. discriminate.
Qed.

(* ------------------------------------------------------------------ *)
(* the three json statements of C11 under the oracle-level assumption alone *)
Definition json_skip_full (O : oracle) (H : strconv_time_oracle_laws O) :=
  ProofsJson.json_skip_c09 O (proj1 (oracle_laws_iff O) H).
Definition json_raw_full (O : oracle) (H : strconv_time_oracle_laws O) :=
  ProofsJson.json_raw_c09 O (proj1 (oracle_laws_iff O) H).
Definition json_seq_full (O : oracle) (H : strconv_time_oracle_laws O) :=
  ProofsJson.json_seq_c09 O (proj1 (oracle_laws_iff O) H).

(* satisfiable (toy oracle of Wire/JsonLeaf.v) *)
Lemma toy_oracle_laws : strconv_time_oracle_laws toy_oracle.
Proof. exact (proj2 (oracle_laws_iff toy_oracle) toy_float_time_laws). Qed.

(* C11/ProofsJson — lemmas behind the json theorems of Properties/C11.v (all under [leaf_laws L]). *)
From Coq Require Import List NArith ZArith Lia Arith Bool.
From Verif Require Import Base.Outcome Wire.Item C11.Seq.
From Verif Require Import Wire.Json Wire.JsonRT Wire.JsonSkip Wire.JsonLeaf.
From Verif Require C11.InstJson.
Import ListNotations.

Lemma json_skip_lemma : forall (L : leaf), leaf_laws L ->
  forall (o : eopts) (D : dopts) (lvl : N) (i : item) (s : st) (tl : list N) (fuel : nat) (dp : Z),
  jwf L o D false i -> (dp + Z.of_nat (depth i) < maxdepth D)%Z ->
  advance s = advance (mkst 0 (enc_at L o false lvl i ++ tl)) -> delim_ok (isnum L o false i) tl ->
  (2 * length (enc_at L o false lvl i) <= fuel)%nat ->
  dec L D fuel dp false s = Ok (norm L o D false i, after (isnum L o false i) tl)
  /\ nvb s = Ok (enc_at L o false lvl i, after (isnum L o false i) tl).
Proof.
  intros L LL o D lvl i s tl fuel dp Hw Hdp Hadv Hd Hf. split.
  - apply (rt_all L LL i o D false lvl fuel dp s tl); auto; try discriminate.
    pose proof (need_len L LL i o D false lvl Hw). lia.
  - exact (nvb_enc_lemma L LL o D false lvl i s tl Hw Hadv Hd).
Qed.

Lemma json_raw_lemma : forall (L : leaf), leaf_laws L ->
  forall (o : eopts) (D : dopts) (lvl : N) (i : item) (s : st) (tl tl' : list N) (b : list N) (s' : st),
  jwf L o D false i -> (Z.of_nat (depth i) < maxdepth D)%Z ->
  advance s = advance (mkst 0 (enc_at L o false lvl i ++ tl)) -> delim_ok (isnum L o false i) tl ->
  delim_ok (isnum L o false i) tl' ->
  nvb s = Ok (b, s') ->
  b = enc_at L o false lvl i
  /\ dec L D (2 * length b) 0 false (st0 (b ++ tl')) = Ok (norm L o D false i, after (isnum L o false i) tl').
Proof.
  intros L LL o D lvl i s tl tl' b s' Hw Hdp Hadv Hd Hd' Hn.
  rewrite (nvb_enc_lemma L LL o D false lvl i s tl Hw Hadv Hd) in Hn. injection Hn as <- _.
  split; [reflexivity|].
  apply (rt_all L LL i o D false lvl _ 0%Z _ tl'); auto; try discriminate.
  pose proof (need_len L LL i o D false lvl Hw). lia.
Qed.

Lemma json_seq_lemma : forall (L : leaf), leaf_laws L ->
  forall (o : eopts) (D : dopts) (TY V : Type) (typed : TY -> item -> V)
    (vs : list item) (ms : list (mode TY)) (tl : list N),
  length ms = length vs -> Seq.ok_seq (InstJson.F L o D) (InstJson.ok L o D) vs tt tl ->
  exists ns s',
    Seq.dec_seq (InstJson.F L o D) TY V typed ms (st0 (Seq.bytes_seq (InstJson.F L o D) vs tt ++ tl))
      = Ok (Seq.project (InstJson.F L o D) TY V typed ms vs tt, ns, s')
    /\ Forall2 (close 1) ns (Seq.rems (InstJson.F L o D) vs tt tl)
    /\ advance s' = advance (mkst 0 tl) /\ (length tl - 1 <= length (inp s') <= length tl + 1)%nat.
Proof.
  intros L LL o D TY V typed vs ms tl Hl Hok.
  destruct (seq_ok (InstJson.F L o D) TY V typed InstJson.at_ (InstJson.ok L o D) 1 (InstJson.laws_ok L LL o D)
              vs ms tt (st0 (Seq.bytes_seq (InstJson.F L o D) vs tt ++ tl)) tl Hl Hok)
    as [ns [s' [H1 [H2 [H3 H4]]]]].
  - split; [reflexivity|]. cbn [inp st0]. lia.
  - exists ns, s'. split; [exact H1|split; [exact H2|split; [exact H3|exact H4]]].
Qed.

(* ---- the same for the C09 leaf: string and integer laws discharged (Wire/JsonLeaf.v c09_leaf_laws),
   only the float / time text oracle laws remain ---- *)
Definition json_skip_c09 (O : oracle) (FT : float_time_laws (c09_leaf_of O)) :=
  json_skip_lemma (c09_leaf_of O) (c09_leaf_laws O FT).
Definition json_raw_c09 (O : oracle) (FT : float_time_laws (c09_leaf_of O)) :=
  json_raw_lemma (c09_leaf_of O) (c09_leaf_laws O FT).
Definition json_seq_c09 (O : oracle) (FT : float_time_laws (c09_leaf_of O)) :=
  json_seq_lemma (c09_leaf_of O) (c09_leaf_laws O FT).

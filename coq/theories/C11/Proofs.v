(* C11/Proofs — lemmas behind Properties/C11.v: the per-format extents (from the wire theorems)
   and the sequence theorem instantiated per format (C11/Seq.v seq_exact + C11/Inst.v laws). *)
From Coq Require Import List NArith ZArith Lia Arith.
From Verif Require Import Base.Outcome Wire.Item C11.Seq C11.Inst.
From Verif Require Wire.Cbor C10.CborSpec C10.CborConv Wire.CborProofs Wire.CborEnc.
From Verif Require Wire.Msgpack Wire.MsgpackProofs Wire.MsgpackRT.
From Verif Require Wire.Simple Wire.SimpleProofs Wire.SimpleSkip.
From Verif Require Wire.Binc Wire.BincProofs.
Import ListNotations.

Lemma seq_exact0 : forall (F : fmt) (TY V : Type) (typed : TY -> item -> V)
    (at_ : est F -> cfg F -> list N -> Prop) (okf : item -> est F -> list N -> Prop),
  laws F at_ okf 0 ->
  forall (vs : list item) (ms : list (mode TY)) (e : est F) (c : cfg F) (tl : list N),
  length ms = length vs -> Seq.ok_seq F okf vs e tl -> at_ e c (Seq.bytes_seq F vs e ++ tl) ->
  exists ns c',
    Seq.dec_seq F TY V typed ms c = Ok (Seq.project F TY V typed ms vs e, ns, c')
    /\ map (fun r => length (Seq.bytes_seq F vs e ++ tl) - r)%nat ns
       = Seq.prefix_sums 0 (map (@length N) (fst (Seq.enc_seq F vs e)))
    /\ at_ (Seq.est_after F vs e) c' tl.
Proof. intros F TY V typed at_ okf L. exact (seq_exact F TY V typed at_ okf 0%nat L eq_refl). Qed.

Section Cbor.
  Import Wire.Cbor C10.CborSpec C10.CborConv Wire.CborProofs Wire.CborEnc.
  Local Open Scope Z_scope.

  Lemma cbor_skip_lemma : forall (O : eopts) (D : dopts) (i : item) (d : Z) (rest : list N),
    wf i -> plain i -> (d + sdepth (tree_of O i) < maxdepth D)%Z ->
    skip D (fuel_for (enc O i ++ rest)) d (enc O i ++ rest) = Ok rest.
  Proof. exact skip_enc_lemma. Qed.

  Lemma cbor_skip_partial_lemma : forall (O : eopts) (D : dopts) (i : item) (d : Z) (rest : list N),
    wf i -> plain i -> lib_supports D (tree_of O i) -> (tdepth D (tree_of O i) < maxdepth D)%Z ->
    (d + sdepth (tree_of O i) < maxdepth D)%Z ->
    dec_naked D (fuel_for (enc O i ++ rest)) (enc O i ++ rest) = Ok (norm O D i, rest)
    /\ skip D (fuel_for (enc O i ++ rest)) d (enc O i ++ rest) = Ok rest.
  Proof.
    intros O D i d rest Hw Hp Hs Ht Hd. split.
    - apply dec_enc_lemma; assumption.
    - apply skip_enc_lemma; assumption.
  Qed.

  Lemma cbor_raw_lemma : forall (O : eopts) (D : dopts) (i : item) (d : Z) (rest : list N),
    wf i -> plain i -> (d + sdepth (tree_of O i) < maxdepth D)%Z ->
    capture (enc O i ++ rest) (skip D (fuel_for (enc O i ++ rest)) d (enc O i ++ rest)) = Ok (enc O i, rest).
  Proof.
    intros O D i d rest Hw Hp Hd. rewrite (skip_enc_lemma O D i d rest Hw Hp Hd). apply capture_app.
  Qed.

  Lemma cbor_raw_redecode_lemma : forall (O : eopts) (D : dopts) (i : item) (d : Z) (rest rest' : list N) (b : list N),
    wf i -> plain i -> lib_supports D (tree_of O i) -> (tdepth D (tree_of O i) < maxdepth D)%Z ->
    capture (enc O i ++ rest) (skip D (fuel_for (enc O i ++ rest)) d (enc O i ++ rest)) = Ok (b, rest) ->
    (d + sdepth (tree_of O i) < maxdepth D)%Z ->
    dec_naked D (fuel_for (b ++ rest')) (b ++ rest') = Ok (norm O D i, rest').
  Proof.
    intros O D i d rest rest' b Hw Hp Hs Ht Hc Hd.
    rewrite (cbor_raw_lemma O D i d rest Hw Hp Hd) in Hc. injection Hc as <-.
    apply dec_enc_lemma; assumption.
  Qed.

  Lemma cbor_extent_lemma : forall (O : eopts) (D : dopts) (i : item) (d : Z) (rest : list N),
    wf i -> plain i -> lib_supports_t D (tree_of O i) -> (tdepth_t D (tree_of O i) < maxdepth D)%Z ->
    (d + sdepth (tree_of O i) < maxdepth D)%Z ->
    dec_naked D (fuel_for (enc O i ++ rest)) (enc O i ++ rest) = Ok (norm_t O D i, rest)
    /\ skip D (fuel_for (enc O i ++ rest)) d (enc O i ++ rest) = Ok rest.
  Proof.
    intros O D i d rest Hw Hp Hs Ht Hd. split.
    - apply dec_enc_t_lemma; assumption.
    - apply skip_enc_lemma; assumption.
  Qed.

  Lemma cbor_raw_redecode_t_lemma : forall (O : eopts) (D : dopts) (i : item) (d : Z) (rest rest' : list N) (b : list N),
    wf i -> plain i -> lib_supports_t D (tree_of O i) -> (tdepth_t D (tree_of O i) < maxdepth D)%Z ->
    capture (enc O i ++ rest) (skip D (fuel_for (enc O i ++ rest)) d (enc O i ++ rest)) = Ok (b, rest) ->
    (d + sdepth (tree_of O i) < maxdepth D)%Z ->
    dec_naked D (fuel_for (b ++ rest')) (b ++ rest') = Ok (norm_t O D i, rest').
  Proof.
    intros O D i d rest rest' b Hw Hp Hs Ht Hc Hd.
    rewrite (cbor_raw_lemma O D i d rest Hw Hp Hd) in Hc. injection Hc as <-.
    apply dec_enc_t_lemma; assumption.
  Qed.

  Lemma cbor_seq_t_lemma : forall (O : eopts) (D : dopts) (d : Z) (TY V : Type) (typed : TY -> item -> V)
      (vs : list item) (ms : list (mode TY)) (tl : list N),
    length ms = length vs -> Seq.ok_seq (CborI.Ft O D d) (CborI.ok_t O D d) vs tt tl ->
    exists ns,
      Seq.dec_seq (CborI.Ft O D d) TY V typed ms (Seq.bytes_seq (CborI.Ft O D d) vs tt ++ tl)
        = Ok (Seq.project (CborI.Ft O D d) TY V typed ms vs tt, ns, tl)
      /\ map (fun r => length (Seq.bytes_seq (CborI.Ft O D d) vs tt ++ tl) - r)%nat ns
         = Seq.prefix_sums 0 (map (@length N) (fst (Seq.enc_seq (CborI.Ft O D d) vs tt))).
  Proof.
    intros O D d TY V typed vs ms tl Hl Hok.
    destruct (seq_exact0 (CborI.Ft O D d) TY V typed at_plain (CborI.ok_t O D d) (CborI.laws_ok_t O D d)
                vs ms tt (Seq.bytes_seq (CborI.Ft O D d) vs tt ++ tl) tl Hl Hok eq_refl) as [ns [c' [H1 [H2 H3]]]].
    red in H3. subst c'. exists ns. split; assumption.
  Qed.

  (* an item made of times under TimeRFC3339 (UTC year 0..9999) meets the decode-side premises *)
  Lemma cbor_time_ok_t : forall (O : eopts) (D : dopts) (d : Z) (s : Z) (n : N) (e : unit) (tl : list N),
    eo_rfc3339 O = true -> Wire.CborTime.year_ok s = true -> (n < 1000000000)%N ->
    (- 9223372036854775808 <= s < 9223372036854775807)%Z -> (0 <= d)%Z -> (d + 1 < maxdepth D)%Z ->
    CborI.ok_t O D d (ITime s n) e tl.
  Proof.
    intros O D d s n e tl Hr Hy Hn Hs Hd0 Hd.
    destruct (time_rfc3339_lemma O D s n Hr Hy Hn) as (H1 & H2 & _).
    unfold CborI.ok_t. split; [|split; [|split; [|split]]].
    - cbn [wf]. exact Hn.
    - cbn [plain]. exact Hs.
    - exact H1.
    - rewrite H2. lia.
    - assert (Hsd : (sdepth (tree_of O (ITime s n)) <= 1)%Z).
      { cbn [tree_of]. unfold time_tree. destruct (andb (s =? zero_time_sec)%Z (n =? 0)%N); [cbn; lia|]. rewrite Hr.
        cbn [sdepth]. unfold str_tree. repeat match goal with |- context [if ?c then _ else _] => destruct c end; cbn [sdepth]; lia. }
      lia.
  Qed.

  Lemma cbor_seq_lemma : forall (O : eopts) (D : dopts) (d : Z) (TY V : Type) (typed : TY -> item -> V)
      (vs : list item) (ms : list (mode TY)) (tl : list N),
    length ms = length vs -> Seq.ok_seq (CborI.F O D d) (CborI.ok O D d) vs tt tl ->
    exists ns,
      Seq.dec_seq (CborI.F O D d) TY V typed ms (Seq.bytes_seq (CborI.F O D d) vs tt ++ tl)
        = Ok (Seq.project (CborI.F O D d) TY V typed ms vs tt, ns, tl)
      /\ map (fun r => length (Seq.bytes_seq (CborI.F O D d) vs tt ++ tl) - r)%nat ns
         = Seq.prefix_sums 0 (map (@length N) (fst (Seq.enc_seq (CborI.F O D d) vs tt))).
  Proof.
    intros O D d TY V typed vs ms tl Hl Hok.
    destruct (seq_exact0 (CborI.F O D d) TY V typed at_plain (CborI.ok O D d) (CborI.laws_ok O D d)
                vs ms tt (Seq.bytes_seq (CborI.F O D d) vs tt ++ tl) tl Hl Hok eq_refl) as [ns [c' [H1 [H2 H3]]]].
    red in H3. subst c'. exists ns. split; assumption.
  Qed.
End Cbor.

Section Msgpack.
  Import Wire.Msgpack Wire.MsgpackProofs Wire.MsgpackRT.

  Lemma msgpack_skip_lemma : forall (O : eopts) (D : dopts) (i : item) (d0 : Z) (rest : list N),
    supported i -> sint_ok D i -> (Z.of_nat (depth i) < maxdepth D)%Z -> (d0 + Z.of_nat (depth i) < maxdepth D)%Z ->
    goslice (len (enc O i ++ rest)) ->
    dec_naked D (dec_fuel (enc O i ++ rest)) (enc O i ++ rest) = Ok (norm O D i, rest)
    /\ skip_at D d0 (dec_fuel (enc O i ++ rest)) (enc O i ++ rest) = Ok rest.
  Proof.
    intros O D i d0 rest Hs Hi Hd Hd0 Hg. split.
    - apply dec_enc; assumption.
    - apply skip_enc; assumption.
  Qed.

  Lemma msgpack_raw_lemma : forall (O : eopts) (D : dopts) (i : item) (d0 : Z) (rest rest' : list N),
    supported i -> sint_ok D i -> (Z.of_nat (depth i) < maxdepth D)%Z -> (d0 + Z.of_nat (depth i) < maxdepth D)%Z ->
    goslice (len (enc O i ++ rest')) ->
    capture (enc O i ++ rest) (skip_at D d0 (dec_fuel (enc O i ++ rest)) (enc O i ++ rest)) = Ok (enc O i, rest)
    /\ dec_naked D (dec_fuel (enc O i ++ rest')) (enc O i ++ rest') = Ok (norm O D i, rest').
  Proof.
    intros O D i d0 rest rest' Hs Hi Hd Hd0 Hg. split.
    - rewrite (skip_enc O D i rest d0 Hs Hd0). apply capture_app.
    - apply dec_enc; assumption.
  Qed.

  Lemma msgpack_seq_lemma : forall (O : eopts) (D : dopts) (d0 : Z) (TY V : Type) (typed : TY -> item -> V)
      (vs : list item) (ms : list (mode TY)) (tl : list N),
    length ms = length vs -> Seq.ok_seq (MsgpackI.F O D d0) (MsgpackI.ok O D d0) vs tt tl ->
    exists ns,
      Seq.dec_seq (MsgpackI.F O D d0) TY V typed ms (Seq.bytes_seq (MsgpackI.F O D d0) vs tt ++ tl)
        = Ok (Seq.project (MsgpackI.F O D d0) TY V typed ms vs tt, ns, tl)
      /\ map (fun r => length (Seq.bytes_seq (MsgpackI.F O D d0) vs tt ++ tl) - r)%nat ns
         = Seq.prefix_sums 0 (map (@length N) (fst (Seq.enc_seq (MsgpackI.F O D d0) vs tt))).
  Proof.
    intros O D d0 TY V typed vs ms tl Hl Hok.
    destruct (seq_exact0 (MsgpackI.F O D d0) TY V typed at_plain (MsgpackI.ok O D d0) (MsgpackI.laws_ok O D d0)
                vs ms tt (Seq.bytes_seq (MsgpackI.F O D d0) vs tt ++ tl) tl Hl Hok eq_refl) as [ns [c' [H1 [H2 H3]]]].
    red in H3. subst c'. exists ns. split; assumption.
  Qed.
End Msgpack.

Section Simple.
  Import Wire.Simple Wire.SimpleProofs Wire.SimpleSkip.

  Lemma simple_skip_lemma : forall (o : eopts) (D : dopts) (i : item) (rest : list N),
    swf o D i -> (signedInteger D = false \/ sint_ok i) -> (Z.of_nat (depth i) < maxdepth D)%Z ->
    dec_naked D (dec_fuel (enc o false i ++ rest)) (enc o false i ++ rest) = Ok (norm o D false i, rest)
    /\ skip D (dec_fuel (enc o false i ++ rest)) (enc o false i ++ rest) = Ok rest.
  Proof.
    intros o D i rest Hs Hi Hd. split.
    - apply W_simple_dec_naked_enc_lemma; assumption.
    - exact (proj1 (W_simple_skip_enc_top_lemma o D i rest Hs Hd)).
  Qed.

  Lemma simple_raw_lemma : forall (o : eopts) (D : dopts) (i : item) (rest rest' : list N),
    swf o D i -> (signedInteger D = false \/ sint_ok i) -> (Z.of_nat (depth i) < maxdepth D)%Z ->
    raw D (dec_fuel (enc o false i ++ rest)) (enc o false i ++ rest) = Ok (enc o false i, rest)
    /\ dec_naked D (dec_fuel (enc o false i ++ rest')) (enc o false i ++ rest') = Ok (norm o D false i, rest').
  Proof.
    intros o D i rest rest' Hs Hi Hd. split.
    - exact (proj2 (W_simple_skip_enc_top_lemma o D i rest Hs Hd)).
    - apply W_simple_dec_naked_enc_lemma; assumption.
  Qed.

  Lemma simple_seq_lemma : forall (o : eopts) (D : dopts) (TY V : Type) (typed : TY -> item -> V)
      (vs : list item) (ms : list (mode TY)) (tl : list N),
    length ms = length vs -> Seq.ok_seq (SimpleI.F o D) (SimpleI.ok o D) vs tt tl ->
    exists ns,
      Seq.dec_seq (SimpleI.F o D) TY V typed ms (Seq.bytes_seq (SimpleI.F o D) vs tt ++ tl)
        = Ok (Seq.project (SimpleI.F o D) TY V typed ms vs tt, ns, tl)
      /\ map (fun r => length (Seq.bytes_seq (SimpleI.F o D) vs tt ++ tl) - r)%nat ns
         = Seq.prefix_sums 0 (map (@length N) (fst (Seq.enc_seq (SimpleI.F o D) vs tt))).
  Proof.
    intros o D TY V typed vs ms tl Hl Hok.
    destruct (seq_exact0 (SimpleI.F o D) TY V typed at_plain (SimpleI.ok o D) (SimpleI.laws_ok o D)
                vs ms tt (Seq.bytes_seq (SimpleI.F o D) vs tt ++ tl) tl Hl Hok eq_refl) as [ns [c' [H1 [H2 H3]]]].
    red in H3. subst c'. exists ns. split; assumption.
  Qed.
End Simple.

Section Binc.
  Import Wire.Binc Wire.BincProofs.

  Lemma binc_raw_lemma : forall (e : eopts) (d : dopts) (i : item) (est : estate) (dst : dstate) (rest rest' : list N),
    wfb e d i -> R est dst -> (N.of_nat (depth i) < maxdepth d)%N ->
    exists dst' dst'',
      skipf (BincI.F e d) (dst, fst (enc e false i est) ++ rest) = Ok (fst (enc e false i est), (dst', rest))
      /\ dec_naked d dst (fst (enc e false i est) ++ rest') = Ok (norm e d i, rest', dst'')
      /\ R (snd (enc e false i est)) dst' /\ R (snd (enc e false i est)) dst''.
  Proof.
    intros e d i est dst rest rest' Hw HR Hd.
    destruct (dec_naked_enc e d i est dst rest Hw HR Hd) as (d1 & A1 & A2 & A3).
    destruct (dec_naked_enc e d i est dst rest' Hw HR Hd) as (d2 & B1 & B2 & B3).
    exists d1, d2. split; [|split; [exact B1|split; [exact A3|exact B3]]].
    cbv beta iota delta [skipf BincI.F Seq.est Seq.cfg]. cbn [fst snd]. rewrite A2. cbn [bind]. rewrite capture_app. reflexivity.
  Qed.

  Lemma binc_seq_lemma : forall (E : eopts) (D : dopts) (TY V : Type) (typed : TY -> item -> V)
      (vs : list item) (ms : list (mode TY)) (est : estate) (dst : dstate) (tl : list N),
    length ms = length vs -> Seq.ok_seq (BincI.F E D) (BincI.ok E D) vs est tl -> R est dst ->
    exists ns dst',
      Seq.dec_seq (BincI.F E D) TY V typed ms (dst, Seq.bytes_seq (BincI.F E D) vs est ++ tl)
        = Ok (Seq.project (BincI.F E D) TY V typed ms vs est, ns, (dst', tl))
      /\ map (fun r => length (Seq.bytes_seq (BincI.F E D) vs est ++ tl) - r)%nat ns
         = Seq.prefix_sums 0 (map (@length N) (fst (Seq.enc_seq (BincI.F E D) vs est)))
      /\ R (Seq.est_after (BincI.F E D) vs est) dst'.
  Proof.
    intros E D TY V typed vs ms est dst tl Hl Hok HR.
    destruct (seq_exact0 (BincI.F E D) TY V typed BincI.at_ (BincI.ok E D) (BincI.laws_ok E D)
                vs ms est (dst, Seq.bytes_seq (BincI.F E D) vs est ++ tl) tl Hl Hok (conj eq_refl HR))
      as [ns [[dst' b] [H1 [H2 [H3 H4]]]]].
    cbn [fst snd] in H3, H4. subst b. exists ns, dst'. split; [exact H1|split; [exact H2|exact H4]].
  Qed.
End Binc.

(* C13 — Encode side: on which memory does an encode callback run?

   A type's MarshalBinary / MarshalText / MarshalJSON / CodecEncodeSelf /
   CodecMissingFields may have a POINTER receiver, and user code behind a pointer
   may write.  "Encode never modifies the value it is given" then depends on which
   pointer the encoder hands to the callback: the caller's own storage or a copy.
   This file mirrors how the encoder decides (default, unsafe build):

   - encode.go encodeValue, tail:  if !fn.i.addrE       -> value receiver: Go copies
                                   else if rvpValid     -> the pointer the caller handed out
                                   else if rv.CanAddr() -> rvAddr(rv): the storage rv designates
                                   else                 -> e.addrRV(rv, ...)
     (encodeValueNonNil and kStruct's flagMissingFielderPtr branch: the same minus rvpValid)
   - encode.base.go addrRV: NoAddressableReadonly ? reflect.New + rvSetDirect (a copy)
                                                  : perType.AddressableRO(rv) = the flagAddr bit forced
                                                    on rv, i.e. a pointer INTO the caller's storage
                                                    (helper_unsafe.go rvAddressableReadonly)
   - how a container hands its elements to encodeValue:
       interface  rv.Elem(): not addressable, rvpValid reset
       pointer    rvp = rv; rv.Elem(): rvpValid
       slice      rvArrayIndex(isSlice): flagAddr
       struct     structFieldInfoNode.rvField: inherits flagAddr from the struct
       array      rvArrayIndex: flagAddr; kArrayW / kArrayWMbs strip it (rvNotAddressable)
                  when NoAddressableReadonly and the array itself is not addressable
       map        kMap: mapRange / mapGet views of the map's own buckets built on the
                  mapAddrLoopvarRV templates (flagAddr), which kMap strips when
                  NoAddressableReadonly; Canonical: keys come from reflect's MapKeys
                  (copies owned by nobody else), values from mapGet as above

   No proofs here.  Tied to the code by harness/cmd/c13 recv stream (ECase in Corr.v):
   for every callback mechanism x position chain x NoAddressableReadonly x Canonical
   the harness observes whether the caller's value changed when a receiver-writing
   callback ran, and compares with [caller_written]. *)
From Coq Require Import List Bool.
Import ListNotations.
Open Scope bool_scope.

(* one step from a value down to a value it contains *)
Inductive hstep := SIface | SPtr | SSlice | SMapVal | SMapKey | SArray | SField.

(* what the encoder knows about the reflect.Value it is about to encode *)
Inductive epos :=
| PViaPtr    (* rvpValid: rv is the Elem of a pointer of the caller *)
| PAddr      (* rv.CanAddr(): designates caller storage and carries flagAddr *)
| PNonAddr   (* designates caller storage (e.g. what an interface points to), no flagAddr *)
| PCopy.     (* designates a copy nobody else holds (reflect's MapKeys), with or without flagAddr *)

Record eopts := mkeopts { noaddr_ro : bool; canonical : bool }.

Definition enter (o : eopts) (p : epos) (s : hstep) : epos :=
  match s with
  | SIface => PNonAddr
  | SPtr => PViaPtr
  | SSlice => PAddr
  | SMapVal => if noaddr_ro o then PNonAddr else PAddr
  | SMapKey => if canonical o then PCopy else if noaddr_ro o then PNonAddr else PAddr
  | SArray =>
      match p with
      | PCopy => PCopy
      | PNonAddr => if noaddr_ro o then PNonAddr else PAddr
      | PViaPtr | PAddr => PAddr
      end
  | SField =>
      match p with
      | PViaPtr => PAddr
      | PAddr => PAddr
      | PNonAddr => PNonAddr
      | PCopy => PCopy
      end
  end.

(* the argument of Encode arrives in an interface{} (or a reflect.Value): not addressable *)
Definition position (o : eopts) (chain : list hstep) : epos := fold_left (enter o) chain PNonAddr.

Inductive recv := RCaller | RCopy.

Definition addrRV (o : eopts) : recv := if noaddr_ro o then RCopy else RCaller.

(* ptr_recv: the callback has a pointer receiver (encFnInfo.addrE / flagMissingFielderPtr) *)
Definition callback_recv (o : eopts) (ptr_recv : bool) (p : epos) : recv :=
  if ptr_recv then
    match p with
    | PViaPtr | PAddr => RCaller
    | PNonAddr => addrRV o
    | PCopy => RCopy
    end
  else RCopy.

(* does a callback that writes to its receiver change the caller's value? *)
Definition caller_written (o : eopts) (ptr_recv : bool) (chain : list hstep) : bool :=
  match callback_recv o ptr_recv (position o chain) with RCaller => true | RCopy => false end.

(* ---------- the specification side: addressability by the rules of the language ---------- *)

(* a : is the containing value addressable *)
Definition go_enter (a : bool) (s : hstep) : bool :=
  match s with
  | SIface | SMapVal | SMapKey => false
  | SPtr | SSlice => true
  | SArray | SField => a
  end.

Definition go_addressable (chain : list hstep) : bool := fold_left go_enter chain false.

Definition all_steps : list hstep := [SIface; SPtr; SSlice; SMapVal; SMapKey; SArray; SField].

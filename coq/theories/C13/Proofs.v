(* C13 — lemmas.  The detach logic ranges over a finite domain: it is swept
   exhaustively ([forallb ... = true] by vm_compute) and lifted to universally
   quantified statements with the completeness of the enumerations.  The history
   theorem is an induction over operation lists. *)
From Coq Require Import List ZArith NArith Bool Arith Lia.
From Verif Require Import Gen.Consts C13.Model.
Import ListNotations.
Open Scope bool_scope.

(* ---------- the enumerations are complete ---------- *)

Lemma all_opts_complete : forall o, In o all_opts.
Proof. intros [[|] [|]]; cbn; tauto. Qed.
Lemma all_transports_complete : forall t, In t all_transports.
Proof. intros []; cbn; tauto. Qed.
Lemma all_formats_complete : forall f, In f all_formats.
Proof. intros []; cbn; tauto. Qed.
Lemma all_flows_complete : forall f, In f all_flows.
Proof. intros [[|]| | |[|]| | | | |]; cbn; tauto. Qed.
Lemma all_pops_complete : forall p, In p all_pops.
Proof. intros [|[]|[]| |[]|[]| | |[]|[]]; cbn; tauto. Qed.
Lemma all_views_complete : forall b, In b all_views.
Proof. intros [[] [] []]; cbn; tauto. Qed.
Lemma all_lencs_complete : forall l, In l all_lencs.
Proof. intros []; cbn; tauto. Qed.

(* ---------- sweeps ---------- *)

Definition imp (a b : bool) : bool := negb a || b.

(* consumers: whatever truthful view they are given, what they keep may be kept *)
Definition sweep_consumers : bool :=
  forallb (fun o => forallb (fun t => forallb (fun f => forallb (fun b =>
    imp (att_flow f && truthful o t b) (keepable o t (keep o t f b)))
  all_views) all_flows) all_transports) all_opts.

Lemma sweep_consumers_ok : sweep_consumers = true.
Proof. vm_compute. reflexivity. Qed.

Lemma consumers_lemma : forall o t f b,
  att_flow f = true -> truthful o t b = true -> keepable o t (keep o t f b) = true.
Proof.
  intros o t f b Hf Ht.
  pose proof sweep_consumers_ok as H. unfold sweep_consumers in H.
  rewrite forallb_forall in H. specialize (H o (all_opts_complete o)).
  rewrite forallb_forall in H. specialize (H t (all_transports_complete t)).
  rewrite forallb_forall in H. specialize (H f (all_flows_complete f)).
  rewrite forallb_forall in H. specialize (H b (all_views_complete b)).
  unfold imp in H. rewrite Hf, Ht in H. exact H.
Qed.

(* drivers: every attach state reported is truthful for the reader operation used *)
Definition sweep_drivers : bool :=
  forallb (fun o => forallb (fun t => forallb (fun f => forallb (fun p =>
    match produce o t f p with Some b => truthful o t b | None => true end)
  all_pops) all_formats) all_transports) all_opts.

Lemma sweep_drivers_ok : sweep_drivers = true.
Proof. vm_compute. reflexivity. Qed.

Lemma drivers_lemma : forall o t f p b,
  produce o t f p = Some b -> truthful o t b = true.
Proof.
  intros o t f p b Hp.
  pose proof sweep_drivers_ok as H. unfold sweep_drivers in H.
  rewrite forallb_forall in H. specialize (H o (all_opts_complete o)).
  rewrite forallb_forall in H. specialize (H t (all_transports_complete t)).
  rewrite forallb_forall in H. specialize (H f (all_formats_complete f)).
  rewrite forallb_forall in H. specialize (H p (all_pops_complete p)).
  rewrite Hp in H. exact H.
Qed.

(* Raw: the recorded view carries no attach state; rawBytes decides on the options alone *)
Lemma raw_lemma : forall o t l,
  keep o t FRaw (raw_view t l) = (if is_bytes t && zerocopy o then Input else Fresh).
Proof. intros [[|] i] [] l; reflexivity. Qed.

Lemma keepable_nozc : forall o t r, zerocopy o = false -> keepable o t r = owned r.
Proof. intros [z i] t r H; cbn in H; subst z. unfold keepable; destruct r; cbn; reflexivity. Qed.

(* every kept leaf: (driver op, flow) with an attach state, or Raw *)
Inductive kept (o : dopts) (t : transport) : region -> Prop :=
| kept_att : forall fmt p f b,
    produce o t fmt p = Some b -> att_flow f = true -> kept o t (keep o t f b)
| kept_raw : forall l, kept o t (keep o t FRaw (raw_view t l))
| kept_side : forall fmt p f b,                 (* decoded by the side Decoder of a SelfExt extension *)
    produce o TBytes fmt p = Some b -> att_flow f = true ->
    kept o t (side_subst o t (keep o TBytes f b)).

Lemma kept_keepable : forall o t r, kept o t r -> keepable o t r = true.
Proof.
  intros o t r [fmt p f b Hp Hf | l | fmt p f b Hp Hf].
  - apply consumers_lemma; [exact Hf|]. eapply drivers_lemma; exact Hp.
  - rewrite raw_lemma. destruct o as [[|] i], t; reflexivity.
  - assert (Hk : keepable o TBytes (keep o TBytes f b) = true).
    { apply consumers_lemma; [exact Hf|]. eapply drivers_lemma; exact Hp. }
    destruct (keep o TBytes f b); cbn [side_subst]; try exact Hk; try discriminate.
    (* the side Decoder kept a view of its input: ZeroCopy is on *)
    unfold keepable in Hk. cbn in Hk. apply andb_prop in Hk. destruct Hk as [Hz _].
    destruct o as [z i]. cbn in Hz. subst z. destruct t; reflexivity.
Qed.

Lemma side_input_lemma : forall o t,
  side_input o t = Input /\ is_bytes t = true
  \/ side_input o t = Fresh /\ zerocopy o = true /\ is_bytes t = false
  \/ side_input o t = ReaderBuf /\ zerocopy o = false /\ is_bytes t = false.
Proof. intros [[|] i] []; cbn; tauto. Qed.

Lemma owned_lemma : forall o t r, zerocopy o = false -> kept o t r -> owned r = true.
Proof. intros o t r Hz Hk. rewrite <- (keepable_nozc o t r Hz). apply kept_keepable; exact Hk. Qed.

Lemma zerocopy_lemma : forall o t r, kept o t r ->
  r <> ReaderBuf /\ r <> Scratch /\ (r = Input -> zerocopy o = true /\ is_bytes t = true).
Proof.
  intros o t r Hk. apply kept_keepable in Hk. unfold keepable in Hk.
  destruct r; cbn in Hk; repeat apply conj; try discriminate; intro H; try discriminate.
  apply andb_prop in Hk. exact Hk.
Qed.

(* sharper: without ZeroCopy, Table only arises from interning or symbols, Static only
   from empty values and the json literals; everything else is a fresh copy *)
Definition sweep_fresh : bool :=
  forallb (fun o => forallb (fun t => forallb (fun fm => forallb (fun p => forallb (fun f =>
    match produce o t fm p with
    | Some b =>
        imp (negb (zerocopy o) && att_flow f)
          (match keep o t f b with
           | Fresh => true
           | Table => (intern o && match f with FString true | FMapKeyStr | FIfaceBytesKey => true | _ => false end)
                      || match p with PSymDef _ | PSymRef _ => true | _ => false end
           | Static => len_is0 (len b) || match p with PJsonLit => true | _ => false end
           | _ => false
           end)
    | None => true
    end) all_flows) all_pops) all_formats) all_transports) all_opts.

Lemma sweep_fresh_ok : sweep_fresh = true.
Proof. vm_compute. reflexivity. Qed.

Lemma fresh_lemma : forall o t fm p f b,
  zerocopy o = false -> produce o t fm p = Some b -> att_flow f = true ->
  keep o t f b = Fresh
  \/ (keep o t f b = Table /\
      ((intern o = true /\ (f = FString true \/ f = FMapKeyStr \/ f = FIfaceBytesKey)) \/ (exists l, p = PSymDef l \/ p = PSymRef l)))
  \/ (keep o t f b = Static /\ (len_is0 (len b) = true \/ p = PJsonLit)).
Proof.
  intros o t fm p f b Hz Hp Hf.
  pose proof sweep_fresh_ok as H. unfold sweep_fresh in H.
  rewrite forallb_forall in H. specialize (H o (all_opts_complete o)).
  rewrite forallb_forall in H. specialize (H t (all_transports_complete t)).
  rewrite forallb_forall in H. specialize (H fm (all_formats_complete fm)).
  rewrite forallb_forall in H. specialize (H p (all_pops_complete p)).
  rewrite forallb_forall in H. specialize (H f (all_flows_complete f)).
  rewrite Hp in H. unfold imp in H. rewrite Hz, Hf in H. cbn [negb andb orb] in H.
  destruct (keep o t f b); try discriminate.
  - right; left. split; [reflexivity|].
    apply orb_prop in H. destruct H as [H|H].
    + left. apply andb_prop in H. destruct H as [Hi Hm]. split; [exact Hi|].
      destruct f as [[|]| | | | | | | |]; try discriminate; auto.
    + right. destruct p; try discriminate; eauto.
  - right; right. split; [reflexivity|].
    apply orb_prop in H. destruct H as [H|H]; [left; exact H|right].
    destruct p; try discriminate; reflexivity.
  - left; reflexivity.
Qed.

(* with ZeroCopy on a bytes transport nothing that could be a view is copied
   (the option is honoured, not just safe): definite-length strings of 2+ bytes and
   bytes of 1+ are views of the input *)
Lemma zerocopy_views_lemma : forall i fm l b f,
  produce (mkopts true i) TBytes fm (PReadxb l) = Some b ->
  len_le1 l = false ->
  In f [FString false; FString true; FMapKeyStr; FNakedBytes; FBytesInto false; FRawExt] ->
  keep (mkopts true i) TBytes f b = Input.
Proof.
  intros i fm l b f Hp Hl Hf.
  destruct fm; cbn in Hp; try discriminate; destruct l; try discriminate;
    inversion Hp; subst b; cbn in Hf;
    repeat (destruct Hf as [Hf|Hf]; [subst f; reflexivity|]); contradiction.
Qed.

(* ---------- history ---------- *)

Lemma region_eqb_eq : forall a b, region_eqb a b = true <-> a = b.
Proof. intros [] []; cbn; split; intro H; try discriminate; reflexivity. Qed.

Lemma blk_eqb_eq : forall a b, blk_eqb a b = true <-> a = b.
Proof.
  intros [r1 i1] [r2 i2]. unfold blk_eqb; cbn. rewrite andb_true_iff, region_eqb_eq, Nat.eqb_eq.
  split; [intros [-> ->]; reflexivity | intro H; inversion H; auto].
Qed.

Lemma upd_other : forall c k v x, x <> k -> upd c k v x = c x.
Proof.
  intros c k v x H. unfold upd. destruct (blk_eqb x k) eqn:E; [|reflexivity].
  apply blk_eqb_eq in E. contradiction.
Qed.

Lemma next_mono_step : forall m h, next m <= next (step m h).
Proof. intros m []; cbn; lia. Qed.

(* one step leaves a well-formed leaf alone unless the step writes its region *)
Lemma step_frame : forall m h l,
  leaf_wf m l ->
  (owned (fst l) = true \/ (fst l = Input /\ scribbles h = false)) ->
  cells (step m h) l = cells m l /\ leaf_wf (step m h) l.
Proof.
  intros m h [r i] Hwf Hr. unfold leaf_wf in *. cbn [fst snd] in *.
  split.
  - destruct h as [j bs|j bs|j bs|tb bs|]; cbn [step cells]; try reflexivity; apply upd_other; intro E; inversion E; subst.
    + destruct Hr as [Hr|[_ Hr]]; discriminate.
    + destruct Hr as [Hr|[Hr _]]; discriminate.
    + destruct Hr as [Hr|[Hr _]]; discriminate.
    + destruct tb; cbn in Hwf; lia.
  - pose proof (next_mono_step m h). destruct r; auto; lia.
Qed.

Lemma run_frame : forall ops m l,
  leaf_wf m l ->
  (owned (fst l) = true \/ (fst l = Input /\ forallb (fun h => negb (scribbles h)) ops = true)) ->
  cells (run m ops) l = cells m l.
Proof.
  induction ops as [|h ops IH]; intros m l Hwf Hr; [reflexivity|].
  cbn [run fold_left]. change (fold_left step ops (step m h)) with (run (step m h) ops).
  assert (Hs : owned (fst l) = true \/ (fst l = Input /\ scribbles h = false)).
  { destruct Hr as [Hr|[Hi Hf]]; [left; exact Hr|right]. split; [exact Hi|].
    cbn in Hf. apply andb_prop in Hf. destruct Hf as [Hf _]. destruct (scribbles h); [discriminate|reflexivity]. }
  destruct (step_frame m h l Hwf Hs) as [Hc Hw].
  rewrite IH; [exact Hc|exact Hw|].
  destruct Hr as [Hr|[Hi Hf]]; [left; exact Hr|right]. split; [exact Hi|].
  cbn in Hf. apply andb_prop in Hf. tauto.
Qed.

Lemma stable_lemma : forall o t r i m ops,
  kept o t r -> leaf_wf m (r, i) ->
  (zerocopy o = false \/ forallb (fun h => negb (scribbles h)) ops = true) ->
  cells (run m ops) (r, i) = cells m (r, i).
Proof.
  intros o t r i m ops Hk Hwf Hz. apply run_frame; [exact Hwf|]. cbn [fst].
  destruct Hz as [Hz|Hz].
  - left. eapply owned_lemma; eauto.
  - pose proof (kept_keepable o t r Hk) as Hkp. unfold keepable in Hkp.
    apply orb_prop in Hkp. destruct Hkp as [Ho|Hi]; [left; exact Ho|right].
    destruct r; try discriminate. split; [reflexivity|exact Hz].
Qed.

(* the converse direction makes the statement sharp: a leaf in Input, ReaderBuf or
   Scratch is changed by some later operation *)
Lemma unstable_lemma : forall r i m, owned r = false ->
  exists h, cells (step m h) (r, i) <> cells m (r, i).
Proof.
  intros r i m Hr.
  set (v := (1%N :: cells m (r, i))).
  assert (Hne : v <> cells m (r, i)).
  { unfold v. intro E. apply (f_equal (@length N)) in E. cbn in E. lia. }
  assert (Hu : forall k, upd (cells m) k v k = v).
  { intro k. unfold upd. destruct (blk_eqb k k) eqn:E; [reflexivity|].
    assert (blk_eqb k k = true) by (apply blk_eqb_eq; reflexivity). congruence. }
  destruct r; try discriminate.
  - exists (HScribble i v). cbn. rewrite Hu. exact Hne.
  - exists (HRefill i v). cbn. rewrite Hu. exact Hne.
  - exists (HScratch i v). cbn. rewrite Hu. exact Hne.
Qed.

Lemma pure_lemma : forall (V : Type) (enc : V -> list N) (v : V), fst (encode_model enc v) = v.
Proof. reflexivity. Qed.

(* C13 — provenance model: where do the bytes of a kept string / []byte live?

   Every byte string a decoder driver hands to the generic layer is a VIEW of
   some memory.  The model tags it with the REGION it lives in, the attach state
   the driver reports with it (dBytesAttachState, decode.base.go:56-64; the
   numeric values and their order come from Gen/Consts.v, regenerated from the
   working tree on every run) and a length class (the code branches on
   len <= 1, len > internMaxStrLen, cap == 0).  [keep] is the generic layer's
   decision for each flow by which such bytes reach a value the caller keeps:
   copy (result in Fresh memory) or view (same region).

   Hand written, no proofs here.  Tied to the code by harness/cmd/c13:
   - unit stream: the real drivers' DecodeBytes/DecodeStringAsBytes are called
     through the verif hook on hand-built inputs; reported attach state and the
     address range of the returned slice are compared with [produce];
   - api stream: pointer-range test of every decoded string/[]byte leaf against
     the input buffer, compared with [keep (produce ...)];
   - behavioural oracle (no model): decoded values re-compared after the input
     is overwritten and the Decoder reused / Reset.

   Regions beyond the four of DESIGN.md §5:
     Table  — memory referenced from a decoder-owned table but written once and
              never again (binc symbol table entries, InternString map entries);
     Static — package-level memory that is never written (jsonLitb "true"/"false",
              zeroByteSlice, nil) or no memory at all (zero capacity).
   Both are, like Fresh, never written by any later operation (History below). *)
From Coq Require Import List ZArith NArith Bool.
From Verif Require Import Gen.Consts.
Import ListNotations.
Open Scope bool_scope.

Inductive region := Input | ReaderBuf | Scratch | Table | Static | Fresh.
Inductive transport := TBytes | TIoUnbuf | TIoBuf.   (* d.bytes ; !d.bytes && !d.bufio ; d.bufio *)
Inductive format := Cbor | Msgpack | Binc | Simple | Json.
Inductive att := AInvalid | AView | ABuffer | AViewZC | ADetach.

(* length classes the code distinguishes:
   L0c: len 0 and cap 0 (nil, zeroByteSlice, an empty view at the very end of the input);
   L0: len 0, cap > 0; L1: len 1; LSmall: 2..internMaxStrLen; LBig: above. *)
Inductive lenc := L0c | L0 | L1 | LSmall | LBig.

(* the decode options the detach logic reads *)
Record dopts := mkopts { zerocopy : bool; intern : bool }.

Record bview := mkview { reg : region; st : att; len : lenc }.

Definition is_bytes (t : transport) : bool := match t with TBytes => true | _ => false end.
Definition is_bufio (t : transport) : bool := match t with TIoBuf => true | _ => false end.

Definition att_code (a : att) : Z :=
  match a with
  | AInvalid => dBytesAttachInvalid
  | AView => dBytesAttachView
  | ABuffer => dBytesAttachBuffer
  | AViewZC => dBytesAttachViewZerocopy
  | ADetach => dBytesDetach
  end.

(* "noCopy if >= dBytesAttachViewZerocopy", "mutable if <= dBytesAttachBuffer" *)
Definition noCopy (a : att) : bool := (dBytesAttachViewZerocopy <=? att_code a)%Z.
Definition mutable (a : att) : bool := (att_code a <=? dBytesAttachBuffer)%Z.

(* decoderBase.attachState (decode.base.go:557) *)
Definition attachState (o : dopts) (t : transport) (usingBufFromReader : bool) : att :=
  if usingBufFromReader then ABuffer
  else if negb (is_bytes t) then ADetach
  else if zerocopy o then AViewZC
  else AView.

Definition len_le1 (l : lenc) : bool := match l with L0c | L0 | L1 => true | _ => false end.
Definition len_is0 (l : lenc) : bool := match l with L0c | L0 => true | _ => false end.
Definition cap_is0 (l : lenc) : bool := match l with L0c => true | _ => false end.
Definition len_big (l : lenc) : bool := match l with LBig => true | _ => false end.

(* classify a concrete (len, cap == 0) pair *)
Definition classify (n : Z) (cap0 : bool) : lenc :=
  if (n =? 0)%Z then (if cap0 then L0c else L0)
  else if (n =? 1)%Z then L1
  else if (n <=? internMaxStrLen)%Z then LSmall
  else LBig.

(* ---------- the generic layer: consumers ---------- *)

(* decoderBase.detach2Str (decode.base.go:508). [mapkey]: d.c == containerMapKey at the call. *)
Definition detach2Str (o : dopts) (mapkey : bool) (b : bview) : region :=
  if len_le1 (len b) then Fresh                                   (* string(v) *)
  else if noCopy (st b) then reg b                                (* stringView(v) *)
  else if negb (intern o) || negb mapkey || len_big (len b) then Fresh   (* string(v) *)
  else Table.                                                     (* d.is.string(v): the interned copy *)

(* decoderBase.detach2Bytes (decode.base.go:545) *)
Definition detach2Bytes (b : bview) : region :=
  if cap_is0 (len b) || noCopy (st b) then reg b
  else if len_is0 (len b) then Static                             (* zeroByteSlice *)
  else Fresh.                                                     (* make + copy *)

(* decoder.decodeBytesInto (decode.go:1589); a copy goes into the destination's own
   storage or a new slice; mustFit with too small a destination is an error (nothing kept) *)
Definition decodeBytesInto (mustFit : bool) (b : bview) : region :=
  if cap_is0 (len b) || (noCopy (st b) && negb mustFit) then reg b
  else if len_is0 (len b) then Static
  else Fresh.

(* decoder.rawBytes (decode.go:1616): the view is what nextValueBytes recorded;
   it is kept as it is only for a bytes transport with ZeroCopy *)
Definition rawBytes (o : dopts) (t : transport) (b : bview) : region :=
  if is_bytes t && zerocopy o then reg b else Fresh.

Inductive flow :=
| FString (mapkey : bool)      (* detach2Str: kString, *string, fastpath elements and keys, naked strings, symbols *)
| FMapKeyStr                   (* kMap with key type string (unsafe build): bytes2Str, detached when the key is kept *)
| FNakedBytes                  (* detach2Bytes: bytes into interface{} (fauxUnionReadRawBytes) *)
| FBytesInto (mustFit : bool)  (* decodeBytesInto: []byte destinations (false), arrays / non-settable slices (true) *)
| FRawExt                      (* DecodeRawExt: RawExt.setData(xbs, att >= dBytesAttachViewZerocopy) *)
| FNakedExt                    (* kInterfaceNaked, valueTypeExt without registered ext: setData(bytes, false) *)
| FRaw                         (* rawBytes *)
| FSymEntry                    (* binc: the bytes stored in the symbol table *)
| FIfaceBytesKey.              (* kMap, key type interface{}, the key decoded to a []byte (already kept by
                                  FNakedBytes): turned into a string key *)

(* kMap (decode.go:1086-1200): kstr = stringView(bs); mapKeyStringSharesBytesBuf = att <= Buffer.
   If it shares: with a buffered io reader it is detached at once (d.c is still
   containerMapKey, so it may be interned); otherwise just before the value is
   decoded / the nil value is set (d.c is containerMapValue).  A key that is not
   stored (doMapSet = false) is used for the lookup only. *)
Definition mapKeyStr (o : dopts) (t : transport) (b : bview) : region :=
  if mutable (st b) then detach2Str o (is_bufio t) b else reg b.

(* kMap (decode.go:1101-1108): kstr = bytes2Str(rvGetBytes(rvk2), dBytesAttachView), so it
   always "shares"; it is detached like a string key, but with the variable [att], which
   is only ever assigned for string-typed keys: here it still holds its zero value
   (dBytesAttachInvalid), so the key is always copied *)
Definition ifaceBytesKey (o : dopts) (t : transport) (b : bview) : region :=
  detach2Str o (is_bufio t) (mkview (reg b) AInvalid (len b)).

Definition keep (o : dopts) (t : transport) (f : flow) (b : bview) : region :=
  match f with
  | FString mk => detach2Str o mk b
  | FMapKeyStr => mapKeyStr o t b
  | FNakedBytes => detach2Bytes b
  | FBytesInto mf => decodeBytesInto mf b
  | FRawExt => if noCopy (st b) then reg b else Fresh
  | FNakedExt => Fresh
  | FRaw => rawBytes o t b
  | FSymEntry => detach2Bytes b
  | FIfaceBytesKey => ifaceBytesKey o t b
  end.

(* the length class of what detach2Bytes returns: a copy has cap = len, the empty copy is zeroByteSlice *)
Definition detach2Bytes_len (b : bview) : lenc :=
  if cap_is0 (len b) || noCopy (st b) then len b
  else if len_is0 (len b) then L0c else len b.

(* ---------- the transport: what a read hands back (reader.go) ---------- *)

(* views of bytesDecReader point into the input; views of ioDecReader into z.buf *)
Definition reader_view (t : transport) : region := if is_bytes t then Input else ReaderBuf.

(* readxb(n): (region, usingBuf, length class of the result).
   bytes: z.b[z.c:z.c+n], false.  io: n == 0 gives (zeroByteSlice, false), else a
   slice of z.buf (bufio: z.buf[pos:rc]; unbuffered: appended to z.buf), true. *)
Definition readxb (t : transport) (l : lenc) : region * bool * lenc :=
  if is_bytes t then ((if cap_is0 l then Static else Input), false, l)
  else if len_is0 l then (Static, false, L0c)
  else (ReaderBuf, true, l).

(* nextValueBytes = stopRecording(): z.b[z.r:z.c] / z.buf[recc:rc] / z.buf; at least one byte *)
Definition raw_view (t : transport) (l : lenc) : bview := mkview (reader_view t) AInvalid l.

(* ---------- the drivers: producers ---------- *)

Inductive pop :=
| PNil                   (* advanceNil / json null: nil slice *)
| PReadxb (l : lenc)     (* definite-length string, bytes or ext payload: d.r.readxb(n); attachState(usingBuf) *)
| PScratch (l : lenc)    (* assembled in decoder scratch: cbor indefinite chunks and array of uint8 in d.d.buf
                            (also msgpack/binc/simple arrays), json escaped string / base64 / array in the json driver's buf *)
| PScratchNil            (* cbor: nothing appended to a nil d.d.buf: zeroByteSlice, Detach (fnEnsureNonNilBytes) *)
| PJsonPlain (l : lenc)  (* jsonReadAsisChars stopped at the closing quote: the reader's view; attachState(!d.bytes) *)
| PJsonNum (l : lenc)    (* DecodeStringAsBytes on a number: jsonReadNum's view; attachState(!d.bytes) *)
| PJsonLit               (* true / false: a slice of the package-level jsonLitb, Detach *)
| PJsonEmptyB64          (* "" decoded as bytes: zeroByteSlice, Detach *)
| PSymDef (l : lenc)     (* binc symbol with definition: readxb, detach2Bytes(attachState(usingBuf)) into d.s, Detach *)
| PSymRef (l : lenc).    (* binc symbol reference: the table entry defined earlier in the stream, Detach *)

Definition is_json (f : format) : bool := match f with Json => true | _ => false end.
Definition is_binc (f : format) : bool := match f with Binc => true | _ => false end.
Definition is_cbor (f : format) : bool := match f with Cbor => true | _ => false end.

Definition sym_region (entry : region) : region :=
  match entry with Input => Input | Fresh => Table | r => r end.

Definition sym_view (o : dopts) (t : transport) (l : lenc) : bview :=
  let '(r, ub, l') := readxb t l in
  let v := mkview r (attachState o t ub) l' in
  mkview (sym_region (keep o t FSymEntry v)) ADetach (detach2Bytes_len v).

(* None: the driver has no such operation (or it cannot yield that length class) *)
Definition produce (o : dopts) (t : transport) (f : format) (p : pop) : option bview :=
  match p with
  | PNil => Some (mkview Static (if is_json f then ADetach else AInvalid) L0c)
  | PReadxb l =>
      if is_json f then None
      else let '(r, ub, l') := readxb t l in Some (mkview r (attachState o t ub) l')
  | PScratch l => Some (mkview (if cap_is0 l then Static else Scratch) ABuffer l)
  | PScratchNil => if is_cbor f then Some (mkview Static ADetach L0c) else None
  | PJsonPlain l =>
      if is_json f && negb (cap_is0 l)
      then Some (mkview (reader_view t) (attachState o t (negb (is_bytes t))) l) else None
  | PJsonNum l =>
      if is_json f && negb (len_is0 l)
      then Some (mkview (reader_view t) (attachState o t (negb (is_bytes t))) l) else None
  | PJsonLit => if is_json f then Some (mkview Static ADetach LSmall) else None
  | PJsonEmptyB64 => if is_json f then Some (mkview Static ADetach L0c) else None
  | PSymDef l | PSymRef l => if is_binc f then Some (sym_view o t l) else None
  end.

(* ---------- side Decoder (SelfExt) ---------- *)

(* An extension whose tag is registered with SelfExt is decoded by a side Decoder of the
   same Handle (so the same ZeroCopy) reading the extension's payload as ITS input []byte:
   kInterfaceNaked (decode.go, valueTypeExt) and DecodeExt of msgpack / binc / simple.
   The payload [xbs] is a view handed back by the outer reader; decoderBase.sideDecodeInput
   copies it when ZeroCopy is on and it is not an input view (state < ViewZerocopy), because
   the side Decoder's ZeroCopy results are views of whatever it is given. *)
Definition side_input (o : dopts) (t : transport) : region :=
  let '(r, ub, _) := readxb t LBig in
  if zerocopy o && negb (noCopy (attachState o t ub)) then Fresh else r.

(* a leaf the side Decoder (a bytes Decoder) keeps, seen from the outer Decoder:
   "its input" is the payload *)
Definition side_subst (o : dopts) (t : transport) (r : region) : region :=
  match r with Input => side_input o t | _ => r end.

(* ---------- what the consumers rely on ---------- *)

(* memory that no later operation writes *)
Definition owned (r : region) : bool :=
  match r with Fresh | Table | Static => true | _ => false end.

(* may be kept as it is under these options *)
Definition keepable (o : dopts) (t : transport) (r : region) : bool :=
  owned r || (match r with Input => zerocopy o && is_bytes t | _ => false end).

(* a reported attach state is truthful for the bytes it comes with:
   - a state that lets consumers keep the view (>= ViewZerocopy) is only reported for
     memory that may be kept under the options in force;
   - View / ViewZerocopy are only reported for input views, with the ZeroCopy they name;
   - "no capacity" means no memory. *)
Definition truthful (o : dopts) (t : transport) (b : bview) : bool :=
  (if noCopy (st b) then keepable o t (reg b) else true)
  && (match st b with
      | AView => is_bytes t && negb (zerocopy o) && match reg b with Input | Static => true | _ => false end
      | AViewZC => is_bytes t && zerocopy o && match reg b with Input | Static => true | _ => false end
      | _ => true
      end)
  && (if cap_is0 (len b) then match reg b with Static => true | _ => false end else true).

(* ---------- enumerations (the finite domain the theorems sweep) ---------- *)

Definition all_opts : list dopts :=
  [mkopts false false; mkopts false true; mkopts true false; mkopts true true].
Definition all_transports : list transport := [TBytes; TIoUnbuf; TIoBuf].
Definition all_formats : list format := [Cbor; Msgpack; Binc; Simple; Json].
Definition all_atts : list att := [AInvalid; AView; ABuffer; AViewZC; ADetach].
Definition all_regions : list region := [Input; ReaderBuf; Scratch; Table; Static; Fresh].
Definition all_lencs : list lenc := [L0c; L0; L1; LSmall; LBig].
Definition all_flows : list flow :=
  [FString false; FString true; FMapKeyStr; FNakedBytes; FBytesInto false; FBytesInto true;
   FRawExt; FNakedExt; FRaw; FSymEntry; FIfaceBytesKey].
Definition all_pops : list pop :=
  [PNil; PScratchNil; PJsonLit; PJsonEmptyB64]
  ++ map PReadxb all_lencs ++ map PScratch all_lencs ++ map PJsonPlain all_lencs
  ++ map PJsonNum all_lencs ++ map PSymDef all_lencs ++ map PSymRef all_lencs.
Definition all_views : list bview :=
  flat_map (fun r => flat_map (fun a => map (fun l => mkview r a l) all_lencs) all_atts) all_regions.

(* flows fed by driver-reported views (FRaw is fed by raw_view, which carries no attach state) *)
Definition att_flow (f : flow) : bool := match f with FRaw => false | _ => true end.

(* ---------- history: what later operations write ---------- *)

Definition blk := (region * nat)%type.

Record mem := mkmem { cells : blk -> list N; next : nat }.

(* operations that can follow a Decode on the same Decoder / input *)
Inductive hop :=
| HScribble (i : nat) (bs : list N)   (* the caller overwrites input buffer i *)
| HRefill (i : nat) (bs : list N)     (* a later read fills / shifts / grows / recycles reader buffer i *)
| HScratch (i : nat) (bs : list N)    (* a later decode reuses scratch i (d.buf, d.b, the json driver's buf, the free list) *)
| HAlloc (table : bool) (bs : list N) (* a later decode allocates a new block (copy, interned string, symbol) *)
| HReset.                             (* Reset / ResetBytes: drops tables and cursors, writes no block *)

Definition region_eqb (a b : region) : bool :=
  match a, b with
  | Input, Input | ReaderBuf, ReaderBuf | Scratch, Scratch | Table, Table | Static, Static | Fresh, Fresh => true
  | _, _ => false
  end.

Definition blk_eqb (a b : blk) : bool := region_eqb (fst a) (fst b) && Nat.eqb (snd a) (snd b).

Definition upd (c : blk -> list N) (k : blk) (v : list N) : blk -> list N :=
  fun x => if blk_eqb x k then v else c x.

Definition step (m : mem) (h : hop) : mem :=
  match h with
  | HScribble i bs => mkmem (upd (cells m) (Input, i) bs) (next m)
  | HRefill i bs => mkmem (upd (cells m) (ReaderBuf, i) bs) (next m)
  | HScratch i bs => mkmem (upd (cells m) (Scratch, i) bs) (next m)
  | HAlloc tb bs => mkmem (upd (cells m) ((if tb then Table else Fresh), next m) bs) (S (next m))
  | HReset => m
  end.

Definition run (m : mem) (ops : list hop) : mem := fold_left step ops m.

Definition scribbles (h : hop) : bool := match h with HScribble _ _ => true | _ => false end.

(* a leaf of a kept value: allocated blocks have ids below [next] *)
Definition leaf_wf (m : mem) (l : blk) : Prop :=
  match fst l with Fresh | Table => snd l < next m | _ => True end.

(* ---------- Encode ---------- *)

(* Encode in the model is a function of the value: there is no state for it to
   disturb.  The content of "Encode never modifies the value it is given" is in
   the tie (deep snapshot before/after on the implementation). *)
Definition encode_model {V : Type} (enc : V -> list N) (v : V) : V * list N := (v, enc v).

(* C13 — correspondence: evaluate the provenance model on what harness/cmd/c13
   observed on the implementation and report the ids that differ.

   UCase: one driver call through the verif hook (VerifC13DriverBytes): the attach
          state it reported, where the returned slice lives (address-range tests
          against the input, the reader's buffer, the decoder's scratch buffers,
          the binc symbol table), its length and whether its capacity is zero.
   ACase: one class of string / []byte leaves of values decoded through the public
          API: is the leaf inside the input buffer (pointer-range test)?
   SCase: the same for leaves of a value decoded by the side Decoder of a SelfExt extension.
   RCase: the same for Raw leaves.
   ECase: Encode of a value whose encode callback (Binary/Text/JSON marshaler, Selfer,
          MissingFielder; pointer or value receiver) writes to its receiver, sitting at the
          end of the position chain under the argument of Encode, with NoAddressableReadonly
          and Canonical as given: did the caller's value change (deep snapshot before/after)? *)
From Coq Require Import List NArith ZArith Bool.
From Verif Require Import Gen.Consts C13.Model C13.EncModel.
Import ListNotations.
Open Scope bool_scope.

Inductive popk := KNil | KReadxb | KScratch | KScratchNil | KJsonPlain | KJsonNum | KJsonLit
                | KJsonEmptyB64 | KSymDef | KSymRef.

Definition mkpop (k : popk) (l : lenc) : pop :=
  match k with
  | KNil => PNil | KReadxb => PReadxb l | KScratch => PScratch l | KScratchNil => PScratchNil
  | KJsonPlain => PJsonPlain l | KJsonNum => PJsonNum l | KJsonLit => PJsonLit
  | KJsonEmptyB64 => PJsonEmptyB64 | KSymDef => PSymDef l | KSymRef => PSymRef l
  end.

Inductive case :=
| UCase (id : N) (zc : bool) (t : transport) (fm : format) (k : popk) (n : Z) (c0 : bool)
        (o_att : Z) (o_rc : N) (o_len : Z) (o_cap0 : bool)
| ACase (id : N) (zc it : bool) (t : transport) (fm : format) (f : flow) (k : popk) (n : Z) (o_input : bool)
| SCase (id : N) (zc it : bool) (t : transport) (fm : format) (f : flow) (k : popk) (n : Z) (o_input : bool)
| RCase (id : N) (zc : bool) (t : transport) (n : Z) (o_input : bool)
| ECase (id : N) (nar canon ptr_recv : bool) (chain : list hstep) (o_written : bool).

Definition cid (c : case) : N :=
  match c with UCase i _ _ _ _ _ _ _ _ _ _ => i | ACase i _ _ _ _ _ _ _ _ => i | SCase i _ _ _ _ _ _ _ _ => i | RCase i _ _ _ _ => i
                 | ECase i _ _ _ _ _ => i end.

(* 0 no memory (cap 0), 1 input, 2 reader buffer, 3 decoder scratch, 4 symbol table, 5 anything else *)
Definition rclass (b : bview) : N :=
  if cap_is0 (len b) then 0%N
  else match reg b with
       | Input => 1 | ReaderBuf => 2 | Scratch => 3 | Table => 4 | Static | Fresh => 5
       end%N.

Definition lenc_eqb (a b : lenc) : bool :=
  match a, b with
  | L0c, L0c | L0, L0 | L1, L1 | LSmall, LSmall | LBig, LBig => true
  | _, _ => false
  end.

Definition is_input (r : region) : bool := match r with Input => true | _ => false end.

Definition check_case (c : case) : bool :=
  match c with
  | UCase _ zc t fm k n c0 o_att o_rc o_len o_cap0 =>
      match produce (mkopts zc false) t fm (mkpop k (classify n c0)) with
      | Some b =>
          Z.eqb (att_code (st b)) o_att && N.eqb (rclass b) o_rc
          && lenc_eqb (len b) (classify o_len o_cap0)
      | None => false
      end
  | ACase _ zc it t fm f k n o_input =>
      match produce (mkopts zc it) t fm (mkpop k (classify n false)) with
      | Some b => Bool.eqb (is_input (keep (mkopts zc it) t f b)) o_input
      | None => false
      end
  | SCase _ zc it t fm f k n o_input =>
      (* a leaf of a SelfExt value: kept by the side (bytes) Decoder from the extension payload *)
      match produce (mkopts zc it) TBytes fm (mkpop k (classify n false)) with
      | Some b => Bool.eqb (is_input (side_subst (mkopts zc it) t (keep (mkopts zc it) TBytes f b))) o_input
      | None => false
      end
  | RCase _ zc t n o_input =>
      Bool.eqb (is_input (keep (mkopts zc false) t FRaw (raw_view t (classify n false)))) o_input
  | ECase _ nar canon ptr_recv chain o_written =>
      Bool.eqb (caller_written (mkeopts nar canon) ptr_recv chain) o_written
  end.

Definition mismatches (cs : list case) : list N :=
  map cid (filter (fun c => negb (check_case c)) cs).

(* C13 — Encode side: lemmas about C13.EncModel (which memory an encode callback runs on). *)
From Coq Require Import List Bool.
From Verif Require Import C13.EncModel.
Import ListNotations.

Definition off_caller (p : epos) : Prop := p = PNonAddr \/ p = PCopy.

Lemma enter_inv : forall o p a s,
  noaddr_ro o = true ->
  (a = false -> off_caller p) ->
  go_enter a s = false -> off_caller (enter o p s).
Proof.
  intros o p a s Hn Hp Hs. unfold off_caller in *.
  destruct s; cbn [enter go_enter] in *; try discriminate; rewrite ?Hn.
  - left; reflexivity.
  - left; reflexivity.
  - destruct (canonical o); [right | left]; reflexivity.
  - destruct (Hp Hs) as [E | E]; rewrite E; [left | right]; reflexivity.
  - destruct (Hp Hs) as [E | E]; rewrite E; [left | right]; reflexivity.
Qed.

Lemma fold_inv : forall o chain p a,
  noaddr_ro o = true ->
  (a = false -> off_caller p) ->
  fold_left go_enter chain a = false -> off_caller (fold_left (enter o) chain p).
Proof.
  intros o chain. induction chain as [| s r IH]; intros p a Hn Hp Hf; cbn [fold_left] in *.
  - exact (Hp Hf).
  - apply (IH (enter o p s) (go_enter a s) Hn); [| exact Hf].
    intro Hs. exact (enter_inv o p a s Hn Hp Hs).
Qed.

Lemma pure_recv_lemma : forall o ptr_recv chain,
  noaddr_ro o = true -> go_addressable chain = false ->
  callback_recv o ptr_recv (position o chain) = RCopy.
Proof.
  intros o pr chain Hn Hg. unfold position, go_addressable in *.
  assert (H : off_caller (fold_left (enter o) chain PNonAddr)).
  { apply (fold_inv o chain PNonAddr false Hn); [| exact Hg]. intros _. left; reflexivity. }
  unfold callback_recv, addrRV. destruct pr; [| reflexivity].
  destruct H as [E | E]; rewrite E; [rewrite Hn |]; reflexivity.
Qed.

Lemma pure_recv_unwritten_lemma : forall o ptr_recv chain,
  noaddr_ro o = true -> go_addressable chain = false -> caller_written o ptr_recv chain = false.
Proof.
  intros o pr chain Hn Hg. unfold caller_written. rewrite (pure_recv_lemma o pr chain Hn Hg). reflexivity.
Qed.

Lemma recv_value_lemma : forall o chain, caller_written o false chain = false.
Proof. intros o chain. reflexivity. Qed.

(* a pointer or a slice of the caller: the callback gets the caller's own element *)
Lemma recv_user_pointer_lemma : forall o chain s,
  s = SPtr \/ s = SSlice -> caller_written o true (chain ++ [s]) = true.
Proof.
  intros o chain s Hs. unfold caller_written, position. rewrite fold_left_app. cbn [fold_left].
  destruct Hs as [E | E]; rewrite E; reflexivity.
Qed.

Lemma no_copy_without_canonical : forall o chain p,
  canonical o = false -> p <> PCopy -> fold_left (enter o) chain p <> PCopy.
Proof.
  intros o chain. induction chain as [| s r IH]; intros p Hc Hp; cbn [fold_left].
  - exact Hp.
  - apply IH; [exact Hc |].
    destruct s; cbn [enter]; rewrite ?Hc;
      try (destruct (noaddr_ro o); discriminate); try discriminate;
      destruct p; try (destruct (noaddr_ro o)); try discriminate; exact Hp.
Qed.

(* sharpness: without the option every pointer-receiver callback reaches the caller's storage *)
Lemma recv_default_lemma : forall chain, caller_written (mkeopts false false) true chain = true.
Proof.
  intro chain. unfold caller_written, callback_recv, addrRV, position.
  pose proof (no_copy_without_canonical (mkeopts false false) chain PNonAddr eq_refl) as H.
  destruct (fold_left (enter (mkeopts false false)) chain PNonAddr); try reflexivity.
  exfalso. apply H; [discriminate | reflexivity].
Qed.

"""field-by-field comparison of two c05 digest files"""
import sys, collections

def parse(path):
    d = {}
    for l in open(path, errors='replace'):
        l = l.rstrip('\n')
        p = l.split('|')
        if len(p) < 4:
            continue
        idx = int(p[0])
        fields = collections.OrderedDict()
        for f in p[4:]:
            k, _, v = f.partition(':')
            fields[k] = v
        d[idx] = {'format': p[1], 'opts': p[2], 'type': p[3], 'fields': fields, 'line': l}
    return d

def diff(a, b):
    """returns list of (idx, format, opts, type, [fields differing], a_line, b_line)"""
    out = []
    for idx in sorted(set(a) | set(b)):
        if idx not in a or idx not in b:
            out.append((idx, (a.get(idx) or b.get(idx))['format'], (a.get(idx) or b.get(idx))['opts'], (a.get(idx) or b.get(idx))['type'], ['<missing: one variant stopped (crash/hang) before this case>'], a.get(idx, {}).get('line', ''), b.get(idx, {}).get('line', '')))
            continue
        x, y = a[idx], b[idx]
        fs = [k for k in set(x['fields']) | set(y['fields']) if x['fields'].get(k) != y['fields'].get(k)]
        if fs:
            out.append((idx, x['format'], x['opts'], x['type'], sorted(fs), x['line'], y['line']))
    return out

if __name__ == '__main__':
    a, b = parse(sys.argv[1]), parse(sys.argv[2])
    ds = diff(a, b)
    print(len(ds), 'differing cases')
    for d in ds[:int(sys.argv[3]) if len(sys.argv) > 3 else 20]:
        print(d[0], d[1], d[4], '|', d[2][:100], '|', d[3][:160])

"""The standard pipeline most properties use (see vlib.py docstring)."""
import os
import vlib


def standard_check(chk, spec):
    tier = chk.tier
    pid = chk.pid
    cases_dir = os.path.join(chk.bdir, 'cases')
    # 1. translator
    ok_t = chk.srcgen()
    # 2. Coq closure of the property (theorems + the executable correspondence model)
    ok_c = chk.coq_build(spec['coq_targets'], jobs=spec.get('jobs', 8), timeout=spec.get('coq_timeout', 1500)) if ok_t else False
    # 3. audit + Print Assumptions
    if ok_c:
        problems = chk.audit_and_assumptions(spec['prop_files'], spec['closure_dirs'])
        for p in problems:
            chk.log('AUDIT: ' + p)
            chk.broken.append('audit: ' + p)
    else:
        n = sum(len(chk.theorems_of(f)) for f in spec['prop_files'])
        chk.cov['obligations'] = n + len(chk.broken_translation_targets())
        chk.cov['discharged'] = 0
    # 4. harness against the current tree
    summ = None
    exe = chk.go_build(spec['harness'], tags=spec.get('tags', 'verif'))
    if exe:
        args = list(spec['args'][tier]) + ['-cases', cases_dir]
        summ, out = chk.run_harness(exe, args, timeout=spec.get('harness_timeout', {}).get(tier, 900))
        if summ is None:
            chk.broken.append('harness cmd/%s crashed or timed out on the current tree: %s' % (spec['harness'], out.strip()[-400:]))
        else:
            chk.absorb(summ, label=spec['harness'])
            chk.absorb_failures(summ)
    # 5. model on the same cases
    if ok_c and summ is not None and summ.get('model_cases', 0) > 0:
        okf, mism, errs = chk.coq_eval_cases(cases_dir, timeout=spec.get('eval_timeout', {}).get(tier, 900))
        chk.cov['traces_validated_against_impl'] = summ.get('model_cases', 0) - len(mism) if not errs else 0
        chk.cov['model_mismatches'] = len(mism)
        for e in errs:
            chk.broken.append('correspondence: model evaluation failed: ' + e)
        if mism:
            chk.cov['mismatching_cases'] = ['%s#%d' % m for m in mism[:20]]
            chk.broken.append('correspondence %s: model and implementation differ on %d case(s), e.g. %s case id %d'
                              % (spec['harness'], len(mism), mism[0][0], mism[0][1]))
    # 6. extra per-property steps
    if spec.get('extra'):
        spec['extra'](chk, ok_c)
    # 7. something no longer checks and no concrete failing input yet: search
    if chk.broken and not chk.violations and not chk.known_hits_cover_broken():
        chk.log('broken obligation(s)/correspondence; searching for a concrete failing input')
        if exe and spec.get('search_args'):
            for s in range(3):
                summ2, _ = chk.run_harness(exe, list(spec['search_args']) + ['-cases', os.path.join(chk.bdir, 'cases_search')],
                                           timeout=1200, env={'VERIF_SEED': str(chk.seed * 1000 + 17 + s)})
                if summ2 is not None:
                    chk.cov['evaluations'] += summ2.get('evaluations', 0)
                    chk.absorb_failures(summ2)
                if chk.violations:
                    break
        if not chk.violations:
            chk.report('broken-obligation', ' ; '.join(chk.broken)[:1500],
                       case={'broken': chk.broken, 'coq_tail': getattr(chk, 'coq_fail_tail', '')[-1500:],
                             'mismatching_cases': chk.cov.get('mismatching_cases', []),
                             'cases_dir': cases_dir},
                       cls='broken-obligation', stream='obligation', no_input=True)
    return chk.finish(level='proof', assumptions=spec.get('assumptions', []), trusted_extra=spec.get('trusted_extra'))

"""The standard pipeline most properties use (see vlib.py docstring)."""
import os
import vlib


def standard_check(chk, spec):
    tier = chk.tier
    pid = chk.pid
    # findings recorded under the ids of the component checks this property assembles
    for alias in spec.get('known_aliases', []):
        chk.known += vlib.load_known(alias)
    # 1. translator
    ok_t = chk.srcgen()
    # 2. Coq closure of the property (theorems + the executable correspondence model)
    ok_c = chk.coq_build(spec['coq_targets'], jobs=spec.get('jobs', 8), timeout=spec.get('coq_timeout', 3600)) if ok_t else False
    # 3. audit + Print Assumptions
    if ok_c:
        problems = chk.audit_and_assumptions(spec['prop_files'], spec['closure_dirs'])
        for p in problems:
            chk.log('AUDIT: ' + p)
            chk.broken.append('audit: ' + p)
    else:
        n = sum(len(chk.theorems_of(f)) for f in spec['prop_files'])
        chk.cov['obligations'] = n + len(chk.broken_translation_targets())
        chk.cov['discharged'] = 0
    # 4./5. harness(es) against the current tree, model on the same cases
    harnesses = spec.get('harnesses') or [{'cmd': spec['harness'], 'args': spec['args'], 'tags': spec.get('tags', 'verif'),
                                           'search_args': spec.get('search_args')}]
    built = []
    for hs in harnesses:
        name = hs['cmd']
        cdir = os.path.join(chk.bdir, 'cases_' + name)
        exe = chk.go_build(name, tags=hs.get('tags', 'verif'))
        if not exe:
            continue
        built.append((hs, exe))
        args = list(hs['args'][tier]) + ['-cases', cdir]
        summ, out = chk.run_harness(exe, args, timeout=hs.get('timeout', spec.get('harness_timeout', {})).get(tier, 1800 if tier == 'quick' else 5400))
        if summ is None:
            chk.broken.append('harness cmd/%s crashed or timed out on the current tree: %s' % (name, out.strip()[-400:]))
            continue
        chk.absorb(summ, label=name)
        chk.absorb_failures(summ)
        if ok_c and summ.get('model_cases', 0) > 0:
            okf, mism, errs = chk.coq_eval_cases(cdir, timeout=spec.get('eval_timeout', {}).get(tier, 1800 if tier == 'quick' else 5400))
            if not errs:
                chk.cov['traces_validated_against_impl'] += summ.get('model_cases', 0) - len(mism)
            chk.cov['model_mismatches'] += len(mism)
            for e in errs:
                chk.broken.append('correspondence %s: model evaluation failed: %s' % (name, e))
            if mism:
                chk.cov.setdefault('mismatching_cases', [])
                chk.cov['mismatching_cases'] += ['%s/%s#%d' % (name, m[0], m[1]) for m in mism[:20]]
                chk.broken.append('correspondence %s: model and implementation differ on %d case(s), e.g. %s case id %d (%s)'
                                  % (name, len(mism), mism[0][0], mism[0][1], cdir))
    # 6. extra per-property steps
    if spec.get('extra'):
        spec['extra'](chk, ok_c)
    # 7. something no longer checks and no concrete failing input yet: search
    if chk.broken and not chk.violations and not chk.known_hits_cover_broken():
        chk.log('broken obligation(s)/correspondence; searching for a concrete failing input')
        for hs, exe in built:
            if not hs.get('search_args'):
                continue
            for sidx in range(3):
                summ2, _ = chk.run_harness(exe, list(hs['search_args']) + ['-cases', os.path.join(chk.bdir, 'cases_search_' + hs['cmd'])],
                                           timeout=1200, env={'VERIF_SEED': str(chk.seed * 1000 + 17 + sidx)})
                if summ2 is not None:
                    chk.cov['evaluations'] += summ2.get('evaluations', 0)
                    chk.absorb_failures(summ2)
                if chk.violations:
                    break
            if chk.violations:
                break
        if not chk.violations:
            chk.report('broken-obligation', ' ; '.join(chk.broken)[:1500],
                       case={'broken': chk.broken, 'coq_tail': getattr(chk, 'coq_fail_tail', '')[-1500:],
                             'mismatching_cases': chk.cov.get('mismatching_cases', []),
                             'cases_dir': chk.bdir},
                       cls='broken-obligation', stream='obligation', no_input=True)
    return chk.finish(level='proof', assumptions=spec.get('assumptions', []), trusted_extra=spec.get('trusted_extra'))

"""bin/check setup: build the framework from files on disk only (offline)."""
import glob
import os
import sys
import time
import vlib


def main():
    t0 = time.time()
    os.makedirs(vlib.BUILD, exist_ok=True)
    rc, out = vlib.sh(['go', 'build', '-o', os.path.join(vlib.BUILD, 'srcgen'), './cmd/srcgen'], cwd=vlib.HARNESS, timeout=600)
    print(out[-2000:])
    if rc != 0:
        print('setup: srcgen build failed')
        return 1
    rc, out = vlib.sh([os.path.join(vlib.BUILD, 'srcgen')], timeout=600)
    print(out[-2000:])
    if rc != 0:
        print('setup: srcgen failed (rc %d)' % rc)
        return 1
    with vlib.Lock('coq.lock'):
        ok, out = vlib.coq_makefile()
        if not ok:
            print(out)
            return 1
        # -k: a file that does not compile must only affect the checks whose closure contains it
        # (each check builds its own closure again and reports a broken obligation itself)
        rc, out = vlib.sh(['make', '-k', '-j16'], cwd=vlib.COQ, timeout=7200)
    print(out[-3000:])
    if rc != 0:
        print('setup: WARNING: some Coq files did not compile (see above); the checks that depend on them will report it')
    # warm the Go build cache for every harness command
    import shutil
    shutil.copyfile(os.path.join(vlib.REPO, 'codec', 'go.sum'), os.path.join(vlib.HARNESS, 'go.sum'))
    for d in sorted(glob.glob(os.path.join(vlib.HARNESS, 'cmd', '*'))):
        name = os.path.basename(d)
        if name == 'srcgen':
            continue
        bd = os.path.join(vlib.BUILD, name)
        os.makedirs(bd, exist_ok=True)
        rc, out = vlib.sh(['go', 'build', '-tags', 'verif', '-o', os.path.join(bd, name), './cmd/' + name], cwd=vlib.HARNESS, timeout=1200)
        if rc != 0:
            print('setup: harness %s build failed:\n%s' % (name, out[-2000:]))
            return 1
    print('setup: done in %.0fs' % (time.time() - t0))
    return 0


if __name__ == '__main__':
    sys.exit(main())

"""Shared driver library for /verif/bin/check.

A check = regenerate Gen/*.v from /repo (translator T) -> build the property's
Coq closure (full .vo) -> audit (forbidden tokens, Print Assumptions) -> build
the Go harness against /repo's working tree with -tags verif -> run it (it runs
the implementation, applies the property's own oracle to it, and writes the
observations as Coq case files) -> evaluate the model on those cases inside Coq
(vm_compute) -> decide.  See DESIGN.md §2.3 and §3.
"""
import fcntl
import glob
import hashlib
import json
import os
import re
import shutil
import subprocess
import sys
import time

ROOT = '/verif'
# Private mode (bin/mutate-test): a check can be pointed at a scratch copy of the repository, of the Coq tree
# (Gen/*.v are regenerated from the tree under test) and at private build/evidence/replay directories, so that
# several checks can run against differently patched trees at the same time without touching /repo or /verif.
REPO = os.environ.get('VERIF_REPO', '/repo')
COQ = os.environ.get('VERIF_COQ', os.path.join(ROOT, 'coq'))
BUILD = os.environ.get('VERIF_BUILD', os.path.join(ROOT, 'build'))
EVIDENCE = os.environ.get('VERIF_EVIDENCE', os.path.join(ROOT, 'evidence'))
REPLAYS = os.environ.get('VERIF_REPLAYS', os.path.join(ROOT, 'replays'))
HARNESS = os.path.join(ROOT, 'harness')
PRIVATE = REPO != '/repo'


def alt_modfile():
    """go.mod whose replace directive points at the repository under test (private mode only)"""
    os.makedirs(BUILD, exist_ok=True)
    p = os.path.join(BUILD, 'go.alt.mod')
    src = open(os.path.join(HARNESS, 'go.mod')).read().replace('=> /repo/codec', '=> %s/codec' % REPO)
    if not os.path.exists(p) or open(p).read() != src:
        open(p, 'w').write(src)
    shutil.copyfile(os.path.join(REPO, 'codec', 'go.sum'), os.path.join(BUILD, 'go.alt.sum'))
    return p

GOENV = {
    'GOFLAGS': '-mod=mod', 'GOPROXY': 'off', 'GOSUMDB': 'off', 'GOTOOLCHAIN': 'local',
    'CGO_ENABLED': '0',
}

# Axioms declared by Coq's standard library (or brought in by the libraries the brief
# allows); anything else printed by Print Assumptions is a failed audit.
ALLOWED_AXIOM_PREFIXES = (
    'ClassicalDedekindReals.', 'FunctionalExtensionality.', 'Classical_Prop.', 'ProofIrrelevance.',
    'Eqdep.', 'JMeq.', 'ClassicalEpsilon.', 'PropExtensionality.', 'Raxioms.', 'Rdefinitions.',
    'ClassicalFacts.', 'ChoiceFacts.', 'Epsilon.', 'IndefiniteDescription.', 'PrimInt63.', 'PrimFloat.',
    'Uint63.', 'Sint63.', 'FloatAxioms.', 'PArray.', 'Coq.', 'functional_extensionality_dep', 'sig_forall_dec',
    'sig_not_dec', 'classic', 'proof_irrelevance', 'eq_rect_eq', 'JMeq_eq', 'propositional_extensionality',
    'constructive_indefinite_description', 'constructive_definite_description', 'epsilon_statement',
)

FORBIDDEN = [
    r'\bAdmitted\b', r'\badmit\b', r'\bAxiom\b', r'\bAxioms\b', r'\bParameter\b', r'\bParameters\b', r'\bConjecture\b',
    r'\bAdmit\s+Obligations\b', r'Unset\s+Guard', r'Unset\s+Positivity', r'Unset\s+Universe\s+Checking',
    r'bypass_check', r'type-in-type', r'impredicative-set', r'\bnative_compute\b',
]


def strip_coq_comments(s):
    out = []
    depth = 0
    i = 0
    n = len(s)
    instr = False
    while i < n:
        c = s[i]
        if depth == 0 and c == '"':
            instr = not instr
            out.append(c)
            i += 1
            continue
        if not instr and s.startswith('(*', i):
            depth += 1
            i += 2
            continue
        if not instr and depth > 0 and s.startswith('*)', i):
            depth -= 1
            i += 2
            continue
        if depth == 0:
            out.append(c)
        elif c == '\n':
            out.append('\n')
        i += 1
    return ''.join(out)


class Lock:
    """flock on build/<name>. Exclusive: whoever may rewrite the shared .vo files (translator, make).
    Shared: whoever only reads them (Print Assumptions audit, case evaluation) - so that another check's
    rebuild cannot swap a .vo under a running coqc ('inconsistent assumptions', 'cannot find library')."""

    def __init__(self, name, shared=False):
        os.makedirs(BUILD, exist_ok=True)
        self.path = os.path.join(BUILD, name)
        self.shared = shared

    def __enter__(self):
        self.f = open(self.path, 'a')
        fcntl.flock(self.f, fcntl.LOCK_SH if self.shared else fcntl.LOCK_EX)
        return self

    def __exit__(self, *a):
        fcntl.flock(self.f, fcntl.LOCK_UN)
        self.f.close()


def sh(cmd, timeout=600, cwd=None, env=None, quiet=True):
    if PRIVATE and isinstance(cmd, list) and len(cmd) > 1 and cmd[0] == 'go' and cmd[1] in ('build', 'run', 'test', 'vet'):
        cmd = cmd[:2] + ['-modfile=' + alt_modfile()] + cmd[2:]
    e = dict(os.environ)
    e.update(GOENV)
    if env:
        e.update(env)
    try:
        p = subprocess.run(cmd, shell=isinstance(cmd, str), cwd=cwd, env=e, stdout=subprocess.PIPE,
                           stderr=subprocess.STDOUT, timeout=timeout)
        return p.returncode, p.stdout.decode('utf-8', 'replace')
    except subprocess.TimeoutExpired as ex:
        out = ex.stdout.decode('utf-8', 'replace') if ex.stdout else ''
        return 124, out + '\n[timeout after %ds]' % timeout


def coq_makefile():
    """(Re)generate coq/Makefile when the set of .v files changed. Caller holds the coq lock."""
    vs = sorted(os.path.relpath(p, COQ) for p in glob.glob(os.path.join(COQ, 'theories', '**', '*.v'), recursive=True))
    h = hashlib.sha1('\n'.join(vs).encode()).hexdigest()
    stamp = os.path.join(COQ, '.vfiles.sha1')
    old = open(stamp).read() if os.path.exists(stamp) else ''
    if old != h or not os.path.exists(os.path.join(COQ, 'Makefile')):
        rc, out = sh(['coq_makefile', '-f', '_CoqProject', '-o', 'Makefile'] + vs, cwd=COQ, timeout=120)
        if rc != 0:
            return False, out
        open(stamp, 'w').write(h)
    return True, ''


class Check:
    def __init__(self, pid, tier=None, seed=None):
        self.pid = pid
        self.tier = tier or os.environ.get('VERIF_TIER') or 'quick'
        if self.tier not in ('quick', 'thorough'):
            self.tier = 'quick'
        try:
            self.seed = int(seed if seed is not None else os.environ.get('VERIF_SEED', '1'))
        except ValueError:
            self.seed = 1
        self.t0 = time.time()
        self.violations = []      # dicts
        self.known_hits = []
        self.broken = []          # broken obligations / correspondences (strings)
        self.cov = {
            'obligations': 0, 'discharged': 0, 'checker_cmd': '', 'trusted_base': [],
            'evaluations': 0, 'distinct_nontrivial': 0, 'rule': '', 'samples': [],
            'traces_validated_against_impl': 0, 'distribution': {}, 'axioms': {}, 'model_mismatches': 0,
            'streams': {},
        }
        self.assumptions = []
        self.bdir = os.path.join(BUILD, pid.lower())
        os.makedirs(self.bdir, exist_ok=True)
        self.rdir = os.path.join(REPLAYS, pid)
        self.known = load_known(pid)
        self.nreplay = 0

    # ---------- logging ----------
    def log(self, msg):
        print('[%s %6.1fs] %s' % (self.pid, time.time() - self.t0, msg), flush=True)

    # ---------- translator ----------
    def srcgen(self):
        with Lock('go.srcgen.lock'):
            rc, out = sh(['go', 'build', '-o', os.path.join(BUILD, 'srcgen'), './cmd/srcgen'], cwd=HARNESS, timeout=1200)
            if rc != 0:
                self.log('srcgen build failed:\n' + out[-2000:])
                self.broken.append('translator: harness/cmd/srcgen does not build')
                return False
            with Lock('coq.lock'):
                rc, out = sh([os.path.join(BUILD, 'srcgen'), '-repo', os.path.join(REPO, 'codec'),
                              '-out', os.path.join(COQ, 'theories', 'Gen')], timeout=1200)
        if out.strip():
            self.log(out.strip()[-1500:])
        if rc == 3:
            # some Gen/<X>.v could not be translated: srcgen wrote a stub that does not compile for exactly those
            # files, so the obligations IMPORTING them break at `make` below (with the translator's message in the
            # log); a check whose Coq closure does not depend on them is not about that code and goes on unaffected
            self.log('srcgen: untranslatable target(s); stub(s) written: ' + out.strip()[-600:])
            self.translation_note = out.strip()[-400:]
            return True
        if rc != 0:
            self.broken.append('translator: srcgen could not translate the current source: ' + out.strip()[-400:])
            return False
        return True

    # ---------- Coq ----------
    def coq_build(self, targets, timeout=3600, jobs=8):
        """make the given .vo targets (paths relative to coq/). Returns True on success."""
        with Lock('coq.lock'):
            ok, out = coq_makefile()
            if not ok:
                self.log('coq_makefile failed: ' + out[-1000:])
                self.broken.append('coq_makefile failed')
                return False
            rc, out = sh(['make', '-j%d' % jobs] + targets, cwd=COQ, timeout=timeout)
        self.cov['checker_cmd'] = 'cd /verif/coq && coq_makefile -f _CoqProject -o Makefile <theories/**/*.v> && make ' + ' '.join(targets) + ' (coqc 8.16.1, full .vo)'
        if rc != 0:
            tail = out[-3000:]
            self.log('Coq build FAILED:\n' + tail)
            m = re.findall(r'File "([^"]+)", line (\d+)', out)
            where = ('%s:%s' % m[-1]) if m else 'unknown'
            note = getattr(self, 'translation_note', '')
            self.broken.append('proof obligation no longer checks: make %s failed at %s' % (' '.join(targets), where) + (' (translator: ' + note + ')' if note and 'Gen/' in where else ''))
            self.coq_fail_tail = tail
            return False
        return True

    def theorems_of(self, relpath):
        src = strip_coq_comments(open(os.path.join(COQ, relpath)).read())
        return re.findall(r'^\s*(?:Theorem|Corollary)\s+([A-Za-z0-9_\']+)', src, re.M)

    def audit_and_assumptions(self, prop_files, closure_dirs):
        """prop_files: e.g. ['theories/Properties/C04.v']; closure_dirs: source dirs to grep for forbidden tokens."""
        problems = []
        files = []
        for d in closure_dirs:
            p = os.path.join(COQ, d)
            if os.path.isdir(p):
                files += glob.glob(os.path.join(p, '**', '*.v'), recursive=True)
            elif os.path.exists(p):
                files.append(p)
        files += [os.path.join(COQ, f) for f in prop_files]
        for f in sorted(set(files)):
            src = strip_coq_comments(open(f).read())
            for pat in FORBIDDEN:
                for m in re.finditer(pat, src):
                    line = src.count('\n', 0, m.start()) + 1
                    problems.append('%s:%d: forbidden token %s' % (os.path.relpath(f, ROOT), line, m.group(0)))
            # a Variable/Hypothesis outside a section declares an axiom
            depth = 0
            for ln, l in enumerate(src.split('\n'), 1):
                if re.match(r'\s*Section\b', l):
                    depth += 1
                elif re.match(r'\s*End\b', l) and depth > 0:
                    depth -= 1
                elif depth == 0 and re.match(r'\s*(Variable|Variables|Hypothesis|Hypotheses|Context)\b', l):
                    problems.append('%s:%d: %s outside a section' % (os.path.relpath(f, ROOT), ln, l.strip().split()[0]))
        thms = []
        for pf in prop_files:
            mod = 'Verif.' + pf[len('theories/'):-2].replace('/', '.')
            for t in self.theorems_of(pf):
                thms.append((mod, t))
        self.cov['obligations'] = len(thms) + len(self.broken_translation_targets())
        if not thms:
            problems.append('no theorems found in ' + ','.join(prop_files))
        mods = sorted(set(m for m, _ in thms))
        audit = ''.join('Require Import %s.\n' % m for m in mods)
        for m, t in thms:
            audit += 'Print Assumptions %s.%s.\n' % (m, t)
        ap = os.path.join(self.bdir, 'Audit_%s.v' % self.pid)
        open(ap, 'w').write(audit)
        with Lock('coq.lock', shared=True):
            rc, out = sh(['coqc', '-Q', os.path.join(COQ, 'theories'), 'Verif', ap], cwd=self.bdir, timeout=1800)
        if rc != 0:
            problems.append('Print Assumptions run failed: ' + out[-800:])
            self.cov['discharged'] = 0
            return problems
        # split the output per theorem: each Print Assumptions prints either "Closed under the global context"
        # or "Axioms:" followed by indented entries
        blocks = re.split(r'(?m)^(?=Closed under the global context|Axioms:)', out)
        blocks = [b for b in blocks if b.startswith('Closed under') or b.startswith('Axioms:')]
        discharged = 0
        if len(blocks) != len(thms):
            problems.append('Print Assumptions produced %d blocks for %d theorems' % (len(blocks), len(thms)))
        for (m, t), b in zip(thms, blocks):
            if b.startswith('Closed under'):
                discharged += 1
                self.cov['axioms'][t] = []
                continue
            names = re.findall(r'(?m)^([A-Za-z_][\w\.\']*)\s*:', b)
            self.cov['axioms'][t] = names
            bad = [n for n in names if not n.startswith(ALLOWED_AXIOM_PREFIXES) and not any(n.endswith('.' + a) or n == a for a in ALLOWED_AXIOM_PREFIXES)]
            if bad:
                problems.append('theorem %s depends on non-standard axioms: %s' % (t, ', '.join(bad)))
            else:
                discharged += 1
        self.cov['discharged'] = discharged
        self.cov['theorems'] = [t for _, t in thms]
        return problems

    def broken_translation_targets(self):
        return [b for b in self.broken if b.startswith('translator')]

    # ---------- Go harness ----------
    def go_build(self, cmd, tags='verif', out=None, timeout=1800):
        out = out or os.path.join(self.bdir, cmd + ('' if tags == 'verif' else '.' + re.sub(r'[^a-z]', '', tags)))
        if not PRIVATE:
            shutil.copyfile(os.path.join(REPO, 'codec', 'go.sum'), os.path.join(HARNESS, 'go.sum'))
        rc, o = sh(['go', 'build', '-tags', tags, '-o', out, './cmd/' + cmd], cwd=HARNESS, timeout=timeout)
        if rc != 0:
            self.log('harness build failed (%s, tags %s):\n%s' % (cmd, tags, o[-3000:]))
            self.broken.append('harness cmd/%s does not build against the current tree (tags %s): %s' % (cmd, tags, o.strip()[-300:]))
            return None
        return out

    def run_harness(self, exe, args, timeout=1800, env=None):
        e = {'VERIF_SEED': str(self.seed), 'VERIF_TIER': self.tier}
        if env:
            e.update(env)
        rc, out = sh([exe] + [str(a) for a in args], timeout=timeout, env=e, cwd=self.bdir)
        summ = None
        for l in out.splitlines():
            if l.startswith('SUMMARY '):
                try:
                    summ = json.loads(l[8:])
                except Exception:
                    pass
        if rc != 0 or summ is None:
            self.log('harness %s exited %d:\n%s' % (os.path.basename(exe), rc, out[-3000:]))
            return None, out
        return summ, out

    def absorb(self, summ, label=None):
        """fold a harness SUMMARY into the evidence"""
        c = self.cov
        c['evaluations'] += summ.get('evaluations', 0)
        c['distinct_nontrivial'] += summ.get('distinct_nontrivial', 0)
        if summ.get('rule') and summ['rule'] not in c['rule']:
            c['rule'] = (c['rule'] + ' | ' if c['rule'] else '') + summ['rule']
        for s in summ.get('samples', []):
            if len(c['samples']) < 8:
                c['samples'].append(s)
        for k, v in summ.get('distribution', {}).items():
            c['distribution'][k] = c['distribution'].get(k, 0) + v
        if label:
            c['streams'][label] = {'evaluations': summ.get('evaluations', 0), 'model_cases': summ.get('model_cases', 0)}
        if summ.get('extra'):
            c.setdefault('extra', {}).update(summ['extra'])

    # ---------- model evaluation ----------
    def coq_eval_cases(self, cdir, timeout=1800, jobs=16):
        """run coqc on every cases_*.v under cdir in parallel; returns (n_cases_files_ok, mismatching ids, errors)"""
        with Lock('coq.lock', shared=True):
            return self._coq_eval_cases(cdir, timeout, jobs)

    def _coq_eval_cases(self, cdir, timeout, jobs):
        files = sorted(glob.glob(os.path.join(cdir, 'cases_*.v')))
        procs = []
        results = []
        mism = []
        errors = []
        e = dict(os.environ)
        pending = list(files)
        running = []
        t_end = time.time() + timeout
        while pending or running:
            while pending and len(running) < jobs:
                f = pending.pop(0)
                p = subprocess.Popen(['coqc', '-Q', os.path.join(COQ, 'theories'), 'Verif', '-w', '-all', f], cwd=cdir,
                                     stdout=subprocess.PIPE, stderr=subprocess.STDOUT, env=e)
                running.append((f, p))
            for f, p in list(running):
                if p.poll() is not None:
                    out = p.stdout.read().decode('utf-8', 'replace')
                    running.remove((f, p))
                    results.append((f, p.returncode, out))
            if time.time() > t_end:
                for f, p in running:
                    p.kill()
                    errors.append('%s: timeout' % os.path.basename(f))
                break
            time.sleep(0.05)
        ok = 0
        for f, rc, out in results:
            if rc != 0:
                errors.append('%s: coqc failed: %s' % (os.path.basename(f), out[-600:]))
                continue
            m = re.search(r'M\s*=\s*(.*?)\n\s*:\s*list', out, re.S)
            if not m:
                errors.append('%s: cannot parse output: %s' % (os.path.basename(f), out[-300:]))
                continue
            body = m.group(1).strip()
            ok += 1
            if body != '[]':
                ids = re.findall(r'\d+', body)
                mism += [(os.path.basename(f), int(i)) for i in ids]
        return ok, mism, errors

    # ---------- findings / violations ----------
    def write_replay(self, rec):
        os.makedirs(self.rdir, exist_ok=True)
        self.nreplay += 1
        p = os.path.join(self.rdir, '%s_%s_seed%d_%02d.json' % (self.pid, self.tier, self.seed, self.nreplay))
        rec = dict(rec)
        rec.setdefault('property', self.pid)
        rec.setdefault('seed', self.seed)
        rec.setdefault('tier', self.tier)
        rec['replay_cmd'] = 'cd /verif && bin/check replay %s' % p
        with open(p, 'w') as f:
            json.dump(rec, f, indent=1, sort_keys=True, default=str)
        return p

    def report(self, kind, what, case=None, cls=None, stream=None, no_input=False, extra=None):
        """kind: 'counterexample' | 'broken-obligation'. Known findings are matched on (stream, class, case)."""
        rec = {'kind': kind, 'what': what, 'case': case or {}, 'class': cls or '', 'stream': stream or ''}
        if extra:
            rec.update(extra)
        k = match_known(self.known, rec)
        if k is not None:
            if k['id'] not in [h['id'] for h in self.known_hits]:
                self.known_hits.append(k)
                print('KNOWN-FINDING: property=%s %s: %s' % (self.pid, k['id'], k['what']), flush=True)
            return
        # report each distinct (stream, class, what) once
        sig = (rec['stream'], rec['class'], what)
        if sig in [v['sig'] for v in self.violations]:
            return
        path = self.write_replay(rec)
        self.violations.append({'sig': sig, 'replay': path, 'what': what})
        line = 'VIOLATION property=%s replay=%s' % (self.pid, path)
        if no_input:
            line += ' no-failing-input-found'
        print(line, flush=True)
        self.log('  -> ' + what[:300])

    def absorb_failures(self, summ):
        for f in summ.get('failures', []):
            self.report('counterexample', f.get('what', ''), case=f.get('case'), cls=f.get('class', ''), stream=f.get('stream', ''))

    def known_hits_cover_broken(self):
        # a known finding explains a broken correspondence only when the property file says so explicitly
        return False

    # ---------- finish ----------
    def trusted_base(self, extra=None):
        tb = [
            'Coq 8.16.1 kernel (coqc, full .vo build; vm_compute used for case evaluation and finite sweeps; no native_compute)',
            'no Axiom/Parameter/Conjecture/Admitted/admit, no guard/positivity/universe switches (audited by token scan on comment-stripped sources)',
            'translator harness/cmd/srcgen (go/parser + go/types over /repo/codec with tag codec.notmono): constants and leaf functions in Gen/*.v',
            'correspondence harness (Go, -tags verif) and the add-only hook file /repo/codec/verif_hooks*.go',
            'Go toolchain, reflect, hardware IEEE-754',
        ]
        axs = sorted(set(a for v in self.cov['axioms'].values() for a in v))
        tb.append('axioms reported by Print Assumptions over the property theorems: ' + (', '.join(axs) if axs else 'none (all closed under the global context)'))
        if extra:
            tb += extra
        return tb

    def finish(self, level='proof', assumptions=None, trusted_extra=None):
        self.cov['trusted_base'] = self.trusted_base(trusted_extra)
        self.cov['known_findings_hit'] = [k['id'] for k in self.known_hits]
        self.cov['broken'] = self.broken
        ev = {
            'property_id': self.pid, 'tier': self.tier, 'seed': self.seed, 'level': level,
            'coverage': self.cov, 'assumptions': assumptions or [],
            'wall_s': round(time.time() - self.t0, 2), 'violations': len(self.violations),
        }
        if not self.cov['samples']:
            self.cov['samples'] = ['(no samples: the run stopped before the harness produced cases)']
        os.makedirs(EVIDENCE, exist_ok=True)
        with open(os.path.join(EVIDENCE, self.pid + '.json'), 'w') as f:
            json.dump(ev, f, indent=1, sort_keys=True, default=str)
        self.log('obligations %d discharged %d evaluations %d distinct %d model-cases %d violations %d known %d wall %.1fs' % (
            self.cov['obligations'], self.cov['discharged'], self.cov['evaluations'], self.cov['distinct_nontrivial'],
            self.cov['traces_validated_against_impl'], len(self.violations), len(self.known_hits), time.time() - self.t0))
        return 1 if self.violations else 0


def load_known(pid):
    p = os.path.join(ROOT, 'known_findings.json')
    if not os.path.exists(p):
        return []
    try:
        d = json.load(open(p))
    except Exception:
        return []
    return [e for e in d.get('findings', []) if e.get('property') == pid and e.get('status') == 'known']


def _get(rec, key):
    cur = rec
    for part in key.split('.'):
        if isinstance(cur, dict) and part in cur:
            cur = cur[part]
        else:
            return None
    return cur


def match_known(known, rec):
    """A known finding matches when every key of its 'match' object is satisfied by the violation record.
    Values: literal (equality), {"regex": "..."} (search on str(value)), {"in": [...]}."""
    for k in known:
        m = k.get('match') or {}
        if not m:
            continue
        ok = True
        for key, want in m.items():
            got = _get(rec, key)
            if isinstance(want, dict) and 'regex' in want:
                if got is None or not re.search(want['regex'], str(got)):
                    ok = False
            elif isinstance(want, dict) and 'in' in want:
                if got not in want['in']:
                    ok = False
            else:
                if got != want:
                    ok = False
            if not ok:
                break
        if ok:
            return k
    return None

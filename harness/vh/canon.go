package vh

import (
	"fmt"
	"math"
	"reflect"
	"sort"
	"strings"
	"time"
)

// Canon renders any value deterministically: maps sorted by rendered key, floats
// as bit patterns, times as (unix sec, nsec, zone offset), byte slices as hex,
// nil-ness of slices/maps/pointers/interfaces explicit, pointers followed.
// No addresses, no map iteration order.
func Canon(v interface{}) string {
	var sb strings.Builder
	canon(&sb, reflect.ValueOf(v), 0)
	return sb.String()
}

// CanonRV is Canon for a reflect.Value.
func CanonRV(v reflect.Value) string {
	var sb strings.Builder
	canon(&sb, v, 0)
	return sb.String()
}

func canon(sb *strings.Builder, v reflect.Value, depth int) {
	if !v.IsValid() {
		sb.WriteString("nil")
		return
	}
	if depth > 200 {
		sb.WriteString("<deep>")
		return
	}
	t := v.Type()
	if t == TimeType {
		x := v.Interface().(time.Time)
		_, off := x.Zone()
		fmt.Fprintf(sb, "time(%d,%d,%d)", x.Unix(), x.Nanosecond(), off)
		return
	}
	switch t.Kind() {
	case reflect.Bool:
		fmt.Fprintf(sb, "%v", v.Bool())
	case reflect.Int, reflect.Int8, reflect.Int16, reflect.Int32, reflect.Int64:
		fmt.Fprintf(sb, "%s(%d)", t.Kind(), v.Int())
	case reflect.Uint, reflect.Uint8, reflect.Uint16, reflect.Uint32, reflect.Uint64, reflect.Uintptr:
		fmt.Fprintf(sb, "%s(%d)", t.Kind(), v.Uint())
	case reflect.Float32:
		fmt.Fprintf(sb, "f32(%08x)", math.Float32bits(float32(v.Float())))
	case reflect.Float64:
		f := v.Float()
		if f != f {
			sb.WriteString("f64(NaN)")
		} else {
			fmt.Fprintf(sb, "f64(%016x)", math.Float64bits(f))
		}
	case reflect.String:
		fmt.Fprintf(sb, "%q", v.String())
	case reflect.Slice:
		if v.IsNil() {
			sb.WriteString("nilslice")
			return
		}
		if t.Elem().Kind() == reflect.Uint8 {
			fmt.Fprintf(sb, "bytes(%x)", v.Bytes())
			return
		}
		sb.WriteString("[")
		for i := 0; i < v.Len(); i++ {
			if i > 0 {
				sb.WriteString(",")
			}
			canon(sb, v.Index(i), depth+1)
		}
		sb.WriteString("]")
	case reflect.Array:
		sb.WriteString("arr[")
		for i := 0; i < v.Len(); i++ {
			if i > 0 {
				sb.WriteString(",")
			}
			canon(sb, v.Index(i), depth+1)
		}
		sb.WriteString("]")
	case reflect.Map:
		if v.IsNil() {
			sb.WriteString("nilmap")
			return
		}
		type kv struct{ k, v string }
		var kvs []kv
		it := v.MapRange()
		for it.Next() {
			var a, b strings.Builder
			canon(&a, it.Key(), depth+1)
			canon(&b, it.Value(), depth+1)
			kvs = append(kvs, kv{a.String(), b.String()})
		}
		sort.Slice(kvs, func(i, j int) bool {
			if kvs[i].k != kvs[j].k {
				return kvs[i].k < kvs[j].k
			}
			return kvs[i].v < kvs[j].v
		})
		sb.WriteString("map{")
		for i, e := range kvs {
			if i > 0 {
				sb.WriteString(",")
			}
			sb.WriteString(e.k)
			sb.WriteString(":")
			sb.WriteString(e.v)
		}
		sb.WriteString("}")
	case reflect.Ptr:
		if v.IsNil() {
			sb.WriteString("nilptr")
			return
		}
		sb.WriteString("&")
		canon(sb, v.Elem(), depth+1)
	case reflect.Interface:
		if v.IsNil() {
			sb.WriteString("niliface")
			return
		}
		sb.WriteString("i:")
		canon(sb, v.Elem(), depth+1)
	case reflect.Struct:
		sb.WriteString("{")
		first := true
		for i := 0; i < t.NumField(); i++ {
			if t.Field(i).PkgPath != "" {
				continue
			}
			if !first {
				sb.WriteString(",")
			}
			first = false
			sb.WriteString(t.Field(i).Name)
			sb.WriteString("=")
			canon(sb, v.Field(i), depth+1)
		}
		sb.WriteString("}")
	default:
		fmt.Fprintf(sb, "<%s>", t.Kind())
	}
}

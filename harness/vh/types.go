package vh

import (
	"fmt"
	"math"
	"reflect"
	"strings"
	"time"
)

// TypeOpts steers RandType.
type TypeOpts struct {
	MaxDepth   int
	NoPtr      bool
	NoMap      bool
	NoTime     bool
	NoBytes    bool
	NoArray    bool
	NoFloat    bool
	NoStruct   bool
	Iface      bool // allow interface{} slots
	StringKeys bool // map keys are strings only (json-friendly)
	Tags       bool // random codec tags (rename, omitempty) on struct fields
}

var (
	TimeType  = reflect.TypeOf(time.Time{})
	BytesType = reflect.TypeOf([]byte(nil))
	IfaceType = reflect.TypeOf((*interface{})(nil)).Elem()
)

var scalarTypes = []reflect.Type{
	reflect.TypeOf(false),
	reflect.TypeOf(int(0)), reflect.TypeOf(int8(0)), reflect.TypeOf(int16(0)), reflect.TypeOf(int32(0)), reflect.TypeOf(int64(0)),
	reflect.TypeOf(uint(0)), reflect.TypeOf(uint8(0)), reflect.TypeOf(uint16(0)), reflect.TypeOf(uint32(0)), reflect.TypeOf(uint64(0)),
	reflect.TypeOf(uintptr(0)),
	reflect.TypeOf(float32(0)), reflect.TypeOf(float64(0)),
	reflect.TypeOf(""),
}

var keyTypes = []reflect.Type{
	reflect.TypeOf(""), reflect.TypeOf(int(0)), reflect.TypeOf(int8(0)), reflect.TypeOf(int32(0)), reflect.TypeOf(int64(0)),
	reflect.TypeOf(uint(0)), reflect.TypeOf(uint8(0)), reflect.TypeOf(uint16(0)), reflect.TypeOf(uint64(0)),
	reflect.TypeOf(false), reflect.TypeOf(float64(0)), reflect.TypeOf(float32(0)),
}

// RandScalarType returns a random scalar type.
func RandScalarType(r *Rng, o TypeOpts) reflect.Type {
	for {
		t := scalarTypes[r.Intn(len(scalarTypes))]
		if o.NoFloat && (t.Kind() == reflect.Float32 || t.Kind() == reflect.Float64) {
			continue
		}
		return t
	}
}

// RandType builds a random static type with reflect.
func RandType(r *Rng, o TypeOpts, depth int) reflect.Type {
	if depth >= o.MaxDepth {
		return RandScalarType(r, o)
	}
	for {
		switch r.Intn(12) {
		case 0, 1, 2:
			return RandScalarType(r, o)
		case 3:
			if o.NoBytes {
				continue
			}
			return BytesType
		case 4:
			if o.NoTime {
				continue
			}
			return TimeType
		case 5:
			return reflect.SliceOf(RandType(r, o, depth+1))
		case 6:
			if o.NoArray {
				continue
			}
			if r.Chance(1, 3) && !o.NoBytes {
				return reflect.ArrayOf(r.Intn(5), reflect.TypeOf(byte(0)))
			}
			return reflect.ArrayOf(r.Intn(4), RandType(r, o, depth+1))
		case 7:
			if o.NoMap {
				continue
			}
			var k reflect.Type
			if o.StringKeys {
				k = reflect.TypeOf("")
			} else {
				for {
					k = keyTypes[r.Intn(len(keyTypes))]
					if o.NoFloat && (k.Kind() == reflect.Float32 || k.Kind() == reflect.Float64) {
						continue
					}
					break
				}
			}
			return reflect.MapOf(k, RandType(r, o, depth+1))
		case 8:
			if o.NoPtr {
				continue
			}
			e := RandType(r, o, depth+1)
			if e.Kind() == reflect.Interface {
				continue
			}
			return reflect.PointerTo(e)
		case 9, 10:
			if o.NoStruct {
				continue
			}
			return RandStruct(r, o, depth)
		case 11:
			if !o.Iface {
				continue
			}
			return IfaceType
		}
	}
}

// RandStruct builds a struct type with 0-5 exported fields.
func RandStruct(r *Rng, o TypeOpts, depth int) reflect.Type {
	n := r.Intn(6)
	fs := make([]reflect.StructField, 0, n)
	for i := 0; i < n; i++ {
		f := reflect.StructField{Name: fmt.Sprintf("F%d", i), Type: RandType(r, o, depth+1)}
		if o.Tags {
			switch r.Intn(6) {
			case 0:
				f.Tag = reflect.StructTag(fmt.Sprintf(`codec:"n%d"`, i))
			case 1:
				f.Tag = reflect.StructTag(`codec:",omitempty"`)
			case 2:
				f.Tag = reflect.StructTag(fmt.Sprintf(`json:"j%d,omitempty"`, i))
			}
		}
		fs = append(fs, f)
	}
	return reflect.StructOf(fs)
}

var intBoundaries = []int64{0, 1, -1, 23, 24, 31, 32, 127, 128, -128, -129, 255, 256, 32767, 32768, -32768, -32769, 65535, 65536,
	1<<31 - 1, 1 << 31, -(1 << 31), -(1 << 31) - 1, 1<<32 - 1, 1 << 32, 1<<53 - 1, 1 << 53, 1<<53 + 1, math.MaxInt64, math.MinInt64, math.MinInt64 + 1}

var uintBoundaries = []uint64{0, 1, 23, 24, 31, 32, 127, 128, 255, 256, 65535, 65536, 1<<31 - 1, 1 << 31, 1<<32 - 1, 1 << 32,
	1<<53 - 1, 1 << 53, 1<<53 + 1, 1<<63 - 1, 1 << 63, 1<<63 + 1, math.MaxUint64, math.MaxUint64 - 1}

var floatBoundaries = []float64{0, math.Copysign(0, -1), 1, -1, 0.5, 1.5, 0.1, -0.1, 1e10, 1e-10, 3.4028234663852886e38, 1e39, -1e39,
	math.SmallestNonzeroFloat64, math.SmallestNonzeroFloat32, math.MaxFloat64, -math.MaxFloat64, math.Inf(1), math.Inf(-1),
	65504, 65536, 5.960464477539063e-08, 1 << 24, 1<<24 + 1, 1 << 53, 1<<53 + 2, 1e15, 123456789.125}

// ValOpts steers RandValue.
type ValOpts struct {
	NoNaN      bool
	NoInf      bool
	NoNegZero  bool
	ASCII      bool // strings are printable ASCII only
	ValidUTF8  bool // strings are valid UTF-8 (always true unless RawStrings)
	RawStrings bool // strings may contain arbitrary bytes
	NoNilPtr   bool
	MaxLen     int // max container length (default 4)
	BigLens    bool // occasionally use boundary lengths (23,24,31,32,255,256) for strings/bytes/slices
	TimeSecAbs int64 // |unix seconds| bound (default 2^31)
	TimeNoNsec bool
	NoNilColl  bool // never produce nil slices/maps (empty instead)
	NoEmptyColl bool // never produce non-nil empty slices/maps/bytes (nil instead)
}

func (o ValOpts) maxLen() int {
	if o.MaxLen > 0 {
		return o.MaxLen
	}
	return 4
}

func randLen(r *Rng, o ValOpts, scalarish bool) int {
	if o.BigLens && r.Chance(1, 8) {
		if scalarish {
			return r.PickInt(23, 24, 31, 32, 33, 255, 256, 257)
		}
		return r.PickInt(15, 16, 17, 23, 24, 31, 32)
	}
	return r.Intn(o.maxLen() + 1)
}

var utf8Samples = []string{"é", "ß", "€", "你", "好", "😀", " ", " ", " ", "ÿ", "𝄞", "�"}
var asciiSpecial = []byte{'"', '\\', '/', '<', '>', '&', '\n', '\r', '\t', 0, 1, 0x1f, 0x7f, ' ', '\b', '\f'}

// RandString returns a random string per options.
func RandString(r *Rng, o ValOpts) string {
	n := randLen(r, o, true)
	var sb strings.Builder
	for sb.Len() < n {
		switch {
		case o.RawStrings && r.Chance(1, 6):
			sb.WriteByte(byte(r.U64()))
		case !o.ASCII && r.Chance(1, 6):
			sb.WriteString(utf8Samples[r.Intn(len(utf8Samples))])
		case !o.ASCII && r.Chance(1, 8):
			sb.WriteByte(asciiSpecial[r.Intn(len(asciiSpecial))])
		default:
			sb.WriteByte(byte('a' + r.Intn(26)))
		}
	}
	return sb.String()
}

func randFloat(r *Rng, o ValOpts, bits int) float64 {
	for {
		var f float64
		switch r.Intn(4) {
		case 0:
			f = floatBoundaries[r.Intn(len(floatBoundaries))]
		case 1:
			f = float64(int64(r.U64()>>uint(r.Intn(64)))) * math.Pow(2, float64(r.Intn(40)-20))
			if r.Bool() {
				f = -f
			}
		case 2:
			f = math.Float64frombits(r.U64())
		default:
			f = float64(r.Intn(2000)-1000) / 8
		}
		if !o.NoNaN && r.Chance(1, 40) {
			f = math.NaN()
		}
		if bits == 32 {
			f = float64(float32(f))
		}
		if o.NoNaN && f != f {
			continue
		}
		if o.NoInf && math.IsInf(f, 0) {
			continue
		}
		if o.NoNegZero && f == 0 && math.Signbit(f) {
			continue
		}
		return f
	}
}

// RandTime returns a random UTC time.
func RandTime(r *Rng, o ValOpts) time.Time {
	if r.Chance(1, 10) {
		return time.Time{}
	}
	abs := o.TimeSecAbs
	if abs == 0 {
		abs = 1 << 31
	}
	sec := int64(r.U64()%uint64(2*abs)) - abs
	var nsec int64
	if !o.TimeNoNsec {
		switch r.Intn(4) {
		case 0:
			nsec = 0
		case 1:
			nsec = int64(r.Intn(1000)) * 1000000
		case 2:
			nsec = int64(r.Intn(1000000)) * 1000
		default:
			nsec = int64(r.Intn(1000000000))
		}
	}
	return time.Unix(sec, nsec).UTC()
}

// RandValue builds a random value of type t.
func RandValue(r *Rng, t reflect.Type, o ValOpts) reflect.Value {
	v := reflect.New(t).Elem()
	fill(r, v, o, 0)
	return v
}

func fill(r *Rng, v reflect.Value, o ValOpts, depth int) {
	t := v.Type()
	if t == TimeType {
		v.Set(reflect.ValueOf(RandTime(r, o)))
		return
	}
	switch t.Kind() {
	case reflect.Bool:
		v.SetBool(r.Bool())
	case reflect.Int, reflect.Int8, reflect.Int16, reflect.Int32, reflect.Int64:
		var x int64
		if r.Bool() {
			x = intBoundaries[r.Intn(len(intBoundaries))]
		} else {
			x = int64(r.U64()) >> uint(r.Intn(64))
		}
		bits := uint(t.Bits())
		x = x << (64 - bits) >> (64 - bits) // sign-extend truncate into range
		v.SetInt(x)
	case reflect.Uint, reflect.Uint8, reflect.Uint16, reflect.Uint32, reflect.Uint64, reflect.Uintptr:
		var x uint64
		if r.Bool() {
			x = uintBoundaries[r.Intn(len(uintBoundaries))]
		} else {
			x = r.U64() >> uint(r.Intn(64))
		}
		bits := uint(t.Bits())
		x = x << (64 - bits) >> (64 - bits)
		v.SetUint(x)
	case reflect.Float32:
		v.SetFloat(randFloat(r, o, 32))
	case reflect.Float64:
		v.SetFloat(randFloat(r, o, 64))
	case reflect.String:
		v.SetString(RandString(r, o))
	case reflect.Slice:
		if !o.NoNilColl && r.Chance(1, 6) {
			return // nil
		}
		var n int
		if t.Elem().Kind() == reflect.Uint8 {
			n = randLen(r, o, true)
		} else {
			n = randLen(r, o, false)
			if depth > 2 && n > 3 {
				n = 3
			}
		}
		if n == 0 && o.NoEmptyColl {
			return
		}
		s := reflect.MakeSlice(t, n, n)
		for i := 0; i < n; i++ {
			fill(r, s.Index(i), o, depth+1)
		}
		v.Set(s)
	case reflect.Array:
		for i := 0; i < t.Len(); i++ {
			fill(r, v.Index(i), o, depth+1)
		}
	case reflect.Map:
		if !o.NoNilColl && r.Chance(1, 6) {
			return
		}
		n := r.Intn(o.maxLen() + 1)
		if n == 0 && o.NoEmptyColl {
			return
		}
		m := reflect.MakeMapWithSize(t, n)
		ko := o
		ko.NoNaN = true
		for i := 0; i < n; i++ {
			k := reflect.New(t.Key()).Elem()
			fill(r, k, ko, depth+1)
			e := reflect.New(t.Elem()).Elem()
			fill(r, e, o, depth+1)
			m.SetMapIndex(k, e)
		}
		v.Set(m)
	case reflect.Ptr:
		if !o.NoNilPtr && r.Chance(1, 5) {
			return
		}
		p := reflect.New(t.Elem())
		fill(r, p.Elem(), o, depth+1)
		v.Set(p)
	case reflect.Struct:
		for i := 0; i < t.NumField(); i++ {
			if t.Field(i).PkgPath == "" {
				fill(r, v.Field(i), o, depth+1)
			}
		}
	case reflect.Interface:
		// leave nil; callers that want interface contents fill them explicitly
	}
}

// DescribeKind returns a short class name for distributions.
func DescribeKind(t reflect.Type) string {
	if t == TimeType {
		return "time"
	}
	if t == BytesType {
		return "bytes"
	}
	return t.Kind().String()
}

// TypeDepth returns the nesting depth of a type.
func TypeDepth(t reflect.Type) int {
	if t == TimeType {
		return 0
	}
	switch t.Kind() {
	case reflect.Slice, reflect.Array, reflect.Ptr:
		return 1 + TypeDepth(t.Elem())
	case reflect.Map:
		a, b := TypeDepth(t.Key()), TypeDepth(t.Elem())
		if a > b {
			return 1 + a
		}
		return 1 + b
	case reflect.Struct:
		m := 0
		for i := 0; i < t.NumField(); i++ {
			if d := TypeDepth(t.Field(i).Type); d > m {
				m = d
			}
		}
		return 1 + m
	}
	return 0
}

// EqOpts steers DeepEq.
type EqOpts struct {
	NilEqEmpty bool // nil and empty slices/maps/bytes compare equal
	TimeTrunc  time.Duration
	NegZeroEq  bool // -0.0 == +0.0 (default: distinguished by sign bit)
}

// DeepEq is a normalising deep-equal: NaN equals NaN, times compare as instants,
// pointers are followed.
func DeepEq(a, b reflect.Value, o EqOpts) bool {
	if a.IsValid() != b.IsValid() {
		return false
	}
	if !a.IsValid() {
		return true
	}
	if a.Type() != b.Type() {
		return false
	}
	t := a.Type()
	if t == TimeType {
		x, y := a.Interface().(time.Time), b.Interface().(time.Time)
		if o.TimeTrunc > 0 {
			x, y = x.Truncate(o.TimeTrunc), y.Truncate(o.TimeTrunc)
		}
		return x.Equal(y)
	}
	switch t.Kind() {
	case reflect.Float32, reflect.Float64:
		x, y := a.Float(), b.Float()
		if x != x && y != y {
			return true
		}
		if x == 0 && y == 0 && !o.NegZeroEq {
			return math.Signbit(x) == math.Signbit(y)
		}
		return x == y
	case reflect.Slice:
		if !o.NilEqEmpty && a.IsNil() != b.IsNil() {
			return false
		}
		if a.Len() != b.Len() {
			return false
		}
		for i := 0; i < a.Len(); i++ {
			if !DeepEq(a.Index(i), b.Index(i), o) {
				return false
			}
		}
		return true
	case reflect.Array:
		for i := 0; i < a.Len(); i++ {
			if !DeepEq(a.Index(i), b.Index(i), o) {
				return false
			}
		}
		return true
	case reflect.Map:
		if !o.NilEqEmpty && a.IsNil() != b.IsNil() {
			return false
		}
		if a.Len() != b.Len() {
			return false
		}
		it := a.MapRange()
		for it.Next() {
			bv := b.MapIndex(it.Key())
			if !bv.IsValid() {
				// float keys: -0/+0 or struct keys need exact lookup; fall back to scan
				found := false
				jt := b.MapRange()
				for jt.Next() {
					if DeepEq(it.Key(), jt.Key(), o) && DeepEq(it.Value(), jt.Value(), o) {
						found = true
						break
					}
				}
				if !found {
					return false
				}
				continue
			}
			if !DeepEq(it.Value(), bv, o) {
				return false
			}
		}
		return true
	case reflect.Ptr, reflect.Interface:
		if a.IsNil() != b.IsNil() {
			return false
		}
		if a.IsNil() {
			return true
		}
		return DeepEq(a.Elem(), b.Elem(), o)
	case reflect.Struct:
		for i := 0; i < t.NumField(); i++ {
			if t.Field(i).PkgPath != "" {
				continue
			}
			if !DeepEq(a.Field(i), b.Field(i), o) {
				return false
			}
		}
		return true
	case reflect.Bool:
		return a.Bool() == b.Bool()
	case reflect.Int, reflect.Int8, reflect.Int16, reflect.Int32, reflect.Int64:
		return a.Int() == b.Int()
	case reflect.Uint, reflect.Uint8, reflect.Uint16, reflect.Uint32, reflect.Uint64, reflect.Uintptr:
		return a.Uint() == b.Uint()
	case reflect.String:
		return a.String() == b.String()
	}
	return reflect.DeepEqual(a.Interface(), b.Interface())
}

package vh

// c01_types.go: Go static types / values as Coq terms of
// Verif.Generic.Types.ty / gv, and helpers to rebuild runtime struct types.

import (
	"fmt"
	"math"
	"reflect"
	"sort"
	"strings"
	"time"
)

// EncName is the resolved encoded name of a (non-embedded) struct field: the
// name part of the codec tag, else of the json tag, else the Go field name.
func EncName(f reflect.StructField) string {
	tag := f.Tag.Get("codec")
	if tag == "" {
		tag = f.Tag.Get("json")
	}
	if i := strings.IndexByte(tag, ','); i >= 0 {
		tag = tag[:i]
	}
	if tag != "" {
		return tag
	}
	return f.Name
}

// StripOmitEmpty rebuilds t with every ",omitempty" removed from struct tags
// (omitempty is property C16's; renames are kept).
func StripOmitEmpty(t reflect.Type) reflect.Type {
	if t == TimeType {
		return t
	}
	switch t.Kind() {
	case reflect.Slice:
		return reflect.SliceOf(StripOmitEmpty(t.Elem()))
	case reflect.Array:
		return reflect.ArrayOf(t.Len(), StripOmitEmpty(t.Elem()))
	case reflect.Map:
		return reflect.MapOf(t.Key(), StripOmitEmpty(t.Elem()))
	case reflect.Ptr:
		return reflect.PointerTo(StripOmitEmpty(t.Elem()))
	case reflect.Struct:
		if t.Name() != "" { // named struct types of the fixed corpus are used as they are
			return t
		}
		fs := make([]reflect.StructField, t.NumField())
		for i := range fs {
			f := t.Field(i)
			f.Type = StripOmitEmpty(f.Type)
			f.Tag = reflect.StructTag(strings.ReplaceAll(string(f.Tag), ",omitempty", ""))
			f.Offset = 0
			f.Index = nil
			fs[i] = f
		}
		return reflect.StructOf(fs)
	}
	return t
}

func iwOf(bits int) string {
	switch bits {
	case 8:
		return "W8"
	case 16:
		return "W16"
	case 32:
		return "W32"
	}
	return "W64"
}

// CoqTy prints t as a Coq term of type ty. Struct fields must be exported and
// not embedded (the resolved list is then the declaration list).
func CoqTy(t reflect.Type) (string, error) {
	if t == TimeType {
		return "TTime", nil
	}
	switch t.Kind() {
	case reflect.Bool:
		return "TBool", nil
	case reflect.Int, reflect.Int8, reflect.Int16, reflect.Int32, reflect.Int64:
		return "(TInt " + iwOf(t.Bits()) + ")", nil
	case reflect.Uint, reflect.Uint8, reflect.Uint16, reflect.Uint32, reflect.Uint64:
		return "(TUint " + iwOf(t.Bits()) + ")", nil
	case reflect.Uintptr:
		return "TUintptr", nil
	case reflect.Float32:
		return "(TFloat F32)", nil
	case reflect.Float64:
		return "(TFloat F64)", nil
	case reflect.String:
		return "TString", nil
	case reflect.Slice:
		if t.Elem().Kind() == reflect.Uint8 {
			if t.Elem() != reflect.TypeOf(byte(0)) {
				return "", fmt.Errorf("slice of a named uint8 type")
			}
			return "TBytes", nil
		}
		e, err := CoqTy(t.Elem())
		return "(TSlice " + e + ")", err
	case reflect.Array:
		if t.Elem().Kind() == reflect.Uint8 {
			if t.Elem() != reflect.TypeOf(byte(0)) {
				return "", fmt.Errorf("array of a named uint8 type")
			}
			return fmt.Sprintf("(TByteArray %d)", t.Len()), nil
		}
		e, err := CoqTy(t.Elem())
		return fmt.Sprintf("(TArray %d %s)", t.Len(), e), err
	case reflect.Map:
		k, err := CoqTy(t.Key())
		if err != nil {
			return "", err
		}
		e, err := CoqTy(t.Elem())
		return "(TMap " + k + " " + e + ")", err
	case reflect.Ptr:
		e, err := CoqTy(t.Elem())
		return "(TPtr " + e + ")", err
	case reflect.Struct:
		var sb strings.Builder
		sb.WriteString("(TStruct [")
		for i := 0; i < t.NumField(); i++ {
			f := t.Field(i)
			if f.PkgPath != "" || f.Anonymous {
				return "", fmt.Errorf("unexported or embedded field %s", f.Name)
			}
			if strings.Contains(string(f.Tag), "omitempty") {
				return "", fmt.Errorf("omitempty field %s", f.Name)
			}
			e, err := CoqTy(f.Type)
			if err != nil {
				return "", err
			}
			if i > 0 {
				sb.WriteByte(';')
			}
			sb.WriteString("(" + CoqBytes([]byte(EncName(f))) + "," + e + ")")
		}
		sb.WriteString("])")
		return sb.String(), nil
	}
	return "", fmt.Errorf("unsupported kind %s", t.Kind())
}

func coqList(n int, f func(i int) string) string {
	var sb strings.Builder
	sb.WriteByte('[')
	for i := 0; i < n; i++ {
		if i > 0 {
			sb.WriteByte(';')
		}
		sb.WriteString(f(i))
	}
	sb.WriteByte(']')
	return sb.String()
}

// CoqVal prints v as a Coq term of type gv (map entries sorted by their printed
// key, so that the term is a function of the value only).
func CoqVal(v reflect.Value) string {
	t := v.Type()
	if t == TimeType {
		tm := v.Interface().(time.Time)
		return "(GTime " + CoqZ(tm.Unix()) + " " + CoqN(uint64(tm.Nanosecond())) + ")"
	}
	switch t.Kind() {
	case reflect.Bool:
		return "(GBool " + CoqBool(v.Bool()) + ")"
	case reflect.Int, reflect.Int8, reflect.Int16, reflect.Int32, reflect.Int64:
		return "(GInt " + CoqZ(v.Int()) + ")"
	case reflect.Uint, reflect.Uint8, reflect.Uint16, reflect.Uint32, reflect.Uint64, reflect.Uintptr:
		return "(GUint " + CoqN(v.Uint()) + ")"
	case reflect.Float32:
		return "(GF32 " + CoqN(uint64(math.Float32bits(float32(v.Float())))) + ")"
	case reflect.Float64:
		return "(GF64 " + CoqN(math.Float64bits(v.Float())) + ")"
	case reflect.String:
		return "(GStr " + CoqBytes([]byte(v.String())) + ")"
	case reflect.Slice:
		if t.Elem().Kind() == reflect.Uint8 {
			if v.IsNil() {
				return "(GBytes None)"
			}
			return "(GBytes (Some " + CoqBytes(v.Bytes()) + "))"
		}
		if v.IsNil() {
			return "(GList None)"
		}
		return "(GList (Some " + coqList(v.Len(), func(i int) string { return CoqVal(v.Index(i)) }) + "))"
	case reflect.Array:
		if t.Elem().Kind() == reflect.Uint8 {
			b := make([]byte, v.Len())
			for i := range b {
				b[i] = byte(v.Index(i).Uint())
			}
			return "(GBArr " + CoqBytes(b) + ")"
		}
		return "(GArr " + coqList(v.Len(), func(i int) string { return CoqVal(v.Index(i)) }) + ")"
	case reflect.Map:
		if v.IsNil() {
			return "(GMap None)"
		}
		es := make([]string, 0, v.Len())
		it := v.MapRange()
		for it.Next() {
			es = append(es, "("+CoqVal(it.Key())+","+CoqVal(it.Value())+")")
		}
		sort.Strings(es)
		return "(GMap (Some [" + strings.Join(es, ";") + "]))"
	case reflect.Ptr:
		if v.IsNil() {
			return "(GPtr None)"
		}
		return "(GPtr (Some " + CoqVal(v.Elem()) + "))"
	case reflect.Struct:
		return "(GStruct " + coqList(t.NumField(), func(i int) string {
			return "(" + CoqBytes([]byte(EncName(t.Field(i)))) + "," + CoqVal(v.Field(i)) + ")"
		}) + ")"
	}
	panic("CoqVal: unsupported kind " + t.Kind().String())
}

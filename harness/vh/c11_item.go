package vh

// c11_item.go (C11 / C15): item trees <-> the Go values an Encoder is handed and
// a Decoder produces for interface{} destinations; a random item generator.
// Shares the Item type (and its Coq printer) with c01_item.go.

import (
	"fmt"
	"math"
	"reflect"
	"sort"
	"time"
)

// MBS is a slice [k0,v0,k1,v1,...] that the codec encodes as a map with the
// entries in the listed order (codec.MapBySlice): the map order is then a
// parameter of the test and not an accident of Go's map iteration.
type MBS []interface{}

func (MBS) MapBySlice() {}

// ItemToGo builds the Go value an Encoder is handed for the item. Maps with at
// most one entry (and a hashable, non-[]byte key) become real Go maps when
// realMaps is set, all others an MBS.
func ItemToGo(it *Item, realMaps bool) interface{} {
	switch it.K {
	case INil:
		return nil
	case IBool:
		return it.B
	case IInt:
		return it.I
	case IUint:
		return it.U
	case IF32:
		return math.Float32frombits(uint32(it.U))
	case IF64:
		return math.Float64frombits(it.U)
	case IStr:
		return string(it.S)
	case IBytes:
		return append([]byte{}, it.S...)
	case ITime:
		return time.Unix(it.Sec, it.Nsec).UTC()
	case IArr:
		out := make([]interface{}, 0, len(it.L))
		for _, x := range it.L {
			out = append(out, ItemToGo(x, realMaps))
		}
		return out
	case IMap:
		if realMaps && len(it.M) <= 1 && (len(it.M) == 0 || (it.M[0][0].K != IBytes && it.M[0][0].K != IArr && it.M[0][0].K != IMap)) {
			out := map[interface{}]interface{}{}
			for _, kv := range it.M {
				out[ItemToGo(kv[0], realMaps)] = ItemToGo(kv[1], realMaps)
			}
			return out
		}
		out := make(MBS, 0, 2*len(it.M))
		for _, kv := range it.M {
			out = append(out, ItemToGo(kv[0], realMaps), ItemToGo(kv[1], realMaps))
		}
		return out
	}
	panic("ItemToGo: kind")
}

// ItemFromGo dumps a value decoded into interface{} (any MapType / SliceType /
// PreferArrayOverSlice choice) as an item; map entries sorted by the Coq text of
// the key. ok=false when a dynamic type outside the documented ones is met
// (named in the IStr that replaces it).
func ItemFromGo(v interface{}) (it *Item, ok bool) {
	ok = true
	it = itemFromGo(reflect.ValueOf(v), &ok)
	return
}

func itemFromGo(rv reflect.Value, ok *bool) *Item {
	if !rv.IsValid() {
		return &Item{K: INil}
	}
	t := rv.Type()
	if t == TimeType {
		x := rv.Interface().(time.Time)
		return &Item{K: ITime, Sec: x.Unix(), Nsec: int64(x.Nanosecond())}
	}
	switch t.Kind() {
	case reflect.Interface, reflect.Ptr:
		if rv.IsNil() {
			return &Item{K: INil}
		}
		return itemFromGo(rv.Elem(), ok)
	case reflect.Bool:
		return &Item{K: IBool, B: rv.Bool()}
	case reflect.Int64:
		return &Item{K: IInt, I: rv.Int()}
	case reflect.Uint64:
		return &Item{K: IUint, U: rv.Uint()}
	case reflect.Float64:
		return &Item{K: IF64, U: math.Float64bits(rv.Float())}
	case reflect.Float32:
		return &Item{K: IF32, U: uint64(math.Float32bits(float32(rv.Float())))}
	case reflect.String:
		return &Item{K: IStr, S: []byte(rv.String())}
	case reflect.Slice, reflect.Array:
		if t.Elem().Kind() == reflect.Uint8 {
			if t.Kind() == reflect.Slice && rv.IsNil() {
				return &Item{K: INil}
			}
			b := make([]byte, rv.Len())
			reflect.Copy(reflect.ValueOf(b), rv)
			return &Item{K: IBytes, S: b}
		}
		if t.Kind() == reflect.Slice && rv.IsNil() {
			return &Item{K: INil}
		}
		out := &Item{K: IArr}
		for i := 0; i < rv.Len(); i++ {
			out.L = append(out.L, itemFromGo(rv.Index(i), ok))
		}
		return out
	case reflect.Map:
		if rv.IsNil() {
			return &Item{K: INil}
		}
		out := &Item{K: IMap}
		mi := rv.MapRange()
		for mi.Next() {
			out.M = append(out.M, [2]*Item{itemFromGo(mi.Key(), ok), itemFromGo(mi.Value(), ok)})
		}
		sort.Slice(out.M, func(i, j int) bool { return out.M[i][0].Coq() < out.M[j][0].Coq() })
		return out
	}
	*ok = false
	return &Item{K: IStr, S: []byte(fmt.Sprintf("<unexpected %s>", t))}
}

// ItemDepth is the container nesting depth.
func ItemDepth(it *Item) int {
	d := 0
	for _, x := range it.L {
		if e := ItemDepth(x); e > d {
			d = e
		}
	}
	for _, kv := range it.M {
		for _, x := range kv {
			if e := ItemDepth(x); e > d {
				d = e
			}
		}
	}
	if it.K == IArr || it.K == IMap {
		return d + 1
	}
	return 0
}

// ItemGen steers RandItem.
type ItemGen struct {
	MaxDepth  int
	NoTime    bool
	NoBytes   bool
	NoF32     bool
	NoNaN     bool
	ASCII     bool // strings are printable ASCII
	ValidUTF8 bool
	StrKeys   bool // map keys are strings only
	BigLens   bool
	NoNilKey  bool
	Syms      []string // pool of strings to draw from (binc symbols)
}

var itemU64 = []uint64{0, 1, 23, 24, 31, 32, 127, 128, 255, 256, 65535, 65536, 1<<31 - 1, 1 << 31, 1<<32 - 1, 1 << 32, 1<<53 + 1, 1<<63 - 1, 1 << 63, 1<<64 - 1}

func itemRandU64(r *Rng) uint64 {
	switch r.Intn(4) {
	case 0:
		return itemU64[r.Intn(len(itemU64))]
	case 1:
		return uint64(r.Intn(300))
	case 2:
		return r.U64() >> uint(r.Intn(64))
	}
	return r.U64()
}

func itemRandStr(r *Rng, g ItemGen) []byte {
	if len(g.Syms) > 0 && r.Chance(2, 3) {
		return []byte(g.Syms[r.Intn(len(g.Syms))])
	}
	n := r.Intn(6)
	if g.BigLens && r.Chance(1, 10) {
		n = r.PickInt(23, 24, 31, 32, 33, 255, 256, 257)
	}
	b := make([]byte, 0, n)
	for len(b) < n {
		switch {
		case g.ASCII || r.Chance(3, 4):
			b = append(b, byte(32+r.Intn(95)))
		case g.ValidUTF8:
			b = append(b, []byte(utf8Samples[r.Intn(len(utf8Samples))])...)
		default:
			b = append(b, byte(r.U64()))
		}
	}
	return b
}

func itemRandScalar(r *Rng, g ItemGen) *Item {
	for {
		switch r.Intn(10) {
		case 0:
			return &Item{K: INil}
		case 1:
			return &Item{K: IBool, B: r.Bool()}
		case 2:
			v := int64(itemRandU64(r))
			if r.Bool() {
				v = -v
			}
			return &Item{K: IInt, I: v}
		case 3:
			return &Item{K: IUint, U: itemRandU64(r)}
		case 4:
			if g.NoF32 {
				continue
			}
			f := float32(floatBoundaries[r.Intn(len(floatBoundaries))])
			if r.Bool() {
				f = math.Float32frombits(uint32(r.U64()))
			}
			if f != f && g.NoNaN {
				continue
			}
			return &Item{K: IF32, U: uint64(math.Float32bits(f))}
		case 5:
			f := floatBoundaries[r.Intn(len(floatBoundaries))]
			if r.Bool() {
				f = math.Float64frombits(r.U64())
			}
			if f != f && g.NoNaN {
				continue
			}
			return &Item{K: IF64, U: math.Float64bits(f)}
		case 6, 7:
			return &Item{K: IStr, S: itemRandStr(r, g)}
		case 8:
			if g.NoBytes {
				continue
			}
			return &Item{K: IBytes, S: r.Bytes(r.Intn(6))}
		case 9:
			if g.NoTime {
				continue
			}
			sec := int64(r.Intn(1<<31)) - 1<<30
			if r.Chance(1, 4) {
				sec = int64(r.U64()>>uint(30+r.Intn(30))) - 1<<32
			}
			ns := int64(0)
			if r.Bool() {
				ns = int64(r.Intn(1000000000))
			}
			if r.Chance(1, 3) {
				ns = int64(r.Intn(1000)) * 1000000
			}
			return &Item{K: ITime, Sec: sec, Nsec: ns}
		}
	}
}

// RandItem draws a random item tree; map keys are scalars, pairwise different as
// Go values of their dynamic type.
func RandItem(r *Rng, g ItemGen, depth int) *Item {
	if depth >= g.MaxDepth || r.Chance(2, 5) {
		return itemRandScalar(r, g)
	}
	n := r.Intn(4)
	if g.BigLens && r.Chance(1, 12) {
		n = r.PickInt(15, 16, 17, 23, 24, 31, 32)
	}
	if r.Bool() {
		out := &Item{K: IArr, L: []*Item{}}
		for i := 0; i < n; i++ {
			out.L = append(out.L, RandItem(r, g, depth+1))
		}
		return out
	}
	out := &Item{K: IMap, M: [][2]*Item{}}
	seen := map[string]bool{}
	for i := 0; i < n; i++ {
		var k *Item
		for tries := 0; ; tries++ {
			if g.StrKeys {
				k = &Item{K: IStr, S: itemRandStr(r, g)}
			} else {
				k = itemRandScalar(r, g)
			}
			if k.K == INil && g.NoNilKey {
				continue
			}
			if k.K == IF32 || k.K == IF64 {
				// keep float keys apart from NaN / signed zero subtleties
				k = &Item{K: IF64, U: math.Float64bits(float64(r.Intn(1000)) + 0.5)}
			}
			if k.K == IBytes || k.K == ITime {
				k = &Item{K: IStr, S: itemRandStr(r, g)}
			}
			// distinct also across the int/uint split and the str/bytes split
			ks := k.Coq()
			switch k.K {
			case IInt:
				if k.I >= 0 {
					ks = fmt.Sprintf("num%d", k.I)
				}
			case IUint:
				ks = fmt.Sprintf("num%d", k.U)
			}
			if !seen[ks] {
				seen[ks] = true
				break
			}
			if tries > 20 {
				k = &Item{K: IStr, S: []byte(fmt.Sprintf("k%d.%d", i, r.Intn(1000000)))}
				seen[k.Coq()] = true
				break
			}
		}
		out.M = append(out.M, [2]*Item{k, RandItem(r, g, depth+1)})
	}
	return out
}

package vh

// c01_norm.go: the documented losses of a typed round trip, applied to the
// ORIGINAL value before it is compared (strictly) with the decoded one. This is
// the Go twin of [norm] in coq/theories/Generic/Dec.v.

import (
	"fmt"
	"math"
	"reflect"
	"time"
)

type NormCfg struct {
	NilToEmpty bool                      // NilCollectionToZeroLength: nil slice/map/[]byte is written as an empty one
	Time       func(time.Time) time.Time // the format's documented time precision (nil: identity, UTC)
	F32        func(float32) float32     // documented float loss (nil: identity)
	F64        func(float64) float64
}

// EncodesNil: the value is written as a nil, so a pointer to it reads back as a nil pointer.
func EncodesNil(v reflect.Value, c NormCfg) bool {
	if v.Type() == TimeType {
		return v.Interface().(time.Time).IsZero()
	}
	switch v.Kind() {
	case reflect.Slice, reflect.Map:
		return v.IsNil() && !c.NilToEmpty
	case reflect.Ptr:
		return v.IsNil() || EncodesNil(v.Elem(), c)
	}
	return false
}

// Norm returns a fresh value of the same type with the documented losses applied.
func Norm(v reflect.Value, c NormCfg) reflect.Value {
	t := v.Type()
	out := reflect.New(t).Elem()
	if t == TimeType {
		tm := v.Interface().(time.Time)
		if c.Time != nil {
			tm = c.Time(tm)
		}
		if !tm.IsZero() {
			tm = tm.UTC()
		}
		out.Set(reflect.ValueOf(tm))
		return out
	}
	switch t.Kind() {
	case reflect.Float32:
		f := float32(v.Float())
		if c.F32 != nil {
			f = c.F32(f)
		}
		out.SetFloat(float64(f))
	case reflect.Float64:
		f := v.Float()
		if c.F64 != nil {
			f = c.F64(f)
		}
		out.SetFloat(f)
	case reflect.Slice:
		if v.IsNil() {
			if c.NilToEmpty {
				out.Set(reflect.MakeSlice(t, 0, 0))
			}
			return out
		}
		s := reflect.MakeSlice(t, v.Len(), v.Len())
		for i := 0; i < v.Len(); i++ {
			s.Index(i).Set(Norm(v.Index(i), c))
		}
		out.Set(s)
	case reflect.Array:
		for i := 0; i < v.Len(); i++ {
			out.Index(i).Set(Norm(v.Index(i), c))
		}
	case reflect.Map:
		if v.IsNil() {
			if c.NilToEmpty {
				out.Set(reflect.MakeMap(t))
			}
			return out
		}
		m := reflect.MakeMapWithSize(t, v.Len())
		it := v.MapRange()
		for it.Next() {
			m.SetMapIndex(Norm(it.Key(), c), Norm(it.Value(), c))
		}
		out.Set(m)
	case reflect.Ptr:
		if v.IsNil() || EncodesNil(v.Elem(), c) {
			return out
		}
		p := reflect.New(t.Elem())
		p.Elem().Set(Norm(v.Elem(), c))
		out.Set(p)
	case reflect.Struct:
		for i := 0; i < t.NumField(); i++ {
			if t.Field(i).PkgPath == "" {
				out.Field(i).Set(Norm(v.Field(i), c))
			}
		}
	default:
		out.Set(v)
	}
	return out
}

// FirstDiff returns "" if a and b are strictly equal (NaN = NaN, times as
// instants, nil != empty), else a stable description of the first difference:
// the chain of kinds leading to it and its nature.
func FirstDiff(a, b reflect.Value) string {
	t := a.Type()
	if t != b.Type() {
		return "type"
	}
	if t == TimeType {
		x, y := a.Interface().(time.Time), b.Interface().(time.Time)
		if !x.Equal(y) {
			return "time:instant"
		}
		return ""
	}
	switch t.Kind() {
	case reflect.Bool:
		if a.Bool() != b.Bool() {
			return "bool"
		}
	case reflect.Int, reflect.Int8, reflect.Int16, reflect.Int32, reflect.Int64:
		if a.Int() != b.Int() {
			return t.Kind().String()
		}
	case reflect.Uint, reflect.Uint8, reflect.Uint16, reflect.Uint32, reflect.Uint64, reflect.Uintptr:
		if a.Uint() != b.Uint() {
			return t.Kind().String()
		}
	case reflect.Float32, reflect.Float64:
		x, y := a.Float(), b.Float()
		if x != x && y != y {
			return ""
		}
		if math.Float64bits(x) != math.Float64bits(y) {
			if x == 0 && y == 0 {
				return t.Kind().String() + ":zero-sign"
			}
			return t.Kind().String()
		}
	case reflect.String:
		if a.String() != b.String() {
			return "string"
		}
	case reflect.Slice:
		if a.IsNil() != b.IsNil() {
			return "slice:nil-vs-empty"
		}
		if a.Len() != b.Len() {
			return "slice:len"
		}
		for i := 0; i < a.Len(); i++ {
			if d := FirstDiff(a.Index(i), b.Index(i)); d != "" {
				return "slice." + d
			}
		}
	case reflect.Array:
		for i := 0; i < a.Len(); i++ {
			if d := FirstDiff(a.Index(i), b.Index(i)); d != "" {
				return "array." + d
			}
		}
	case reflect.Map:
		if a.IsNil() != b.IsNil() {
			return "map:nil-vs-empty"
		}
		if a.Len() != b.Len() {
			return "map:len"
		}
		it := a.MapRange()
		for it.Next() {
			bv := b.MapIndex(it.Key())
			if !bv.IsValid() {
				return "map:key-missing"
			}
			if d := FirstDiff(it.Value(), bv); d != "" {
				return "map." + d
			}
		}
	case reflect.Ptr:
		if a.IsNil() != b.IsNil() {
			return "ptr:nil"
		}
		if !a.IsNil() {
			if d := FirstDiff(a.Elem(), b.Elem()); d != "" {
				return "ptr." + d
			}
		}
	case reflect.Struct:
		for i := 0; i < t.NumField(); i++ {
			if t.Field(i).PkgPath != "" {
				continue
			}
			if d := FirstDiff(a.Field(i), b.Field(i)); d != "" {
				return "struct." + d
			}
		}
	default:
		return fmt.Sprintf("unsupported:%s", t.Kind())
	}
	return ""
}

// TypeShape is a compact description of the kind tree of t.
func TypeShape(t reflect.Type) string {
	if t == TimeType {
		return "T"
	}
	switch t.Kind() {
	case reflect.Slice:
		if t.Elem().Kind() == reflect.Uint8 {
			return "B"
		}
		return "[" + TypeShape(t.Elem()) + "]"
	case reflect.Array:
		if t.Elem().Kind() == reflect.Uint8 {
			return fmt.Sprintf("b%d", t.Len())
		}
		return fmt.Sprintf("%d[%s]", t.Len(), TypeShape(t.Elem()))
	case reflect.Map:
		return "m" + TypeShape(t.Key()) + "{" + TypeShape(t.Elem()) + "}"
	case reflect.Ptr:
		return "*" + TypeShape(t.Elem())
	case reflect.Struct:
		s := "s("
		for i := 0; i < t.NumField(); i++ {
			s += TypeShape(t.Field(i).Type) + ","
		}
		return s + ")"
	case reflect.Bool:
		return "o"
	case reflect.String:
		return "S"
	case reflect.Float32:
		return "f"
	case reflect.Float64:
		return "F"
	case reflect.Uintptr:
		return "up"
	case reflect.Int, reflect.Int8, reflect.Int16, reflect.Int32, reflect.Int64:
		return fmt.Sprintf("i%d", t.Bits())
	case reflect.Uint, reflect.Uint8, reflect.Uint16, reflect.Uint32, reflect.Uint64:
		return fmt.Sprintf("u%d", t.Bits())
	}
	return t.Kind().String()
}

// KindsOf adds every kind occurring in t to m.
func KindsOf(t reflect.Type, m map[string]int) {
	m["kind."+DescribeKind(t)]++
	if t == TimeType {
		return
	}
	switch t.Kind() {
	case reflect.Slice, reflect.Array, reflect.Ptr:
		if t.Elem().Kind() != reflect.Uint8 || t.Kind() == reflect.Ptr {
			KindsOf(t.Elem(), m)
		}
	case reflect.Map:
		KindsOf(t.Key(), m)
		KindsOf(t.Elem(), m)
	case reflect.Struct:
		for i := 0; i < t.NumField(); i++ {
			KindsOf(t.Field(i).Type, m)
		}
	}
}

package vh

import (
	"fmt"
	"sort"
	"strings"

	"github.com/ugorji/go/codec"
)

var Formats = []string{"cbor", "msgpack", "binc", "simple", "json"}

// Opts is a format-independent option vector; fields a format does not have are ignored.
type Opts map[string]interface{}

func (o Opts) b(k string) bool { v, _ := o[k].(bool); return v }
func (o Opts) i(k string) int  { v, _ := o[k].(int); return v }

func (o Opts) String() string {
	ks := make([]string, 0, len(o))
	for k := range o {
		ks = append(ks, k)
	}
	sort.Strings(ks)
	var sb strings.Builder
	for _, k := range ks {
		fmt.Fprintf(&sb, "%s=%v ", k, o[k])
	}
	return strings.TrimSpace(sb.String())
}

// NewHandle builds a fresh handle of the named format with the option vector applied.
func NewHandle(format string, o Opts) codec.Handle {
	var h codec.Handle
	var bh *codec.BasicHandle
	switch format {
	case "cbor":
		x := &codec.CborHandle{}
		x.IndefiniteLength = o.b("IndefiniteLength")
		x.TimeRFC3339 = o.b("TimeRFC3339")
		x.SkipUnexpectedTags = o.b("SkipUnexpectedTags")
		h, bh = x, &x.BasicHandle
	case "msgpack":
		x := &codec.MsgpackHandle{}
		x.NoFixedNum = o.b("NoFixedNum")
		x.WriteExt = o.b("WriteExt")
		x.PositiveIntUnsigned = o.b("PositiveIntUnsigned")
		h, bh = x, &x.BasicHandle
	case "binc":
		x := &codec.BincHandle{}
		x.AsSymbols = uint8(o.i("AsSymbols"))
		h, bh = x, &x.BasicHandle
	case "simple":
		x := &codec.SimpleHandle{}
		x.EncZeroValuesAsNil = o.b("EncZeroValuesAsNil")
		h, bh = x, &x.BasicHandle
	case "json":
		x := &codec.JsonHandle{}
		x.Indent = int8(o.i("Indent"))
		if s, ok := o["IntegerAsString"].(string); ok && len(s) == 1 {
			x.IntegerAsString = s[0]
		}
		x.HTMLCharsAsIs = o.b("HTMLCharsAsIs")
		x.PreferFloat = o.b("PreferFloat")
		x.TermWhitespace = o.b("TermWhitespace")
		x.MapKeyAsString = o.b("MapKeyAsString")
		if s, ok := o["BytesFormat"].(string); ok && s != "" {
			x.BytesFormat = []string{s}
		}
		h, bh = x, &x.BasicHandle
	default:
		panic("unknown format " + format)
	}
	bh.StructToArray = o.b("StructToArray")
	bh.Canonical = o.b("Canonical")
	bh.CheckCircularRef = o.b("CheckCircularRef")
	bh.RecursiveEmptyCheck = o.b("RecursiveEmptyCheck")
	bh.Raw = o.b("Raw")
	bh.StringToRaw = o.b("StringToRaw")
	bh.OptimumSize = o.b("OptimumSize")
	bh.NilCollectionToZeroLength = o.b("NilCollectionToZeroLength")
	bh.WriterBufferSize = o.i("WriterBufferSize")
	bh.ReaderBufferSize = o.i("ReaderBufferSize")
	bh.MaxInitLen = o.i("MaxInitLen")
	bh.MaxDepth = int16(o.i("MaxDepth"))
	bh.ErrorIfNoField = o.b("ErrorIfNoField")
	bh.ErrorIfNoArrayExpand = o.b("ErrorIfNoArrayExpand")
	bh.SignedInteger = o.b("SignedInteger")
	bh.MapValueReset = o.b("MapValueReset")
	bh.SliceElementReset = o.b("SliceElementReset")
	bh.InterfaceReset = o.b("InterfaceReset")
	bh.InternString = o.b("InternString")
	bh.PreferArrayOverSlice = o.b("PreferArrayOverSlice")
	bh.DeleteOnNilMapValue = o.b("DeleteOnNilMapValue")
	bh.RawToString = o.b("RawToString")
	bh.ZeroCopy = o.b("ZeroCopy")
	bh.ValidateUnicode = o.b("ValidateUnicode")
	return h
}

// RandEncOpts draws a random encoder option vector valid for the format.
func RandEncOpts(r *Rng, format string) Opts {
	o := Opts{}
	if r.Chance(1, 3) {
		o["StructToArray"] = true
	}
	if r.Chance(1, 3) {
		o["Canonical"] = true
	}
	if r.Chance(1, 4) {
		o["OptimumSize"] = true
	}
	if r.Chance(1, 5) {
		o["StringToRaw"] = true
	}
	switch format {
	case "cbor":
		if r.Chance(1, 3) {
			o["IndefiniteLength"] = true
		}
		if r.Chance(1, 3) {
			o["TimeRFC3339"] = true
		}
	case "msgpack":
		if r.Chance(1, 3) {
			o["NoFixedNum"] = true
		}
		if r.Chance(1, 2) {
			o["WriteExt"] = true
		}
		if r.Chance(1, 3) {
			o["PositiveIntUnsigned"] = true
		}
	case "binc":
		if r.Chance(1, 2) {
			o["AsSymbols"] = 1
		}
	case "json":
		if r.Chance(1, 4) {
			o["Indent"] = r.PickInt(-1, 1, 2, 4)
		}
		if r.Chance(1, 4) {
			o["IntegerAsString"] = []string{"A", "L"}[r.Intn(2)]
		}
		if r.Chance(1, 3) {
			o["HTMLCharsAsIs"] = true
		}
		if r.Chance(1, 3) {
			o["MapKeyAsString"] = true
		}
		if r.Chance(1, 4) {
			o["TermWhitespace"] = true
		}
	}
	return o
}

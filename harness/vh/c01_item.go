package vh

// c01_item.go: an INDEPENDENT parser of cbor bytes into the format-independent
// item tree of coq/theories/Wire/Item.v, and a printer item -> Coq term.
// Written from RFC 8949 only (it shares no code with codec/cbor.go), except for
// the two places where the observed item is defined by what the codec's driver
// does with a tag: float16 is widened to float32 bits the way
// halfFloatToFloatBits does (ported), and tag 0 / tag 1 are converted to an
// instant the way cborDecDriver.decodeTime does (RFC3339 parse / Modf, then
// Round(Microsecond)).

import (
	"fmt"
	"math"
	"strings"
	"time"
)

type ItemKind int

const (
	INil ItemKind = iota
	IBool
	IInt
	IUint
	IF32
	IF64
	IStr
	IBytes
	IArr
	IMap
	ITime
)

type Item struct {
	K    ItemKind
	B    bool
	I    int64  // IInt (negative values only when parsed from cbor)
	U    uint64 // IUint, IF32/IF64 bits
	S    []byte // IStr / IBytes
	L    []*Item
	M    [][2]*Item
	Sec  int64
	Nsec int64
	// parse facts, for distributions
	Indef bool
	HdrW  int // width class of the length / value header: 0 (immediate), 1, 2, 4, 8
}

type cborParser struct {
	b   []byte
	p   int
	err error
}

func (c *cborParser) fail(f string, a ...interface{}) {
	if c.err == nil {
		c.err = fmt.Errorf("cbor parse @%d: "+f, append([]interface{}{c.p}, a...)...)
	}
}

func (c *cborParser) u8() byte {
	if c.err != nil || c.p >= len(c.b) {
		c.fail("eof")
		return 0
	}
	x := c.b[c.p]
	c.p++
	return x
}

func (c *cborParser) take(n uint64) []byte {
	if c.err != nil || uint64(len(c.b)-c.p) < n {
		c.fail("eof taking %d", n)
		return nil
	}
	x := c.b[c.p : c.p+int(n)]
	c.p += int(n)
	return x
}

// arg reads the argument of an initial byte with additional info ai (<28).
func (c *cborParser) arg(ai byte) (v uint64, w int) {
	switch {
	case ai < 24:
		return uint64(ai), 0
	case ai == 24:
		return uint64(c.u8()), 1
	case ai == 25:
		x := c.take(2)
		if x == nil {
			return 0, 2
		}
		return uint64(x[0])<<8 | uint64(x[1]), 2
	case ai == 26:
		x := c.take(4)
		if x == nil {
			return 0, 4
		}
		return uint64(x[0])<<24 | uint64(x[1])<<16 | uint64(x[2])<<8 | uint64(x[3]), 4
	case ai == 27:
		x := c.take(8)
		if x == nil {
			return 0, 8
		}
		var v uint64
		for _, y := range x {
			v = v<<8 | uint64(y)
		}
		return v, 8
	}
	c.fail("reserved additional info %d", ai)
	return 0, 0
}

// half -> float32 bits, ported from codec/helper.go halfFloatToFloatBits (an
// exact conversion; subnormals normalised).
func halfToFloat32Bits(h uint16) uint32 {
	s := uint32(h>>15) & 1
	e := uint32(h>>10) & 0x1f
	m := uint32(h) & 0x3ff
	switch {
	case e == 0 && m == 0:
		return s << 31
	case e == 0: // subnormal: m * 2^-24
		e32 := int32(1)
		for m&0x400 == 0 {
			m <<= 1
			e32--
		}
		m &= 0x3ff
		return s<<31 | uint32(e32+112)<<23 | m<<13
	case e == 31:
		return s<<31 | 0xff<<23 | m<<13
	}
	return s<<31 | (e+112)<<23 | m<<13
}

func (c *cborParser) item() *Item {
	ib := c.u8()
	if c.err != nil {
		return &Item{}
	}
	major, ai := ib>>5, ib&0x1f
	switch major {
	case 0:
		v, w := c.arg(ai)
		return &Item{K: IUint, U: v, HdrW: w}
	case 1:
		v, w := c.arg(ai)
		if v > math.MaxInt64 {
			c.fail("negative integer below -2^63")
		}
		return &Item{K: IInt, I: -1 - int64(v), HdrW: w}
	case 2, 3:
		k := IBytes
		if major == 3 {
			k = IStr
		}
		if ai == 31 {
			it := &Item{K: k, S: []byte{}, Indef: true}
			for {
				if c.err != nil {
					return it
				}
				if c.p < len(c.b) && c.b[c.p] == 0xff {
					c.p++
					return it
				}
				cb := c.u8()
				if cb>>5 != major || cb&0x1f == 31 {
					c.fail("bad chunk in indefinite string")
					return it
				}
				n, _ := c.arg(cb & 0x1f)
				it.S = append(it.S, c.take(n)...)
			}
		}
		n, w := c.arg(ai)
		s := c.take(n)
		return &Item{K: k, S: append([]byte{}, s...), HdrW: w}
	case 4:
		it := &Item{K: IArr, L: []*Item{}}
		if ai == 31 {
			it.Indef = true
			for c.err == nil {
				if c.p < len(c.b) && c.b[c.p] == 0xff {
					c.p++
					return it
				}
				it.L = append(it.L, c.item())
			}
			return it
		}
		n, w := c.arg(ai)
		it.HdrW = w
		for i := uint64(0); i < n && c.err == nil; i++ {
			it.L = append(it.L, c.item())
		}
		return it
	case 5:
		it := &Item{K: IMap, M: [][2]*Item{}}
		if ai == 31 {
			it.Indef = true
			for c.err == nil {
				if c.p < len(c.b) && c.b[c.p] == 0xff {
					c.p++
					return it
				}
				k := c.item()
				v := c.item()
				it.M = append(it.M, [2]*Item{k, v})
			}
			return it
		}
		n, w := c.arg(ai)
		it.HdrW = w
		for i := uint64(0); i < n && c.err == nil; i++ {
			k := c.item()
			v := c.item()
			it.M = append(it.M, [2]*Item{k, v})
		}
		return it
	case 6:
		tag, _ := c.arg(ai)
		inner := c.item()
		if c.err != nil {
			return inner
		}
		var t time.Time
		switch tag {
		case 0:
			if inner.K != IStr && inner.K != IBytes {
				c.fail("tag 0 content is not a string")
				return inner
			}
			var err error
			t, err = time.Parse(time.RFC3339, string(inner.S))
			if err != nil {
				c.fail("tag 0: %v", err)
				return inner
			}
		case 1:
			var f float64
			switch inner.K {
			case IUint:
				f = float64(inner.U)
			case IInt:
				f = float64(inner.I)
			case IF32:
				f = float64(math.Float32frombits(uint32(inner.U)))
			case IF64:
				f = math.Float64frombits(inner.U)
			default:
				c.fail("tag 1 content is not a number")
				return inner
			}
			f1, f2 := math.Modf(f)
			t = time.Unix(int64(f1), int64(f2*1e9))
		default:
			c.fail("unexpected tag %d", tag)
			return inner
		}
		t = t.UTC().Round(time.Microsecond)
		return &Item{K: ITime, Sec: t.Unix(), Nsec: int64(t.Nanosecond())}
	default: // 7
		switch ai {
		case 20:
			return &Item{K: IBool, B: false}
		case 21:
			return &Item{K: IBool, B: true}
		case 22, 23:
			return &Item{K: INil}
		case 25:
			x := c.take(2)
			if x == nil {
				return &Item{}
			}
			return &Item{K: IF32, U: uint64(halfToFloat32Bits(uint16(x[0])<<8 | uint16(x[1]))), HdrW: 2}
		case 26:
			v, _ := c.arg(26)
			return &Item{K: IF32, U: v, HdrW: 4}
		case 27:
			v, _ := c.arg(27)
			return &Item{K: IF64, U: v, HdrW: 8}
		}
		c.fail("unsupported simple value %d", ai)
		return &Item{}
	}
}

// ParseCbor parses exactly one data item spanning all of b.
func ParseCbor(b []byte) (*Item, error) {
	c := &cborParser{b: b}
	it := c.item()
	if c.err == nil && c.p != len(b) {
		c.fail("%d trailing bytes", len(b)-c.p)
	}
	return it, c.err
}

// Coq prints the item as a term of Verif.Wire.Item.item.
func (it *Item) Coq() string {
	var sb strings.Builder
	it.coq(&sb)
	return sb.String()
}

func (it *Item) coq(sb *strings.Builder) {
	switch it.K {
	case INil:
		sb.WriteString("INil")
	case IBool:
		sb.WriteString("(IBool " + CoqBool(it.B) + ")")
	case IInt:
		sb.WriteString("(IInt " + CoqZ(it.I) + ")")
	case IUint:
		sb.WriteString("(IUint " + CoqN(it.U) + ")")
	case IF32:
		sb.WriteString("(IF32 " + CoqN(it.U) + ")")
	case IF64:
		sb.WriteString("(IF64 " + CoqN(it.U) + ")")
	case IStr:
		sb.WriteString("(IStr " + CoqBytes(it.S) + ")")
	case IBytes:
		sb.WriteString("(IBytes " + CoqBytes(it.S) + ")")
	case ITime:
		sb.WriteString("(ITime " + CoqZ(it.Sec) + " " + CoqN(uint64(it.Nsec)) + ")")
	case IArr:
		sb.WriteString("(IArr [")
		for i, x := range it.L {
			if i > 0 {
				sb.WriteByte(';')
			}
			x.coq(sb)
		}
		sb.WriteString("])")
	case IMap:
		sb.WriteString("(IMap [")
		for i, kv := range it.M {
			if i > 0 {
				sb.WriteByte(';')
			}
			sb.WriteByte('(')
			kv[0].coq(sb)
			sb.WriteByte(',')
			kv[1].coq(sb)
			sb.WriteByte(')')
		}
		sb.WriteString("])")
	}
}

// Walk calls f on every node.
func (it *Item) Walk(f func(*Item)) {
	f(it)
	for _, x := range it.L {
		x.Walk(f)
	}
	for _, kv := range it.M {
		kv[0].Walk(f)
		kv[1].Walk(f)
	}
}

// Package vh holds what the per-property harness commands share: the single
// PRNG every random choice derives from, Coq term printers, random Go types and
// values built with reflect, handles, and the summary a command prints.
package vh

import (
	"encoding/json"
	"fmt"
	"os"
	"strconv"
	"strings"
)

// Rng is splitmix64: tiny, reproducible, seedable from VERIF_SEED.
type Rng struct{ s uint64 }

func NewRng(seed uint64) *Rng { return &Rng{s: seed*0x9E3779B97F4A7C15 + 0x1234567} }

func (r *Rng) U64() uint64 {
	r.s += 0x9E3779B97F4A7C15
	z := r.s
	z = (z ^ (z >> 30)) * 0xBF58476D1CE4E5B9
	z = (z ^ (z >> 27)) * 0x94D049BB133111EB
	return z ^ (z >> 31)
}

// Intn returns a value in [0,n).
func (r *Rng) Intn(n int) int {
	if n <= 0 {
		return 0
	}
	return int(r.U64() % uint64(n))
}

func (r *Rng) Bool() bool { return r.U64()&1 == 1 }

// Chance returns true with probability num/den.
func (r *Rng) Chance(num, den int) bool { return r.Intn(den) < num }

func (r *Rng) Bytes(n int) []byte {
	b := make([]byte, n)
	for i := range b {
		b[i] = byte(r.U64())
	}
	return b
}

// Fork derives an independent generator (so that sub-generators do not perturb
// each other's streams when one is changed).
func (r *Rng) Fork() *Rng { return NewRng(r.U64()) }

// PickInt returns one of the given ints.
func (r *Rng) PickInt(xs ...int) int { return xs[r.Intn(len(xs))] }

// SeedFromEnv reads VERIF_SEED (default 1).
func SeedFromEnv() uint64 {
	if s := os.Getenv("VERIF_SEED"); s != "" {
		if v, err := strconv.ParseUint(s, 10, 64); err == nil {
			return v
		}
		if v, err := strconv.ParseInt(s, 10, 64); err == nil {
			return uint64(v)
		}
	}
	return 1
}

// ---- Coq term printers ----

// CoqBytes prints a byte slice as a Coq [list N] literal.
func CoqBytes(b []byte) string {
	if len(b) == 0 {
		return "[]"
	}
	var sb strings.Builder
	sb.WriteString("[")
	for i, x := range b {
		if i > 0 {
			sb.WriteByte(';')
		}
		sb.WriteString(strconv.Itoa(int(x)))
	}
	sb.WriteString("]%N")
	return sb.String()
}

func CoqBool(b bool) string {
	if b {
		return "true"
	}
	return "false"
}

// CoqZ prints a Z literal.
func CoqZ(v int64) string {
	if v < 0 {
		return fmt.Sprintf("(%d)%%Z", v)
	}
	return fmt.Sprintf("%d%%Z", v)
}

// CoqN prints an N literal.
func CoqN(v uint64) string { return fmt.Sprintf("%d%%N", v) }

func Hex(b []byte) string { return fmt.Sprintf("%x", b) }

// ---- summary ----

// Failure is a direct property-oracle failure observed on the implementation.
type Failure struct {
	Stream string                 `json:"stream"`
	Class  string                 `json:"class"` // stable root-cause class (call site + input class); known findings match on it
	What   string                 `json:"what"`
	Case   map[string]interface{} `json:"case"`
}

// Summary is what a harness command prints (one JSON object on the last line of
// stdout, prefixed by "SUMMARY ").
type Summary struct {
	Evaluations int                    `json:"evaluations"`
	Distinct    int                    `json:"distinct_nontrivial"`
	Rule        string                 `json:"rule"`
	Samples     []interface{}          `json:"samples"`
	Dist        map[string]int         `json:"distribution"`
	ModelCases  int                    `json:"model_cases"`
	Failures    []Failure              `json:"failures"`
	Extra       map[string]interface{} `json:"extra,omitempty"`
	distinct    map[string]bool
	failCount   map[string]int
}

func NewSummary(rule string) *Summary {
	return &Summary{Rule: rule, Dist: map[string]int{}, distinct: map[string]bool{}}
}

// Count records one evaluation; key identifies the case's non-trivial class
// (empty = trivial); bucket feeds the printed distribution.
func (s *Summary) Count(bucket, key string) {
	s.Evaluations++
	if bucket != "" {
		s.Dist[bucket]++
	}
	if key != "" && !s.distinct[key] {
		s.distinct[key] = true
		s.Distinct++
	}
}

func (s *Summary) Sample(x interface{}) {
	if len(s.Samples) < 6 {
		s.Samples = append(s.Samples, x)
	}
}

func (s *Summary) Fail(stream, what string, c map[string]interface{}) {
	s.FailC(stream, "", what, c)
}

// FailC records a failure with a root-cause class. At most 5 failures per
// (stream, class, what) are kept and 200 in total.
func (s *Summary) FailC(stream, class, what string, c map[string]interface{}) {
	if s.failCount == nil {
		s.failCount = map[string]int{}
	}
	k := stream + "\x00" + class + "\x00" + what
	s.failCount[k]++
	if s.failCount[k] > 5 || len(s.Failures) >= 200 {
		return
	}
	cc := map[string]interface{}{}
	for kk, v := range c {
		cc[kk] = v
	}
	s.Failures = append(s.Failures, Failure{stream, class, what, cc})
}

func (s *Summary) Print() {
	if s.Samples == nil {
		s.Samples = []interface{}{}
	}
	if s.Failures == nil {
		s.Failures = []Failure{}
	}
	b, _ := json.Marshal(s)
	fmt.Printf("SUMMARY %s\n", b)
}

// PickString returns one of the given strings.
func (r *Rng) PickString(xs ...string) string { return xs[r.Intn(len(xs))] }

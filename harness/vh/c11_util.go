package vh

// c11_util.go (C11 / C15): helpers shared by harness/cmd/c11 and harness/cmd/c15.

import (
	"io"
	"reflect"
	"time"
)

// FormatNorm is the documented loss of a typed round trip through the format
// (the Go twin of Generic/Dec.v cbor_losses / exact_losses / binc_losses).
func FormatNorm(format string, o Opts) NormCfg {
	nz, _ := o["NilCollectionToZeroLength"].(bool)
	c := NormCfg{NilToEmpty: nz}
	switch format {
	case "cbor":
		c.Time = func(t time.Time) time.Time {
			if t.IsZero() {
				return t
			}
			return t.UTC().Round(time.Microsecond)
		}
	case "binc":
		c.F64 = func(f float64) float64 {
			if f == 0 {
				return 0
			}
			return f
		}
		c.F32 = func(f float32) float32 {
			if f == 0 {
				return 0
			}
			return f
		}
	}
	return c
}

// OnlyReader hides every method of the wrapped reader but Read.
type OnlyReader struct{ R io.Reader }

func (o OnlyReader) Read(p []byte) (int, error) { return o.R.Read(p) }

// HasMap reports whether a value of the type can hold a Go map (whose iteration
// order makes a non-canonical encoding non-deterministic).
func HasMap(t reflect.Type) bool {
	if t == TimeType {
		return false
	}
	switch t.Kind() {
	case reflect.Map:
		return true
	case reflect.Slice, reflect.Array, reflect.Ptr:
		return HasMap(t.Elem())
	case reflect.Struct:
		for i := 0; i < t.NumField(); i++ {
			if HasMap(t.Field(i).Type) {
				return true
			}
		}
	}
	return false
}

// CopyOpts returns a copy of the option vector with the given overrides.
func CopyOpts(o Opts, kv ...interface{}) Opts {
	o2 := Opts{}
	for k, x := range o {
		o2[k] = x
	}
	for i := 0; i+1 < len(kv); i += 2 {
		o2[kv[i].(string)] = kv[i+1]
	}
	return o2
}

// WalkFloats calls f on every float32 / float64 leaf (map keys included).
func WalkFloats(v reflect.Value, f func(x float64, bits int)) {
	if !v.IsValid() {
		return
	}
	t := v.Type()
	if t == TimeType {
		return
	}
	switch t.Kind() {
	case reflect.Float32:
		f(v.Float(), 32)
	case reflect.Float64:
		f(v.Float(), 64)
	case reflect.Slice, reflect.Array:
		if t.Elem().Kind() == reflect.Uint8 {
			return
		}
		for i := 0; i < v.Len(); i++ {
			WalkFloats(v.Index(i), f)
		}
	case reflect.Map:
		it := v.MapRange()
		for it.Next() {
			WalkFloats(it.Key(), f)
			WalkFloats(it.Value(), f)
		}
	case reflect.Ptr, reflect.Interface:
		if !v.IsNil() {
			WalkFloats(v.Elem(), f)
		}
	case reflect.Struct:
		for i := 0; i < t.NumField(); i++ {
			if t.Field(i).PkgPath == "" {
				WalkFloats(v.Field(i), f)
			}
		}
	}
}

// JsonNegIntLiteralOutOfRange: the value holds a float in (-2^64, -2^63): json writes it as an
// integer literal (no fraction, no exponent below 1e21) that Decode(&interface{}) cannot
// classify (finding F15-1, property C15).
func JsonNegIntLiteralOutOfRange(v reflect.Value) bool {
	bad := false
	WalkFloats(v, func(x float64, _ int) {
		if x < -9223372036854775808.0 && x > -18446744073709551616.0 {
			bad = true
		}
	})
	return bad
}

// ShortReader returns at most N bytes per Read (a socket / pipe that delivers small chunks); only Read is exposed.
type ShortReader struct {
	R io.Reader
	N int
}

func (s *ShortReader) Read(p []byte) (int, error) {
	if len(p) > s.N {
		p = p[:s.N]
	}
	return s.R.Read(p)
}

package vh

import (
	"fmt"
	"os"
	"path/filepath"
	"strings"
)

// Cases writes Coq case files in shards so that several coqc processes can
// evaluate the model in parallel: <dir>/cases_000.v, cases_001.v, ...
// Each shard is
//
//	<header>
//	Definition cases : list <ty> := [ t1; t2; ... ].
//	Definition M := Eval vm_compute in <fn> cases.
//	Print M.
type Cases struct {
	dir, header, ty, fn string
	per                 int
	cur                 []string
	shard               int
	Total               int
}

func NewCases(dir, header, ty, fn string, perShard int) *Cases {
	os.MkdirAll(dir, 0o755)
	old, _ := filepath.Glob(filepath.Join(dir, "cases_*"))
	for _, f := range old {
		os.Remove(f)
	}
	return &Cases{dir: dir, header: header, ty: ty, fn: fn, per: perShard}
}

func (c *Cases) Add(term string) {
	c.cur = append(c.cur, term)
	c.Total++
	if len(c.cur) >= c.per {
		c.flush()
	}
}

func (c *Cases) flush() {
	if len(c.cur) == 0 {
		return
	}
	var sb strings.Builder
	sb.WriteString(c.header)
	fmt.Fprintf(&sb, "\nDefinition cases : list %s := [\n", c.ty)
	sb.WriteString(strings.Join(c.cur, ";\n"))
	fmt.Fprintf(&sb, "\n].\nDefinition M := Eval vm_compute in %s cases.\nPrint M.\n", c.fn)
	p := filepath.Join(c.dir, fmt.Sprintf("cases_%03d.v", c.shard))
	if err := os.WriteFile(p, []byte(sb.String()), 0o644); err != nil {
		panic(err)
	}
	c.shard++
	c.cur = nil
}

func (c *Cases) Close() { c.flush() }

module verifharness

go 1.21

require github.com/ugorji/go/codec v0.0.0

require github.com/google/go-cmp v0.7.0 // indirect

replace github.com/ugorji/go/codec => /repo/codec

// c04: correspondence and property oracle for C04 (writer independence).
//
// Stream "unit": random encWriterI operation lists against the real
// bufioEncWriter (through the verif hook) under a scripted io.Writer; the
// observations are written as Coq terms (cases.v) for the model to re-run.
// Stream "api": real Encoders of all five formats writing to scripted writers
// versus NewEncoderBytes, with a write fault injected at every call index.
package main

import (
	"bytes"
	"errors"
	"flag"
	"fmt"
	"io"
	"reflect"
	"strings"

	"verifharness/vh"

	"github.com/ugorji/go/codec"
)

var errScript = errors.New("scripted writer fault")

type resp struct {
	acc int
	err bool
}

// scriptWriter follows the script, then accepts everything.
type scriptWriter struct {
	script []resp
	calls  int
	recv   []byte
}

func (w *scriptWriter) Write(p []byte) (int, error) {
	i := w.calls
	w.calls++
	if i >= len(w.script) {
		w.recv = append(w.recv, p...)
		return len(p), nil
	}
	r := w.script[i]
	n := r.acc
	if n > len(p) {
		n = len(p)
	}
	w.recv = append(w.recv, p[:n]...)
	if r.err {
		return n, errScript
	}
	return n, nil
}

func errClass(err error) int {
	switch {
	case err == nil:
		return 0
	case errors.Is(err, errScript):
		return 1
	case errors.Is(err, io.ErrShortWrite):
		return 2
	}
	return 3
}

func coqScript(s []resp) string {
	if len(s) == 0 {
		return "[]"
	}
	var sb strings.Builder
	sb.WriteString("[")
	for i, r := range s {
		if i > 0 {
			sb.WriteString(";")
		}
		fmt.Fprintf(&sb, "Build_wresp %d%%N %s", r.acc, vh.CoqBool(r.err))
	}
	sb.WriteString("]")
	return sb.String()
}

func coqOps(ops []codec.VerifWriteOp) string {
	if len(ops) == 0 {
		return "[]"
	}
	var sb strings.Builder
	sb.WriteString("[")
	for i, o := range ops {
		if i > 0 {
			sb.WriteString(";")
		}
		switch o.Kind {
		case 0, 1:
			sb.WriteString("WB " + vh.CoqBytes(o.Data))
		case 2:
			sb.WriteString("WQ " + vh.CoqBytes(o.Data))
		default:
			sb.WriteString("WN " + vh.CoqBytes(o.Data))
		}
	}
	sb.WriteString("]")
	return sb.String()
}

func randScript(r *vh.Rng, bufcap int) []resp {
	n := 0
	switch r.Intn(4) {
	case 0:
		n = 0
	case 1:
		n = 1 + r.Intn(3)
	default:
		n = 1 + r.Intn(40)
	}
	s := make([]resp, n)
	mode := r.Intn(5)
	for i := range s {
		switch mode {
		case 0: // mostly accept-all, rare fault
			s[i] = resp{1 << 20, r.Chance(1, 12)}
		case 1: // short writes
			s[i] = resp{r.Intn(bufcap + 2), false}
		case 2: // zero-progress runs (short write detection around 16 tries)
			s[i] = resp{0, false}
			if r.Chance(1, 10) {
				s[i].acc = 1 + r.Intn(3)
			}
		case 3: // short writes with a fault somewhere
			s[i] = resp{r.Intn(bufcap + 2), r.Chance(1, 10)}
		default:
			s[i] = resp{r.PickInt(0, 1, bufcap-1, bufcap, bufcap+1, 1<<20), r.Chance(1, 15)}
		}
	}
	return s
}

func randOps(r *vh.Rng, bufcap int) []codec.VerifWriteOp {
	n := r.Intn(10)
	ops := make([]codec.VerifWriteOp, 0, n)
	for i := 0; i < n; i++ {
		k := r.Intn(7)
		var d []byte
		switch k {
		case 0, 1, 2:
			var l int
			switch r.Intn(4) {
			case 0:
				l = r.Intn(6)
			case 1: // straddle the end of the buffer
				l = bufcap + r.PickInt(-3, -2, -1, 0, 1, 2, 3)
			case 2:
				l = r.Intn(3*bufcap + 2)
			default:
				l = r.Intn(bufcap + 1)
			}
			if l < 0 {
				l = 0
			}
			d = r.Bytes(l)
		case 3:
			d = r.Bytes(1)
		case 4:
			d = r.Bytes(2)
		case 5:
			d = r.Bytes(4)
		case 6:
			d = r.Bytes(8)
		}
		ops = append(ops, codec.VerifWriteOp{Kind: k, Data: d})
	}
	return ops
}

func opsJSON(ops []codec.VerifWriteOp) []interface{} {
	out := []interface{}{}
	for _, o := range ops {
		out = append(out, map[string]interface{}{"kind": o.Kind, "data": vh.Hex(o.Data)})
	}
	return out
}

func scriptJSON(s []resp) []interface{} {
	out := []interface{}{}
	for _, r := range s {
		out = append(out, []interface{}{r.acc, r.err})
	}
	return out
}

func unitStream(r *vh.Rng, n int, casesPath string, sum *vh.Summary) {
	cv := vh.NewCases(casesPath, "From Coq Require Import List NArith ZArith.\nFrom Verif Require Import C04.Model C04.Corr.\nImport ListNotations.", "case", "mismatches", 60)
	for i := 0; i < n; i++ {
		bufsize := r.PickInt(0, 1, 16, 17, 31, 32, 33, 64, 100)
		// bufcap is only known after resetIO; draw ops/script for the cap the size implies
		guess := 16
		for guess < bufsize {
			guess *= 2
		}
		ops := randOps(r, guess)
		script := randScript(r, guess)
		w := &scriptWriter{script: script}
		bufcap, err := codec.VerifBufioRun(w, bufsize, ops)
		flat := codec.VerifAppenderRun(ops)
		ec := errClass(err)
		// the property oracle, directly on the implementation
		cj := map[string]interface{}{"bufsize": bufsize, "bufcap": bufcap, "ops": opsJSON(ops), "script": scriptJSON(script), "seed_index": i}
		if err == nil && !bytes.Equal(w.recv, flat) {
			sum.Fail("unit", "no error but received bytes differ from []byte output", cj)
		}
		if !bytes.HasPrefix(flat, w.recv) {
			sum.Fail("unit", "received bytes are not a prefix of the []byte output", cj)
		}
		if err == nil {
			for k := 0; k < w.calls && k < len(script); k++ {
				if script[k].err {
					sum.Fail("unit", "writer reported an error but the run returned nil", cj)
					break
				}
			}
		}
		cv.Add(fmt.Sprintf("mkcase %d %d %s %s %s %d %d %s", i, bufcap, coqScript(script), coqOps(ops), vh.CoqBytes(w.recv), ec, w.calls, vh.CoqBytes(flat)))
		key := fmt.Sprintf("cap%d/err%d/calls%d/len%d", bufcap, ec, min(w.calls, 20), len(flat))
		triv := len(flat) <= bufcap && len(script) == 0
		if triv {
			key = ""
		}
		sum.Count(fmt.Sprintf("unit.err%d", ec), key)
		sum.Dist[fmt.Sprintf("unit.cap%d", bufcap)]++
		if len(flat) > bufcap {
			sum.Dist["unit.straddles"]++
		}
		if i < 2 {
			sum.Sample(cj)
		}
		sum.ModelCases++
	}
	cv.Close()
}

// ---- API stream ----

var apiTypeOpts = vh.TypeOpts{MaxDepth: 3, Tags: true}

func apiStream(r *vh.Rng, n int, maxFaults int, sum *vh.Summary) {
	for i := 0; i < n; i++ {
		format := vh.Formats[r.Intn(len(vh.Formats))]
		o := vh.RandEncOpts(r, format)
		o["Canonical"] = true // so that two encodings of one value are comparable
		wbs := r.PickInt(0, 1, 7, 16, 17, 32, 64, 100, 4096)
		o["WriterBufferSize"] = wbs
		to := apiTypeOpts
		if format == "json" {
			to.StringKeys = true
		}
		t := vh.RandType(r, to, 0)
		v := vh.RandValue(r, t, vh.ValOpts{BigLens: true, NoNaN: format == "json", NoInf: format == "json", MaxLen: 6})
		h := vh.NewHandle(format, o)
		var want []byte
		if err := codec.NewEncoderBytes(&want, h).Encode(v.Interface()); err != nil {
			sum.Count("api.encode-error", "")
			continue
		}
		cj := map[string]interface{}{"format": format, "opts": o.String(), "type": t.String(), "want": vh.Hex(want), "seed_index": i}
		// 1. accept-all, then short-write schedules
		w0 := &scriptWriter{}
		if err := codec.NewEncoder(w0, h).Encode(v.Interface()); err != nil || !bytes.Equal(w0.recv, want) {
			cj["got"] = vh.Hex(w0.recv)
			cj["err"] = fmt.Sprint(err)
			sum.Fail("api", "io.Writer output differs from []byte output", cj)
		}
		ncalls := w0.calls
		script := randScript(r, 32)
		for k := range script {
			script[k].err = false
			if script[k].acc == 0 && r.Bool() {
				script[k].acc = 1
			}
		}
		w1 := &scriptWriter{script: script}
		err1 := codec.NewEncoder(w1, h).Encode(v.Interface())
		if err1 == nil && !bytes.Equal(w1.recv, want) {
			cj["got"] = vh.Hex(w1.recv)
			cj["script"] = scriptJSON(script)
			sum.Fail("api", "short-writing writer: nil error but bytes differ", cj)
		}
		if !bytes.HasPrefix(want, w1.recv) {
			cj["got"] = vh.Hex(w1.recv)
			cj["script"] = scriptJSON(script)
			sum.Fail("api", "short-writing writer: received bytes are not a prefix", cj)
		}
		// 2. a fault at call k, for every k (capped)
		faults := 0
		for k := 0; k < ncalls && faults < maxFaults; k++ {
			sc := make([]resp, k+1)
			for j := range sc {
				sc[j] = resp{1 << 30, false}
			}
			sc[k] = resp{r.PickInt(0, 0, 1, 5, 1<<30), true}
			wk := &scriptWriter{script: sc}
			enc := codec.NewEncoder(wk, h)
			errk := enc.Encode(v.Interface())
			faults++
			if errk == nil {
				cj["fault_at_call"] = k
				sum.Fail("api", "writer failed at call k but Encode returned nil", cj)
			}
			if !bytes.HasPrefix(want, wk.recv) {
				cj["fault_at_call"] = k
				cj["got"] = vh.Hex(wk.recv)
				sum.Fail("api", "after a fault the received bytes are not a prefix", cj)
			}
			// sticky: a further Encode must fail and write nothing
			before := len(wk.recv)
			if err2 := enc.Encode(v.Interface()); err2 == nil || len(wk.recv) != before {
				cj["fault_at_call"] = k
				sum.Fail("api", "Encode after a failed Encode succeeded or wrote bytes", cj)
			}
		}
		// 3. reuse after a failure: an Encode that failed part-way (write fault at call k, or an
		// unencodable element after a prefix), then Reset onto a healthy writer: the next Encode
		// must deliver exactly the []byte output again (by the time it returns)
		for variant := 0; variant < 2; variant++ {
			var enc *codec.Encoder
			if variant == 0 {
				if ncalls == 0 {
					continue
				}
				k := r.Intn(ncalls)
				sc := make([]resp, k+1)
				for j := range sc {
					sc[j] = resp{1 << 30, false}
				}
				sc[k] = resp{0, true}
				enc = codec.NewEncoder(&scriptWriter{script: sc}, h)
				if err := enc.Encode(v.Interface()); err == nil {
					continue
				}
			} else {
				enc = codec.NewEncoder(&scriptWriter{}, h)
				if err := enc.Encode([]interface{}{"prefix", v.Interface(), complex(1, 2)}); err == nil {
					continue
				}
			}
			for rep := 0; rep < 2; rep++ {
				w2 := &scriptWriter{}
				enc.Reset(w2)
				err2 := enc.Encode(v.Interface())
				if err2 != nil || !bytes.Equal(w2.recv, want) {
					cj["got"] = vh.Hex(w2.recv)
					cj["err"] = fmt.Sprint(err2)
					cj["reuse_variant"] = variant
					sum.FailC("api", "reuse-after-failed-encode", "after a failed Encode and Reset, Encode to a healthy writer does not deliver the []byte output", cj)
				}
			}
			sum.Dist["api.reuse-after-failure"]++
		}
		key := fmt.Sprintf("%s/%s/wbs%d/calls%d/len%d", format, vh.DescribeKind(t), wbs, min(ncalls, 10), min(len(want), 300)/10)
		if len(want) <= 1 {
			key = ""
		}
		sum.Count("api."+format, key)
		sum.Dist["api.faults"] += faults
		sum.Dist[fmt.Sprintf("api.typedepth%d", vh.TypeDepth(t))]++
		if i < 2 {
			sum.Sample(cj)
		}
	}
}

var _ = reflect.TypeOf

func main() {
	nUnit := flag.Int("unit", 400, "unit cases (model-compared)")
	nAPI := flag.Int("api", 300, "api cases")
	maxFaults := flag.Int("faults", 12, "max fault positions per api case")
	cases := flag.String("cases", "/verif/build/c04/cases", "directory for the model case files")
	flag.Parse()
	seed := vh.SeedFromEnv()
	r := vh.NewRng(seed)
	sum := vh.NewSummary("unit: random encWriterI op lists x buffer sizes x writer scripts (short writes, zero-progress, faults), payload lengths straddling the buffer end; non-trivial = needs a flush or has a script; distinct by (cap, error class, calls, length). api: 5 formats x random type/value/options x WriterBufferSize x short-write schedule, plus a fault injected at every Write call index; distinct by (format, kind, buffer size, calls, length decile)")
	unitStream(r.Fork(), *nUnit, *cases, sum)
	apiStream(r.Fork(), *nAPI, *maxFaults, sum)
	sum.Print()
}

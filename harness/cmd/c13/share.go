package main

import (
	"fmt"
	"reflect"
	"sort"
	"strings"
	"unsafe"

	"verifharness/vh"

	"github.com/ugorji/go/codec"
)

// A value decoded into a zero destination owns its memory piecewise too: no two
// positions of it may share mutable memory (the same map, overlapping slice
// backing arrays, the same pointee). Strings are immutable and may be shared
// (interning, symbols). shareCheck returns a description of the first sharing found.

type memRange struct {
	lo, hi uintptr
	path   string
}

type shareWalker struct {
	maps   map[uintptr]string
	ptrs   map[uintptr]string
	ranges []memRange
	found  string
}

func (w *shareWalker) note(s string) {
	if w.found == "" {
		w.found = s
	}
}

func (w *shareWalker) walk(v reflect.Value, path string, depth int) {
	if !v.IsValid() || depth > 60 {
		return
	}
	t := v.Type()
	if t == vh.TimeType {
		return
	}
	switch t.Kind() {
	case reflect.Map:
		if v.IsNil() {
			return
		}
		p := v.Pointer()
		if q, ok := w.maps[p]; ok {
			w.note("the same map at " + q + " and " + path)
		}
		w.maps[p] = path
		it := v.MapRange()
		for it.Next() {
			kp := path + "{" + vh.CanonRV(it.Key()) + "}"
			w.walk(it.Key(), kp+"#key", depth+1)
			w.walk(it.Value(), kp, depth+1)
		}
	case reflect.Slice:
		if v.IsNil() || v.Len() == 0 || t.Elem().Size() == 0 {
			return
		}
		lo := v.Pointer()
		w.ranges = append(w.ranges, memRange{lo, lo + uintptr(v.Len())*t.Elem().Size(), path})
		if t.Elem().Kind() == reflect.Uint8 {
			return
		}
		for i := 0; i < v.Len(); i++ {
			w.walk(v.Index(i), fmt.Sprintf("%s[%d]", path, i), depth+1)
		}
	case reflect.Array:
		for i := 0; i < v.Len(); i++ {
			w.walk(v.Index(i), fmt.Sprintf("%s[%d]", path, i), depth+1)
		}
	case reflect.Ptr:
		if v.IsNil() {
			return
		}
		if t.Elem().Size() != 0 {
			p := v.Pointer()
			if q, ok := w.ptrs[p]; ok {
				w.note("the same pointee at " + q + " and " + path)
			}
			w.ptrs[p] = path
		}
		w.walk(v.Elem(), path+"*", depth+1)
	case reflect.Interface:
		if !v.IsNil() {
			w.walk(v.Elem(), path, depth+1)
		}
	case reflect.Struct:
		for i := 0; i < t.NumField(); i++ {
			if t.Field(i).PkgPath == "" {
				w.walk(v.Field(i), path+"."+t.Field(i).Name, depth+1)
			}
		}
	}
}

// exemptInput: with ZeroCopy, []byte views of the input do not overlap either, so nothing is exempt.
func shareCheck(v reflect.Value) string {
	w := &shareWalker{maps: map[uintptr]string{}, ptrs: map[uintptr]string{}}
	w.walk(v, "", 0)
	if w.found != "" {
		return w.found
	}
	sort.Slice(w.ranges, func(i, j int) bool { return w.ranges[i].lo < w.ranges[j].lo })
	for i := 1; i < len(w.ranges); i++ {
		if w.ranges[i].lo < w.ranges[i-1].hi {
			return "overlapping slice memory at " + w.ranges[i-1].path + " and " + w.ranges[i].path
		}
	}
	return ""
}

var _ = unsafe.Pointer(nil)

// Stream "reset": container-valued maps and slices decoded into a ZERO destination under every
// combination of MapValueReset / InterfaceReset / SliceElementReset (and a MapType / SliceType for
// naked decoding). For a zero destination these options must not matter: the result must equal
// the decode with default options, and no two positions of it may share memory.

type resetShape struct {
	name string
	src  interface{}
	dst  func() interface{}
}

type RsStruct struct {
	M  map[string]interface{}
	MI map[int]interface{}
	MS map[string][]string
	MM map[string]map[string]string
	L  []interface{}
	I  interface{}
	MB map[string][]byte
	MU map[uint64]interface{}
}

func resetShapes(format string) []resetShape {
	mapsOfMaps := map[string]interface{}{
		"a": map[string]interface{}{"x": "1"},
		"b": map[string]interface{}{"y": "2"},
		"c": map[string]interface{}{"z": "3", "w": []interface{}{"k"}},
	}
	mapsOfSlices := map[string]interface{}{
		"c": []interface{}{"p", "q", "r"},
		"d": []interface{}{"s"},
		"e": []interface{}{"t", "u"},
	}
	mixed := map[string]interface{}{
		"a": map[string]interface{}{"x": []interface{}{"1", "2"}},
		"b": []interface{}{map[string]interface{}{"y": "2"}, "str"},
		"c": map[string]interface{}{"x": []interface{}{"3"}},
		"d": []interface{}{map[string]interface{}{"q": "9"}},
		"e": "scalar", "f": []byte("bytes-1"), "g": []byte("b2"),
	}
	shapes := []resetShape{
		{"map[string]iface/maps", mapsOfMaps, func() interface{} { return new(map[string]interface{}) }},
		{"map[string]iface/slices", mapsOfSlices, func() interface{} { return new(map[string]interface{}) }},
		{"map[string]iface/mixed", mixed, func() interface{} { return new(map[string]interface{}) }},
		{"iface/maps", mapsOfMaps, func() interface{} { return new(interface{}) }},
		{"iface/slices", mapsOfSlices, func() interface{} { return new(interface{}) }},
		{"iface/mixed", mixed, func() interface{} { return new(interface{}) }},
		{"[]iface", []interface{}{[]interface{}{"a", "b", "c"}, []interface{}{"d"}, map[string]interface{}{"k": "v"}, map[string]interface{}{"l": "w"}},
			func() interface{} { return new([]interface{}) }},
		{"map[string][]string", map[string][]string{"a": {"1", "2", "3"}, "b": {"4"}, "c": {"5", "6"}}, func() interface{} { return new(map[string][]string) }},
		{"map[string]map", map[string]map[string]string{"a": {"x": "1"}, "b": {"y": "2"}}, func() interface{} { return new(map[string]map[string]string) }},
		{"map[string][]byte", map[string][]byte{"a": []byte("one"), "b": []byte("t"), "c": []byte("three")}, func() interface{} { return new(map[string][]byte) }},
		{"struct", RsStruct{
			M:  mapsOfMaps,
			MS: map[string][]string{"a": {"1", "2", "3"}, "b": {"4"}},
			MM: map[string]map[string]string{"a": {"x": "1"}, "b": {"y": "2"}},
			L:  []interface{}{[]interface{}{"a", "b"}, []interface{}{"c"}},
			I:  mapsOfSlices,
			MB: map[string][]byte{"a": []byte("one"), "b": []byte("t")},
		}, func() interface{} { return new(RsStruct) }},
	}
	if format != "json" {
		intKeyed := map[int]interface{}{1: []interface{}{"p", "q", "r"}, 2: []interface{}{"s"}, 3: map[string]interface{}{"x": "1"}, 4: map[string]interface{}{"y": "2"}}
		u64Keyed := map[uint64]interface{}{1: map[string]interface{}{"x": "1"}, 2: map[string]interface{}{"y": "2"}}
		shapes = append(shapes,
			resetShape{"map[int]iface", intKeyed, func() interface{} { return new(map[int]interface{}) }},
			resetShape{"map[uint64]iface", u64Keyed, func() interface{} { return new(map[uint64]interface{}) }},
			resetShape{"map[iface]iface", map[interface{}]interface{}{"a": []interface{}{"p", "q"}, "b": []interface{}{"s"}, int64(3): map[string]interface{}{"x": "1"}},
				func() interface{} { return new(map[interface{}]interface{}) }},
		)
	}
	return shapes
}

func setNakedTypes(h codec.Handle, k int) {
	var bh *codec.BasicHandle
	switch x := h.(type) {
	case *codec.CborHandle:
		bh = &x.BasicHandle
	case *codec.MsgpackHandle:
		bh = &x.BasicHandle
	case *codec.BincHandle:
		bh = &x.BasicHandle
	case *codec.SimpleHandle:
		bh = &x.BasicHandle
	case *codec.JsonHandle:
		bh = &x.BasicHandle
	}
	switch k {
	case 1:
		bh.MapType = reflect.TypeOf(map[string]interface{}(nil))
	case 2:
		bh.MapType = reflect.TypeOf(map[string]interface{}(nil))
		bh.SliceType = reflect.TypeOf([]interface{}(nil))
	}
}

func resetStream(sum *vh.Summary) {
	transports := []transport{{bytes: true}, {bufsize: 0, rkind: 1}, {bufsize: 16, rkind: 2}, {bufsize: 4096, rkind: 0}}
	for _, format := range vh.Formats {
		for _, sh := range resetShapes(format) {
			for _, canonical := range []bool{true, false} {
				enc, err := encode(format, vh.Opts{"Canonical": canonical}, sh.src)
				if err != nil {
					sum.Count("reset.encode-error", "")
					continue
				}
				for nk := 0; nk < 3; nk++ {
					hr := vh.NewHandle(format, nil)
					setNakedTypes(hr, nk)
					ref := sh.dst()
					if err := codec.NewDecoderBytes(append([]byte(nil), enc...), hr).Decode(ref); err != nil {
						sum.Count("reset.decode-error", "")
						continue
					}
					want := vh.Canon(ref)
					for bits := 0; bits < 8; bits++ {
						for _, tr := range transports {
							for _, zc := range []bool{false, true} {
								do := vh.Opts{"MapValueReset": bits&1 != 0, "InterfaceReset": bits&2 != 0, "SliceElementReset": bits&4 != 0,
									"ZeroCopy": zc, "ReaderBufferSize": tr.bufsize}
								h := vh.NewHandle(format, do)
								setNakedTypes(h, nk)
								in := append([]byte(nil), enc...)
								got := sh.dst()
								err := newDecoder(tr, h, in).Decode(got)
								cj := map[string]interface{}{"format": format, "shape": sh.name, "decopts": do.String(), "transport": tr.String(),
									"nakedtypes": nk, "input": vh.Hex(enc)}
								cls := fmt.Sprintf("%s:%s:mvr=%v", format, strings.SplitN(sh.name, "/", 2)[0], bits&1 != 0)
								if err != nil {
									sum.FailC("reset", "reset-error:"+cls, "decoding into a zero destination fails under reset options although it succeeds with default options", cj)
								} else if c := vh.Canon(got); c != want {
									cj["got"] = clip(c)
									cj["want"] = clip(want)
									sum.FailC("reset", "reset-value:"+cls, "value decoded into a zero destination depends on MapValueReset/InterfaceReset/SliceElementReset (a later entry was decoded into an earlier entry's memory)", cj)
								} else if s := shareCheck(reflect.ValueOf(got)); s != "" {
									cj["sharing"] = s
									sum.FailC("reset", "reset-share:"+cls, "two positions of one decoded value share mutable memory", cj)
								}
								sum.Count("reset."+format, fmt.Sprintf("reset/%s/%s/%v/%d/%d/%s/%v", format, sh.name, canonical, nk, bits, tr.String(), zc))
							}
						}
					}
				}
			}
		}
	}
}

package main

import (
	"reflect"

	"verifharness/vh"
)

// Types for the "nilptr" scenario of the enc stream: pointers that may be nil at
// every depth (embedded pointers to structs, pointer fields of builtin and struct
// kinds, pointers to pointers, slices / maps / arrays of pointers), in "simple"
// structs (no omitempty: kStructSimple), structs with omitempty (kStruct) and
// structs tagged toarray. Encode must leave every nil pointer nil.

type NpLeaf struct {
	X int64
	S string
	P *int32
}

type NpInner struct {
	*NpLeaf
	Y  uint16
	PS *string
}

type NpMid struct {
	*NpInner
	V  *uint8
	PL *NpLeaf
}

type NpOuter struct {
	A int
	*NpMid
	PI  *int64
	PS  *string
	PB  *bool
	PF  *float64
	PU  *uint32
	PY  *[]byte
	PP  **int64
	Q   *NpInner
	L   []*NpLeaf
	LP  []*int64
	M   map[string]*NpLeaf
	MP  map[string]*int16
	Arr [2]*NpLeaf
	I   interface{}
}

type NpTagged struct {
	_struct bool `codec:",toarray"`
	*NpInner
	B  string
	PI *int64
	Q  *NpMid
	L  []*NpInner
}

type NpOmit struct {
	*NpLeaf
	O  int    `codec:",omitempty"`
	PI *int64 `codec:",omitempty"`
	Q  *NpInner
	PS *string
}

type NpFlat struct { // the minimal shape: one embedded pointer, one pointer to a builtin kind
	*NpLeaf
	B string
	P *int64
}

var npTypes = []reflect.Type{
	reflect.TypeOf(NpOuter{}), reflect.TypeOf(NpTagged{}), reflect.TypeOf(NpOmit{}), reflect.TypeOf(NpFlat{}),
	reflect.TypeOf(NpMid{}), reflect.TypeOf([]*NpFlat{}), reflect.TypeOf(map[string]*NpTagged{}), reflect.TypeOf([]NpFlat{}),
}

// fillNil fills v at random, leaving pointers nil with probability pnil (num/den) at every depth.
func fillNil(r *vh.Rng, v reflect.Value, num, den, depth int) {
	t := v.Type()
	switch t.Kind() {
	case reflect.Ptr:
		if r.Chance(num, den) || depth > 8 {
			return
		}
		p := reflect.New(t.Elem())
		fillNil(r, p.Elem(), num, den, depth+1)
		v.Set(p)
	case reflect.Struct:
		for i := 0; i < t.NumField(); i++ {
			if t.Field(i).PkgPath == "" || t.Field(i).Anonymous {
				if v.Field(i).CanSet() {
					fillNil(r, v.Field(i), num, den, depth+1)
				}
			}
		}
	case reflect.Slice:
		if t.Elem().Kind() == reflect.Uint8 {
			v.SetBytes(r.Bytes(r.Intn(4)))
			return
		}
		n := r.Intn(4)
		s := reflect.MakeSlice(t, n, n)
		for i := 0; i < n; i++ {
			fillNil(r, s.Index(i), num, den, depth+1)
		}
		v.Set(s)
	case reflect.Array:
		for i := 0; i < v.Len(); i++ {
			fillNil(r, v.Index(i), num, den, depth+1)
		}
	case reflect.Map:
		n := r.Intn(3)
		m := reflect.MakeMapWithSize(t, n)
		for i := 0; i < n; i++ {
			e := reflect.New(t.Elem()).Elem()
			fillNil(r, e, num, den, depth+1)
			m.SetMapIndex(reflect.ValueOf([]string{"ka", "kb", "kc"}[i]), e)
		}
		v.Set(m)
	case reflect.Interface:
		switch r.Intn(4) {
		case 0: // a pointer to a struct with nil pointers inside
			p := reflect.New(reflect.TypeOf(NpFlat{}))
			fillNil(r, p.Elem(), num, den, depth+1)
			v.Set(p)
		case 1: // a struct by value: not addressable
			p := reflect.New(reflect.TypeOf(NpInner{}))
			fillNil(r, p.Elem(), num, den, depth+1)
			v.Set(p.Elem())
		case 2:
			v.Set(reflect.ValueOf("str"))
		}
	case reflect.String:
		v.SetString([]string{"", "s", "some text"}[r.Intn(3)])
	case reflect.Bool:
		v.SetBool(r.Bool())
	case reflect.Int, reflect.Int8, reflect.Int16, reflect.Int32, reflect.Int64:
		v.SetInt(int64(r.Intn(200) - 100))
	case reflect.Uint, reflect.Uint8, reflect.Uint16, reflect.Uint32, reflect.Uint64:
		v.SetUint(uint64(r.Intn(200)))
	case reflect.Float32, reflect.Float64:
		v.SetFloat(float64(r.Intn(100)) / 4)
	}
}

func encNilptr(r *vh.Rng, sum *vh.Summary, format string, o vh.Opts, toIO bool, i int) {
	t := npTypes[r.Intn(len(npTypes))]
	holder := reflect.New(t)
	switch r.Intn(3) {
	case 0: // everything nil
		fillNil(r, holder.Elem(), 1, 1, 0)
	case 1:
		fillNil(r, holder.Elem(), 1, 2, 0)
	default:
		fillNil(r, holder.Elem(), 1, 4, 0)
	}
	o["StructToArray"] = r.Bool()
	mode := "map"
	if o["StructToArray"].(bool) {
		mode = "array"
	}
	switch r.Intn(3) {
	case 0:
		encOne(sum, format, "nilptr-"+mode+"-by-pointer", o, toIO, holder, holder.Interface(), i)
	case 1:
		encOne(sum, format, "nilptr-"+mode+"-by-value", o, toIO, holder, holder.Elem().Interface(), i)
	default: // inside a slice of pointers and an interface
		w := []interface{}{holder.Interface(), []interface{}{holder.Interface()}}
		wh := reflect.ValueOf(&w)
		encOne(sum, format, "nilptr-"+mode+"-in-slice", o, toIO, wh, w, i)
	}
}

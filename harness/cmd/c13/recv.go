package main

import (
	"fmt"
	"io"
	"reflect"
	"strings"

	"verifharness/vh"

	"github.com/ugorji/go/codec"
)

// ---- recv stream: values whose ENCODING RUNS USER CODE THAT WRITES TO ITS RECEIVER ----
//
// "Encode never modifies the value it is given" cannot be promised for a value
// the caller reaches through a pointer: a pointer-receiver MarshalBinary /
// MarshalText / MarshalJSON / CodecEncodeSelf / CodecMissingFields that
// normalises, memoises or counts writes to the caller's variable, and that is the
// caller's own doing. It IS promised where Go itself gives the callee no way to
// reach the caller's storage, i.e. for a value that is NOT ADDRESSABLE:
//
//	- the value handed to Encode by value (Encode(v), Encode(reflect.ValueOf(v))),
//	- a value held in an interface{} (interface-typed struct field, []interface{}
//	  element, map[..]interface{} value, map[interface{}].. key),
//	- a map value and a map key,
//	- a field of a non-addressable struct, an element of a non-addressable array.
//
// To call a pointer-receiver callback on such a value the encoder has to make up
// a pointer. By default it "forces the value to be addressable"
// (encode.base.go addrRV -> perType.AddressableRO: in the default, unsafe build the
// forged pointer designates the caller's own storage, e.g. the memory an
// interface{} points to), on the assumption that encode callbacks only read.
// EncodeOptions.NoAddressableReadonly (encode.base.go) exists for callbacks that
// write: "controls whether we try to force a non-addressable value to be
// addressable so we can call a pointer method on it ... Use it in the very rare
// occurrence that your types modify a pointer value when calling an encode
// callback function e.g. JsonMarshal, TextMarshal, BinaryMarshal or
// CodecEncodeSelf". So:
//
//	PROMISED (oracle, flagged): NoAddressableReadonly=true and the value sits in a
//	  position that is not addressable by the rules of the language (list above):
//	  the callback runs on a copy; the caller's value is bit-identical after Encode.
//	NOT FLAGGED (observed, counted and fed to the model): NoAddressableReadonly=false
//	  (the documented default: the caller's storage may be written), and every
//	  addressable position (reached through a pointer, a slice element, a field /
//	  array element of those) whatever the option: the callback gets the caller's
//	  own pointer.
//
// Every (mechanism, position chain, NoAddressableReadonly, Canonical) observation
// "did the caller's value change" is also written as an ECase and compared with
// C13.EncModel.callback_recv (Corr.v): the model mirrors the tail of encodeValue,
// addrRV, kStruct's MissingFielder branch and how kMap / kArrayW / rvField hand
// out element values.
//
// The stream is deterministic and seed-independent: 5 formats x 10 callback types
// x every position chain below x NoAddressableReadonly x Canonical x
// (StructToArray, bytes/io).

var recvCalls int // number of receiver-writing callbacks that ran

func recvNorm(s *string, calls *int) {
	recvCalls++
	*s = strings.ToLower(strings.TrimSpace(*s))
	*calls++
}

// RwAll: binary, text and json marshalers, all normalising the receiver (fires in every format)
type RwAll struct {
	S     string
	Calls int
}

func (x *RwAll) MarshalBinary() ([]byte, error) { recvNorm(&x.S, &x.Calls); return []byte(x.S), nil }
func (x *RwAll) UnmarshalBinary(b []byte) error { x.S = string(b); return nil }
func (x *RwAll) MarshalText() ([]byte, error)   { recvNorm(&x.S, &x.Calls); return []byte(x.S), nil }
func (x *RwAll) UnmarshalText(b []byte) error   { x.S = string(b); return nil }
func (x *RwAll) MarshalJSON() ([]byte, error) {
	recvNorm(&x.S, &x.Calls)
	return []byte(`"` + x.S + `"`), nil
}
func (x *RwAll) UnmarshalJSON(b []byte) error { x.S = strings.Trim(string(b), `"`); return nil }

// RwBin: encoding.BinaryMarshaler only (binary formats)
type RwBin struct {
	S     string
	Calls int
}

func (x *RwBin) MarshalBinary() ([]byte, error) { recvNorm(&x.S, &x.Calls); return []byte(x.S), nil }
func (x *RwBin) UnmarshalBinary(b []byte) error { x.S = string(b); return nil }

// RwText: encoding.TextMarshaler only (json)
type RwText struct {
	S     string
	Calls int
}

func (x *RwText) MarshalText() ([]byte, error) { recvNorm(&x.S, &x.Calls); return []byte(x.S), nil }
func (x *RwText) UnmarshalText(b []byte) error { x.S = string(b); return nil }

// RwJSON: json.Marshaler only (json)
type RwJSON struct {
	S     string
	Calls int
}

func (x *RwJSON) MarshalJSON() ([]byte, error) {
	recvNorm(&x.S, &x.Calls)
	return []byte(`"` + x.S + `"`), nil
}
func (x *RwJSON) UnmarshalJSON(b []byte) error { x.S = strings.Trim(string(b), `"`); return nil }

// RwSelf: codec.Selfer with pointer receivers; CodecEncodeSelf memoises into the receiver
type RwSelf struct {
	S     string
	Memo  []string
	Calls int
}

func (x *RwSelf) CodecEncodeSelf(e *codec.Encoder) {
	recvNorm(&x.S, &x.Calls)
	if x.Memo == nil {
		x.Memo = []string{x.S, "memo"}
	}
	e.MustEncode(x.Memo)
}
func (x *RwSelf) CodecDecodeSelf(d *codec.Decoder) { d.MustDecode(&x.Memo) }

// RwMF: codec.MissingFielder with pointer receivers; CodecMissingFields creates its map lazily and counts
type RwMF struct {
	A     int
	Seen  int
	Extra map[string]interface{}
}

func (x *RwMF) CodecMissingField(field []byte, value interface{}) bool {
	if x.Extra == nil {
		x.Extra = map[string]interface{}{}
	}
	x.Extra[string(field)] = value
	return true
}
func (x *RwMF) CodecMissingFields() map[string]interface{} {
	recvCalls++
	x.Seen++
	if x.Extra == nil {
		x.Extra = map[string]interface{}{"lazy": int64(1)}
	}
	return x.Extra
}

// RwNum: a named non-struct kind with pointer-receiver marshalers that round the receiver
type RwNum int64

func (x *RwNum) round() { recvCalls++; *x |= 1 }

func (x *RwNum) MarshalBinary() ([]byte, error) { x.round(); return []byte{byte(*x)}, nil }
func (x *RwNum) UnmarshalBinary(b []byte) error { *x = RwNum(b[0]); return nil }
func (x *RwNum) MarshalText() ([]byte, error)   { x.round(); return []byte(fmt.Sprint(int64(*x))), nil }
func (x *RwNum) UnmarshalText(b []byte) error   { var n int64; fmt.Sscan(string(b), &n); *x = RwNum(n); return nil }
func (x *RwNum) MarshalJSON() ([]byte, error) {
	x.round()
	return []byte(fmt.Sprintf(`"%d"`, int64(*x))), nil
}
func (x *RwNum) UnmarshalJSON(b []byte) error {
	var n int64
	fmt.Sscan(strings.Trim(string(b), `"`), &n)
	*x = RwNum(n)
	return nil
}

// RwStr: a named string with a pointer-receiver Selfer that trims the receiver
type RwStr string

func (x *RwStr) CodecEncodeSelf(e *codec.Encoder) {
	recvCalls++
	*x = RwStr(strings.TrimSpace(string(*x)))
	e.MustEncode(string(*x))
}
func (x *RwStr) CodecDecodeSelf(d *codec.Decoder) { var s string; d.MustDecode(&s); *x = RwStr(s) }

// RwArr: an array kind with pointer-receiver marshalers that zero a cache slot of the receiver
type RwArr [3]uint16

func (x *RwArr) touch() { recvCalls++; x[2] = x[0] + x[1] }

func (x *RwArr) MarshalBinary() ([]byte, error) { x.touch(); return []byte{byte(x[0]), byte(x[1])}, nil }
func (x *RwArr) UnmarshalBinary(b []byte) error { x[0], x[1] = uint16(b[0]), uint16(b[1]); return nil }
func (x *RwArr) MarshalText() ([]byte, error) {
	x.touch()
	return []byte(fmt.Sprintf("%d-%d", x[0], x[1])), nil
}
func (x *RwArr) UnmarshalText(b []byte) error { fmt.Sscanf(string(b), "%d-%d", &x[0], &x[1]); return nil }

// RoVal: the same callbacks with VALUE receivers: whatever they write goes to Go's copy of
// the receiver; the caller's value never changes, in any position, under any option
type RoVal struct {
	S     string
	Calls int
}

func (x RoVal) MarshalBinary() ([]byte, error) { recvNorm(&x.S, &x.Calls); return []byte(x.S), nil }
func (x *RoVal) UnmarshalBinary(b []byte) error { x.S = string(b); return nil }
func (x RoVal) MarshalText() ([]byte, error)   { recvNorm(&x.S, &x.Calls); return []byte(x.S), nil }
func (x *RoVal) UnmarshalText(b []byte) error   { x.S = string(b); return nil }

// RecvDoc holds a value in an interface-typed struct field
type RecvDoc struct {
	Name string
	Any  interface{}
}

type recvType struct {
	name    string
	ptrRecv bool // the callback has a pointer receiver (encFnInfo.addrE / flagMissingFielderPtr)
	mk      func(k int) interface{}
}

var recvTypes = []recvType{
	{"RwAll", true, func(k int) interface{} { return RwAll{S: fmt.Sprintf("  Hello World %d ", k)} }},
	{"RwBin", true, func(k int) interface{} { return RwBin{S: fmt.Sprintf(" Bin Value %d", k)} }},
	{"RwText", true, func(k int) interface{} { return RwText{S: fmt.Sprintf("Text Value %d  ", k)} }},
	{"RwJSON", true, func(k int) interface{} { return RwJSON{S: fmt.Sprintf(" Json Value %d ", k)} }},
	{"RwSelf", true, func(k int) interface{} { return RwSelf{S: fmt.Sprintf(" Self Value %d ", k)} }},
	{"RwMF", true, func(k int) interface{} { return RwMF{A: 10 + k} }},
	// not below 256: Go boxes small integers in a process-wide static table, which the default
	// option's forged pointer would let the callback overwrite for the whole process
	{"RwNum", true, func(k int) interface{} { return RwNum(1000 + 2*k) }},
	{"RwStr", true, func(k int) interface{} { return RwStr(fmt.Sprintf("  padded %d  ", k)) }},
	{"RwArr", true, func(k int) interface{} { return RwArr{uint16(3 + k), 4, 0} }},
	{"RoVal", false, func(k int) interface{} { return RoVal{S: fmt.Sprintf("  By Value %d ", k)} }},
}

// recvPos: a way to place the value v under the argument of Encode. chain lists the
// steps from the Encode argument down to v: iface, ptr, slice, mapval, mapkey, array, field.
// build returns a holder (for the snapshot) and the argument; both reach the same memory.
type recvPos struct {
	name  string
	chain []string
	build func(t reflect.Type, mk func() reflect.Value) (holder reflect.Value, arg interface{})
}

func structOfF(t reflect.Type) reflect.Type {
	return reflect.StructOf([]reflect.StructField{
		{Name: "N", Type: reflect.TypeOf("")},
		{Name: "F", Type: t},
	})
}

func structWithF(t reflect.Type, v reflect.Value) reflect.Value { // a non-addressable struct{N string; F T}
	p := reflect.New(structOfF(t))
	p.Elem().Field(0).SetString("n")
	p.Elem().Field(1).Set(v)
	return reflect.ValueOf(p.Elem().Interface())
}

func arrayWith(t reflect.Type, mk func() reflect.Value) reflect.Value { // a non-addressable [2]T
	p := reflect.New(reflect.ArrayOf(2, t))
	p.Elem().Index(0).Set(mk())
	p.Elem().Index(1).Set(mk())
	return reflect.ValueOf(p.Elem().Interface())
}

// boxed puts x in a fresh *interface{}; the holder and the argument share what the interface points to
func boxed(x reflect.Value) (reflect.Value, interface{}) {
	p := new(interface{})
	*p = x.Interface()
	return reflect.ValueOf(p), *p
}

// viaPtr copies x into a new variable and hands out its address
func viaPtr(x reflect.Value) (reflect.Value, interface{}) {
	p := reflect.New(x.Type())
	p.Elem().Set(x)
	return p, p.Interface()
}

var recvPositions = []recvPos{
	{"top", nil, func(t reflect.Type, mk func() reflect.Value) (reflect.Value, interface{}) { return boxed(mk()) }},
	{"top-reflect-value", nil, func(t reflect.Type, mk func() reflect.Value) (reflect.Value, interface{}) {
		h, a := boxed(mk())
		return h, reflect.ValueOf(a)
	}},
	{"top-ptr", []string{"ptr"}, func(t reflect.Type, mk func() reflect.Value) (reflect.Value, interface{}) { return viaPtr(mk()) }},
	{"iface-slice-elem", []string{"slice", "iface"}, func(t reflect.Type, mk func() reflect.Value) (reflect.Value, interface{}) {
		return boxed(reflect.ValueOf([]interface{}{"x", mk().Interface(), mk().Interface()}))
	}},
	{"iface-map-value", []string{"mapval", "iface"}, func(t reflect.Type, mk func() reflect.Value) (reflect.Value, interface{}) {
		return boxed(reflect.ValueOf(map[string]interface{}{"a": mk().Interface(), "b": int64(1)}))
	}},
	{"iface-map-key", []string{"mapkey", "iface"}, func(t reflect.Type, mk func() reflect.Value) (reflect.Value, interface{}) {
		return boxed(reflect.ValueOf(map[interface{}]int{mk().Interface(): 1}))
	}},
	{"iface-field", []string{"field", "iface"}, func(t reflect.Type, mk func() reflect.Value) (reflect.Value, interface{}) {
		return boxed(reflect.ValueOf(RecvDoc{Name: "d", Any: mk().Interface()}))
	}},
	{"ptr-iface-field", []string{"ptr", "field", "iface"}, func(t reflect.Type, mk func() reflect.Value) (reflect.Value, interface{}) {
		return viaPtr(reflect.ValueOf(RecvDoc{Name: "d", Any: mk().Interface()}))
	}},
	{"slice-doc-iface-field", []string{"slice", "iface", "field", "iface"}, func(t reflect.Type, mk func() reflect.Value) (reflect.Value, interface{}) {
		return boxed(reflect.ValueOf([]interface{}{mk().Interface(), RecvDoc{Name: "d", Any: mk().Interface()}}))
	}},
	{"field", []string{"field"}, func(t reflect.Type, mk func() reflect.Value) (reflect.Value, interface{}) {
		return boxed(structWithF(t, mk()))
	}},
	{"ptr-field", []string{"ptr", "field"}, func(t reflect.Type, mk func() reflect.Value) (reflect.Value, interface{}) {
		return viaPtr(structWithF(t, mk()))
	}},
	{"iface-slice-field", []string{"slice", "iface", "field"}, func(t reflect.Type, mk func() reflect.Value) (reflect.Value, interface{}) {
		return boxed(reflect.ValueOf([]interface{}{structWithF(t, mk()).Interface()}))
	}},
	{"array", []string{"array"}, func(t reflect.Type, mk func() reflect.Value) (reflect.Value, interface{}) {
		return boxed(arrayWith(t, mk))
	}},
	{"ptr-array", []string{"ptr", "array"}, func(t reflect.Type, mk func() reflect.Value) (reflect.Value, interface{}) {
		return viaPtr(arrayWith(t, mk))
	}},
	{"iface-map-array", []string{"mapval", "iface", "array"}, func(t reflect.Type, mk func() reflect.Value) (reflect.Value, interface{}) {
		return boxed(reflect.ValueOf(map[string]interface{}{"a": arrayWith(t, mk).Interface()}))
	}},
	{"array-field", []string{"array", "field"}, func(t reflect.Type, mk func() reflect.Value) (reflect.Value, interface{}) {
		st := structOfF(t)
		p := reflect.New(reflect.ArrayOf(2, st))
		p.Elem().Index(0).Set(structWithF(t, mk()))
		p.Elem().Index(1).Set(structWithF(t, mk()))
		return boxed(reflect.ValueOf(p.Elem().Interface()))
	}},
	{"field-array", []string{"field", "array"}, func(t reflect.Type, mk func() reflect.Value) (reflect.Value, interface{}) {
		return boxed(structWithF(reflect.ArrayOf(2, t), arrayWith(t, mk)))
	}},
	{"slice", []string{"slice"}, func(t reflect.Type, mk func() reflect.Value) (reflect.Value, interface{}) {
		s := reflect.MakeSlice(reflect.SliceOf(t), 2, 2)
		s.Index(0).Set(mk())
		s.Index(1).Set(mk())
		return boxed(s)
	}},
	{"slice-array", []string{"slice", "array"}, func(t reflect.Type, mk func() reflect.Value) (reflect.Value, interface{}) {
		s := reflect.MakeSlice(reflect.SliceOf(reflect.ArrayOf(2, t)), 1, 1)
		s.Index(0).Set(arrayWith(t, mk))
		return boxed(s)
	}},
	{"map-value", []string{"mapval"}, func(t reflect.Type, mk func() reflect.Value) (reflect.Value, interface{}) {
		m := reflect.MakeMap(reflect.MapOf(reflect.TypeOf(""), t))
		m.SetMapIndex(reflect.ValueOf("a"), mk())
		m.SetMapIndex(reflect.ValueOf("b"), mk())
		return boxed(m)
	}},
	{"map-value-field", []string{"mapval", "field"}, func(t reflect.Type, mk func() reflect.Value) (reflect.Value, interface{}) {
		m := reflect.MakeMap(reflect.MapOf(reflect.TypeOf(int8(0)), structOfF(t)))
		m.SetMapIndex(reflect.ValueOf(int8(3)), structWithF(t, mk()))
		return boxed(m)
	}},
	{"map-value-ptr", []string{"mapval", "ptr"}, func(t reflect.Type, mk func() reflect.Value) (reflect.Value, interface{}) {
		m := reflect.MakeMap(reflect.MapOf(reflect.TypeOf(""), reflect.PtrTo(t)))
		p, _ := viaPtr(mk())
		m.SetMapIndex(reflect.ValueOf("a"), p)
		return boxed(m)
	}},
	{"field-ptr", []string{"field", "ptr"}, func(t reflect.Type, mk func() reflect.Value) (reflect.Value, interface{}) {
		p, _ := viaPtr(mk())
		return boxed(structWithF(reflect.PtrTo(t), p))
	}},
	{"map-key", []string{"mapkey"}, func(t reflect.Type, mk func() reflect.Value) (reflect.Value, interface{}) {
		m := reflect.MakeMap(reflect.MapOf(t, reflect.TypeOf(0)))
		m.SetMapIndex(mk(), reflect.ValueOf(1))
		return boxed(m)
	}},
	{"map-key-field", []string{"mapkey", "field"}, func(t reflect.Type, mk func() reflect.Value) (reflect.Value, interface{}) {
		m := reflect.MakeMap(reflect.MapOf(structOfF(t), reflect.TypeOf("")))
		m.SetMapIndex(structWithF(t, mk()), reflect.ValueOf("v"))
		return boxed(m)
	}},
}

// goAddressable: is the value at the end of the chain addressable by the rules of the
// language? The Encode argument itself is a value in an interface: not addressable.
func goAddressable(chain []string) (addr bool, origin string) {
	origin = "top"
	for _, s := range chain {
		switch s {
		case "iface", "mapval", "mapkey":
			addr, origin = false, s
		case "ptr", "slice":
			addr, origin = true, s
		case "array", "field":
			if !addr && s == "array" && !strings.HasSuffix(origin, "+array") {
				origin += "+array"
			}
		}
	}
	return
}

func coqChain(chain []string) string {
	m := map[string]string{"iface": "SIface", "ptr": "SPtr", "slice": "SSlice", "mapval": "SMapVal", "mapkey": "SMapKey", "array": "SArray", "field": "SField"}
	xs := make([]string, len(chain))
	for i, s := range chain {
		xs[i] = m[s]
	}
	return "[" + strings.Join(xs, "; ") + "]"
}

func setNoAddressableReadonly(h codec.Handle, b bool) {
	switch x := h.(type) {
	case *codec.CborHandle:
		x.NoAddressableReadonly = b
	case *codec.MsgpackHandle:
		x.NoAddressableReadonly = b
	case *codec.BincHandle:
		x.NoAddressableReadonly = b
	case *codec.SimpleHandle:
		x.NoAddressableReadonly = b
	case *codec.JsonHandle:
		x.NoAddressableReadonly = b
	default:
		panic("unknown handle")
	}
}

func comparableType(t reflect.Type) bool { return t.Comparable() }

func recvStream(cv *vh.Cases, nextID *int, sum *vh.Summary) {
	ecases := map[string]bool{}
	var ekeys []string
	n := 0
	for _, format := range vh.Formats {
		for ti, rt := range recvTypes {
			t := reflect.TypeOf(rt.mk(0))
			for pi, pos := range recvPositions {
				if strings.Contains(pos.name, "map-key") && !comparableType(t) {
					continue
				}
				goAddr, origin := goAddressable(pos.chain)
				hasMap := strings.Contains(strings.Join(pos.chain, "/"), "map")
				hasMapKey := strings.Contains(strings.Join(pos.chain, "/"), "mapkey")
				outs := map[string][]byte{} // bytes written with the option off, per (Canonical, alt)
				for ov := 0; ov < 8; ov++ {
					nar, canon, alt := ov&1 != 0, ov&2 != 0, ov&4 != 0
					o := vh.Opts{"Canonical": canon, "StructToArray": alt && (ti+pi)%2 == 0}
					if format == "json" {
						o["MapKeyAsString"] = alt
					}
					toIO := alt
					k := 0
					mk := func() reflect.Value { k++; return reflect.ValueOf(rt.mk(k)) }
					holder, arg := pos.build(t, mk)
					h := vh.NewHandle(format, o)
					setNoAddressableReadonly(h, nar)
					before := vh.CanonRV(holder)
					calls0 := recvCalls
					var err error
					var out []byte
					if toIO {
						var w io.Writer = &sinkWriter{}
						err = codec.NewEncoder(w, h).Encode(arg)
						out = w.(*sinkWriter).b
					} else {
						err = codec.NewEncoderBytes(&out, h).Encode(arg)
					}
					after := vh.CanonRV(holder)
					fired := recvCalls > calls0
					changed := before != after
					n++
					promised := nar && !goAddr
					cj := map[string]interface{}{"format": format, "type": rt.name, "position": pos.name, "chain": strings.Join(pos.chain, "/"),
						"NoAddressableReadonly": nar, "opts": o.String(), "io": toIO, "go_addressable": goAddr}
					if changed && (promised || !rt.ptrRecv) {
						cj["before"] = clip(before)
						cj["after"] = clip(after)
						what := "Encode with NoAddressableReadonly changed a non-addressable value it was given (a receiver-writing pointer-receiver callback ran on the caller's storage, not on a copy)"
						if !rt.ptrRecv {
							what = "Encode changed a value whose encode callback has a value receiver"
						}
						sum.FailC("recv", "recv:"+origin+":"+rt.name, what, cj)
					}
					if changed && !fired {
						cj["before"] = clip(before)
						cj["after"] = clip(after)
						sum.FailC("recv", "recv:nocallback:"+origin+":"+rt.name, "Encode changed the value it was given although no receiver-writing callback ran", cj)
					}
					// the option only decides WHERE the callback runs: the bytes written are the same
					// (maps of several entries are compared under Canonical only). Not compared, because
					// the callback's writes legitimately show in the output when it runs in place:
					// RwMF (CodecMissingFields runs before the struct's own fields are read) and map
					// keys (Canonical looks the value up with the key the callback has just rewritten).
					if err == nil && (canon || !hasMap) && rt.name != "RwMF" && !hasMapKey {
						ok := fmt.Sprintf("%v/%v", canon, alt)
						if !nar {
							outs[ok] = out
						} else if prev, seen := outs[ok]; seen && string(prev) != string(out) {
							cj["without"] = fmt.Sprintf("%x", prev)
							cj["with"] = fmt.Sprintf("%x", out)
							sum.FailC("recv", "recv:output:"+origin+":"+rt.name, "Encode wrote different bytes with and without NoAddressableReadonly", cj)
						}
					}
					key := ""
					if fired {
						key = fmt.Sprintf("recv/%s/%s/%s/%v/%v", format, rt.name, pos.name, nar, canon)
						ek := fmt.Sprintf("%s %s %s %s %s", coqBool(nar), coqBool(canon), coqBool(rt.ptrRecv), coqChain(pos.chain), coqBool(changed))
						if !ecases[ek] {
							ecases[ek] = true
							ekeys = append(ekeys, ek)
						}
					}
					sum.Count("recv."+format, key)
					switch {
					case !fired:
						sum.Dist["recv.no-callback"]++
					case promised && !changed:
						sum.Dist["recv.promised-copy-held"]++
					case changed:
						sum.Dist["recv.caller-storage-written-allowed"]++
					default:
						sum.Dist["recv.unchanged"]++
					}
					if err != nil {
						sum.Dist["recv.err"]++
					}
				}
			}
		}
	}
	for _, ek := range ekeys {
		cv.Add(fmt.Sprintf("ECase %d %s", *nextID, ek))
		*nextID++
		sum.ModelCases++
	}
	_ = n
}

type sinkWriter struct{ b []byte }

func (w *sinkWriter) Write(p []byte) (int, error) { w.b = append(w.b, p...); return len(p), nil }

func coqBool(b bool) string {
	if b {
		return "true"
	}
	return "false"
}

// c13: correspondence and property oracle for C13 (decoded values own their
// memory; Encode does not disturb its input).
//
// Stream "unit": the real drivers' DecodeBytes / DecodeStringAsBytes are called
// through the verif hook on hand-built inputs (5 formats x bytes / io with
// buffer sizes 0,1,16,4096 x ZeroCopy x operation x length). The attach state
// reported and the memory the returned slice lives in (address-range tests
// against the input, the reader's buffer, the decoder's scratch buffers, the
// binc symbol table) are written as Coq cases for C13.Model.produce, and the
// truthfulness of the state is checked directly.
//
// Stream "api": random typed values and interface{} trees with strings, byte
// slices, map keys, RawExt and Raw are decoded through the public API. Every
// string / []byte leaf is located (pointer-range test against the input buffer)
// and compared with the model's prediction for its flow (Coq cases). Then the
// behavioural oracle: snapshot (vh.Canon + a private copy of every leaf), decode
// the rest of the stream and several other streams with the same Decoder,
// Reset it, re-compare; scribble over the entire input, re-compare. Any change
// without ZeroCopy is a violation; with ZeroCopy only leaves observed inside
// the input may change, and only after the input was overwritten.
//
// Stream "enc": deep snapshot (vh.Canon) of a value before and after Encode,
// for random values and for the cases the property names: non-addressable
// values, pointer-receiver marshalers, canonical maps, StringToRaw, MapBySlice.
package main

import (
	"bytes"
	"encoding/base64"
	"flag"
	"fmt"
	"io"
	"reflect"
	"sort"
	"strings"
	"unsafe"

	"verifharness/vh"

	"github.com/ugorji/go/codec"
)

// ---------- transports ----------

type transport struct {
	bytes   bool
	bufsize int
	rkind   int // io only: 0 bytes.Reader (ByteScanner), 1 Read only, 2 Read only in small chunks
}

func (t transport) coq() string {
	switch {
	case t.bytes:
		return "TBytes"
	case t.bufsize == 0:
		return "TIoUnbuf"
	}
	return "TIoBuf"
}

func (t transport) String() string {
	if t.bytes {
		return "bytes"
	}
	return fmt.Sprintf("io%d/r%d", t.bufsize, t.rkind)
}

func (t transport) class() string {
	switch {
	case t.bytes:
		return "bytes"
	case t.bufsize == 0:
		return "io-unbuffered"
	}
	return "io-buffered"
}

var bufSizes = []int{0, 1, 16, 4096}

type onlyReader struct{ r io.Reader }

func (o onlyReader) Read(p []byte) (int, error) { return o.r.Read(p) }

type chunkReader struct {
	r io.Reader
	k int
}

func (c chunkReader) Read(p []byte) (int, error) {
	if len(p) > c.k {
		p = p[:c.k]
	}
	return c.r.Read(p)
}

func mkReader(t transport, src []byte) io.Reader {
	switch t.rkind {
	case 0:
		return bytes.NewReader(src)
	case 1:
		return onlyReader{bytes.NewReader(src)}
	}
	return chunkReader{bytes.NewReader(src), 5}
}

func newDecoder(t transport, h codec.Handle, src []byte) *codec.Decoder {
	if t.bytes {
		return codec.NewDecoderBytes(src, h)
	}
	return codec.NewDecoder(mkReader(t, src), h)
}

func resetDecoder(d *codec.Decoder, t transport, src []byte) {
	if t.bytes {
		d.ResetBytes(src)
	} else if src == nil {
		d.Reset(nil)
	} else {
		d.Reset(mkReader(t, src))
	}
}

func randTransport(r *vh.Rng) transport {
	if r.Chance(2, 5) {
		return transport{bytes: true}
	}
	return transport{bufsize: bufSizes[r.Intn(len(bufSizes))], rkind: r.Intn(3)}
}

// ---------- address tests ----------

func inside(p unsafe.Pointer, buf []byte) bool {
	if len(buf) == 0 || p == nil {
		return false
	}
	b := uintptr(unsafe.Pointer(unsafe.SliceData(buf)))
	x := uintptr(p)
	return x >= b && x < b+uintptr(len(buf))
}

func coqFormat(f string) string { return strings.ToUpper(f[:1]) + f[1:] }

func encode(format string, o vh.Opts, v interface{}) ([]byte, error) {
	var out []byte
	err := codec.NewEncoderBytes(&out, vh.NewHandle(format, o)).Encode(v)
	return out, err
}

func mustEncode(format string, o vh.Opts, v interface{}) []byte {
	b, err := encode(format, o, v)
	if err != nil {
		panic(fmt.Sprintf("c13: cannot encode %T for %s: %v", v, format, err))
	}
	return b
}

// ---------- unit stream ----------

type unitOp struct {
	kind     string // Coq popk constructor
	n        int    // requested length
	c0       bool   // zero capacity expected for an empty result on a bytes reader (value at the very end / empty array)
	asString bool
	input    []byte
	calls    int // number of driver calls; the last one is observed
}

func strN(n int) string { return strings.Repeat("k", n) }

func unitOps(format string) (ops []unitOp) {
	lens := []int{0, 1, 2, 16, 17, 300}
	trailer := []byte{0x01, 0x01, 0x01}
	add := func(kind string, n int, c0, asString bool, in []byte, calls int) {
		ops = append(ops, unitOp{kind, n, c0, asString, in, calls})
	}
	if format == "json" {
		tr := []byte(" 0 ")
		add("KNil", 0, true, true, append([]byte("null"), tr...), 1)
		add("KNil", 0, true, false, append([]byte("null"), tr...), 1)
		for _, n := range lens {
			add("KJsonPlain", n, false, true, append([]byte(`"`+strN(n)+`"`), tr...), 1)
			if n >= 1 {
				add("KScratch", n, false, true, append([]byte(`"\n`+strN(n-1)+`"`), tr...), 1)
				add("KScratch", n, false, false, append([]byte(`"`+base64.StdEncoding.EncodeToString([]byte(strN(n)))+`"`), tr...), 1)
			}
		}
		for _, n := range []int{1, 2, 17} {
			add("KJsonNum", n, false, true, append([]byte(strings.Repeat("7", n)), tr...), 1)
		}
		add("KJsonLit", 4, false, true, append([]byte("true"), tr...), 1)
		add("KJsonLit", 5, false, true, append([]byte("false"), tr...), 1)
		add("KJsonEmptyB64", 0, true, false, append([]byte(`""`), tr...), 1)
		add("KScratch", 0, false, false, append([]byte(`[]`), tr...), 1)
		add("KScratch", 3, false, false, append([]byte(`[1,2,3]`), tr...), 1)
		return
	}
	add("KNil", 0, true, true, append(mustEncode(format, nil, nil), trailer...), 1)
	add("KNil", 0, true, false, append(mustEncode(format, nil, nil), trailer...), 1)
	for _, n := range lens {
		add("KReadxb", n, false, true, append(mustEncode(format, nil, strN(n)), trailer...), 1)
		add("KReadxb", n, false, false, append(mustEncode(format, nil, []byte(strN(n))), trailer...), 1)
		if n == 0 { // the value is the last thing in the input: an empty view there has no capacity
			add("KReadxb", n, true, true, mustEncode(format, nil, strN(n)), 1)
		}
	}
	for _, n := range []int{0, 1, 5, 40} {
		arr := make([]uint16, n)
		for i := range arr {
			arr[i] = uint16(i + 1)
		}
		add("KScratch", n, n == 0, false, append(mustEncode(format, nil, arr), trailer...), 1)
	}
	if format == "cbor" {
		indef := func(major byte, n int) []byte {
			out := []byte{major<<5 | 31}
			for n > 0 {
				k := n
				if k > 23 {
					k = 23
				}
				out = append(out, major<<5|byte(k))
				out = append(out, strN(k)...)
				n -= k
			}
			return append(out, 0xff)
		}
		for _, n := range []int{2, 20, 300} {
			add("KScratch", n, false, true, append(indef(3, n), trailer...), 1)
			add("KScratch", n, false, false, append(indef(2, n), trailer...), 1)
		}
		add("KScratchNil", 0, true, true, append(indef(3, 0), trailer...), 1)
		// primed: the scratch buffer exists, the empty result is an empty slice of it
		add("KScratch", 0, false, true, append(append(indef(3, 5), indef(3, 0)...), trailer...), 2)
	}
	if format == "binc" {
		const vdSymbol = 11
		def := func(id byte, n int) []byte {
			if n < 256 {
				return append([]byte{vdSymbol<<4 | 0x4, id, byte(n)}, strN(n)...)
			}
			return append([]byte{vdSymbol<<4 | 0x4 | 0x1, id, byte(n >> 8), byte(n)}, strN(n)...)
		}
		for _, n := range lens {
			add("KSymDef", n, false, true, append(def(7, n), trailer...), 1)
			add("KSymRef", n, false, true, append(append(def(7, n), vdSymbol<<4, 7), trailer...), 2)
		}
	}
	return
}

func unitStream(casesDir string, cv *vh.Cases, nextID *int, sum *vh.Summary) {
	var transports []transport
	transports = append(transports, transport{bytes: true})
	for _, bs := range bufSizes {
		for rk := 0; rk < 3; rk++ {
			transports = append(transports, transport{bufsize: bs, rkind: rk})
		}
	}
	for _, format := range vh.Formats {
		ops := unitOps(format)
		for _, tr := range transports {
			for _, zc := range []bool{false, true} {
				for _, op := range ops {
					o := vh.Opts{"ZeroCopy": zc, "ReaderBufferSize": tr.bufsize}
					h := vh.NewHandle(format, o)
					in := append([]byte(nil), op.input...)
					d := newDecoder(tr, h, in)
					var v codec.VerifC13View
					for c := 0; c < op.calls; c++ {
						v = codec.VerifC13DriverBytes(d, op.asString)
					}
					cj := map[string]interface{}{"format": format, "transport": tr.String(), "zerocopy": zc, "op": op.kind, "n": op.n,
						"asString": op.asString, "input": vh.Hex(op.input)}
					if v.Err != nil {
						cj["err"] = "driver call failed"
						sum.FailC("unit", "unit:"+format+":"+op.kind+":error", "hand-built input was rejected by the driver", cj)
						continue
					}
					p := unsafe.Pointer(unsafe.SliceData(v.Bytes))
					rc := 5
					switch {
					case cap(v.Bytes) == 0:
						rc = 0
					case inside(p, in):
						rc = 1
					case inside(p, v.ReaderBuf):
						rc = 2
					default:
						for _, s := range v.Scratch {
							if inside(p, s) {
								rc = 3
							}
						}
						if rc == 5 {
							for _, s := range v.SymTab {
								if cap(s) > 0 && inside(p, s[:cap(s)]) {
									rc = 4
								}
							}
						}
					}
					cj["att"] = v.Att
					cj["region"] = rc
					// direct oracle: a state that lets the consumers keep the view (>= ViewZerocopy = 3)
					// is only truthful for memory nothing overwrites, or for the input under ZeroCopy
					if v.Att >= 3 && !(rc == 0 || rc == 5 || rc == 4 || (rc == 1 && zc && tr.bytes)) {
						sum.FailC("unit", "att:"+format+":"+tr.class()+":"+op.kind, "driver reports a keepable attach state for bytes in reader/scratch memory (or the input without ZeroCopy)", cj)
					}
					if (v.Att == 1 || v.Att == 3) && !(tr.bytes && (rc == 1 || rc == 0) && (v.Att == 3) == zc) {
						sum.FailC("unit", "att-view:"+format+":"+tr.class()+":"+op.kind, "driver reports an input view state for bytes that are not an input view", cj)
					}
					if len(v.Bytes) != op.n {
						sum.FailC("unit", "unit:"+format+":"+op.kind+":length", "driver returned a different number of bytes than the hand-built input holds", cj)
					}
					cv.Add(fmt.Sprintf("UCase %d %s %s %s %s %s %s %s %d%%N %s %s", *nextID, vh.CoqBool(zc), tr.coq(), coqFormat(format), op.kind,
						vh.CoqZ(int64(op.n)), vh.CoqBool(op.c0), vh.CoqZ(int64(v.Att)), rc, vh.CoqZ(int64(len(v.Bytes))), vh.CoqBool(cap(v.Bytes) == 0)))
					*nextID++
					sum.ModelCases++
					sum.Count("unit."+format, fmt.Sprintf("unit/%s/%s/%v/%s/%d/%v/%v", format, tr.coq(), zc, op.kind, op.n, op.c0, op.asString))
					sum.Dist[fmt.Sprintf("unit.att%d", v.Att)]++
					sum.Dist[fmt.Sprintf("unit.region%d", rc)]++
				}
			}
		}
	}
}

// ---------- api stream: values ----------

var (
	rawType    = reflect.TypeOf(codec.Raw(nil))
	rawExtType = reflect.TypeOf(codec.RawExt{})
	strType    = reflect.TypeOf("")
)

// ExtT is registered with SelfExt under tag 7 on the decoding handle: an extension with that tag met
// while decoding into an interface{} is decoded by a side Decoder from the extension's payload bytes
type ExtT struct {
	S  string
	B  []byte
	M  map[string]string
	Ms map[string]struct{ Q string }
	L  []string
}

var extTType = reflect.TypeOf(ExtT{})

const extTTag = 7

type extSetter interface {
	SetExt(rt reflect.Type, tag uint64, ext codec.Ext) error
}

func randExtT(r *vh.Rng, vo vh.ValOpts) ExtT {
	x := ExtT{S: vh.RandString(r, vo), B: r.Bytes(randLen(r)), M: map[string]string{}, Ms: map[string]struct{ Q string }{}}
	for i := r.Intn(3); i > 0; i-- {
		x.M[keyString(r, vo)] = vh.RandString(r, vo)
		x.Ms[keyString(r, vo)] = struct{ Q string }{vh.RandString(r, vo)}
		x.L = append(x.L, vh.RandString(r, vo))
	}
	return x
}

func hasExtData(format string) bool {
	return format == "msgpack" || format == "binc" || format == "simple"
}

// randDyn builds a random schema-less tree for an interface{} slot.
func randDyn(r *vh.Rng, format string, vo vh.ValOpts, depth int) interface{} {
	k := r.Intn(10)
	if depth >= 3 && k >= 6 {
		k = r.Intn(6)
	}
	switch k {
	case 0, 1:
		return vh.RandString(r, vo)
	case 2:
		return r.Bytes(randLen(r))
	case 3:
		return int64(r.Intn(100000)) - 500
	case 4:
		if r.Bool() {
			return nil
		}
		return r.Bool()
	case 5:
		if hasExtData(format) && r.Bool() {
			return codec.RawExt{Tag: extTTag, Data: mustEncode(format, nil, randExtT(r, vo))}
		}
		if hasExtData(format) {
			return codec.RawExt{Tag: uint64(10 + r.Intn(110)), Data: r.Bytes(1 + randLen(r))}
		}
		if format == "cbor" {
			return codec.RawExt{Tag: uint64(300 + r.Intn(100)), Value: vh.RandString(r, vo)}
		}
		return vh.RandString(r, vo)
	case 6, 7:
		n := r.Intn(4)
		m := make(map[string]interface{}, n)
		for i := 0; i < n; i++ {
			m[keyString(r, vo)] = randDyn(r, format, vo, depth+1)
		}
		return m
	default:
		n := r.Intn(4)
		s := make([]interface{}, n)
		for i := range s {
			s[i] = randDyn(r, format, vo, depth+1)
		}
		return s
	}
}

func randLen(r *vh.Rng) int {
	switch r.Intn(8) {
	case 0:
		return 0
	case 1:
		return 1
	case 2:
		return r.PickInt(16, 17, 23, 24, 32)
	case 3:
		return r.PickInt(255, 256, 300)
	}
	return 2 + r.Intn(12)
}

func keyString(r *vh.Rng, vo vh.ValOpts) string {
	if r.Chance(1, 4) {
		return vh.RandString(r, vo)
	}
	return []string{"id", "name", "key", "value", "a", "kk", "a-long-key-name-over-16", "x\"y", "tab\there"}[r.Intn(9)]
}

// fillIfaces sets every nil interface{} slot reachable in v to a random tree.
func fillIfaces(r *vh.Rng, v reflect.Value, format string, vo vh.ValOpts, depth int) {
	if depth > 12 {
		return
	}
	switch v.Kind() {
	case reflect.Interface:
		if v.IsNil() && v.CanSet() && v.Type().NumMethod() == 0 {
			if x := randDyn(r, format, vo, 1); x != nil {
				v.Set(reflect.ValueOf(x))
			}
		}
	case reflect.Ptr:
		if !v.IsNil() {
			fillIfaces(r, v.Elem(), format, vo, depth+1)
		}
	case reflect.Struct:
		if v.Type() == vh.TimeType {
			return
		}
		for i := 0; i < v.NumField(); i++ {
			if v.Type().Field(i).PkgPath == "" {
				fillIfaces(r, v.Field(i), format, vo, depth+1)
			}
		}
	case reflect.Slice, reflect.Array:
		if v.Type().Elem().Kind() == reflect.Uint8 {
			return
		}
		for i := 0; i < v.Len(); i++ {
			fillIfaces(r, v.Index(i), format, vo, depth+1)
		}
	case reflect.Map:
		if v.Type().Elem().Kind() != reflect.Interface || v.IsNil() {
			return
		}
		it := v.MapRange()
		var keys []reflect.Value
		for it.Next() {
			if it.Value().IsNil() {
				keys = append(keys, it.Key())
			}
		}
		for _, k := range keys {
			if x := randDyn(r, format, vo, 1); x != nil {
				v.SetMapIndex(k, reflect.ValueOf(x))
			}
		}
	}
}

// the source and destination types of one api case: the same struct, except
// that the destination reads some fields as Raw
type apiTypes struct {
	src, dst reflect.Type
}

func randAPITypes(r *vh.Rng, format string) apiTypes {
	to := vh.TypeOpts{MaxDepth: 3, Iface: true, Tags: true, StringKeys: format == "json"}
	mk := func() reflect.Type { return vh.RandType(r, to, 1) }
	v, x1, x2, x3 := mk(), mk(), mk(), mk()
	keyT := strType
	fs := func(raw bool) []reflect.StructField {
		pick := func(t reflect.Type) reflect.Type {
			if raw {
				return rawType
			}
			return t
		}
		f := []reflect.StructField{
			{Name: "S", Type: strType},
			{Name: "V", Type: v},
			{Name: "R1", Type: pick(x1)},
			{Name: "B", Type: vh.BytesType},
			{Name: "Rs", Type: reflect.SliceOf(pick(x2))},
			{Name: "Rm", Type: reflect.MapOf(keyT, pick(x3))},
			{Name: "I", Type: vh.IfaceType},
			{Name: "Ms", Type: reflect.MapOf(strType, strType)},
			{Name: "Mg", Type: reflect.MapOf(strType, reflect.StructOf([]reflect.StructField{{Name: "P", Type: strType}, {Name: "Q", Type: vh.BytesType}}))},
			{Name: "Mi", Type: reflect.MapOf(vh.IfaceType, vh.IfaceType)},
			{Name: "Ss", Type: reflect.SliceOf(strType)},
			{Name: "Bs", Type: reflect.SliceOf(vh.BytesType)},
		}
		if hasExtData(format) {
			f = append(f, reflect.StructField{Name: "E", Type: rawExtType}, reflect.StructField{Name: "Es", Type: reflect.SliceOf(rawExtType)})
		}
		return f
	}
	return apiTypes{reflect.StructOf(fs(false)), reflect.StructOf(fs(true))}
}

func randSource(r *vh.Rng, format string, t reflect.Type, vo vh.ValOpts) reflect.Value {
	v := vh.RandValue(r, t, vo)
	if f := v.FieldByName("Mi"); f.IsValid() && format != "json" {
		n := r.Intn(4)
		m := reflect.MakeMap(f.Type())
		for i := 0; i < n; i++ {
			var k interface{}
			switch r.Intn(3) {
			case 0:
				k = keyString(r, vo)
			case 1:
				k = int64(r.Intn(50))
			default:
				k = vh.RandString(r, vo)
			}
			ev := reflect.New(vh.IfaceType).Elem()
			if x := randDyn(r, format, vo, 2); x != nil {
				ev.Set(reflect.ValueOf(x))
			}
			m.SetMapIndex(reflect.ValueOf(k), ev)
		}
		f.Set(m)
	} else if f.IsValid() {
		f.Set(reflect.Zero(f.Type()))
	}
	for _, name := range []string{"E"} {
		if f := v.FieldByName(name); f.IsValid() {
			f.Set(reflect.ValueOf(codec.RawExt{Tag: uint64(10 + r.Intn(110)), Data: r.Bytes(1 + randLen(r))}))
		}
	}
	if f := v.FieldByName("Es"); f.IsValid() {
		n := r.Intn(3)
		s := reflect.MakeSlice(f.Type(), n, n)
		for i := 0; i < n; i++ {
			s.Index(i).Set(reflect.ValueOf(codec.RawExt{Tag: uint64(10 + r.Intn(110)), Data: r.Bytes(1 + randLen(r))}))
		}
		f.Set(s)
	}
	fillIfaces(r, v, format, vo, 0)
	return v
}

// ---------- api stream: leaves ----------

type leaf struct {
	path    string
	flow    string // Coq flow term
	flowTag string // short stable name
	isStr   bool
	s       string // the header as decoded (not copied)
	b       []byte
	saved   string // private copy of the content
	input   bool   // observed inside the input buffer
	mapkey  bool
	side    bool // decoded by the side Decoder of a SelfExt extension
}

func (l *leaf) ptr() unsafe.Pointer {
	if l.isStr {
		return unsafe.Pointer(unsafe.StringData(l.s))
	}
	return unsafe.Pointer(unsafe.SliceData(l.b))
}

func (l *leaf) n() int {
	if l.isStr {
		return len(l.s)
	}
	return len(l.b)
}

func (l *leaf) current() string {
	if l.isStr {
		return l.s
	}
	return string(l.b)
}

type walker struct {
	leaves []*leaf
	// msgpack without WriteExt / RawToString decodes a str in an interface{} as []byte; as the key of
	// a map[interface{}]... it is then turned into a string by kMap's own path
	ifaceKeyIsBytes bool
	side            int
}

// map[string]T types decoded by the generated fast paths (keys through detach2Str), not by kMap
func fastpathStrMap(t reflect.Type) bool {
	if t.Key() != strType {
		return false
	}
	switch t.Elem() {
	case vh.IfaceType, strType, vh.BytesType, reflect.TypeOf(uint8(0)), reflect.TypeOf(uint64(0)), reflect.TypeOf(int(0)),
		reflect.TypeOf(int32(0)), reflect.TypeOf(float64(0)), reflect.TypeOf(false):
		return true
	}
	return false
}

func (w *walker) add(path, flow, tag string, isStr bool, s string, b []byte, mapkey bool) {
	l := &leaf{path: path, flow: flow, flowTag: tag, isStr: isStr, s: s, b: b, mapkey: mapkey, side: w.side > 0}
	if l.side {
		l.flowTag = "side-" + tag
	}
	l.saved = strings.Clone(l.current())
	w.leaves = append(w.leaves, l)
}

// walk visits every string / []byte / Raw / RawExt.Data leaf. dyn: reached through an
// interface{} (decoded by DecodeNaked). mapkey: in key position. statickey: key of a map
// whose static key type is string.
func (w *walker) walk(v reflect.Value, path string, dyn, mapkey, statickey bool, depth int) {
	if !v.IsValid() || depth > 40 {
		return
	}
	t := v.Type()
	switch {
	case t == rawType:
		w.add(path, "FRaw", "raw", false, "", v.Bytes(), false)
		return
	case t == rawExtType:
		re := v.Interface().(codec.RawExt)
		if re.Data != nil {
			if dyn {
				w.add(path+".Data", "FNakedExt", "nakedext", false, "", re.Data, false)
			} else {
				w.add(path+".Data", "FRawExt", "rawext", false, "", re.Data, false)
			}
		}
		w.walk(reflect.ValueOf(re.Value), path+".Value", true, false, false, depth+1)
		return
	case t == vh.TimeType:
		return
	case t == extTType:
		// typed destination of the side Decoder: its leaves are typed flows, whatever led here
		w.side++
		for i := 0; i < t.NumField(); i++ {
			w.walk(v.Field(i), path+"."+t.Field(i).Name, false, false, false, depth+1)
		}
		w.side--
		return
	}
	switch t.Kind() {
	case reflect.String:
		switch {
		case statickey:
			w.add(path, "FMapKeyStr", "mapkey", true, v.String(), nil, true)
		case mapkey && dyn && w.ifaceKeyIsBytes:
			w.add(path, "FIfaceBytesKey", "iface-bytes-key", true, v.String(), nil, true)
		case mapkey:
			w.add(path, "(FString true)", "string-key", true, v.String(), nil, true)
		default:
			w.add(path, "(FString false)", "string", true, v.String(), nil, false)
		}
	case reflect.Slice:
		if t.Elem().Kind() == reflect.Uint8 {
			if v.IsNil() {
				return
			}
			if dyn {
				w.add(path, "FNakedBytes", "nakedbytes", false, "", v.Bytes(), false)
			} else {
				w.add(path, "(FBytesInto false)", "bytes", false, "", v.Bytes(), false)
			}
			return
		}
		for i := 0; i < v.Len(); i++ {
			w.walk(v.Index(i), fmt.Sprintf("%s[%d]", path, i), dyn, false, false, depth+1)
		}
	case reflect.Array:
		if t.Elem().Kind() == reflect.Uint8 {
			return
		}
		for i := 0; i < v.Len(); i++ {
			w.walk(v.Index(i), fmt.Sprintf("%s[%d]", path, i), dyn, false, false, depth+1)
		}
	case reflect.Map:
		it := v.MapRange()
		for it.Next() {
			kp := path + "{" + vh.CanonRV(it.Key()) + "}"
			kdyn := dyn || t.Key().Kind() == reflect.Interface
			w.walk(it.Key(), kp+"#key", kdyn, true, t.Key() == strType && !dyn && !fastpathStrMap(t), depth+1)
			w.walk(it.Value(), kp, dyn, false, false, depth+1)
		}
	case reflect.Ptr:
		if !v.IsNil() {
			w.walk(v.Elem(), path+"*", dyn, mapkey, statickey, depth+1)
		}
	case reflect.Interface:
		if !v.IsNil() {
			w.walk(v.Elem(), path, true, mapkey, false, depth+1)
		}
	case reflect.Struct:
		for i := 0; i < t.NumField(); i++ {
			if t.Field(i).PkgPath == "" {
				w.walk(v.Field(i), path+"."+t.Field(i).Name, dyn, false, false, depth+1)
			}
		}
	}
}

// how the bytes of a leaf were written in the stream (Coq popk)
func srcKind(format string, eo vh.Opts, l *leaf) string {
	switch format {
	case "json":
		if !l.isStr {
			return "KScratch" // base64 text decoded into the driver's buffer
		}
		enc := mustEncode("json", vh.Opts{"HTMLCharsAsIs": eo["HTMLCharsAsIs"]}, l.saved)
		if bytes.IndexByte(enc, '\\') >= 0 {
			return "KScratch"
		}
		return "KJsonPlain"
	case "cbor":
		if b, _ := eo["IndefiniteLength"].(bool); b {
			return "KScratch"
		}
	case "binc":
		if a, _ := eo["AsSymbols"].(int); a == 1 && l.isStr && l.mapkey {
			return "KSymDef"
		}
	}
	return "KReadxb"
}

// ---------- api stream ----------

func randDecOpts(r *vh.Rng, format string, tr transport) vh.Opts {
	o := vh.Opts{"ReaderBufferSize": tr.bufsize}
	o["ZeroCopy"] = r.Bool()
	o["InternString"] = r.Chance(1, 3)
	for _, k := range []string{"MapValueReset", "InterfaceReset", "SliceElementReset", "SignedInteger", "RawToString"} {
		if r.Chance(1, 5) {
			o[k] = true
		}
	}
	if r.Chance(1, 5) {
		o["MaxInitLen"] = r.PickInt(1, 8, 64)
	}
	return o
}

func followers(r *vh.Rng, format string, eo vh.Opts, vo vh.ValOpts) (out [][]byte) {
	big := strings.Repeat("follower \"quoted\" text\n", 300) // > 4096 bytes, needs escapes in json
	vals := []interface{}{
		map[string]interface{}{"id": "another", "name": vh.RandString(r, vo), "key": []interface{}{"x", "yy", int64(3)}},
		big,
		[]string{"id", "name", "key", "value", strings.Repeat("z", 300)},
		[]byte(strings.Repeat("\xee", 700)),
		map[string]string{"id": "1", "name": "2", "a-long-key-name-over-16": strings.Repeat("q", 40), "x\"y": "esc\\aped"},
	}
	for _, v := range vals {
		b, err := encode(format, eo, v)
		if err == nil {
			out = append(out, b)
		}
	}
	return
}

func jsonSep(format string, b []byte) []byte {
	if format == "json" {
		return append(b, ' ')
	}
	return b
}

type acase struct {
	zc, it bool
	tr     string
	format string
	flow   string
	kind   string
	n      int
	input  bool
}

func apiStream(r *vh.Rng, n int, acases, rcases, scases map[string]int, sum *vh.Summary) {
	for i := 0; i < n; i++ {
		format := vh.Formats[r.Intn(len(vh.Formats))]
		tr := randTransport(r)
		eo := vh.RandEncOpts(r, format)
		delete(eo, "StringToRaw")
		delete(eo, "StructToArray")
		do := randDecOpts(r, format, tr)
		zc, it := do["ZeroCopy"].(bool), do["InternString"].(bool)
		vo := vh.ValOpts{NoNaN: true, NoInf: format == "json", MaxLen: 4, BigLens: true}
		ts := randAPITypes(r, format)
		src := randSource(r, format, ts.src, vo)
		first, err := encode(format, eo, src.Interface())
		cj := map[string]interface{}{"format": format, "transport": tr.String(), "encopts": eo.String(), "decopts": do.String(),
			"type": ts.dst.String(), "seed_index": i}
		if err != nil {
			sum.Count("api.encode-error", "")
			continue
		}
		stream := append([]byte(nil), jsonSep(format, first)...)
		fol := followers(r, format, eo, vo)
		for _, f := range fol {
			stream = append(stream, jsonSep(format, f)...)
		}
		cj["input"] = vh.Hex(first)
		pristine := append([]byte(nil), stream...)
		h := vh.NewHandle(format, do)
		if hasExtData(format) {
			if err := h.(extSetter).SetExt(extTType, extTTag, codec.SelfExt); err != nil {
				panic(err)
			}
		}
		d := newDecoder(tr, h, stream)
		dst := reflect.New(ts.dst)
		if err := d.Decode(dst.Interface()); err != nil {
			sum.Count("api.decode-error", "")
			sum.Dist["api.decode-error."+format]++
			continue
		}
		canon0 := vh.CanonRV(dst)
		if sh := shareCheck(dst); sh != "" {
			c := copyCase(cj)
			c["sharing"] = sh
			sum.FailC("api", "share:"+format+":"+tr.class(), "two positions of one decoded value share mutable memory", c)
		}
		var w walker
		rts, _ := do["RawToString"].(bool)
		w.ifaceKeyIsBytes = format == "msgpack" && !rts
		w.walk(dst.Elem(), "", false, false, false, 0)
		nonEmpty := 0
		flows := map[string]bool{}
		for _, l := range w.leaves {
			if l.n() == 0 {
				continue
			}
			nonEmpty++
			flows[l.flowTag] = true
			l.input = inside(l.ptr(), stream)
			if l.input && !(zc && tr.bytes) {
				c := copyCase(cj)
				c["leaf"] = l.path
				c["flow"] = l.flowTag
				sum.FailC("api", "input-view:"+format+":"+tr.class()+":"+l.flowTag, "a decoded leaf is a view of the input buffer although ZeroCopy was not requested on a bytes transport", c)
			}
			if l.flow == "FRaw" {
				rcases[fmt.Sprintf("%s %s %s %s", vh.CoqBool(zc), tr.coq(), vh.CoqZ(int64(l.n())), vh.CoqBool(l.input))]++
			} else if l.side {
				scases[fmt.Sprintf("%s %s %s %s %s %s %s %s", vh.CoqBool(zc), vh.CoqBool(it), tr.coq(), coqFormat(format), l.flow, "KReadxb",
					vh.CoqZ(int64(l.n())), vh.CoqBool(l.input))]++
			} else {
				k := srcKind(format, eo, l)
				acases[fmt.Sprintf("%s %s %s %s %s %s %s %s", vh.CoqBool(zc), vh.CoqBool(it), tr.coq(), coqFormat(format), l.flow, k,
					vh.CoqZ(int64(l.n())), vh.CoqBool(l.input))]++
			}
			sum.Dist["api.leaf."+l.flowTag]++
			if l.input {
				sum.Dist["api.leaf.in-input"]++
			}
		}

		// the first leaf that no longer holds what it held (inputOnly: only leaves outside the input count)
		changed := func(exemptInput bool) *leaf {
			for _, l := range w.leaves {
				if exemptInput && l.input {
					continue
				}
				if l.current() != l.saved {
					return l
				}
			}
			return nil
		}
		report := func(phase, what string, l *leaf) {
			c := copyCase(cj)
			tag := "non-leaf"
			if l != nil {
				tag = l.flowTag
				c["leaf"] = l.path
				c["was"] = vh.Hex([]byte(l.saved))
				c["now"] = vh.Hex([]byte(l.current()))
			}
			sum.FailC("api", phase+":"+format+":"+tr.class()+":"+tag, what, c)
		}

		// phase A: the input is untouched; the Decoder reads on, is reset onto other streams, is reset to nothing
		for range fol {
			var x interface{}
			if err := d.Decode(&x); err != nil {
				break
			}
		}
		for k := 0; k < 2; k++ {
			var other []byte
			for _, f := range followers(r, format, eo, vo) {
				other = append(other, jsonSep(format, f)...)
			}
			resetDecoder(d, tr, other)
			for {
				var x interface{}
				if err := d.Decode(&x); err != nil {
					break
				}
			}
		}
		resetDecoder(d, tr, nil)
		if l := changed(false); l != nil {
			report("later-decode", "a previously decoded value changed after the same Decoder decoded further values / was Reset (input untouched)", l)
		} else if vh.CanonRV(dst) != canon0 {
			report("later-decode", "a previously decoded value changed after the same Decoder decoded further values / was Reset (input untouched)", nil)
		}
		for _, l := range w.leaves { // phase B reports only what changes from here on
			l.saved = strings.Clone(l.current())
		}
		canon0 = vh.CanonRV(dst)
		if !bytes.Equal(stream, pristine) {
			report("input-modified", "Decode wrote into its input buffer", nil)
		}

		// phase B: the whole input is overwritten
		for k := range stream {
			stream[k] ^= 0xa5
		}
		if !(zc && tr.bytes) {
			if l := changed(false); l != nil {
				report("input-overwrite", "a decoded value changed when the input buffer was overwritten although ZeroCopy was not requested", l)
			} else if vh.CanonRV(dst) != canon0 {
				report("input-overwrite", "a decoded value changed when the input buffer was overwritten although ZeroCopy was not requested", nil)
			}
		} else if l := changed(true); l != nil {
			report("input-overwrite-zc", "with ZeroCopy a leaf outside the input buffer changed when the input was overwritten", l)
		}

		fl := make([]string, 0, len(flows))
		for f := range flows {
			fl = append(fl, f)
		}
		sort.Strings(fl)
		key := ""
		if nonEmpty > 0 {
			key = fmt.Sprintf("api/%s/%s/zc%v/it%v/%s/%d", format, tr.String(), zc, it, strings.Join(fl, "+"), min(nonEmpty, 40)/4)
		}
		sum.Count("api."+format, key)
		sum.Dist["api.tr."+tr.class()]++
		if i < 2 {
			sum.Sample(map[string]interface{}{"format": format, "transport": tr.String(), "decopts": do.String(), "leaves": nonEmpty, "type": ts.dst.String()})
		}
	}
}

func copyCase(c map[string]interface{}) map[string]interface{} {
	o := map[string]interface{}{}
	for k, v := range c {
		o[k] = v
	}
	return o
}

func main() {
	nAPI := flag.Int("api", 800, "api cases (decode, locate leaves, history oracle)")
	nEnc := flag.Int("enc", 600, "encode purity cases")
	nSplit := flag.Int("split", 40, "split stream: encodings up to this length get every two-split schedule (longer ones a sample); 0 = off")
	cases := flag.String("cases", "/verif/build/c13/cases", "directory for the model case files")
	flag.Parse()
	r := vh.NewRng(vh.SeedFromEnv())
	sum := vh.NewSummary("unit: every (format, transport bytes/io x buffer 0,1,16,4096 x reader kind, ZeroCopy, driver operation, length 0/1/2/16/17/300) once; distinct by that tuple. " +
		"api: random struct of typed and interface{} fields with strings, []byte, map keys, RawExt, Raw (5 formats x transports x ZeroCopy x InternString x decode options), leaves located by pointer range, then history oracle (decode on, reset onto other streams, reset, overwrite input); non-trivial = at least one non-empty leaf; distinct by (format, transport, ZeroCopy, InternString, set of flows, leaf count/4). " +
		"enc: Canon snapshot before/after Encode; distinct by (format, scenario, options). " +
		"recv (deterministic): 10 types whose encode callback writes to its receiver (Binary/Text/JSON marshalers, Selfer, MissingFielder; struct, int, string and array kinds; pointer and value receivers) x 25 position chains under the Encode argument (interface, pointer, slice, map value, map key, array, field and compositions) x NoAddressableReadonly x Canonical x (StructToArray, bytes/io) x 5 formats: with the option a value in a position that is not addressable in Go is bit-identical after Encode; non-trivial = a callback ran; distinct by (format, type, position, NoAddressableReadonly, Canonical). " +
		"split: maps decoded by the reflection kMap (string/interface{}/named keys, non-fast-path value types) from a buffered reader delivering the stream in 2 or 3 pieces: every one-split and (short encodings: every, else sampled) two-split schedule x ReaderBufferSize 1,2,7,16,64 x ZeroCopy, compared with the []byte decode and re-compared after the Decoder moved on; distinct by (format, shape, buffer size, ZeroCopy). " +
		"reset: container-valued maps / slices (fast-path and reflection map types, naked MapType/SliceType) decoded into a zero destination under all 8 MapValueReset x InterfaceReset x SliceElementReset vectors x 4 transports x ZeroCopy: equal to the default-options decode and no two positions sharing a map / overlapping slice memory / pointee; distinct by that tuple")
	cv := vh.NewCases(*cases, "From Coq Require Import List NArith ZArith.\nFrom Verif Require Import C13.Model C13.EncModel C13.Corr.\nImport ListNotations.", "case", "mismatches", 60)
	id := 0
	unitStream(*cases, cv, &id, sum)
	recvStream(cv, &id, sum)
	acases, rcases, scases := map[string]int{}, map[string]int{}, map[string]int{}
	apiStream(r.Fork(), *nAPI, acases, rcases, scases, sum)
	for _, k := range sortedKeys(acases) {
		cv.Add(fmt.Sprintf("ACase %d %s", id, k))
		id++
		sum.ModelCases++
	}
	for _, k := range sortedKeys(scases) {
		cv.Add(fmt.Sprintf("SCase %d %s", id, k))
		id++
		sum.ModelCases++
	}
	for _, k := range sortedKeys(rcases) {
		cv.Add(fmt.Sprintf("RCase %d %s", id, k))
		id++
		sum.ModelCases++
	}
	cv.Close()
	encStream(r.Fork(), *nEnc, sum)
	if *nSplit > 0 {
		splitStream(r.Fork(), *nSplit, sum)
		resetStream(sum)
	}
	sum.Print()
}

func sortedKeys(m map[string]int) []string {
	ks := make([]string, 0, len(m))
	for k := range m {
		ks = append(ks, k)
	}
	sort.Strings(ks)
	return ks
}

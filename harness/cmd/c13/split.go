package main

import (
	"fmt"
	"io"
	"reflect"
	"strings"

	"verifharness/vh"

	"github.com/ugorji/go/codec"
)

// Stream "split": short encodings of maps that the reflection-based kMap decodes
// (string- and interface{}-keyed map types outside the fast-path set) are read
// from a buffered io.Reader that delivers the stream in two or three pieces, for
// EVERY one-split and two-split schedule x ReaderBufferSize {1, 2, 7, 16, 64}
// x ZeroCopy. A key (or any other leaf) that is still a view of the reader's
// buffer when a refill slides / overwrites it comes out with foreign content:
// the decoded value must equal what a []byte Decoder gives for the same bytes,
// and must still do so after the Decoder went on to another stream.

type cutReader struct {
	data []byte
	cuts []int // ascending positions where a Read stops
	pos  int
}

func (r *cutReader) Read(p []byte) (int, error) {
	if r.pos >= len(r.data) {
		return 0, io.EOF
	}
	end := len(r.data)
	for _, c := range r.cuts {
		if c > r.pos {
			end = c
			break
		}
	}
	n := copy(p, r.data[r.pos:end])
	r.pos += n
	return n, nil
}

type SplitVal struct {
	N int16
	S string
}

type SplitNamed string

type splitHolder struct {
	A map[string]SplitVal
	B map[string]int16
	C map[interface{}]SplitVal
	D map[string]map[string]int16
	E map[SplitNamed]SplitNamed
	F map[string][]string
	G map[string]*SplitVal
	Z string
}

type splitShape struct {
	name string
	mk   func(r *vh.Rng) interface{} // value to encode
	dst  func() interface{}          // pointer to decode into
}

func splitKey(r *vh.Rng, i int) string {
	switch r.Intn(4) {
	case 0:
		return fmt.Sprintf("key-%02d-abcdefgh", i)
	case 1:
		return fmt.Sprintf("k%d", i)
	case 2:
		return fmt.Sprintf("%d-a-long-key-name-over-16-bytes", i)
	}
	return fmt.Sprintf("id%c%c", 'a'+byte(i), 'a'+byte(r.Intn(26)))
}

func splitShapes() []splitShape {
	return []splitShape{
		{"map[string]struct", func(r *vh.Rng) interface{} {
			m := map[string]SplitVal{}
			for i := 0; i < 3; i++ {
				m[splitKey(r, i)] = SplitVal{N: int16(i), S: fmt.Sprintf("value-%02d", i)}
			}
			return m
		}, func() interface{} { return new(map[string]SplitVal) }},
		{"map[string]int16", func(r *vh.Rng) interface{} {
			m := map[string]int16{}
			for i := 0; i < 5; i++ {
				m[splitKey(r, i)] = int16(300 + i)
			}
			return m
		}, func() interface{} { return new(map[string]int16) }},
		{"map[interface{}]struct", func(r *vh.Rng) interface{} {
			m := map[interface{}]SplitVal{}
			for i := 0; i < 3; i++ {
				m[splitKey(r, i)] = SplitVal{N: int16(i), S: "v" + strings.Repeat("w", 5+i)}
			}
			return m
		}, func() interface{} { return new(map[interface{}]SplitVal) }},
		{"map[named]named", func(r *vh.Rng) interface{} {
			m := map[SplitNamed]SplitNamed{}
			for i := 0; i < 4; i++ {
				m[SplitNamed(splitKey(r, i))] = SplitNamed(fmt.Sprintf("named-value-%d", i))
			}
			return m
		}, func() interface{} { return new(map[SplitNamed]SplitNamed) }},
		{"holder", func(r *vh.Rng) interface{} {
			v := SplitVal{N: 7, S: "pointed"}
			return splitHolder{
				A: map[string]SplitVal{splitKey(r, 0): {1, "one"}, splitKey(r, 1): {2, "two"}},
				B: map[string]int16{splitKey(r, 2): 5},
				C: map[interface{}]SplitVal{splitKey(r, 3): {3, "three"}, int64(4): {4, "four"}},
				D: map[string]map[string]int16{splitKey(r, 4): {splitKey(r, 5): 1, splitKey(r, 6): 2}},
				F: map[string][]string{splitKey(r, 7): {"x", "yy"}},
				G: map[string]*SplitVal{splitKey(r, 8): &v},
				Z: "tail-of-the-stream-long-enough-to-reach-back",
			}
		}, func() interface{} { return new(splitHolder) }},
	}
}

var splitBufSizes = []int{1, 2, 7, 16, 64}

func splitStream(r *vh.Rng, maxTwoSplitLen int, sum *vh.Summary) {
	formats := []string{"cbor", "msgpack", "binc", "simple", "json"}
	other := map[string][]byte{}
	for _, f := range formats {
		other[f] = mustEncode(f, nil, map[string]string{"another": strings.Repeat("stream", 30), "k": "v"})
	}
	for _, format := range formats {
		for si, sh := range splitShapes() {
			eo := vh.Opts{"Canonical": true}
			if format == "binc" && si%2 == 1 {
				eo["AsSymbols"] = 1
			}
			src := sh.mk(r)
			enc, err := encode(format, eo, src)
			if err != nil {
				sum.Count("split.encode-error", "")
				continue
			}
			// pad with a following value so that the read after a cut is long
			tail := mustEncode(format, nil, strings.Repeat("T", 80))
			stream := append(append([]byte(nil), jsonSep(format, enc)...), tail...)
			// reference: the same bytes through a []byte Decoder
			ref := sh.dst()
			if err := codec.NewDecoderBytes(append([]byte(nil), stream...), vh.NewHandle(format, nil)).Decode(ref); err != nil {
				sum.Count("split.decode-error", "")
				continue
			}
			want := vh.Canon(ref)
			L := len(enc)
			var schedules [][]int
			for a := 1; a <= L; a++ {
				schedules = append(schedules, []int{a})
			}
			if L <= maxTwoSplitLen {
				for a := 1; a < L; a++ {
					for b := a + 1; b <= L; b++ {
						schedules = append(schedules, []int{a, b})
					}
				}
			} else { // a sample of two-split schedules
				for k := 0; k < maxTwoSplitLen*maxTwoSplitLen/2; k++ {
					a := 1 + r.Intn(L-1)
					b := a + 1 + r.Intn(L-a)
					schedules = append(schedules, []int{a, b})
				}
			}
			for _, bs := range splitBufSizes {
				for _, zc := range []bool{false, true} {
					do := vh.Opts{"ReaderBufferSize": bs, "ZeroCopy": zc, "InternString": bs == 7}
					h := vh.NewHandle(format, do)
					d := codec.NewDecoder(nil, h)
					bad := 0
					for _, cuts := range schedules {
						d.Reset(&cutReader{data: stream, cuts: cuts})
						got := sh.dst()
						err := d.Decode(got)
						c0 := ""
						if err == nil {
							c0 = vh.Canon(got)
						}
						// history: the same Decoder reads on and goes to another stream
						var x interface{}
						d.Decode(&x)
						d.Reset(&cutReader{data: other[format], cuts: []int{3}})
						d.Decode(&x)
						c1 := ""
						if err == nil {
							c1 = vh.Canon(got)
						}
						cj := map[string]interface{}{"format": format, "shape": sh.name, "encopts": eo.String(), "bufsize": bs, "zerocopy": zc,
							"cuts": cuts, "input": vh.Hex(stream)}
						switch {
						case err != nil:
							sum.FailC("split", "split-error:"+format+":"+sh.name, "a stream that a []byte Decoder accepts is rejected when delivered in pieces", cj)
							bad++
						case c0 != want:
							cj["got"] = clip(c0)
							cj["want"] = clip(want)
							sum.FailC("split", "split-value:"+format+":"+sh.name, "value decoded from a buffered reader delivering the stream in pieces differs from the []byte decode (a leaf was still a view of the reader buffer when it was refilled)", cj)
							bad++
						case c1 != c0:
							cj["got"] = clip(c1)
							cj["want"] = clip(c0)
							sum.FailC("split", "split-later:"+format+":"+sh.name, "a value decoded from a buffered reader changed after the Decoder read on / was Reset", cj)
							bad++
						}
						sum.Evaluations++
						if bad >= 3 {
							break
						}
					}
					sum.Count("split."+format, fmt.Sprintf("split/%s/%s/%d/%v/%d", format, sh.name, bs, zc, len(schedules)))
					sum.Dist["split.schedules"] += len(schedules)
				}
			}
		}
	}
	_ = reflect.TypeOf
}

package main

import (
	"bytes"
	"fmt"
	"io"
	"reflect"
	"sort"
	"strings"

	"verifharness/vh"

	"github.com/ugorji/go/codec"
)

// ---- types with pointer-receiver marshalers: encoding a non-addressable value of
// these makes the encoder build an addressable read-only copy (encode.base.go addrRV) ----

type PtrBin struct {
	A int
	B []byte
	S string
}

// returns its own storage: the encoder must not write into what a marshaler returns
func (p *PtrBin) MarshalBinary() ([]byte, error) { return p.B, nil }
func (p *PtrBin) UnmarshalBinary(b []byte) error { p.B = append([]byte(nil), b...); return nil }

type PtrText struct {
	A int
	T []byte
}

func (p *PtrText) MarshalText() ([]byte, error) { return p.T, nil }
func (p *PtrText) UnmarshalText(b []byte) error { p.T = append([]byte(nil), b...); return nil }

type PtrJSON struct {
	N int
	J []byte
}

func (p *PtrJSON) MarshalJSON() ([]byte, error) { return p.J, nil }
func (p *PtrJSON) UnmarshalJSON(b []byte) error { p.J = append([]byte(nil), b...); return nil }

type PtrSelfer struct {
	X  int
	Ss []string
}

func (p *PtrSelfer) CodecEncodeSelf(e *codec.Encoder) { e.MustEncode(p.Ss) }
func (p *PtrSelfer) CodecDecodeSelf(d *codec.Decoder) { d.MustDecode(&p.Ss) }

// a MissingFielder with pointer receivers: Encode reads the map it returns
type MF struct {
	A     int
	Extra map[string]interface{}
}

func (m *MF) CodecMissingField(field []byte, value interface{}) bool {
	if m.Extra == nil {
		m.Extra = map[string]interface{}{}
	}
	m.Extra[string(field)] = value
	return true
}
func (m *MF) CodecMissingFields() map[string]interface{} { return m.Extra }

type MBS []interface{}

func (MBS) MapBySlice() {}

type MBSS []string

func (MBSS) MapBySlice() {}

type Named string
type NamedBytes []byte

type special struct {
	PB   PtrBin
	PT   PtrText
	PJ   PtrJSON
	PS   PtrSelfer
	MPB  map[string]PtrBin
	MPT  map[PtrTextKey]int
	LPJ  []PtrJSON
	APB  [2]PtrBin
	I    interface{}
	I2   interface{}
	Mbs  MBS
	Mbss MBSS
	Keys []string
	M    map[string]int
	MI   map[interface{}]interface{}
	MF   map[float64]string
	Str  string
	Byt  []byte
	NS   Named
	NB   NamedBytes
	Nest map[string][]string
	PP   *PtrBin
	Raw  codec.Raw
	Ext  codec.RawExt
	MFv  MF
	MFs  []MF
}

// a comparable key type with a pointer-receiver text marshaler: map keys are never addressable
type PtrTextKey struct{ K string }

func (p *PtrTextKey) MarshalText() ([]byte, error) { return []byte("k:" + p.K), nil }
func (p *PtrTextKey) UnmarshalText(b []byte) error {
	p.K = strings.TrimPrefix(string(b), "k:")
	return nil
}

func textBytes(r *vh.Rng) []byte {
	n := 1 + r.Intn(12)
	b := make([]byte, n)
	for i := range b {
		b[i] = byte('a' + r.Intn(26))
	}
	return b
}

func randSpecial(r *vh.Rng, format string) special {
	vo := vh.ValOpts{NoNaN: true, NoInf: true, ASCII: format == "json"}
	pb := func() PtrBin { return PtrBin{A: r.Intn(100), B: r.Bytes(1 + r.Intn(20)), S: vh.RandString(r, vo)} }
	pj := func() PtrJSON {
		return PtrJSON{N: r.Intn(9), J: []byte(fmt.Sprintf(`{"n":%d,"s":"%s"}`, r.Intn(100), textBytes(r)))}
	}
	keys := []string{"zeta", "alpha", "mid", "beta", "omega", "a", "b2", "b10"}
	r.Intn(2)
	for i := len(keys) - 1; i > 0; i-- {
		j := r.Intn(i + 1)
		keys[i], keys[j] = keys[j], keys[i]
	}
	s := special{
		PB: pb(), PT: PtrText{A: 1, T: textBytes(r)}, PJ: pj(), PS: PtrSelfer{X: 3, Ss: append([]string(nil), keys[:3]...)},
		MPB:  map[string]PtrBin{"x": pb(), "y": pb()},
		MPT:  map[PtrTextKey]int{{K: "one"}: 1, {K: "two"}: 2},
		LPJ:  []PtrJSON{pj(), pj()},
		APB:  [2]PtrBin{pb(), pb()},
		I:    pb(), // a non-pointer value in an interface is not addressable
		I2:   PtrText{A: 2, T: textBytes(r)},
		Mbs:  MBS{"k1", int64(1), "k0", "v"},
		Mbss: MBSS{"q", "r", "a", "b"},
		Keys: append([]string(nil), keys...),
		M:    map[string]int{},
		MI:   map[interface{}]interface{}{"s": 1, int64(5): "five", "a": []interface{}{"z", "y"}},
		MF:   map[float64]string{2.5: "x", -1: "y", 1e9: "z"},
		Str:  vh.RandString(r, vo), Byt: r.Bytes(r.Intn(40)),
		NS: Named(vh.RandString(r, vo)), NB: NamedBytes(r.Bytes(r.Intn(9))),
		Nest: map[string][]string{"b": append([]string(nil), keys[2:6]...), "a": append([]string(nil), keys[:4]...)},
		Ext:  codec.RawExt{Tag: uint64(1 + r.Intn(100)), Data: r.Bytes(1 + r.Intn(9)), Value: "v"},
	}
	s.MFv = MF{A: 1, Extra: map[string]interface{}{"zz": "top", "aa": []interface{}{"l", "k"}, "mm": int64(3)}}
	s.MFs = []MF{{A: 2, Extra: map[string]interface{}{"q": "r"}}, {A: 3}}
	p := pb()
	s.PP = &p
	for _, k := range keys {
		s.M[k] = r.Intn(100)
	}
	if format == "json" {
		s.MI = map[interface{}]interface{}{"s": 1, "a": []interface{}{"z", "y"}}
		s.Ext = codec.RawExt{}
	}
	return s
}

type countWriter struct{ n int }

func (c *countWriter) Write(p []byte) (int, error) { c.n += len(p); return len(p), nil }

// every []byte / string leaf of the value, by header (pointer identity + content):
// Encode must neither change the content nor re-point the value at other memory
func headerSnapshot(v reflect.Value) string {
	var w walker
	w.walk(v, "", false, false, false, 0)
	lines := make([]string, 0, len(w.leaves)) // map iteration order is random: sort
	for _, l := range w.leaves {
		lines = append(lines, fmt.Sprintf("%s@%p+%d", l.path, l.ptr(), l.n()))
	}
	sort.Strings(lines)
	return strings.Join(lines, ";")
}

func encOne(sum *vh.Summary, format, scenario string, o vh.Opts, toIO bool, holder reflect.Value, arg interface{}, seedIndex int) {
	before := vh.CanonRV(holder)
	hdr := headerSnapshot(holder)
	h := vh.NewHandle(format, o)
	var err error
	var out []byte
	if toIO {
		var w io.Writer = &countWriter{}
		err = codec.NewEncoder(w, h).Encode(arg)
	} else {
		err = codec.NewEncoderBytes(&out, h).Encode(arg)
	}
	after := vh.CanonRV(holder)
	hdr2 := headerSnapshot(holder)
	cj := map[string]interface{}{"format": format, "scenario": scenario, "opts": o.String(), "io": toIO, "seed_index": seedIndex, "type": holder.Type().String()}
	cls := "enc:" + format + ":" + scenario
	if before != after {
		cj["before"] = clip(before)
		cj["after"] = clip(after)
		sum.FailC("enc", cls, "Encode changed the value it was given", cj)
	} else if hdr != hdr2 {
		sum.FailC("enc", cls+":repointed", "Encode re-pointed a string / []byte of the value it was given", cj)
	}
	errk := "ok"
	if err != nil {
		errk = "err"
	}
	sum.Count("enc."+format, fmt.Sprintf("enc/%s/%s/%s/%v/%s", format, scenario, o.String(), toIO, errk))
	sum.Dist["enc."+scenario]++
	sum.Dist["enc."+errk]++
}

func clip(s string) string {
	if len(s) > 600 {
		return s[:600] + "..."
	}
	return s
}

func encStream(r *vh.Rng, n int, sum *vh.Summary) {
	for i := 0; i < n; i++ {
		format := vh.Formats[r.Intn(len(vh.Formats))]
		o := vh.RandEncOpts(r, format)
		if r.Chance(1, 2) {
			o["Canonical"] = true
		}
		if r.Chance(1, 3) {
			o["StringToRaw"] = true
		}
		o["Raw"] = true
		if r.Chance(1, 3) {
			o["WriterBufferSize"] = r.PickInt(1, 16, 64)
		}
		toIO := r.Bool()
		if i%3 == 2 {
			encNilptr(r, sum, format, o, toIO, i)
			continue
		}
		if i%2 == 0 {
			// the named cases
			s := randSpecial(r, format)
			s.Raw = mustEncode(format, nil, "raw payload")
			holder := reflect.New(reflect.TypeOf(s))
			holder.Elem().Set(reflect.ValueOf(s))
			switch r.Intn(4) {
			case 0: // by value: nothing in it is addressable
				encOne(sum, format, "special-by-value", o, toIO, holder, holder.Elem().Interface(), i)
			case 1:
				encOne(sum, format, "special-by-pointer", o, toIO, holder, holder.Interface(), i)
			case 2: // inside a map value and an interface: not addressable
				m := map[string]interface{}{"v": holder.Elem().Interface(), "l": []special{s}}
				mh := reflect.ValueOf(&m)
				encOne(sum, format, "special-in-map", o, toIO, mh, m, i)
			default: // a non-addressable reflect.Value
				encOne(sum, format, "special-reflect-value", o, toIO, holder, reflect.ValueOf(holder.Elem().Interface()), i)
			}
			continue
		}
		to := vh.TypeOpts{MaxDepth: 3, Iface: true, Tags: true, StringKeys: format == "json"}
		t := vh.RandType(r, to, 0)
		vo := vh.ValOpts{NoNaN: format == "json", NoInf: format == "json", BigLens: true, MaxLen: 5}
		v := vh.RandValue(r, t, vo)
		fillIfaces(r, v, format, vo, 0)
		holder := reflect.New(t)
		holder.Elem().Set(v)
		if r.Bool() {
			encOne(sum, format, "random-by-value", o, toIO, holder, holder.Elem().Interface(), i)
		} else {
			encOne(sum, format, "random-by-pointer", o, toIO, holder, holder.Interface(), i)
		}
	}
	_ = bytes.Equal
}

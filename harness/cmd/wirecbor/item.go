package main

import (
	"fmt"
	"math"
	"reflect"
	"sort"
	"strings"
	"time"

	"verifharness/vh"

	"github.com/ugorji/go/codec"
)

// Item mirrors coq/theories/Wire/Item.v.
type Item struct {
	K    int
	B    bool
	I    int64
	U    uint64
	Bits uint64 // F32: 32 bits, F64: 64 bits
	S    []byte
	L    []*Item
	M    [][2]*Item
	T    uint64
	V    *Item
	Sec  int64
	Nsec uint32
}

const (
	KNil = iota
	KBool
	KInt
	KUint
	KF32
	KF64
	KStr
	KBytes
	KArr
	KMap
	KTag
	KTime
)

// mbs is encoded as a map with entries in slice order (codec.MapBySlice).
type mbs []interface{}

func (mbs) MapBySlice() {}

// ToGo builds the Go value the encoder is given.
func (it *Item) ToGo() interface{} {
	switch it.K {
	case KNil:
		return nil
	case KBool:
		return it.B
	case KInt:
		return it.I
	case KUint:
		return it.U
	case KF32:
		return math.Float32frombits(uint32(it.Bits))
	case KF64:
		return math.Float64frombits(it.Bits)
	case KStr:
		return string(it.S)
	case KBytes:
		b := make([]byte, len(it.S))
		copy(b, it.S)
		return b
	case KArr:
		l := make([]interface{}, len(it.L))
		for i, x := range it.L {
			l[i] = x.ToGo()
		}
		return l
	case KMap:
		l := make(mbs, 0, 2*len(it.M))
		for _, kv := range it.M {
			l = append(l, kv[0].ToGo(), kv[1].ToGo())
		}
		return l
	case KTag:
		return codec.RawExt{Tag: it.T, Value: it.V.ToGo()}
	case KTime:
		return time.Unix(it.Sec, int64(it.Nsec)).UTC()
	}
	panic("bad item")
}

// FromGo converts what Decode put into an interface{}.
func FromGo(v interface{}) (*Item, bool) {
	switch x := v.(type) {
	case nil:
		return &Item{K: KNil}, true
	case bool:
		return &Item{K: KBool, B: x}, true
	case int64:
		return &Item{K: KInt, I: x}, true
	case uint64:
		return &Item{K: KUint, U: x}, true
	case float64:
		return &Item{K: KF64, Bits: math.Float64bits(x)}, true
	case string:
		return &Item{K: KStr, S: []byte(x)}, true
	case []byte:
		return &Item{K: KBytes, S: x}, true
	case []interface{}:
		it := &Item{K: KArr}
		for _, e := range x {
			c, ok := FromGo(e)
			if !ok {
				return nil, false
			}
			it.L = append(it.L, c)
		}
		return it, true
	case map[interface{}]interface{}:
		it := &Item{K: KMap}
		rv := reflect.ValueOf(x)
		iter := rv.MapRange()
		for iter.Next() {
			k, ok1 := FromGo(iter.Key().Interface())
			val, ok2 := FromGo(iter.Value().Interface())
			if !ok1 || !ok2 {
				return nil, false
			}
			it.M = append(it.M, [2]*Item{k, val})
		}
		sort.SliceStable(it.M, func(i, j int) bool { return it.M[i][0].Canon() < it.M[j][0].Canon() })
		return it, true
	case time.Time:
		return &Item{K: KTime, Sec: x.Unix(), Nsec: uint32(x.Nanosecond())}, true
	case codec.RawExt:
		c, ok := FromGo(x.Value)
		if !ok || x.Data != nil {
			return nil, false
		}
		return &Item{K: KTag, T: x.Tag, V: c}, true
	case *codec.RawExt:
		return FromGo(*x)
	}
	return nil, false
}

// Canon is a canonical text (maps sorted by key text) used to compare trees in Go.
func (it *Item) Canon() string {
	switch it.K {
	case KNil:
		return "nil"
	case KBool:
		return fmt.Sprintf("b%v", it.B)
	case KInt:
		return fmt.Sprintf("i%d", it.I)
	case KUint:
		return fmt.Sprintf("u%d", it.U)
	case KF32:
		return fmt.Sprintf("f32:%08x", it.Bits)
	case KF64:
		return fmt.Sprintf("f64:%016x", it.Bits)
	case KStr:
		return fmt.Sprintf("s%x", it.S)
	case KBytes:
		return fmt.Sprintf("x%x", it.S)
	case KArr:
		var sb strings.Builder
		sb.WriteString("[")
		for _, x := range it.L {
			sb.WriteString(x.Canon())
			sb.WriteString(",")
		}
		sb.WriteString("]")
		return sb.String()
	case KMap:
		es := make([]string, len(it.M))
		for i, kv := range it.M {
			es[i] = kv[0].Canon() + ":" + kv[1].Canon()
		}
		sort.Strings(es)
		return "{" + strings.Join(es, ",") + "}"
	case KTag:
		return fmt.Sprintf("t%d(%s)", it.T, it.V.Canon())
	case KTime:
		return fmt.Sprintf("T%d.%09d", it.Sec, it.Nsec)
	}
	return "?"
}

// Coq prints the item as a Gallina term of type Wire.Item.item.
func (it *Item) Coq() string {
	switch it.K {
	case KNil:
		return "INil"
	case KBool:
		return "(IBool " + vh.CoqBool(it.B) + ")"
	case KInt:
		return "(IInt " + vh.CoqZ(it.I) + ")"
	case KUint:
		return "(IUint " + vh.CoqN(it.U) + ")"
	case KF32:
		return "(IF32 " + vh.CoqN(it.Bits) + ")"
	case KF64:
		return "(IF64 " + vh.CoqN(it.Bits) + ")"
	case KStr:
		return "(IStr " + vh.CoqBytes(it.S) + ")"
	case KBytes:
		return "(IBytes " + vh.CoqBytes(it.S) + ")"
	case KArr:
		xs := make([]string, len(it.L))
		for i, x := range it.L {
			xs[i] = x.Coq()
		}
		return "(IArr [" + strings.Join(xs, ";") + "])"
	case KMap:
		xs := make([]string, len(it.M))
		for i, kv := range it.M {
			xs[i] = "(" + kv[0].Coq() + "," + kv[1].Coq() + ")"
		}
		return "(IMap [" + strings.Join(xs, ";") + "])"
	case KTag:
		return "(ITag " + vh.CoqN(it.T) + " " + it.V.Coq() + ")"
	case KTime:
		return "(ITime " + vh.CoqZ(it.Sec) + " " + vh.CoqN(uint64(it.Nsec)) + ")"
	}
	return "INil"
}

func (it *Item) Depth() int {
	m := 0
	switch it.K {
	case KArr:
		for _, x := range it.L {
			m = max(m, x.Depth())
		}
		return m + 1
	case KMap:
		for _, kv := range it.M {
			m = max(m, kv[0].Depth(), kv[1].Depth())
		}
		return m + 1
	case KTag:
		return it.V.Depth() + 1
	}
	return 0
}

// ---- generation ----

type GenOpts struct {
	MaxDepth  int
	Times     bool // include ITime
	Tags      bool
	F32       bool // include IF32 (encoder side only)
	BigLens   bool // lengths around 23/24, 255/256
	SafeKeys  bool // hashable, pairwise distinct map keys (after the []byte -> string conversion)
	SubSecond bool // times with a fraction of a second
}

var boundaryU = []uint64{0, 1, 22, 23, 24, 25, 254, 255, 256, 257, 65534, 65535, 65536, 65537,
	1<<32 - 2, 1<<32 - 1, 1 << 32, 1<<32 + 1, 1<<53 - 1, 1 << 53, 1<<53 + 1,
	1<<63 - 2, 1<<63 - 1, 1 << 63, 1<<63 + 1, 1<<64 - 2, 1<<64 - 1}

func randU64(r *vh.Rng) uint64 {
	switch r.Intn(4) {
	case 0:
		return boundaryU[r.Intn(len(boundaryU))]
	case 1:
		return uint64(r.Intn(300))
	case 2:
		return r.U64() >> uint(r.Intn(64))
	}
	return r.U64()
}

var boundaryF64 = []uint64{0, 1 << 63, 0x3ff0000000000000, 0xbff0000000000000, 0x7ff0000000000000, 0xfff0000000000000,
	0x7ff8000000000000, 0x7ff0000000000001, 0xfff8000000000001, 0x7ff4000000000000, 1, 0x000fffffffffffff, 0x0010000000000000,
	0x3f10000000000000 /* 2^-14 */, 0x3e70000000000000 /* 2^-24 */, 0x3e60000000000000, /* 2^-25 */
	0x40effc0000000000 /* 65504 */, 0x40effc0000000001, 0x40f0000000000000, 0x47efffffe0000000 /* max f32 */, 0x47efffffe0000001,
	0x47effffff0000000, 0x36a0000000000000 /* 2^-149 */, 0x3690000000000000, 0x3810000000000000 /* 2^-126 */, 0x380fffffc0000000,
	0x3ff0000020000000, 0x3ff0000010000000, 0x3ff0000030000000, 0x3ff0000010000001, 0x4059000000000000, 0x3fb999999999999a, 0x400921fb54442d18}

func randF64Bits(r *vh.Rng) uint64 {
	switch r.Intn(5) {
	case 0:
		return boundaryF64[r.Intn(len(boundaryF64))]
	case 1:
		return math.Float64bits(float64(math.Float32frombits(uint32(r.U64()))))
	case 2:
		return math.Float64bits(float64(int64(r.U64()>>uint(r.Intn(64)))) / float64(int64(1)<<uint(r.Intn(30))))
	case 3: // exactly representable in half precision
		return math.Float64bits(float64(math.Float32frombits(refHalfToF32(uint16(r.U64())))))
	}
	return r.U64()
}

func randF32Bits(r *vh.Rng) uint32 {
	switch r.Intn(4) {
	case 0:
		return refHalfToF32(uint16(r.U64()))
	case 1:
		return []uint32{0, 1 << 31, 0x7f800000, 0xff800000, 0x7fc00000, 0x7f800001, 0xffc00001, 1, 0x007fffff, 0x00800000, 0x3f800000,
			0x477fe000, 0x477fe001, 0x47800000, 0x33800000, 0x33000000, 0x38800000, 0x387fc000, 0x387fe000, 0x7fffffff}[r.Intn(20)]
	}
	return uint32(r.U64())
}

func randLen(r *vh.Rng, big bool) int {
	if big && r.Chance(1, 6) {
		return r.PickInt(22, 23, 24, 25, 254, 255, 256, 257)
	}
	if r.Chance(1, 3) {
		return 0
	}
	return 1 + r.Intn(9)
}

func randStrBytes(r *vh.Rng, n int, utf bool) []byte {
	b := make([]byte, n)
	for i := range b {
		if utf {
			b[i] = byte(32 + r.Intn(95))
		} else {
			b[i] = byte(r.U64())
		}
	}
	return b
}

// time range: years 1 .. 9999
const minSec, maxSec = -62135596800, 253402300799

func randTime(r *vh.Rng, sub bool) *Item {
	var sec int64
	switch r.Intn(4) {
	case 0:
		sec = []int64{0, -1, 1, minSec, minSec + 1, maxSec, 951782400, 951868799, 1 << 31, 1<<32 - 1, 1 << 32, -(1 << 31), 1709164800, -11644473600}[r.Intn(14)]
	case 1:
		sec = int64(r.U64()%uint64(maxSec-minSec)) + minSec
	default:
		sec = int64(r.Intn(2000000000))
	}
	var ns uint32
	if sub && r.Chance(2, 3) {
		switch r.Intn(4) {
		case 0:
			ns = uint32(r.Intn(1000)) * 1000000
		case 1:
			ns = uint32(r.Intn(1000000)) * 1000
		case 2:
			ns = []uint32{1, 499, 500, 501, 999, 999999499, 999999500, 999999999, 123456789, 100000000, 500000000}[r.Intn(11)]
		default:
			ns = uint32(r.Intn(1000000000))
		}
	}
	return &Item{K: KTime, Sec: sec, Nsec: ns}
}

func RandItem(r *vh.Rng, o GenOpts, depth int) *Item {
	k := r.Intn(14)
	if depth >= o.MaxDepth && k >= 9 && k <= 12 {
		k = r.Intn(9)
	}
	switch k {
	case 0:
		return &Item{K: KNil}
	case 1:
		return &Item{K: KBool, B: r.Bool()}
	case 2, 3:
		u := randU64(r)
		if r.Bool() {
			return &Item{K: KInt, I: int64(u)}
		}
		return &Item{K: KInt, I: -1 - int64(u>>1)}
	case 4:
		return &Item{K: KUint, U: randU64(r)}
	case 5:
		if o.F32 && r.Bool() {
			return &Item{K: KF32, Bits: uint64(randF32Bits(r))}
		}
		return &Item{K: KF64, Bits: randF64Bits(r)}
	case 6, 7:
		return &Item{K: KStr, S: randStrBytes(r, randLen(r, o.BigLens), true)}
	case 8:
		return &Item{K: KBytes, S: randStrBytes(r, randLen(r, o.BigLens), false)}
	case 9, 10:
		n := randLen(r, o.BigLens && depth+1 >= o.MaxDepth)
		if n > 30 && depth+1 < o.MaxDepth {
			n = 3
		}
		it := &Item{K: KArr}
		for i := 0; i < n; i++ {
			it.L = append(it.L, RandItem(r, o, depth+1))
		}
		return it
	case 11:
		n := randLen(r, o.BigLens && depth+1 >= o.MaxDepth)
		if n > 30 && depth+1 < o.MaxDepth {
			n = 3
		}
		it := &Item{K: KMap}
		seen := map[string]bool{}
		for i := 0; i < n; i++ {
			var key *Item
			if o.SafeKeys {
				for tries := 0; ; tries++ {
					ko := o
					ko.MaxDepth = 0
					ko.Tags = false
					key = RandItem(r, ko, 99)
					if tries > 20 {
						key = &Item{K: KUint, U: uint64(1000 + i)}
					}
					c := keyCanon(key)
					if c != "" && !seen[c] {
						seen[c] = true
						break
					}
				}
			} else {
				key = RandItem(r, o, depth+1)
			}
			it.M = append(it.M, [2]*Item{key, RandItem(r, o, depth+1)})
		}
		return it
	case 12:
		if o.Tags {
			t := uint64(6 + r.Intn(20))
			switch r.Intn(4) {
			case 0:
				t = []uint64{6, 23, 24, 255, 256, 65535, 65536, 55798, 55800, 1<<32 - 1, 1 << 32, 1<<64 - 1}[r.Intn(12)]
			case 1:
				t = randU64(r)
				if t <= 5 || t == 55799 {
					t = 100
				}
			}
			return &Item{K: KTag, T: t, V: RandItem(r, o, depth+1)}
		}
		return &Item{K: KUint, U: randU64(r)}
	default:
		if o.Times {
			return randTime(r, o.SubSecond)
		}
		return &Item{K: KInt, I: int64(r.Intn(100)) - 50}
	}
}

// keyCanon: identity of a map key as Go's map sees it once decoded (""= unusable as a key here).
// Integers may come back as int64 or uint64 depending on SignedInteger: keep one spelling per value.
func keyCanon(k *Item) string {
	switch k.K {
	case KNil, KBool, KStr:
		return k.Canon()
	case KBytes:
		return "s" + fmt.Sprintf("%x", k.S) // a []byte key is converted to a string
	case KInt:
		return fmt.Sprintf("n%d", k.I)
	case KUint:
		if k.U < 1<<63 {
			return fmt.Sprintf("n%d", k.U)
		}
		return ""
	case KF64:
		f := math.Float64frombits(k.Bits)
		if f != f {
			return ""
		}
		if f == 0 {
			return "f0"
		}
		return k.Canon()
	case KF32:
		f := math.Float32frombits(uint32(k.Bits))
		if f != f {
			return ""
		}
		if f == 0 {
			return "f0"
		}
		return fmt.Sprintf("f64:%016x", math.Float64bits(float64(f)))
	}
	return ""
}

// vu stream: DecodeOptions.ValidateUnicode = true, destination interface{}.
//
// Text built from well-formed and ill-formed UTF-8 sequences (truncated multi-byte sequences, lone
// continuation bytes, overlong forms, surrogates U+D800..DFFF, code points above U+10FFFF, 0xfe/0xff) is
// placed as a value, an array element, a map key, a map value, the content of an ordinary tag, of tag 0 and
// of tag 2, as a definite-length text string, an indefinite-length one cut at code point boundaries, an
// indefinite-length one cut ANYWHERE (inside a character: the whole is well-formed, a chunk is not), or as a
// byte string (definite / chunked); some encodings are cut short.  The real Decoder runs with the option on.
//
//	correspondence  CDecVU cases: outcome class, tree and NumBytesRead vs the model's dec_naked_vu true
//	                (Wire/CborVU.v)
//	direct oracles  sound: a successful decode never holds text (major type 3 in any position, map keys
//	                included, or the content of tag 0) that is not well-formed UTF-8, chunk by chunk;
//	                accepts: when the decoder without the option accepts the input and all such text is
//	                well-formed, the decoder with the option accepts it with the same value; rejects: when
//	                the decoder without the option accepts and some such text is ill-formed, the decoder with
//	                the option answers with an error that is not "input ended" / "depth".
package main

import (
	"fmt"
	"unicode/utf8"

	"verifharness/vh"

	"github.com/ugorji/go/codec"
)

var utf8Good = [][]byte{
	[]byte("a"), []byte("xyz"), {0xc3, 0xa9}, {0xdf, 0xbf}, {0xe0, 0xa0, 0x80}, {0xe2, 0x82, 0xac}, {0xed, 0x9f, 0xbf},
	{0xee, 0x80, 0x80}, {0xef, 0xbf, 0xbf}, {0xf0, 0x90, 0x80, 0x80}, {0xf0, 0x9f, 0x98, 0x80}, {0xf4, 0x8f, 0xbf, 0xbf}, {0x00}, {0x7f},
}

var utf8Bad = map[string][][]byte{
	"lone-continuation": {{0x80}, {0xbf}, {0xa9}},
	"truncated":         {{0xc3}, {0xe2, 0x82}, {0xe2}, {0xf0, 0x9f, 0x98}, {0xf0, 0x9f}, {0xf4}},
	"overlong":          {{0xc0, 0x80}, {0xc1, 0xbf}, {0xe0, 0x80, 0x80}, {0xe0, 0x9f, 0xbf}, {0xf0, 0x80, 0x80, 0x80}, {0xf0, 0x8f, 0xbf, 0xbf}},
	"surrogate":         {{0xed, 0xa0, 0x80}, {0xed, 0xbf, 0xbf}, {0xed, 0xa0, 0xbd, 0xed, 0xb8, 0x80}},
	"above-10ffff":      {{0xf4, 0x90, 0x80, 0x80}, {0xf5, 0x80, 0x80, 0x80}, {0xf8, 0x88, 0x80, 0x80, 0x80}},
	"never-a-byte":      {{0xff}, {0xfe}},
	"bad-continuation":  {{0xc3, 0x28}, {0xe2, 0x28, 0xa1}, {0xe2, 0x82, 0x28}, {0xf0, 0x28, 0x8c, 0xbc}, {0xf0, 0x9f, 0x98, 0x28}},
}

var utf8BadKinds = []string{"lone-continuation", "truncated", "overlong", "surrogate", "above-10ffff", "never-a-byte", "bad-continuation"}

func vuText(r *vh.Rng, bad bool, rfc3339 bool) ([]byte, string) {
	var out []byte
	if rfc3339 {
		out = []byte("2021-03-04T05:06:07Z")
		if !bad {
			return out, ""
		}
	}
	n := r.Intn(5)
	if !rfc3339 {
		for i := 0; i < n; i++ {
			out = append(out, utf8Good[r.Intn(len(utf8Good))]...)
		}
	}
	kind := ""
	if bad {
		kind = utf8BadKinds[r.Intn(len(utf8BadKinds))]
		xs := utf8Bad[kind]
		out = append(out, xs[r.Intn(len(xs))]...)
		if kind != "truncated" || r.Bool() {
			m := r.Intn(3)
			for i := 0; i < m; i++ {
				out = append(out, utf8Good[r.Intn(len(utf8Good))]...)
			}
		}
		if utf8.Valid(out) {
			out = append(out, 0xff)
			kind = "never-a-byte"
		}
	}
	return out, kind
}

// one string on the wire and what the decoder must validate of it
type vuStr struct {
	wire   []byte
	chunks [][]byte // text chunks (major 3) the decoder validates one by one; nil for byte strings
	whole  []byte
	text   bool // major type 3
	form   string
}

func chunkAt(s []byte, cuts []int) [][]byte {
	var cs [][]byte
	prev := 0
	for _, c := range cuts {
		if c > prev && c < len(s) {
			cs = append(cs, s[prev:c])
			prev = c
		}
	}
	cs = append(cs, s[prev:])
	return cs
}

func vuEncodeStr(r *vh.Rng, s []byte) vuStr {
	return vuEncodeStrForm(r, s, r.PickString("text", "text", "text-chunks-at-runes", "text-chunks-anywhere", "text-chunks-anywhere", "bytes", "bytes-chunks"))
}

func vuEncodeStrForm(r *vh.Rng, s []byte, form string) vuStr {
	major := byte(3)
	text := true
	if form == "bytes" || form == "bytes-chunks" {
		major, text = 2, false
	}
	out := vuStr{whole: s, text: text, form: form}
	switch form {
	case "text", "bytes":
		out.wire = append(refHead(major, uint64(len(s)), anyWidth(r, uint64(len(s)), true)), s...)
		if text {
			out.chunks = [][]byte{s}
		}
	default:
		var cuts []int
		if form == "text-chunks-at-runes" {
			for i := 1; i < len(s); i++ {
				if utf8.RuneStart(s[i]) && r.Chance(1, 2) {
					cuts = append(cuts, i)
				}
			}
		} else {
			for i := 1; i < len(s); i++ {
				if r.Chance(1, 3) {
					cuts = append(cuts, i)
				}
			}
		}
		cs := chunkAt(s, cuts)
		if len(s) == 0 && r.Bool() {
			cs = nil // no chunk at all
		}
		out.wire = []byte{major<<5 | 31}
		for _, c := range cs {
			out.wire = append(out.wire, refHead(major, uint64(len(c)), anyWidth(r, uint64(len(c)), true))...)
			out.wire = append(out.wire, c...)
		}
		out.wire = append(out.wire, 0xff)
		if text {
			out.chunks = cs
		}
	}
	return out
}

func (v vuStr) textValid() bool {
	if !v.text {
		return true
	}
	for _, c := range v.chunks {
		if !utf8.Valid(c) {
			return false
		}
	}
	return utf8.Valid(v.whole)
}

func decodeIfaceVU(D DOpts, b []byte, vu bool) outcome {
	return guarded(func() outcome {
		var v interface{}
		h := D.handle()
		h.ValidateUnicode = vu
		d := codec.NewDecoderBytes(b, h)
		err := d.Decode(&v)
		o := outcome{cls: codec.VerifErrClass(err), nread: d.NumBytesRead()}
		if err == nil {
			it, ok := FromGo(v)
			if !ok {
				o.cls = clsShape
			}
			o.it = it
		}
		return o
	})
}

func vuStream(c *ctx, n int) {
	r := c.r.Fork()
	for i := 0; i < n; i++ {
		bad := r.Chance(1, 2)
		where := r.PickString("value", "elem", "key", "mapval", "tag", "tag0", "tag0", "tag2", "nested-key", "two")
		s, kind := vuText(r, bad, where == "tag0" && r.Chance(2, 3))
		vs := vuEncodeStr(r, s)
		// a companion string that is well-formed text whatever the option (never cut inside a character)
		good := func() []byte {
			g, _ := vuText(r, false, false)
			return vuEncodeStrForm(r, g, r.PickString("text", "text-chunks-at-runes", "bytes")).wire
		}
		validated := vs.textValid() // what the property demands of this input
		oracle := true              // tag 2 content is a byte string by the RFC: correspondence only
		var b []byte
		switch where {
		case "value":
			b = vs.wire
		case "elem":
			b = append([]byte{0x83}, good()...)
			b = append(b, vs.wire...)
			b = append(b, 0x07)
		case "key":
			b = append([]byte{0xa2, 0x01, 0x02}, vs.wire...)
			b = append(b, 0xf5)
		case "mapval":
			b = append([]byte{0xbf, 0x61, 0x6b}, vs.wire...)
			b = append(b, 0xff)
		case "tag":
			b = append([]byte{0xd8, 0x64}, vs.wire...)
		case "tag0":
			b = append([]byte{0xc0}, vs.wire...)
			validated = validated && utf8.Valid(vs.whole) // DecodeStringAsBytes: the whole, whatever the major type
		case "tag2":
			b = append([]byte{0xc2}, vs.wire...)
			oracle = false
		case "nested-key":
			b = append([]byte{0x82, 0xf4, 0xa1}, vs.wire...)
			b = append(b, 0xf6)
		default: // two strings: a well-formed one before, the designated one after
			b = append([]byte{0x9f}, good()...)
			b = append(b, vs.wire...)
			b = append(b, 0xff)
		}
		cut := false
		if r.Chance(1, 6) && len(b) > 1 {
			b = b[:1+r.Intn(len(b)-1)]
			cut = true
		}
		D := randDOpts(r)
		if r.Chance(2, 3) {
			D.MaxDepth = 0
		}
		o := decodeIfaceVU(D, b, true)
		id := c.next()
		tree := "INil"
		if o.cls == clsOK && o.it != nil {
			tree = o.it.Coq()
		}
		c.cv.Add(fmt.Sprintf("CDecVU %d %s %s %d %s %d", id, D.Coq(), vh.CoqBytes(b), o.cls, tree, o.nread))
		c.sum.ModelCases++
		cj := map[string]interface{}{"dopts": D.String(), "bytes": vh.Hex(b), "cls": o.cls, "where": where, "form": vs.form, "illformed": kind, "seed_index": i, "format": "cbor"}
		c.sum.Count("vu."+where, fmt.Sprintf("vu/%s/%s/%s/cut%v/cls%d/%v", where, vs.form, kind, cut, o.cls, D))
		c.sum.Dist[fmt.Sprintf("vu.cls%d", o.cls)]++
		if o.cls == clsHang || o.cls == clsPanic || o.cls == clsShape {
			c.sum.FailC("vu", "hang-or-panic:decode-naked:vu", "Decode into interface{} with ValidateUnicode hung, panicked or produced an unexpected type", cj)
			continue
		}
		if cut || !oracle {
			continue
		}
		off := decodeIfaceVU(D, b, false)
		switch {
		case o.cls == clsOK && !validated:
			c.sum.FailC("vu", "vu:cbor:accepted-illformed-text:"+where, "ValidateUnicode: text that is not well-formed UTF-8 (a chunk or the whole) was decoded without an error", cj)
		case off.cls == clsOK && validated && (o.cls != clsOK || o.nread != off.nread || !sameData(o.it, off.it)):
			c.sum.FailC("vu", "vu:cbor:rejected-wellformed-text:"+where, "ValidateUnicode: an input the decoder accepts without the option, all of whose text is well-formed UTF-8, was rejected or decoded differently", cj)
		case off.cls == clsOK && !validated && o.cls != clsOther:
			c.sum.FailC("vu", "vu:cbor:wrong-error:"+where, "ValidateUnicode: ill-formed text was not reported as a decoding error of the ordinary kind", cj)
		}
	}
}

// dup stream: maps with repeated keys decoded into interface{} by a handle with MapValueReset (or
// InterfaceReset) -- the case the base model answers "unsupported".
//
//	correspondence  CDecDup cases: outcome class, tree (maps compared as sets) and NumBytesRead vs the model's
//	                dec_naked_dup (Wire/CborDup.v: entries as read, then Go map assignment: the last entry wins,
//	                key object and value)
//	direct oracle   the decoded map has one entry per distinct key (Go ==: text and byte-string keys with the
//	                same bytes are one key, +0 and -0 are one key, integers of any width are one key, NaN is never
//	                equal to anything) holding the key object and the value of the LAST entry with that key
//
// Without either option the later value is decoded INTO the earlier one (typed decoding in the generic layer);
// the stream runs a few such cases too and only requires that nothing hangs or panics.
package main

import (
	"fmt"
	"math"

	"verifharness/vh"

	"github.com/ugorji/go/codec"
)

func decodeIfaceDup(D DOpts, b []byte, mvr, ir bool) outcome {
	return guarded(func() outcome {
		var v interface{}
		h := D.handle()
		h.MapValueReset = mvr
		h.InterfaceReset = ir
		d := codec.NewDecoderBytes(b, h)
		err := d.Decode(&v)
		o := outcome{cls: codec.VerifErrClass(err), nread: d.NumBytesRead()}
		if err == nil {
			it, ok := FromGo(v)
			if !ok {
				o.cls = clsShape
			}
			o.it = it
		}
		return o
	})
}

func dupKeyPool(r *vh.Rng) []*Item {
	return []*Item{
		{K: KUint, U: 1}, {K: KUint, U: 1}, {K: KUint, U: 2}, {K: KInt, I: -1}, {K: KInt, I: -1},
		{K: KStr, S: []byte("a")}, {K: KBytes, S: []byte("a")}, {K: KStr, S: []byte("b")}, {K: KStr, S: []byte{}}, {K: KBytes, S: []byte{}},
		{K: KBool, B: true}, {K: KBool, B: true}, {K: KNil},
		{K: KF64, Bits: math.Float64bits(1.5)}, {K: KF32, Bits: uint64(math.Float32bits(1.5))}, {K: KF64, Bits: math.Float64bits(1)},
		{K: KF64, Bits: 0}, {K: KF64, Bits: 1 << 63}, // +0 and -0: equal
		{K: KF64, Bits: 0x7ff8000000000000}, {K: KF64, Bits: 0x7ff8000000000000}, // NaN: never equal
		{K: KTime, Sec: 1700000000, Nsec: 0}, {K: KTime, Sec: 1700000000, Nsec: 0},
	}
}

func dupValue(r *vh.Rng, depth int) *Item {
	switch r.Intn(7) {
	case 0:
		return &Item{K: KUint, U: uint64(r.Intn(1000))}
	case 1:
		return &Item{K: KStr, S: []byte(r.PickString("x", "yy", ""))}
	case 2:
		return &Item{K: KNil}
	case 3:
		n := r.Intn(3)
		a := &Item{K: KArr}
		for i := 0; i < n; i++ {
			a.L = append(a.L, &Item{K: KUint, U: uint64(r.Intn(50))})
		}
		return a
	case 4:
		if depth < 2 {
			return dupMap(r, depth+1)
		}
		return &Item{K: KBool, B: r.Bool()}
	case 5:
		return &Item{K: KBytes, S: []byte{1, 2}}
	}
	return &Item{K: KInt, I: -int64(r.Intn(100)) - 1}
}

func dupMap(r *vh.Rng, depth int) *Item {
	pool := dupKeyPool(r)
	n := 1 + r.Intn(6)
	m := &Item{K: KMap}
	for i := 0; i < n; i++ {
		k := pool[r.Intn(len(pool))]
		if len(m.M) > 0 && r.Chance(1, 3) { // force a repetition
			k = m.M[r.Intn(len(m.M))][0]
		}
		m.M = append(m.M, [2]*Item{k, dupValue(r, depth)})
	}
	return m
}

// expected Go value under "last wins": nil when the oracle does not apply (NaN keys, unsupported nodes)
func dupExpect(it *Item, D DOpts) *Item {
	switch it.K {
	case KArr:
		out := &Item{K: KArr}
		for _, x := range it.L {
			e := dupExpect(x, D)
			if e == nil {
				return nil
			}
			out.L = append(out.L, e)
		}
		return out
	case KMap:
		out := &Item{K: KMap}
		pos := map[string]int{}
		for _, kv := range it.M {
			k := normDec(kv[0], D, true)
			v := dupExpect(kv[1], D)
			if k == nil || v == nil {
				return nil
			}
			c := keyCanon(k)
			if c == "" {
				return nil
			}
			if p, ok := pos[c]; ok {
				out.M[p] = [2]*Item{k, v} // the key object is re-assigned too (observable for +0 / -0)
			} else {
				pos[c] = len(out.M)
				out.M = append(out.M, [2]*Item{k, v})
			}
		}
		return out
	}
	return normDec(it, D, false)
}

func dupStream(c *ctx, n int) {
	r := c.r.Fork()
	stats := map[string]int{}
	for i := 0; i < n; i++ {
		it := dupMap(r, 0)
		if r.Chance(1, 5) {
			it = &Item{K: KArr, L: []*Item{it, {K: KUint, U: 7}}}
		}
		b := RefEnc(r, it, true, stats)
		D := randDOpts(r)
		if r.Chance(3, 4) {
			D.MaxDepth = 0
		}
		mvr, ir := true, false
		switch r.Intn(4) {
		case 0:
			mvr, ir = false, true
		case 1:
			mvr, ir = true, true
		}
		o := decodeIfaceDup(D, b, mvr, ir)
		id := c.next()
		tree := "INil"
		if o.cls == clsOK && o.it != nil {
			tree = o.it.Coq()
		}
		c.cv.Add(fmt.Sprintf("CDecDup %d %s %s %d %s %d", id, D.Coq(), vh.CoqBytes(b), o.cls, tree, o.nread))
		c.sum.ModelCases++
		cj := map[string]interface{}{"dopts": D.String(), "bytes": vh.Hex(b), "cls": o.cls, "item": clip(it.Canon()),
			"MapValueReset": mvr, "InterfaceReset": ir, "seed_index": i, "format": "cbor"}
		if o.it != nil {
			cj["decoded"] = clip(o.it.Canon())
		}
		c.sum.Count("dup", fmt.Sprintf("dup/n%d/d%d/cls%d/%v/%v%v", len(it.M)+len(it.L), it.Depth(), o.cls, D, mvr, ir))
		c.sum.Dist[fmt.Sprintf("dup.cls%d", o.cls)]++
		if o.cls == clsHang || o.cls == clsPanic || o.cls == clsShape {
			c.sum.FailC("dup", "hang-or-panic:decode-naked:dup", "Decode of a map with repeated keys hung, panicked or produced an unexpected type", cj)
			continue
		}
		want := dupExpect(it, D)
		if want == nil || effDepth(it, D) >= D.maxdepth() {
			continue
		}
		if o.cls != clsOK || o.nread != len(b) || !sameData(o.it, want) {
			cj["want"] = clip(want.Canon())
			c.sum.FailC("dup", "dup:cbor:last-wins", "a map with repeated keys did not decode to one entry per key holding the last value", cj)
		}
		// both options off: typed decoding into the earlier value; only liveness is required here
		if i%10 == 0 {
			if o2 := decodeIfaceDup(D, b, false, false); o2.cls == clsHang || o2.cls == clsPanic {
				c.sum.FailC("dup", "hang-or-panic:decode-naked:dup-into-existing", "Decode of a map with repeated keys (value decoded into the earlier one) hung or panicked", cj)
			}
		}
	}
}

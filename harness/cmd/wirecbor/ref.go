package main

// Reference encoder / decoder written from RFC 8949 (not from the library):
// used as direct oracles on the implementation.

import (
	"encoding/binary"
	"math"
	"unicode/utf8"

	"verifharness/vh"
)

// RFC 8949 Appendix D
func refHalfToF32(h uint16) uint32 {
	s := uint32(h>>15) << 31
	exp := int((h >> 10) & 0x1f)
	mant := int(h & 0x3ff)
	var v float64
	switch exp {
	case 0:
		v = math.Ldexp(float64(mant), -24)
	case 31:
		if mant == 0 {
			return s | 0x7f800000
		}
		return s | 0x7f800000 | uint32(mant)<<13 // payload kept left-aligned
	default:
		v = math.Ldexp(float64(mant+1024), exp-25)
	}
	return s | math.Float32bits(float32(v))
}

// f32 bits -> half bits if exactly representable
func refF32ToHalfExact(b uint32) (uint16, bool) {
	// search by construction: sign, then find h with refHalfToF32(h) == b
	s := uint16(b>>31) << 15
	e := int((b >> 23) & 0xff)
	m := b & 0x7fffff
	var h uint16
	switch {
	case e == 0xff:
		if m&0x1fff != 0 {
			return 0, false
		}
		h = s | 0x7c00 | uint16(m>>13)
		if m != 0 && h&0x3ff == 0 {
			return 0, false
		}
	case e == 0 && m == 0:
		h = s
	case e-127 >= -14 && e-127 <= 15:
		if m&0x1fff != 0 {
			return 0, false
		}
		h = s | uint16(e-127+15)<<10 | uint16(m>>13)
	case e-127 >= -24 && e-127 < -14:
		// subnormal half: value = (2^23+m) * 2^(e-150) = k * 2^-24
		sh := uint(-(e - 150) - 24) // shift right
		full := uint32(1<<23) | m
		if full&(1<<sh-1) != 0 {
			return 0, false
		}
		h = s | uint16(full>>sh)
	default:
		return 0, false
	}
	if refHalfToF32(h) != b {
		return 0, false
	}
	return h, true
}

func refHead(major byte, v uint64, width int) []byte {
	// width: 0 immediate, 1, 2, 4, 8
	switch width {
	case 0:
		return []byte{major<<5 | byte(v)}
	case 1:
		return []byte{major<<5 | 24, byte(v)}
	case 2:
		b := []byte{major<<5 | 25, 0, 0}
		binary.BigEndian.PutUint16(b[1:], uint16(v))
		return b
	case 4:
		b := []byte{major<<5 | 26, 0, 0, 0, 0}
		binary.BigEndian.PutUint32(b[1:], uint32(v))
		return b
	}
	b := []byte{major<<5 | 27, 0, 0, 0, 0, 0, 0, 0, 0}
	binary.BigEndian.PutUint64(b[1:], v)
	return b
}

func minWidth(v uint64) int {
	switch {
	case v < 24:
		return 0
	case v < 1<<8:
		return 1
	case v < 1<<16:
		return 2
	case v < 1<<32:
		return 4
	}
	return 8
}

// anyWidth picks a permitted width >= minimal (alt = probability weight of a non-minimal one)
func anyWidth(r *vh.Rng, v uint64, alt bool) int {
	ws := []int{0, 1, 2, 4, 8}
	m := minWidth(v)
	if !alt || r.Chance(1, 2) {
		return m
	}
	var ok []int
	for _, w := range ws {
		if w >= m {
			ok = append(ok, w)
		}
	}
	return ok[r.Intn(len(ok))]
}

// refForceChunked makes RefEnc write every byte / text string in the indefinite-length (chunked) form.
var refForceChunked bool

// RefEnc serialises an item choosing among the alternative forms the RFC permits.
// F32 items are written as single precision; F64 as half/single/double when exact.
func RefEnc(r *vh.Rng, it *Item, alt bool, stats map[string]int) []byte {
	switch it.K {
	case KNil:
		if alt && r.Chance(1, 4) {
			stats["form.undefined"]++
			return []byte{0xf7}
		}
		return []byte{0xf6}
	case KBool:
		if it.B {
			return []byte{0xf5}
		}
		return []byte{0xf4}
	case KInt:
		if it.I < 0 {
			v := uint64(-1 - it.I)
			w := anyWidth(r, v, alt)
			if w != minWidth(v) {
				stats["form.nonminimal-head"]++
			}
			return refHead(1, v, w)
		}
		v := uint64(it.I)
		w := anyWidth(r, v, alt)
		if w != minWidth(v) {
			stats["form.nonminimal-head"]++
		}
		return refHead(0, v, w)
	case KUint:
		w := anyWidth(r, it.U, alt)
		if w != minWidth(it.U) {
			stats["form.nonminimal-head"]++
		}
		return refHead(0, it.U, w)
	case KF32:
		b := make([]byte, 5)
		b[0] = 0xfa
		binary.BigEndian.PutUint32(b[1:], uint32(it.Bits))
		return b
	case KF64:
		f := math.Float64frombits(it.Bits)
		if alt && f == f {
			f32 := float32(f)
			if float64(f32) == f && math.Float64bits(float64(f32)) == it.Bits {
				if h, ok := refF32ToHalfExact(math.Float32bits(f32)); ok && r.Chance(2, 3) {
					stats["form.half"]++
					return []byte{0xf9, byte(h >> 8), byte(h)}
				}
				if r.Chance(2, 3) {
					stats["form.single"]++
					b := make([]byte, 5)
					b[0] = 0xfa
					binary.BigEndian.PutUint32(b[1:], math.Float32bits(f32))
					return b
				}
			}
		}
		b := make([]byte, 9)
		b[0] = 0xfb
		binary.BigEndian.PutUint64(b[1:], it.Bits)
		return b
	case KStr, KBytes:
		major := byte(3)
		if it.K == KBytes {
			major = 2
		}
		if refForceChunked || (alt && r.Chance(1, 3)) {
			stats["form.indef-string"]++
			out := []byte{major<<5 | 31}
			s := it.S
			for len(s) > 0 || r.Chance(1, 5) {
				n := r.Intn(len(s) + 1)
				if r.Chance(1, 3) {
					n = len(s)
				}
				out = append(out, refHead(major, uint64(n), anyWidth(r, uint64(n), alt))...)
				out = append(out, s[:n]...)
				s = s[n:]
			}
			return append(out, 0xff)
		}
		w := anyWidth(r, uint64(len(it.S)), alt)
		if w != minWidth(uint64(len(it.S))) {
			stats["form.nonminimal-head"]++
		}
		return append(refHead(major, uint64(len(it.S)), w), it.S...)
	case KArr:
		var out []byte
		indef := alt && r.Chance(1, 3)
		if indef {
			stats["form.indef-array"]++
			out = []byte{0x9f}
		} else {
			out = refHead(4, uint64(len(it.L)), anyWidth(r, uint64(len(it.L)), alt))
		}
		for _, x := range it.L {
			out = append(out, RefEnc(r, x, alt, stats)...)
		}
		if indef {
			out = append(out, 0xff)
		}
		return out
	case KMap:
		var out []byte
		indef := alt && r.Chance(1, 3)
		if indef {
			stats["form.indef-map"]++
			out = []byte{0xbf}
		} else {
			out = refHead(5, uint64(len(it.M)), anyWidth(r, uint64(len(it.M)), alt))
		}
		for _, kv := range it.M {
			out = append(out, RefEnc(r, kv[0], alt, stats)...)
			out = append(out, RefEnc(r, kv[1], alt, stats)...)
		}
		if indef {
			out = append(out, 0xff)
		}
		return out
	case KTag:
		return append(refHead(6, it.T, anyWidth(r, it.T, alt)), RefEnc(r, it.V, alt, stats)...)
	case KTime:
		// epoch-based date/time (tag 1) with an integer number of seconds
		out := refHead(6, 1, anyWidth(r, 1, alt))
		return append(out, RefEnc(r, &Item{K: KInt, I: it.Sec}, alt, stats)...)
	}
	panic("bad item")
}

// ---- reference decoder ----

const KSimple = 100 // simple value other than false/true/null/undefined (U holds it)
const KBigNint = 101 // negative integer below -2^63: value -1-U

type refDec struct {
	b        []byte
	pos      int
	bad      bool
	badChunk bool // a chunk of an indefinite-length text string is not valid UTF-8 (RFC 8949 3.2.3)
}

func (d *refDec) need(n int) bool {
	if n < 0 || d.pos+n > len(d.b) {
		d.bad = true
		return false
	}
	return true
}

func (d *refDec) arg(ai byte) (uint64, bool) {
	switch {
	case ai < 24:
		return uint64(ai), true
	case ai == 24:
		if !d.need(1) {
			return 0, false
		}
		v := uint64(d.b[d.pos])
		d.pos++
		return v, true
	case ai == 25:
		if !d.need(2) {
			return 0, false
		}
		v := uint64(binary.BigEndian.Uint16(d.b[d.pos:]))
		d.pos += 2
		return v, true
	case ai == 26:
		if !d.need(4) {
			return 0, false
		}
		v := uint64(binary.BigEndian.Uint32(d.b[d.pos:]))
		d.pos += 4
		return v, true
	case ai == 27:
		if !d.need(8) {
			return 0, false
		}
		v := binary.BigEndian.Uint64(d.b[d.pos:])
		d.pos += 8
		return v, true
	}
	d.bad = true
	return 0, false
}

// item decodes one well-formed data item (RFC 8949 Appendix C); isBreak reports a break code.
func (d *refDec) item(depth int) (it *Item, isBreak bool) {
	if depth > 5000 || !d.need(1) {
		d.bad = true
		return nil, false
	}
	ib := d.b[d.pos]
	d.pos++
	mt, ai := ib>>5, ib&0x1f
	if ai >= 28 && ai <= 30 {
		d.bad = true
		return nil, false
	}
	switch mt {
	case 0:
		v, ok := d.arg(ai)
		if !ok {
			return nil, false
		}
		return &Item{K: KUint, U: v}, false
	case 1:
		v, ok := d.arg(ai)
		if !ok {
			return nil, false
		}
		if v >= 1<<63 {
			return &Item{K: KBigNint, U: v}, false
		}
		return &Item{K: KInt, I: -1 - int64(v)}, false
	case 2, 3:
		k := KBytes
		if mt == 3 {
			k = KStr
		}
		if ai == 31 {
			var s []byte
			for {
				if !d.need(1) {
					return nil, false
				}
				c := d.b[d.pos]
				if c == 0xff {
					d.pos++
					break
				}
				if c>>5 != mt || c&0x1f == 31 {
					d.bad = true
					return nil, false
				}
				d.pos++
				n, ok := d.arg(c & 0x1f)
				if !ok || n > uint64(len(d.b)) || !d.need(int(n)) {
					d.bad = true
					return nil, false
				}
				if mt == 3 && !utf8.Valid(d.b[d.pos:d.pos+int(n)]) {
					d.badChunk = true
				}
				s = append(s, d.b[d.pos:d.pos+int(n)]...)
				d.pos += int(n)
			}
			return &Item{K: k, S: s}, false
		}
		n, ok := d.arg(ai)
		if !ok || n > uint64(len(d.b)) || !d.need(int(n)) {
			d.bad = true
			return nil, false
		}
		s := append([]byte{}, d.b[d.pos:d.pos+int(n)]...)
		d.pos += int(n)
		return &Item{K: k, S: s}, false
	case 4:
		out := &Item{K: KArr}
		if ai == 31 {
			for {
				x, brk := d.item(depth + 1)
				if d.bad {
					return nil, false
				}
				if brk {
					break
				}
				out.L = append(out.L, x)
			}
			return out, false
		}
		n, ok := d.arg(ai)
		if !ok {
			return nil, false
		}
		for i := uint64(0); i < n; i++ {
			x, brk := d.item(depth + 1)
			if d.bad || brk {
				d.bad = true
				return nil, false
			}
			out.L = append(out.L, x)
		}
		return out, false
	case 5:
		out := &Item{K: KMap}
		if ai == 31 {
			for {
				k, brk := d.item(depth + 1)
				if d.bad {
					return nil, false
				}
				if brk {
					break
				}
				v, brk2 := d.item(depth + 1)
				if d.bad || brk2 {
					d.bad = true
					return nil, false
				}
				out.M = append(out.M, [2]*Item{k, v})
			}
			return out, false
		}
		n, ok := d.arg(ai)
		if !ok {
			return nil, false
		}
		for i := uint64(0); i < n; i++ {
			k, brk := d.item(depth + 1)
			if d.bad || brk {
				d.bad = true
				return nil, false
			}
			v, brk2 := d.item(depth + 1)
			if d.bad || brk2 {
				d.bad = true
				return nil, false
			}
			out.M = append(out.M, [2]*Item{k, v})
		}
		return out, false
	case 6:
		if ai == 31 {
			d.bad = true
			return nil, false
		}
		t, ok := d.arg(ai)
		if !ok {
			return nil, false
		}
		v, brk := d.item(depth + 1)
		if d.bad || brk {
			d.bad = true
			return nil, false
		}
		return &Item{K: KTag, T: t, V: v}, false
	}
	// major 7
	switch {
	case ai == 20:
		return &Item{K: KBool, B: false}, false
	case ai == 21:
		return &Item{K: KBool, B: true}, false
	case ai == 22, ai == 23:
		return &Item{K: KNil}, false
	case ai < 24:
		return &Item{K: KSimple, U: uint64(ai)}, false
	case ai == 24:
		if !d.need(1) {
			return nil, false
		}
		v := d.b[d.pos]
		d.pos++
		if v < 32 {
			d.bad = true
			return nil, false
		}
		return &Item{K: KSimple, U: uint64(v)}, false
	case ai == 25:
		if !d.need(2) {
			return nil, false
		}
		h := binary.BigEndian.Uint16(d.b[d.pos:])
		d.pos += 2
		return &Item{K: KF64, Bits: canonNaN(math.Float64bits(float64(math.Float32frombits(refHalfToF32(h)))))}, false
	case ai == 26:
		if !d.need(4) {
			return nil, false
		}
		x := binary.BigEndian.Uint32(d.b[d.pos:])
		d.pos += 4
		return &Item{K: KF64, Bits: canonNaN(math.Float64bits(float64(math.Float32frombits(x))))}, false
	case ai == 27:
		if !d.need(8) {
			return nil, false
		}
		x := binary.BigEndian.Uint64(d.b[d.pos:])
		d.pos += 8
		return &Item{K: KF64, Bits: canonNaN(x)}, false
	}
	return nil, true // 31: break
}

func canonNaN(b uint64) uint64 {
	f := math.Float64frombits(b)
	if f != f {
		return 0x7ff8000000000000
	}
	return b
}

// RefDecode reads exactly one well-formed item; n is the number of bytes it occupies.
func RefDecode(b []byte) (it *Item, n int, ok bool) {
	it, n, ok, _ = RefDecodeChunks(b)
	return
}

// RefDecodeChunks also reports whether every chunk of every indefinite-length text string is valid UTF-8.
func RefDecodeChunks(b []byte) (it *Item, n int, ok bool, chunksOK bool) {
	d := &refDec{b: b}
	defer func() { chunksOK = !d.badChunk }()
	it, brk := d.item(0)
	if d.bad || brk || it == nil {
		return nil, 0, false, false
	}
	return it, d.pos, true, true
}

// wirecbor: correspondence and direct oracles for the cbor wire layer (check Wcbor,
// cbor half of C10).
//
// Streams (every one writes model cases for coq/theories/Wire/CborCorr.v):
//
//	enc    random item trees -> Go values -> real Encoder under random option vectors;
//	       bytes compared with the model's enc; direct oracles: the reference decoder
//	       (RFC 8949) reads exactly one item carrying the same data; Decode(Encode(v)) == norm v
//	dec    (i) reference encoder enumerating width / length-form alternatives, (ii) one
//	       mutation of a valid encoding, (iii) raw random bytes, (iv) all 256 first bytes;
//	       real Decode into interface{}: outcome class, tree, NumBytesRead vs model dec_naked
//	skip   the second parser: Raw capture (depth 0) and unknown struct field (depth 1) vs model skip
//	leaf   halfFloatToFloatBits on all 65536 inputs, floatToHalfFloatBits and the float
//	       conversions / arithmetic the driver relies on vs the model's bit-level functions
//	deep   megabytes of one repeated descriptor in a subprocess with a 64 MB stack cap
//
// Hostile inputs run under a watchdog; a hang or a fatal exit is an oracle failure.
package main

import (
	"bytes"
	"flag"
	"fmt"
	"io"
	"math"
	"math/big"
	"os"
	"os/exec"
	"runtime/debug"
	"strings"
	"time"
	"unicode/utf8"

	"verifharness/vh"

	"github.com/ugorji/go/codec"
)

// ---- options ----

type EOpts struct{ Indef, RFC3339, Str2Raw, OptSize bool }
type DOpts struct {
	Signed, Raw2Str, SkipTags bool
	MaxDepth                  int
}

func (o EOpts) Coq() string {
	return fmt.Sprintf("(mkeo %s %s %s %s)", vh.CoqBool(o.Indef), vh.CoqBool(o.RFC3339), vh.CoqBool(o.Str2Raw), vh.CoqBool(o.OptSize))
}
func (o DOpts) Coq() string {
	return fmt.Sprintf("(mkdo %s %s %s %s)", vh.CoqBool(o.Signed), vh.CoqBool(o.Raw2Str), vh.CoqBool(o.SkipTags), vh.CoqZ(int64(o.MaxDepth)))
}
func (o EOpts) String() string {
	return fmt.Sprintf("IndefiniteLength=%v TimeRFC3339=%v StringToRaw=%v OptimumSize=%v", o.Indef, o.RFC3339, o.Str2Raw, o.OptSize)
}
func (o DOpts) String() string {
	return fmt.Sprintf("SignedInteger=%v RawToString=%v SkipUnexpectedTags=%v MaxDepth=%d", o.Signed, o.Raw2Str, o.SkipTags, o.MaxDepth)
}

func (o EOpts) handle() *codec.CborHandle {
	h := &codec.CborHandle{}
	h.IndefiniteLength = o.Indef
	h.TimeRFC3339 = o.RFC3339
	h.StringToRaw = o.Str2Raw
	h.OptimumSize = o.OptSize
	return h
}
func (o DOpts) handle() *codec.CborHandle {
	h := &codec.CborHandle{}
	h.SignedInteger = o.Signed
	h.RawToString = o.Raw2Str
	h.SkipUnexpectedTags = o.SkipTags
	h.MaxDepth = int16(o.MaxDepth)
	return h
}
func (o DOpts) maxdepth() int {
	if o.MaxDepth > 0 {
		return o.MaxDepth
	}
	return 1024
}

func randEOpts(r *vh.Rng) EOpts {
	return EOpts{r.Chance(1, 3), r.Chance(1, 3), r.Chance(1, 5), r.Chance(1, 3)}
}
func randDOpts(r *vh.Rng) DOpts {
	return DOpts{r.Chance(1, 3), r.Chance(1, 4), r.Chance(1, 4), r.PickInt(0, 0, 0, 2, 3, 4, 6)}
}

// ---- running the implementation under a watchdog ----

const (
	clsOK    = 0
	clsEOF   = 1
	clsOther = 2
	clsDepth = 4
	clsHang  = 9
	clsPanic = 11
	clsShape = 12 // decoded a value the harness cannot represent
)

type outcome struct {
	cls   int
	it    *Item
	nread int
	raw   []byte
}

func guarded(fn func() outcome) outcome {
	ch := make(chan outcome, 1)
	go func() {
		defer func() {
			if p := recover(); p != nil {
				ch <- outcome{cls: clsPanic}
			}
		}()
		ch <- fn()
	}()
	select {
	case o := <-ch:
		return o
	case <-time.After(3 * time.Second):
		return outcome{cls: clsHang}
	}
}

func decodeIface(D DOpts, b []byte) outcome {
	return guarded(func() outcome {
		var v interface{}
		d := codec.NewDecoderBytes(b, D.handle())
		err := d.Decode(&v)
		o := outcome{cls: codec.VerifErrClass(err), nread: d.NumBytesRead()}
		if err == nil {
			it, ok := FromGo(v)
			if !ok {
				o.cls = clsShape
			}
			o.it = it
		}
		return o
	})
}

type skipDst struct{ A int }

// skipField decodes {"x": <b>} into a struct without field x: the value is swallowed at depth 1.
func skipField(D DOpts, b []byte) outcome {
	in := append([]byte{0xa1, 0x61, 0x78}, b...)
	return guarded(func() outcome {
		var v skipDst
		d := codec.NewDecoderBytes(in, D.handle())
		err := d.Decode(&v)
		return outcome{cls: codec.VerifErrClass(err), nread: d.NumBytesRead() - 3}
	})
}

// rawCapture decodes into a codec.Raw: nextValueBytes at depth 0.
func rawCapture(D DOpts, b []byte) outcome {
	return guarded(func() outcome {
		var v codec.Raw
		d := codec.NewDecoderBytes(b, D.handle())
		err := d.Decode(&v)
		return outcome{cls: codec.VerifErrClass(err), nread: d.NumBytesRead(), raw: []byte(v)}
	})
}

// ---- expected data, computed independently of the implementation ----

func widenBits(b32 uint32) uint64 { return math.Float64bits(float64(math.Float32frombits(b32))) }

func roundUS(sec int64, nsec uint32) (int64, uint32) {
	r := nsec % 1000
	if r+r < 1000 {
		nsec -= r
	} else {
		nsec += 1000 - r
	}
	if nsec == 1000000000 {
		return sec + 1, 0
	}
	return sec, nsec
}

// normDec: what decoding a serialisation of [it] into interface{} must produce (nil = outside
// what the library documents as supported; the direct oracle is then not applied).
func normDec(it *Item, D DOpts, isKey bool) *Item {
	switch it.K {
	case KNil, KBool:
		return it
	case KInt:
		if it.I >= 0 && !D.Signed {
			return &Item{K: KUint, U: uint64(it.I)}
		}
		return it
	case KUint:
		if D.Signed {
			if it.U >= 1<<63 {
				return nil
			}
			return &Item{K: KInt, I: int64(it.U)}
		}
		return it
	case KF32:
		return &Item{K: KF64, Bits: widenBits(uint32(it.Bits))}
	case KF64:
		return it
	case KStr:
		return it
	case KBytes:
		if D.Raw2Str || isKey {
			return &Item{K: KStr, S: it.S}
		}
		return it
	case KArr:
		if isKey {
			return nil
		}
		out := &Item{K: KArr}
		for _, x := range it.L {
			n := normDec(x, D, false)
			if n == nil {
				return nil
			}
			out.L = append(out.L, n)
		}
		return out
	case KMap:
		if isKey {
			return nil
		}
		out := &Item{K: KMap}
		seen := map[string]bool{}
		for _, kv := range it.M {
			k := normDec(kv[0], D, true)
			v := normDec(kv[1], D, false)
			if k == nil || v == nil {
				return nil
			}
			c := keyCanon(k)
			if c == "" || seen[c] {
				return nil
			}
			seen[c] = true
			out.M = append(out.M, [2]*Item{k, v})
		}
		return out
	case KTag:
		if it.T <= 5 || it.T == 55799 {
			return nil
		}
		v := normDec(it.V, D, false)
		if v == nil {
			return nil
		}
		if D.SkipTags {
			if isKey && (v.K == KArr || v.K == KMap || v.K == KTag) {
				return nil
			}
			return v
		}
		if isKey {
			return nil
		}
		return &Item{K: KTag, T: it.T, V: v}
	case KTime:
		s, n := roundUS(it.Sec, it.Nsec)
		return &Item{K: KTime, Sec: s, Nsec: n}
	}
	return nil
}

// effective nesting as the decoder counts it
func effDepth(it *Item, D DOpts) int {
	m := 0
	switch it.K {
	case KArr:
		for _, x := range it.L {
			m = max(m, effDepth(x, D))
		}
		return m + 1
	case KMap:
		for _, kv := range it.M {
			m = max(m, effDepth(kv[0], D), effDepth(kv[1], D))
		}
		return m + 1
	case KTag:
		if D.SkipTags {
			return effDepth(it.V, D)
		}
		return effDepth(it.V, D) + 1
	}
	return 0
}

// what the encoder's input becomes on the wire, before decoding options apply
func wireItem(it *Item, O EOpts) *Item {
	switch it.K {
	case KStr:
		if O.Str2Raw {
			return &Item{K: KBytes, S: it.S}
		}
	case KArr:
		out := &Item{K: KArr}
		for _, x := range it.L {
			out.L = append(out.L, wireItem(x, O))
		}
		return out
	case KMap:
		out := &Item{K: KMap}
		for _, kv := range it.M {
			out.M = append(out.M, [2]*Item{wireItem(kv[0], O), wireItem(kv[1], O)})
		}
		return out
	case KTag:
		return &Item{K: KTag, T: it.T, V: wireItem(it.V, O)}
	case KTime:
		if it.Sec == minSec && it.Nsec == 0 {
			return &Item{K: KNil}
		}
	}
	return it
}

func sameData(a, b *Item) bool {
	ca, cb := canonNaNItem(a).Canon(), canonNaNItem(b).Canon()
	return ca == cb
}

func canonNaNItem(it *Item) *Item {
	switch it.K {
	case KF64:
		return &Item{K: KF64, Bits: canonNaN(it.Bits)}
	case KArr:
		out := &Item{K: KArr}
		for _, x := range it.L {
			out.L = append(out.L, canonNaNItem(x))
		}
		return out
	case KMap:
		out := &Item{K: KMap}
		for _, kv := range it.M {
			out.M = append(out.M, [2]*Item{canonNaNItem(kv[0]), canonNaNItem(kv[1])})
		}
		return out
	case KTag:
		return &Item{K: KTag, T: it.T, V: canonNaNItem(it.V)}
	}
	return it
}

// specOf: the data an RFC 8949 decoder must find in the encoding of [it] (reference decoder's vocabulary:
// non-negative integers are KUint, floats are doubles with one NaN)
func specEq(it *Item, O EOpts, got *Item) bool {
	switch it.K {
	case KNil:
		return got.K == KNil
	case KBool:
		return got.K == KBool && got.B == it.B
	case KInt:
		if it.I >= 0 {
			return got.K == KUint && got.U == uint64(it.I)
		}
		return got.K == KInt && got.I == it.I
	case KUint:
		return got.K == KUint && got.U == it.U
	case KF32:
		return got.K == KF64 && got.Bits == canonNaN(widenBits(uint32(it.Bits)))
	case KF64:
		return got.K == KF64 && got.Bits == canonNaN(it.Bits)
	case KStr:
		if O.Str2Raw {
			return got.K == KBytes && bytes.Equal(got.S, it.S)
		}
		return got.K == KStr && bytes.Equal(got.S, it.S)
	case KBytes:
		return got.K == KBytes && bytes.Equal(got.S, it.S)
	case KArr:
		if got.K != KArr || len(got.L) != len(it.L) {
			return false
		}
		for i := range it.L {
			if !specEq(it.L[i], O, got.L[i]) {
				return false
			}
		}
		return true
	case KMap:
		if got.K != KMap || len(got.M) != len(it.M) {
			return false
		}
		for i := range it.M {
			if !specEq(it.M[i][0], O, got.M[i][0]) || !specEq(it.M[i][1], O, got.M[i][1]) {
				return false
			}
		}
		return true
	case KTag:
		return got.K == KTag && got.T == it.T && specEq(it.V, O, got.V)
	case KTime:
		if it.Sec == minSec && it.Nsec == 0 {
			return got.K == KNil
		}
		if got.K != KTag {
			return false
		}
		if O.RFC3339 {
			if got.T != 0 || got.V.K != KStr {
				return false
			}
			t, err := time.Parse(time.RFC3339Nano, string(got.V.S))
			return err == nil && t.Unix() == it.Sec && uint32(t.Nanosecond()) == it.Nsec
		}
		if got.T != 1 {
			return false
		}
		s, n := roundUS(it.Sec, it.Nsec)
		switch got.V.K {
		case KUint:
			return n == 0 && s >= 0 && got.V.U == uint64(s)
		case KInt:
			return n == 0 && got.V.I == s
		case KF64:
			// epoch seconds as a float: must denote the instant to the microsecond (when a double can)
			f := math.Float64frombits(got.V.Bits)
			if f != f || math.IsInf(f, 0) {
				return false
			}
			if s > 1<<32 || s < -(1<<32) {
				return math.Abs(f-float64(s)) < 2
			}
			bf := new(big.Float).SetPrec(200).SetFloat64(f)
			bf.Mul(bf, big.NewFloat(1e6))
			bf.Add(bf, big.NewFloat(0.5))
			us, _ := bf.Int(nil)
			if bf.Sign() < 0 && !bf.IsInt() {
				us.Sub(us, big.NewInt(1))
			}
			want := new(big.Int).Mul(big.NewInt(s), big.NewInt(1000000))
			want.Add(want, big.NewInt(int64(n/1000)))
			return us.Cmp(want) == 0
		}
		return false
	}
	return false
}

// ---- streams ----

const coqHeader = "From Coq Require Import List NArith ZArith.\nFrom Verif Require Import Wire.Item Wire.Cbor Wire.CborCorr.\nImport ListNotations."

type ctx struct {
	r   *vh.Rng
	sum *vh.Summary
	cv  *vh.Cases
	id  int
}

func (c *ctx) next() int { c.id++; return c.id }

func lenClass(n int) string {
	switch {
	case n < 24:
		return "<24"
	case n < 256:
		return "<256"
	case n < 65536:
		return "<64k"
	}
	return ">=64k"
}

func encStream(c *ctx, n int) {
	r := c.r.Fork()
	for i := 0; i < n; i++ {
		O := randEOpts(r)
		g := GenOpts{MaxDepth: r.PickInt(0, 1, 2, 3), Times: true, Tags: true, F32: true, BigLens: true, SafeKeys: true, SubSecond: true}
		it := RandItem(r, g, 0)
		if i%5 == 3 { // multi-byte UTF-8 text, characters at every offset mod 4 (F10-4: chunks cut at rune starts)
			it = multibyteItem(r, i/5)
			O.Indef = i%10 != 8
		}
		if i%40 == 7 { // one long string now and then: the 65535/65536 head boundary
			it = &Item{K: KStr, S: randStrBytes(r, r.PickInt(65535, 65536), true)}
		}
		var out []byte
		oc := guarded(func() outcome {
			err := codec.NewEncoderBytes(&out, O.handle()).Encode(it.ToGo())
			return outcome{cls: codec.VerifErrClass(err)}
		})
		id := c.next()
		cj := map[string]interface{}{"opts": O.String(), "item": it.Canon(), "bytes": vh.Hex(out), "seed_index": i}
		if len(out) > 400 {
			cj["item"] = fmt.Sprintf("string of %d bytes", len(it.S))
			cj["bytes"] = vh.Hex(out[:16]) + "..."
		}
		if oc.cls != clsOK {
			c.sum.FailC("enc", fmt.Sprintf("encode-error:cls%d", oc.cls), "Encode of a supported value failed or hung", cj)
			continue
		}
		if len(out) < 5000 { // a 65536-element list literal overflows coqc's stack: such cases keep the direct oracles only
			c.cv.Add(fmt.Sprintf("CEnc %d %s %s %s", id, O.Coq(), it.Coq(), vh.CoqBytes(out)))
			c.sum.ModelCases++
		}
		// oracle 1: an RFC 8949 decoder reads exactly one item carrying the same data
		got, used, ok, chunksOK := RefDecodeChunks(out)
		switch {
		case ok && !chunksOK && utf8Item(it):
			c.sum.FailC("enc", "out:text-chunk-not-utf8:"+kindName(it), "a chunk of an indefinite-length text string is not valid UTF-8 (RFC 8949 3.2.3)", cj)
		case !ok:
			c.sum.FailC("enc", "out:not-well-formed:"+kindName(it), "library output is not a well-formed RFC 8949 item", cj)
		case used != len(out):
			c.sum.FailC("enc", "out:trailing-bytes:"+kindName(it), "library output has bytes after the item", cj)
		case !specEq(it, O, got):
			cj["ref_decoded"] = got.Canon()
			c.sum.FailC("enc", "out:data-differs:"+kindName(it), "reference decoder reads different data from the library's output", cj)
		}
		// oracle 2: Decode(Encode(v)) == norm v
		D := randDOpts(r)
		D.MaxDepth = 0
		if want := normDec(wireItem(it, O), D, false); want != nil && len(out) < 3000 && !hasSubUS(it) {
			o := decodeIface(D, out)
			cj["dopts"] = D.String()
			if o.cls != clsOK || o.nread != len(out) || !sameData(o.it, want) {
				cj["cls"] = o.cls
				if o.it != nil {
					cj["decoded"] = o.it.Canon()
				}
				cj["want"] = want.Canon()
				c.sum.FailC("enc", "roundtrip:"+kindName(it), "Decode(Encode(v)) differs from v (up to the documented normalisation)", cj)
			}
		}
		key := fmt.Sprintf("enc/%s/d%d/%s/%v", kindName(it), it.Depth(), lenClass(len(out)), O)
		if it.K == KNil || it.K == KBool {
			key = ""
		}
		c.sum.Count("enc."+kindName(it), key)
		if i < 2 {
			c.sum.Sample(cj)
		}
	}
}

// times with sub-microsecond parts or a float encoding lose precision by design: the round trip oracle
// applies to whole-microsecond instants within the range a double resolves to the microsecond
func hasSubUS(it *Item) bool {
	switch it.K {
	case KTime:
		return it.Nsec%1000 != 0 || it.Sec > 1<<32 || it.Sec < -(1<<32)
	case KArr:
		for _, x := range it.L {
			if hasSubUS(x) {
				return true
			}
		}
	case KMap:
		for _, kv := range it.M {
			if hasSubUS(kv[0]) || hasSubUS(kv[1]) {
				return true
			}
		}
	case KTag:
		return hasSubUS(it.V)
	}
	return false
}

var runes = []string{"a", "\u00e9", "\u20ac", "\U0001F600", "z", "\u00df", "\u4e2d"}

// multibyteItem: text whose multi-byte characters sit at every offset mod 4, long enough to be chunked
func multibyteItem(r *vh.Rng, k int) *Item {
	mk := func(prefix int, n int) *Item {
		var sb strings.Builder
		sb.WriteString(strings.Repeat("a", prefix))
		for sb.Len() < n {
			sb.WriteString(runes[r.Intn(len(runes))])
		}
		return &Item{K: KStr, S: []byte(sb.String())}
	}
	switch k % 3 {
	case 0:
		return mk(k%8, 12+r.Intn(40))
	case 1:
		s := strings.Repeat("a", k%4) + strings.Repeat([]string{"\u00e9", "\u20ac", "\U0001F600"}[(k/3)%3], 6+r.Intn(10))
		return &Item{K: KStr, S: []byte(s)}
	}
	return &Item{K: KArr, L: []*Item{mk(k%4, 20), mk((k+1)%4, 33), {K: KMap, M: [][2]*Item{{mk((k+2)%4, 17), mk((k+3)%4, 4200)}}}}}
}

func utf8Item(it *Item) bool {
	switch it.K {
	case KStr:
		return utf8.Valid(it.S)
	case KArr:
		for _, x := range it.L {
			if !utf8Item(x) {
				return false
			}
		}
	case KMap:
		for _, kv := range it.M {
			if !utf8Item(kv[0]) || !utf8Item(kv[1]) {
				return false
			}
		}
	case KTag:
		return utf8Item(it.V)
	}
	return true
}

func kindName(it *Item) string {
	return []string{"nil", "bool", "int", "uint", "f32", "f64", "str", "bytes", "arr", "map", "tag", "time"}[it.K]
}

// decCase runs Decode into interface{} and records the model case. want != nil: direct oracle.
func decCase(c *ctx, stream string, D DOpts, b []byte, want *Item, wantDepthErr bool, note string) outcome {
	o := decodeIface(D, b)
	id := c.next()
	tree := "INil"
	if o.cls == clsOK && o.it != nil {
		tree = o.it.Coq()
	}
	c.cv.Add(fmt.Sprintf("CDec %d %s %s %d %s %d", id, D.Coq(), vh.CoqBytes(b), o.cls, tree, o.nread))
	c.sum.ModelCases++
	cj := map[string]interface{}{"dopts": D.String(), "bytes": vh.Hex(b), "cls": o.cls, "note": note}
	if o.it != nil {
		cj["decoded"] = o.it.Canon()
	}
	first := "empty"
	if len(b) > 0 {
		first = fmt.Sprintf("major%d", b[0]>>5)
	}
	switch o.cls {
	case clsHang:
		c.sum.FailC(stream, "hang:decode-naked:"+first, "Decode into interface{} did not return within 3 s", cj)
	case clsPanic:
		c.sum.FailC(stream, "panic:decode-naked:"+first, "Decode into interface{} panicked instead of returning an error", cj)
	case clsShape:
		c.sum.FailC(stream, "shape:decode-naked:"+first, "Decode produced a value of an unexpected Go type", cj)
	}
	if want != nil && o.cls != clsHang && o.cls != clsPanic {
		if wantDepthErr {
			if o.cls != clsDepth {
				c.sum.FailC(stream, "in:depth:"+kindName(want), "nesting beyond MaxDepth was not rejected with the depth error", cj)
			}
		} else if o.cls != clsOK || o.nread != len(b) || !sameData(o.it, want) {
			cj["want"] = want.Canon()
			c.sum.FailC(stream, "in:data-differs:"+kindName(want), "a well-formed serialisation did not decode to the data RFC 8949 assigns to it", cj)
		}
	}
	return o
}

func decRefStream(c *ctx, n int, stats map[string]int) [][]byte {
	r := c.r.Fork()
	var valid [][]byte
	for i := 0; i < n; i++ {
		D := randDOpts(r)
		g := GenOpts{MaxDepth: r.PickInt(0, 1, 2, 3, 4), Times: r.Chance(1, 4), Tags: true, BigLens: true, SafeKeys: !r.Chance(1, 8)}
		it := RandItem(r, g, 0)
		b := RefEnc(r, it, true, stats)
		if len(b) > 2500 {
			continue
		}
		valid = append(valid, b)
		want := normDec(it, D, false)
		depthErr := effDepth(it, D) >= D.maxdepth()
		o := decCase(c, "dec.ref", D, b, want, depthErr, "reference encoding of "+clip(it.Canon()))
		key := fmt.Sprintf("ref/%s/d%d/%s/cls%d/%v", kindName(it), it.Depth(), lenClass(len(b)), o.cls, D)
		c.sum.Count("dec.ref."+kindName(it), key)
		c.sum.Dist[fmt.Sprintf("dec.ref.cls%d", o.cls)]++
		if i < 2 {
			c.sum.Sample(map[string]interface{}{"bytes": vh.Hex(b), "dopts": D.String(), "cls": o.cls})
		}
	}
	return valid
}

func clip(s string) string {
	if len(s) > 200 {
		return s[:200] + "..."
	}
	return s
}

func mutate(r *vh.Rng, b []byte) []byte {
	m := append([]byte{}, b...)
	if len(m) == 0 {
		return []byte{byte(r.U64())}
	}
	switch r.Intn(6) {
	case 0: // truncate
		return m[:r.Intn(len(m))]
	case 1: // change the additional information of one byte
		i := r.Intn(len(m))
		m[i] = m[i]&0xe0 | byte(r.Intn(32))
	case 2: // change the major type of one byte
		i := r.Intn(len(m))
		m[i] = m[i]&0x1f | byte(r.Intn(8))<<5
	case 3: // random byte
		m[r.Intn(len(m))] = byte(r.U64())
	case 4: // insert a break / a big length head
		i := r.Intn(len(m) + 1)
		ins := [][]byte{{0xff}, {0x9b, 0xff, 0xff, 0xff, 0xff, 0xff, 0xff, 0xff, 0xff}, {0x9b, 0xff, 0xff, 0xff, 0xff, 0x80, 0, 0, 0},
			{0x5b, 0xff, 0xff, 0xff, 0xff, 0xff, 0xff, 0xff, 0xf7}, {0xbb, 0x80, 0, 0, 0, 0, 0, 0, 0}, {0x7f}, {0x9f}, {0xbf}, {0xd9, 0xd9, 0xf7}, {0xc1}, {0xc2}, {0xf6}}[r.Intn(12)]
		m = append(m[:i], append(append([]byte{}, ins...), m[i:]...)...)
	default: // delete one byte
		i := r.Intn(len(m))
		m = append(m[:i], m[i+1:]...)
	}
	return m
}

func decHostileStream(c *ctx, valid [][]byte, nMut, nRand int) {
	r := c.r.Fork()
	for i := 0; i < nMut && len(valid) > 0; i++ {
		b := mutate(r, valid[r.Intn(len(valid))])
		D := randDOpts(r)
		o := decCase(c, "dec.mut", D, b, nil, false, "one mutation of a valid encoding")
		c.sum.Count("dec.mut", fmt.Sprintf("mut/cls%d/first%02x/len%d", o.cls, firstByte(b), min(len(b), 40)/4))
		c.sum.Dist[fmt.Sprintf("dec.mut.cls%d", o.cls)]++
	}
	for i := 0; i < nRand; i++ {
		b := r.Bytes(r.Intn(24))
		if r.Chance(1, 3) && len(b) > 0 { // bias the first byte towards containers and tags
			b[0] = []byte{0x81, 0x82, 0x9f, 0xa1, 0xbf, 0xc1, 0xc0, 0xc2, 0xd8, 0x5f, 0x7f, 0xfb, 0xf9, 0x98, 0xb8, 0x3b, 0x1b}[r.Intn(17)]
		}
		D := randDOpts(r)
		o := decCase(c, "dec.rand", D, b, nil, false, "random bytes")
		c.sum.Count("dec.rand", fmt.Sprintf("rand/cls%d/first%02x", o.cls, firstByte(b)))
		c.sum.Dist[fmt.Sprintf("dec.rand.cls%d", o.cls)]++
	}
}

// well-formed tagged numbers from RFC 8949 (bignums 3.4.3, decimal fraction / bigfloat 3.4.4): the library
// documents decoding them into a float64
var rfcTagged = []struct {
	hex  string
	want float64
}{
	{"c48221196ab3", 273.15},                         // 4([-2, 27315])
	{"c5822003", 1.5},                                // 5([-1, 3])
	{"c482010a", 100},                                // 4([1, 10])
	{"c58201390003", -8},                             // 5([1, -4])
	{"c249010000000000000000", 18446744073709551616}, // 2(h'010000000000000000')
	{"c349010000000000000000", -18446744073709551617},
	{"c24101", 1},
	{"c340", -1},
	{"c2588101"+strings.Repeat("00", 128), math.Inf(1)}, // 2^1024: overflow error
	{"c24105", 5},                                 // F02-5: was 16645
	{"c48219010001", 1e256},                       // F10-3: exponent was truncated to int8
	{"c482381c01", 1e-29},                         // F10-3: was "unexpected EOF"
	{"c4823901ff01", 0},                           // 10^-512 underflows
	{"c482181701", 1e23},
	{"c4821901f401", math.Inf(1)},                 // 10^500
	{"c482003b7fffffffffffffff", -9223372036854775808},
	{"c5821b7fffffffffffffff01", math.Inf(1)},     // F10-3: exponent wrapped inside big.Float, read as 0
	{"c5821b7fffffffffffffff20", math.Inf(-1)},
	{"c58239043203", 1e-323},                      // 3 * 2^-1075 rounds to 2 * 2^-1074
	{"c58239043201", 0},                           // tie to even: 0
	{"c5821903e801", 1.0715086071862673e+301},     // 2^1000
}

// tag 1 (epoch-based date/time) at the edges of what a time.Time can hold (F10-2): ok = must decode
var epochEdges = []struct {
	hex string
	ok  bool
}{
	{"c11bbb80000000000000", false}, // uint64 >= 2^63
	{"c11b8000000000000000", false},
	{"c11bffffffffffffffff", false},
	{"c11b7fffffffffffffff", false}, // 2^63-1
	{"c11b4000000000000000", true},  // 2^62
	{"c11b4000000000000001", true},  // 2^62+1: float64 rounds it to 2^62
	{"c11b4000000000000400", false}, // 2^62+1024
	{"c11b3fffffffffffffff", true},
	{"c13b3fffffffffffffff", true},  // -2^62
	{"c13b4000000000000000", true},  // -2^62-1: float64 rounds it to -2^62
	{"c13b4000000000000400", false},
	{"c13b7fffffffffffffff", false}, // -2^63
	{"c13bffffffffffffffff", false}, // -2^64
	{"c1fb43d0000000000000", true},  // 2^62 as a double
	{"c1fb43d0000000000001", false},
	{"c1fbc3d0000000000000", true},
	{"c1fbc3d0000000000001", false},
	{"c1fb7fefffffffffffff", false}, // MaxFloat64
	{"c1fbffefffffffffffff", false},
	{"c1fa7f7fffff", false},         // MaxFloat32
	{"c1fb7ff8000000000000", false}, // NaN
	{"c1f97e00", false},
	{"c1fa7fc00000", false},
	{"c1f97c00", false},             // +Inf
	{"c1f9fc00", false},             // -Inf
	{"c1fb7ff0000000000000", false},
	{"c1fbfff0000000000000", false},
	{"c1fb41d0000000000000", true},  // 2^30
	{"c1fbc1e0000000200000", true},  // -2^31 - 1
	{"c100", true},
	{"c120", true},
	{"c1f6", true},                  // nil: the epoch itself
	{"8201c11bbb80000000000000", false},
}

func epochStream(c *ctx) {
	for _, e := range epochEdges {
		b := unhex(e.hex)
		for _, D := range []DOpts{{}, {SkipTags: true}, {Signed: true}} {
			o := decCase(c, "dec.epoch", D, b, nil, false, "tag 1 at the edge of the time.Time range")
			cj := map[string]interface{}{"bytes": e.hex, "cls": o.cls, "dopts": D.String()}
			if o.it != nil {
				cj["decoded"] = o.it.Canon()
			}
			if e.ok && o.cls != clsOK {
				c.sum.FailC("dec.epoch", "in:epoch:rejected", "an epoch within +-2^62 seconds was not decoded", cj)
			}
			if !e.ok && o.cls != clsOther {
				c.sum.FailC("dec.epoch", "in:epoch:out-of-range-accepted", "epoch seconds beyond what time.Time can hold (or NaN / Inf) did not give an error", cj)
			}
			c.sum.Count("dec.epoch", fmt.Sprintf("epoch/%s/%v", e.hex, D))
		}
	}
}

func rfcStream(c *ctx) {
	for _, e := range rfcTagged {
		b := unhex(e.hex)
		o := decCase(c, "dec.rfc", DOpts{}, b, nil, false, "RFC 8949 tagged number")
		cj := map[string]interface{}{"bytes": e.hex, "cls": o.cls, "want": fmt.Sprintf("f64:%016x", math.Float64bits(e.want))}
		if o.it != nil {
			cj["decoded"] = o.it.Canon()
		}
		bad := o.cls != clsOK || o.it == nil || o.it.K != KF64 || o.it.Bits != math.Float64bits(e.want) || o.nread != len(b)
		if math.IsInf(e.want, 0) { // a finite number beyond the float64 range: an overflow error, not an infinity
			bad = o.cls != clsOther
		}
		if bad {
			c.sum.FailC("dec.rfc", fmt.Sprintf("in:tagged-number:tag%d", b[0]&0x1f), "a well-formed bignum / decimal fraction / bigfloat did not decode to its value", cj)
		}
		c.sum.Count("dec.rfc", "rfc/"+e.hex)
	}
}

// random decimal fractions / bigfloats: the value is computed exactly (big.Rat) and rounded once
func taggedRandStream(c *ctx, n int) {
	r := c.r.Fork()
	intHead := func(v int64) []byte {
		if v < 0 {
			return refHead(1, uint64(-1-v), anyWidth(r, uint64(-1-v), true))
		}
		return refHead(0, uint64(v), anyWidth(r, uint64(v), true))
	}
	// deterministic part (quick tier too): 54..63-bit mantissas with exponents -22..22, where a
	// float multiply / divide by a power of ten rounds twice
	type em struct {
		tag       byte
		exp, mant int64
	}
	var fixed []em
	for e := int64(-22); e <= 22; e++ {
		for _, m := range []int64{1<<53 + 1, 1<<54 + 3, -(1<<57 + 5), 1<<60 + 7, 1<<63 - 1, int64(r.U64()>>1) | 1<<62 | 1} {
			fixed = append(fixed, em{4, e, m})
		}
		fixed = append(fixed, em{5, e, 1<<63 - 1}, em{5, e - 1060, 1<<62 + 1})
	}
	for i := 0; i < n+len(fixed); i++ {
		tag := byte(4 + r.Intn(2))
		var exp int64
		if tag == 4 {
			exp = int64(r.PickInt(0, 1, -1, 22, 23, -22, -23, 37, 127, 128, -128, -129, 255, 256, 308, 309, -323, -324, -343, 400, -400)) + int64(r.Intn(3)) - 1
			if r.Chance(1, 3) {
				exp = int64(r.Intn(700)) - 350
			}
		} else {
			exp = int64(r.PickInt(0, 1, -1, 52, 53, 63, 64, 970, 971, 1023, 1024, -1022, -1023, -1074, -1075, -1076, -1137, -1138, 2000, -2000)) + int64(r.Intn(3)) - 1
			if r.Chance(1, 3) {
				exp = int64(r.Intn(2400)) - 1200
			}
		}
		mant := int64(randU64(r))
		if r.Chance(1, 3) {
			mant = int64(r.Intn(2000)) - 1000
		}
		if i < len(fixed) {
			tag, exp, mant = fixed[i].tag, fixed[i].exp, fixed[i].mant
		}
		b := append([]byte{0xc0 | tag, 0x82}, intHead(exp)...)
		b = append(b, intHead(mant)...)
		base := big.NewInt(10)
		if tag == 5 {
			base = big.NewInt(2)
		}
		pw := new(big.Int).Exp(base, big.NewInt(abs64(exp)), nil)
		q := new(big.Rat).SetInt(big.NewInt(mant))
		if exp >= 0 {
			q.Mul(q, new(big.Rat).SetInt(pw))
		} else {
			q.Quo(q, new(big.Rat).SetInt(pw))
		}
		want, _ := q.Float64()
		o := decCase(c, "dec.rfc", DOpts{}, b, nil, false, "random decimal fraction / bigfloat")
		cj := map[string]interface{}{"bytes": vh.Hex(b), "cls": o.cls, "exp": exp, "mant": mant, "want": fmt.Sprintf("f64:%016x", math.Float64bits(want))}
		if o.it != nil {
			cj["decoded"] = o.it.Canon()
		}
		bad := o.cls != clsOK || o.it == nil || o.it.K != KF64 || (math.Float64frombits(o.it.Bits) != want) || o.nread != len(b)
		if math.IsInf(want, 0) {
			bad = o.cls != clsOther
		}
		if bad {
			c.sum.FailC("dec.rfc", fmt.Sprintf("in:tagged-number:tag%d", tag), "a well-formed bignum / decimal fraction / bigfloat did not decode to its value", cj)
		}
		c.sum.Count("dec.rfc", fmt.Sprintf("rfcrand/%d/%d/%d", tag, exp, min(63, bitsLen(mant))))
	}
}

func abs64(v int64) int64 {
	if v < 0 {
		return -v
	}
	return v
}

func bitsLen(v int64) int {
	n := 0
	for u := uint64(abs64(v)); u != 0; u >>= 1 {
		n++
	}
	return n
}

func unhex(s string) []byte {
	b := make([]byte, len(s)/2)
	fmt.Sscanf(s, "%x", &b)
	return b
}

// ---- transport independence: the same bytes through ZeroCopy / io.Reader must give the same data ----

type oneByteReader struct {
	b []byte
	i int
}

func (r *oneByteReader) Read(p []byte) (int, error) {
	if r.i >= len(r.b) {
		return 0, io.EOF
	}
	if len(p) == 0 {
		return 0, nil
	}
	p[0] = r.b[r.i]
	r.i++
	return 1, nil
}

type transport struct {
	name string
	run  func(D DOpts, b []byte) outcome
}

func decodeVia(mk func(h *codec.CborHandle, b []byte) *codec.Decoder) func(D DOpts, b []byte) outcome {
	return func(D DOpts, b []byte) outcome {
		return guarded(func() outcome {
			var v interface{}
			h := D.handle()
			d := mk(h, append([]byte{}, b...))
			err := d.Decode(&v)
			o := outcome{cls: codec.VerifErrClass(err)}
			if err == nil {
				it, ok := FromGo(v)
				if !ok {
					o.cls = clsShape
				}
				o.it = it
			}
			return o
		})
	}
}

var transports = []transport{
	{"bytes-zerocopy", decodeVia(func(h *codec.CborHandle, b []byte) *codec.Decoder {
		h.ZeroCopy = true
		return codec.NewDecoderBytes(b, h)
	})},
	{"io-unbuffered", decodeVia(func(h *codec.CborHandle, b []byte) *codec.Decoder {
		return codec.NewDecoder(bytes.NewReader(b), h)
	})},
	{"io-unbuffered-1byte", decodeVia(func(h *codec.CborHandle, b []byte) *codec.Decoder {
		return codec.NewDecoder(&oneByteReader{b: b}, h)
	})},
	{"io-buffer16-1byte", decodeVia(func(h *codec.CborHandle, b []byte) *codec.Decoder {
		h.ReaderBufferSize = 16
		return codec.NewDecoder(&oneByteReader{b: b}, h)
	})},
	{"io-buffer4096", decodeVia(func(h *codec.CborHandle, b []byte) *codec.Decoder {
		h.ReaderBufferSize = 4096
		return codec.NewDecoder(bytes.NewReader(b), h)
	})},
}

// items holding several strings: what a shared scratch buffer would corrupt
func stringyItem(r *vh.Rng) *Item {
	str := func() *Item {
		k := KStr
		if r.Chance(1, 3) {
			k = KBytes
		}
		return &Item{K: k, S: randStrBytes(r, 1+r.Intn(12), true)}
	}
	switch r.Intn(3) {
	case 0:
		it := &Item{K: KArr}
		for i, n := 0, 2+r.Intn(4); i < n; i++ {
			it.L = append(it.L, str())
		}
		return it
	case 1:
		it := &Item{K: KMap}
		seen := map[string]bool{}
		for i, n := 0, 2+r.Intn(3); i < n; i++ {
			k := str()
			if seen[string(k.S)] {
				continue
			}
			seen[string(k.S)] = true
			it.M = append(it.M, [2]*Item{k, str()})
		}
		return it
	}
	return &Item{K: KArr, L: []*Item{str(), {K: KArr, L: []*Item{str(), str()}}, {K: KTag, T: 100, V: str()}, str()}}
}

func transportStream(c *ctx, n int, stats map[string]int) {
	r := c.r.Fork()
	for i := 0; i < n; i++ {
		var it *Item
		if r.Chance(2, 3) {
			it = stringyItem(r)
		} else {
			it = RandItem(r, GenOpts{MaxDepth: r.PickInt(1, 2, 3), Tags: true, BigLens: true, SafeKeys: true}, 0)
		}
		refForceChunked = r.Chance(2, 3)
		b := RefEnc(r, it, true, stats)
		refForceChunked = false
		if len(b) > 2500 {
			continue
		}
		D := randDOpts(r)
		D.MaxDepth = 0
		want := normDec(it, D, false)
		base := decodeIface(D, b)
		for _, tr := range transports {
			o := tr.run(D, b)
			cj := map[string]interface{}{"transport": tr.name, "dopts": D.String(), "bytes": vh.Hex(b), "cls": o.cls, "item": clip(it.Canon())}
			if o.it != nil {
				cj["decoded"] = clip(o.it.Canon())
			}
			switch {
			case o.cls == clsHang:
				c.sum.FailC("transport", "hang:"+tr.name, "Decode did not return within 3 s", cj)
			case o.cls == clsPanic:
				c.sum.FailC("transport", "panic:"+tr.name, "Decode panicked instead of returning an error", cj)
			case want != nil && (o.cls != clsOK || !sameData(o.it, want)):
				cj["want"] = clip(want.Canon())
				c.sum.FailC("transport", "data-differs:"+tr.name+":"+kindName(it), "a well-formed serialisation did not decode to the data RFC 8949 assigns to it through this transport", cj)
			case o.cls != base.cls || (o.cls == clsOK && !sameData(o.it, base.it)):
				c.sum.FailC("transport", "depends-on-transport:"+tr.name+":"+kindName(it), "the decoded value depends on how the bytes are delivered", cj)
			}
			c.sum.Count("transport."+tr.name, fmt.Sprintf("tr/%s/%s/cls%d/%s", tr.name, kindName(it), o.cls, lenClass(len(b))))
		}
	}
}

func firstByte(b []byte) int {
	if len(b) == 0 {
		return -1
	}
	return int(b[0])
}

// every first byte, followed by (a) nothing, (b) zeros, (c) small valid items, (d) random bytes
func firstByteStream(c *ctx, per int) {
	r := c.r.Fork()
	tails := [][]byte{{}, {0, 0, 0, 0, 0, 0, 0, 0, 0, 0}, {0x01, 0x02, 0x03, 0x04, 0x05, 0x06, 0x07, 0x08, 0x09, 0xff}, {0x61, 0x61, 0x01, 0x61, 0x62, 0x02, 0xff, 0xff, 0xff}}
	for fb := 0; fb < 256; fb++ {
		for k := 0; k < per; k++ {
			var tail []byte
			if k < len(tails) {
				tail = tails[k]
			} else {
				tail = r.Bytes(10)
			}
			b := append([]byte{byte(fb)}, tail...)
			D := randDOpts(r)
			if k == 0 {
				D = DOpts{}
			}
			o := decCase(c, "dec.first", D, b, nil, false, "first byte sweep")
			c.sum.Count("dec.first", fmt.Sprintf("first/%02x/cls%d", fb, o.cls))
			so := skipCase(c, D, 0, b)
			c.sum.Count("skip.first", fmt.Sprintf("skipfirst/%02x/cls%d", fb, so.cls))
		}
	}
}

func skipCase(c *ctx, D DOpts, depth int, b []byte) outcome {
	var o outcome
	if depth == 0 {
		o = rawCapture(D, b)
	} else {
		o = skipField(D, b)
	}
	id := c.next()
	c.cv.Add(fmt.Sprintf("CSkip %d %s %s %s %d %d", id, D.Coq(), vh.CoqZ(int64(depth)), vh.CoqBytes(b), o.cls, max(o.nread, 0)))
	c.sum.ModelCases++
	cj := map[string]interface{}{"dopts": D.String(), "bytes": vh.Hex(b), "cls": o.cls, "depth": depth}
	first := "empty"
	if len(b) > 0 {
		first = fmt.Sprintf("major%d", b[0]>>5)
	}
	switch o.cls {
	case clsHang:
		c.sum.FailC("skip", "hang:next-value-bytes:"+first, "skipping a value did not return within 3 s", cj)
	case clsPanic:
		c.sum.FailC("skip", "panic:next-value-bytes:"+first, "skipping a value panicked instead of returning an error", cj)
	}
	if depth == 0 && o.cls == clsOK && !bytes.Equal(o.raw, b[:min(o.nread, len(b))]) {
		c.sum.FailC("skip", "raw:capture-differs:"+first, "Raw does not hold exactly the bytes consumed", cj)
	}
	return o
}

func skipStream(c *ctx, valid [][]byte, n int) {
	r := c.r.Fork()
	for i := 0; i < n && len(valid) > 0; i++ {
		b := valid[r.Intn(len(valid))]
		D := randDOpts(r)
		mutated := r.Chance(1, 3)
		if mutated {
			b = mutate(r, b)
		} else if r.Chance(1, 2) {
			b = append(append([]byte{}, b...), r.Bytes(r.Intn(4))...) // trailing bytes must not be touched
		}
		depth := r.Intn(2)
		o := skipCase(c, D, depth, b)
		if !mutated {
			// a well-formed item is skipped exactly (C11 at the wire level) unless the nesting is too deep
			_, used, ok := RefDecode(b)
			if ok && o.cls == clsOK && o.nread != used {
				c.sum.FailC("skip", fmt.Sprintf("extent:major%d", b[0]>>5), "the skipped extent of a well-formed item differs from the item's length",
					map[string]interface{}{"dopts": D.String(), "bytes": vh.Hex(b), "skipped": o.nread, "item_length": used, "depth": depth})
			}
		}
		c.sum.Count("skip", fmt.Sprintf("skip/d%d/cls%d/first%02x/%s", depth, o.cls, firstByte(b), lenClass(len(b))))
		c.sum.Dist[fmt.Sprintf("skip.cls%d", o.cls)]++
	}
	// the F02-1 family: a length that wraps the cursor
	for _, hx := range [][]byte{
		{0x9b, 0xff, 0xff, 0xff, 0xff, 0xff, 0xff, 0xff, 0xff, 0x5b, 0xff, 0xff, 0xff, 0xff, 0xff, 0xff, 0xff, 0xf7, 0xf7},
		{0x5b, 0xff, 0xff, 0xff, 0xff, 0xff, 0xff, 0xff, 0xf7},
		{0x7b, 0xff, 0xff, 0xff, 0xff, 0xff, 0xff, 0xff, 0xfc},
		{0x5f, 0x5b, 0xff, 0xff, 0xff, 0xff, 0xff, 0xff, 0xff, 0xfd, 0xff},
		{0x82, 0x01, 0x5b, 0xff, 0xff, 0xff, 0xff, 0xff, 0xff, 0xff, 0xfe},
	} {
		for depth := 0; depth < 2; depth++ {
			o := skipCase(c, DOpts{}, depth, hx)
			if o.cls == clsOK {
				c.sum.FailC("skip", "wrap:skip-length", "a string length larger than the input was skipped without error",
					map[string]interface{}{"bytes": vh.Hex(hx), "depth": depth, "nread": o.nread})
			}
			c.sum.Count("skip.wrap", fmt.Sprintf("wrap/%x/%d", hx[:2], depth))
		}
	}
}

func u64list(xs ...uint64) string {
	s := make([]string, len(xs))
	for i, x := range xs {
		s[i] = fmt.Sprintf("%d", x)
	}
	return "[" + strings.Join(s, ";") + "]%N"
}

func leafStream(c *ctx, n int) {
	r := c.r.Fork()
	// all 65536 half floats, 256 per case; direct oracle: RFC 8949 Appendix D
	for hi := 0; hi < 256; hi++ {
		outs := make([]uint64, 256)
		for lo := 0; lo < 256; lo++ {
			h := uint16(hi<<8 | lo)
			got := codec.VerifHalfFloatToFloatBits(h)
			outs[lo] = uint64(got)
			if want := refHalfToF32(h); got != want {
				c.sum.FailC("leaf", "half:to-float32", "halfFloatToFloatBits differs from RFC 8949 Appendix D",
					map[string]interface{}{"half": fmt.Sprintf("%04x", h), "got": fmt.Sprintf("%08x", got), "want": fmt.Sprintf("%08x", want)})
			}
		}
		c.cv.Add(fmt.Sprintf("CHalf %d %d %s", c.next(), hi, u64list(outs...)))
		c.sum.ModelCases++
		c.sum.Count("leaf.half", fmt.Sprintf("half/%02x", hi))
	}
	finite := func() uint64 {
		for {
			b := randF64Bits(r)
			if (b>>52)&0x7ff != 0x7ff {
				return b
			}
		}
	}
	for i := 0; i < n; i++ {
		fn := 1 + r.Intn(9)
		var args []uint64
		var out uint64
		switch fn {
		case 1:
			x := randF32Bits(r)
			args, out = []uint64{uint64(x)}, uint64(codec.VerifFloatToHalfFloatBits(x))
		case 2:
			x := randF32Bits(r)
			args, out = []uint64{uint64(x)}, widenBits(x)
		case 3:
			x := randF64Bits(r)
			args, out = []uint64{x}, uint64(math.Float32bits(float32(math.Float64frombits(x))))
		case 4:
			x := int64(randU64(r))
			args, out = []uint64{uint64(x)}, math.Float64bits(float64(x))
		case 5:
			a, b := finite(), finite()
			if r.Bool() {
				a, b = math.Float64bits(float64(int64(randU64(r)>>uint(r.Intn(40))))), math.Float64bits(float64(r.Intn(1000000000))/1e9)
			}
			args, out = []uint64{a, b}, math.Float64bits(math.Float64frombits(a)+math.Float64frombits(b))
		case 6:
			a := math.Float64bits(float64(r.Intn(1000000000)))
			args, out = []uint64{a, math.Float64bits(1e9)}, math.Float64bits(math.Float64frombits(a)/1e9)
		case 7:
			a := finite()
			if r.Bool() {
				a = math.Float64bits(float64(r.Intn(1000000000)) / 1e9)
			}
			args, out = []uint64{a, math.Float64bits(1e9)}, math.Float64bits(math.Float64frombits(a)*1e9)
		case 8:
			a := finite()
			ip, _ := math.Modf(math.Float64frombits(a))
			args, out = []uint64{a}, math.Float64bits(ip)
		case 9:
			a := randF64Bits(r)
			args, out = []uint64{a}, uint64(int64(math.Float64frombits(a)))
		}
		c.cv.Add(fmt.Sprintf("CLeaf %d %d %s %d", c.next(), fn, u64list(args...), out))
		c.sum.ModelCases++
		c.sum.Count(fmt.Sprintf("leaf.fn%d", fn), fmt.Sprintf("leaf/%d/%x", fn, args))
	}
}

// ---- deep nesting in a subprocess ----

type deepCase struct {
	name     string
	skiptags bool
	mode     string // iface | field
	prefix   []byte
	unit     []byte
	count    int
	suffix   []byte
	wantCls  int
}

var deepCases = []deepCase{
	{"F14-2:tags-naked", false, "iface", nil, []byte{0xc6}, 3000000, []byte{0x01}, clsDepth},
	{"F14-2:tags-skipped", true, "iface", nil, []byte{0xc6}, 3000000, []byte{0x01}, clsOK},
	{"F14-2:selfdescribe-tags", false, "iface", nil, []byte{0xd9, 0xd9, 0xf7}, 1500000, []byte{0x01}, clsOK},
	{"F14-3:len-minint32", false, "iface", nil, []byte{0x9b, 0xff, 0xff, 0xff, 0xff, 0x80, 0x00, 0x00, 0x00}, 400000, []byte{0x01}, clsOther},
	{"F14-3:len-negative", false, "iface", nil, []byte{0x9b, 0xff, 0xff, 0xff, 0xff, 0xff, 0xff, 0xff, 0xf0}, 400000, []byte{0x01}, clsOther},
	{"F14-1:skip-arrays", false, "field", []byte{0xa1, 0x61, 0x78}, []byte{0x81}, 3000000, []byte{0x01}, clsDepth},
	{"F14-1:skip-tags", false, "field", []byte{0xa1, 0x61, 0x78}, []byte{0xc6}, 3000000, []byte{0x01}, clsDepth},
	{"F14-1:skip-indef-maps", false, "field", []byte{0xa1, 0x61, 0x78}, []byte{0xbf}, 3000000, []byte{0x01}, clsDepth},
	{"arrays-naked", false, "iface", nil, []byte{0x81}, 3000000, []byte{0x01}, clsDepth},
	{"maps-naked", false, "iface", nil, []byte{0xa1, 0x01}, 1500000, []byte{0x01}, clsDepth},
}

func childMain(name string) {
	debug.SetMaxStack(64 << 20)
	for _, dc := range deepCases {
		if dc.name != name {
			continue
		}
		b := append([]byte{}, dc.prefix...)
		b = append(b, bytes.Repeat(dc.unit, dc.count)...)
		b = append(b, dc.suffix...)
		h := DOpts{SkipTags: dc.skiptags}.handle()
		d := codec.NewDecoderBytes(b, h)
		var err error
		if dc.mode == "iface" {
			var v interface{}
			err = d.Decode(&v)
		} else {
			var v skipDst
			err = d.Decode(&v)
		}
		fmt.Printf("CHILD cls=%d\n", codec.VerifErrClass(err))
		os.Exit(0)
	}
	os.Exit(3)
}

func deepStream(c *ctx) {
	for _, dc := range deepCases {
		cmd := exec.Command(os.Args[0], "-child", dc.name)
		var out bytes.Buffer
		cmd.Stdout = &out
		cmd.Stderr = &out
		done := make(chan error, 1)
		if err := cmd.Start(); err != nil {
			c.sum.FailC("deep", "harness:cannot-start-child", "cannot start the subprocess", map[string]interface{}{"case": dc.name})
			continue
		}
		go func() { done <- cmd.Wait() }()
		var err error
		timedOut := false
		select {
		case err = <-done:
		case <-time.After(60 * time.Second):
			cmd.Process.Kill()
			timedOut = true
		}
		cj := map[string]interface{}{"case": dc.name, "mode": dc.mode, "prefix": vh.Hex(dc.prefix), "unit": vh.Hex(dc.unit), "count": dc.count, "suffix": vh.Hex(dc.suffix), "skiptags": dc.skiptags}
		s := out.String()
		switch {
		case timedOut:
			c.sum.FailC("deep", "hang:"+dc.name, "decoding a repeated descriptor did not finish within 60 s", cj)
		case err != nil:
			if strings.Contains(s, "stack exceeds") || strings.Contains(s, "stack overflow") {
				c.sum.FailC("deep", "stack:"+dc.name, "nesting controlled by input size exhausted the stack (fatal, unrecoverable)", cj)
			} else {
				cj["output"] = clip(s)
				c.sum.FailC("deep", "fatal:"+dc.name, "the subprocess died", cj)
			}
		case !strings.Contains(s, fmt.Sprintf("CHILD cls=%d", dc.wantCls)):
			cj["output"] = clip(s)
			c.sum.FailC("deep", "outcome:"+dc.name, "unexpected outcome class for a deeply nested input", cj)
		}
		c.sum.Count("deep", "deep/"+dc.name)
	}
}

func main() {
	nEnc := flag.Int("enc", 400, "encode cases")
	nRef := flag.Int("ref", 400, "reference-encoded decode cases")
	nMut := flag.Int("mut", 300, "mutated decode cases")
	nRand := flag.Int("rand", 300, "random-bytes decode cases")
	nFirst := flag.Int("first", 3, "cases per first byte")
	nSkip := flag.Int("skip", 300, "skip cases")
	nLeaf := flag.Int("leaf", 300, "float leaf cases")
	nTransport := flag.Int("transport", 200, "transport-independence cases (x5 transports)")
	nVU := flag.Int("vu", 500, "ValidateUnicode cases")
	nDup := flag.Int("dup", 300, "repeated-map-key cases")
	deep := flag.Bool("deep", true, "run the deep-nesting subprocess cases")
	child := flag.String("child", "", "(internal) run one deep case")
	cases := flag.String("cases", "/verif/build/wcbor/cases_wirecbor", "directory for the model case files")
	flag.Parse()
	if *child != "" {
		childMain(*child)
		return
	}
	r := vh.NewRng(vh.SeedFromEnv())
	sum := vh.NewSummary("enc: random item trees (all 13 constructors but IExt; depth <= 3; lengths around 23/24, 255/256, 65535/65536; boundary integers and floats) x 16 encoder option vectors, distinct by (kind, depth, length class, options); " +
		"dec: reference-encoded alternatives (non-minimal heads, indefinite strings/arrays/maps, half/single floats, undefined) / one mutation / random bytes / all 256 first bytes x tails, distinct by (kind or first byte, outcome class, length class, options); " +
		"skip: Raw capture and unknown-field skip on valid, mutated and cursor-wrapping inputs, distinct by (depth, outcome class, first byte); " +
		"vu: well-/ill-formed UTF-8 (truncated, overlong, surrogates, > U+10FFFF) as text / chunked text cut at or inside characters / byte strings, in values, elements, map keys, tag 0 / 2 / other content, decoded with ValidateUnicode on, vs model dec_naked_vu and the sound / accepts / rejects oracles, distinct by (position, form, kind, cut, outcome, options); " +
		"dup: maps with repeated keys (same integer in several widths, text vs byte-string key, +0/-0, NaN, times; nested) under MapValueReset / InterfaceReset vs model dec_naked_dup and the last-value-wins oracle, distinct by (size, depth, outcome, options); " +
		"leaf: all 65536 half floats + float conversions, distinct by input; transport: reference-encoded items (mostly several chunked strings per item) decoded through []byte+ZeroCopy and io.Reader (unbuffered, 1-byte reads, 16 B and 4 KB buffers) vs the spec data and the []byte result; deep: 10 repeated-descriptor inputs of 3-4.5 MB in a subprocess with a 64 MB stack cap. Trivial = nil/bool encode cases")
	c := &ctx{r: r, sum: sum}
	c.cv = vh.NewCases(*cases, coqHeader, "case", "mismatches", 40)
	stats := map[string]int{}
	encStream(c, *nEnc)
	valid := decRefStream(c, *nRef, stats)
	decHostileStream(c, valid, *nMut, *nRand)
	firstByteStream(c, *nFirst)
	rfcStream(c)
	taggedRandStream(c, *nLeaf/3)
	epochStream(c)
	skipStream(c, valid, *nSkip)
	leafStream(c, *nLeaf)
	vuStream(c, *nVU)
	dupStream(c, *nDup)
	c.cv.Close()
	transportStream(c, *nTransport, stats)
	if *deep {
		deepStream(c)
	}
	for k, v := range stats {
		sum.Dist[k] += v
	}
	sum.Print()
	os.Exit(0)
}

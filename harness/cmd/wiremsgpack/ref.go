package main

// Reference MessagePack encoder and decoder written from the specification
// (https://github.com/msgpack/msgpack/blob/master/spec.md), independent of the library.
// The encoder chooses among ALL serialisations the specification permits for a value.

import (
	"encoding/binary"
	"errors"
	"math"

	"verifharness/vh"
)

func be(n int, v uint64) []byte {
	b := make([]byte, 8)
	binary.BigEndian.PutUint64(b, v)
	return b[8-n:]
}

// chooser picks one of n alternatives (n >= 1).
type chooser func(n int) int

func minimalChoice(n int) int { return 0 }

// intForms lists every format that can carry the integer (neg ? -(2^64-mag) : mag).
func intForms(neg bool, mag uint64) [][]byte {
	var out [][]byte
	if !neg {
		v := mag
		if v <= 0x7f {
			out = append(out, []byte{byte(v)})
		}
		if v <= 0xff {
			out = append(out, append([]byte{0xcc}, be(1, v)...))
		}
		if v <= 0xffff {
			out = append(out, append([]byte{0xcd}, be(2, v)...))
		}
		if v <= 0xffffffff {
			out = append(out, append([]byte{0xce}, be(4, v)...))
		}
		out = append(out, append([]byte{0xcf}, be(8, v)...))
		if v <= 0x7f {
			out = append(out, append([]byte{0xd0}, be(1, v)...))
		}
		if v <= 0x7fff {
			out = append(out, append([]byte{0xd1}, be(2, v)...))
		}
		if v <= 0x7fffffff {
			out = append(out, append([]byte{0xd2}, be(4, v)...))
		}
		if v <= 0x7fffffffffffffff {
			out = append(out, append([]byte{0xd3}, be(8, v)...))
		}
		return out
	}
	s := int64(mag) // negative
	if s >= -32 {
		out = append(out, []byte{byte(s)})
	}
	if s >= -128 {
		out = append(out, append([]byte{0xd0}, be(1, mag)...))
	}
	if s >= -32768 {
		out = append(out, append([]byte{0xd1}, be(2, mag)...))
	}
	if s >= -2147483648 {
		out = append(out, append([]byte{0xd2}, be(4, mag)...))
	}
	out = append(out, append([]byte{0xd3}, be(8, mag)...))
	return out
}

// lenHeads: every head that can announce n for the family (fix/8/16/32); zero entries are absent forms.
func lenHeads(n int, fixBase byte, fixMax int, b8, b16, b32 byte) [][]byte {
	var out [][]byte
	if fixMax > 0 && n <= fixMax {
		out = append(out, []byte{fixBase | byte(n)})
	}
	if b8 != 0 && n <= 0xff {
		out = append(out, []byte{b8, byte(n)})
	}
	if n <= 0xffff {
		out = append(out, append([]byte{b16}, be(2, uint64(n))...))
	}
	out = append(out, append([]byte{b32}, be(4, uint64(n))...))
	return out
}

func extHeads(n int, typ byte) [][]byte {
	var out [][]byte
	switch n {
	case 1:
		out = append(out, []byte{0xd4, typ})
	case 2:
		out = append(out, []byte{0xd5, typ})
	case 4:
		out = append(out, []byte{0xd6, typ})
	case 8:
		out = append(out, []byte{0xd7, typ})
	case 16:
		out = append(out, []byte{0xd8, typ})
	}
	if n <= 0xff {
		out = append(out, []byte{0xc7, byte(n), typ})
	}
	if n <= 0xffff {
		out = append(out, append(append([]byte{0xc8}, be(2, uint64(n))...), typ))
	}
	out = append(out, append(append([]byte{0xc9}, be(4, uint64(n))...), typ))
	return out
}

// timeForms: timestamp 32 / 64 / 96 (each with every ext head that can carry its length).
func timeForms(sec int64, nsec uint32) [][]byte {
	var out [][]byte
	if nsec == 0 && sec >= 0 && sec < 1<<32 {
		for _, h := range extHeads(4, 0xff) {
			out = append(out, append(h, be(4, uint64(sec))...))
		}
	}
	if sec >= 0 && sec < 1<<34 {
		for _, h := range extHeads(8, 0xff) {
			out = append(out, append(h, be(8, uint64(nsec)<<34|uint64(sec))...))
		}
	}
	for _, h := range extHeads(12, 0xff) {
		out = append(out, append(append(h, be(4, uint64(nsec))...), be(8, uint64(sec))...))
	}
	return out
}

// Forms returns every serialisation of a scalar item's head+payload; for containers every head.
func scalarForms(it *Item) [][]byte {
	switch it.K {
	case KNil:
		return [][]byte{{0xc0}}
	case KBool:
		if it.B {
			return [][]byte{{0xc3}}
		}
		return [][]byte{{0xc2}}
	case KInt, KUint:
		neg, mag, _ := it.intVal()
		return intForms(neg, mag)
	case KF32:
		return [][]byte{append([]byte{0xca}, be(4, it.Bits)...)}
	case KF64:
		return [][]byte{append([]byte{0xcb}, be(8, it.Bits)...)}
	case KStr:
		var out [][]byte
		for _, h := range lenHeads(len(it.S), 0xa0, 31, 0xd9, 0xda, 0xdb) {
			out = append(out, append(h, it.S...))
		}
		return out
	case KBytes:
		var out [][]byte
		for _, h := range lenHeads(len(it.S), 0, 0, 0xc4, 0xc5, 0xc6) {
			out = append(out, append(h, it.S...))
		}
		return out
	case KExt:
		var out [][]byte
		for _, h := range extHeads(len(it.S), byte(it.Tag)) {
			out = append(out, append(h, it.S...))
		}
		return out
	case KTime:
		return timeForms(it.Sec, it.Nsec)
	}
	return nil
}

// RefEncode serialises an item, picking a form at every node with ch.
func RefEncode(it *Item, ch chooser) []byte {
	switch it.K {
	case KArr:
		hs := lenHeads(len(it.L), 0x90, 15, 0, 0xdc, 0xdd)
		out := append([]byte{}, hs[ch(len(hs))]...)
		for i, x := range it.L {
			if i > 0 && x == it.L[i-1] && len(it.L) > 40 {
				// long uniform arrays: reuse the element's bytes
				prev := RefEncode(x, minimalChoice)
				out = append(out, prev...)
				continue
			}
			out = append(out, RefEncode(x, ch)...)
		}
		return out
	case KMap:
		hs := lenHeads(len(it.M), 0x80, 15, 0, 0xde, 0xdf)
		out := append([]byte{}, hs[ch(len(hs))]...)
		for _, kv := range it.M {
			out = append(out, RefEncode(kv[0], ch)...)
			out = append(out, RefEncode(kv[1], ch)...)
		}
		return out
	}
	fs := scalarForms(it)
	return fs[ch(len(fs))]
}

func randChooser(r *vh.Rng) chooser {
	return func(n int) int { return r.Intn(n) }
}

// ---- reference decoder ----

var errRefShort = errors.New("ref: truncated")
var errRefBad = errors.New("ref: not a MessagePack item")

type refDec struct {
	b []byte
	i int
}

func (d *refDec) take(n int) ([]byte, error) {
	if n < 0 || len(d.b)-d.i < n {
		return nil, errRefShort
	}
	x := d.b[d.i : d.i+n]
	d.i += n
	return x, nil
}

func (d *refDec) uintN(n int) (uint64, error) {
	x, err := d.take(n)
	if err != nil {
		return 0, err
	}
	var v uint64
	for _, c := range x {
		v = v<<8 | uint64(c)
	}
	return v, nil
}

func (d *refDec) ext(n int) (*Item, error) {
	t, err := d.take(1)
	if err != nil {
		return nil, err
	}
	typ := t[0]
	data, err := d.take(n)
	if err != nil {
		return nil, err
	}
	if typ == 0xff { // timestamp
		switch n {
		case 4:
			return &Item{K: KTime, Sec: int64(binary.BigEndian.Uint32(data))}, nil
		case 8:
			v := binary.BigEndian.Uint64(data)
			ns := v >> 34
			if ns > 999999999 {
				return nil, errRefBad
			}
			return &Item{K: KTime, Sec: int64(v & (1<<34 - 1)), Nsec: uint32(ns)}, nil
		case 12:
			ns := binary.BigEndian.Uint32(data[:4])
			if ns > 999999999 {
				return nil, errRefBad
			}
			return &Item{K: KTime, Sec: int64(binary.BigEndian.Uint64(data[4:])), Nsec: ns}, nil
		}
		return nil, errRefBad
	}
	return &Item{K: KExt, Tag: uint64(typ), S: append([]byte{}, data...)}, nil
}

func (d *refDec) seq(n uint64, pairs bool, depth int) (*Item, error) {
	it := &Item{K: KArr}
	if pairs {
		it.K = KMap
	}
	for j := uint64(0); j < n; j++ {
		x, err := d.item(depth + 1)
		if err != nil {
			return nil, err
		}
		if pairs {
			y, err := d.item(depth + 1)
			if err != nil {
				return nil, err
			}
			it.M = append(it.M, [2]*Item{x, y})
		} else {
			it.L = append(it.L, x)
		}
	}
	return it, nil
}

func (d *refDec) item(depth int) (*Item, error) {
	if depth > 10000 {
		return nil, errRefBad
	}
	c, err := d.take(1)
	if err != nil {
		return nil, err
	}
	b := c[0]
	switch {
	case b <= 0x7f:
		return &Item{K: KInt, I: int64(b)}, nil
	case b <= 0x8f:
		return d.seq(uint64(b&0x0f), true, depth)
	case b <= 0x9f:
		return d.seq(uint64(b&0x0f), false, depth)
	case b <= 0xbf:
		s, err := d.take(int(b & 0x1f))
		if err != nil {
			return nil, err
		}
		return &Item{K: KStr, S: append([]byte{}, s...)}, nil
	case b >= 0xe0:
		return &Item{K: KInt, I: int64(int8(b))}, nil
	}
	switch b {
	case 0xc0:
		return &Item{K: KNil}, nil
	case 0xc1:
		return nil, errRefBad
	case 0xc2:
		return &Item{K: KBool}, nil
	case 0xc3:
		return &Item{K: KBool, B: true}, nil
	case 0xc4, 0xc5, 0xc6, 0xd9, 0xda, 0xdb:
		w := map[byte]int{0xc4: 1, 0xc5: 2, 0xc6: 4, 0xd9: 1, 0xda: 2, 0xdb: 4}[b]
		n, err := d.uintN(w)
		if err != nil {
			return nil, err
		}
		if n > uint64(len(d.b)) {
			return nil, errRefShort
		}
		s, err := d.take(int(n))
		if err != nil {
			return nil, err
		}
		k := KStr
		if b <= 0xc6 {
			k = KBytes
		}
		return &Item{K: k, S: append([]byte{}, s...)}, nil
	case 0xc7, 0xc8, 0xc9:
		n, err := d.uintN(map[byte]int{0xc7: 1, 0xc8: 2, 0xc9: 4}[b])
		if err != nil {
			return nil, err
		}
		if n > uint64(len(d.b)) {
			return nil, errRefShort
		}
		return d.ext(int(n))
	case 0xca:
		v, err := d.uintN(4)
		return &Item{K: KF32, Bits: v}, err
	case 0xcb:
		v, err := d.uintN(8)
		return &Item{K: KF64, Bits: v}, err
	case 0xcc, 0xcd, 0xce, 0xcf:
		v, err := d.uintN(1 << (b - 0xcc))
		return &Item{K: KUint, U: v}, err
	case 0xd0:
		v, err := d.uintN(1)
		return &Item{K: KInt, I: int64(int8(v))}, err
	case 0xd1:
		v, err := d.uintN(2)
		return &Item{K: KInt, I: int64(int16(v))}, err
	case 0xd2:
		v, err := d.uintN(4)
		return &Item{K: KInt, I: int64(int32(v))}, err
	case 0xd3:
		v, err := d.uintN(8)
		return &Item{K: KInt, I: int64(v)}, err
	case 0xd4, 0xd5, 0xd6, 0xd7, 0xd8:
		return d.ext(1 << (b - 0xd4))
	case 0xdc, 0xdd, 0xde, 0xdf:
		w := 2
		if b&1 == 1 {
			w = 4
		}
		n, err := d.uintN(w)
		if err != nil {
			return nil, err
		}
		return d.seq(n, b >= 0xde, depth)
	}
	return nil, errRefBad
}

// RefDecode parses exactly one item from the front of b.
func RefDecode(b []byte) (it *Item, rest []byte, err error) {
	d := &refDec{b: b}
	it, err = d.item(0)
	if err != nil {
		return nil, nil, err
	}
	return it, b[d.i:], nil
}

// widen: float64(float32) on the bit patterns, by the definition of the two formats
// (not by the hardware conversion the library uses).
func widen(b uint32) uint64 {
	s := uint64(b>>31) << 63
	e := uint64(b>>23) & 0xff
	m := uint64(b & 0x7fffff)
	switch {
	case e == 0xff && m == 0:
		return s | 0x7ff<<52
	case e == 0xff:
		return s | 0x7ff<<52 | m<<29 | 1<<51 // quiet
	case e == 0 && m == 0:
		return s
	case e == 0:
		k := uint64(63 - leadingZeros(m))
		return s | (k+874)<<52 | (m-(1<<k))<<(52-k)
	}
	return s | (e+896)<<52 | m<<29
}

func leadingZeros(x uint64) int {
	n := 0
	for i := 63; i >= 0 && x>>uint(i)&1 == 0; i-- {
		n++
	}
	return n
}

var _ = math.MaxInt8

// vu stream: DecodeOptions.ValidateUnicode = true, destination interface{}.
//
// Items whose str-family leaves (values, array elements, map keys) are built from well-formed and
// ill-formed UTF-8 sequences (truncated multi-byte sequences, lone continuation bytes, overlong forms,
// surrogates U+D800..DFFF, code points above U+10FFFF, 0xfe/0xff), written by the reference encoder in
// any permitted form, sometimes cut short, are decoded by the real Decoder with the option ON.
//   correspondence  case kind 4: outcome class, tree and NumBytesRead vs the model's dec_naked_vu true
//                   (Wire/MsgpackVU.v: the option has no effect on DecodeNaked)
//   direct oracle   with WriteExt (str family = UTF-8 text of the current specification) a successful
//                   decode must not hand back a Go string that is not well-formed UTF-8.  The pinned
//                   code fails it (finding F10-5: DecodeNaked reads str through DecodeBytes, not
//                   DecodeStringAsBytes); the same bytes into a string destination are rejected, which
//                   the stream checks as well.
package main

import (
	"fmt"
	"unicode/utf8"

	"verifharness/vh"

	"github.com/ugorji/go/codec"
)

var utf8Good = [][]byte{
	[]byte("a"), []byte("xyz"), {0xc3, 0xa9}, {0xdf, 0xbf}, {0xe0, 0xa0, 0x80}, {0xe2, 0x82, 0xac}, {0xed, 0x9f, 0xbf},
	{0xee, 0x80, 0x80}, {0xef, 0xbf, 0xbf}, {0xf0, 0x90, 0x80, 0x80}, {0xf0, 0x9f, 0x98, 0x80}, {0xf4, 0x8f, 0xbf, 0xbf}, {0x00}, {0x7f},
}

var utf8Bad = map[string][][]byte{
	"lone-continuation": {{0x80}, {0xbf}, {0xa9}},
	"truncated":         {{0xc3}, {0xe2, 0x82}, {0xe2}, {0xf0, 0x9f, 0x98}, {0xf0, 0x9f}, {0xf4}},
	"overlong":          {{0xc0, 0x80}, {0xc1, 0xbf}, {0xe0, 0x80, 0x80}, {0xe0, 0x9f, 0xbf}, {0xf0, 0x80, 0x80, 0x80}, {0xf0, 0x8f, 0xbf, 0xbf}},
	"surrogate":         {{0xed, 0xa0, 0x80}, {0xed, 0xbf, 0xbf}, {0xed, 0xa0, 0xbd, 0xed, 0xb8, 0x80}},
	"above-10ffff":      {{0xf4, 0x90, 0x80, 0x80}, {0xf5, 0x80, 0x80, 0x80}, {0xf8, 0x88, 0x80, 0x80, 0x80}},
	"never-a-byte":      {{0xff}, {0xfe}},
	"bad-continuation":  {{0xc3, 0x28}, {0xe2, 0x28, 0xa1}, {0xe2, 0x82, 0x28}, {0xf0, 0x28, 0x8c, 0xbc}, {0xf0, 0x9f, 0x98, 0x28}},
}

var utf8BadKinds = []string{"lone-continuation", "truncated", "overlong", "surrogate", "above-10ffff", "never-a-byte", "bad-continuation"}

// vuText returns a text and the kind of its first ill-formed piece ("" if well-formed).
func vuText(r *vh.Rng, bad bool) ([]byte, string) {
	var out []byte
	n := r.Intn(5)
	for i := 0; i < n; i++ {
		out = append(out, utf8Good[r.Intn(len(utf8Good))]...)
	}
	kind := ""
	if bad {
		kind = utf8BadKinds[r.Intn(len(utf8BadKinds))]
		xs := utf8Bad[kind]
		out = append(out, xs[r.Intn(len(xs))]...)
		if kind != "truncated" || r.Bool() { // a truncated sequence at the very end, or followed by more text
			m := r.Intn(3)
			for i := 0; i < m; i++ {
				out = append(out, utf8Good[r.Intn(len(utf8Good))]...)
			}
		}
		if utf8.Valid(out) { // e.g. a truncated lead completed by what follows: force it
			out = append(out, 0xff)
			kind = "never-a-byte"
		}
	}
	return out, kind
}

func strItem(s []byte) *Item { return &Item{K: KStr, S: s} }

// vuItem builds an item with one designated text position; where = value | elem | key | mapval | nested-key
func vuItem(r *vh.Rng, bad bool) (it *Item, where, kind string) {
	s, kind := vuText(r, bad)
	good := func() *Item { g, _ := vuText(r, false); return strItem(g) }
	switch r.Intn(6) {
	case 0:
		return strItem(s), "value", kind
	case 1:
		l := []*Item{good(), {K: KInt, I: 7}}
		p := r.Intn(len(l) + 1)
		l = append(l[:p], append([]*Item{strItem(s)}, l[p:]...)...)
		return &Item{K: KArr, L: l}, "elem", kind
	case 2:
		return &Item{K: KMap, M: [][2]*Item{{strItem(s), {K: KInt, I: 1}}, {strItem(append([]byte("k"), s...)), good()}}}, "key", kind
	case 3:
		return &Item{K: KMap, M: [][2]*Item{{strItem([]byte("k")), strItem(s)}}}, "mapval", kind
	case 4:
		inner := &Item{K: KMap, M: [][2]*Item{{strItem(s), {K: KNil}}}}
		return &Item{K: KArr, L: []*Item{{K: KBool, B: true}, inner}}, "nested-key", kind
	default:
		// the same bytes in the bin family: never text
		return &Item{K: KArr, L: []*Item{{K: KBytes, S: s}, strItem(s)}}, "bin+str", kind
	}
}

func strLeavesValid(it *Item) bool {
	switch it.K {
	case KStr:
		return utf8.Valid(it.S)
	case KArr:
		for _, x := range it.L {
			if !strLeavesValid(x) {
				return false
			}
		}
	case KMap:
		for _, kv := range it.M {
			if !strLeavesValid(kv[0]) || !strLeavesValid(kv[1]) {
				return false
			}
		}
	}
	return true
}

func (h *H) vuStream(n int) {
	r := h.r.Fork()
	for i := 0; i < n; i++ {
		bad := r.Chance(3, 5)
		it, where, kind := vuItem(r, bad)
		b := RefEncode(it, randChooser(r))
		cut := false
		if r.Chance(1, 6) && len(b) > 1 {
			b = b[:1+r.Intn(len(b)-1)]
			cut = true
		}
		do := randDecOpts(r)
		do.ValidateUnicode = true
		if r.Chance(2, 3) {
			do.WriteExt = true
		}
		o := runDecode(do, b)
		cj := map[string]interface{}{"bytes": vh.Hex(trunc(b)), "opts": fmt.Sprintf("%+v", do), "where": where, "illformed": kind, "seed_index": i, "format": "msgpack"}
		if o.timedOut || o.panicked != "" {
			h.sum.FailC("vu", "hang-or-panic:decode-naked:vu", "Decode into interface{} with ValidateUnicode hung or let a panic escape", cj)
			continue
		}
		cls := errClass(o.err)
		dump := &Item{K: KNil}
		if cls == 0 {
			dump = FromGo(o.v)
		}
		h.addCase(4, encOpts{}, do, dump, b, cls, o.n)
		okc := "err"
		if cls == 0 {
			okc = "ok"
		}
		h.sum.Count("vu."+okc, fmt.Sprintf("vu/%s/%s/%s/cut%v/%s/%s", where, kind, okc, cut, do.Key(), firstClass(b)))
		// direct oracle of the property
		if !cut && cls == 0 && do.WriteExt && !strLeavesValid(it) {
			h.sum.FailC("vu", "vu:msgpack:naked-string-not-validated",
				"ValidateUnicode: a str-family item that is not well-formed UTF-8 was decoded into interface{} without an error", cj)
		}
		// the typed path does validate: a bare str into a string destination
		if !cut && it.K == KStr {
			var s string
			err := codec.NewDecoderBytes(exact(b), do.handle()).Decode(&s)
			if (err == nil) != utf8.Valid(it.S) {
				h.sum.FailC("vu", "vu:msgpack:string-destination", "ValidateUnicode: Decode into a string accepts exactly well-formed UTF-8: violated", cj)
			}
		}
	}
}

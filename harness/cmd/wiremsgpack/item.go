package main

import (
	"bytes"
	"fmt"
	"math"
	"strings"
	"time"

	"verifharness/vh"

	"github.com/ugorji/go/codec"
)

// Item mirrors Wire/Item.v (the part msgpack uses).
type kind int

const (
	KNil kind = iota
	KBool
	KInt
	KUint
	KF32
	KF64
	KStr
	KBytes
	KArr
	KMap
	KExt
	KTime
	KBad // a dynamic type DecodeNaked must never produce
)

type Item struct {
	K    kind
	B    bool
	I    int64
	U    uint64
	Bits uint64 // float bit pattern
	S    []byte // string / bytes / ext data
	L    []*Item
	M    [][2]*Item
	Tag  uint64
	Sec  int64
	Nsec uint32
	Note string // KBad: the Go type seen
}

// ---- Coq printers ----

// coqBytes prints a byte string; long periodic stretches (a block repeated k times) as
// (bcat block k), uniform runs being the period-1 case.
func coqBytes(b []byte) string {
	if len(b) == 0 {
		return "[]"
	}
	if len(b) < 48 {
		return vh.CoqBytes(b)
	}
	var parts []string
	lit := []byte{}
	flush := func() {
		if len(lit) > 0 {
			parts = append(parts, vh.CoqBytes(lit))
			lit = lit[:0]
		}
	}
	for i := 0; i < len(b); {
		bestP, bestK := 0, 0
		for p := 1; p <= 40 && i+2*p <= len(b); p++ {
			j := i
			for j+p < len(b) && b[j] == b[j+p] {
				j++
			}
			k := (j-i)/p + 1 // whole repetitions of b[i:i+p]
			if k*p >= 48 && k >= 3 && k*p > bestK*bestP {
				bestP, bestK = p, k
			}
			if p == 1 && k*p >= 48 {
				break
			}
		}
		if bestP > 0 {
			flush()
			parts = append(parts, fmt.Sprintf("bcat %s %d", vh.CoqBytes(b[i:i+bestP]), bestK))
			i += bestP * bestK
			continue
		}
		lit = append(lit, b[i])
		i++
	}
	flush()
	if len(parts) == 1 {
		return "(" + parts[0] + ")"
	}
	return "(" + strings.Join(parts, " ++ ") + ")"
}

func (it *Item) Coq() string {
	switch it.K {
	case KNil:
		return "INil"
	case KBool:
		return "(IBool " + vh.CoqBool(it.B) + ")"
	case KInt:
		return "(IInt " + vh.CoqZ(it.I) + ")"
	case KUint:
		return "(IUint " + vh.CoqN(it.U) + ")"
	case KF32:
		return "(IF32 " + vh.CoqN(it.Bits) + ")"
	case KF64:
		return "(IF64 " + vh.CoqN(it.Bits) + ")"
	case KStr:
		return "(IStr " + coqBytes(it.S) + ")"
	case KBytes:
		return "(IBytes " + coqBytes(it.S) + ")"
	case KArr:
		if len(it.L) == 0 {
			return "(IArr [])"
		}
		var parts []string
		var lit []string
		flush := func() {
			if len(lit) > 0 {
				parts = append(parts, "["+strings.Join(lit, ";")+"]")
				lit = nil
			}
		}
		strs := make([]string, len(it.L))
		for i, x := range it.L {
			if i > 0 && it.L[i] == it.L[i-1] {
				strs[i] = strs[i-1]
			} else {
				strs[i] = x.Coq()
			}
		}
		for i := 0; i < len(strs); {
			j := i
			for j < len(strs) && strs[j] == strs[i] {
				j++
			}
			if j-i >= 24 {
				flush()
				parts = append(parts, fmt.Sprintf("irep %s %d", strs[i], j-i))
			} else {
				lit = append(lit, strs[i:j]...)
			}
			i = j
		}
		flush()
		return "(IArr (" + strings.Join(parts, " ++ ") + "))"
	case KMap:
		if len(it.M) == 0 {
			return "(IMap [])"
		}
		var sb strings.Builder
		sb.WriteString("(IMap [")
		for i, kv := range it.M {
			if i > 0 {
				sb.WriteString(";")
			}
			sb.WriteString("(" + kv[0].Coq() + "," + kv[1].Coq() + ")")
		}
		sb.WriteString("])")
		return sb.String()
	case KExt:
		return "(IExt " + vh.CoqN(it.Tag) + " " + coqBytes(it.S) + ")"
	case KTime:
		return "(ITime " + vh.CoqZ(it.Sec) + " " + vh.CoqN(uint64(it.Nsec)) + ")"
	}
	// never equal to anything the model produces
	return "(ITag 0%N INil)"
}

func (it *Item) Short() string {
	s := it.Coq()
	if len(s) > 300 {
		s = s[:300] + "..."
	}
	return s
}

// ---- Go values ----

// mbs encodes as a map whose entries are the consecutive pairs, in order.
type mbs []interface{}

func (mbs) MapBySlice() {}

// ToGo builds the value handed to the real Encoder. typed: use narrower Go types where the value fits.
func (it *Item) ToGo(r *vh.Rng) interface{} {
	switch it.K {
	case KNil:
		return nil
	case KBool:
		return it.B
	case KInt:
		v := it.I
		switch r.Intn(5) {
		case 0:
			if v >= math.MinInt8 && v <= math.MaxInt8 {
				return int8(v)
			}
		case 1:
			if v >= math.MinInt16 && v <= math.MaxInt16 {
				return int16(v)
			}
		case 2:
			if v >= math.MinInt32 && v <= math.MaxInt32 {
				return int32(v)
			}
		case 3:
			return int(v)
		}
		return v
	case KUint:
		v := it.U
		switch r.Intn(5) {
		case 0:
			if v <= math.MaxUint8 {
				return uint8(v)
			}
		case 1:
			if v <= math.MaxUint16 {
				return uint16(v)
			}
		case 2:
			if v <= math.MaxUint32 {
				return uint32(v)
			}
		case 3:
			return uint(v)
		}
		return v
	case KF32:
		return math.Float32frombits(uint32(it.Bits))
	case KF64:
		return math.Float64frombits(it.Bits)
	case KStr:
		return string(it.S)
	case KBytes:
		b := make([]byte, len(it.S)) // non-nil even when empty
		copy(b, it.S)
		return b
	case KArr:
		l := make([]interface{}, len(it.L))
		for i, x := range it.L {
			l[i] = x.ToGo(r)
		}
		return l
	case KMap:
		l := make(mbs, 0, 2*len(it.M))
		for _, kv := range it.M {
			l = append(l, kv[0].ToGo(r), kv[1].ToGo(r))
		}
		return l
	case KExt:
		d := make([]byte, len(it.S))
		copy(d, it.S)
		if r.Bool() {
			return codec.RawExt{Tag: it.Tag, Data: d}
		}
		return &codec.RawExt{Tag: it.Tag, Data: d}
	case KTime:
		t := time.Unix(it.Sec, int64(it.Nsec))
		if r.Bool() {
			return t.UTC()
		}
		return t.In(time.FixedZone("x", (r.Intn(27)-13)*3600))
	}
	panic("ToGo: bad item")
}

// FromGo dumps what Decode stored into an interface{}.
func FromGo(v interface{}) *Item {
	switch x := v.(type) {
	case nil:
		return &Item{K: KNil}
	case bool:
		return &Item{K: KBool, B: x}
	case int64:
		return &Item{K: KInt, I: x}
	case uint64:
		return &Item{K: KUint, U: x}
	case float64:
		return &Item{K: KF64, Bits: math.Float64bits(x)}
	case string:
		return &Item{K: KStr, S: []byte(x)}
	case []byte:
		return &Item{K: KBytes, S: append([]byte{}, x...)}
	case []interface{}:
		it := &Item{K: KArr, L: make([]*Item, len(x))}
		for i, e := range x {
			it.L[i] = FromGo(e)
		}
		return it
	case map[interface{}]interface{}:
		it := &Item{K: KMap}
		for k, e := range x {
			it.M = append(it.M, [2]*Item{FromGo(k), FromGo(e)})
		}
		return it
	case codec.RawExt:
		if x.Value != nil {
			return &Item{K: KBad, Note: "RawExt with Value"}
		}
		return &Item{K: KExt, Tag: x.Tag, S: append([]byte{}, x.Data...)}
	case time.Time:
		return &Item{K: KTime, Sec: x.Unix(), Nsec: uint32(x.Nanosecond())}
	}
	return &Item{K: KBad, Note: fmt.Sprintf("%T", v)}
}

func (it *Item) HasBad() bool {
	if it.K == KBad {
		return true
	}
	for _, x := range it.L {
		if x.HasBad() {
			return true
		}
	}
	for _, kv := range it.M {
		if kv[0].HasBad() || kv[1].HasBad() {
			return true
		}
	}
	return false
}

func (it *Item) Depth() int {
	d := 0
	for _, x := range it.L {
		d = max(d, x.Depth())
	}
	for _, kv := range it.M {
		d = max(d, kv[0].Depth(), kv[1].Depth())
	}
	if it.K == KArr || it.K == KMap {
		return d + 1
	}
	return 0
}

// intVal returns the integer an int/uint item denotes, as (negative?, magnitude-or-value).
func (it *Item) intVal() (neg bool, mag uint64, ok bool) {
	switch it.K {
	case KInt:
		if it.I < 0 {
			return true, uint64(it.I), true
		}
		return false, uint64(it.I), true
	case KUint:
		return false, it.U, true
	}
	return false, 0, false
}

// SameData: equal data; integers compare by value (the wire format, not the value, decides whether
// the library hands back int64 or uint64), maps as sets of entries.
func SameData(a, b *Item) bool {
	if an, am, ok := a.intVal(); ok {
		bn, bm, ok2 := b.intVal()
		return ok2 && an == bn && am == bm
	}
	if a.K != b.K {
		return false
	}
	switch a.K {
	case KNil:
		return true
	case KBool:
		return a.B == b.B
	case KF32, KF64:
		return a.Bits == b.Bits
	case KStr, KBytes:
		return bytes.Equal(a.S, b.S)
	case KExt:
		return a.Tag == b.Tag && bytes.Equal(a.S, b.S)
	case KTime:
		return a.Sec == b.Sec && a.Nsec == b.Nsec
	case KArr:
		if len(a.L) != len(b.L) {
			return false
		}
		for i := range a.L {
			if !SameData(a.L[i], b.L[i]) {
				return false
			}
		}
		return true
	case KMap:
		if len(a.M) != len(b.M) {
			return false
		}
		used := make([]bool, len(b.M))
	outer:
		for _, kv := range a.M {
			for j, kw := range b.M {
				if !used[j] && SameData(kv[0], kw[0]) && SameData(kv[1], kw[1]) {
					used[j] = true
					continue outer
				}
			}
			return false
		}
		return true
	}
	return false
}

// ---- random items ----

var lenBounds = []int{0, 1, 2, 15, 16, 17, 31, 32, 33, 255, 256, 257}
var bigLens = []int{65535, 65536, 65537}

var intBounds = []int64{0, 1, -1, 127, 128, -32, -33, -128, -129, 255, 256, 32767, 32768, -32768, -32769,
	65535, 65536, 2147483647, 2147483648, -2147483648, -2147483649, 4294967295, 4294967296,
	math.MaxInt64, math.MinInt64, math.MaxInt64 - 1, math.MinInt64 + 1}
var uintBounds = []uint64{0, 1, 127, 128, 255, 256, 65535, 65536, 4294967295, 4294967296,
	1<<63 - 1, 1 << 63, 1<<63 + 1, math.MaxUint64, math.MaxUint64 - 1}

var f32Bounds = []uint32{0, 0x80000000, 0x3fc00000, 0x7f800000, 0xff800000, 0x7fc00000, 0x7fa00000, 0xffc00001,
	1, 0x007fffff, 0x00800000, 0x7f7fffff, 0x00400000, 0x80000001, 0x7f800001}
var f64Bounds = []uint64{0, 1 << 63, 0x3ff8000000000000, 0x7ff0000000000000, 0xfff0000000000000,
	0x7ff8000000000000, 0x7ff4000000000000, 1, 0x000fffffffffffff, 0x0010000000000000, 0x7fefffffffffffff}

type genOpts struct {
	maxDepth  int
	big       bool // allow one length around 65536
	hashKeys  bool // map keys hashable and pairwise distinct
	noTime255 bool // no ext tag 255
}

func randLen(r *vh.Rng, g *genOpts, small bool) int {
	if g.big && r.Chance(1, 3) {
		g.big = false
		return bigLens[r.Intn(len(bigLens))]
	}
	if small {
		return r.PickInt(0, 1, 2, 3, 15, 16, 17)
	}
	if r.Chance(1, 2) {
		return lenBounds[r.Intn(len(lenBounds))]
	}
	return r.Intn(40)
}

func randPayload(r *vh.Rng, n int) []byte {
	if n >= 48 {
		// long payloads are uniform so that they print compactly
		b := bytes.Repeat([]byte{byte(r.U64())}, n)
		if r.Bool() {
			b[0] = byte(r.U64())
			b[n-1] = byte(r.U64())
		}
		return b
	}
	b := r.Bytes(n)
	if r.Chance(2, 3) {
		for i := range b {
			b[i] = 'a' + b[i]%26
		}
	}
	return b
}

func randInt(r *vh.Rng) int64 {
	switch r.Intn(4) {
	case 0:
		return intBounds[r.Intn(len(intBounds))]
	case 1:
		return int64(r.Intn(300)) - 150
	case 2:
		// around a power of two
		k := uint(r.Intn(64))
		v := int64(1) << k
		v += int64(r.Intn(3)) - 1
		if r.Bool() {
			v = -v
		}
		return v
	}
	return int64(r.U64())
}

func randUint(r *vh.Rng) uint64 {
	switch r.Intn(4) {
	case 0:
		return uintBounds[r.Intn(len(uintBounds))]
	case 1:
		return uint64(r.Intn(300))
	case 2:
		k := uint(r.Intn(64))
		return (uint64(1) << k) + uint64(r.Intn(3)) - 1
	}
	return r.U64()
}

func randTime(r *vh.Rng) (int64, uint32) {
	var sec int64
	switch r.Intn(7) {
	case 0:
		sec = int64(r.PickInt(0, 1, -1, 1700000000))
	case 1:
		sec = int64(1)<<32 + int64(r.Intn(3)) - 1
	case 2:
		sec = int64(1)<<34 + int64(r.Intn(3)) - 1
	case 3:
		sec = -62135596800 + int64(r.Intn(3)) - 1 // around the zero time.Time
	case 4:
		sec = int64(r.U64() >> uint(2+r.Intn(40)))
	case 5:
		sec = -int64(r.U64() >> uint(2+r.Intn(40)))
	default:
		sec = int64(r.U64() % (1 << 33))
	}
	var nsec uint32
	switch r.Intn(4) {
	case 0:
		nsec = 0
	case 1:
		nsec = uint32(r.PickInt(1, 999999999, 500000000))
	default:
		nsec = uint32(r.Intn(1000000000))
	}
	return sec, nsec
}

func randScalar(r *vh.Rng, g *genOpts) *Item {
	switch r.Intn(12) {
	case 0:
		return &Item{K: KNil}
	case 1:
		return &Item{K: KBool, B: r.Bool()}
	case 2, 3:
		return &Item{K: KInt, I: randInt(r)}
	case 4, 5:
		return &Item{K: KUint, U: randUint(r)}
	case 6:
		if r.Bool() {
			return &Item{K: KF32, Bits: uint64(f32Bounds[r.Intn(len(f32Bounds))])}
		}
		return &Item{K: KF32, Bits: uint64(uint32(r.U64()))}
	case 7:
		if r.Bool() {
			return &Item{K: KF64, Bits: f64Bounds[r.Intn(len(f64Bounds))]}
		}
		return &Item{K: KF64, Bits: r.U64()}
	case 8:
		return &Item{K: KStr, S: randPayload(r, randLen(r, g, false))}
	case 9:
		return &Item{K: KBytes, S: randPayload(r, randLen(r, g, false))}
	case 10:
		tag := uint64(r.PickInt(0, 1, 5, 127, 128, 200, 254))
		if !g.noTime255 && r.Chance(1, 12) {
			tag = 255
		}
		n := randLen(r, g, false)
		if r.Chance(1, 2) {
			n = r.PickInt(0, 1, 2, 3, 4, 5, 8, 9, 12, 16, 17)
		}
		return &Item{K: KExt, Tag: tag, S: randPayload(r, n)}
	default:
		s, n := randTime(r)
		return &Item{K: KTime, Sec: s, Nsec: n}
	}
}

func randKey(r *vh.Rng, g *genOpts, i int) *Item {
	if g.hashKeys {
		// pairwise distinct by construction (index i is part of the payload), no floats
		switch r.Intn(5) {
		case 0:
			return &Item{K: KInt, I: int64(i)*1000 + int64(r.Intn(1000)) - 500}
		case 1:
			return &Item{K: KStr, S: []byte(fmt.Sprintf("k%d_%d", i, r.Intn(100)))}
		case 2:
			return &Item{K: KBytes, S: []byte(fmt.Sprintf("b%d", i))}
		case 3:
			if i == 0 {
				return &Item{K: KNil}
			}
			return &Item{K: KInt, I: -int64(i) * 100000}
		default:
			if i < 2 {
				return &Item{K: KBool, B: i == 1}
			}
			return &Item{K: KStr, S: []byte(fmt.Sprintf("s%d", i))}
		}
	}
	return randScalar(r, g)
}

func randItem(r *vh.Rng, g *genOpts, depth int) *Item {
	if depth >= g.maxDepth || r.Chance(3, 5) {
		return randScalar(r, g)
	}
	if r.Bool() {
		n := randLen(r, g, true)
		it := &Item{K: KArr, L: make([]*Item, n)}
		if n > 40 {
			x := randScalar(r, &genOpts{maxDepth: 0, noTime255: g.noTime255})
			if len(x.S) > 8 {
				x.S = x.S[:8]
			}
			for i := range it.L {
				it.L[i] = x
			}
			if r.Bool() {
				it.L[n-1] = &Item{K: KInt, I: 7}
			}
			return it
		}
		for i := range it.L {
			it.L[i] = randItem(r, g, depth+1)
		}
		return it
	}
	n := randLen(r, g, true)
	if n > 40 {
		n = 17
	}
	it := &Item{K: KMap, M: make([][2]*Item, n)}
	for i := range it.M {
		it.M[i] = [2]*Item{randKey(r, g, i), randItem(r, g, depth+1)}
	}
	return it
}
